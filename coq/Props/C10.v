(* C10 - conversions between representations preserve the incidence relation.
   Model/Convert.v gives to_* (read off the tables) and from_* (the calls the implementation makes
   on an empty hypergraph).  The theorems are round trips from_X (to_X s) for every state s with the
   invariant Inv (every state reachable by an admissible history, C01) and without the label None
   (which every mutating method rejects; NoNone is a hypothesis here, as in C07).  The remaining
   representations (incidence matrix, bipartite graph, HIF and standard dicts, the directed and
   simplicial classes) are tied to the code by the correspondence and decided by the oracle. *)
From Coq Require Import String ZArith List Bool.
From XV Require Import Base.Label Base.LSet Base.ODict Base.Attr Base.Outcome Model.Hypergraph Model.HgCheck Model.Convert
  Proofs.HgViews Proofs.HgInv Proofs.HgStep Proofs.HgErrors Proofs.DerivedProofs Proofs.ConvertProofs Proofs.NoNoneProofs Model.Matrix Model.Graph Proofs.IncidenceRoundTrip Proofs.BipartiteRoundTrip Model.DiHypergraph Proofs.DiInv Proofs.DiToHg.
Import ListNotations.
Open Scope Z_scope.

(* hyperedge list: same member sets in the same order (the representation carries no labels) *)
Theorem C10_hyperedge_list_roundtrip : forall s, Inv s -> NoNone s ->
  let r := from_hyperedge_list (to_hyperedge_list s) in
  let t := st_of r in
  out_of r = Ok /\ Inv t /\
  ekeys t = map (fun j => LInt (Z.of_nat j)) (seq 0 (length (h_edge s))) /\
  (forall j, (j < length (h_edge s))%nat -> seteq (mems t (LInt (Z.of_nat j))) (snd (nth j (h_edge s) (LNone, [])))) /\
  (forall x, In x (nkeys t) <-> exists e, In x (mems s e)).
Proof. exact hyperedge_list_roundtrip. Qed.
Print Assumptions C10_hyperedge_list_roundtrip.

(* hyperedge dict: same edge labels, same order, same members; the nodes are those in some edge *)
Theorem C10_hyperedge_dict_roundtrip : forall s, Inv s -> NoNone s ->
  let r := from_hyperedge_dict (to_hyperedge_dict s) in
  let t := st_of r in
  out_of r = Ok /\ Inv t /\ ekeys t = ekeys s /\
  (forall e, In e (ekeys s) -> seteq (mems t e) (mems s e)) /\
  (forall x, In x (nkeys t) <-> exists e, In x (mems s e)).
Proof. exact hyperedge_dict_roundtrip. Qed.
Print Assumptions C10_hyperedge_dict_roundtrip.

(* bipartite edge list and two-column dataframe: exactly the same incidences under the same labels *)
Theorem C10_bipartite_edgelist_roundtrip : forall s, Inv s -> NoNone s -> to_bipartite_edgelist s <> [] ->
  let r := from_bipartite_edgelist (to_bipartite_edgelist s) in
  let t := st_of r in
  out_of r = Ok /\ forall n e, In n (mems t e) <-> In n (mems s e).
Proof. exact bipartite_edgelist_roundtrip. Qed.
Print Assumptions C10_bipartite_edgelist_roundtrip.

Theorem C10_dataframe_roundtrip : forall s, Inv s -> NoNone s ->
  let r := from_dataframe (to_dataframe s) in
  let t := st_of r in
  out_of r = Ok /\ forall n e, In n (mems t e) <-> In n (mems s e).
Proof. exact dataframe_roundtrip. Qed.
Print Assumptions C10_dataframe_roundtrip.

(* labelled incidence matrix: the pairs read off the matrix under its own index maps are exactly the
   incidences, so rebuilding from them gives back the incidence relation *)
Theorem C10_incidence_matrix_roundtrip : forall s, Inv s -> NoNone s ->
  let r := from_incidence_matrix (incidence s None) (Some (keys (h_node s), keys (h_edge s))) in
  let t := st_of r in
  (h_edge s <> [] -> h_node s <> [] -> out_of r = Ok) /\
  (out_of r = Ok -> forall n e, In n (mems t e) <-> In n (mems s e)).
Proof. exact incidence_matrix_roundtrip. Qed.
Print Assumptions C10_incidence_matrix_roundtrip.

(* bipartite graph: node i of H <-> vertex i, edge j <-> vertex n + j, exactly the incidences of H *)
Theorem C10_bipartite_graph_roundtrip : forall s, Inv s ->
  let n := length (keys (h_node s)) in
  let r := from_bipartite_graph n (bipartite_links s) in
  let t := st_of r in
  out_of r = Ok /\
  (forall i j, (i < n)%nat -> (j < length (h_edge s))%nat ->
     (In (LInt (Z.of_nat i)) (mems t (LInt (Z.of_nat (n + j)))) <->
      In (nth i (keys (h_node s)) LNone) (snd (nth j (h_edge s) (LNone, []))))).
Proof. exact bipartite_graph_roundtrip. Qed.
Print Assumptions C10_bipartite_graph_roundtrip.

(* what from_* builds from ANY list of (node, edge) pairs: exactly the listed incidences *)
Theorem C10_pairs_build_exactly : forall l,
  (forall p, In p l -> fst p <> LNone /\ snd p <> LNone) ->
  let r := add_pairs l hg_empty in
  out_of r = Ok /\ forall y x, In x (mems (st_of r) y) <-> In (x, y) l.
Proof.
  intros l H. destruct (add_pairs_effect l hg_empty H) as [O1 M1]. split; [exact O1|].
  intros y x. rewrite M1. split; [intros [A|[]]; exact A|auto].
Qed.
Print Assumptions C10_pairs_build_exactly.

(* HIF dict: isolated nodes, empty edges, incidences, all attribute dicts, network attributes *)
Theorem C10_hif_dict_roundtrip : forall s, Inv s -> NoNone s ->
  let r := from_hif (to_hif s) in
  let t := st_of r in
  out_of r = Ok /\ Inv t /\
  (forall n e, In n (mems t e) <-> In n (mems s e)) /\
  (forall x, In x (nkeys t) <-> In x (nkeys s)) /\
  (forall y, In y (ekeys t) <-> In y (ekeys s)) /\
  (forall n, In n (nkeys s) -> geta n (h_nattr t) = aupdate [] (geta n (h_nattr s))) /\
  (forall e, In e (ekeys s) -> geta e (h_eattr t) = aupdate [] (geta e (h_eattr s))) /\
  h_net t = h_net s.
Proof. exact hif_roundtrip. Qed.
Print Assumptions C10_hif_dict_roundtrip.

(* the premises hold at every state reachable by an admissible history *)
Theorem C10_reachable_Inv : forall ops, admissible_history hg_empty ops -> Inv (run ops hg_empty).
Proof. intros ops A. apply run_Inv; [exact A|apply Inv_empty]. Qed.
Print Assumptions C10_reachable_Inv.

(* the premises Inv and NoNone hold at every state reachable by an admissible history in which no
   explicit edge id is None (Python cannot pass one: idx=None means "automatic") *)
Theorem C10_premises_reachable : forall ops,
  admissible_history hg_empty ops -> expressible_history ops ->
  Inv (run ops hg_empty) /\ NoNone (run ops hg_empty).
Proof. intros ops A E. apply run_NoNone; [exact A|exact E|apply Inv_empty|apply NoNone_empty]. Qed.
Print Assumptions C10_premises_reachable.

Example C10_nonvacuous :
  let s := run [OAddEdgesFrom (EB1 [[LInt 1; LInt 2; LInt 3]; []; [LInt 3; LInt 4]]) []; OAddNode (LInt 9) [("c"%string, AInt 1)]] hg_empty in
  h_edge (st_of (from_hyperedge_dict (to_hyperedge_dict s))) = h_edge s /\
  h_edge (st_of (from_hyperedge_list (to_hyperedge_list s))) = h_edge s /\
  get (LInt 1) (h_edge (st_of (from_hif (to_hif s)))) = Some [] /\ h_node (st_of (from_hif (to_hif s))) = h_node s /\
  h_nattr (st_of (from_hif (to_hif s))) = h_nattr s.
Proof. vm_compute. repeat split. Qed.
Print Assumptions C10_nonvacuous.

(* Hypergraph(D) for a directed hypergraph D: the nodes and edges of D in the same order, every edge holding the
   union of its tail and head, the attribute dicts and the network attributes of D *)
Theorem C10_hypergraph_of_dihypergraph : forall d, DInv d -> NoNone (ts d) ->
  let r := hg_of_di d in
  let t := st_of r in
  Proofs.HgErrors.out_of r = Ok /\ Inv t /\
  nkeys t = nkeys (ts d) /\ ekeys t = ekeys (ts d) /\
  (forall e, In e (ekeys (ts d)) ->
     (exists M, get e (h_edge t) = Some M /\ forall x, In x M <-> In x (tail d e) \/ In x (head d e)) /\
     get e (h_eattr t) = Some (aupdate [] (aupdate [] (geta e (h_eattr (ts d)))))) /\
  (forall n, In n (nkeys (ts d)) -> get n (h_nattr t) = Some (aupdate [] (aupdate [] (geta n (h_nattr (ts d)))))) /\
  h_net t = h_net (ts d).
Proof. exact hg_of_di_spec. Qed.
Print Assumptions C10_hypergraph_of_dihypergraph.
