"""Fail-closed translator for C17: every public function with a `seed` parameter -> the sequence of
random-number events it performs (Gen/SeedIR.v), read off the source on every run.

Events (in source order, callees inside xgi inlined):
  ESeed st   the stream st is (re)initialised from the function's `seed` argument
  EDraw st   a value is drawn from the stream st
Streams:
  PyRandom   the global generator of the `random` module
  NpGlobal   numpy's global generator (np.random.*)
  Local n    a generator object created inside the function (np.random.default_rng(...))
  Extern n   an external routine that takes the seed as an argument (networkx layouts / generators)
  Ambient    randomness that no argument controls (an eigensolver's start vector, an unseeded
             default_rng(), ...); it can never be seeded, so a draw from it fails the check

Soundness conventions (conservative):
  * the function is analysed under the assumption `seed is not None` (the property is about calls
    that pass a seed): the body of `if seed is not None:` counts as executed, its `else` is skipped;
  * a seeding statement inside any other conditional or loop is ignored (it may not execute), draws
    inside them are kept;
  * a call whose dotted name mentions `random`/`rng` and is not understood makes the translation fail.
"""
import ast, importlib, inspect, os, pkgutil
from . import common as C
from .translate import TranslationError, write_if_changed, GEN

NX_RANDOM = {"spring_layout", "random_layout", "fruchterman_reingold_layout", "kamada_kawai_layout",
             "erdos_renyi_graph", "gnp_random_graph", "fast_gnp_random_graph", "gnm_random_graph",
             "watts_strogatz_graph", "barabasi_albert_graph", "random_regular_graph", "spectral_layout"}
NX_DETERMINISTIC_WITHOUT_SEED = {"kamada_kawai_layout", "spectral_layout"}
EIGENSOLVERS = {"eigsh", "eigs", "svds", "lobpcg"}


def dotted(node):
    parts = []
    while isinstance(node, ast.Attribute):
        parts.append(node.attr); node = node.value
    if isinstance(node, ast.Name):
        parts.append(node.id)
        return ".".join(reversed(parts))
    return None


class Module:
    def __init__(self, path, modname):
        self.path, self.modname = path, modname
        self.tree = ast.parse(open(path).read())
        self.funcs = {n.name: n for n in self.tree.body if isinstance(n, ast.FunctionDef)}
        self.imports = {}      # local name -> ("module", dotted) | ("from", module, name)
        for n in ast.walk(self.tree):
            if isinstance(n, ast.Import):
                for a in n.names:
                    self.imports[a.asname or a.name.split(".")[0]] = ("module", a.name if a.asname else a.name.split(".")[0])
            elif isinstance(n, ast.ImportFrom):
                base = n.module or ""
                if n.level:
                    pkg = modname.split(".")[:-n.level]
                    base = ".".join(pkg + ([base] if base else []))
                for a in n.names:
                    self.imports[a.asname or a.name] = ("from", base, a.name)


class Analyzer:
    def __init__(self, root):
        self.root = root
        self.modules = {}
        for dirpath, _, files in os.walk(os.path.join(root, "xgi")):
            for f in files:
                if f.endswith(".py"):
                    p = os.path.join(dirpath, f)
                    rel = os.path.relpath(p, root)[:-3].replace(os.sep, ".")
                    if rel.endswith(".__init__"):
                        rel = rel[:-9]
                    self.modules[rel] = Module(p, rel if not f == "__init__.py" else rel + ".__init__")
        self.counter = 0

    def fresh(self, kind):
        self.counter += 1
        return f"({kind} {self.counter}%nat)"

    # --- name resolution --------------------------------------------------------------------
    def resolve_function(self, mod, name, depth=0):
        """(module, FunctionDef) for a bare name used in `mod`, following xgi-internal imports."""
        if depth > 6:
            return None
        if name in mod.funcs:
            return mod, mod.funcs[name]
        imp = mod.imports.get(name)
        if imp and imp[0] == "from" and imp[1].startswith("xgi"):
            target = self.modules.get(imp[1])
            if target is None:
                return None
            r = self.resolve_function(target, imp[2], depth + 1)
            if r:
                return r
            # re-exported through a package __init__ with `from .x import *`
            for m in self.modules.values():
                if m.modname.startswith(imp[1]) and imp[2] in m.funcs:
                    return m, m.funcs[imp[2]]
        return None

    def module_alias(self, mod, name):
        imp = mod.imports.get(name)
        if imp and imp[0] == "module":
            return imp[1]
        if imp and imp[0] == "from":
            return imp[1] + "." + imp[2]
        return None

    # --- events -------------------------------------------------------------------------------
    def events_of(self, mod, fn, seed_names, stack=()):
        """list of event strings for the body of fn; seed_names = local names holding the seed"""
        key = (mod.modname, fn.name)
        if key in stack or len(stack) > 8:
            return []
        stack = stack + (key,)
        locals_rng = {}       # local name -> stream term
        ev = []

        def is_seed_expr(e):
            return isinstance(e, ast.Name) and e.id in seed_names

        def seed_kw(call):
            for kw in call.keywords:
                if kw.arg in ("seed", "random_state") and is_seed_expr(kw.value):
                    return True
            return False

        def visit_call(call, guarded):
            d = dotted(call.func)
            # arguments first (evaluation order)
            for a in list(call.args) + [k.value for k in call.keywords]:
                visit_expr(a, guarded)
            if d is None:
                if isinstance(call.func, ast.Attribute):
                    inner = call.func.value
                    # np.random.default_rng(seed).method(...): an anonymous generator object
                    if isinstance(inner, ast.Call) and dotted(inner.func):
                        di = dotted(inner.func).split(".")
                        al = self.module_alias(mod, di[0])
                        fulli = ".".join([al] + di[1:]) if al else ".".join(di)
                        if fulli in ("numpy.random.default_rng", "numpy.random.RandomState"):
                            seeded = (inner.args and is_seed_expr(inner.args[0])) or seed_kw(inner)
                            if seeded:
                                st = self.fresh("Local")
                                ev.append(f"ESeed {st}"); ev.append(f"EDraw {st}")
                            else:
                                ev.append("EDraw Ambient")
                            return
                    visit_expr(inner, guarded)
                return
            parts = d.split(".")
            head = parts[0]
            full = None
            alias = self.module_alias(mod, head)
            if alias:
                full = ".".join([alias] + parts[1:])
            # the random module
            if full and (full == "random.seed"):
                if call.args and is_seed_expr(call.args[0]) and not guarded:
                    ev.append("ESeed PyRandom")
                return
            if full and full.startswith("random.") and len(full.split(".")) == 2:
                ev.append("EDraw PyRandom"); return
            # numpy global generator
            if full in ("numpy.random.seed",):
                if call.args and is_seed_expr(call.args[0]) and not guarded:
                    ev.append("ESeed NpGlobal")
                return
            if full in ("numpy.random.default_rng", "numpy.random.RandomState", "numpy.random.Generator"):
                return   # handled at the assignment
            if full and full.startswith("numpy.random."):
                ev.append("EDraw NpGlobal"); return
            # a local generator object
            if head in locals_rng and len(parts) == 2:
                ev.append(f"EDraw {locals_rng[head]}"); return
            # networkx
            if full and full.startswith("networkx."):
                name = parts[-1]
                if seed_kw(call):
                    st = self.fresh("Extern")
                    if not guarded:
                        ev.append(f"ESeed {st}")
                    ev.append(f"EDraw {st}")
                elif name in NX_RANDOM and name not in NX_DETERMINISTIC_WITHOUT_SEED:
                    ev.append("EDraw NpGlobal")
                return
            # eigensolvers with a random start vector
            if parts[-1] in EIGENSOLVERS:
                if not any(kw.arg in ("v0", "X") for kw in call.keywords):
                    ev.append("EDraw Ambient")
                return
            # xgi-internal function: inline
            if len(parts) == 1:
                r = self.resolve_function(mod, head)
                if r:
                    m2, f2 = r
                    params = [a.arg for a in f2.args.args + f2.args.kwonlyargs]
                    passed = set()
                    for i, a in enumerate(call.args):
                        if is_seed_expr(a) and i < len(params):
                            passed.add(params[i])
                    for kw in call.keywords:
                        if kw.arg and is_seed_expr(kw.value):
                            passed.add(kw.arg)
                    sub = self.events_of(m2, f2, passed, stack)
                    if guarded:
                        sub = [e for e in sub if not e.startswith("ESeed")]
                    ev.extend(sub)
                    return
            elif alias and alias.startswith("xgi"):
                target = self.modules.get(alias)
                if target and parts[-1] in target.funcs and len(parts) == 2:
                    sub = self.events_of(target, target.funcs[parts[-1]], set(), stack)
                    ev.extend([e for e in sub if not (guarded and e.startswith("ESeed"))])
                    return
            low = d.lower()
            if ("random" in low or low.startswith("rng") or ".rng" in low) and not low.startswith("self."):
                raise TranslationError(f"{mod.modname}.{fn.name}: call {d}(...) not understood")

        def visit_expr(e, guarded):
            if e is None:
                return
            for node in ast.iter_child_nodes(e) if not isinstance(e, ast.Call) else []:
                visit_expr(node, guarded)
            if isinstance(e, ast.Call):
                visit_call(e, guarded)

        def bind_rng(target, value, guarded):
            if not (isinstance(target, ast.Name) and isinstance(value, ast.Call)):
                return False
            d = dotted(value.func)
            if d is None:
                return False
            alias = self.module_alias(mod, d.split(".")[0])
            full = ".".join([alias] + d.split(".")[1:]) if alias else d
            if full in ("numpy.random.default_rng", "numpy.random.RandomState"):
                seeded = (value.args and is_seed_expr(value.args[0])) or seed_kw(value)
                st = self.fresh("Local") if seeded and not guarded else "Ambient"
                if seeded and not guarded:
                    ev.append(f"ESeed {st}")
                locals_rng[target.id] = st
                return True
            return False

        def visit_stmts(stmts, guarded):
            for st in stmts:
                if isinstance(st, ast.If):
                    t = ast.unparse(st.test).replace(" ", "")
                    if any(t == f"{s}isnotNone" for s in seed_names):
                        visit_stmts(st.body, guarded)
                    elif any(t == f"{s}isNone" for s in seed_names):
                        visit_stmts(st.orelse, guarded)
                    else:
                        visit_expr(st.test, guarded)
                        visit_stmts(st.body, True); visit_stmts(st.orelse, True)
                elif isinstance(st, (ast.For, ast.While)):
                    visit_expr(st.iter if isinstance(st, ast.For) else st.test, guarded)
                    visit_stmts(st.body, True); visit_stmts(st.orelse, True)
                elif isinstance(st, ast.Try):
                    visit_stmts(st.body, True)
                    for h in st.handlers:
                        visit_stmts(h.body, True)
                    visit_stmts(st.orelse, True); visit_stmts(st.finalbody, True)
                elif isinstance(st, ast.With):
                    for it in st.items:
                        visit_expr(it.context_expr, guarded)
                    visit_stmts(st.body, guarded)
                elif isinstance(st, ast.Assign) and len(st.targets) == 1 and bind_rng(st.targets[0], st.value, guarded):
                    continue
                elif isinstance(st, (ast.FunctionDef, ast.ClassDef)):
                    # nested helper: its body runs when called; analyse it conservatively in place
                    if isinstance(st, ast.FunctionDef):
                        visit_stmts(st.body, True)
                else:
                    for node in ast.iter_child_nodes(st):
                        if isinstance(node, ast.expr):
                            visit_expr(node, guarded)
        visit_stmts(fn.body, False)
        return ev


def seeded_public_functions(root):
    """(module name, function name) of the module-level functions with a `seed` parameter that the
    package exports, read from the source tree"""
    an = Analyzer(root)
    init = an.modules.get("xgi")
    out = []
    for name, m in sorted(an.modules.items()):
        for fname, fn in m.funcs.items():
            params = [a.arg for a in fn.args.args + fn.args.kwonlyargs]
            if "seed" in params and not fname.startswith("_"):
                out.append((m, fn))
    return an, out


def regenerate():
    an, fns = seeded_public_functions(C.REPO)
    if not fns:
        raise TranslationError("no seeded public function found")
    rows = []
    for m, fn in fns:
        an.counter = 0
        evs = an.events_of(m, fn, {"seed"})
        rows.append((m.modname, fn.name, evs))
    text = ["(* GENERATED by harness/translate_seed.py from /repo on every run - do not edit. *)",
            "From Coq Require Import String List.", "From XV Require Import Model.Seed.",
            "Import ListNotations.", "Open Scope string_scope.", "",
            "Definition seeded_functions : list (string * prog) := ["]
    body = []
    for modname, name, evs in rows:
        body.append(f'  ("{modname}.{name}", [' + "; ".join(evs) + "])")
    text.append(";\n".join(body))
    text.append("].")
    write_if_changed(os.path.join(GEN, "SeedIR.v"), "\n".join(text) + "\n")
    return rows
