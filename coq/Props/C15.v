(* C15 - simpliciality measures. *)
From Coq Require Import String ZArith QArith List Bool.
From XV Require Import Base.Label Base.LSet Base.ODict Base.Attr Base.Outcome Model.Hypergraph Model.Hodge
  Model.Simpliciality Proofs.TrieProofs.
Import ListNotations.

(* the prefix tree answers exactly: is the (sorted) word one of the (sorted) inserted words *)
Theorem C15_trie_search : forall ws w,
  tsearch (build_trie ws) w = existsb (fun w' => lbls_eqb (sort_simplex w) (sort_simplex w')) ws.
Proof. exact trie_search. Qed.
Print Assumptions C15_trie_search.

Example C15_nonvacuous :
  let s := run [OAddEdgesFrom (EB1 [[LInt 1; LInt 2; LInt 3]; [LInt 1; LInt 2]; [LInt 3; LInt 4]]) []] hg_empty in
  simplicial_edit_distance 2 true false s = Some (2 # 1)%Q /\
  simplicial_fraction 2 true s = Some (0 # 1)%Q /\
  oq_eqb (mean_face_edit_distance 2 true true s) (Some (2 # 3)%Q) = true.
Proof. vm_compute. repeat split. Qed.
Print Assumptions C15_nonvacuous.
