(* C06 - views and statistics are live and mutually consistent.
   A statistic is a function of the current state and a view (eval q s recomputes from s), so
   liveness is by construction of the model and is checked against the code by the oracle, which
   holds stat and view objects across mutations.  The output formats are `map` of one function
   along the view.  What is proved: the definitions, the handshake identities, exactness of the
   filters and of the set-theoretic queries. *)
From Coq Require Import String ZArith List Bool.
From XV Require Import Base.Label Base.LSet Base.ODict Base.Attr Base.Outcome Model.Hypergraph Model.Stats
  Proofs.HgViews Proofs.HgInv Proofs.StatsProofs Model.DiHypergraph Proofs.DiInv Proofs.DuplicatesProofs Proofs.NeighborsS Gen.FilterModes Proofs.FilterSource Model.PySem Gen.BasicStats Proofs.StatsSource.
Import ListNotations.
Open Scope Z_scope.

Theorem C06_degree_memberships : forall s n, degree None None s n = Z.of_nat (length (mships s n)).
Proof. exact degree_is_memberships. Qed.
Print Assumptions C06_degree_memberships.

Theorem C06_size_members : forall s e,
  edge_size None s e = Z.of_nat (length (mems s e)) /\ edge_order None s e = edge_size None s e - 1.
Proof. intros s e. split; reflexivity. Qed.
Print Assumptions C06_size_members.

(* the degrees sum to the sizes, at every reachable state (Inv) *)
Theorem C06_handshake : forall s, Inv s ->
  list_sum (map (fun n => length (mships s n)) (nkeys s)) = list_sum (map (fun e => length (mems s e)) (ekeys s)).
Proof. exact handshake. Qed.
Print Assumptions C06_handshake.

(* ... and per order: memberships in edges of d nodes sum to d times the number of such edges *)
Theorem C06_handshake_order : forall s d, Inv s ->
  list_sum (map (fun n => count (fun e => mem n (mems s e) && Nat.eqb (length (mems s e)) d) (ekeys s)) (nkeys s)) =
  list_sum (map (fun e => if Nat.eqb (length (mems s e)) d then length (mems s e) else 0%nat) (ekeys s)).
Proof. exact handshake_order. Qed.
Print Assumptions C06_handshake_order.

(* directed networks: at every reachable state the out-degrees sum to the tail sizes and the
   in-degrees to the head sizes (the two sides of the directed incidence each satisfy Inv) *)
Theorem C06_directed_handshake : forall ops,
  let d := drun ops dhg_empty in
  list_sum (map (fun n => length (mships (ts d) n)) (nkeys (ts d))) = list_sum (map (fun e => length (tail d e)) (ekeys (ts d))) /\
  list_sum (map (fun n => length (mships (hs d) n)) (nkeys (hs d))) = list_sum (map (fun e => length (head d e)) (ekeys (hs d))).
Proof.
  intros ops d. destruct (drun_DInv ops dhg_empty DInv_empty) as (I1 & I2 & _).
  split; [exact (handshake (ts d) I1)|exact (handshake (hs d) I2)].
Qed.
Print Assumptions C06_directed_handshake.

(* asdict / aslist / asnumpy / aspandas / multi are the same function mapped along the view *)
Theorem C06_formats_agree : forall view f, map snd (along view f) = map f view /\ map fst (along view f) = view.
Proof.
  intros view f. unfold along. rewrite !map_map. simpl. split; [reflexivity|apply map_id].
Qed.
Print Assumptions C06_formats_agree.

Theorem C06_filterby_exact : forall view stat m v x,
  (In x (filterby view stat m v) <-> In x view /\ fcmp m (stat x) v = true) /\
  (fcmp m (stat x) v = true <->
   match m with
   | FEq => stat x = v | FNeq => stat x <> v | FLt => stat x < v | FGt => stat x > v
   | FLeq => stat x <= v | FGeq => stat x >= v | FBetween hi => v <= stat x <= hi
   end).
Proof. intros. split; [apply filterby_exact|apply fcmp_meaning]. Qed.
Print Assumptions C06_filterby_exact.

Theorem C06_isolates_singletons_empty : forall s,
  (forall n, In n (isolates false s) <-> In n (nkeys s) /\ mships s n = []) /\
  (forall e, In e (singletons s) <-> In e (ekeys s) /\ length (mems s e) = 1%nat) /\
  (forall e, In e (empty_edges s) <-> In e (ekeys s) /\ mems s e = []).
Proof. intro s. split; [apply isolates_spec|split; [apply singletons_spec|apply empty_spec]]. Qed.
Print Assumptions C06_isolates_singletons_empty.

Theorem C06_neighbors_spec : forall s n x,
  In x (Stats.neighbors SNode 1 s n) <-> x <> n /\ exists e, In e (mships s n) /\ In x (mems s e).
Proof. exact node_neighbors_spec. Qed.
Print Assumptions C06_neighbors_spec.

Theorem C06_lookup_spec : forall s sought e, NoDup (keys (h_edge s)) ->
  (In e (lookup SEdge sought s) <->
   exists m, get e (h_edge s) = Some m /\ seteq m sought /\ length m = length (mkset sought)).
Proof. exact lookup_spec. Qed.
Print Assumptions C06_lookup_spec.

(* maximal(): listed iff no edge is a strict superset (every containing edge has the same members) *)
Theorem C06_maximal_spec : forall s e, Inv s ->
  (In e (maximal false s) <-> In e (ekeys s) /\ forall f, In f (ekeys s) -> Contains s e f -> SameMembers s e f).
Proof. exact maximal_spec. Qed.
Print Assumptions C06_maximal_spec.

(* duplicates(): for every repeated member set all edges but exactly one are listed - every listed edge has an
   unlisted twin with the same members, and of two different edges with the same members at least one is listed *)
Theorem C06_duplicates_one_representative : forall s, Inv s ->
  (forall e, In e (duplicates SEdge s) ->
     In e (ekeys s) /\ exists f, In f (ekeys s) /\ f <> e /\ seteq (mems s f) (mems s e) /\ ~ In f (duplicates SEdge s)) /\
  (forall e f, In e (ekeys s) -> In f (ekeys s) -> e <> f -> seteq (mems s e) (mems s f) ->
     In e (duplicates SEdge s) \/ In f (duplicates SEdge s)).
Proof. exact duplicates_spec. Qed.
Print Assumptions C06_duplicates_one_representative.

(* filterby_attr: exactly the ids of the view whose integer attribute - the `missing` value when the id has no
   such attribute - satisfies the comparison (in view order, being a filter of the view) *)
Theorem C06_filterby_attr_exact : forall k view name missing m v s x,
  In x (filterby_attr k view name missing m v s) <->
  In x view /\ exists z, attr_stat k name missing s x = AInt z /\ fcmp m z v = true.
Proof. exact filterby_attr_exact. Qed.
Print Assumptions C06_filterby_attr_exact.

(* neighbors(n, s) for s > 1: the nodes sharing an edge with n that share at least s edges with it *)
Theorem C06_neighbors_s_spec : forall sv s n x, sv <> 1 ->
  (In x (Stats.neighbors SNode sv s n) <->
   x <> n /\ (exists e, In e (mships s n) /\ In x (mems s e)) /\
   sv <= Z.of_nat (length (sinter (mships s n) (mships s x)))).
Proof. exact node_neighbors_s_spec. Qed.
Print Assumptions C06_neighbors_s_spec.

Theorem C06_shared_edges : forall s n x e, Inv s ->
  (In e (sinter (mships s n) (mships s x)) <-> In n (mems s e) /\ In x (mems s e)).
Proof. exact shared_edges_spec. Qed.
Print Assumptions C06_shared_edges.

(* THE SOURCE TIE for the filters: Gen/FilterModes.v is regenerated on every run from IDView.filterby and
   IDView.filterby_attr (harness/translate_filter.py, fail-closed); the comparison the model applies is, for each of
   the seven modes, the one the source spells out *)
Theorem C06_filter_modes_are_source : forall m x v,
  src_filterby (mode_name m) x v (mode_hi m) = Some (fcmp m x v) /\
  src_filterby_attr (mode_name m) x v (mode_hi m) = Some (fcmp m x v).
Proof. intros m x v. split; [apply fcmp_is_source|apply fcmp_attr_is_source]. Qed.
Print Assumptions C06_filter_modes_are_source.

(* THE SOURCE TIE for the basic statistics: Gen/BasicStats.v is regenerated on every run from
   xgi/stats/nodestats.py::degree and xgi/stats/edgestats.py::size / ::order (harness/translate_stats.py, fail-closed);
   the model's degree (all four order / weight combinations), edge size and edge order compute exactly these functions *)
Theorem C06_basic_stats_are_source : forall s,
  (forall order weight n, degree order weight s n = src_degree order weight s n) /\
  (forall deg e, edge_size deg s e = src_size deg s e) /\
  (forall deg e, edge_order deg s e = src_order deg s e).
Proof. intro s. split; [intros; apply degree_is_source|split; intros; [apply edge_size_is_source|apply edge_order_is_source]]. Qed.
Print Assumptions C06_basic_stats_are_source.

Example C06_nonvacuous :
  let s := run [OAddEdgesFrom (EB1 [[LInt 1; LInt 2; LInt 3]; [LInt 1; LInt 2]; [LInt 3; LInt 4]; [LInt 1; LInt 2]]) []] hg_empty in
  eval (QMaximal false) s = AIds [LInt 0; LInt 2] /\ eval (QDuplicates SEdge) s = AIds [LInt 3] /\
  eval (QDegree None None) s = AMap [(LInt 1, 3); (LInt 2, 3); (LInt 3, 2); (LInt 4, 1)].
Proof. vm_compute. repeat split. Qed.
Print Assumptions C06_nonvacuous.
