(* C16: complete_hypergraph contains each admissible node set exactly once. *)
From Coq Require Import List Arith Lia Bool.
From XV Require Import Base.Label Base.LSet Model.Decoders Proofs.Combs Proofs.DecoderProofs.
Import ListNotations.

Section Gen.
  Variable A : Type.
  Hypothesis dec : forall x y : A, {x = y} + {x <> y}.
  Definition sameset (a b : list A) : Prop := forall x, In x a <-> In x b.

  Lemma combs_sameset_eq (l : list A) : NoDup l -> forall k1 k2 x y,
    In x (combs l k1) -> In y (combs l k2) -> sameset x y -> x = y.
  Proof.
    induction 1 as [|a l Ha Hl IH]; intros k1 k2 x y Hx Hy Sq.
    - destruct k1; [|destruct Hx]. destruct k2; [|destruct Hy]. destruct Hx as [<-|[]]. destruct Hy as [<-|[]]. reflexivity.
    - assert (E0 : forall z : list A, sameset [] z -> z = []).
      { intros [|b z] Hz; [reflexivity|]. exfalso. apply (proj2 (Hz b)). left. reflexivity. }
      destruct k1 as [|k1].
      { rewrite combs_0 in Hx. destruct Hx as [<-|[]]. symmetry. apply E0. exact Sq. }
      destruct k2 as [|k2].
      { rewrite combs_0 in Hy. destruct Hy as [<-|[]]. apply E0. intro b. symmetry. apply Sq. }
      cbn [combs] in Hx, Hy. apply in_app_iff in Hx. apply in_app_iff in Hy.
      assert (NI : forall k c, In c (combs l k) -> ~ In a c).
      { intros k c Hc Hi. apply Ha. apply (proj2 (combs_sound l k c Hc)). exact Hi. }
      destruct Hx as [Hx|Hx]; destruct Hy as [Hy|Hy].
      + apply in_map_iff in Hx. destruct Hx as (c & <- & Hc). apply in_map_iff in Hy. destruct Hy as (c' & <- & Hc').
        f_equal. apply (IH k1 k2 c c' Hc Hc'). intro b. pose proof (Sq b) as Sb. cbn [In] in Sb.
        pose proof (NI k1 c Hc). pose proof (NI k2 c' Hc').
        split; intro Hb.
        * destruct (proj1 Sb (or_intror Hb)) as [E|E]; [subst; contradiction|exact E].
        * destruct (proj2 Sb (or_intror Hb)) as [E|E]; [subst; contradiction|exact E].
      + apply in_map_iff in Hx. destruct Hx as (c & <- & Hc). exfalso. apply (NI (S k2) y Hy). apply Sq. left. reflexivity.
      + apply in_map_iff in Hy. destruct Hy as (c & <- & Hc). exfalso. apply (NI (S k1) x Hx). apply Sq. left. reflexivity.
      + apply (IH (S k1) (S k2) x y Hx Hy Sq).
  Qed.

  Lemma combs_NoDup_gen (l : list A) : NoDup l -> forall k, NoDup (combs l k).
  Proof.
    induction 1 as [|a l Ha Hl IH]; intro k.
    - destruct k; cbn [combs]; [constructor; [intros []|constructor]|constructor].
    - destruct k as [|k]; [rewrite combs_0; constructor; [intros []|constructor]|].
      cbn [combs]. apply NoDup_app_intro; [apply NoDup_map_cons; apply IH|apply IH|].
      intros c H1 H2. apply in_map_iff in H1. destruct H1 as (c' & <- & _).
      apply Ha. apply (proj2 (combs_sound l (S k) _ H2)). left. reflexivity.
  Qed.

  Lemma remove_NoDup a (f : list A) : NoDup f -> NoDup (remove dec a f).
  Proof.
    induction 1 as [|x f Hx Hf IH]; cbn [remove]; [constructor|]. destruct (dec a x); [exact IH|].
    constructor; [intro Hi; apply in_remove in Hi; apply Hx; apply Hi|exact IH].
  Qed.
  Lemma remove_length a (f : list A) : NoDup f -> In a f -> S (length (remove dec a f)) = length f.
  Proof.
    induction 1 as [|x f Hx Hf IH]; intro Hi; [destruct Hi|]. cbn [remove]. destruct (dec a x) as [->|N].
    - cbn [length]. f_equal. rewrite notin_remove by exact Hx. reflexivity.
    - destruct Hi as [E|Hi]; [congruence|]. cbn [length]. rewrite IH by exact Hi. reflexivity.
  Qed.

  Lemma combs_complete_gen (l : list A) : forall f, NoDup f -> (forall x, In x f -> In x l) ->
    exists c, In c (combs l (length f)) /\ sameset c f.
  Proof.
    induction l as [|a l IH]; intros f ND Hs.
    - destruct f as [|x f]; [exists []; split; [left; reflexivity|intro; tauto]|]. exfalso. apply (Hs x). left. reflexivity.
    - destruct (in_dec dec a f) as [Hin|Hnin].
      + assert (Hs' : forall x, In x (remove dec a f) -> In x l).
        { intros x Hx. apply in_remove in Hx. destruct Hx as [Hx N]. destruct (Hs x Hx) as [E|E]; [congruence|exact E]. }
        destruct (IH (remove dec a f) (remove_NoDup a f ND) Hs') as (c & Hc & Sc).
        exists (a :: c). split.
        * rewrite <- (remove_length a f ND Hin). cbn [combs]. apply in_app_iff. left. apply in_map. exact Hc.
        * intro x. cbn [In]. rewrite (Sc x). split.
          -- intros [<-|Hx]; [exact Hin|apply in_remove in Hx; apply Hx].
          -- intro Hx. destruct (dec a x) as [E|N]; [left; exact E|right; apply in_in_remove; [intro; apply N; congruence|exact Hx]].
      + assert (Hs' : forall x, In x f -> In x l).
        { intros x Hx. destruct (Hs x Hx) as [E|E]; [subst; contradiction|exact E]. }
        destruct (IH f ND Hs') as (c & Hc & Sc). exists c. split; [|exact Sc].
        destruct f as [|y f']; [rewrite combs_0 in *; exact Hc|]. cbn [length] in *. cbn [combs]. apply in_app_iff. right. exact Hc.
  Qed.
End Gen.

Theorem complete_edges_spec n sizes : NoDup sizes ->
  NoDup (complete_edges n sizes) /\
  (forall c d, In c (complete_edges n sizes) -> In d (complete_edges n sizes) -> sameset nat c d -> c = d) /\
  (forall c, In c (complete_edges n sizes) -> NoDup c /\ (forall x, In x c -> x < n) /\ In (length c) sizes) /\
  (forall f, NoDup f -> (forall x, In x f -> x < n) -> In (length f) sizes ->
             exists c, In c (complete_edges n sizes) /\ sameset nat c f).
Proof.
  intro NDs. unfold complete_edges. pose proof (seq_NoDup n 0) as NDn.
  split; [|split; [|split]].
  - induction NDs as [|r sizes Hr Hs IH]; cbn [flat_map]; [constructor|].
    apply NoDup_app_intro; [apply combs_NoDup_gen; exact NDn|exact IH|].
    intros c H1 H2. apply in_flat_map in H2. destruct H2 as (r' & Hr' & H2).
    pose proof (proj1 (combs_sound _ r c H1)). pose proof (proj1 (combs_sound _ r' c H2)). apply Hr. congruence.
  - intros c d Hc Hd Sq. apply in_flat_map in Hc. apply in_flat_map in Hd. destruct Hc as (r1 & _ & Hc). destruct Hd as (r2 & _ & Hd).
    apply (combs_sameset_eq nat (seq 0 n) NDn r1 r2 c d Hc Hd Sq).
  - intros c Hc. apply in_flat_map in Hc. destruct Hc as (r & Hr & Hc). destruct (combs_sound _ r c Hc) as [L S].
    split; [apply (combs_NoDup _ NDn r c Hc)|]. split; [intros x Hx; apply S in Hx; apply in_seq in Hx; lia|rewrite L; exact Hr].
  - intros f ND Hf Hl. destruct (combs_complete_gen nat Nat.eq_dec (seq 0 n) f ND) as (c & Hc & Sc).
    { intros x Hx. apply in_seq. specialize (Hf x Hx). lia. }
    exists c. split; [apply in_flat_map; exists (length f); split; [exact Hl|exact Hc]|exact Sc].
Qed.

(* the size lists the generator uses are duplicate-free *)
Lemma complete_sizes_NoDup order mo incl : NoDup (complete_sizes order mo incl).
Proof.
  unfold complete_sizes. destruct order; [constructor; [intros []|constructor]|]. destruct mo; [apply seq_NoDup|constructor].
Qed.
