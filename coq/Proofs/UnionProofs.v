(* C19: H1 << H2 is the disjoint union of the edges over the union of the nodes. *)
From Coq Require Import String ZArith List Bool Lia.
From XV Require Import Base.Label Base.LSet Base.ODict Base.Attr Base.Outcome Model.Hypergraph Model.HgCheck
     Model.SimplicialComplex Model.Copy Model.Derived
     Proofs.HgViews Proofs.HgInv Proofs.HgInvOps Proofs.HgStep Proofs.HgKeys Proofs.HgErrors Proofs.ScTables
     Proofs.Build Proofs.DerivedProofs Proofs.DualProofs.
Import ListNotations.
Open Scope Z_scope.

(* one automatically numbered edge with attributes (format 3) *)
Lemma bulk_auto_effect3 a s m ea :
  Inv s -> existsb is_none (mkset m) = false ->
  let i := LInt (h_uid s) in
  let r := bulk_item false a (with_uid s (h_uid s + 1)) m i ea in
  let t := st_of r in
  r = (t, Ok, O) /\ Inv t /\ ekeys t = ekeys s ++ [i] /\ h_uid t = h_uid s + 1 /\
  (exists M, seteq M m /\ NoDup M /\
             forall e', get e' (h_edge t) = if lbl_eqb e' i then Some M else get e' (h_edge s)) /\
  (forall x, In x (nkeys t) <-> In x m \/ In x (nkeys s)).
Proof.
  intros I Hn. cbv zeta.
  pose proof (Inv_bulk_auto a s m ea I) as It.
  pose proof I as (Hw & Hk & Hv & Hu).
  set (s0 := with_uid s (h_uid s + 1)).
  assert (Hne : ~ In (LInt (h_uid s)) (ekeys s0)).
  { intro Hi. specialize (Hu (LInt (h_uid s)) (h_uid s) Hi eq_refl). lia. }
  assert (Hhas : has (LInt (h_uid s)) (h_edge s0) = false) by (apply has_nIn; exact Hne).
  revert It. unfold bulk_item. fold s0. rewrite Hhas, Hn. cbn [is_none]. cbv iota. intro It.
  rewrite st_of_ok in It |- *.
  assert (Hw0 : W1 s0) by exact Hw. assert (Hk0 : KWF s0) by exact Hk. assert (Hv0 : VND s0) by exact Hv.
  destruct (insert_edge_spec (LInt (h_uid s)) m (aupdate a ea) s0 Hne Hw0 Hk0 Hv0) as (_ & _ & _ & Ek & Eu & _).
  destruct (insert_edge_get (LInt (h_uid s)) m (aupdate a ea) s0) as (M & HM & NDM & GM).
  split; [reflexivity|]. split; [exact It|]. split; [exact Ek|]. split; [exact Eu|]. split.
  - exists M. split; [exact HM|]. split; [exact NDM|exact GM].
  - intro x. exact (insert_edge_nkeys (LInt (h_uid s)) m (aupdate a ea) s0 x).
Qed.

Definition auto_step3 (a : attrs) (s : hg) (it : list lbl * attrs) : res :=
  bulk_item false a (with_uid s (h_uid s + 1)) (fst it) (LInt (h_uid s)) (snd it).

Lemma auto_loop_effect3 a : forall l s,
  Inv s -> (forall it, In it l -> existsb is_none (mkset (fst it)) = false) ->
  let r := loop (auto_step3 a) l s in
  let t := st_of r in
  out_of r = Ok /\ Inv t /\
  ekeys t = ekeys s ++ map (fun j => LInt (h_uid s + Z.of_nat j)) (seq 0 (length l)) /\
  h_uid t = h_uid s + Z.of_nat (length l) /\
  (forall j, (j < length l)%nat -> seteq (mems t (LInt (h_uid s + Z.of_nat j))) (fst (nth j l ([], [])))) /\
  (forall e, In e (ekeys s) -> get e (h_edge t) = get e (h_edge s)) /\
  (forall x, In x (nkeys t) <-> In x (nkeys s) \/ exists it, In it l /\ In x (fst it)).
Proof.
  induction l as [|[m ea] l IH]; intros s I Hn; cbv zeta.
  - cbn [loop length seq map]. rewrite st_of_ok, app_nil_r. unfold out_of, ok. cbn [fst snd].
    split; [reflexivity|]. split; [exact I|]. split; [reflexivity|]. split; [lia|].
    split; [intros j Hj; simpl in Hj; lia|]. split; [reflexivity|].
    intro x. split; [auto|]. intros [H|(it & [] & _)]. exact H.
  - destruct (bulk_auto_effect3 a s m ea I (Hn (m, ea) (or_introl eq_refl))) as (Er & I1 & K1 & U1 & (M & HM & NDM & GM) & N1).
    set (s1 := st_of (bulk_item false a (with_uid s (h_uid s + 1)) m (LInt (h_uid s)) ea)) in *.
    destruct (loop_cons_ok (auto_step3 a) (m, ea) l s s1 O Er) as [Est Eout].
    rewrite Est, Eout.
    destruct (IH s1 I1 (fun it Hit => Hn it (or_intror Hit))) as (O2 & I2 & K2 & U2 & M2 & P2 & N2).
    split; [exact O2|]. split; [exact I2|].
    assert (Hi1 : In (LInt (h_uid s)) (ekeys s1)) by (rewrite K1; apply in_app_iff; right; left; reflexivity).
    split.
    { rewrite K2, K1, U1. cbn [length]. rewrite <- app_assoc. f_equal. cbn [seq map app]. f_equal.
      - f_equal. lia.
      - rewrite <- seq_shift, map_map. apply map_ext. intro j. f_equal. lia. }
    split; [rewrite U2, U1; cbn [length]; lia|].
    split.
    { intros [|j] Hj.
      - cbn [nth fst]. replace (h_uid s + Z.of_nat 0) with (h_uid s) by lia.
        unfold mems, getl. rewrite (P2 _ Hi1), GM, lbl_eqb_refl. exact HM.
      - cbn [nth length] in *. replace (h_uid s + Z.of_nat (S j)) with (h_uid s1 + Z.of_nat j) by (rewrite U1; lia).
        apply M2. lia. }
    split.
    { intros e He. rewrite P2 by (rewrite K1; apply in_app_iff; left; exact He).
      rewrite GM. destruct (lbl_eqb_spec e (LInt (h_uid s))) as [->|N]; [|reflexivity].
      exfalso. destruct I as (_ & _ & _ & Hu). specialize (Hu (LInt (h_uid s)) (h_uid s) He eq_refl). lia. }
    intro x. rewrite N2, N1. split.
    + intros [[H|H]|(it & Hit & Hx)]; [right; exists (m, ea); split; [left; reflexivity|exact H]|left; exact H|].
      right. exists it. split; [right; exact Hit|exact Hx].
    + intros [H|(it & [<-|Hit] & Hx)]; [left; right; exact H|left; left; exact Hx|].
      right. exists it. split; assumption.
Qed.

Lemma zip_nodes_fst s : KWF s -> map fst (zip_nodes s) = nkeys s.
Proof.
  intros (K1 & _). unfold zip_nodes, nkeys. rewrite map_map. cbn [fst].
  assert (G : forall (a : odict (list lbl)) (b : odict attrs), length a = length b -> map (fun kv => fst (fst kv)) (combine a b) = keys a).
  { induction a as [|x a IH]; intros [|y b] H; try discriminate; [reflexivity|]. cbn [combine map keys]. f_equal.
    apply IH. simpl in H. lia. }
  apply G. rewrite <- (map_length fst (h_node s)), <- (map_length fst (h_nattr s)). unfold keys in K1. rewrite K1. reflexivity.
Qed.

Lemma zip_edges_fst s : KWF s -> map fst (zip_edges s) = map snd (h_edge s).
Proof.
  intros (_ & K2 & _). unfold zip_edges. rewrite map_map. cbn [fst].
  assert (G : forall (a : odict (list lbl)) (b : odict attrs), length a = length b -> map (fun kv => snd (fst kv)) (combine a b) = map snd a).
  { induction a as [|x a IH]; intros [|y b] H; try discriminate; [reflexivity|]. cbn [combine map]. f_equal.
    apply IH. simpl in H. lia. }
  apply G. rewrite <- (map_length fst (h_edge s)), <- (map_length fst (h_eattr s)). unfold keys in K2. rewrite K2. reflexivity.
Qed.

Lemma seq_from n : forall k, seq k n = map (fun j => (k + j)%nat) (seq 0 n).
Proof.
  induction n as [|n IH]; intro k; [reflexivity|]. cbn [seq map]. rewrite Nat.add_0_r. f_equal.
  rewrite (IH (S k)), <- seq_shift, map_map. apply map_ext. intro j. lia.
Qed.

Lemma loop_ext' {A} (f g : hg -> A -> res) l : (forall s x, f s x = g s x) -> forall s, loop f l s = loop g l s.
Proof.
  intro H. induction l as [|x l IH]; intro s; [reflexivity|]. cbn [loop]. rewrite H.
  destruct (g s x) as [[s1 o] w]. destruct o; [rewrite IH; reflexivity|reflexivity].
Qed.

Lemma eb3_as_auto l a s : add_edges_from (EB3 l) a s = loop (auto_step3 a) l s.
Proof. cbn [add_edges_from]. apply loop_ext'. intros s' [m ea]. reflexivity. Qed.

Lemma add_nodes_from_uid items a s : h_uid (st_of (add_nodes_from items a s)) = h_uid s.
Proof.
  unfold add_nodes_from.
  apply (loop_inv (fun t => h_uid t = h_uid s)); [|reflexivity].
  intros s' [n od] H. destruct (has n (h_node s')); [rewrite st_of_ok; exact H|].
  destruct (is_none n); [rewrite st_of_raise; exact H|]. rewrite st_of_ok.
  cbn [nattr_update h_uid with_nattr]. rewrite ensure_node_uid. exact H.
Qed.

(* H1 << H2: nodes = union; edges = those of H1 followed by those of H2, renumbered 0, 1, ... *)
Theorem lshift_spec s1 s2 : Inv s1 -> Inv s2 -> NoNone s1 -> NoNone s2 ->
  let r := lshift s1 s2 in
  let t := st_of r in
  let E := map snd (h_edge s1) ++ map snd (h_edge s2) in
  out_of r = Ok /\ Inv t /\
  ekeys t = map (fun j => LInt (Z.of_nat j)) (seq 0 (length E)) /\
  (forall j, (j < length E)%nat -> seteq (mems t (LInt (Z.of_nat j))) (nth j E [])) /\
  (forall x, In x (nkeys t) <-> In x (nkeys s1) \/ In x (nkeys s2)).
Proof.
  intros I1 I2 N1 N2. cbv zeta. unfold lshift.
  pose proof I1 as (_ & KW1 & _). pose proof I2 as (_ & KW2 & _).
  destruct (add_nodes_from_struct (zip_nodes s1) [] hg_empty Inv_empty) as (Oa & Ia & Ea & _ & Ka & _).
  { intros it Hit. intro N. destruct N1 as [NN _]. apply NN. rewrite <- (zip_nodes_fst s1 KW1). rewrite <- N. apply in_map. exact Hit. }
  set (ra := add_nodes_from (zip_nodes s1) [] hg_empty) in *. set (a := st_of ra) in *.
  match goal with |- context [bind ra ?k] => destruct (bind_ok_st ra k Oa) as [Est Eout] end. rewrite Est, Eout. clear Est Eout. cbv beta. fold a.
  destruct (add_nodes_from_struct (zip_nodes s2) [] a Ia) as (Ob & Ib & Eb & _ & Kb & _).
  { intros it Hit. intro N. destruct N2 as [NN _]. apply NN. rewrite <- (zip_nodes_fst s2 KW2). rewrite <- N. apply in_map. exact Hit. }
  set (rb := add_nodes_from (zip_nodes s2) [] a) in *. set (b := st_of rb) in *.
  match goal with |- context [bind rb ?k] => destruct (bind_ok_st rb k Ob) as [Est Eout] end. rewrite Est, Eout. clear Est Eout. cbv beta. fold b.
  assert (Hb_e : ekeys b = []) by (unfold ekeys; rewrite Eb, Ea; reflexivity).
  assert (Hb_u : h_uid b = 0) by (unfold b, rb, a, ra; rewrite !add_nodes_from_uid; reflexivity).
  (* the two bunches of edges *)
  assert (Hno : forall s, Inv s -> NoNone s -> forall it, In it (zip_edges s) -> existsb is_none (mkset (fst it)) = false).
  { intros s I N it Hit. assert (Hf : In (fst it) (map snd (h_edge s))).
    { destruct I as (_ & KW & _). rewrite <- (zip_edges_fst s KW). apply in_map. exact Hit. }
    apply in_map_iff in Hf. destruct Hf as (kv & Ekv & Hkv). rewrite <- Ekv.
    apply no_none_members. intro Hx. destruct N as [NN _]. apply NN. destruct kv as [e ms]. cbn [snd] in Hx.
    assert (Em : mems s e = ms).
    { destruct I as (_ & (_ & _ & _ & Ke) & _). unfold mems, getl. rewrite (In_get _ _ _ Ke Hkv). reflexivity. }
    apply (members_are_nodes s e LNone I). rewrite Em. exact Hx. }
  rewrite eb3_as_auto.
  destruct (auto_loop_effect3 [] (zip_edges s1) b Ib (Hno s1 I1 N1)) as (Oc & Ic & Kc & Uc & Mc & Pc & Nc).
  set (rc := loop (auto_step3 []) (zip_edges s1) b) in *. set (c := st_of rc) in *.
  match goal with |- context [bind rc ?k] => destruct (bind_ok_st rc k Oc) as [Est Eout] end. rewrite Est, Eout. clear Est Eout. cbv beta. fold c.
  rewrite eb3_as_auto.
  destruct (auto_loop_effect3 [] (zip_edges s2) c Ic (Hno s2 I2 N2)) as (Od & Id & Kd & Ud & Md & Pd & Nd).
  set (rd := loop (auto_step3 []) (zip_edges s2) c) in *. set (d := st_of rd) in *.
  match goal with |- context [bind rd ?k] => destruct (bind_ok_st rd k Od) as [Est Eout] end. rewrite Est, Eout. clear Est Eout. cbv beta. rewrite st_of_ok. fold d.
  assert (L1 : length (zip_edges s1) = length (h_edge s1)).
  { rewrite <- (map_length fst), (zip_edges_fst s1 KW1), map_length. reflexivity. }
  assert (L2 : length (zip_edges s2) = length (h_edge s2)).
  { rewrite <- (map_length fst), (zip_edges_fst s2 KW2), map_length. reflexivity. }
  split; [reflexivity|]. split; [apply Inv_with_net; exact Id|].
  set (t := with_net d (aupdate (h_net s1) (h_net s2))).
  assert (Tk : ekeys t = ekeys d) by reflexivity. assert (Tn : nkeys t = nkeys d) by reflexivity.
  assert (Tm : forall e, mems t e = mems d e) by reflexivity. rewrite Tk.
  split.
  { rewrite Kd, Kc, Hb_e, Uc, Hb_u, L1, L2. cbn [app]. rewrite app_length, !map_length, seq_app, map_app. apply (f_equal2 (@app lbl)).
    - apply map_ext. intro j. f_equal; lia.
    - rewrite (seq_from (length (h_edge s2)) (0 + length (h_edge s1))), map_map.
      apply map_ext. intro j. f_equal; lia. }
  split.
  { intros j Hj. rewrite app_length, !map_length in Hj.
    rewrite Tm.
    destruct (Nat.lt_ge_cases j (length (h_edge s1))) as [Hlt|Hge].
    - rewrite app_nth1 by (rewrite map_length; exact Hlt).
      assert (Hin : In (LInt (Z.of_nat j)) (ekeys c)).
      { rewrite Kc, Hb_e, Hb_u. cbn [app]. apply in_map_iff. exists j. split; [f_equal; lia|apply in_seq; lia]. }
      unfold mems, getl. rewrite (Pd _ Hin). fold (getl (LInt (Z.of_nat j)) (h_edge c)). fold (mems c (LInt (Z.of_nat j))).
      specialize (Mc j). rewrite L1, Hb_u in Mc. replace (0 + Z.of_nat j) with (Z.of_nat j) in Mc by lia.
      intro x. rewrite (Mc Hlt x).
      rewrite <- (zip_edges_fst s1 KW1).
      rewrite (nth_indep _ [] (fst (@nil lbl, @nil (string * aval)))) by (rewrite map_length, L1; exact Hlt).
      rewrite map_nth. reflexivity.
    - rewrite app_nth2 by (rewrite map_length; exact Hge). rewrite map_length.
      specialize (Md (j - length (h_edge s1))%nat). rewrite L2, Uc, Hb_u, L1 in Md.
      replace (0 + Z.of_nat (length (h_edge s1)) + Z.of_nat (j - length (h_edge s1))) with (Z.of_nat j) in Md by lia.
      intro x. rewrite (Md ltac:(lia) x).
      rewrite <- (zip_edges_fst s2 KW2).
      rewrite (nth_indep _ [] (fst (@nil lbl, @nil (string * aval)))) by (rewrite map_length, L2; lia).
      rewrite map_nth. reflexivity. }
  intro x. rewrite Tn, Nd, Nc, Kb, Ka. cbn [nkeys hg_empty h_node keys map].
  rewrite (zip_nodes_fst s1 KW1), (zip_nodes_fst s2 KW2). split.
  - intros [[[[[]|H]|H]|(it & Hit & Hx)]|(it & Hit & Hx)]; [left; exact H|right; exact H| |].
    + left. assert (Hf : In (fst it) (map snd (h_edge s1))) by (rewrite <- (zip_edges_fst s1 KW1); apply in_map; exact Hit).
      apply in_map_iff in Hf. destruct Hf as ([e ms] & Ekv & Hkv). cbn [snd] in Ekv. subst ms.
      apply (members_are_nodes s1 e x I1). destruct I1 as (_ & (_ & _ & _ & Ke) & _). unfold mems, getl.
      rewrite (In_get _ _ _ Ke Hkv). exact Hx.
    + right. assert (Hf : In (fst it) (map snd (h_edge s2))) by (rewrite <- (zip_edges_fst s2 KW2); apply in_map; exact Hit).
      apply in_map_iff in Hf. destruct Hf as ([e ms] & Ekv & Hkv). cbn [snd] in Ekv. subst ms.
      apply (members_are_nodes s2 e x I2). destruct I2 as (_ & (_ & _ & _ & Ke) & _). unfold mems, getl.
      rewrite (In_get _ _ _ Ke Hkv). exact Hx.
  - intros [H|H]; [left; left; left; right; exact H|left; left; right; exact H].
Qed.
