(* C12 - matrix representations encode the network exactly.
   Model/Matrix.v computes the matrices the way xgi/linalg does (incidence from the member sets,
   A = I I^T with the diagonal cleared and thresholded, K = row sums, L = order K - A); the theorems
   say what the entries are in terms of membership, for every state, order, s >= 1 and weighted flag,
   and that the order-d Laplacian is symmetric, has zero row sums and a non-negative quadratic form
   at every state reachable by admissible histories (Inv).  Sparse/dense agreement, the tensor, the
   normalised Laplacian and the multi-order combination are covered by the correspondence/oracle. *)
From Coq Require Import String ZArith QArith List Bool.
From XV Require Import Base.Label Base.LSet Base.ODict Base.Attr Base.Outcome Model.Hypergraph Model.Hodge Model.Matrix
  Proofs.HgViews Proofs.HgInv Proofs.HgStep Proofs.HodgeProofs Proofs.MatrixProofs Proofs.MultiorderProofs Proofs.TensorProofs.
Import ListNotations.
Open Scope Z_scope.

(* a one exactly at (node, edge) pairs where the node is a member, restricted to the order *)
Theorem C12_incidence_entry : forall s o i j,
  (i < length (h_node s))%nat -> (j < length (edges_of_order s o))%nat ->
  nth j (nth i (incidence s o) []) 0 = b2z (mem (node_at s i) (snd (edge_at s o j))).
Proof. exact incidence_entry. Qed.
Print Assumptions C12_incidence_entry.

Theorem C12_incidence_shape : forall s o,
  edges_of_order s o <> [] -> h_node s <> [] ->
  length (incidence s o) = length (h_node s) /\
  forall r, In r (incidence s o) -> length r = length (edges_of_order s o).
Proof. exact incidence_shape. Qed.
Print Assumptions C12_incidence_shape.

(* shared = the number of edges of the order that contain both nodes *)
Theorem C12_shared_is_count : forall s o a b,
  shared s o a b = Z.of_nat (length (filter (fun kv => mem a (snd kv) && mem b (snd kv)) (edges_of_order s o))).
Proof. exact shared_count. Qed.
Print Assumptions C12_shared_is_count.

(* zero diagonal; off the diagonal the number of shared edges (weighted) or whether it reaches s *)
Theorem C12_adjacency_entry : forall s o sv w i j,
  0 < sv -> (i < length (h_node s))%nat -> (j < length (h_node s))%nat ->
  nth j (nth i (adjacency' s o sv w) []) 0 =
  if Nat.eqb i j then 0
  else let c := shared s o (node_at s i) (node_at s j) in
       if sv <=? c then (if w then c else 1) else 0.
Proof. exact adjacency_entry. Qed.
Print Assumptions C12_adjacency_entry.

Theorem C12_adjacency_symmetric : forall s o sv w i j,
  0 < sv -> (i < length (h_node s))%nat -> (j < length (h_node s))%nat ->
  nth j (nth i (adjacency' s o sv w) []) 0 = nth i (nth j (adjacency' s o sv w) []) 0.
Proof. exact adjacency_symmetric. Qed.
Print Assumptions C12_adjacency_symmetric.

(* N x N for every network, including no edges / no edges of the order / no nodes *)
Theorem C12_adjacency_shape : forall s o sv w,
  length (adjacency' s o sv w) = length (h_node s) /\
  forall i, (i < length (h_node s))%nat -> length (nth i (adjacency' s o sv w) []) = length (h_node s).
Proof. exact adjacency_shape. Qed.
Print Assumptions C12_adjacency_shape.

Theorem C12_degree_entry : forall s o i,
  (i < length (h_node s))%nat ->
  nth i (degree_vec s o) 0 = Z.of_nat (length (filter (fun kv => mem (node_at s i) (snd kv)) (edges_of_order s o))).
Proof. intros s o i Hi. rewrite degree_entry by exact Hi. apply deg_count. Qed.
Print Assumptions C12_degree_entry.

(* L = d K - A, entry by entry *)
Theorem C12_laplacian_entry : forall s d i j,
  (i < length (h_node s))%nat -> (j < length (h_node s))%nat ->
  nth j (nth i (laplacian s d) []) 0 =
  if Nat.eqb i j then Z.of_nat d * deg_of s (Some d) (node_at s i)
  else - shared s (Some d) (node_at s i) (node_at s j).
Proof. exact laplacian_entry. Qed.
Print Assumptions C12_laplacian_entry.

Theorem C12_laplacian_symmetric : forall s d i j,
  (i < length (h_node s))%nat -> (j < length (h_node s))%nat ->
  nth j (nth i (laplacian s d) []) 0 = nth i (nth j (laplacian s d) []) 0.
Proof. exact laplacian_symmetric. Qed.
Print Assumptions C12_laplacian_symmetric.

(* zero row sums and positive semidefiniteness at every state reachable by an admissible history *)
Theorem C12_laplacian_row_sums : forall ops d i,
  admissible_history hg_empty ops ->
  let s := run ops hg_empty in
  (i < length (h_node s))%nat -> fold_left Z.add (nth i (laplacian s d) []) 0 = 0.
Proof.
  intros ops d i A s Hi. apply laplacian_row_sum; [|exact Hi].
  apply Inv_Wellformed. apply run_Inv; [exact A|apply Inv_empty].
Qed.
Print Assumptions C12_laplacian_row_sums.

(* x^T L x >= 0 for every integer vector x indexed by node label (hence, by scaling and density,
   for every real vector) *)
Theorem C12_laplacian_psd : forall ops d (x : lbl -> Z),
  admissible_history hg_empty ops ->
  let s := run ops hg_empty in
  0 <= qform (laplacian s d) (keys (h_node s)) x.
Proof.
  intros ops d x A s. apply laplacian_psd.
  apply Inv_Wellformed. apply run_Inv; [exact A|apply Inv_empty].
Qed.
Print Assumptions C12_laplacian_psd.

(* the multi-order Laplacian sum_d L_d w_d / <K_d> (also with rescale_per_node): at every reachable
   state, for every list of orders and every list of non-negative weights, it is an n x n matrix whose
   rows sum to zero and whose quadratic form is non-negative (exact rational arithmetic) *)
Theorem C12_multiorder_row_sums_and_psd : forall ops orders weights rescale (y : lbl -> Z),
  admissible_history hg_empty ops ->
  let s := run ops hg_empty in
  let n := length (h_node s) in
  let M := multiorder_laplacian s orders weights rescale in
  (forall w, In w weights -> 0 <= w) ->
  length M = n /\ (forall r, In r M -> length r = n) /\
  (forall i, (i < n)%nat -> (rowsum M n i == 0)%Q) /\
  (0 <= qformQ M n (fun i => y (nth i (keys (h_node s)) LNone)))%Q.
Proof.
  intros ops orders weights rescale y A s n M Hw.
  assert (WF : Wellformed s) by (apply Inv_Wellformed; apply run_Inv; [exact A|apply Inv_empty]).
  destruct (multiorder_Good s WF y orders weights rescale Hw) as [G1 G2 G3 G4].
  split; [exact G1|]. split; [exact G2|]. split; [exact G3|exact G4].
Qed.
Print Assumptions C12_multiorder_row_sums_and_psd.

Example C12_nonvacuous :
  let s := run [OAddEdgesFrom (EB1 [[LInt 1; LInt 2; LInt 3]; [LInt 1; LInt 2]; [LInt 3; LInt 4]]) []; OAddNode (LInt 9) []] hg_empty in
  adjacency' s None 1 true = [[0; 2; 1; 0; 0]; [2; 0; 1; 0; 0]; [1; 1; 0; 1; 0]; [0; 0; 1; 0; 0]; [0; 0; 0; 0; 0]] /\
  laplacian s 1 = [[1; -1; 0; 0; 0]; [-1; 1; 0; 0; 0]; [0; 0; 1; -1; 0]; [0; 0; -1; 1; 0]; [0; 0; 0; 0; 0]] /\
  degree_vec s (Some 2%nat) = [1; 1; 1; 0; 0] /\
  qform (laplacian s 1) (keys (h_node s)) (fun l => match l with LInt z => z | _ => 0 end) = 2.
Proof. vm_compute. repeat split. Qed.
Print Assumptions C12_nonvacuous.

(* the adjacency tensor (unnormalised; the default divides it by order!): an entry is 1 exactly when its index tuple
   enumerates, without repetition, the member positions of an edge of the order, else 0; it is symmetric under every
   permutation of the indices; flattened it has N^(order+1) entries *)
Theorem C12_adjacency_tensor : forall s d,
  (forall idx, (tensor_entry s d idx = 1 <->
                exists e m, In (e, m) (h_edge s) /\ length m = S d /\ length idx = S d /\ NoDup idx /\
                            forall x, In x m -> In (node_pos s x) idx) /\
               (tensor_entry s d idx = 0 \/ tensor_entry s d idx = 1)) /\
  (forall idx idx', Permutation.Permutation idx idx' -> tensor_entry s d idx = tensor_entry s d idx') /\
  length (adjacency_tensor_flat s d) = (length (h_node s) ^ S d)%nat.
Proof.
  intros s d. split; [intro idx; apply tensor_entry_spec|]. split; [intros idx idx'; apply tensor_symmetric|apply tensor_flat_length].
Qed.
Print Assumptions C12_adjacency_tensor.
