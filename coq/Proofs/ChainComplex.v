(* C13, closed: for every simplicial complex state satisfying the C03 invariant whose node labels
   are numbers or strings, and for every orientation, the product of consecutive boundary matrices
   of the model is the zero matrix. *)
From Coq Require Import String ZArith List Bool Lia Sorted Permutation.
From XV Require Import Base.Label Base.LSet Base.ODict Base.Attr Base.Outcome Model.Hypergraph
     Model.SimplicialComplex Model.Hodge
     Proofs.HgViews Proofs.HgInv Proofs.ScInv Proofs.HodgeProofs Proofs.MatrixProofs Proofs.SortProofs Proofs.DerivedProofs.
Import ListNotations.
Open Scope Z_scope.

Definition Orderable (s : hg) : Prop := forall n, In n (nkeys s) -> orderable n.

(* a choice of the orientation of a listed face, by search *)
Definition face_orient (mid : list (list lbl * Z)) (f : list lbl) : Z :=
  match find (fun c => lbls_eqb (fst c) f) mid with Some c => snd c | None => 0 end.

Lemma face_orient_In mid f : (exists o, In (f, o) mid) -> In (f, face_orient mid f) mid.
Proof.
  intros (o & Ho). unfold face_orient. destruct (find (fun c => lbls_eqb (fst c) f) mid) as [c|] eqn:E.
  - apply find_some in E. destruct E as [Hin Heq]. apply lbls_eqb_eq in Heq. destruct c as [f' o']. cbn [fst snd] in *. subst f'. exact Hin.
  - exfalso. pose proof (find_none _ _ E (f, o) Ho) as K. cbn [fst] in K.
    assert (lbls_eqb f f = true) by (apply lbls_eqb_eq; reflexivity). congruence.
Qed.

Lemma NoDup_map_inj_in {A B} (f : A -> B) l : NoDup l -> (forall x y, In x l -> In y l -> f x = f y -> x = y) -> NoDup (map f l).
Proof.
  induction 1 as [|a l Ha Hl IH]; intro Hinj; cbn [map]; constructor.
  - intro Hi. apply in_map_iff in Hi. destruct Hi as (y & E & Hy). apply Ha.
    rewrite (Hinj a y (or_introl eq_refl) (or_intror Hy) (eq_sym E)). exact Hy.
  - apply IH. intros x y Hx Hy. apply Hinj; right; assumption.
Qed.

Lemma same_len (a b : list lbl) : NoDup a -> NoDup b -> (forall x, In x a <-> In x b) -> length a = length b.
Proof. intros Ha Hb H. apply Permutation_length. apply NoDup_Permutation; assumption. Qed.

Lemma NoDup_pairs_of_keys {V} (d : odict V) : NoDup (keys d) -> NoDup d.
Proof.
  induction d as [|[k v] d IH]; intro H; [constructor|]. cbn [keys map] in H. inversion H as [|? ? Hk Hd]; subst.
  constructor; [|apply IH; exact Hd]. intro Hi. apply Hk. unfold keys. apply (in_map fst _ _ Hi).
Qed.

Lemma rows_cols_shift' s orient o : rows_of s orient (S o) = cols_of s orient o.
Proof. destruct o as [|o']; reflexivity. Qed.

Section Chain.
  Variables (s : hg) (orient : list (lbl * Z)).
  Hypothesis SI : SInv s.
  Hypothesis Ord : Orderable s.

  Let I : Inv s := proj1 SI.

  Lemma edge_facts e m : In (e, m) (h_edge s) ->
    Sx s e m /\ NoDup m /\ (forall x, In x m -> orderable x) /\ KSorted (sort_simplex m).
  Proof.
    intro Hin. pose proof I as (_ & (_ & _ & _ & Ke) & (_ & V) & _).
    assert (G : get e (h_edge s) = Some m) by (apply In_get; assumption).
    assert (ND : NoDup m) by (specialize (V e); unfold mems, getl in V; rewrite G in V; exact V).
    assert (Ho : forall x, In x m -> orderable x).
    { intros x Hx. apply Ord. apply (members_are_nodes s e x I). unfold mems, getl. rewrite G. exact Hx. }
    split; [exact G|]. split; [exact ND|]. split; [exact Ho|]. apply sort_simplex_sorted; assumption.
  Qed.

  (* the listed simplices of one size are pairwise different as sorted words *)
  Lemma simplices_NoDup size : NoDup (map fst (map snd (simplices_of_size s orient size))).
  Proof.
    unfold simplices_of_size. rewrite !map_map. cbn [fst snd].
    pose proof I as (_ & (_ & _ & _ & Ke) & _).
    apply NoDup_map_inj_in.
    - apply NoDup_filter. apply NoDup_pairs_of_keys. exact Ke.
    - intros [e1 m1] [e2 m2] H1 H2 E. apply filter_In in H1. apply filter_In in H2. destruct H1 as [H1 _]. destruct H2 as [H2 _].
      cbn [snd] in E. destruct (edge_facts e1 m1 H1) as (G1 & _ & _ & _). destruct (edge_facts e2 m2 H2) as (G2 & _ & _ & _).
      assert (Hs : seteq m1 m2).
      { intro x. rewrite <- (In_sort_simplex x m1), <- (In_sort_simplex x m2), E. reflexivity. }
      pose proof SI as (_ & _ & U & _). pose proof (U e1 e2 m1 m2 G1 G2 Hs) as Ee. subst e2.
      unfold Sx in *. rewrite G1 in G2. injection G2 as <-. reflexivity.
  Qed.

  Lemma nodes_NoDup : NoDup (map fst (map snd (node_simplices s))).
  Proof.
    unfold node_simplices. rewrite !map_map. cbn [fst snd]. pose proof I as (_ & (_ & _ & Kn & _) & _).
    apply NoDup_map_inj_in; [exact Kn|]. intros x y _ _ E. injection E as E. exact E.
  Qed.

  (* every facet of a listed simplex of three or more nodes is listed *)
  Lemma facet_listed e m j : In (e, m) (h_edge s) -> (3 <= length m)%nat -> (j < length m)%nat ->
    exists o, In (remove_nth j (sort_simplex m), o) (map snd (simplices_of_size s orient (length m - 1))).
  Proof.
    intros Hin H3 Hj. destruct (edge_facts e m Hin) as (G & ND & Ho & KS).
    set (tau := sort_simplex m) in *. set (f := remove_nth j tau).
    assert (Lt : length tau = length m) by apply sort_simplex_length.
    assert (NDt : NoDup tau) by (apply KSorted_NoDup; exact KS).
    assert (Hf : forall x, In x f <-> In x tau /\ x <> nth j tau LNone) by (intro x; apply In_remove_nth; [exact NDt|lia]).
    assert (KSf : KSorted f) by (apply remove_nth_sorted; exact KS).
    assert (Lf : length f = (length m - 1)%nat) by (unfold f; rewrite remove_nth_length by lia; lia).
    assert (Face_f : Face f m).
    { split; [apply KSorted_NoDup; exact KSf|]. split; [|lia].
      intros x Hx. apply Hf in Hx. destruct Hx as [Hx _]. apply (proj1 (In_sort_simplex x m)). exact Hx. }
    pose proof SI as (_ & Cl & _ & _). destruct (Cl e m f G Face_f) as (e' & m' & G' & Hs).
    assert (Hin' : In (e', m') (h_edge s)) by (apply get_In; exact G').
    destruct (edge_facts e' m' Hin') as (_ & ND' & Ho' & KS').
    assert (Lm' : length m' = length f).
    { apply same_len; [exact ND'|apply KSorted_NoDup; exact KSf|]. intro x. symmetry. apply Hs. }
    exists (orient_of orient e'). apply in_map_iff. exists (e', (sort_simplex m', orient_of orient e')). split.
    - cbn [snd]. f_equal. apply KSorted_unique; [exact KS'|exact KSf|]. intro x. rewrite In_sort_simplex. symmetry. apply Hs.
    - unfold simplices_of_size. apply in_map_iff. exists (e', m'). split; [reflexivity|]. apply filter_In. split; [exact Hin'|].
      cbn [snd]. apply Nat.eqb_eq. lia.
  Qed.

  Lemma singleton_facet (m : list lbl) j : length m = 2%nat -> (j < 2)%nat ->
    exists x, In x m /\ remove_nth j (sort_simplex m) = [x].
  Proof.
    intros L Hj. pose proof (sort_simplex_length m) as Ls. rewrite L in Ls.
    destruct (sort_simplex m) as [|a [|b [|c r]]] eqn:E; try discriminate Ls.
    assert (Ha : In a m) by (apply (proj1 (In_sort_simplex a m)); rewrite E; left; reflexivity).
    assert (Hb : In b m) by (apply (proj1 (In_sort_simplex b m)); rewrite E; right; left; reflexivity).
    destruct j as [|[|j]]; [exists b|exists a|lia]; split; try assumption; reflexivity.
  Qed.

  (* every entry of B_k B_{k+1} is zero *)
  Theorem product_entry_zero k rho tau :
    In tau (map snd (cols_of s orient (S k))) ->
    sumZ (fun c => bentry (fst rho) (fst c) (snd rho) (snd c) * bentry (fst c) (fst tau) (snd c) (snd tau))
         (map snd (cols_of s orient k)) = 0.
  Proof.
    intro Ht. set (mid := map snd (cols_of s orient k)).
    apply (boundary_product_entry (fst rho) (fst tau) (snd rho) (snd tau) mid (fun j => face_orient mid (remove_nth j (fst tau)))).
    - unfold mid. destruct k as [|k']; cbn [cols_of]; [apply nodes_NoDup|apply simplices_NoDup].
    - intros j Hj. apply face_orient_In.
      cbn [cols_of] in Ht. unfold simplices_of_size in Ht. rewrite map_map in Ht. apply in_map_iff in Ht.
      destruct Ht as ([e m] & <- & Hin). apply filter_In in Hin. destruct Hin as [Hin Hsz]. cbn [fst snd] in *.
      apply Nat.eqb_eq in Hsz. rewrite sort_simplex_length in Hj.
      destruct k as [|k'].
      + (* edges over nodes *)
        destruct (singleton_facet m j Hsz ltac:(lia)) as (x & Hx & Ex). rewrite Ex. exists 0.
        unfold mid. cbn [cols_of]. unfold node_simplices. rewrite map_map. cbn [snd]. apply in_map_iff. exists x. split; [reflexivity|].
        apply (members_are_nodes s e x I). destruct (edge_facts e m Hin) as (G & _). unfold mems, getl. unfold Sx in G. rewrite G. exact Hx.
      + destruct (facet_listed e m j Hin ltac:(lia) Hj) as (o & Ho). exists o. unfold mid. cbn [cols_of].
        replace (S (S k')) with (length m - 1)%nat by lia. exact Ho.
  Qed.

  (* ... as matrices: B_k B_{k+1} = 0 entry by entry *)
  Theorem boundary_product_zero k i j :
    let Bk := boundary_matrix s orient k in
    let Bk1 := boundary_matrix s orient (S k) in
    (i < length Bk)%nat -> (j < length (cols_of s orient (S k)))%nat ->
    dot (nth i Bk []) (col 0 Bk1 j) = 0.
  Proof.
    intros Bk Bk1 Hi Hj. unfold Bk, Bk1, boundary_matrix, bmatrix in *. rewrite map_length in Hi.
    rewrite (nth_map_lt _ _ _ ([], 0)) by exact Hi.
    set (rho := nth i (map snd (rows_of s orient k)) ([], 0)).
    rewrite rows_cols_shift'.
    set (mid := map snd (cols_of s orient k)).
    set (T := map snd (cols_of s orient (S k))).
    assert (Hj' : (j < length T)%nat) by (unfold T; rewrite map_length; exact Hj).
    assert (Ecol : col 0 (map (fun r => map (fun c => bentry (fst r) (fst c) (snd r) (snd c)) T) mid) j =
                   map (fun c => bentry (fst c) (fst (nth j T ([], 0))) (snd c) (snd (nth j T ([], 0)))) mid).
    { unfold col. rewrite map_map. apply map_ext. intro c. rewrite (nth_map_lt _ _ _ ([], 0)) by exact Hj'. reflexivity. }
    rewrite Ecol, dot_map.
    apply (product_entry_zero k rho (nth j T ([], 0))). apply nth_In. exact Hj'.
  Qed.
End Chain.
