"""C19 - derived networks satisfy their set-theoretic definitions."""
import os, random, warnings
from itertools import combinations
from .. import common as C, histcheck as HC, gallina as G, hgsim, scsim
from . import base, C01, C03

PROP = "C19"
PROJ = "(mkProj true true false false)"
IMPORTS = ("Base.Label Base.Attr Base.Outcome Model.Hypergraph Model.HgCheck Model.SimplicialComplex Model.ScCheck "
           "Model.Copy Model.Derived Model.DerivedCheck")


def members(net):
    return {e: frozenset(net.edges.members(e)) for e in net.edges}


def components(nodes, edge_sets):
    parent = {n: n for n in nodes}
    def find(x):
        while parent[x] != x:
            parent[x] = parent[parent[x]]
            x = parent[x]
        return x
    for ms in edge_sets:
        ms = list(ms)
        for a in ms[1:]:
            parent[find(a)] = find(ms[0])
    comps = {}
    for n in nodes:
        comps.setdefault(find(n), set()).add(n)
    return list(comps.values())


def gen_dv(rng, H):
    nodes, edges = list(H.nodes), list(H.edges)
    kind = rng.choice(["sub", "sub", "dual", "lshift", "cut", "cleanup", "cleanup", "relabel", "lcc", "complement"])
    if kind == "sub":
        ns = None if rng.random() < 0.3 else rng.sample(nodes + [77], rng.randint(0, len(nodes) + 1)) if nodes else [77]
        es = None if rng.random() < 0.5 else rng.sample(edges + [88], rng.randint(0, len(edges) + 1)) if edges else [88]
        return ("sub", ns, es, rng.random() < 0.6)
    if kind == "cut":
        return ("cut", rng.randint(0, 4))
    if kind == "cleanup":
        return ("cleanup",) + tuple(rng.random() < 0.5 for _ in range(5))
    if kind == "relabel":
        return ("relabel", rng.choice(["label", "old"]))
    return (kind,)


def apply_dv(H, dv, H2=None):
    import xgi
    k = dv[0]
    if k == "sub":
        return xgi.subhypergraph(H, nodes=dv[1], edges=dv[2], keep_isolates=dv[3])
    if k == "dual":
        return H.dual()
    if k == "lshift":
        return H << H2
    if k == "cut":
        return xgi.cut_to_order(H, dv[1])
    if k == "cleanup":
        return H.cleanup(isolates=dv[1], singletons=dv[2], multiedges=dv[3], connected=dv[4], relabel=dv[5], in_place=False)
    if k == "relabel":
        return xgi.convert_labels_to_integers(H, label_attribute=dv[1], in_place=False)
    if k == "lcc":
        return xgi.largest_connected_hypergraph(H, in_place=False)
    if k == "complement":
        return xgi.complement(H)
    raise AssertionError(k)


def dv_gallina(dv, res_nodes, ops2):
    k = dv[0]
    if k == "sub":
        return f"(DvSub {G.gopt(dv[1], G.lbls)} {G.gopt(dv[2], G.lbls)} {G.gbool(dv[3])})"
    if k == "dual":
        return f"(DvDual {G.lbls(res_nodes)})"
    if k == "lshift":
        return f"(DvLshift {ops2})"
    if k == "cut":
        return f"(DvCut {G.gZ(dv[1])})"
    if k == "cleanup":
        return "(DvCleanupCopy " + " ".join(G.gbool(b) for b in dv[1:6]) + ")"
    if k == "relabel":
        return f"(DvRelabelCopy {G.gstr(dv[1])})"
    if k == "lcc":
        return "DvLccCopy"
    raise AssertionError(k)


def oracle(dv, H, R, exc, H2=None):
    """the set-theoretic definition of each derived network; description of a violation or None"""
    k = dv[0]
    N, E = list(H.nodes), members(H)
    if exc is not None:
        if k == "cut":
            sizes = [len(m) for m in E.values()]
            mo = (max(sizes) - 1) if sizes else (0 if N else None)
            if mo is not None and dv[1] > mo and exc == "XGIError":
                return None
            if mo is None:
                return None
            return f"cut_to_order({dv[1]}) raised {exc} although the maximum order is {mo}"
        if k == "lcc" and not N:
            return None       # recorded separately as a finding candidate (largest component of nothing)
        if k == "cleanup" and not dv[3] and exc == "TypeError":
            return None       # ids of mixed kinds cannot be sorted (documented restriction of merge_duplicate_edges)
        return f"{k} raised {exc}"
    RN, RE = list(R.nodes), members(R)
    if k == "sub":
        nset = set(N) if dv[1] is None else set(dv[1]) & set(N)
        eset = set(E) if dv[2] is None else set(dv[2]) & set(E)
        want = {e: E[e] for e in E if e in eset and E[e] <= nset}
        if RE != want:
            return f"subhypergraph edges {RE} differ from the requested edges inside the requested nodes {want}"
        wantn = [n for n in N if n in nset and (dv[3] or any(n in m for m in want.values()))]
        if RN != wantn:
            return f"subhypergraph nodes {RN} expected {wantn}"
        for n in RN:
            if dict(R.nodes[n]) != dict(H.nodes[n]):
                return f"subhypergraph changed the attributes of node {n!r}"
        for e in RE:
            if dict(R.edges[e]) != dict(H.edges[e]):
                return f"subhypergraph changed the attributes of edge {e!r}"
    elif k == "dual":
        if set(RN) != set(E) or set(RE) != set(N):
            return f"dual: nodes {RN} / edges {list(RE)} are not the edges / nodes of the source"
        for n in N:
            if RE[n] != frozenset(H.nodes.memberships(n)):
                return f"dual edge {n!r} has members {set(RE[n])}, memberships of the node are {H.nodes.memberships(n)}"
        if all(len(H.nodes.memberships(n)) > 0 for n in N) and all(len(m) > 0 for m in E.values()):
            DD = R.dual()
            if set(DD.nodes) != set(N) or members(DD) != E:
                return "dual is not an involution on a network without isolated nodes or empty edges"
    elif k == "lshift":
        E2 = members(H2)
        if set(RN) != set(N) | set(H2.nodes):
            return "<< : nodes are not the union of the nodes"
        want = sorted(map(sorted_repr, list(E.values()) + list(E2.values())))
        if sorted(map(sorted_repr, RE.values())) != want:
            return f"<< : edges {list(RE.values())} are not the disjoint union of the edges"
    elif k == "cut":
        want = {e: m for e, m in E.items() if len(m) <= dv[1] + 1}
        if RE != want or RN != N:
            return f"cut_to_order({dv[1]}) kept {RE}, expected {want}"
    elif k == "complement":
        sizes = [len(m) for m in E.values()]
        # max_edge_order is 0 for a network with nodes and no edges, so singletons are "up to the maximum size"
        mx = max(sizes) if sizes else (1 if N else 0)
        present = set(E.values())
        want = [frozenset(c) for r in range(1, mx + 1) for c in combinations(N, r) if frozenset(c) not in present]
        got = list(RE.values())
        if sorted(map(sorted_repr, got)) != sorted(map(sorted_repr, want)) or set(RN) != set(N):
            return f"complement holds {len(got)} edges, {len(want)} absent node sets expected"
    elif k == "lcc":
        comps = components(N, E.values())
        big = max(len(c) for c in comps)
        if set(RN) not in [c for c in comps if len(c) == big]:
            return f"largest_connected_hypergraph kept nodes {RN}, which is not a largest component"
        want = {e: m for e, m in E.items() if m <= set(RN)}
        if RE != want:
            return f"largest_connected_hypergraph edges {RE}, induced edges are {want}"
    elif k == "relabel" or k == "cleanup":
        la = dv[1] if k == "relabel" else "label"
        relabel = True if k == "relabel" else dv[5]
        if relabel:
            if RN != list(range(len(RN))) or list(RE) != list(range(len(RE))):
                return f"{k}: labels are not 0..n-1 / 0..m-1: {RN} {list(RE)}"
            try:
                old_n = {n: R.nodes[n][la] for n in RN}
                old_e = {e: R.edges[e][la] for e in RE}
            except KeyError:
                return f"{k}: the old labels are not recorded under {la!r}"
            if len(set(map(repr, old_n.values()))) != len(RN) or len(set(map(repr, old_e.values()))) != len(RE):
                return f"{k}: relabelling is not injective"
            back = {old_e[e]: frozenset(old_n[x] for x in m) for e, m in RE.items()}
            backn = [old_n[n] for n in RN]
        else:
            back, backn = dict(RE), RN
        if k == "relabel":
            if back != E or backn != N:
                return f"convert_labels_to_integers is not an isomorphism: {back} vs {E}"
        else:
            iso, sing, multi, conn = dv[1], dv[2], dv[3], dv[4]
            msets = list(back.values())
            if not multi and len(set(msets)) != len(msets):
                return "cleanup(multiedges=False) left repeated edges"
            if not sing and any(len(m) == 1 for m in msets):
                return "cleanup(singletons=False) left singleton edges"
            if not iso and any(not any(n in m for m in msets) for n in backn):
                return "cleanup(isolates=False) left isolated nodes"
            if conn and backn and len(components(backn, msets)) != 1:
                return "cleanup(connected=True) returned a disconnected network"
            if not set(backn) <= set(N):
                return "cleanup created nodes"
            if not set(msets) <= set(E.values()):
                return "cleanup altered the members of an edge"
            if iso and sing and multi and not conn:
                if sorted(map(sorted_repr, msets)) != sorted(map(sorted_repr, E.values())) or set(backn) != set(N):
                    return "cleanup with every artefact allowed changed the network"
            # minimality: an edge may disappear only if a requested guarantee excludes it
            if not conn:
                kept = set(msets)
                for m in E.values():
                    if m not in kept and not (len(m) == 1 and not sing) and len(m) != 0:
                        return f"cleanup removed the edge {set(m)} which no requested guarantee excludes"
    return None


def sorted_repr(s):
    return sorted(map(repr, s))


def sc_oracle(kind, S, R, exc, order=None):
    E = members(S)
    if kind == "max":
        if exc:
            return f"from_max_simplices raised {exc}"
        mx = [m for m in E.values() if not any(m < o for o in E.values())]
        got = list(members(R).values())
        if sorted(map(sorted_repr, got)) != sorted(map(sorted_repr, mx)) or set(R.nodes) != set(S.nodes):
            return f"from_max_simplices kept {got}, maximal simplices are {mx}"
        return None
    sizes = [len(m) for m in E.values()]
    mo = (max(sizes) - 1) if sizes else (0 if len(S.nodes) else None)
    if exc:
        return None if (mo is None or order > mo) and exc in ("XGIError", "TypeError") else f"k_skeleton raised {exc}"
    want = {e: m for e, m in E.items() if len(m) <= order + 1}
    if members(R) != want:
        return f"k_skeleton({order}) kept {members(R)}, expected {want}"
    return None


def run(v):
    proof = base.proof_stage(v, PROP)
    n = 2500 if C.tier() == "thorough" else 260
    rng = random.Random(C.seed() * 101 + 19)
    recs = HC.gen_histories(hgsim, n, 12, C.seed() + 190, malformed_share=0.0)
    failures, reports, errors = [], [], []
    terms, compl_terms, kinds = [], [], []
    for i, r in enumerate(recs):
        H = r["net"]
        if r["obs"] and r["obs"][-1].get("broken"):
            continue
        for _ in range(3):
            dv = gen_dv(rng, H)
            H2, ops2 = None, None
            if dv[0] == "lshift":
                r2 = hgsim.run_history(None, length=rng.randint(1, 5), rng=random.Random(rng.randrange(2 ** 60)), style="int")
                H2 = r2["net"]
                try:
                    ops2 = G.glist([hgsim.op_to_gallina(op, ex) for op, ex in zip(r2["ops"], r2["extras"])])
                except G.Unsupported:
                    continue
            before = hgsim.observe(H)
            exc, R = None, None
            try:
                with warnings.catch_warnings():
                    warnings.simplefilter("ignore")
                    R = apply_dv(H, dv, H2)
            except Exception as e:  # noqa: BLE001
                exc = G.classify_exception(e)
            kinds.append(dv[0])
            if hgsim.observe(H) != before:
                failures.append((f"{PROP}:{dv[0]}:mutates-input", {"what": f"{dv[0]} modified its input", "history": HC.jsonable(r["ops"]), "derived": HC.jsonable(dv)}))
            d = oracle(dv, H, R, exc, H2)
            if d:
                failures.append((f"{PROP}:{dv[0]}:{' '.join(d.split(' ')[:3])}",
                                 {"what": d, "history": HC.jsonable(r["ops"]), "derived": HC.jsonable(dv)}))
            try:
                opsg = G.glist([hgsim.op_to_gallina(op, ex) for op, ex in zip(r["ops"], r["extras"])])
                if dv[0] == "complement":
                    if R is not None:
                        compl_terms.append(((i, dv), G.gpair(opsg, G.glist([G.lblset(m) for m in members(R).values()]))))
                else:
                    ob = hgsim.observe(R) if R is not None else dict(C19_EMPTY)
                    if ob.get("broken"):
                        failures.append((f"{PROP}:{dv[0]}:broken-result", {"what": f"{dv[0]} returned a broken network: {ob['broken']}",
                                                                            "history": HC.jsonable(r["ops"]), "derived": HC.jsonable(dv)}))
                        continue
                    terms.append(((i, dv), G.gpair(opsg, dv_gallina(dv, [n_ for n_, _ in ob["nodes"]], ops2),
                                                   hgsim.obs_to_gallina(ob, exc, 0))))
            except G.Unsupported:
                pass
    # simplicial complexes: from_max_simplices, k_skeleton
    import xgi
    srecs = HC.gen_histories(scsim, max(60, n // 4), 10, C.seed() + 191, malformed_share=0.0)
    sterms = []
    for i, r in enumerate(srecs):
        S = r["net"]
        for kind in ("max", "skel"):
            order = rng.randint(0, 3)
            exc, R = None, None
            try:
                with warnings.catch_warnings():
                    warnings.simplefilter("ignore")
                    R = xgi.from_max_simplices(S) if kind == "max" else xgi.k_skeleton(S, order)
            except Exception as e:  # noqa: BLE001
                exc = G.classify_exception(e)
            kinds.append("from_max_simplices" if kind == "max" else "k_skeleton")
            d = sc_oracle(kind, S, R, exc, order)
            if d:
                failures.append((f"{PROP}:{kind}:{' '.join(d.split(' ')[:3])}", {"what": d, "class": "SimplicialComplex",
                                                                                 "history": HC.jsonable(r["ops"]), "order": order}))
            try:
                opsg = G.glist([scsim.op_to_gallina(op, ex) for op, ex in zip(r["ops"], r["extras"])])
                ob = hgsim.observe(R) if R is not None else dict(C19_EMPTY)
                sterms.append(((i, kind), G.gpair(opsg, "ScMax" if kind == "max" else f"(ScSkeleton {G.gZ(order)})",
                                                  hgsim.obs_to_gallina(ob, exc, 0))))
            except G.Unsupported:
                pass
    # evaluate
    cdir = C.cases_dir(PROP)
    files = {}
    for name, fn, tl, source in (("dv", f"dv_mismatches {PROJ}", terms, recs), ("sc", f"scdv_mismatches {PROJ}", sterms, srecs),
                                 ("compl", "compl_mismatches", compl_terms, recs)):
        for k in range(0, len(tl), 120):
            chunk = tl[k:k + 120]
            path = os.path.join(cdir, f"cases_{PROP}_{name}_{k // 120}.v")
            C.write_case_file(path, [IMPORTS], "Definition cases := [\n" + ";\n".join(t for _, t in chunk) + "\n].\n" +
                              f"Eval vm_compute in ({fn} cases).\n")
            files[path] = (fn, [key for key, _ in chunk], source)
    res = C.run_coq_files(files.keys())
    nm = 0
    for path, (fn, keys, source) in files.items():
        rc, out = res[path]
        pairs = C.parse_pairs(out) if rc == 0 else None
        if pairs is None:
            errors.append({"file": os.path.basename(path), "rc": rc, "output": out[-1500:]})
            continue
        for ci, _ in pairs:
            nm += 1
            if len(reports) < 6:
                i, dv = keys[ci]
                reports.append({"correspondence": fn, "derived": HC.jsonable(dv), "history": HC.jsonable(source[i]["ops"])})
    C.clean_cases(cdir)
    st = HC.stats(recs + srecs)
    v.coverage.update({
        "evaluations": len(terms) + len(sterms) + len(compl_terms),
        "distinct_nontrivial": st.pop("distinct_nontrivial"),
        "rule": "source networks built by generated edit histories; each derived network (subhypergraph with node/edge "
                "selections, dual, <<, cut_to_order, cleanup over the 32 flag sets, relabelling, largest component, "
                "complement; from_max_simplices and k_skeleton on complexes) compared with the model's result and with "
                "the set-theoretic definition (oracle); non-trivial = the source history changes the tables",
        "samples": [HC.jsonable({"history": recs[0]["ops"][:4], "derived": "see derived_histogram"})],
        "derived_histogram": C.histogram(kinds),
        "oracle_evaluations": len(kinds),
        "exhaustive": False,
        **st,
    })
    v.coverage["mismatches_total"] = nm
    base.conclude(v, proof, reports, failures, errors)


C19_EMPTY = {"nodes": [], "nattr": [], "edges": [], "eattr": [], "net": {}, "uid": 0, "broken": None}


def replay(payload):
    d = payload.get("detail", payload)
    ops = HC.unjson(d["history"])
    dv = HC.unjson(d.get("derived"))
    klass = d.get("class", "Hypergraph")
    if klass == "SimplicialComplex":
        print("replay of simplicial cases: rebuild with scsim.run_history and call from_max_simplices / k_skeleton")
        return 1
    r = hgsim.run_history(ops)
    H = r["net"]
    exc, R = None, None
    try:
        R = apply_dv(H, tuple(dv))
    except Exception as e:  # noqa: BLE001
        exc = G.classify_exception(e)
    print("source:", hgsim.observe(H)["edges"], "derived op:", dv, "outcome:", exc or "returns")
    if R is not None:
        print("result:", hgsim.observe(R)["nodes"], hgsim.observe(R)["edges"])
    dsc = oracle(tuple(dv), H, R, exc)
    print("oracle:", dsc or "holds")
    return 1 if dsc else 0
