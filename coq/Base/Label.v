(* Concrete label universe of the model: Python ints, ASCII strings, tuples, None. *)
From Coq Require Import ZArith List Bool String Ascii Lia.
Import ListNotations.

Inductive lbl : Type :=
| LInt (z : Z)
| LStr (s : string)
| LTup (l : list lbl)
| LNone.

Section LblInd.
  Variable P : lbl -> Prop.
  Hypothesis HInt : forall z, P (LInt z).
  Hypothesis HStr : forall s, P (LStr s).
  Hypothesis HTup : forall l, Forall P l -> P (LTup l).
  Hypothesis HNone : P LNone.
  Fixpoint lbl_ind' (a : lbl) : P a :=
    match a with
    | LInt z => HInt z
    | LStr s => HStr s
    | LTup l => HTup l ((fix go (l : list lbl) : Forall P l :=
                           match l with
                           | [] => Forall_nil P
                           | x :: xs => Forall_cons x (lbl_ind' x) (go xs)
                           end) l)
    | LNone => HNone
    end.
End LblInd.

Fixpoint lbl_eqb (a b : lbl) : bool :=
  match a, b with
  | LInt x, LInt y => Z.eqb x y
  | LStr x, LStr y => String.eqb x y
  | LTup x, LTup y =>
      (fix go (x y : list lbl) : bool :=
         match x, y with
         | [], [] => true
         | a :: x', b :: y' => lbl_eqb a b && go x' y'
         | _, _ => false
         end) x y
  | LNone, LNone => true
  | _, _ => false
  end.

Lemma lbl_eqb_eq : forall a b, lbl_eqb a b = true <-> a = b.
Proof.
  induction a as [z|s|l IH|] using lbl_ind'; destruct b as [z'|s'|l'|]; simpl;
    try (split; intro H; discriminate H); try (split; reflexivity).
  - rewrite Z.eqb_eq. split; intro H; [subst; reflexivity | inversion H; reflexivity].
  - rewrite String.eqb_eq. split; intro H; [subst; reflexivity | inversion H; reflexivity].
  - revert l'. induction IH as [|x xs Hx _ IHxs]; intros [|y ys].
    + split; reflexivity.
    + split; intro H; [discriminate H | inversion H].
    + split; intro H; [discriminate H | inversion H].
    + rewrite andb_true_iff, Hx, IHxs. split.
      * intros [-> H]. inversion H. reflexivity.
      * intro H. inversion H. split; reflexivity.
Qed.

Lemma lbl_eqb_refl a : lbl_eqb a a = true.
Proof. apply lbl_eqb_eq. reflexivity. Qed.

Lemma lbl_eqb_neq a b : lbl_eqb a b = false <-> a <> b.
Proof.
  split.
  - intros H E. apply lbl_eqb_eq in E. congruence.
  - intro H. destruct (lbl_eqb a b) eqn:E; [apply lbl_eqb_eq in E; contradiction | reflexivity].
Qed.

Lemma lbl_eqb_spec a b : reflect (a = b) (lbl_eqb a b).
Proof.
  destruct (lbl_eqb a b) eqn:E; constructor.
  - apply lbl_eqb_eq; exact E.
  - apply lbl_eqb_neq; exact E.
Qed.

Lemma lbl_eqb_sym a b : lbl_eqb a b = lbl_eqb b a.
Proof.
  destruct (lbl_eqb_spec a b) as [->|N]; [symmetry; apply lbl_eqb_refl|].
  symmetry. apply lbl_eqb_neq. congruence.
Qed.

Definition lbl_eq_dec (a b : lbl) : {a = b} + {a <> b}.
Proof. destruct (lbl_eqb_spec a b); [left|right]; assumption. Defined.

(* The "integer-like" test of update_uid_counter: not str, not tuple, float(idx).is_integer(). *)
Definition as_int (a : lbl) : option Z :=
  match a with LInt z => Some z | _ => None end.

Definition is_none (a : lbl) : bool :=
  match a with LNone => true | _ => false end.

(* Python's "<" on labels: None when the comparison raises TypeError. *)
Fixpoint lbl_cmp (a b : lbl) : option comparison :=
  match a, b with
  | LInt x, LInt y => Some (Z.compare x y)
  | LStr x, LStr y => Some (String.compare x y)
  | LTup x, LTup y =>
      (fix go (x y : list lbl) : option comparison :=
         match x, y with
         | [], [] => Some Eq
         | [], _ :: _ => Some Lt
         | _ :: _, [] => Some Gt
         | a :: x', b :: y' =>
             if lbl_eqb a b then go x' y'
             else lbl_cmp a b
         end) x y
  | _, _ => None
  end.

Definition lbl_ltb (a b : lbl) : option bool :=
  match lbl_cmp a b with
  | Some Lt => Some true
  | Some _ => Some false
  | None => None
  end.

(* insertion of x into a sorted list; None = TypeError *)
Fixpoint ins_sorted (x : lbl) (l : list lbl) : option (list lbl) :=
  match l with
  | [] => Some [x]
  | y :: ys =>
      match lbl_ltb x y with
      | None => None
      | Some true => Some (x :: y :: ys)
      | Some false =>
          match ins_sorted x ys with
          | None => None
          | Some r => Some (y :: r)
          end
      end
  end.

(* all pairs comparable: what makes sorted() independent of the algorithm *)
Fixpoint all_comparable_with (x : lbl) (l : list lbl) : bool :=
  match l with
  | [] => true
  | y :: ys => match lbl_cmp x y with None => false | Some _ => all_comparable_with x ys end
  end.
Fixpoint all_comparable (l : list lbl) : bool :=
  match l with
  | [] => true
  | x :: xs => all_comparable_with x xs && all_comparable xs
  end.

(* sorted(l): None = TypeError (some pair is incomparable). *)
Fixpoint sort_lbls_aux (l : list lbl) : option (list lbl) :=
  match l with
  | [] => Some []
  | x :: xs => match sort_lbls_aux xs with
               | None => None
               | Some r => ins_sorted x r
               end
  end.
Definition sort_lbls (l : list lbl) : option (list lbl) :=
  match l with
  | [] => Some []
  | [x] => Some [x]
  | _ => if all_comparable l then sort_lbls_aux l else None
  end.
