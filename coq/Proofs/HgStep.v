(* Every op preserves Inv; histories; the frame of additions (C04). *)
From Coq Require Import String ZArith List Bool Lia.
From XV Require Import Base.Label Base.LSet Base.ODict Base.Attr Base.Outcome Model.Hypergraph
  Proofs.HgViews Proofs.HgInv Proofs.HgInvOps.
Import ListNotations.
Open Scope Z_scope.

Definition op_admissible (s : hg) (o : op) : Prop :=
  match o with
  | ORandomEdgeShuffle e1 e2 sample => shuffle_admissible s e1 e2 sample
  | _ => True
  end.

Theorem step_Inv s o : op_admissible s o -> Inv s -> Inv (st_of (step s o)).
Proof.
  intros A I. destruct o; simpl step.
  - apply Inv_add_node; exact I.
  - apply Inv_add_nodes_from; exact I.
  - apply Inv_remove_node; exact I.
  - apply Inv_remove_nodes_from; exact I.
  - apply Inv_set_node_attrs_named; exact I.
  - apply Inv_set_node_attrs_scalar; exact I.
  - apply Inv_set_node_attrs_dict; exact I.
  - apply Inv_add_edge; exact I.
  - apply Inv_add_edges_from; exact I.
  - apply Inv_add_weighted; exact I.
  - apply Inv_set_edge_attrs_named; exact I.
  - apply Inv_set_edge_attrs_scalar; exact I.
  - apply Inv_set_edge_attrs_dict; exact I.
  - apply Inv_double_edge_swap; exact I.
  - apply Inv_random_edge_shuffle; [exact A|exact I].
  - apply Inv_add_node_to_edge; exact I.
  - apply Inv_remove_edge1; exact I.
  - apply Inv_remove_edges_from; exact I.
  - apply Inv_remove_node_from_edge; exact I.
  - apply Inv_update; exact I.
  - apply Inv_clear.
  - apply Inv_clear_edges; exact I.
  - apply Inv_merge; exact I.
  - apply Inv_cleanup; exact I.
  - apply Inv_relabel.
  - apply Inv_lcc; exact I.
  - rewrite st_of_ok. apply Inv_with_net. exact I.
Qed.

Fixpoint admissible_history (s : hg) (ops : list op) : Prop :=
  match ops with
  | [] => True
  | o :: r => op_admissible s o /\ admissible_history (st_of (step s o)) r
  end.

Theorem run_Inv ops : forall s, admissible_history s ops -> Inv s -> Inv (run ops s).
Proof.
  induction ops as [|o r IH]; intros s A I; simpl; [exact I|].
  destruct A as [A1 A2]. apply IH; [exact A2|]. apply step_Inv; assumption.
Qed.

Lemma admissible_firstn k : forall ops s, admissible_history s ops -> admissible_history s (firstn k ops).
Proof.
  induction k as [|k IH]; intros ops s A; simpl; [exact I|].
  destruct ops as [|o r]; simpl; [exact I|]. destruct A as [A1 A2]. split; [exact A1|]. apply IH. exact A2.
Qed.

Theorem run_prefix_Inv ops s k : admissible_history s ops -> Inv s -> Inv (run (firstn k ops) s).
Proof. intros A I. apply run_Inv; [apply admissible_firstn; exact A|exact I]. Qed.

(* ---- what Inv says about the reports of the public API ---- *)

Theorem Inv_reports s : Inv s ->
  (forall n e, In e (mships s n) <-> In n (mems s e)) /\
  (forall e n, In n (mems s e) -> In n (nkeys s) /\ In e (ekeys s)) /\
  (forall n e, In e (mships s n) -> In e (ekeys s) /\ In n (nkeys s)) /\
  (forall n, In n (nkeys s) <-> has n (h_nattr s) = true) /\
  (forall e, In e (ekeys s) <-> has e (h_eattr s) = true) /\
  NoDup (nkeys s) /\ NoDup (ekeys s) /\ NoDup (keys (h_nattr s)) /\ NoDup (keys (h_eattr s)) /\
  (forall n, NoDup (mships s n)) /\ (forall e, NoDup (mems s e)).
Proof.
  intros (W & (K1 & K2 & K3 & K4) & (V1 & V2) & U).
  assert (A : forall e n, In n (mems s e) -> In n (nkeys s) /\ In e (ekeys s)).
  { intros e n H. split.
    - apply W in H. eapply getl_nonempty_key. exact H.
    - eapply getl_nonempty_key. exact H. }
  split; [exact W|]. split; [exact A|]. split.
  { intros n e H. apply W in H. destruct (A e n H). tauto. }
  split. { intro n. rewrite has_In, K1. reflexivity. }
  split. { intro e. rewrite has_In, K2. reflexivity. }
  unfold nkeys, ekeys. rewrite K1, K2. auto 10.
Qed.

(* ---- C04: the frame of an addition ---- *)

Definition Frame (s s' : hg) : Prop :=
  (forall e, In e (ekeys s) -> mems s' e = mems s e /\ get e (h_eattr s') = get e (h_eattr s)) /\
  (exists l, ekeys s' = ekeys s ++ l) /\
  (forall n y, In y (mships s n) -> In y (mships s' n)) /\
  (forall n y, In y (mships s' n) -> In y (mships s n) \/ ~ In y (ekeys s)).

Lemma Frame_refl s : Frame s s.
Proof.
  split; [auto|]. split; [exists []; rewrite app_nil_r; reflexivity|]. split; auto.
Qed.

Lemma Frame_trans s1 s2 s3 : Frame s1 s2 -> Frame s2 s3 -> Frame s1 s3.
Proof.
  intros (A1 & (l1 & B1) & C1 & D1) (A2 & (l2 & B2) & C2 & D2).
  split; [|split; [|split]].
  - intros e He. destruct (A1 e He) as [X1 X2].
    assert (He2 : In e (ekeys s2)) by (rewrite B1; apply in_app_iff; left; exact He).
    destruct (A2 e He2) as [Y1 Y2]. split; congruence.
  - exists (l1 ++ l2). rewrite B2, B1, app_assoc. reflexivity.
  - auto.
  - intros n y H. destruct (D2 n y H) as [H'|H'].
    + apply D1. exact H'.
    + right. intro Hi. apply H'. rewrite B1. apply in_app_iff. left; exact Hi.
Qed.

Lemma fold_attach_frame e ms : forall s,
  let s' := fold_left (attach e) ms s in
  (forall y, y <> e -> mems s' y = mems s y) /\
  (forall n y, In y (mships s n) -> In y (mships s' n)) /\
  (forall n y, In y (mships s' n) -> In y (mships s n) \/ y = e).
Proof.
  induction ms as [|m ms IH]; intro s; simpl; [auto|].
  destruct (IH (attach e s m)) as (A & B & C). simpl in *.
  split; [|split].
  - intros y N. rewrite A by exact N. rewrite attach_mems.
    destruct (lbl_eqb_spec y e); [contradiction|reflexivity].
  - intros n y H. apply B. rewrite attach_mships. destruct (lbl_eqb_spec n m) as [->|N]; [|exact H].
    apply In_sadd. right; exact H.
  - intros n y H. destruct (C n y H) as [H'|H']; [|right; exact H'].
    rewrite attach_mships in H'. destruct (lbl_eqb_spec n m) as [->|N]; [|left; exact H'].
    apply In_sadd in H'. destruct H' as [->|H']; [right; reflexivity|left; exact H'].
Qed.

Lemma insert_edge_frame e ms a s :
  ~ In e (ekeys s) -> W1 s -> KWF s -> VND s -> Frame s (insert_edge e ms a s).
Proof.
  intros Hne Hw Hk Hv.
  destruct (insert_edge_spec e ms a s Hne Hw Hk Hv) as (_ & _ & _ & Ek & _).
  unfold insert_edge in *.
  set (s1 := with_edge s (set e [] (h_edge s))) in *.
  destruct (fold_attach_frame e ms s1) as (A & B & C).
  assert (He1 : has e (h_edge s1) = true).
  { apply has_In. unfold s1. simpl. apply In_keys_set. left; reflexivity. }
  destruct Hk as (K1 & K2 & K3 & K4). destruct Hv as (V1 & V2).
  assert (Hw1 : W1 s1).
  { intros n x. unfold s1, mships, mems. simpl. rewrite getl_set.
    destruct (lbl_eqb_spec x e) as [->|N]; [|apply Hw].
    split; [|intros []]. intro Hi. exfalso. exact (W1_not_listed s e Hw Hne n Hi). }
  assert (Hv1 : VND s1).
  { split; intro x; [apply V1|].
    unfold s1, mems. simpl. rewrite getl_set. destruct (lbl_eqb x e); [constructor|apply V2]. }
  destruct (fold_attach e ms s1 He1 Hw1 Hv1 K1 K3) as (_ & _ & _ & _ & D1 & _).
  split; [|split; [|split]].
  - intros y Hy. assert (N : y <> e) by (intro; subst; contradiction).
    split.
    + unfold mems at 1. simpl. change (mems (fold_left (attach e) ms s1) y = mems s y).
      rewrite A by exact N. unfold s1, mems. simpl. rewrite getl_set.
      destruct (lbl_eqb_spec y e); [contradiction|reflexivity].
    + simpl. rewrite get_set_other by exact N. rewrite D1. reflexivity.
  - exists [e]. exact Ek.
  - intros n y H. apply B. exact H.
  - intros n y H. destruct (C n y H) as [H'|H']; [left; exact H'|right; subst; exact Hne].
Qed.

Lemma Frame_same_tables s s' :
  h_node s' = h_node s -> h_edge s' = h_edge s -> h_eattr s' = h_eattr s -> Frame s s'.
Proof.
  intros A B C. unfold Frame, mems, mships, ekeys. rewrite A, B, C.
  split; [auto|]. split; [exists []; rewrite app_nil_r; reflexivity|]. split; auto.
Qed.

Lemma Frame_bump e s : Frame s (bump_uid e s).
Proof. destruct (bump_uid_tables e s) as (A & _ & C & D & _). apply Frame_same_tables; assumption. Qed.

Theorem add_edge_frame ms idx a s : Inv s -> Frame s (st_of (add_edge ms idx a s)).
Proof.
  intros I. pose proof I as (Hw & Hk & Hv & Hu). unfold add_edge.
  destruct (existsb is_none (mkset ms)); [apply Frame_refl|].
  destruct idx as [i|].
  - destruct (has i (h_edge s)) eqn:E; [apply Frame_refl|]. rewrite st_of_ok.
    eapply Frame_trans; [apply insert_edge_frame; try assumption; apply has_false_nin; exact E|apply Frame_bump].
  - rewrite st_of_ok. eapply Frame_trans; [apply (Frame_same_tables s (with_uid s (h_uid s + 1))); reflexivity|].
    apply insert_edge_frame; try assumption.
    intro Hi. specialize (Hu (LInt (h_uid s)) (h_uid s) Hi eq_refl). lia.
Qed.

Lemma loop_frame {A} (f : hg -> A -> res) l :
  (forall s x, Inv s -> Inv (st_of (f s x)) /\ Frame s (st_of (f s x))) ->
  forall s, Inv s -> Frame s (st_of (loop f l s)).
Proof.
  intro Hf. induction l as [|x xs IH]; intros s I; simpl; [apply Frame_refl|].
  destruct (Hf s x I) as [I' F']. destruct (f s x) as [[s' o] w]. unfold st_of in *; simpl in *.
  destruct o; [|exact F'].
  specialize (IH s' I'). destruct (loop f xs s') as [[s'' o'] w']. simpl in *.
  eapply Frame_trans; eassumption.
Qed.

Lemma bulk_explicit_frame a s ms idx ea : Inv s -> Frame s (st_of (bulk_item true a s ms idx ea)).
Proof.
  intros I. pose proof I as (Hw & Hk & Hv & Hu). unfold bulk_item.
  destruct (has idx (h_edge s)) eqn:E; [apply Frame_refl|].
  destruct (existsb is_none (mkset ms)); [apply Frame_refl|]. destruct (is_none idx); [apply Frame_refl|].
  rewrite st_of_ok.
  eapply Frame_trans; [apply insert_edge_frame; try assumption; apply has_false_nin; exact E|apply Frame_bump].
Qed.

Lemma bulk_auto_frame a s ms ea :
  Inv s -> Frame s (st_of (bulk_item false a (with_uid s (h_uid s + 1)) ms (LInt (h_uid s)) ea)).
Proof.
  intros I. pose proof I as (Hw & Hk & Hv & Hu). unfold bulk_item.
  assert (F0 : Frame s (with_uid s (h_uid s + 1))) by (apply Frame_same_tables; reflexivity).
  destruct (has (LInt (h_uid s)) (h_edge (with_uid s (h_uid s + 1)))); [exact F0|].
  destruct (existsb is_none (mkset ms)); [exact F0|]. simpl is_none. cbv iota. rewrite st_of_ok.
  eapply Frame_trans; [exact F0|]. apply insert_edge_frame; try assumption.
  intro Hi. specialize (Hu (LInt (h_uid s)) (h_uid s) Hi eq_refl). lia.
Qed.

Theorem add_edges_from_frame eb a s : Inv s -> Frame s (st_of (add_edges_from eb a s)).
Proof.
  intro I. destruct eb as [l|l|l|l|l]; simpl.
  - revert s I. apply loop_frame.
    intros s' ms I'. split; [apply Inv_bulk_auto|apply bulk_auto_frame]; exact I'.
  - revert s I. apply loop_frame. intros s' [m i] I'. split; [apply Inv_bulk_explicit|apply bulk_explicit_frame]; exact I'.
  - revert s I. apply loop_frame. intros s' [m ea] I'. split; [apply Inv_bulk_auto|apply bulk_auto_frame]; exact I'.
  - revert s I. apply loop_frame. intros s' [[m i] ea] I'. split; [apply Inv_bulk_explicit|apply bulk_explicit_frame]; exact I'.
  - revert s I. apply loop_frame. intros s' [idx ms] I'. pose proof I' as (Hw & Hk & Hv & Hu).
    destruct (has idx (h_edge s')) eqn:E; [split; [exact I'|apply Frame_refl]|].
    destruct (existsb is_none (mkset ms)); [split; [exact I'|apply Frame_refl]|].
    destruct (is_none idx); [split; [exact I'|apply Frame_refl]|].
    rewrite st_of_ok. split.
    + apply Inv_insert_explicit; [apply has_false_nin; exact E|exact I'].
    + eapply Frame_trans; [apply insert_edge_frame; try assumption; apply has_false_nin; exact E|apply Frame_bump].
Qed.

(* automatic ids are fresh *)
Theorem auto_id_fresh s : Inv s -> ~ In (LInt (h_uid s)) (ekeys s).
Proof.
  intros (_ & _ & _ & U) Hi. specialize (U (LInt (h_uid s)) (h_uid s) Hi eq_refl). lia.
Qed.

Theorem explicit_dup_refused ms i a s :
  has i (h_edge s) = true -> existsb is_none (mkset ms) = false ->
  add_edge ms (Some i) a s = (s, Ok, 1%nat).
Proof. intros H1 H2. unfold add_edge. rewrite H2, H1. reflexivity. Qed.

Theorem bulk_explicit_dup_refused a s ms i ea :
  has i (h_edge s) = true -> bulk_item true a s ms i ea = (s, Ok, 1%nat).
Proof. intro H. unfold bulk_item. rewrite H. reflexivity. Qed.
