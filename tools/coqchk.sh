#!/bin/sh
# Re-check every compiled Props/*.vo (and everything they depend on) with Coq's independent checker
# and print the axioms the development relies on.  Expects a full build (./check --setup).
cd "$(dirname "$0")/../coq" || exit 1
exec coqchk -silent -o -Q . XV $(ls Props/*.v | sed 's/Props\/\(.*\)\.v/XV.Props.\1/')
