(* Correspondence support for frozen networks: a history is a pair (before freeze(), after). *)
From Coq Require Import String ZArith List Bool Lia.
From XV Require Import Base.Label Base.LSet Base.ODict Base.Attr Base.Outcome Model.Hypergraph
  Model.HgCheck Model.DiHypergraph Model.DiCheck Model.SimplicialComplex Model.ScCheck Model.Freeze.
Import ListNotations.
Open Scope Z_scope.

Fixpoint run_obs {St Op Ob R} (stepf : St -> Op -> R) (stf : R -> St) (matchf : R -> Ob -> bool)
         (s : St) (h : list (Op * Ob)) (i : nat) : St * option nat :=
  match h with
  | [] => (s, None)
  | (o, ob) :: h' =>
      let r := stepf s o in
      if matchf r ob then run_obs stepf stf matchf (stf r) h' (S i) else (s, Some i)
  end.

Definition two_phase {St Op Ob R} (step1 step2 : St -> Op -> R) (stf : R -> St) (matchf : R -> Ob -> bool)
           (init : St) (c : list (Op * Ob) * list (Op * Ob)) : option nat :=
  match run_obs step1 stf matchf init (fst c) O with
  | (_, Some i) => Some i
  | (s, None) => snd (run_obs step2 stf matchf s (snd c) (length (fst c)))
  end.

Fixpoint collect {C} (f : C -> option nat) (cases : list C) (i : nat) : list (nat * nat) :=
  match cases with
  | [] => []
  | c :: r => match f c with Some j => (i, j) :: collect f r (S i) | None => collect f r (S i) end
  end.

Definition fmismatches_hg (L : list string) (p : proj) (cases : list (list (op * obs) * list (op * obs))) :=
  collect (two_phase step (fstep L) st_of (obs_match p) hg_empty) cases O.
Definition fmismatches_di (L : list string) (p : proj) (cases : list (list (dop * dobs) * list (dop * dobs))) :=
  collect (two_phase dstep (dfstep L) dst_of (dobs_match p) dhg_empty) cases O.
Definition fmismatches_sc (L : list string) (p : proj) (cases : list (list (sop * obs) * list (sop * obs))) :=
  collect (two_phase sstep (sfstep L) st_of (obs_match p) hg_empty) cases O.
