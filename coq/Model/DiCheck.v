(* Correspondence support for the DiHypergraph model. *)
From Coq Require Import String ZArith List Bool Lia.
From XV Require Import Base.Label Base.LSet Base.ODict Base.Attr Base.Outcome Model.Hypergraph
  Model.HgCheck Model.DiHypergraph.
Import ListNotations.
Open Scope Z_scope.

Record dobs : Type := mkDObs {
  do_nodes : list (lbl * (list lbl * list lbl));   (* node, (in-memberships, out-memberships) *)
  do_nattr : list (option attrs);
  do_edges : list (lbl * (list lbl * list lbl));   (* edge, (tail, head) *)
  do_eattr : list (option attrs);
  do_net   : attrs;
  do_uid   : Z;
  do_out   : outcome;
  do_warn  : nat
}.

Definition set_match (a b : list lbl) : bool := seteqb a b && Nat.eqb (length a) (length b).

(* m1: the side that carries the order and the first component of the observation *)
Fixpoint dtable_match (order : list lbl) (fst_side snd_side : odict (list lbl))
         (o : list (lbl * (list lbl * list lbl))) : bool :=
  match order, o with
  | [], [] => true
  | k :: r, (k', (a, b)) :: o' =>
      lbl_eqb k k' && set_match (getl k fst_side) a && set_match (getl k snd_side) b
      && dtable_match r fst_side snd_side o'
  | _, _ => false
  end.

Definition same_keyset (a b : list lbl) : bool := seteqb a b && Nat.eqb (length a) (length b).

Definition dobs_match (p : proj) (r : dres) (o : dobs) : bool :=
  let '(d, out, w) := r in
  dtable_match (keys (h_node (ts d))) (h_node (hs d)) (h_node (ts d)) (do_nodes o)
  && same_keyset (keys (h_node (ts d))) (keys (h_node (hs d)))
  && attrs_match p (keys (h_node (ts d))) (h_nattr (ts d)) (do_nattr o)
  && dtable_match (keys (h_edge (ts d))) (h_edge (ts d)) (h_edge (hs d)) (do_edges o)
  && same_keyset (keys (h_edge (ts d))) (keys (h_edge (hs d)))
  && attrs_match p (keys (h_edge (ts d))) (h_eattr (ts d)) (do_eattr o)
  && (negb (p_net p) || attrs_eqb (h_net (ts d)) (do_net o))
  && (negb (p_uid p) || Z.eqb (h_uid (ts d)) (do_uid o))
  && outcome_eqb out (do_out o)
  && (negb (p_warn p) || Nat.eqb w (do_warn o)).

Fixpoint dfirst_mismatch (p : proj) (d : dhg) (h : list (dop * dobs)) (i : nat) : option nat :=
  match h with
  | [] => None
  | (o, ob) :: h' =>
      let r := dstep d o in
      if dobs_match p r ob then dfirst_mismatch p (dst_of r) h' (S i) else Some i
  end.

Fixpoint dmismatches_from (p : proj) (cases : list (list (dop * dobs))) (i : nat) : list (nat * nat) :=
  match cases with
  | [] => []
  | h :: r => match dfirst_mismatch p dhg_empty h O with
              | Some j => (i, j) :: dmismatches_from p r (S i)
              | None => dmismatches_from p r (S i)
              end
  end.
Definition mismatches (p : proj) (cases : list (list (dop * dobs))) : list (nat * nat) :=
  dmismatches_from p cases O.

Fixpoint dtrace_from (d : dhg) (ops : list dop) : list dres :=
  match ops with
  | [] => []
  | o :: r => let x := dstep d o in x :: dtrace_from (dst_of x) r
  end.
Definition trace (ops : list dop) : list dres := dtrace_from dhg_empty ops.

Definition dwf_b (d : dhg) : bool :=
  wf_b (ts d) && wf_b (hs d)
  && same_keyset (keys (h_node (ts d))) (keys (h_node (hs d)))
  && same_keyset (keys (h_edge (ts d))) (keys (h_edge (hs d))).
