(* Correspondence support for the Hypergraph model: observation records written by the harness,
   boolean comparison with the model state under a per-property projection, and the mismatch
   search evaluated by vm_compute in the generated Cases files. *)
From Coq Require Import String ZArith List Bool Lia.
From XV Require Import Base.Label Base.LSet Base.ODict Base.Attr Base.Outcome Model.Hypergraph.
Import ListNotations.
Open Scope Z_scope.

Record obs : Type := mkObs {
  o_nodes : list (lbl * list lbl);          (* H.nodes in order, with memberships *)
  o_nattr : list (option attrs);            (* H.nodes[n] along that order; None = IDNotFound *)
  o_edges : list (lbl * list lbl);          (* H.edges in order, with members *)
  o_eattr : list (option attrs);
  o_net   : attrs;
  o_uid   : Z;
  o_out   : outcome;
  o_warn  : nat
}.

Record proj : Type := mkProj {
  p_attr_vals : bool;   (* compare attribute values (else key sets only) *)
  p_net : bool;
  p_uid : bool;
  p_warn : bool
}.

Fixpoint table_match (m o : list (lbl * list lbl)) : bool :=
  match m, o with
  | [], [] => true
  | (k, v) :: m', (k', v') :: o' => lbl_eqb k k' && seteqb v v' && Nat.eqb (length v) (length v') && table_match m' o'
  | _, _ => false
  end.

Definition strs_seteqb (a b : list string) : bool :=
  forallb (fun x => existsb (String.eqb x) b) a && forallb (fun x => existsb (String.eqb x) a) b.

Definition attr_match (p : proj) (m : option attrs) (o : option attrs) : bool :=
  match m, o with
  | None, None => true
  | Some a, Some b => if p_attr_vals p then attrs_eqb a b else strs_seteqb (attrs_keys a) (attrs_keys b)
  | _, _ => false
  end.

Fixpoint attrs_match (p : proj) (ks : list lbl) (d : odict attrs) (o : list (option attrs)) : bool :=
  match ks, o with
  | [], [] => true
  | k :: ks', a :: o' => attr_match p (get k d) a && attrs_match p ks' d o'
  | _, _ => false
  end.

Definition obs_match (p : proj) (r : res) (o : obs) : bool :=
  let '(s, out, w) := r in
  table_match (h_node s) (o_nodes o)
  && attrs_match p (keys (h_node s)) (h_nattr s) (o_nattr o)
  && table_match (h_edge s) (o_edges o)
  && attrs_match p (keys (h_edge s)) (h_eattr s) (o_eattr o)
  && (negb (p_net p) || attrs_eqb (h_net s) (o_net o))
  && (negb (p_uid p) || Z.eqb (h_uid s) (o_uid o))
  && outcome_eqb out (o_out o)
  && (negb (p_warn p) || Nat.eqb w (o_warn o)).

(* first step of a history at which model and implementation differ *)
Fixpoint first_mismatch (p : proj) (s : hg) (h : list (op * obs)) (i : nat) : option nat :=
  match h with
  | [] => None
  | (o, ob) :: h' =>
      let r := step s o in
      if obs_match p r ob then first_mismatch p (st_of r) h' (S i) else Some i
  end.

Fixpoint mismatches_from (p : proj) (cases : list (list (op * obs))) (i : nat) : list (nat * nat) :=
  match cases with
  | [] => []
  | h :: r => match first_mismatch p hg_empty h O with
              | Some j => (i, j) :: mismatches_from p r (S i)
              | None => mismatches_from p r (S i)
              end
  end.
Definition mismatches (p : proj) (cases : list (list (op * obs))) : list (nat * nat) :=
  mismatches_from p cases O.

Fixpoint lbls_eqb (a b : list lbl) : bool :=
  match a, b with [], [] => true | x :: a', y :: b' => lbl_eqb x y && lbls_eqb a' b' | _, _ => false end.

(* executable well-formedness test, used by examples and by refutation witnesses *)
Definition wf_b (s : hg) : bool :=
  forallb (fun kv => forallb (fun e => mem (fst kv) (getl e (h_edge s)) && has e (h_edge s)) (snd kv)) (h_node s)
  && forallb (fun kv => forallb (fun n => mem (fst kv) (getl n (h_node s)) && has n (h_node s)) (snd kv)) (h_edge s)
  && lbls_eqb (keys (h_node s)) (keys (h_nattr s))
  && lbls_eqb (keys (h_edge s)) (keys (h_eattr s)).

Fixpoint trace_from (s : hg) (ops : list op) : list res :=
  match ops with
  | [] => []
  | o :: r => let x := step s o in x :: trace_from (st_of x) r
  end.
Definition trace (ops : list op) : list res := trace_from hg_empty ops.
