(* Building a network through add_nodes_from / add_edges_from (format 4): the result holds exactly
   the listed nodes and edges.  Used by copy (C07), subhypergraph / dual / << (C19) and the
   converters (C10). *)
From Coq Require Import String ZArith List Bool Lia.
From XV Require Import Base.Label Base.LSet Base.ODict Base.Attr Base.Outcome Model.Hypergraph
  Proofs.HgViews Proofs.HgInv Proofs.HgInvOps Proofs.HgStep Proofs.HgKeys Proofs.HgErrors Proofs.ScTables.
Import ListNotations.
Open Scope Z_scope.

Definition item_id (it : list lbl * lbl * attrs) : lbl := snd (fst it).
Definition item_ms (it : list lbl * lbl * attrs) : list lbl := fst (fst it).
Definition item_attr (it : list lbl * lbl * attrs) : attrs := snd it.

(* what one explicit-id item does *)
Lemma bulk_item_effect a s m i ea :
  Inv s -> has i (h_edge s) = false -> existsb is_none (mkset m) = false -> is_none i = false ->
  let r := bulk_item true a s m i ea in
  let t := st_of r in
  out_of r = Ok /\ snd r = O /\ Inv t /\ ekeys t = ekeys s ++ [i] /\
  (exists M, get i (h_edge t) = Some M /\ seteq M m /\ NoDup M) /\
  get i (h_eattr t) = Some (aupdate [] (aupdate a ea)) /\
  (forall e, e <> i -> get e (h_edge t) = get e (h_edge s) /\ get e (h_eattr t) = get e (h_eattr s)) /\
  (forall x, In x (nkeys t) <-> In x m \/ In x (nkeys s)) /\
  (exists l, nkeys t = nkeys s ++ l) /\
  (forall n, In n (nkeys s) -> get n (h_nattr t) = get n (h_nattr s)) /\
  h_net t = h_net s.
Proof.
  intros I Hi Hn Hni. cbv zeta. unfold bulk_item. rewrite Hi, Hn, Hni.
  assert (Hne : ~ In i (ekeys s)) by (apply has_false_nin; exact Hi).
  pose proof I as (Hw & Hk & Hv & Hu).
  destruct (insert_edge_spec i m (aupdate a ea) s Hne Hw Hk Hv) as (_ & _ & _ & Ek & _ & En).
  destruct (insert_edge_get i m (aupdate a ea) s) as (M & HM & NDM & GM).
  destruct (bump_uid_tables i (insert_edge i m (aupdate a ea) s)) as (Tn & Tna & Te & Ta & Tnet).
  rewrite st_of_ok. unfold out_of. simpl fst. simpl snd.
  split; [reflexivity|]. split; [reflexivity|].
  split; [apply Inv_insert_explicit; assumption|].
  split; [unfold ekeys; rewrite Te; exact Ek|].
  split; [exists M; split; [rewrite Te, GM, lbl_eqb_refl; reflexivity|split; assumption]|].
  split; [rewrite Ta; unfold insert_edge; simpl; apply get_set_same|].
  split.
  { intros e Ne. rewrite Te, Ta, GM. destruct (lbl_eqb_spec e i); [contradiction|].
    split; [reflexivity|]. unfold insert_edge. simpl. rewrite get_set_other by assumption.
    set (s1 := with_edge s (set i [] (h_edge s))).
    assert (He1 : has i (h_edge s1) = true) by (apply has_In; unfold s1; simpl; apply In_keys_set; left; reflexivity).
    destruct Hk as (K1 & K2 & K3 & K4). destruct Hv as (V1 & V2).
    assert (Hw1 : W1 s1).
    { intros nn x. unfold s1, mships, mems. simpl. rewrite getl_set.
      destruct (lbl_eqb_spec x i) as [->|Nx]; [|apply Hw].
      split; [|intros []]. intro Hx. exfalso. exact (W1_not_listed s i Hw Hne nn Hx). }
    assert (Hv1 : VND s1).
    { split; intro x; [apply V1|]. unfold s1, mems. simpl. rewrite getl_set. destruct (lbl_eqb x i); [constructor|apply V2]. }
    destruct (fold_attach i m s1 He1 Hw1 Hv1 K1 K3) as (_ & _ & _ & _ & D1 & _). rewrite D1. reflexivity. }
  split; [intro x; unfold nkeys; rewrite Tn; apply insert_edge_nkeys|].
  split.
  { unfold nkeys. rewrite Tn. unfold insert_edge. simpl.
    assert (F : forall ms s0, exists l, keys (h_node (fold_left (attach i) ms s0)) = keys (h_node s0) ++ l).
    { induction ms as [|x ms IH]; intro s0; simpl; [exists []; rewrite app_nil_r; reflexivity|].
      destruct (IH (attach i s0 x)) as (l & Hl). rewrite Hl.
      unfold attach, edge_add. simpl. unfold node_add. simpl.
      rewrite keys_set_in by (apply has_In; apply ensure_node_has).
      change (keys (h_node (ensure_node x s0))) with (nkeys (ensure_node x s0)). rewrite ensure_node_nkeys.
      destruct (has x (h_node s0)); [exists l; reflexivity|exists ([x] ++ l); rewrite app_assoc; reflexivity]. }
    destruct (F m (with_edge s (set i [] (h_edge s)))) as (l & Hl). exists l. exact Hl. }
  split; [|rewrite Tnet; exact En].
  intros n Hnk. rewrite Tna. unfold insert_edge. simpl.
  assert (F : forall ms s0, In n (keys (h_node s0)) ->
              get n (h_nattr (fold_left (attach i) ms s0)) = get n (h_nattr s0) /\
              In n (keys (h_node (fold_left (attach i) ms s0)))).
  { induction ms as [|x ms IH]; intros s0 H0; simpl; [auto|].
    assert (H1 : In n (keys (h_node (attach i s0 x)))).
    { change (In n (nkeys (attach i s0 x))). apply attach_nkeys_In. right; exact H0. }
    destruct (IH (attach i s0 x) H1) as [A B]. split; [|exact B]. rewrite A.
    unfold attach, edge_add, node_add. simpl. unfold ensure_node.
    destruct (has x (h_node s0)) eqn:E; [reflexivity|]. simpl. apply get_set_other.
    intro; subst. apply has_nIn in E. contradiction. }
  apply (F m (with_edge s (set i [] (h_edge s)))). exact Hnk.
Qed.

Definition fresh_items (s : hg) (L : list (list lbl * lbl * attrs)) : Prop :=
  NoDup (map item_id L) /\
  forall it, In it L -> ~ In (item_id it) (ekeys s) /\ is_none (item_id it) = false /\
                        existsb is_none (mkset (item_ms it)) = false.

(* the whole bunch *)
Theorem build_edges_effect L a : forall s,
  Inv s -> fresh_items s L ->
  let r := add_edges_from (EB4 L) a s in
  let t := st_of r in
  out_of r = Ok /\ snd r = O /\ Inv t /\ ekeys t = ekeys s ++ map item_id L /\
  (forall it, In it L -> (exists M, get (item_id it) (h_edge t) = Some M /\ seteq M (item_ms it) /\ NoDup M) /\
                         get (item_id it) (h_eattr t) = Some (aupdate [] (aupdate a (item_attr it)))) /\
  (forall e, In e (ekeys s) -> get e (h_edge t) = get e (h_edge s) /\ get e (h_eattr t) = get e (h_eattr s)) /\
  (forall x, In x (nkeys t) <-> In x (nkeys s) \/ exists it, In it L /\ In x (item_ms it)) /\
  (exists l, nkeys t = nkeys s ++ l) /\
  (forall n, In n (nkeys s) -> get n (h_nattr t) = get n (h_nattr s)) /\
  h_net t = h_net s.
Proof.
  induction L as [|[[m i] ea] L IH]; intros s I (ND & Fr); cbv zeta.
  - simpl. unfold out_of, st_of. simpl. rewrite app_nil_r.
    split; [reflexivity|]. split; [reflexivity|]. split; [exact I|]. split; [reflexivity|].
    split; [intros it []|]. split; [auto|].
    split; [intro x; split; [auto|intros [H|(it & [] & _)]; exact H]|].
    split; [exists []; rewrite app_nil_r; reflexivity|]. split; [auto|reflexivity].
  - simpl add_edges_from. simpl loop.
    destruct (Fr (m, i, ea) (or_introl eq_refl)) as (F1 & F2 & F3). simpl in F1, F2, F3.
    assert (Hi : has i (h_edge s) = false) by (apply has_nIn; exact F1).
    destruct (bulk_item_effect a s m i ea I Hi F3 F2) as (O1 & W1' & I1 & E1 & (M & GM & SM & NM) & GA & Old & NK & NP & NA & NT).
    cbv zeta in *.
    destruct (bulk_item true a s m i ea) as [[s1 o1] w1] eqn:B. unfold out_of, st_of in *. simpl in *. subst o1 w1.
    inversion ND as [|? ? Hni ND']; subst.
    assert (Fr1 : fresh_items s1 L).
    { split; [exact ND'|]. intros it Hit. destruct (Fr it (or_intror Hit)) as (G1 & G2 & G3).
      split; [|split; assumption]. rewrite E1. intro H. apply in_app_iff in H. destruct H as [H|[H|[]]]; [contradiction|].
      apply Hni. unfold item_id at 1. simpl. rewrite H. apply (in_map item_id L it Hit). }
    specialize (IH s1 I1 Fr1). cbv zeta in IH. simpl add_edges_from in IH.
    destruct (loop (fun (s : hg) '(m, i, ea) => bulk_item true a s m i ea) L s1) as [[s2 o2] w2] eqn:LP.
    unfold out_of, st_of in IH. simpl in IH.
    destruct IH as (O2 & W2 & I2 & E2 & Items & Old2 & NK2 & (l2 & NP2) & NA2 & NT2).
    subst o2 w2. simpl.
    split; [reflexivity|]. split; [reflexivity|]. split; [exact I2|].
    split; [rewrite E2, E1, <- app_assoc; reflexivity|].
    split.
    { intros it [<-|Hit]; [|apply Items; exact Hit]. unfold item_id, item_ms, item_attr. simpl.
      assert (Hin : In i (ekeys s1)) by (rewrite E1; apply in_app_iff; right; left; reflexivity).
      destruct (Old2 i Hin) as [X Y]. rewrite X, Y. split; [exists M; auto|exact GA]. }
    split.
    { intros e He. assert (Ne : e <> i) by (intro; subst; contradiction).
      assert (Hin : In e (ekeys s1)) by (rewrite E1; apply in_app_iff; left; exact He).
      destruct (Old2 e Hin) as [X Y]. destruct (Old e Ne) as [X' Y']. split; congruence. }
    split.
    { intro x. rewrite NK2, NK. split.
      - intros [[H|H]|(it & Hit & Hx)]; [right; exists (m, i, ea); split; [left; reflexivity|exact H]|left; exact H|].
        right. exists it. split; [right; exact Hit|exact Hx].
      - intros [H|(it & [<-|Hit] & Hx)]; [left; right; exact H|left; left; exact Hx|right; exists it; auto]. }
    split.
    { destruct NP as (l1 & NP1). exists (l1 ++ l2). rewrite NP2, NP1, app_assoc. reflexivity. }
    split; [|congruence].
    intros n Hn. rewrite NA2; [apply NA; exact Hn|]. apply NK. right; exact Hn.
Qed.

(* ---------- add_nodes_from with distinct new nodes ---------- *)

Lemma loop_cons_ok {A} (f : hg -> A -> res) x xs s s1 w :
  f s x = (s1, Ok, w) ->
  st_of (loop f (x :: xs) s) = st_of (loop f xs s1) /\ out_of (loop f (x :: xs) s) = out_of (loop f xs s1).
Proof.
  intro H. simpl. rewrite H. destruct (loop f xs s1) as [[s2 o2] w2]. split; reflexivity.
Qed.

Definition newdict (a : attrs) (od : option attrs) : attrs :=
  match od with None => a | Some d => aupdate a d end.

Definition node_step (a : attrs) (s : hg) (it : lbl * option attrs) : res :=
  let '(n, od) := it in
  let nd := match od with None => a | Some d => aupdate a d end in
  if has n (h_node s) then ok (nattr_update n nd s)
  else if is_none n then raise s XGIError
  else ok (nattr_update n nd (ensure_node n s)).

Lemma add_nodes_from_loop items a s : add_nodes_from items a s = loop (node_step a) items s.
Proof. reflexivity. Qed.

Theorem build_nodes_effect items a : forall s,
  Inv s -> NoDup (map fst items) ->
  (forall it, In it items -> is_none (fst it) = false /\ ~ In (fst it) (nkeys s)) ->
  let r := add_nodes_from items a s in
  let t := st_of r in
  out_of r = Ok /\ Inv t /\ nkeys t = nkeys s ++ map fst items /\ h_edge t = h_edge s /\ h_eattr t = h_eattr s /\
  h_net t = h_net s /\ h_uid t = h_uid s /\
  (forall it, In it items -> get (fst it) (h_nattr t) = Some (aupdate [] (newdict a (snd it))) /\
                             mships t (fst it) = []) /\
  (forall n, In n (nkeys s) -> get n (h_nattr t) = get n (h_nattr s) /\ mships t n = mships s n).
Proof.
  induction items as [|[n od] items IH]; intros s I ND Hn; cbv zeta; rewrite add_nodes_from_loop.
  - simpl. unfold out_of, st_of. simpl. rewrite app_nil_r.
    split; [reflexivity|]. split; [exact I|]. repeat (split; [reflexivity|]). split; [intros it []|auto].
  - destruct (Hn (n, od) (or_introl eq_refl)) as [N1 N2]. simpl in N1, N2.
    assert (Hh : has n (h_node s) = false) by (apply has_nIn; exact N2).
    set (nd := newdict a od).
    set (s1 := nattr_update n nd (ensure_node n s)).
    assert (F : node_step a s (n, od) = (s1, Ok, O)).
    { unfold node_step. rewrite Hh, N1. reflexivity. }
    destruct (loop_cons_ok (node_step a) (n, od) items s s1 O F) as [E1 E2]. rewrite E1, E2.
    assert (I1 : Inv s1) by (apply Inv_nattr_update; [apply ensure_node_has|apply Inv_ensure_node; exact I]).
    assert (K1 : nkeys s1 = nkeys s ++ [n]).
    { unfold s1. change (nkeys (nattr_update n nd ?x)) with (nkeys x). rewrite ensure_node_nkeys, Hh. reflexivity. }
    inversion ND as [|? ? Hni ND']; subst.
    assert (Hn1 : forall it, In it items -> is_none (fst it) = false /\ ~ In (fst it) (nkeys s1)).
    { intros it Hit. destruct (Hn it (or_intror Hit)) as [A B]. split; [exact A|]. rewrite K1.
      intro H. apply in_app_iff in H. destruct H as [H|[H|[]]]; [contradiction|].
      apply Hni. rewrite H. apply (in_map fst items it Hit). }
    specialize (IH s1 I1 ND' Hn1). cbv zeta in IH. rewrite add_nodes_from_loop in IH.
    destruct IH as (O2 & I2 & K2 & E2' & EA2 & NT2 & U2 & New2 & Old2).
    set (t := st_of (loop (node_step a) items s1)) in *.
    split; [exact O2|]. split; [exact I2|].
    split; [rewrite K2, K1, <- app_assoc; reflexivity|].
    split; [rewrite E2'; unfold s1; simpl; apply ensure_node_edge|].
    split; [rewrite EA2; unfold s1; simpl; apply ensure_node_eattr|].
    split; [rewrite NT2; unfold s1; simpl; apply ensure_node_net|].
    split; [rewrite U2; unfold s1; simpl; apply ensure_node_uid|].
    split.
    + intros it [<-|Hit]; [|apply New2; exact Hit]. simpl fst. simpl snd.
      assert (Hin : In n (nkeys s1)) by (rewrite K1; apply in_app_iff; right; left; reflexivity).
      destruct (Old2 n Hin) as [X Y]. rewrite X, Y. split.
      * unfold s1, nattr_update. simpl. rewrite get_set_same. unfold ensure_node. rewrite Hh. simpl.
        unfold geta. rewrite get_set_same. reflexivity.
      * unfold s1. change (mships (nattr_update n nd ?x) n) with (mships x n). rewrite ensure_node_mships.
        unfold mships. apply has_false_getl. exact Hh.
    + intros m Hm. assert (Hin : In m (nkeys s1)) by (rewrite K1; apply in_app_iff; left; exact Hm).
      destruct (Old2 m Hin) as [X Y]. rewrite X, Y. assert (Nm : m <> n) by (intro; subst; contradiction). split.
      * unfold s1, nattr_update. simpl. rewrite get_set_other by exact Nm. unfold ensure_node. rewrite Hh. simpl.
        apply get_set_other. exact Nm.
      * unfold s1. change (mships (nattr_update n nd ?x) m) with (mships x m). apply ensure_node_mships.
Qed.
