(* C01 / C04: for nine core mutators the hand-written model IS what the source does: running the programs that
   harness/translate_mutators.py regenerates from xgi/core/hypergraph.py on every run (Gen/Mutators.v), under the
   semantics of Model/PyIR.v, gives exactly the model's result - state, outcome and warnings. *)
From Coq Require Import String ZArith List Bool Lia.
From XV Require Import Base.Label Base.LSet Base.ODict Base.Attr Base.Outcome Model.Hypergraph Model.PyIR Gen.Mutators
     Proofs.HgViews Proofs.HgInv Proofs.HgInvOps Proofs.HgErrors Proofs.IRLemmas.
Import ListNotations.
Open Scope Z_scope.

Theorem add_node_to_edge_is_source e n s :
  run_method src_add_node_to_edge [e; n] [] s = add_node_to_edge e n s.
Proof.
  unfold run_method, run_method_a, src_add_node_to_edge, add_node_to_edge. rewrite exec_list_cons, exec_if. cbn [beval]. hgs.
  destruct (has e (h_edge s)) eqn:He; cbn [negb andb].
  - rewrite exec_list_nil. unfold has in He. destruct (get e (h_edge s)) as [m|] eqn:Ge; [|discriminate He].
    apply (antE_tail_ok e n s m Ge).
  - repeat step. destruct (is_none e) eqn:Ne; [reflexivity|]. repeat step.
    set (s0 := with_eattr (with_edge s (set e [] (h_edge s))) (set e [] (h_eattr s))).
    apply (antE_tail_ok e n (bump_uid e s0) []).
    destruct (bump_uid_tables e s0) as (_ & B2 & _). rewrite B2. unfold s0. hgs. apply get_set_same.
Qed.

Theorem remove_edge_is_source e s : Inv s ->
  run_method src_remove_edge [e] [] s = remove_edge1 e s.
Proof. exact (remove_edge_prog_ok e s). Qed.

Theorem remove_node_from_edge_is_source e n re s : Inv s ->
  run_method src_remove_node_from_edge [e; n] [re] s = remove_node_from_edge e n re s.
Proof.
  intros (W & (_ & Kea & _ & _) & _ & _). unfold run_method, run_method_a, src_remove_node_from_edge, remove_node_from_edge.
  rewrite exec_list_cons, exec_if. cbn [beval]. hgs.
  destruct (has e (h_edge s)) eqn:He; cbn [negb]; [|repeat step; reflexivity].
  rewrite exec_list_cons, exec_if. cbn [beval]. hgs.
  destruct (has n (h_node s)) eqn:Hn; cbn [negb]; [|repeat step; reflexivity].
  rewrite exec_list_cons, exec_if. cbn [beval]. hgs.
  unfold has in He. destruct (get e (h_edge s)) as [m|] eqn:Ge; [|discriminate He].
  assert (Gl : getl e (h_edge s) = m) by (unfold getl; rewrite Ge; reflexivity). rewrite Gl.
  destruct (mem n m) eqn:Mn; cbn [negb]; [|repeat step; reflexivity].
  repeat step. rewrite Ge, Mn. repeat step.
  unfold has in Hn. destruct (get n (h_node s)) as [l|] eqn:Gn; [|discriminate Hn].
  assert (Me : mem e l = true).
  { apply mem_In. assert (Hi : In e (mships s n)) by (apply W; unfold mems; rewrite Gl; apply mem_In; exact Mn).
    unfold mships, getl in Hi. rewrite Gn in Hi. exact Hi. }
  rewrite Me. repeat step. rewrite get_set_same.
  assert (E1 : with_edge s (set e (sremove n m) (h_edge s)) = edge_rem e n s).
  { unfold edge_rem, has. rewrite Ge, Gl. reflexivity. }
  assert (E2 : with_node (edge_rem e n s) (set n (sremove e l) (h_node s)) = node_rem n e (edge_rem e n s)).
  { unfold node_rem, has, getl. rewrite <- E1. hgs. rewrite Gn. reflexivity. }
  rewrite E1. rewrite E2. set (s1 := node_rem n e (edge_rem e n s)).
  assert (H1e : h_edge s1 = set e (sremove n m) (h_edge s)) by (unfold s1; rewrite <- E2, <- E1; reflexivity).
  assert (H1a : h_eattr s1 = h_eattr s) by (unfold s1; rewrite <- E2, <- E1; reflexivity).
  assert (Gl1 : getl e (h_edge s1) = sremove n m) by (unfold getl; rewrite H1e, get_set_same; reflexivity).
  rewrite Gl1. destruct (sremove n m) as [|y r] eqn:Es; cbn [andb].
  - destruct re; cbn [andb]; repeat step; [|reflexivity].
    assert (Hh : has e (set e [] (h_edge s)) = true) by (unfold has; rewrite get_set_same; reflexivity).
    rewrite Hh. repeat step. rewrite H1a.
    assert (Hea : has e (h_eattr s) = true) by (apply has_In; rewrite Kea; apply (get_Some_In e (h_edge s) m Ge)).
    rewrite Hea. unfold ok, drop_edge. rewrite H1a, H1e. reflexivity.
  - repeat step. reflexivity.
Qed.

Theorem add_node_is_source n a s : keys (h_nattr s) = keys (h_node s) ->
  run_method_a src_add_node [n] [] a s = add_node n a s.
Proof.
  intro K. unfold run_method_a, src_add_node, add_node. rewrite exec_list_cons, exec_if. cbn [beval]. hgs.
  destruct (has n (h_node s)) eqn:Hn; cbn [negb].
  - rewrite exec_list_nil, exec_list_cons, exec_attrupdate. hgs.
    assert (Ha : has n (h_nattr s) = true) by (apply has_In; rewrite K; apply has_In; exact Hn).
    unfold has in Ha. destruct (get n (h_nattr s)) as [d|] eqn:Gd; [|discriminate Ha].
    rewrite exec_list_nil. unfold ok, nattr_update, geta. rewrite Gd. reflexivity.
  - repeat step. destruct (is_none n) eqn:Nn; [reflexivity|]. repeat step. rewrite exec_attrupdate. hgs.
    rewrite get_set_same. repeat step.
    unfold ok, nattr_update, ensure_node, geta. rewrite Hn. hgs. rewrite get_set_same. reflexivity.
Qed.

Theorem remove_node_is_source n strong re s : Inv s ->
  run_method src_remove_node [n] [strong; re] s = remove_node n strong re s.
Proof.
  intros (W & (Kna & Kea & _ & _) & (Vn & Vm) & _). unfold run_method, run_method_a, src_remove_node, remove_node.
  rewrite exec_list_cons, exec_bind. hgs. destruct (get n (h_node s)) as [es|] eqn:Gn; [|reflexivity].
  assert (Hes : mships s n = es) by (unfold mships, getl; rewrite Gn; reflexivity).
  assert (Hn : has n (h_node s) = true) by (unfold has; rewrite Gn; reflexivity).
  rewrite exec_list_cons, exec_del. hgs. rewrite Hn. rewrite exec_list_cons, exec_delattr. hgs.
  assert (Hna : has n (h_nattr s) = true) by (apply has_In; rewrite Kna; apply has_In; exact Hn). rewrite Hna.
  set (s1 := with_nattr (with_node s (del n (h_node s))) (del n (h_nattr s))).
  assert (E1 : s1 = drop_node n s) by reflexivity.
  assert (NDes : NoDup es) by (rewrite <- Hes; apply Vn).
  assert (Edge : forall e, In e es -> exists m, get e (h_edge s) = Some m /\ In n m).
  { intros e He. rewrite <- Hes in He. apply W in He. unfold mems, getl in He.
    destruct (get e (h_edge s)) as [m|]; [|destruct He]. exists m. split; [reflexivity|exact He]. }
  assert (Eattr : forall e m, get e (h_edge s) = Some m -> has e (h_eattr s) = true).
  { intros e m G. apply has_In. rewrite Kea. apply (get_Some_In e (h_edge s) m G). }
  rewrite exec_list_cons, exec_if. cbn [beval]. hgs. destruct strong; cbn [nth].
  - rewrite exec_list_cons, exec_forlocal. hgs.
    rewrite (strong_loop_ok n [true; re] [es] s LNone LNone [] None LNone [] es s1 NDes).
    + rewrite !exec_list_nil. rewrite E1. reflexivity.
    + intros e He. destruct (Edge e He) as (m & Gm & Hnm). exists m. split; [unfold s1; hgs; exact Gm|]. split; [exact Gm|].
      split; [pose proof (Vm e) as V; unfold mems, getl in V; rewrite Gm in V; exact V|].
      split; [unfold s1; hgs; apply (Eattr e m Gm)|].
      intros x Hx Nx. assert (Hi : In e (mships s x)) by (apply W; unfold mems, getl; rewrite Gm; exact Hx).
      unfold mships, getl in Hi. destruct (get x (h_node s)) as [l|] eqn:Gx; [|destruct Hi].
      exists l. split; [unfold s1; hgs; rewrite get_del_other by exact Nx; exact Gx|apply mem_In; exact Hi].
  - rewrite exec_list_cons, exec_forlocal. hgs.
    rewrite (weak_loop_ok n false re [es] LNone LNone [] None LNone [] es s1 NDes).
    + rewrite !exec_list_nil. rewrite E1. reflexivity.
    + intros e He. destruct (Edge e He) as (m & Gm & Hnm). exists m. split; [unfold s1; hgs; exact Gm|].
      split; [apply mem_In; exact Hnm|unfold s1; hgs; apply (Eattr e m Gm)].
Qed.

Theorem add_edge_is_source members idx a s :
  idx <> Some LNone -> has LNone (h_edge s) = false ->
  run_method_m src_add_edge_guards src_add_edge members idx a s = add_edge members idx a s.
Proof.
  intros Hi Hnone. unfold run_method_m, run_guarded, src_add_edge_guards, src_add_edge, add_edge. cbn [run_guards beval]. hgs.
  destruct (existsb is_none (mkset members)) eqn:En; [reflexivity|].
  assert (Hms : forall x, In x (mkset members) -> is_none x = false).
  { intros x Hx. destruct (is_none x) eqn:E; [|reflexivity]. exfalso.
    assert (existsb is_none (mkset members) = true) by (apply existsb_exists; exists x; split; assumption). congruence. }
  destruct idx as [i|].
  - destruct (has i (h_edge s)) eqn:Hh; [reflexivity|].
    assert (Ni : is_none i = false) by (destruct i; try reflexivity; exfalso; apply Hi; reflexivity).
    rewrite exec_list_cons, exec_binduid. hgs.
    rewrite (add_edge_body_ok a (mkset members) (Some i) i s _ Ni Hms).
    rewrite exec_list_cons, exec_if. cbn [beval]. hgs. cbn [negb]. rewrite exec_list_cons, exec_uid. hgs. rewrite !exec_list_nil. reflexivity.
  - rewrite Hnone.
    rewrite exec_list_cons, exec_binduid. hgs.
    rewrite (add_edge_body_ok a (mkset members) None (LInt (h_uid s)) (with_uid s (h_uid s + 1)) _ eq_refl Hms).
    rewrite exec_list_cons, exec_if. cbn [beval]. hgs. cbn [negb]. rewrite !exec_list_nil. reflexivity.
Qed.

Theorem clear_is_source b s : run_method_l src_clear [] [b] s = clear b s.
Proof.
  unfold run_method_l, src_clear, clear.
  rewrite exec_list_cons, exec_clear, exec_list_cons, exec_clearattr, exec_list_cons, exec_clear, exec_list_cons, exec_clearattr.
  rewrite exec_list_cons, exec_if. cbn [beval]. hgs. destruct b.
  - rewrite exec_list_cons, exec_clearnet, !exec_list_nil. reflexivity.
  - rewrite !exec_list_nil. unfold ok. hgs. reflexivity.
Qed.

Theorem clear_edges_is_source s : NoDup (keys (h_node s)) -> ~ In LNone (keys (h_node s)) ->
  run_method_l src_clear_edges [] [] s = clear_edges s.
Proof.
  intros ND NN. unfold run_method_l, src_clear_edges, clear_edges.
  rewrite exec_list_cons, exec_forkeys. hgs. rewrite reset_loop_ok.
  2:{ intros x Hx. destruct x; try reflexivity. contradiction. }
  rewrite exec_list_cons, exec_clear, exec_list_cons, exec_clearattr, exec_list_nil.
  pose proof (reset_all (h_node s) [] ND) as R. cbn [app] in R. rewrite R. reflexivity.
Qed.

Theorem remove_edges_from_is_source es s : Inv s ->
  run_method_l src_remove_edges_from es [] s = remove_edges_from es s.
Proof.
  intro I. unfold run_method_l, src_remove_edges_from. rewrite exec_list_cons, exec_formembers. hgs.
  rewrite <- (remove_loop_ok [] [] LNone LNone [] es None LNone [] es s I).
  destruct (iter_list _ _ es s) as [s' [|x]]; [rewrite exec_list_nil|]; reflexivity.
Qed.

