(* C16: the sunflower has l petals of exactly m distinct nodes; two different petals meet exactly in the core. *)
From Coq Require Import List Arith Lia Bool.
From XV Require Import Model.Decoders Model.Simple Proofs.DecoderProofs.
Import ListNotations.

Lemma petal_In (c m p x : nat) : In x (seq 0 c ++ seq (c + p * (m - c)) (m - c)) <->
  x < c \/ (c + p * (m - c) <= x < c + S p * (m - c)).
Proof. rewrite in_app_iff, !in_seq. cbn [Nat.mul]. lia. Qed.

Theorem sunflower_spec l c m : c <= m ->
  length (sunflower_edges l c m) = l /\
  (forall e, In e (sunflower_edges l c m) -> NoDup e /\ length e = m /\ (forall x, x < c -> In x e)) /\
  (c < m -> forall p q, p < l -> q < l -> p <> q ->
     forall x, In x (nth p (sunflower_edges l c m) []) -> In x (nth q (sunflower_edges l c m) []) -> x < c).
Proof.
  intro Hcm. unfold sunflower_edges. split; [rewrite map_length, seq_length; reflexivity|]. split.
  - intros e He. apply in_map_iff in He. destruct He as (p & <- & _). split; [|split].
    + apply NoDup_app_intro.
      * apply seq_NoDup.
      * apply seq_NoDup.
      * intros x H1 H2. apply in_seq in H1. apply in_seq in H2. lia.
    + rewrite app_length, !seq_length. lia.
    + intros x Hx. apply in_app_iff. left. apply in_seq. lia.
  - intros Hlt p q Hp Hq Npq x H1 H2.
    rewrite (nth_indep _ [] (seq 0 c ++ seq (c + 0 * (m - c)) (m - c))) in H1 by (rewrite map_length, seq_length; exact Hp).
    rewrite (nth_indep _ [] (seq 0 c ++ seq (c + 0 * (m - c)) (m - c))) in H2 by (rewrite map_length, seq_length; exact Hq).
    rewrite (map_nth (fun p => seq 0 c ++ seq (c + p * (m - c)) (m - c)) (seq 0 l) 0 p) in H1.
    rewrite (map_nth (fun p => seq 0 c ++ seq (c + p * (m - c)) (m - c)) (seq 0 l) 0 q) in H2.
    rewrite seq_nth in H1, H2 by assumption. cbn [Nat.add] in H1, H2.
    apply petal_In in H1. apply petal_In in H2.
    destruct H1 as [H1|H1]; [exact H1|]. destruct H2 as [H2|H2]; [exact H2|]. exfalso.
    assert (D : 0 < m - c) by lia.
    destruct (Nat.lt_total p q) as [L|[E|L]]; [|contradiction|].
    + assert (S p * (m - c) <= q * (m - c)) by (apply Nat.mul_le_mono_r; lia). lia.
    + assert (S q * (m - c) <= p * (m - c)) by (apply Nat.mul_le_mono_r; lia). lia.
Qed.
