(* C02: for six core mutators of DiHypergraph the hand-written two-sided model IS what the source does: running the programs
   that harness/translate_dimutators.py regenerates from xgi/core/dihypergraph.py on every run (Gen/DiMutators.v), under the
   semantics of Model/PyIRD.v, gives exactly the model's result - state, outcome and warnings. *)
From Coq Require Import String ZArith List Bool Lia.
From XV Require Import Base.Label Base.LSet Base.ODict Base.Attr Base.Outcome Model.Hypergraph Model.DiHypergraph Model.PyIR Model.PyIRD
     Gen.DiMutators Proofs.HgViews Proofs.HgInv Proofs.HgInvOps Proofs.HgErrors Proofs.DiInv Proofs.IRLemmas.
Import ListNotations.
Open Scope Z_scope.

(* ---------- unfolding lemmas for the interpreter ---------- *)
Lemma dexec_list_cons q r en d : dexec_list (q :: r) en d = match dexec q en d with (d', Ok) => dexec_list r en d' | x => x end.
Proof. reflexivity. Qed.
Lemma dexec_list_nil en d : dexec_list [] en d = (d, Ok).
Proof. reflexivity. Qed.

Lemma go_is_list en : forall l d,
  (fix go (l : list dstmt) (d : dhg) : dhg * outcome :=
     match l with [] => (d, Ok) | q :: r => match dexec q en d with (d', Ok) => go r d' | y => y end end) l d = dexec_list l en d.
Proof. induction l as [|q r IH]; intro d; [reflexivity|]. cbn [dexec_list]. destruct (dexec q en d) as [d' [|y]]; [apply IH|reflexivity]. Qed.

Lemma dexec_if c th el en d :
  dexec (DIf c th el) en d =
  match dbeval c en d with inr e => (d, Raised e) | inl true => dexec_list th en d | inl false => dexec_list el en d end.
Proof. cbn [dexec]. destruct (dbeval c en d) as [[|]|e]; [apply go_is_list|apply go_is_list|reflexivity]. Qed.

Fixpoint diter (body : list dstmt) (en : denv) (xs : list lbl) (d : dhg) : dhg * outcome :=
  match xs with
  | [] => (d, Ok)
  | x :: r => match dexec_list body (dwith_loop en x) d with (d', Ok) => diter body en r d' | y => y end
  end.

Lemma it_is_diter body en : forall xs d,
  (fix it (xs : list lbl) (d : dhg) : dhg * outcome :=
     match xs with [] => (d, Ok)
     | x :: r => match (fix go (l : list dstmt) (d : dhg) : dhg * outcome :=
                          match l with [] => (d, Ok)
                          | q :: r' => match dexec q (dwith_loop en x) d with (d', Ok) => go r' d' | y => y end end) body d with
                 | (d', Ok) => it r d' | y => y end end) xs d = diter body en xs d.
Proof.
  induction xs as [|x r IH]; intro d; [reflexivity|]. cbn [diter]. rewrite go_is_list.
  destruct (dexec_list body _ d) as [d' [|y]]; [apply IH|reflexivity].
Qed.

Lemma dexec_forlocal sd body en d :
  dexec (DForLocal sd body) en d = diter body en (match sd with SdIn => fst (de_local en) | SdOut => snd (de_local en) end) d.
Proof. cbn [dexec]. apply it_is_diter. Qed.
Lemma dexec_forids body en d : dexec (DForIds body) en d = diter body en (de_ids en) d.
Proof. cbn [dexec]. apply it_is_diter. Qed.
Lemma dexec_binddir ei ni eo no body en d :
  dexec (DBindDir ei ni eo no body) en d =
  match de_dir en with
  | DirIn => dexec_list body (dwith_sides en ei ni) d
  | DirOut => dexec_list body (dwith_sides en eo no) d
  | DirInvalid => (d, Raised XGIError)
  end.
Proof. cbn [dexec]. destruct (de_dir en); [apply go_is_list|apply go_is_list|reflexivity]. Qed.
Lemma dexec_bindcopy k body en d :
  dexec (DBindEdgeCopy k body) en d =
  match get (dveval k en) (h_edge (ts d)) with
  | None => (d, Raised IDNotFound)
  | Some tl => dexec_list body (dwith_local en (tl, getl (dveval k en) (h_edge (hs d)))) d
  end.
Proof. cbn [dexec]. destruct (get (dveval k en) (h_edge (ts d))); [cbv zeta; apply go_is_list|reflexivity]. Qed.

Lemma dexec_newpair t k en d : dexec (DNewPair t k) en d =
  if is_none (dveval k en) then (d, Raised XGIError)
  else (mkD (set_tab t (ts d) (set (dveval k en) [] (tab t (ts d)))) (set_tab t (hs d) (set (dveval k en) [] (tab t (hs d)))), Ok).
Proof. reflexivity. Qed.
Lemma dexec_newattr t k en d : dexec (DNewAttr t k) en d =
  if is_none (dveval k en) then (d, Raised XGIError)
  else (mkD (set_atab t (ts d) (set (dveval k en) [] (atab t (ts d)))) (set_atab t (hs d) (set (dveval k en) [] (atab t (hs d)))), Ok).
Proof. reflexivity. Qed.
Lemma dexec_add t k sd x en d : dexec (DAdd t k sd x) en d =
  if has (dveval k en) (tab t (ts d))
  then (set_dtab t (seval sd en) d (set (dveval k en) (sadd (dveval x en) (getl (dveval k en) (dtab t (seval sd en) d))) (dtab t (seval sd en) d)), Ok)
  else (d, Raised IDNotFound).
Proof. reflexivity. Qed.
Lemma dexec_remove t k sd x en d : dexec (DRemove t k sd x) en d =
  if has (dveval k en) (tab t (ts d))
  then if mem (dveval x en) (getl (dveval k en) (dtab t (seval sd en) d))
       then (set_dtab t (seval sd en) d (set (dveval k en) (sremove (dveval x en) (getl (dveval k en) (dtab t (seval sd en) d))) (dtab t (seval sd en) d)), Ok)
       else (d, Raised KeyError)
  else (d, Raised IDNotFound).
Proof. reflexivity. Qed.
Lemma dexec_del t k en d : dexec (DDel t k) en d =
  if has (dveval k en) (tab t (ts d))
  then (mkD (set_tab t (ts d) (del (dveval k en) (tab t (ts d)))) (set_tab t (hs d) (del (dveval k en) (tab t (hs d)))), Ok)
  else (d, Raised IDNotFound).
Proof. reflexivity. Qed.
Lemma dexec_delattr t k en d : dexec (DDelAttr t k) en d =
  if has (dveval k en) (atab t (ts d))
  then (mkD (set_atab t (ts d) (del (dveval k en) (atab t (ts d)))) (set_atab t (hs d) (del (dveval k en) (atab t (hs d)))), Ok)
  else (d, Raised IDNotFound).
Proof. reflexivity. Qed.
Lemma dexec_uid k en d : dexec (DUid k) en d = (both (bump_uid (dveval k en)) d, Ok).
Proof. reflexivity. Qed.
Lemma dexec_attrupdate t k en d : dexec (DAttrUpdate t k) en d =
  match get (dveval k en) (atab t (ts d)) with
  | Some a => (mkD (set_atab t (ts d) (set (dveval k en) (aupdate a (de_attr en)) (atab t (ts d)))) (hs d), Ok)
  | None => (d, Raised IDNotFound)
  end.
Proof. reflexivity. Qed.
Lemma dexec_raise e en d : dexec (DRaise e) en d = (d, Raised e).
Proof. reflexivity. Qed.
Lemma dexec_clear t en d : dexec (DClear t) en d = (mkD (set_tab t (ts d) []) (set_tab t (hs d) []), Ok).
Proof. reflexivity. Qed.
Lemma dexec_clearattr t en d : dexec (DClearAttr t) en d = (mkD (set_atab t (ts d) []) (set_atab t (hs d) []), Ok).
Proof. reflexivity. Qed.
Lemma dexec_clearnet en d : dexec DClearNet en d = (mkD (with_net (ts d) []) (with_net (hs d) []), Ok).
Proof. reflexivity. Qed.

Ltac dhgs := unfold dwith_loop, dwith_sides, dwith_local, dwith_uid_var;
  cbn [h_node h_nattr h_edge h_eattr h_net h_uid with_node with_nattr with_edge with_eattr with_uid with_net ts hs
       tab set_tab atab set_atab dtab set_dtab tail_side dveval seval
       de_args de_flags de_dir de_attr de_ids de_loop de_loop1 de_ed de_nd de_local de_x dx_tail dx_head dx_idx dx_uid dx_eattr nth fst snd].
Ltac dstep := rewrite ?dexec_list_cons, ?dexec_list_nil, ?dexec_if, ?dexec_newpair, ?dexec_newattr, ?dexec_add, ?dexec_remove,
                      ?dexec_del, ?dexec_delattr, ?dexec_uid, ?dexec_raise, ?dexec_attrupdate; cbn [dbeval]; dhgs; cbn [negb andb];
              repeat match goal with H : is_none _ = false |- _ => rewrite H end.

(* both sides have the same keys *)
Lemma agree_has_node d n : Agree d -> has n (h_node (hs d)) = has n (h_node (ts d)).
Proof.
  intros (A & _ & _). specialize (A n). unfold nkeys in A.
  destruct (has n (h_node (ts d))) eqn:E1, (has n (h_node (hs d))) eqn:E2; try reflexivity.
  - apply has_In in E1. apply A in E1. apply has_In in E1. congruence.
  - apply has_In in E2. apply A in E2. apply has_In in E2. congruence.
Qed.
Lemma agree_has_edge d e : Agree d -> has e (h_edge (hs d)) = has e (h_edge (ts d)).
Proof.
  intros (_ & A & _). specialize (A e). unfold ekeys in A.
  destruct (has e (h_edge (ts d))) eqn:E1, (has e (h_edge (hs d))) eqn:E2; try reflexivity.
  - apply has_In in E1. apply A in E1. apply has_In in E1. congruence.
  - apply has_In in E2. apply A in E2. apply has_In in E2. congruence.
Qed.

(* ---------- clear(remove_net_attr): on every state whose head side carries no network attributes ---------- *)
Theorem d_clear_is_source b d : h_net (hs d) = [] ->
  run_dmethod dsrc_clear [] [b] DirInvalid [] [] d = d_clear b d.
Proof.
  intro Hn. unfold run_dmethod, dsrc_clear, d_clear, clear.
  rewrite dexec_list_cons, dexec_clear, dexec_list_cons, dexec_clearattr, dexec_list_cons, dexec_clear, dexec_list_cons, dexec_clearattr.
  rewrite dexec_list_cons, dexec_if. cbn [dbeval]. dhgs. destruct b.
  - rewrite dexec_list_cons, dexec_clearnet, !dexec_list_nil. reflexivity.
  - rewrite !dexec_list_nil. unfold dok, ok, st_of, with_eattr, with_edge, with_nattr, with_node. cbn [fst h_net h_uid h_node h_nattr h_edge h_eattr]. rewrite Hn. reflexivity.
Qed.

(* ---------- add_node(node, **attr) ---------- *)
Theorem d_add_node_is_source n a d : DInv d ->
  run_dmethod dsrc_add_node [n] [] DirInvalid a [] d = d_add_node n a d.
Proof.
  intros (I1 & I2 & Ag). destruct I1 as (_ & (Kna & _) & _).
  unfold run_dmethod, dsrc_add_node, d_add_node, d_add_node_body. rewrite dexec_list_cons, dexec_if. cbn [dbeval]. dhgs.
  destruct (has n (h_node (ts d))) eqn:Hn; cbn [negb].
  - rewrite dexec_list_nil, dexec_list_cons, dexec_attrupdate. dhgs.
    assert (Ha : has n (h_nattr (ts d)) = true) by (apply has_In; rewrite Kna; apply has_In; exact Hn).
    unfold has in Ha. destruct (get n (h_nattr (ts d))) as [x|] eqn:G; [|discriminate Ha].
    rewrite dexec_list_nil. unfold dok, nattr_update, geta. rewrite G. reflexivity.
  - destruct (is_none n) eqn:Nn; [repeat dstep; rewrite Nn; reflexivity|].
    repeat dstep. rewrite get_set_same. rewrite dexec_list_nil.
    unfold dok, nattr_update, ensure_node, geta. rewrite (agree_has_node d n Ag), Hn. dhgs. rewrite get_set_same. reflexivity.
Qed.

(* ---------- remove_edge(idx) / remove_edges_from(ebunch): on every state satisfying the class invariant ---------- *)
Definition half (sd : side) (d : dhg) : hg := if tail_side TNode sd then ts d else hs d.
Definition on_half (sd : side) (f : hg -> hg) (d : dhg) : dhg :=
  if tail_side TNode sd then mkD (f (ts d)) (hs d) else mkD (ts d) (f (hs d)).

Lemma has_set_keep {V} k (v : V) y dct : has y dct = true -> has y (set k v dct) = true.
Proof. unfold has. rewrite get_set. destruct (lbl_eqb y k); [reflexivity|auto]. Qed.

Lemma fold_node_rem_has e y : forall xs s, has y (h_node s) = true -> has y (h_node (fold_left (fun s n => node_rem n e s) xs s)) = true.
Proof.
  induction xs as [|x xs IH]; intros s H; [exact H|]. cbn [fold_left]. apply IH. unfold node_rem.
  destruct (has x (h_node s)); [|exact H]. cbn [h_node with_node]. apply has_set_keep. exact H.
Qed.

Lemma diter_remove_ok e sd k en : (forall x, dveval k (dwith_loop en x) = e) -> forall xs d, NoDup xs ->
  (forall x, In x xs -> has x (h_node (ts d)) = true /\ exists l, get x (h_node (half sd d)) = Some l /\ mem e l = true) ->
  diter [DRemove TNode VLoop (SConst sd) k] en xs d = (on_half sd (fun s => fold_left (fun s n => node_rem n e s) xs s) d, Ok).
Proof.
  intro Hk. induction xs as [|x xs IH]; intros d ND H; [destruct d, sd; reflexivity|]. cbn [diter].
  inversion ND as [|? ? Hx ND']; subst. destruct (H x (or_introl eq_refl)) as (Hh & l & Gl & Ml).
  rewrite dexec_list_cons, dexec_remove. rewrite Hk. cbn [dveval dwith_loop de_loop seval tab]. rewrite Hh.
  assert (Eg : getl x (dtab TNode sd d) = l) by (unfold getl, dtab, half in *; destruct sd; cbn [tail_side tab] in *; rewrite Gl; reflexivity).
  rewrite Eg, Ml, dexec_list_nil.
  assert (E : set_dtab TNode sd d (set x (sremove e l) (dtab TNode sd d)) = on_half sd (node_rem x e) d).
  { unfold set_dtab, on_half, dtab, half in *. destruct sd; cbn [tail_side tab set_tab] in *; unfold node_rem, has, getl; rewrite Gl; reflexivity. }
  rewrite E. rewrite IH; [|exact ND'|].
  - unfold on_half. destruct sd; cbn [tail_side ts hs fold_left]; reflexivity.
  - intros y Hy. destruct (H y (or_intror Hy)) as (Hhy & ly & Gy & My).
    assert (Nyx : y <> x) by (intro; subst; contradiction).
    assert (Rem : forall s, has y (h_node s) = true -> has y (h_node (node_rem x e s)) = true).
    { intros s Hs. unfold node_rem. destruct (has x (h_node s)); [|exact Hs]. cbn [h_node with_node]. apply has_set_keep. exact Hs. }
    assert (Get : forall s lz, get y (h_node s) = Some lz -> get y (h_node (node_rem x e s)) = Some lz).
    { intros s lz Gs. unfold node_rem. destruct (has x (h_node s)); [|exact Gs]. cbn [h_node with_node]. rewrite get_set_other by exact Nyx. exact Gs. }
    unfold on_half, half in *. destruct sd; cbn [tail_side ts hs] in *.
    + split; [exact Hhy|]. exists ly. split; [apply Get; exact Gy|exact My].
    + split; [apply Rem; exact Hhy|]. exists ly. split; [apply Get; exact Gy|exact My].
Qed.

(* the statements of remove_edge for the edge held by k *)
Definition rm_edge_body (k : vexp) (kin : vexp) : list dstmt :=
  [DBindEdgeCopy k [DForLocal SdIn [DRemove TNode VLoop (SConst SdOut) kin]; DForLocal SdOut [DRemove TNode VLoop (SConst SdIn) kin];
                    DDel TEdge k; DDelAttr TEdge k]].

Lemma rm_edge_body_ok e k kin en d : DInv d ->
  dveval k en = e -> (forall p, dveval k (dwith_local en p) = e) -> (forall p x, dveval kin (dwith_loop (dwith_local en p) x) = e) ->
  dexec_list (rm_edge_body k kin) en d = (dst_of (d_remove_edge e d), snd (fst (d_remove_edge e d))).
Proof.
  intros (I1 & I2 & Ag) Hk Hkl Hkin. unfold rm_edge_body, d_remove_edge, d_remove_edge_raw, remove_edge1.
  rewrite dexec_list_cons, dexec_bindcopy, Hk.
  destruct (get e (h_edge (ts d))) as [tl|] eqn:Gt.
  2:{ unfold has. rewrite Gt. reflexivity. }
  assert (Ht : has e (h_edge (ts d)) = true) by (unfold has; rewrite Gt; reflexivity). rewrite Ht.
  pose proof (agree_has_edge d e Ag) as Hh. rewrite Ht in Hh. unfold has in Hh.
  destruct (get e (h_edge (hs d))) as [hd|] eqn:Gh; [|discriminate Hh].
  assert (Egl : getl e (h_edge (hs d)) = hd) by (unfold getl; rewrite Gh; reflexivity). rewrite Egl.
  set (en1 := dwith_local en (tl, hd)).
  destruct I1 as (W1 & (_ & Kea1 & _ & _) & (_ & Vm1) & _). destruct I2 as (W2 & (_ & Kea2 & _ & _) & (_ & Vm2) & _).
  (* first loop: the tail *)
  rewrite dexec_list_cons, dexec_forlocal. unfold en1 at 2. cbn [dwith_local de_local fst].
  rewrite (diter_remove_ok e SdOut kin en1 (Hkin (tl, hd)) tl d).
  2:{ pose proof (Vm1 e) as V. unfold mems, getl in V. rewrite Gt in V. exact V. }
  2:{ intros x Hx. assert (Hi : In e (mships (ts d) x)) by (apply W1; unfold mems, getl; rewrite Gt; exact Hx).
      unfold mships, getl in Hi. unfold half. cbn [tail_side]. unfold has.
      destruct (get x (h_node (ts d))) as [l|]; [|destruct Hi]. split; [reflexivity|]. exists l. split; [reflexivity|apply mem_In; exact Hi]. }
  unfold on_half. cbn [tail_side].
  set (t1 := fold_left (fun s n => node_rem n e s) tl (ts d)).
  (* second loop: the head *)
  rewrite dexec_list_cons, dexec_forlocal. unfold en1 at 2. cbn [dwith_local de_local snd].
  rewrite (diter_remove_ok e SdIn kin en1 (Hkin (tl, hd)) hd (mkD t1 (hs d))).
  2:{ pose proof (Vm2 e) as V. unfold mems, getl in V. rewrite Gh in V. exact V. }
  2:{ intros x Hx. assert (Hi : In e (mships (hs d) x)) by (apply W2; unfold mems, getl; rewrite Gh; exact Hx).
      unfold mships, getl in Hi. unfold half. cbn [tail_side ts hs].
      destruct (get x (h_node (hs d))) as [l|] eqn:Gx; [|destruct Hi]. split.
      - unfold t1. apply fold_node_rem_has. rewrite <- (agree_has_node d x Ag). unfold has. rewrite Gx. reflexivity.
      - exists l. split; [reflexivity|apply mem_In; exact Hi]. }
  unfold on_half. cbn [tail_side ts hs].
  set (h1 := fold_left (fun s n => node_rem n e s) hd (hs d)).
  destruct (fold_node_rem_tables e tl (ts d)) as [A1 B1]. fold t1 in A1, B1.
  destruct (fold_node_rem_tables e hd (hs d)) as [A2 B2]. fold h1 in A2, B2.
  rewrite dexec_list_cons, dexec_del. unfold en1. rewrite Hkl. cbn [tab ts hs set_tab]. rewrite A1, Ht.
  rewrite dexec_list_cons, dexec_delattr. rewrite Hkl. cbn [atab ts hs set_atab h_eattr with_edge]. rewrite B1.
  assert (Hea : has e (h_eattr (ts d)) = true) by (apply has_In; rewrite Kea1; apply has_In; exact Ht).
  rewrite Hea. rewrite !dexec_list_nil.
  unfold dok, dst_of, ok, st_of, drop_edge. cbn [fst snd]. rewrite A1, A2, B1, B2. reflexivity.
Qed.

Theorem d_remove_edge_is_source e d : DInv d ->
  run_dmethod dsrc_remove_edge [e] [] DirInvalid [] [] d = d_remove_edge e d.
Proof.
  intro I. unfold run_dmethod, dsrc_remove_edge. change (dexec_list _ ?en d) with (dexec_list (rm_edge_body (VArg 0) (VArg 0)) en d).
  rewrite (rm_edge_body_ok e (VArg 0) (VArg 0) _ d I); [| reflexivity | intro p; reflexivity | intros p x; reflexivity].
  unfold d_remove_edge. destruct (has e (h_edge (ts d))); reflexivity.
Qed.

Lemma d_remove_edge_no_warn e d : snd (d_remove_edge e d) = O.
Proof. unfold d_remove_edge. destruct (has e (h_edge (ts d))); reflexivity. Qed.

Lemma d_remove_loop_ok en : (forall x p y, dveval VLoop1 (dwith_loop (dwith_local (dwith_loop en x) p) y) = x) ->
  forall es d, DInv d ->
  (let (d', o) := diter (rm_edge_body VLoop VLoop1) en es d in (d', o, O)) = d_remove_edges_from es d.
Proof.
  intro Hl. induction es as [|e es IH]; intros d I; [reflexivity|]. unfold d_remove_edges_from. cbn [diter dloop].
  rewrite (rm_edge_body_ok e VLoop VLoop1 (dwith_loop en e) d I); [| reflexivity | intro p; reflexivity | intros p x; apply Hl].
  pose proof (DInv_remove_edge e d I) as I'. pose proof (d_remove_edge_no_warn e d) as Wn.
  destruct (d_remove_edge e d) as [[d1 o1] w1]. cbn [dst_of fst snd] in *. subst w1.
  destruct o1 as [|x]; [|reflexivity].
  specialize (IH d1 I'). unfold d_remove_edges_from in IH. rewrite <- IH.
  destruct (diter _ en es d1) as [d2 o2]. reflexivity.
Qed.

Theorem d_remove_edges_from_is_source es d : DInv d ->
  run_dmethod dsrc_remove_edges_from [] [] DirInvalid [] es d = d_remove_edges_from es d.
Proof.
  intro I. unfold run_dmethod, dsrc_remove_edges_from. rewrite dexec_list_cons, dexec_forids. dhgs.
  change (diter _ ?en es d) with (diter (rm_edge_body VLoop VLoop1) en es d).
  rewrite <- (d_remove_loop_ok (mkDEnv [] [] DirInvalid [] es LNone LNone SdIn SdOut ([], []) dext0) (fun x p y => eq_refl) es d I).
  destruct (diter _ _ es d) as [d' [|x]]; [rewrite dexec_list_nil|]; reflexivity.
Qed.

(* ---------- add_node_to_edge(edge, node, direction) ---------- *)
Lemma ensure_node_has n s : has n (h_node (ensure_node n s)) = true.
Proof. unfold ensure_node. destruct (has n (h_node s)) eqn:E; [exact E|]. cbn [h_node with_node with_nattr]. unfold has. rewrite get_set_same. reflexivity. Qed.

Lemma bump_uid_node e s : h_node (bump_uid e s) = h_node s.
Proof. destruct (bump_uid_tables e s) as (A & _). exact A. Qed.
Lemma bump_uid_edge e s : h_edge (bump_uid e s) = h_edge s.
Proof. destruct (bump_uid_tables e s) as (_ & A & _). exact A. Qed.
Lemma bump_uid_nattr e s : h_nattr (bump_uid e s) = h_nattr s.
Proof. destruct (bump_uid_tables e s) as (_ & _ & A & _). exact A. Qed.

(* the two additions at the end, on the side chosen by the direction *)
Lemma attach_side_ok e n (tside : bool) d2 :
  has e (h_edge (ts d2)) = true -> has e (h_edge (hs d2)) = true ->
  has n (h_node (ts d2)) = true -> has n (h_node (hs d2)) = true ->
  forall en, dveval (VArg 0) en = e -> dveval (VArg 1) en = n ->
  de_ed en = (if tside then SdIn else SdOut) -> de_nd en = (if tside then SdOut else SdIn) ->
  dexec_list [DAdd TEdge (VArg 0) SEd (VArg 1); DAdd TNode (VArg 1) SNd (VArg 0)] en d2 =
  ((if tside then mkD (attach e (ts d2) n) (hs d2) else mkD (ts d2) (attach e (hs d2) n)), Ok).
Proof.
  intros He1 He2 Hn1 Hn2 en A0 A1 Ed Nd.
  rewrite dexec_list_cons, dexec_add. rewrite A0, A1. cbn [seval tab]. rewrite He1, Ed.
  rewrite dexec_list_cons, dexec_add. rewrite A0, A1. cbn [seval tab]. rewrite Nd.
  destruct tside; cbn [set_dtab dtab tail_side tab set_tab ts hs h_node with_edge].
  - rewrite Hn1, dexec_list_nil. unfold attach, ensure_node. rewrite Hn1. unfold edge_add, node_add. cbn [h_node h_edge with_node with_edge]. reflexivity.
  - rewrite Hn1, dexec_list_nil. unfold attach, ensure_node. rewrite Hn2. unfold edge_add, node_add. cbn [h_node h_edge with_node with_edge]. reflexivity.
Qed.

Theorem d_add_node_to_edge_is_source e n dir d : DInv d ->
  run_dmethod dsrc_add_node_to_edge [e; n] [] dir [] [] d = d_add_node_to_edge e n dir d.
Proof.
  intros (I1 & I2 & Ag). unfold run_dmethod, dsrc_add_node_to_edge, d_add_node_to_edge.
  rewrite dexec_list_cons, dexec_binddir. cbn [de_dir].
  assert (Main : forall tside : bool,
    (let (d', o) := match dexec_list
        [DIf (DNot (DIn (VArg 0) TEdge)) [DNewPair TEdge (VArg 0); DNewAttr TEdge (VArg 0); DUid (VArg 0)] [];
         DIf (DNot (DIn (VArg 1) TNode)) [DNewPair TNode (VArg 1); DNewAttr TNode (VArg 1)] [];
         DAdd TEdge (VArg 0) SEd (VArg 1); DAdd TNode (VArg 1) SNd (VArg 0)]
        (mkDEnv [e; n] [] dir [] [] LNone LNone (if tside then SdIn else SdOut) (if tside then SdOut else SdIn) ([], []) dext0) d
      with (d', Ok) => dexec_list [] (mkDEnv [e; n] [] dir [] [] LNone LNone SdIn SdOut ([], []) dext0) d' | y => y end in (d', o, O)) =
    (if negb (has e (h_edge (ts d))) && is_none e then draise d XGIError
     else let d1 := if has e (h_edge (ts d)) then d else both (new_empty_edge e) d in
          if negb (has n (h_node (ts d1))) && is_none n then draise d1 XGIError
          else let d2 := both (ensure_node n) d1 in
               dok (if tside then mkD (attach e (ts d2) n) (hs d2) else mkD (ts d2) (attach e (hs d2) n)))).
  { intro tside. rewrite dexec_list_cons, dexec_if. cbn [dbeval]. dhgs.
    set (en := mkDEnv [e; n] [] dir [] [] LNone LNone (if tside then SdIn else SdOut) (if tside then SdOut else SdIn) ([], []) dext0).
    (* the rest once the edge is there *)
    assert (Rest : forall d1, has e (h_edge (ts d1)) = true -> has e (h_edge (hs d1)) = true ->
                   has n (h_node (hs d1)) = has n (h_node (ts d1)) ->
      (let (d', o) := match dexec_list
          [DIf (DNot (DIn (VArg 1) TNode)) [DNewPair TNode (VArg 1); DNewAttr TNode (VArg 1)] [];
           DAdd TEdge (VArg 0) SEd (VArg 1); DAdd TNode (VArg 1) SNd (VArg 0)] en d1
        with (d', Ok) => dexec_list [] (mkDEnv [e; n] [] dir [] [] LNone LNone SdIn SdOut ([], []) dext0) d' | y => y end in (d', o, O)) =
      (if negb (has n (h_node (ts d1))) && is_none n then draise d1 XGIError
       else let d2 := both (ensure_node n) d1 in
            dok (if tside then mkD (attach e (ts d2) n) (hs d2) else mkD (ts d2) (attach e (hs d2) n)))).
    { intros d1 He1 He2 Hagn. rewrite dexec_list_cons, dexec_if. cbn [dbeval]. dhgs; try change (nth 0 (de_args en) LNone) with e; try change (nth 1 (de_args en) LNone) with n.
      destruct (has n (h_node (ts d1))) eqn:Hn; cbn [negb andb].
      - rewrite dexec_list_nil.
        assert (E2 : both (ensure_node n) d1 = d1).
        { unfold both, ensure_node. rewrite Hagn, Hn. destruct d1; reflexivity. }
        cbv zeta. rewrite E2.
        rewrite (attach_side_ok e n tside d1 He1 He2 Hn Hagn en eq_refl eq_refl eq_refl eq_refl).
        rewrite dexec_list_nil. reflexivity.
      - destruct (is_none n) eqn:Nn.
        + rewrite dexec_list_cons, dexec_newpair. dhgs; try change (nth 0 (de_args en) LNone) with e; try change (nth 1 (de_args en) LNone) with n. rewrite Nn. reflexivity.
        + rewrite dexec_list_cons, dexec_newpair. dhgs; try change (nth 0 (de_args en) LNone) with e; try change (nth 1 (de_args en) LNone) with n. rewrite Nn.
          rewrite dexec_list_cons, dexec_newattr. dhgs; try change (nth 0 (de_args en) LNone) with e; try change (nth 1 (de_args en) LNone) with n. rewrite Nn. rewrite dexec_list_nil.
          set (d2 := mkD _ _).
          assert (E2 : both (ensure_node n) d1 = d2).
          { unfold both, ensure_node, d2. rewrite Hagn, Hn. reflexivity. }
          cbv zeta. rewrite E2.
          assert (Hn1 : has n (h_node (ts d2)) = true) by (unfold d2, has; dhgs; rewrite get_set_same; reflexivity).
          assert (Hn2 : has n (h_node (hs d2)) = true) by (unfold d2, has; dhgs; rewrite get_set_same; reflexivity).
          rewrite (attach_side_ok e n tside d2 He1 He2 Hn1 Hn2 en eq_refl eq_refl eq_refl eq_refl).
          rewrite dexec_list_nil. reflexivity. }
    destruct (has e (h_edge (ts d))) eqn:He; cbn [negb andb].
    - rewrite dexec_list_nil. apply Rest; [exact He|rewrite (agree_has_edge d e Ag); exact He|apply agree_has_node; exact Ag].
    - destruct (is_none e) eqn:Ne.
      + rewrite dexec_list_cons, dexec_newpair. dhgs; try change (nth 0 (de_args en) LNone) with e; try change (nth 1 (de_args en) LNone) with n. rewrite Ne. reflexivity.
      + rewrite dexec_list_cons, dexec_newpair. dhgs; try change (nth 0 (de_args en) LNone) with e; try change (nth 1 (de_args en) LNone) with n. rewrite Ne.
        rewrite dexec_list_cons, dexec_newattr. dhgs; try change (nth 0 (de_args en) LNone) with e; try change (nth 1 (de_args en) LNone) with n. rewrite Ne.
        rewrite dexec_list_cons, dexec_uid. dhgs; try change (nth 0 (de_args en) LNone) with e; try change (nth 1 (de_args en) LNone) with n. rewrite dexec_list_nil.
        set (d1 := both (bump_uid e) _).
        assert (E1 : both (new_empty_edge e) d = d1) by reflexivity.
        rewrite E1. apply Rest.
        * unfold d1, both, has. dhgs. rewrite bump_uid_edge. dhgs. rewrite get_set_same. reflexivity.
        * unfold d1, both, has. dhgs. rewrite bump_uid_edge. dhgs. rewrite get_set_same. reflexivity.
        * unfold d1, both. dhgs. rewrite !bump_uid_node. dhgs. apply agree_has_node. exact Ag. }
  destruct dir; [exact (Main true)|exact (Main false)|reflexivity].
Qed.

(* ---------- remove_node_from_edge(edge, node, direction, remove_empty): on every state satisfying the class invariant ---------- *)
Theorem d_remove_node_from_edge_is_source e n dir re d : DInv d ->
  run_dmethod dsrc_remove_node_from_edge [e; n] [re] dir [] [] d = d_remove_node_from_edge e n dir re d.
Proof.
  intros (I1 & I2 & Ag). unfold run_dmethod, dsrc_remove_node_from_edge, d_remove_node_from_edge.
  rewrite dexec_list_cons, dexec_binddir. cbn [de_dir].
  assert (Main : forall tside : bool,
    let s0 := if tside then ts d else hs d in
    (let (d', o) := match dexec_list
        [DIf (DNot (DIn (VArg 0) TEdge)) [DRaise XGIError] [];
         DIf (DNot (DIn (VArg 1) TNode)) [DRaise XGIError]
           [DIf (DNot (DMember (VArg 1) (VArg 0) TEdge SEd)) [DRaise XGIError] [DRemove TEdge (VArg 0) SEd (VArg 1)]];
         DRemove TNode (VArg 1) SNd (VArg 0);
         DIf (DAnd (DEmpty (VArg 0) TEdge (SConst SdIn)) (DAnd (DEmpty (VArg 0) TEdge (SConst SdOut)) (DFlag 0)))
           [DDel TEdge (VArg 0); DDelAttr TEdge (VArg 0)] []]
        (mkDEnv [e; n] [re] dir [] [] LNone LNone (if tside then SdIn else SdOut) (if tside then SdOut else SdIn) ([], []) dext0) d
      with (d', Ok) => dexec_list [] (mkDEnv [e; n] [re] dir [] [] LNone LNone SdIn SdOut ([], []) dext0) d' | y => y end in (d', o, O)) =
    (if negb (has e (h_edge (ts d))) then draise d XGIError
     else if negb (has n (h_node (ts d))) then draise d XGIError
     else if negb (mem n (getl e (h_edge s0))) then draise d XGIError
     else dok (d_drop_if_empty re (if tside then mkD (unlink1 e n (ts d)) (hs d) else mkD (ts d) (unlink1 e n (hs d))) e))).
  { intros tside s0.
    set (en := mkDEnv [e; n] [re] dir [] [] LNone LNone (if tside then SdIn else SdOut) (if tside then SdOut else SdIn) ([], []) dext0).
    rewrite dexec_list_cons, dexec_if. cbn [dbeval]. dhgs. try change (nth 0 (de_args en) LNone) with e.
    destruct (has e (h_edge (ts d))) eqn:He; cbn [negb]; [|rewrite dexec_list_cons, dexec_raise; reflexivity].
    rewrite dexec_list_nil, dexec_list_cons, dexec_if. cbn [dbeval]. dhgs. try change (nth 1 (de_args en) LNone) with n.
    destruct (has n (h_node (ts d))) eqn:Hn; cbn [negb]; [|rewrite dexec_list_cons, dexec_raise; reflexivity].
    rewrite dexec_list_cons, dexec_if. cbn [dbeval]. dhgs. try change (nth 0 (de_args en) LNone) with e; try change (nth 1 (de_args en) LNone) with n.
    rewrite He.
    assert (Etab : (if match de_ed en with SdIn => true | SdOut => false end then ts d else hs d) = s0) by (unfold s0, en; destruct tside; reflexivity).
    rewrite Etab.
    destruct (mem n (getl e (h_edge s0))) eqn:Mn; cbn [negb]; [|rewrite dexec_list_cons, dexec_raise; reflexivity].
    (* the class invariant on the chosen side *)
    assert (I0 : Inv s0) by (unfold s0; destruct tside; assumption).
    assert (He0 : has e (h_edge s0) = true) by (unfold s0; destruct tside; [exact He|rewrite (agree_has_edge d e Ag); exact He]).
    assert (Hn0 : has n (h_node s0) = true) by (unfold s0; destruct tside; [exact Hn|rewrite (agree_has_node d n Ag); exact Hn]).
    destruct I0 as (W0 & (_ & Kea0 & _ & _) & _).
    unfold has in He0. destruct (get e (h_edge s0)) as [m|] eqn:Ge; [|discriminate He0].
    assert (Gl : getl e (h_edge s0) = m) by (unfold getl; rewrite Ge; reflexivity). rewrite Gl in Mn.
    unfold has in Hn0. destruct (get n (h_node s0)) as [l|] eqn:Gn; [|discriminate Hn0].
    assert (Me : mem e l = true).
    { apply mem_In. assert (Hi : In e (mships s0 n)) by (apply W0; unfold mems; rewrite Gl; apply mem_In; exact Mn).
      unfold mships, getl in Hi. rewrite Gn in Hi. exact Hi. }
    (* remove the node from the edge's side *)
    rewrite dexec_list_cons, dexec_remove. cbn [seval tab]. try change (dveval (VArg 0) en) with e; try change (dveval (VArg 1) en) with n.
    rewrite He. unfold dtab. cbn [tail_side]. rewrite Etab. cbn [tab]. rewrite Gl, Mn, dexec_list_nil.
    assert (E1 : set_dtab TEdge (de_ed en) d (set e (sremove n m) (h_edge s0)) =
                 if tside then mkD (edge_rem e n (ts d)) (hs d) else mkD (ts d) (edge_rem e n (hs d))).
    { unfold set_dtab, en, s0 in *. destruct tside; cbn [de_ed tail_side tab set_tab] in *; unfold edge_rem, has, getl; rewrite Ge; reflexivity. }
    rewrite E1. clear E1. rewrite dexec_list_nil.
    (* remove the edge from the node's side *)
    rewrite dexec_list_cons, dexec_remove. cbn [seval tab]. try change (dveval (VArg 0) en) with e; try change (dveval (VArg 1) en) with n.
    assert (Hn' : has n (h_node (ts (if tside then mkD (edge_rem e n (ts d)) (hs d) else mkD (ts d) (edge_rem e n (hs d))))) = true).
    { destruct tside; cbn [ts]; [|exact Hn]. unfold edge_rem. destruct (has e (h_edge (ts d))); exact Hn. }
    rewrite Hn'.
    assert (Gn' : getl n (dtab TNode (de_nd en) (if tside then mkD (edge_rem e n (ts d)) (hs d) else mkD (ts d) (edge_rem e n (hs d)))) = l).
    { unfold dtab, en, s0 in *. destruct tside; cbn [de_nd tail_side tab ts hs] in *; unfold edge_rem, has, getl; rewrite Ge; cbn [h_node with_edge]; rewrite Gn; reflexivity. }
    rewrite Gn', Me.
    set (d1 := if tside then mkD (unlink1 e n (ts d)) (hs d) else mkD (ts d) (unlink1 e n (hs d))).
    assert (E2 : set_dtab TNode (de_nd en) (if tside then mkD (edge_rem e n (ts d)) (hs d) else mkD (ts d) (edge_rem e n (hs d)))
                          (set n (sremove e l) (dtab TNode (de_nd en) (if tside then mkD (edge_rem e n (ts d)) (hs d) else mkD (ts d) (edge_rem e n (hs d))))) = d1).
    { unfold d1, unlink1, set_dtab, dtab, en, s0 in *. destruct tside; cbn [de_nd tail_side tab set_tab ts hs] in *;
        unfold node_rem, edge_rem, has, getl; rewrite Ge; cbn [h_node with_edge]; rewrite Gn; reflexivity. }
    rewrite E2. clear E2.
    (* drop the edge if both sides are now empty *)
    rewrite dexec_list_cons, dexec_if. cbn [dbeval seval tab dtab tail_side]. try change (dveval (VArg 0) en) with e.
    assert (He1 : has e (h_edge (ts d1)) = true).
    { unfold d1. destruct tside; cbn [ts]; [|exact He].
      unfold unlink1, node_rem. destruct (has n (h_node (edge_rem e n (ts d)))); cbn [h_edge with_node];
        unfold edge_rem; rewrite He; cbn [h_edge with_edge]; unfold has; rewrite get_set_same; reflexivity. }
    rewrite He1. unfold d_drop_if_empty, tail, head, is_nil.
    assert (Hea : has e (h_eattr (ts d1)) = true).
    { assert (X : h_eattr (ts d1) = h_eattr (ts d)).
      { unfold d1, unlink1, node_rem, edge_rem. destruct tside; cbn [ts]; [|reflexivity].
        destruct (has e (h_edge (ts d))); cbn [h_node with_edge]; [destruct (has n (h_node (ts d)))|destruct (has n (h_node (ts d)))]; reflexivity. }
      rewrite X. destruct I1 as (_ & (_ & Kea1 & _ & _) & _). apply has_In. rewrite Kea1. apply has_In. exact He. }
    destruct (getl e (h_edge (ts d1))) as [|a1 r1]; cbn [andb].
    2:{ rewrite !dexec_list_nil. reflexivity. }
    destruct (getl e (h_edge (hs d1))) as [|a2 r2]; cbn [andb].
    2:{ rewrite !dexec_list_nil. reflexivity. }
    change (nth 0 (de_flags en) false) with re. destruct re; cbn [andb].
    - rewrite dexec_list_cons, dexec_del. cbn [tab]. try change (dveval (VArg 0) en) with e. rewrite He1.
      rewrite dexec_list_cons, dexec_delattr. cbn [atab ts hs set_tab h_eattr with_edge]. try change (dveval (VArg 0) en) with e. rewrite Hea.
      rewrite !dexec_list_nil. reflexivity.
    - rewrite !dexec_list_nil. reflexivity. }
  destruct dir; [exact (Main true)|exact (Main false)|reflexivity].
Qed.

(* ---------- add_edge((tail, head), idx=None, **attr) ---------- *)
Lemma dexec_fortail body en d : dexec (DForTail body) en d = diter body en (dx_tail (de_x en)) d.
Proof. cbn [dexec]. apply it_is_diter. Qed.
Lemma dexec_forhead body en d : dexec (DForHead body) en d = diter body en (dx_head (de_x en)) d.
Proof. cbn [dexec]. apply it_is_diter. Qed.

Lemma has_ensure_node y x s : has y (h_node (ensure_node x s)) = lbl_eqb y x || has y (h_node s).
Proof.
  unfold ensure_node. destruct (has x (h_node s)) eqn:E.
  - destruct (lbl_eqb_spec y x) as [->|N]; [rewrite E; reflexivity|reflexivity].
  - cbn [h_node with_node with_nattr]. unfold has. rewrite get_set. destruct (lbl_eqb y x); reflexivity.
Qed.
Lemma has_attach_node e y x s : has y (h_node (attach e s x)) = lbl_eqb y x || has y (h_node s).
Proof.
  unfold attach, edge_add, node_add. cbn [h_node with_node with_edge]. unfold has at 1. rewrite get_set.
  destruct (lbl_eqb y x) eqn:E; [reflexivity|]. fold (has y (h_node (ensure_node x s))). rewrite has_ensure_node, E. reflexivity.
Qed.
Lemma ensure_node_h_edge x s : h_edge (ensure_node x s) = h_edge s.
Proof. unfold ensure_node. destruct (has x (h_node s)); reflexivity. Qed.
Lemma attach_has_edge' e x s : has e (h_edge (attach e s x)) = true.
Proof. unfold attach, edge_add. cbn [h_edge with_edge]. unfold has. rewrite get_set_same. reflexivity. Qed.

Lemma member_step k e x (tside : bool) en d :
  is_none x = false -> has e (h_edge (ts d)) = true -> has x (h_node (hs d)) = has x (h_node (ts d)) ->
  dveval VLoop en = x -> dveval k en = e ->
  dexec_list [DIf (DNot (DIn VLoop TNode)) [DNewPair TNode VLoop; DNewAttr TNode VLoop] [];
              DAdd TNode VLoop (SConst (if tside then SdOut else SdIn)) k;
              DAdd TEdge k (SConst (if tside then SdIn else SdOut)) VLoop] en d
  = ((if tside then mkD (attach e (ts d) x) (ensure_node x (hs d)) else mkD (ensure_node x (ts d)) (attach e (hs d) x)), Ok).
Proof.
  intros Nx He Hag Vl Vu.
  assert (Step1 : dexec (DIf (DNot (DIn VLoop TNode)) [DNewPair TNode VLoop; DNewAttr TNode VLoop] []) en d = (both (ensure_node x) d, Ok)).
  { rewrite dexec_if. cbn [dbeval tab]. rewrite Vl. unfold both, ensure_node. rewrite Hag.
    destruct (has x (h_node (ts d))) eqn:Hx; cbn [negb].
    - rewrite dexec_list_nil. destruct d; reflexivity.
    - rewrite dexec_list_cons, dexec_newpair, Vl, Nx. rewrite dexec_list_cons, dexec_newattr, Vl, Nx. rewrite dexec_list_nil. reflexivity. }
  rewrite dexec_list_cons, Step1.
  set (d1 := both (ensure_node x) d).
  assert (H1 : has x (h_node (ts d1)) = true) by (unfold d1, both; cbn [ts]; rewrite has_ensure_node, lbl_eqb_refl; reflexivity).
  assert (E1 : has e (h_edge (ts d1)) = true) by (unfold d1, both; cbn [ts]; rewrite ensure_node_h_edge; exact He).
  rewrite dexec_list_cons, dexec_add. cbn [tab seval]. rewrite Vl, Vu, H1.
  rewrite dexec_list_cons, dexec_add. cbn [tab seval]. rewrite Vl, Vu.
  destruct tside; cbn [set_dtab dtab tail_side tab set_tab ts hs h_edge with_node]; rewrite E1, dexec_list_nil;
    unfold d1, both, attach, edge_add, node_add; cbn [ts hs h_node h_edge with_node with_edge]; reflexivity.
Qed.

Lemma tail_loop_ok k e en : (forall x, dveval VLoop (dwith_loop en x) = x) -> (forall x, dveval k (dwith_loop en x) = e) ->
  forall xs d, (forall x, In x xs -> is_none x = false) -> has e (h_edge (ts d)) = true ->
  (forall y, has y (h_node (hs d)) = has y (h_node (ts d))) ->
  diter [DIf (DNot (DIn VLoop TNode)) [DNewPair TNode VLoop; DNewAttr TNode VLoop] [];
         DAdd TNode VLoop (SConst SdOut) k; DAdd TEdge k (SConst SdIn) VLoop] en xs d
  = (mkD (fold_left (attach e) xs (ts d)) (ensure_nodes xs (hs d)), Ok).
Proof.
  intros Vl Vu. induction xs as [|x xs IH]; intros d Hn He Hag; [destruct d; reflexivity|]. cbn [diter].
  rewrite (member_step k e x true (dwith_loop en x) d (Hn x (or_introl eq_refl)) He (Hag x) (Vl x) (Vu x)).
  rewrite IH.
  - reflexivity.
  - intros y Hy. apply Hn. right. exact Hy.
  - cbn [ts]. apply attach_has_edge'.
  - intro y. cbn [ts hs]. rewrite has_ensure_node, has_attach_node, Hag. reflexivity.
Qed.

Lemma head_loop_ok k e en : (forall x, dveval VLoop (dwith_loop en x) = x) -> (forall x, dveval k (dwith_loop en x) = e) ->
  forall xs d, (forall x, In x xs -> is_none x = false) -> has e (h_edge (ts d)) = true ->
  (forall y, has y (h_node (hs d)) = has y (h_node (ts d))) ->
  diter [DIf (DNot (DIn VLoop TNode)) [DNewPair TNode VLoop; DNewAttr TNode VLoop] [];
         DAdd TNode VLoop (SConst SdIn) k; DAdd TEdge k (SConst SdOut) VLoop] en xs d
  = (mkD (ensure_nodes xs (ts d)) (fold_left (attach e) xs (hs d)), Ok).
Proof.
  intros Vl Vu. induction xs as [|x xs IH]; intros d Hn He Hag; [destruct d; reflexivity|]. cbn [diter].
  rewrite (member_step k e x false (dwith_loop en x) d (Hn x (or_introl eq_refl)) He (Hag x) (Vl x) (Vu x)).
  rewrite IH.
  - reflexivity.
  - intros y Hy. apply Hn. right. exact Hy.
  - cbn [ts]. rewrite ensure_node_h_edge. exact He.
  - intro y. cbn [ts hs]. rewrite has_ensure_node, has_attach_node, Hag. reflexivity.
Qed.

(* node creation touches neither the edge tables nor the counter *)
Lemma ensure_node_with_eattr x s v : ensure_node x (with_eattr s v) = with_eattr (ensure_node x s) v.
Proof. unfold ensure_node. cbn [h_node with_eattr]. destruct (has x (h_node s)); reflexivity. Qed.
Lemma ensure_node_with_edge x s v : ensure_node x (with_edge s v) = with_edge (ensure_node x s) v.
Proof. unfold ensure_node. cbn [h_node with_edge]. destruct (has x (h_node s)); reflexivity. Qed.
Lemma ensure_node_bump x e s : ensure_node x (bump_uid e s) = bump_uid e (ensure_node x s).
Proof.
  unfold bump_uid. destruct (as_int e) as [z|]; [|reflexivity].
  assert (U : h_uid (ensure_node x s) = h_uid s) by (unfold ensure_node; destruct (has x (h_node s)); reflexivity).
  rewrite U. destruct (h_uid s <=? z); [|reflexivity].
  unfold ensure_node. cbn [h_node with_uid]. destruct (has x (h_node s)); reflexivity.
Qed.
Lemma ensure_nodes_with_eattr xs v : forall s, ensure_nodes xs (with_eattr s v) = with_eattr (ensure_nodes xs s) v.
Proof. unfold ensure_nodes. induction xs as [|x xs IH]; intro s; [reflexivity|]. cbn [fold_left]. rewrite ensure_node_with_eattr. apply IH. Qed.
Lemma ensure_nodes_with_edge xs v : forall s, ensure_nodes xs (with_edge s v) = with_edge (ensure_nodes xs s) v.
Proof. unfold ensure_nodes. induction xs as [|x xs IH]; intro s; [reflexivity|]. cbn [fold_left]. rewrite ensure_node_with_edge. apply IH. Qed.
Lemma ensure_nodes_bump xs e : forall s, ensure_nodes xs (bump_uid e s) = bump_uid e (ensure_nodes xs s).
Proof. unfold ensure_nodes. induction xs as [|x xs IH]; intro s; [reflexivity|]. cbn [fold_left]. rewrite ensure_node_bump. apply IH. Qed.
Lemma ensure_nodes_h_edge xs : forall s, h_edge (ensure_nodes xs s) = h_edge s.
Proof. unfold ensure_nodes. induction xs as [|x xs IH]; intro s; [reflexivity|]. cbn [fold_left]. rewrite IH. apply ensure_node_h_edge. Qed.
Lemma ensure_nodes_h_eattr xs : forall s, h_eattr (ensure_nodes xs s) = h_eattr s.
Proof.
  unfold ensure_nodes. induction xs as [|x xs IH]; intro s; [reflexivity|]. cbn [fold_left]. rewrite IH.
  unfold ensure_node. destruct (has x (h_node s)); reflexivity.
Qed.
Lemma ensure_nodes_has y xs : forall s, has y (h_node (ensure_nodes xs s)) = mem y xs || has y (h_node s).
Proof.
  unfold ensure_nodes. induction xs as [|x xs IH]; intro s; [reflexivity|]. cbn [fold_left mem]. rewrite IH, has_ensure_node.
  destruct (lbl_eqb y x), (mem y xs); reflexivity.
Qed.
Lemma fold_attach_has e y : forall xs s, has y (h_node (fold_left (attach e) xs s)) = mem y xs || has y (h_node s).
Proof.
  induction xs as [|x xs IH]; intro s; [reflexivity|]. cbn [fold_left mem]. rewrite IH, has_attach_node.
  destruct (lbl_eqb y x), (mem y xs); reflexivity.
Qed.
Lemma fold_attach_has_edge' e : forall xs s, has e (h_edge s) = true -> has e (h_edge (fold_left (attach e) xs s)) = true.
Proof. induction xs as [|x xs IH]; intros s H; [exact H|]. cbn [fold_left]. apply IH. apply attach_has_edge'. Qed.
Lemma fold_attach_h_eattr e : forall xs s, h_eattr (fold_left (attach e) xs s) = h_eattr s.
Proof.
  induction xs as [|x xs IH]; intro s; [reflexivity|]. cbn [fold_left]. rewrite IH.
  unfold attach, edge_add, node_add, ensure_node. destruct (has x (h_node s)); reflexivity.
Qed.

(* the statements after the guards, once the id u is known: u is not None, no member is None *)
Lemma d_add_edge_body_ok (explicit : bool) u tl hd ix a d0 :
  is_none u = false -> has_none tl = false -> has_none hd = false ->
  (forall y, has y (h_node (hs d0)) = has y (h_node (ts d0))) ->
  (explicit = true -> ix = Some u) -> (explicit = false -> ix = None) ->
  dexec_list dsrc_add_edge (mkDEnv [] [] DirInvalid a [] LNone LNone SdIn SdOut ([], []) (mkDExt tl hd ix u [])) d0 =
  (d_insert_edge explicit u tl hd a d0, Ok).
Proof.
  intros Nu Nt Nh Hag Hex Hau. unfold dsrc_add_edge.
  set (en := mkDEnv [] [] DirInvalid a [] LNone LNone SdIn SdOut ([], []) (mkDExt tl hd ix u [])).
  assert (Htl : forall x, In x tl -> is_none x = false).
  { intros x Hx. destruct (is_none x) eqn:E; [|reflexivity]. exfalso.
    assert (has_none tl = true) by (apply existsb_exists; exists x; split; assumption). congruence. }
  assert (Hhd : forall x, In x hd -> is_none x = false).
  { intros x Hx. destruct (is_none x) eqn:E; [|reflexivity]. exfalso.
    assert (has_none hd = true) by (apply existsb_exists; exists x; split; assumption). congruence. }
  rewrite dexec_list_cons, dexec_newpair. change (dveval VUid en) with u. rewrite Nu. cbn [tab set_tab].
  set (t1 := with_edge (ts d0) (set u [] (h_edge (ts d0)))). set (h1 := with_edge (hs d0) (set u [] (h_edge (hs d0)))).
  rewrite dexec_list_cons, dexec_fortail. change (dx_tail (de_x en)) with tl.
  rewrite (tail_loop_ok VUid u en (fun x => eq_refl) (fun x => eq_refl) tl (mkD t1 h1) Htl).
  2:{ unfold t1, has. cbn [ts h_edge with_edge]. rewrite get_set_same. reflexivity. }
  2:{ intro y. exact (Hag y). }
  cbn [ts hs].
  set (t2 := fold_left (attach u) tl t1). set (h2 := ensure_nodes tl h1).
  rewrite dexec_list_cons, dexec_forhead. change (dx_head (de_x en)) with hd.
  rewrite (head_loop_ok VUid u en (fun x => eq_refl) (fun x => eq_refl) hd (mkD t2 h2) Hhd).
  2:{ cbn [ts]. unfold t2. apply fold_attach_has_edge'. unfold t1, has. cbn [h_edge with_edge]. rewrite get_set_same. reflexivity. }
  2:{ intro y. cbn [ts hs]. unfold t2, h2. rewrite ensure_nodes_has, fold_attach_has. unfold t1, h1. cbn [h_node with_edge]. rewrite Hag. reflexivity. }
  cbn [ts hs].
  set (t3 := ensure_nodes hd t2). set (h3 := fold_left (attach u) hd h2).
  rewrite dexec_list_cons, dexec_newattr. change (dveval VUid en) with u. rewrite Nu. cbn [atab set_atab ts hs].
  rewrite dexec_list_cons, dexec_attrupdate. change (dveval VUid en) with u. cbn [atab set_atab ts hs h_eattr with_eattr de_attr].
  rewrite get_set_same, set_set_same.
  rewrite dexec_list_cons, dexec_if. unfold en. cbn [dbeval de_x dx_idx].
  (* the model's state, brought to the same shape *)
  assert (Ets : ensure_nodes hd (insert_edge u tl a (ts d0)) = with_eattr t3 (set u (aupdate [] a) (h_eattr t3))).
  { unfold insert_edge. fold t1. fold t2. rewrite ensure_nodes_with_eattr. fold t3. unfold t3. rewrite ensure_nodes_h_eattr. reflexivity. }
  assert (Ehs : insert_edge u hd [] (ensure_nodes tl (hs d0)) = with_eattr h3 (set u [] (h_eattr h3))).
  { unfold insert_edge. rewrite ensure_nodes_h_edge.
    assert (X : with_edge (ensure_nodes tl (hs d0)) (set u [] (h_edge (hs d0))) = h2) by (unfold h2, h1; rewrite ensure_nodes_with_edge; reflexivity).
    rewrite X. fold h3. reflexivity. }
  unfold d_insert_edge. destruct explicit.
  - rewrite (Hex eq_refl). cbn [negb]. rewrite dexec_list_cons, dexec_uid, !dexec_list_nil.
    change (dveval VIdx _) with u. unfold both. cbn [ts hs].
    rewrite ensure_nodes_bump, Ets, Ehs. reflexivity.
  - rewrite (Hau eq_refl). cbn [negb]. rewrite !dexec_list_nil. rewrite Ets, Ehs. reflexivity.
Qed.

Theorem d_add_edge_is_source tl hd idx a d : DInv d ->
  idx <> Some LNone -> has LNone (h_edge (ts d)) = false ->
  run_dmethod_e dsrc_add_edge_guards1 dsrc_add_edge_guards2 dsrc_add_edge tl hd idx a d = d_add_edge tl hd idx a d.
Proof.
  intros (I1 & I2 & Ag) Hi Hnone. unfold run_dmethod_e, dsrc_add_edge_guards1, dsrc_add_edge_guards2, d_add_edge.
  cbn [run_dguards dbeval de_x dx_tail dx_head]. fold (has_none tl). fold (has_none hd).
  destruct (has_none tl) eqn:Nt; [reflexivity|]. destruct (has_none hd) eqn:Nh; [reflexivity|]. cbn [orb].
  destruct idx as [i|].
  - unfold dwith_uid_var; cbn [de_x dx_idx dx_tail dx_head dx_eattr tab de_args de_flags de_dir de_attr de_ids de_loop de_loop1 de_ed de_nd de_local].
    destruct (has i (h_edge (ts d))) eqn:Hh; [reflexivity|].
    assert (Ni : is_none i = false) by (destruct i; try reflexivity; exfalso; apply Hi; reflexivity).
    rewrite (d_add_edge_body_ok true i tl hd (Some i) a d Ni Nt Nh (fun y => agree_has_node d y Ag) (fun _ => eq_refl)); [reflexivity|discriminate].
  - unfold dwith_uid_var; cbn [de_x dx_idx dx_tail dx_head dx_eattr tab de_args de_flags de_dir de_attr de_ids de_loop de_loop1 de_ed de_nd de_local].
    unfold both at 1. cbn [ts h_edge with_uid]. rewrite Hnone.
    rewrite (d_add_edge_body_ok false (LInt (h_uid (ts d))) tl hd None a _ eq_refl Nt Nh); [reflexivity| |discriminate|reflexivity].
    intro y. unfold both. cbn [ts hs h_node with_uid]. apply agree_has_node. exact Ag.
Qed.

(* ---------- add_edges_from, formats 1-4: the item ---------- *)
Lemma dexec_setpair k en d : dexec (DSetPair k) en d =
  if is_none (dveval k en) then (d, Raised XGIError)
  else (mkD (with_edge (ts d) (set (dveval k en) (mkset (dx_tail (de_x en))) (h_edge (ts d))))
            (with_edge (hs d) (set (dveval k en) (mkset (dx_head (de_x en))) (h_edge (hs d)))), Ok).
Proof. reflexivity. Qed.
Lemma dexec_attrupdateitem t k en d : dexec (DAttrUpdateItem t k) en d =
  match get (dveval k en) (atab t (ts d)) with
  | Some a => (mkD (set_atab t (ts d) (set (dveval k en) (aupdate a (dx_eattr (de_x en))) (atab t (ts d)))) (hs d), Ok)
  | None => (d, Raised IDNotFound)
  end.
Proof. reflexivity. Qed.

(* adding the members again to a set that already holds them changes nothing *)
Lemma fold_sadd_absorb : forall xs acc, (forall x, In x xs -> In x acc) -> fold_left (fun a x => sadd x a) xs acc = acc.
Proof.
  induction xs as [|x xs IH]; intros acc H; [reflexivity|]. cbn [fold_left].
  assert (E : sadd x acc = acc).
  { unfold sadd. assert (M : mem x acc = true) by (apply mem_In; apply H; left; reflexivity). rewrite M. reflexivity. }
  rewrite E. apply IH. intros y Hy. apply H. right. exact Hy.
Qed.
Lemma fold_attach_prefilled e ms s :
  fold_left (attach e) ms (with_edge s (set e (mkset ms) (h_edge s))) =
  fold_left (attach e) ms (with_edge s (set e [] (h_edge s))).
Proof.
  rewrite (fold_attach_split e ms (with_edge s (set e (mkset ms) (h_edge s))) (mkset ms)) by (cbn [h_edge with_edge]; apply get_set_same).
  rewrite (fold_attach_split e ms (with_edge s (set e [] (h_edge s))) []) by (cbn [h_edge with_edge]; apply get_set_same).
  rewrite !fold_nstep_with_edge. cbn [h_edge with_edge]. rewrite !with_edge_with_edge, !set_set_same.
  rewrite (fold_sadd_absorb ms (mkset ms)) by (intros x Hx; apply In_mkset; exact Hx). reflexivity.
Qed.

Lemma d_bulk_body_ok (explicit : bool) u tl hd a ea d0 :
  is_none u = false -> has_none tl = false -> has_none hd = false ->
  (forall y, has y (h_node (hs d0)) = has y (h_node (ts d0))) -> NoDup (map fst a) ->
  dexec_list dsrc_bulk_item (mkDEnv [] [explicit] DirInvalid a [] LNone LNone SdIn SdOut ([], []) (mkDExt tl hd (Some u) LNone ea)) d0 =
  (d_insert_edge explicit u tl hd (aupdate a ea) d0, Ok).
Proof.
  intros Nu Nt Nh Hag NDa. unfold dsrc_bulk_item.
  set (en := mkDEnv [] [explicit] DirInvalid a [] LNone LNone SdIn SdOut ([], []) (mkDExt tl hd (Some u) LNone ea)).
  assert (Htl : forall x, In x tl -> is_none x = false).
  { intros x Hx. destruct (is_none x) eqn:E; [|reflexivity]. exfalso.
    assert (has_none tl = true) by (apply existsb_exists; exists x; split; assumption). congruence. }
  assert (Hhd : forall x, In x hd -> is_none x = false).
  { intros x Hx. destruct (is_none x) eqn:E; [|reflexivity]. exfalso.
    assert (has_none hd = true) by (apply existsb_exists; exists x; split; assumption). congruence. }
  rewrite dexec_list_cons, dexec_setpair. change (dveval VIdx en) with u. rewrite Nu.
  change (dx_tail (de_x en)) with tl. change (dx_head (de_x en)) with hd.
  set (t1 := with_edge (ts d0) (set u (mkset tl) (h_edge (ts d0)))). set (h1 := with_edge (hs d0) (set u (mkset hd) (h_edge (hs d0)))).
  rewrite dexec_list_cons, dexec_fortail. change (dx_tail (de_x en)) with tl.
  rewrite (tail_loop_ok VIdx u en (fun x => eq_refl) (fun x => eq_refl) tl (mkD t1 h1) Htl).
  2:{ unfold t1, has. cbn [ts h_edge with_edge]. rewrite get_set_same. reflexivity. }
  2:{ intro y. exact (Hag y). }
  cbn [ts hs].
  set (t2 := fold_left (attach u) tl t1). set (h2 := ensure_nodes tl h1).
  rewrite dexec_list_cons, dexec_forhead. change (dx_head (de_x en)) with hd.
  rewrite (head_loop_ok VIdx u en (fun x => eq_refl) (fun x => eq_refl) hd (mkD t2 h2) Hhd).
  2:{ cbn [ts]. unfold t2. apply fold_attach_has_edge'. unfold t1, has. cbn [h_edge with_edge]. rewrite get_set_same. reflexivity. }
  2:{ intro y. cbn [ts hs]. unfold t2, h2. rewrite ensure_nodes_has, fold_attach_has. unfold t1, h1. cbn [h_node with_edge]. rewrite Hag. reflexivity. }
  cbn [ts hs].
  set (t3 := ensure_nodes hd t2). set (h3 := fold_left (attach u) hd h2).
  rewrite dexec_list_cons, dexec_newattr. change (dveval VIdx en) with u. rewrite Nu. cbn [atab set_atab ts hs].
  rewrite dexec_list_cons, dexec_attrupdate. change (dveval VIdx en) with u. cbn [atab set_atab ts hs h_eattr with_eattr de_attr].
  rewrite get_set_same, set_set_same.
  rewrite dexec_list_cons, dexec_attrupdateitem. change (dveval VIdx en) with u. cbn [atab set_atab ts hs h_eattr with_eattr].
  rewrite get_set_same, set_set_same. change (de_attr en) with a. change (dx_eattr (de_x en)) with ea.
  assert (Ea : aupdate (aupdate [] a) ea = aupdate [] (aupdate a ea)).
  { rewrite (aupdate_nil_id a NDa). symmetry. apply aupdate_nil_id. apply aupdate_keys_nodup. exact NDa. }
  rewrite Ea.
  rewrite dexec_list_cons, dexec_if. cbn [dbeval]. change (nth 0 (de_flags en) false) with explicit.
  (* the model's state, brought to the same shape *)
  assert (Ets : ensure_nodes hd (insert_edge u tl (aupdate a ea) (ts d0)) = with_eattr t3 (set u (aupdate [] (aupdate a ea)) (h_eattr t3))).
  { unfold insert_edge. rewrite <- fold_attach_prefilled. fold t1. fold t2. rewrite ensure_nodes_with_eattr. fold t3. unfold t3.
    rewrite ensure_nodes_h_eattr. reflexivity. }
  assert (Ehs : insert_edge u hd [] (ensure_nodes tl (hs d0)) = with_eattr h3 (set u [] (h_eattr h3))).
  { unfold insert_edge. rewrite <- fold_attach_prefilled. rewrite ensure_nodes_h_edge.
    assert (X : with_edge (ensure_nodes tl (hs d0)) (set u (mkset hd) (h_edge (hs d0))) = h2) by (unfold h2, h1; rewrite ensure_nodes_with_edge; reflexivity).
    rewrite X. fold h3. reflexivity. }
  unfold d_insert_edge. destruct explicit.
  - rewrite dexec_list_cons, dexec_uid, !dexec_list_nil. change (dveval VIdx en) with u. unfold both. cbn [ts hs].
    rewrite ensure_nodes_bump, Ets, Ehs. reflexivity.
  - rewrite !dexec_list_nil. rewrite Ets, Ehs. reflexivity.
Qed.

Theorem d_bulk_item_is_source explicit a tl hd idx ea d : DInv d -> NoDup (map fst a) ->
  run_dbulk_item dsrc_bulk_item_guards dsrc_bulk_item explicit a tl hd idx ea d = d_bulk_item explicit a d tl hd idx ea.
Proof.
  intros (I1 & I2 & Ag) NDa. unfold run_dbulk_item, dsrc_bulk_item_guards, d_bulk_item.
  cbn [run_dguards dbeval de_x dx_idx dx_tail dx_head tab]. fold (has_none tl). fold (has_none hd).
  destruct (has idx (h_edge (ts d))) eqn:Hh; [reflexivity|].
  destruct (has_none tl) eqn:Nt; [reflexivity|]. destruct (has_none hd) eqn:Nh; [reflexivity|]. cbn [orb].
  destruct (is_none idx) eqn:Ni.
  - unfold dsrc_bulk_item. rewrite dexec_list_cons, dexec_setpair. cbn [dveval de_x dx_idx]. rewrite Ni. reflexivity.
  - rewrite (d_bulk_body_ok explicit idx tl hd a ea d Ni Nt Nh (fun y => agree_has_node d y Ag) NDa). reflexivity.
Qed.

(* the four formats, with the dispatch table read from the source *)
Theorem d_add_edges_from_items_is_source a d : NoDup (map fst a) -> DInv d ->
  (forall l, run_dbulk dsrc_bulk_formats 0 dsrc_bulk_item_guards dsrc_bulk_item a (map (fun m => (fst m, snd m, LNone, [])) l) d = d_add_edges_from (DB1 l) a d) /\
  (forall l, run_dbulk dsrc_bulk_formats 1 dsrc_bulk_item_guards dsrc_bulk_item a (map (fun m => (fst (fst m), snd (fst m), snd m, [])) l) d = d_add_edges_from (DB2 l) a d) /\
  (forall l, run_dbulk dsrc_bulk_formats 2 dsrc_bulk_item_guards dsrc_bulk_item a (map (fun m => (fst (fst m), snd (fst m), LNone, snd m)) l) d = d_add_edges_from (DB3 l) a d) /\
  (forall l, run_dbulk dsrc_bulk_formats 3 dsrc_bulk_item_guards dsrc_bulk_item a l d = d_add_edges_from (DB4 l) a d).
Proof.
  intros NDa.
  (* two loops that agree on every state with the invariant agree, because each item keeps the invariant *)
  assert (L : forall A (f g : dhg -> A -> dres) (l : list A), (forall d1 x, DInv d1 -> f d1 x = g d1 x) ->
              (forall d1 x, DInv d1 -> DInv (dst_of (g d1 x))) -> forall d0, DInv d0 -> dloop f l d0 = dloop g l d0).
  { intros A f g l Hfg Hinv. induction l as [|x l IH]; intros d0 I0; [reflexivity|]. cbn [dloop]. rewrite (Hfg d0 x I0).
    pose proof (Hinv d0 x I0) as I1. destruct (g d0 x) as [[d1 o] w]. unfold dst_of in I1. cbn [fst] in I1.
    destruct o; [rewrite (IH d1 I1)|]; reflexivity. }
  assert (M : forall A B (h : A -> B) (f : dhg -> B -> dres) (l : list A) d0, dloop f (map h l) d0 = dloop (fun d x => f d (h x)) l d0).
  { intros A B h f l. induction l as [|x l IH]; intro d0; [reflexivity|]. cbn [map dloop].
    destruct (f d0 (h x)) as [[d1 o] w]. destruct o; [rewrite IH|]; reflexivity. }
  intro I. unfold run_dbulk, dsrc_bulk_formats, d_add_edges_from. cbn [nth]. repeat split; intro l.
  - rewrite M. apply L; [| |exact I].
    + intros d1 [tl hd] I1. cbn [fst snd]. apply d_bulk_item_is_source; [apply DInv_next; exact I1|exact NDa].
    + intros d1 [tl hd] I1. apply DInv_bulk_auto. exact I1.
  - rewrite M. apply L; [| |exact I].
    + intros d1 [[tl hd] i] I1. cbn [fst snd]. apply d_bulk_item_is_source; assumption.
    + intros d1 [[tl hd] i] I1. apply DInv_bulk_explicit. exact I1.
  - rewrite M. apply L; [| |exact I].
    + intros d1 [[tl hd] ea] I1. cbn [fst snd]. apply d_bulk_item_is_source; [apply DInv_next; exact I1|exact NDa].
    + intros d1 [[tl hd] ea] I1. apply DInv_bulk_auto. exact I1.
  - apply L; [| |exact I].
    + intros d1 [[[tl hd] i] ea] I1. apply d_bulk_item_is_source; assumption.
    + intros d1 [[[tl hd] i] ea] I1. apply DInv_bulk_explicit. exact I1.
Qed.

(* ---------- add_edges_from, the dict format: the item ---------- *)
Lemma has_nstep_node e y x s : has y (h_node (nstep e s x)) = lbl_eqb y x || has y (h_node s).
Proof.
  unfold nstep, node_add. cbn [h_node with_node]. unfold has at 1. rewrite get_set.
  destruct (lbl_eqb y x) eqn:E; [reflexivity|]. fold (has y (h_node (ensure_node x s))). rewrite has_ensure_node, E. reflexivity.
Qed.

Lemma member_nstep k e x (tside : bool) en d :
  is_none x = false -> has x (h_node (hs d)) = has x (h_node (ts d)) ->
  dveval VLoop en = x -> dveval k en = e ->
  dexec_list [DIf (DNot (DIn VLoop TNode)) [DNewPair TNode VLoop; DNewAttr TNode VLoop] [];
              DAdd TNode VLoop (SConst (if tside then SdOut else SdIn)) k] en d
  = ((if tside then mkD (nstep e (ts d) x) (ensure_node x (hs d)) else mkD (ensure_node x (ts d)) (nstep e (hs d) x)), Ok).
Proof.
  intros Nx Hag Vl Vu.
  assert (Step1 : dexec (DIf (DNot (DIn VLoop TNode)) [DNewPair TNode VLoop; DNewAttr TNode VLoop] []) en d = (both (ensure_node x) d, Ok)).
  { rewrite dexec_if. cbn [dbeval tab]. rewrite Vl. unfold both, ensure_node. rewrite Hag.
    destruct (has x (h_node (ts d))) eqn:Hx; cbn [negb].
    - rewrite dexec_list_nil. destruct d; reflexivity.
    - rewrite dexec_list_cons, dexec_newpair, Vl, Nx. rewrite dexec_list_cons, dexec_newattr, Vl, Nx. rewrite dexec_list_nil. reflexivity. }
  rewrite dexec_list_cons, Step1.
  set (d1 := both (ensure_node x) d).
  assert (H1 : has x (h_node (ts d1)) = true) by (unfold d1, both; cbn [ts]; rewrite has_ensure_node, lbl_eqb_refl; reflexivity).
  rewrite dexec_list_cons, dexec_add. cbn [tab seval]. rewrite Vl, Vu, H1, dexec_list_nil.
  destruct tside; cbn [set_dtab dtab tail_side tab set_tab ts hs];
    unfold d1, both, nstep, node_add; cbn [ts hs h_node with_node]; reflexivity.
Qed.

Lemma tail_nstep_loop_ok k e en : (forall x, dveval VLoop (dwith_loop en x) = x) -> (forall x, dveval k (dwith_loop en x) = e) ->
  forall xs d, (forall x, In x xs -> is_none x = false) -> (forall y, has y (h_node (hs d)) = has y (h_node (ts d))) ->
  diter [DIf (DNot (DIn VLoop TNode)) [DNewPair TNode VLoop; DNewAttr TNode VLoop] []; DAdd TNode VLoop (SConst SdOut) k] en xs d
  = (mkD (fold_left (nstep e) xs (ts d)) (ensure_nodes xs (hs d)), Ok).
Proof.
  intros Vl Vu. induction xs as [|x xs IH]; intros d Hn Hag; [destruct d; reflexivity|]. cbn [diter].
  rewrite (member_nstep k e x true (dwith_loop en x) d (Hn x (or_introl eq_refl)) (Hag x) (Vl x) (Vu x)).
  rewrite IH; [reflexivity| |].
  - intros y Hy. apply Hn. right. exact Hy.
  - intro y. cbn [ts hs]. rewrite has_ensure_node, has_nstep_node, Hag. reflexivity.
Qed.
Lemma head_nstep_loop_ok k e en : (forall x, dveval VLoop (dwith_loop en x) = x) -> (forall x, dveval k (dwith_loop en x) = e) ->
  forall xs d, (forall x, In x xs -> is_none x = false) -> (forall y, has y (h_node (hs d)) = has y (h_node (ts d))) ->
  diter [DIf (DNot (DIn VLoop TNode)) [DNewPair TNode VLoop; DNewAttr TNode VLoop] []; DAdd TNode VLoop (SConst SdIn) k] en xs d
  = (mkD (ensure_nodes xs (ts d)) (fold_left (nstep e) xs (hs d)), Ok).
Proof.
  intros Vl Vu. induction xs as [|x xs IH]; intros d Hn Hag; [destruct d; reflexivity|]. cbn [diter].
  rewrite (member_nstep k e x false (dwith_loop en x) d (Hn x (or_introl eq_refl)) (Hag x) (Vl x) (Vu x)).
  rewrite IH; [reflexivity| |].
  - intros y Hy. apply Hn. right. exact Hy.
  - intro y. cbn [ts hs]. rewrite has_ensure_node, has_nstep_node, Hag. reflexivity.
Qed.

Lemma fold_nstep_has e y : forall xs s, has y (h_node (fold_left (nstep e) xs s)) = mem y xs || has y (h_node s).
Proof.
  induction xs as [|x xs IH]; intro s; [reflexivity|]. cbn [fold_left mem]. rewrite IH, has_nstep_node.
  destruct (lbl_eqb y x), (mem y xs); reflexivity.
Qed.
Lemma nstep_with_eattr e x s v : nstep e (with_eattr s v) x = with_eattr (nstep e s x) v.
Proof. unfold nstep, node_add, ensure_node. cbn [h_node with_eattr]. destruct (has x (h_node s)); reflexivity. Qed.
Lemma fold_nstep_with_eattr e v : forall xs s, fold_left (nstep e) xs (with_eattr s v) = with_eattr (fold_left (nstep e) xs s) v.
Proof. induction xs as [|x xs IH]; intro s; [reflexivity|]. cbn [fold_left]. rewrite nstep_with_eattr. apply IH. Qed.

Lemma d_dict_body_ok u tl hd d0 :
  is_none u = false -> has_none tl = false -> has_none hd = false ->
  (forall y, has y (h_node (hs d0)) = has y (h_node (ts d0))) ->
  dexec_list dsrc_dict_item (mkDEnv [] [true] DirInvalid [] [] LNone LNone SdIn SdOut ([], []) (mkDExt tl hd (Some u) LNone [])) d0 =
  (d_insert_edge true u tl hd [] d0, Ok).
Proof.
  intros Nu Nt Nh Hag. unfold dsrc_dict_item.
  set (en := mkDEnv [] [true] DirInvalid [] [] LNone LNone SdIn SdOut ([], []) (mkDExt tl hd (Some u) LNone [])).
  assert (Htl : forall x, In x tl -> is_none x = false).
  { intros x Hx. destruct (is_none x) eqn:E; [|reflexivity]. exfalso.
    assert (has_none tl = true) by (apply existsb_exists; exists x; split; assumption). congruence. }
  assert (Hhd : forall x, In x hd -> is_none x = false).
  { intros x Hx. destruct (is_none x) eqn:E; [|reflexivity]. exfalso.
    assert (has_none hd = true) by (apply existsb_exists; exists x; split; assumption). congruence. }
  rewrite dexec_list_cons, dexec_setpair. change (dveval VIdx en) with u. rewrite Nu.
  change (dx_tail (de_x en)) with tl. change (dx_head (de_x en)) with hd.
  set (t1 := with_edge (ts d0) (set u (mkset tl) (h_edge (ts d0)))). set (h1 := with_edge (hs d0) (set u (mkset hd) (h_edge (hs d0)))).
  rewrite dexec_list_cons, dexec_fortail. change (dx_tail (de_x en)) with tl.
  rewrite (tail_nstep_loop_ok VIdx u en (fun x => eq_refl) (fun x => eq_refl) tl (mkD t1 h1) Htl) by (intro y; exact (Hag y)).
  cbn [ts hs].
  set (t2 := fold_left (nstep u) tl t1). set (h2 := ensure_nodes tl h1).
  rewrite dexec_list_cons, dexec_newattr. change (dveval VIdx en) with u. rewrite Nu. cbn [atab set_atab ts hs].
  rewrite dexec_list_cons, dexec_forhead. change (dx_head (de_x en)) with hd.
  rewrite (head_nstep_loop_ok VIdx u en (fun x => eq_refl) (fun x => eq_refl) hd _ Hhd).
  2:{ intro y. cbn [ts hs h_node with_eattr]. unfold t2, h2. rewrite ensure_nodes_has, fold_nstep_has. unfold t1, h1. cbn [h_node with_edge]. rewrite Hag. reflexivity. }
  cbn [ts hs].
  rewrite dexec_list_cons, dexec_uid, !dexec_list_nil. change (dveval VIdx en) with u. unfold both. cbn [ts hs].
  unfold d_insert_edge. rewrite !insert_edge_as_nstep'. f_equal. f_equal.
  - (* tail side *)
    rewrite ensure_nodes_bump. f_equal. f_equal.
    unfold t2, t1. rewrite fold_nstep_with_edge, h_eattr_with_edge, fold_nstep_h_eattr. reflexivity.
  - (* head side *)
    f_equal. rewrite fold_nstep_with_eattr. unfold h2, h1.
    rewrite ensure_nodes_with_edge, fold_nstep_with_edge, h_eattr_with_edge, ensure_nodes_h_edge. reflexivity.
Qed.

Theorem d_add_edges_from_dict_is_source a : forall l d, DInv d ->
  run_ditems dsrc_dict_item_guards dsrc_dict_item l d = d_add_edges_from (DB5 l) a d.
Proof.
  unfold run_ditems, d_add_edges_from.
  induction l as [|[idx [tl hd]] l IH]; intros d I; [reflexivity|]. cbn [dloop fst snd].
  assert (Item : run_dbulk_item dsrc_dict_item_guards dsrc_dict_item true [] tl hd idx [] d =
                 (if has idx (h_edge (ts d)) then dwarn1 d
                  else if has_none tl || has_none hd then draise d XGIError
                  else if is_none idx then draise d XGIError
                  else dok (d_insert_edge true idx tl hd [] d))).
  { destruct I as (I1 & I2 & Ag). unfold run_dbulk_item, dsrc_dict_item_guards.
    cbn [run_dguards dbeval de_x dx_idx dx_tail dx_head tab]. fold (has_none tl). fold (has_none hd).
    destruct (has idx (h_edge (ts d))) eqn:Hh; [reflexivity|].
    destruct (has_none tl) eqn:Nt; [reflexivity|]. destruct (has_none hd) eqn:Nh; [reflexivity|]. cbn [orb].
    destruct (is_none idx) eqn:Ni.
    - unfold dsrc_dict_item. rewrite dexec_list_cons, dexec_setpair. cbn [dveval de_x dx_idx]. rewrite Ni. reflexivity.
    - rewrite (d_dict_body_ok idx tl hd d Ni Nt Nh (fun y => agree_has_node d y Ag)). reflexivity. }
  rewrite Item.
  assert (I' : DInv (dst_of (if has idx (h_edge (ts d)) then dwarn1 d
                  else if has_none tl || has_none hd then draise d XGIError
                  else if is_none idx then draise d XGIError
                  else dok (d_insert_edge true idx tl hd [] d)))).
  { destruct (has idx (h_edge (ts d))) eqn:Hh; [exact I|]. destruct (has_none tl || has_none hd); [exact I|].
    destruct (is_none idx); [exact I|]. unfold dst_of, dok. cbn [fst]. apply DInv_insert_explicit; [|exact I].
    apply has_false_nin. exact Hh. }
  destruct (if has idx (h_edge (ts d)) then dwarn1 d else _) as [[d1 o1] w1]. unfold dst_of in I'. cbn [fst] in I'.
  destruct o1 as [|x]; [|reflexivity]. rewrite (IH d1 I'). reflexivity.
Qed.

(* ---------- remove_node(n, strong, remove_empty) ---------- *)
Lemma dexec_bindnoderef k body en d :
  dexec (DBindNodeRef k body) en d =
  match get (dveval k en) (h_node (ts d)) with
  | None => (d, Raised IDNotFound)
  | Some outs => dexec_list body (dwith_local en (getl (dveval k en) (h_node (hs d)), outs)) d
  end.
Proof. cbn [dexec]. destruct (get (dveval k en) (h_node (ts d))); [cbv zeta; apply go_is_list|reflexivity]. Qed.
Lemma dexec_forlocalminus sd v body en d :
  dexec (DForLocalMinus sd v body) en d =
  diter body en (sremove (dveval v en) (match sd with SdIn => fst (de_local en) | SdOut => snd (de_local en) end)) d.
Proof. cbn [dexec]. apply it_is_diter. Qed.
Lemma dexec_forlocalunion body en d :
  dexec (DForLocalUnion body) en d = diter body en (sunion (fst (de_local en)) (snd (de_local en))) d.
Proof. cbn [dexec]. apply it_is_diter. Qed.

(* which half of the state holds self._edge[.][sd] *)
Definition ehalf (sd : side) (d : dhg) : hg := if tail_side TEdge sd then ts d else hs d.
Definition on_ehalf (sd : side) (f : hg -> hg) (d : dhg) : dhg :=
  if tail_side TEdge sd then mkD (f (ts d)) (hs d) else mkD (ts d) (f (hs d)).

(* the weak branch: remove n from the listed edges on one side *)
Lemma diter_edge_remove_ok n sd k en : (forall x, dveval k (dwith_loop en x) = n) -> forall xs d, NoDup xs ->
  (forall e, In e xs -> has e (h_edge (ts d)) = true /\ exists m, get e (h_edge (ehalf sd d)) = Some m /\ mem n m = true) ->
  diter [DRemove TEdge VLoop (SConst sd) k] en xs d = (on_ehalf sd (fun s => fold_left (fun s e => edge_rem e n s) xs s) d, Ok).
Proof.
  intro Hk. induction xs as [|x xs IH]; intros d ND H; [destruct d, sd; reflexivity|]. cbn [diter].
  inversion ND as [|? ? Hx ND']; subst. destruct (H x (or_introl eq_refl)) as (Hh & m & Gm & Mn).
  rewrite dexec_list_cons, dexec_remove. rewrite Hk. cbn [dveval dwith_loop de_loop seval tab]. rewrite Hh.
  assert (Eg : getl x (dtab TEdge sd d) = m) by (unfold getl, dtab, ehalf in *; destruct sd; cbn [tail_side tab] in *; rewrite Gm; reflexivity).
  rewrite Eg, Mn, dexec_list_nil.
  assert (E : set_dtab TEdge sd d (set x (sremove n m) (dtab TEdge sd d)) = on_ehalf sd (edge_rem x n) d).
  { unfold set_dtab, on_ehalf, dtab, ehalf in *. destruct sd; cbn [tail_side tab set_tab] in *; unfold edge_rem, has, getl; rewrite Gm; reflexivity. }
  rewrite E. rewrite IH; [|exact ND'|].
  - unfold on_ehalf. destruct sd; cbn [tail_side ts hs fold_left]; reflexivity.
  - intros y Hy. destruct (H y (or_intror Hy)) as (Hhy & my & Gy & My).
    assert (Nyx : y <> x) by (intro; subst; contradiction).
    assert (Rem : forall s, has y (h_edge s) = true -> has y (h_edge (edge_rem x n s)) = true).
    { intros s Hs. unfold edge_rem. destruct (has x (h_edge s)); [|exact Hs]. cbn [h_edge with_edge]. apply has_set_keep. exact Hs. }
    assert (Get : forall s lz, get y (h_edge s) = Some lz -> get y (h_edge (edge_rem x n s)) = Some lz).
    { intros s lz Gs. unfold edge_rem. destruct (has x (h_edge s)); [|exact Gs]. cbn [h_edge with_edge]. rewrite get_set_other by exact Nyx. exact Gs. }
    unfold on_ehalf, ehalf in *. destruct sd; cbn [tail_side ts hs] in *.
    + split; [apply Rem; exact Hhy|]. exists my. split; [apply Get; exact Gy|exact My].
    + split; [exact Hhy|]. exists my. split; [apply Get; exact Gy|exact My].
Qed.

(* the last loop of the weak branch: delete the listed edges that are now empty on both sides *)
Lemma diter_drop_empty_ok re en : nth 1 (de_flags en) false = re ->
  forall xs d, NoDup xs -> (forall e, In e xs -> has e (h_edge (ts d)) = true /\ has e (h_eattr (ts d)) = true) ->
  diter [DIf (DAnd (DEmpty VLoop TEdge (SConst SdIn)) (DAnd (DEmpty VLoop TEdge (SConst SdOut)) (DFlag 1)))
           [DDel TEdge VLoop; DDelAttr TEdge VLoop] []] en xs d = (fold_left (d_drop_if_empty re) xs d, Ok).
Proof.
  intro Hre. induction xs as [|x xs IH]; intros d ND H; [reflexivity|]. cbn [diter fold_left].
  apply NoDup_cons_iff in ND. destruct ND as [Hx ND']. destruct (H x (or_introl eq_refl)) as (Hh & Ha).
  assert (Step : dexec_list [DIf (DAnd (DEmpty VLoop TEdge (SConst SdIn)) (DAnd (DEmpty VLoop TEdge (SConst SdOut)) (DFlag 1)))
                               [DDel TEdge VLoop; DDelAttr TEdge VLoop] []] (dwith_loop en x) d = (d_drop_if_empty re d x, Ok)).
  { rewrite dexec_list_cons, dexec_if. cbn [dbeval seval dveval dwith_loop de_loop de_flags tab dtab tail_side]. rewrite Hh, Hre.
    unfold d_drop_if_empty, tail, head, is_nil. rewrite Hh.
    destruct (getl x (h_edge (ts d))) as [|a1 r1]; cbn [andb]; [|rewrite !dexec_list_nil; reflexivity].
    destruct (getl x (h_edge (hs d))) as [|a2 r2]; cbn [andb]; [|rewrite !dexec_list_nil; reflexivity].
    destruct re; cbn [andb]; [|rewrite !dexec_list_nil; reflexivity].
    rewrite dexec_list_cons, dexec_del. cbn [dveval dwith_loop de_loop tab]. rewrite Hh.
    rewrite dexec_list_cons, dexec_delattr. cbn [dveval dwith_loop de_loop atab set_tab ts hs h_eattr with_edge]. rewrite Ha.
    rewrite !dexec_list_nil. reflexivity. }
  rewrite Step. apply IH; [exact ND'|].
  intros y Hy. destruct (H y (or_intror Hy)) as (Hhy & Hay). assert (Nyx : y <> x) by (intro; subst; contradiction).
  unfold d_drop_if_empty. destruct (is_nil (tail d x) && is_nil (head d x) && re && has x (h_edge (ts d))); [|split; assumption].
  unfold both, drop_edge, has. cbn [ts h_edge h_eattr with_edge with_eattr]. rewrite !get_del_other by exact Nyx. split; assumption.
Qed.

(* --- the strong branch: deleting the node first and skipping it afterwards (the code) is the same as unlinking the edges
       completely and deleting the node last (the model) - an identity on the tables, no invariant needed --- *)
Lemma del_set_other {V} k x (v : V) d : x <> k -> del k (set x v d) = set x v (del k d).
Proof.
  intro N. induction d as [|[k' v'] r IH]; cbn [set del].
  - destruct (lbl_eqb_spec k x) as [E|_]; [exfalso; apply N; symmetry; exact E|reflexivity].
  - destruct (lbl_eqb_spec x k') as [->|Nx]; cbn [del].
    + destruct (lbl_eqb_spec k k') as [E|_]; [exfalso; apply N; symmetry; exact E|]. cbn [set]. rewrite lbl_eqb_refl. reflexivity.
    + destruct (lbl_eqb_spec k k') as [->|Nk]; [exact IH|]. cbn [set]. destruct (lbl_eqb_spec x k'); [contradiction|]. rewrite IH. reflexivity.
Qed.
Lemma del_set_same {V} k (v : V) d : del k (set k v d) = del k d.
Proof.
  induction d as [|[k' v'] r IH]; cbn [set del]; [rewrite lbl_eqb_refl; reflexivity|].
  destruct (lbl_eqb_spec k k') as [->|N]; cbn [del]; [rewrite lbl_eqb_refl; reflexivity|].
  destruct (lbl_eqb_spec k k'); [contradiction|]. rewrite IH. reflexivity.
Qed.

Lemma drop_node_node_rem_same n e s : drop_node n (node_rem n e s) = drop_node n s.
Proof.
  unfold node_rem. destruct (has n (h_node s)); [|reflexivity]. unfold drop_node. cbn [h_node h_nattr with_node]. rewrite del_set_same. reflexivity.
Qed.
Lemma drop_node_node_rem_other n x e s : x <> n -> drop_node n (node_rem x e s) = node_rem x e (drop_node n s).
Proof.
  intro N. unfold node_rem, drop_node. cbn [h_node h_nattr with_node with_nattr].
  assert (Hh : has x (del n (h_node s)) = has x (h_node s)) by (unfold has; rewrite get_del_other by exact N; reflexivity).
  assert (Hg : getl x (del n (h_node s)) = getl x (h_node s)) by (unfold getl; rewrite get_del_other by exact N; reflexivity).
  rewrite Hh, Hg. destruct (has x (h_node s)); [|reflexivity]. cbn [h_node h_nattr with_node with_nattr]. rewrite del_set_other by exact N. reflexivity.
Qed.
Lemma drop_node_fold_node_rem n e : forall ms s,
  drop_node n (fold_left (fun s x => node_rem x e s) ms s) = fold_left (fun s x => node_rem x e s) (sremove n ms) (drop_node n s).
Proof.
  induction ms as [|x ms IH]; intro s; [reflexivity|]. cbn [fold_left sremove]. rewrite IH.
  destruct (lbl_eqb_spec n x) as [<-|N].
  - rewrite drop_node_node_rem_same. reflexivity.
  - cbn [fold_left]. rewrite drop_node_node_rem_other by (intro X; apply N; symmetry; exact X). reflexivity.
Qed.
Lemma node_rem_drop_edge x e' e s : node_rem x e' (drop_edge e s) = drop_edge e (node_rem x e' s).
Proof. unfold node_rem, drop_edge. cbn [h_node with_edge with_eattr]. destruct (has x (h_node s)); reflexivity. Qed.
Lemma fold_node_rem_drop_edge e' e : forall ms s,
  fold_left (fun s x => node_rem x e' s) ms (drop_edge e s) = drop_edge e (fold_left (fun s x => node_rem x e' s) ms s).
Proof. induction ms as [|x ms IH]; intro s; [reflexivity|]. cbn [fold_left]. rewrite node_rem_drop_edge. apply IH. Qed.

(* one edge, as the code treats it once the node is gone *)
Definition stepB (n e : lbl) (s : hg) : hg :=
  match get e (h_edge s) with
  | None => s
  | Some ms => fold_left (fun s x => node_rem x e s) (sremove n ms) (drop_edge e s)
  end.
Lemma drop_node_remove_edge1 n e s : drop_node n (st_of (remove_edge1 e s)) = stepB n e (drop_node n s).
Proof.
  unfold remove_edge1, stepB. change (h_edge (drop_node n s)) with (h_edge s).
  destruct (get e (h_edge s)) as [ms|]; [|reflexivity]. unfold st_of, ok. cbn [fst].
  rewrite fold_node_rem_drop_edge. rewrite <- drop_node_fold_node_rem. reflexivity.
Qed.
Lemma drop_node_fold_remove n : forall es s,
  drop_node n (fold_left (fun s e => st_of (remove_edge1 e s)) es s) = fold_left (fun s e => stepB n e s) es (drop_node n s).
Proof. induction es as [|e es IH]; intro s; [reflexivity|]. cbn [fold_left]. rewrite IH, drop_node_remove_edge1. reflexivity. Qed.
Lemma fold_remove_raw_pair : forall es d,
  fold_left (fun d e => d_remove_edge_raw e d) es d =
  mkD (fold_left (fun s e => st_of (remove_edge1 e s)) es (ts d)) (fold_left (fun s e => st_of (remove_edge1 e s)) es (hs d)).
Proof. induction es as [|e es IH]; intro d; [destruct d; reflexivity|]. cbn [fold_left]. rewrite IH. reflexivity. Qed.

(* what the strong loop needs of the edges still to be processed *)
Definition StrongD (n : lbl) (d : dhg) (es : list lbl) : Prop :=
  forall e, In e es -> exists tl hd,
    get e (h_edge (ts d)) = Some tl /\ get e (h_edge (hs d)) = Some hd /\ has e (h_eattr (ts d)) = true /\ NoDup tl /\ NoDup hd /\
    (forall x, In x tl -> x <> n -> has x (h_node (ts d)) = true /\ exists l, get x (h_node (ts d)) = Some l /\ mem e l = true) /\
    (forall x, In x hd -> x <> n -> has x (h_node (ts d)) = true /\ exists l, get x (h_node (hs d)) = Some l /\ mem e l = true).

Lemma stepB_h_edge n e s : h_edge (stepB n e s) = match get e (h_edge s) with None => h_edge s | Some _ => del e (h_edge s) end.
Proof.
  unfold stepB. destruct (get e (h_edge s)) as [ms|]; [|reflexivity].
  destruct (fold_node_rem_tables e (sremove n ms) (drop_edge e s)) as [A _]. rewrite A. reflexivity.
Qed.
Lemma stepB_h_eattr n e s : h_eattr (stepB n e s) = match get e (h_edge s) with None => h_eattr s | Some _ => del e (h_eattr s) end.
Proof.
  unfold stepB. destruct (get e (h_edge s)) as [ms|]; [|reflexivity].
  destruct (fold_node_rem_tables e (sremove n ms) (drop_edge e s)) as [_ B]. rewrite B. reflexivity.
Qed.
Lemma fold_node_rem_keeps e e' x : e' <> e -> forall ys t,
  (exists l0, get x (h_node t) = Some l0 /\ mem e' l0 = true) ->
  exists l0, get x (h_node (fold_left (fun s m0 => node_rem m0 e s) ys t)) = Some l0 /\ mem e' l0 = true.
Proof.
  intro Ne. induction ys as [|y ys IHy]; intros t Ht; [exact Ht|]. cbn [fold_left]. apply IHy.
  destruct Ht as (l0 & G0 & M0). unfold node_rem. destruct (has y (h_node t)) eqn:Hy; [|exists l0; auto]. cbn [h_node with_node].
  destruct (lbl_eqb_spec x y) as [->|Nxy].
  - rewrite get_set_same. exists (sremove e (getl y (h_node t))). split; [reflexivity|].
    unfold getl. rewrite G0. apply mem_In. apply In_sremove. split; [exact Ne|apply mem_In; exact M0].
  - rewrite get_set_other by exact Nxy. exists l0. auto.
Qed.
Lemma stepB_node_keeps n e e' x s : e' <> e ->
  (exists l0, get x (h_node s) = Some l0 /\ mem e' l0 = true) -> exists l0, get x (h_node (stepB n e s)) = Some l0 /\ mem e' l0 = true.
Proof.
  intros Ne H. unfold stepB. destruct (get e (h_edge s)) as [ms|]; [|exact H].
  apply fold_node_rem_keeps; [exact Ne|]. exact H.
Qed.
Lemma stepB_has_node n e y s : has y (h_node s) = true -> has y (h_node (stepB n e s)) = true.
Proof. intro H. unfold stepB. destruct (get e (h_edge s)) as [ms|]; [|exact H]. apply fold_node_rem_has. exact H. Qed.

Definition strong_body : list dstmt :=
  [DBindEdgeCopy VLoop [DDel TEdge VLoop; DDelAttr TEdge VLoop;
                        DForLocalMinus SdIn (VArg 0) [DRemove TNode VLoop (SConst SdOut) VLoop1];
                        DForLocalMinus SdOut (VArg 0) [DRemove TNode VLoop (SConst SdIn) VLoop1]]].

Lemma strong_dloop_ok n en : (forall e p x, dveval VLoop1 (dwith_loop (dwith_local (dwith_loop en e) p) x) = e) ->
  (forall e p, dveval (VArg 0) (dwith_local (dwith_loop en e) p) = n) ->
  forall es d, NoDup es -> StrongD n d es ->
  diter strong_body en es d = (mkD (fold_left (fun s e => stepB n e s) es (ts d)) (fold_left (fun s e => stepB n e s) es (hs d)), Ok).
Proof.
  intros V1 V0. induction es as [|e es IH]; intros d ND Q; [destruct d; reflexivity|]. cbn [diter fold_left].
  apply NoDup_cons_iff in ND. destruct ND as [He ND'].
  destruct (Q e (or_introl eq_refl)) as (tl & hd & Gt & Gh & Ha & NDt & NDh & Ht & Hh).
  assert (Step : dexec_list strong_body (dwith_loop en e) d = (mkD (stepB n e (ts d)) (stepB n e (hs d)), Ok)).
  { unfold strong_body. rewrite dexec_list_cons, dexec_bindcopy. cbn [dveval dwith_loop de_loop]. rewrite Gt.
    assert (Eh : getl e (h_edge (hs d)) = hd) by (unfold getl; rewrite Gh; reflexivity). rewrite Eh.
    set (en1 := dwith_local (dwith_loop en e) (tl, hd)).
    assert (Ve : dveval VLoop en1 = e) by reflexivity.
    rewrite dexec_list_cons, dexec_del, Ve. cbn [tab].
    assert (Hht : has e (h_edge (ts d)) = true) by (unfold has; rewrite Gt; reflexivity). rewrite Hht. cbn [set_tab].
    rewrite dexec_list_cons, dexec_delattr, Ve. cbn [atab set_atab ts hs h_eattr with_edge]. rewrite Ha.
    set (d1 := mkD (drop_edge e (ts d)) (drop_edge e (hs d))).
    change (mkD (with_eattr (with_edge (ts d) (del e (h_edge (ts d)))) (del e (h_eattr (ts d))))
                (with_eattr (with_edge (hs d) (del e (h_edge (hs d)))) (del e (h_eattr (hs d))))) with d1.
    rewrite dexec_list_cons, dexec_forlocalminus. unfold en1 at 2 3. cbn [dwith_local de_local fst]. rewrite (V0 e (tl, hd)).
    rewrite (diter_remove_ok e SdOut VLoop1 en1 (V1 e (tl, hd)) (sremove n tl) d1).
    2:{ apply NoDup_sremove. exact NDt. }
    2:{ intros x Hx. apply In_sremove in Hx. destruct Hx as [Nx Hx]. destruct (Ht x Hx Nx) as (Hhx & l & Gl & Ml).
        split; [exact Hhx|]. exists l. split; [exact Gl|exact Ml]. }
    unfold on_half. cbn [tail_side ts hs d1].
    set (t1 := fold_left (fun s x => node_rem x e s) (sremove n tl) (drop_edge e (ts d))).
    rewrite dexec_list_cons, dexec_forlocalminus. unfold en1 at 2 3. cbn [dwith_local de_local snd]. rewrite (V0 e (tl, hd)).
    rewrite (diter_remove_ok e SdIn VLoop1 en1 (V1 e (tl, hd)) (sremove n hd) (mkD t1 (drop_edge e (hs d)))).
    2:{ apply NoDup_sremove. exact NDh. }
    2:{ intros x Hx. apply In_sremove in Hx. destruct Hx as [Nx Hx]. destruct (Hh x Hx Nx) as (Hhx & l & Gl & Ml).
        split; [cbn [ts]; unfold t1; apply fold_node_rem_has; exact Hhx|]. exists l. split; [exact Gl|exact Ml]. }
    unfold on_half. cbn [tail_side ts hs]. rewrite !dexec_list_nil.
    unfold stepB. rewrite Gt, Gh. reflexivity. }
  rewrite Step. rewrite IH; [reflexivity|exact ND'|].
  (* the invariant for the remaining edges *)
  intros e' He'. assert (Ne : e' <> e) by (intro; subst; contradiction).
  destruct (Q e' (or_intror He')) as (tl' & hd' & Gt' & Gh' & Ha' & NDt' & NDh' & Ht' & Hh').
  exists tl', hd'. cbn [ts hs].
  split; [rewrite stepB_h_edge, Gt; rewrite get_del_other by exact Ne; exact Gt'|].
  split; [rewrite stepB_h_edge, Gh; rewrite get_del_other by exact Ne; exact Gh'|].
  split; [rewrite stepB_h_eattr, Gt; unfold has; rewrite get_del_other by exact Ne; exact Ha'|].
  split; [exact NDt'|]. split; [exact NDh'|]. split.
  - intros x Hx Nx. destruct (Ht' x Hx Nx) as (Hhx & l & Gl & Ml). split; [apply stepB_has_node; exact Hhx|].
    apply stepB_node_keeps; [exact Ne|]. exists l. split; assumption.
  - intros x Hx Nx. destruct (Hh' x Hx Nx) as (Hhx & l & Gl & Ml). split; [apply stepB_has_node; exact Hhx|].
    apply stepB_node_keeps; [exact Ne|]. exists l. split; assumption.
Qed.

(* weak removal on one side, with remove_empty off, is: delete the node, take it out of its edges *)
Lemma weak_fold_plain n : forall es s0,
  fold_left (fun s e => let s' := edge_rem e n s in
                        if (match getl e (h_edge s') with [] => true | _ => false end) && false && has e (h_edge s')
                        then drop_edge e s' else s') es s0 =
  fold_left (fun s e => edge_rem e n s) es s0.
Proof.
  induction es as [|e es IH]; intro s0; [reflexivity|]. cbn [fold_left]. cbv zeta. rewrite andb_false_r. cbn [andb]. apply IH.
Qed.
Lemma remove_node_weak_plain n es s : get n (h_node s) = Some es ->
  st_of (remove_node n false false s) = fold_left (fun s e => edge_rem e n s) es (drop_node n s).
Proof. intro G. unfold remove_node. rewrite G. unfold st_of, ok. cbn [fst]. apply weak_fold_plain. Qed.

Theorem d_remove_node_is_source n strong re d : DInv d ->
  run_dmethod dsrc_remove_node [n] [strong; re] DirInvalid [] [] d = d_remove_node n strong re d.
Proof.
  intros (I1 & I2 & Ag). unfold run_dmethod, dsrc_remove_node, d_remove_node.
  set (en := mkDEnv [n] [strong; re] DirInvalid [] [] LNone LNone SdIn SdOut ([], []) dext0).
  rewrite dexec_list_cons, dexec_bindnoderef. change (dveval (VArg 0) en) with n.
  destruct (get n (h_node (ts d))) as [outs|] eqn:Gn; [|reflexivity].
  assert (Hn : has n (h_node (ts d)) = true) by (unfold has; rewrite Gn; reflexivity).
  pose proof (agree_has_node d n Ag) as Hn2. rewrite Hn in Hn2. unfold has in Hn2.
  destruct (get n (h_node (hs d))) as [ins|] eqn:Gn2; [|discriminate Hn2].
  assert (Eins : getl n (h_node (hs d)) = ins) by (unfold getl; rewrite Gn2; reflexivity). rewrite Eins.
  assert (Eim : in_mships d n = ins) by (unfold in_mships; exact Eins). rewrite Eim.
  set (en1 := dwith_local en (ins, outs)).
  destruct I1 as (W1a & (Kna1 & Kea1 & _ & _) & (Vn1 & Vm1) & _). destruct I2 as (W2a & (Kna2 & Kea2 & _ & _) & (Vn2 & Vm2) & _).
  (* del self._node[n]; del self._node_attr[n] *)
  rewrite dexec_list_cons, dexec_del. change (dveval (VArg 0) en1) with n. cbn [tab]. rewrite Hn. cbn [set_tab].
  rewrite dexec_list_cons, dexec_delattr. change (dveval (VArg 0) en1) with n. cbn [atab set_atab ts hs h_nattr with_node].
  assert (Hna : has n (h_nattr (ts d)) = true) by (apply has_In; rewrite Kna1; apply has_In; exact Hn). rewrite Hna.
  set (d0 := both (drop_node n) d).
  change (mkD (with_nattr (with_node (ts d) (del n (h_node (ts d)))) (del n (h_nattr (ts d))))
              (with_nattr (with_node (hs d) (del n (h_node (hs d)))) (del n (h_nattr (hs d))))) with d0.
  (* facts about the incident edges *)
  assert (NDo : NoDup outs) by (pose proof (Vn1 n) as V; unfold mships, getl in V; rewrite Gn in V; exact V).
  assert (NDi : NoDup ins) by (pose proof (Vn2 n) as V; unfold mships, getl in V; rewrite Gn2 in V; exact V).
  assert (NDu : NoDup (sunion ins outs)) by (apply NoDup_sunion; exact NDi).
  assert (OutE : forall e, In e outs -> exists m, get e (h_edge (ts d)) = Some m /\ In n m).
  { intros e He. assert (Hi : In n (mems (ts d) e)) by (apply W1a; unfold mships, getl; rewrite Gn; exact He).
    unfold mems, getl in Hi. destruct (get e (h_edge (ts d))) as [m|]; [|destruct Hi]. exists m. split; [reflexivity|exact Hi]. }
  assert (InE : forall e, In e ins -> exists m, get e (h_edge (hs d)) = Some m /\ In n m).
  { intros e He. assert (Hi : In n (mems (hs d) e)) by (apply W2a; unfold mships, getl; rewrite Gn2; exact He).
    unfold mems, getl in Hi. destruct (get e (h_edge (hs d))) as [m|]; [|destruct Hi]. exists m. split; [reflexivity|exact Hi]. }
  assert (UE : forall e, In e (sunion ins outs) -> has e (h_edge (ts d)) = true).
  { intros e He. apply In_sunion in He. destruct He as [He|He].
    - destruct (InE e He) as (m & Gm & _). rewrite <- (agree_has_edge d e Ag). unfold has. rewrite Gm. reflexivity.
    - destruct (OutE e He) as (m & Gm & _). unfold has. rewrite Gm. reflexivity. }
  rewrite dexec_list_cons, dexec_if. cbn [dbeval]. change (nth 0 (de_flags en1) false) with strong. destruct strong.
  - (* strong *)
    rewrite dexec_list_cons, dexec_forlocalunion. change (de_local en1) with (ins, outs). cbn [fst snd].
    change (diter _ en1 (sunion ins outs) d0) with (diter strong_body en1 (sunion ins outs) d0).
    rewrite (strong_dloop_ok n en1 (fun e p x => eq_refl) (fun e p => eq_refl) (sunion ins outs) d0 NDu).
    + rewrite !dexec_list_nil. unfold dok. f_equal. f_equal. rewrite fold_remove_raw_pair. unfold both, d0. cbn [ts hs].
      rewrite !drop_node_fold_remove. reflexivity.
    + (* the invariant at the start *)
      intros e He. pose proof (UE e He) as Hte. unfold has in Hte.
      destruct (get e (h_edge (ts d))) as [tl|] eqn:Gt; [|discriminate Hte].
      pose proof (agree_has_edge d e Ag) as Hhe. unfold has in Hhe. rewrite Gt in Hhe.
      destruct (get e (h_edge (hs d))) as [hd|] eqn:Gh; [|discriminate Hhe].
      exists tl, hd. unfold d0, both. cbn [ts hs h_edge h_eattr h_node drop_node with_node with_nattr].
      split; [exact Gt|]. split; [exact Gh|].
      split; [apply has_In; rewrite Kea1; apply (get_Some_In e (h_edge (ts d)) tl Gt)|].
      split; [pose proof (Vm1 e) as V; unfold mems, getl in V; rewrite Gt in V; exact V|].
      split; [pose proof (Vm2 e) as V; unfold mems, getl in V; rewrite Gh in V; exact V|]. split.
      * intros x Hx Nx. assert (Hi : In e (mships (ts d) x)) by (apply W1a; unfold mems, getl; rewrite Gt; exact Hx).
        unfold mships, getl in Hi. destruct (get x (h_node (ts d))) as [l|] eqn:Gx; [|destruct Hi].
        split; [unfold has; rewrite get_del_other by exact Nx; rewrite Gx; reflexivity|].
        exists l. split; [rewrite get_del_other by exact Nx; exact Gx|apply mem_In; exact Hi].
      * intros x Hx Nx. assert (Hi : In e (mships (hs d) x)) by (apply W2a; unfold mems, getl; rewrite Gh; exact Hx).
        unfold mships, getl in Hi. destruct (get x (h_node (hs d))) as [l|] eqn:Gx; [|destruct Hi].
        assert (Hxs : has x (h_node (ts d)) = true) by (rewrite <- (agree_has_node d x Ag); unfold has; rewrite Gx; reflexivity).
        split; [unfold has in *; rewrite get_del_other by exact Nx; exact Hxs|].
        exists l. split; [rewrite get_del_other by exact Nx; exact Gx|apply mem_In; exact Hi].
  - (* weak *)
    rewrite dexec_list_cons, dexec_forlocal. change (de_local en1) with (ins, outs). cbn [fst snd].
    rewrite (diter_edge_remove_ok n SdOut (VArg 0) en1 (fun x => eq_refl) ins d0 NDi).
    2:{ intros e He. split; [unfold d0, both; cbn [ts h_edge drop_node with_node with_nattr]; apply UE; apply In_sunion; left; exact He|].
        destruct (InE e He) as (m & Gm & Hm). exists m. unfold ehalf, d0, both. cbn [tail_side hs h_edge drop_node with_node with_nattr].
        split; [exact Gm|apply mem_In; exact Hm]. }
    unfold on_ehalf. cbn [tail_side].
    rewrite dexec_list_cons, dexec_forlocal. change (de_local en1) with (ins, outs). cbn [fst snd].
    rewrite (diter_edge_remove_ok n SdIn (VArg 0) en1 (fun x => eq_refl) outs _ NDo).
    2:{ intros e He. cbn [ts hs]. split; [unfold d0, both; cbn [ts h_edge drop_node with_node with_nattr]; apply UE; apply In_sunion; right; exact He|].
        destruct (OutE e He) as (m & Gm & Hm). exists m. unfold ehalf, d0, both. cbn [tail_side ts h_edge drop_node with_node with_nattr].
        split; [exact Gm|apply mem_In; exact Hm]. }
    unfold on_ehalf. cbn [tail_side ts hs].
    rewrite dexec_list_cons, dexec_forlocalunion. change (de_local en1) with (ins, outs). cbn [fst snd].
    rewrite (diter_drop_empty_ok re en1 eq_refl (sunion ins outs) _ NDu).
    2:{ intros e He. cbn [ts].
        assert (Ke : forall xs s, h_eattr (fold_left (fun s e0 => edge_rem e0 n s) xs s) = h_eattr s).
        { induction xs as [|y xs IHx]; intro s; [reflexivity|]. cbn [fold_left]. rewrite IHx. unfold edge_rem. destruct (has y (h_edge s)); reflexivity. }
        assert (He2 : forall xs s, has e (h_edge s) = true -> has e (h_edge (fold_left (fun s e0 => edge_rem e0 n s) xs s)) = true).
        { induction xs as [|y xs IHx]; intros s Hs; [exact Hs|]. cbn [fold_left]. apply IHx. unfold edge_rem.
          destruct (has y (h_edge s)); [|exact Hs]. cbn [h_edge with_edge]. apply has_set_keep. exact Hs. }
        split; [apply He2; unfold d0, both; cbn [ts h_edge drop_node with_node with_nattr]; apply UE; exact He|].
        rewrite Ke. unfold d0, both. cbn [ts h_eattr drop_node with_node with_nattr].
        apply has_In. rewrite Kea1. apply has_In. apply UE. exact He. }
    rewrite !dexec_list_nil. unfold dok. f_equal. f_equal. f_equal.
    rewrite (remove_node_weak_plain n outs (ts d) Gn), (remove_node_weak_plain n ins (hs d) Gn2). reflexivity.
Qed.

(* ---------- remove_nodes_from: the guard of the loop, then the translated remove_node ---------- *)
Lemma dloop_ext_inv {A} (P : dhg -> Prop) (f g : dhg -> A -> dres) (l : list A) :
  (forall d x, P d -> f d x = g d x) -> (forall d x, P d -> P (dst_of (g d x))) -> forall d, P d -> dloop f l d = dloop g l d.
Proof.
  intros Hfg Hinv. induction l as [|x l IH]; intros d0 I0; [reflexivity|]. cbn [dloop]. rewrite (Hfg d0 x I0).
  pose proof (Hinv d0 x I0) as I1. destruct (g d0 x) as [[d1 o] w]. unfold dst_of in I1. cbn [fst] in I1.
  destruct o; [rewrite (IH d1 I1)|]; reflexivity.
Qed.

Theorem d_remove_nodes_from_is_source strong re ns d : DInv d ->
  run_dnode_items dsrc_remove_nodes_from_guards dsrc_remove_node ns [strong; re] d = d_remove_nodes_from ns strong re d.
Proof.
  unfold run_dnode_items, d_remove_nodes_from, dsrc_remove_nodes_from_guards. apply (dloop_ext_inv DInv).
  - intros d1 n I. cbn [run_dguards dbeval dveval de_loop tab]. destruct (has n (h_node (ts d1))); cbn [negb]; [|reflexivity].
    apply d_remove_node_is_source. exact I.
  - intros d1 n I. destruct (has n (h_node (ts d1))); [apply DInv_remove_node; exact I|exact I].
Qed.

(* ---------- add_nodes_from ---------- *)
Theorem d_add_nodes_from_is_source items a d : DInv d ->
  run_dnode_attr_items dsrc_add_nodes_from_item items a d = d_add_nodes_from items a d.
Proof.
  unfold run_dnode_attr_items, d_add_nodes_from, dsrc_add_nodes_from_item. apply (dloop_ext_inv DInv).
  - intros d1 [n od] (I1 & I2 & Ag). cbn [fst snd]. set (nd := match od with None => a | Some x => aupdate a x end).
    destruct I1 as (_ & (Kna & _) & _). unfold d_add_node_body.
    rewrite dexec_list_cons, dexec_if. cbn [dbeval]. dhgs.
    destruct (has n (h_node (ts d1))) eqn:Hn; cbn [negb].
    + rewrite dexec_list_nil, dexec_list_cons, dexec_attrupdate. dhgs.
      assert (Ha : has n (h_nattr (ts d1)) = true) by (apply has_In; rewrite Kna; apply has_In; exact Hn).
      unfold has in Ha. destruct (get n (h_nattr (ts d1))) as [x|] eqn:G; [|discriminate Ha].
      rewrite dexec_list_nil. unfold dok, nattr_update, geta. rewrite G. reflexivity.
    + destruct (is_none n) eqn:Nn; [repeat dstep; rewrite Nn; reflexivity|].
      repeat dstep. rewrite get_set_same. rewrite ?dexec_list_nil.
      unfold dok, nattr_update, ensure_node, geta. rewrite (agree_has_node d1 n Ag), Hn. dhgs. rewrite get_set_same. reflexivity.
  - intros d1 [n od] I. apply DInv_add_node_body. exact I.
Qed.
