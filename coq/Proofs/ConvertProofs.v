(* C10: what the from_* constructions build, for every representation handed to them, and the
   round trips from_X (to_X s) for every state satisfying Inv without None labels. *)
From Coq Require Import String ZArith List Bool Lia.
From XV Require Import Base.Label Base.LSet Base.ODict Base.Attr Base.Outcome Model.Hypergraph Model.HgCheck
     Model.Hodge Model.Matrix Model.Graph Model.Copy Model.DiHypergraph Model.Convert
     Proofs.HgViews Proofs.HgInv Proofs.HgInvOps Proofs.HgStep Proofs.HgKeys Proofs.HgErrors Proofs.ScTables
     Proofs.Build Proofs.DerivedProofs.
Import ListNotations.
Open Scope Z_scope.


(* ---------- one automatically numbered edge ---------- *)
Lemma bulk_auto_effect a s m :
  Inv s -> existsb is_none (mkset m) = false ->
  let i := LInt (h_uid s) in
  let r := bulk_item false a (with_uid s (h_uid s + 1)) m i [] in
  let t := st_of r in
  r = (t, Ok, O) /\ Inv t /\ ekeys t = ekeys s ++ [i] /\ h_uid t = h_uid s + 1 /\
  (exists M, seteq M m /\ NoDup M /\
             forall e', get e' (h_edge t) = if lbl_eqb e' i then Some M else get e' (h_edge s)) /\
  (forall x, In x (nkeys t) <-> In x m \/ In x (nkeys s)).
Proof.
  intros I Hn. cbv zeta.
  pose proof (Inv_bulk_auto a s m [] I) as It.
  pose proof I as (Hw & Hk & Hv & Hu).
  set (s0 := with_uid s (h_uid s + 1)).
  assert (Hne : ~ In (LInt (h_uid s)) (ekeys s0)).
  { intro Hi. specialize (Hu (LInt (h_uid s)) (h_uid s) Hi eq_refl). lia. }
  assert (Hhas : has (LInt (h_uid s)) (h_edge s0) = false) by (apply has_nIn; exact Hne).
  revert It. unfold bulk_item. fold s0. rewrite Hhas, Hn. cbn [is_none]. cbv iota. intro It.
  rewrite st_of_ok in It |- *.
  assert (Hw0 : W1 s0) by exact Hw. assert (Hk0 : KWF s0) by exact Hk. assert (Hv0 : VND s0) by exact Hv.
  destruct (insert_edge_spec (LInt (h_uid s)) m (aupdate a []) s0 Hne Hw0 Hk0 Hv0) as (_ & _ & _ & Ek & Eu & _).
  destruct (insert_edge_get (LInt (h_uid s)) m (aupdate a []) s0) as (M & HM & NDM & GM).
  split; [reflexivity|]. split; [exact It|]. split; [exact Ek|]. split; [exact Eu|]. split.
  - exists M. split; [exact HM|]. split; [exact NDM|exact GM].
  - intro x. exact (insert_edge_nkeys (LInt (h_uid s)) m (aupdate a []) s0 x).
Qed.

Definition auto_step (a : attrs) (s : hg) (members : list lbl) : res :=
  bulk_item false a (with_uid s (h_uid s + 1)) members (LInt (h_uid s)) [].

Lemma auto_loop_effect a : forall l s,
  Inv s -> (forall m, In m l -> existsb is_none (mkset m) = false) ->
  let r := loop (auto_step a) l s in
  let t := st_of r in
  out_of r = Ok /\ Inv t /\
  ekeys t = ekeys s ++ map (fun j => LInt (h_uid s + Z.of_nat j)) (seq 0 (length l)) /\
  h_uid t = h_uid s + Z.of_nat (length l) /\
  (forall j, (j < length l)%nat -> seteq (mems t (LInt (h_uid s + Z.of_nat j))) (nth j l [])) /\
  (forall e, In e (ekeys s) -> get e (h_edge t) = get e (h_edge s)) /\
  (forall x, In x (nkeys t) <-> In x (nkeys s) \/ exists m, In m l /\ In x m).
Proof.
  induction l as [|m l IH]; intros s I Hn; cbv zeta.
  - cbn [loop length seq map]. rewrite st_of_ok, app_nil_r. unfold out_of, ok. cbn [fst snd].
    split; [reflexivity|]. split; [exact I|]. split; [reflexivity|]. split; [lia|].
    split; [intros j Hj; simpl in Hj; lia|]. split; [reflexivity|].
    intro x. split; [auto|]. intros [H|(m & [] & _)]. exact H.
  - destruct (bulk_auto_effect a s m I (Hn m (or_introl eq_refl))) as (Er & I1 & K1 & U1 & (M & HM & NDM & GM) & N1).
    set (s1 := st_of (bulk_item false a (with_uid s (h_uid s + 1)) m (LInt (h_uid s)) [])) in *.
    destruct (loop_cons_ok (auto_step a) m l s s1 O Er) as [Est Eout].
    rewrite Est, Eout.
    destruct (IH s1 I1 (fun m' Hm' => Hn m' (or_intror Hm'))) as (O2 & I2 & K2 & U2 & M2 & P2 & N2).
    split; [exact O2|]. split; [exact I2|].
    assert (Hi1 : In (LInt (h_uid s)) (ekeys s1)) by (rewrite K1; apply in_app_iff; right; left; reflexivity).
    split.
    { rewrite K2, K1, U1. cbn [length]. rewrite <- app_assoc. f_equal. cbn [seq map app]. f_equal.
      - f_equal. lia.
      - rewrite <- seq_shift, map_map. apply map_ext. intro j. f_equal. lia. }
    split; [rewrite U2, U1; cbn [length]; lia|].
    split.
    { intros [|j] Hj.
      - cbn [nth]. replace (h_uid s + Z.of_nat 0) with (h_uid s) by lia.
        unfold mems, getl. rewrite (P2 _ Hi1), GM, lbl_eqb_refl. exact HM.
      - cbn [nth length] in *. replace (h_uid s + Z.of_nat (S j)) with (h_uid s1 + Z.of_nat j) by (rewrite U1; lia).
        apply M2. lia. }
    split.
    { intros e He. rewrite P2 by (rewrite K1; apply in_app_iff; left; exact He).
      rewrite GM. destruct (lbl_eqb_spec e (LInt (h_uid s))) as [->|N]; [|reflexivity].
      exfalso. destruct I as (_ & _ & _ & Hu). specialize (Hu (LInt (h_uid s)) (h_uid s) He eq_refl). lia. }
    intro x. rewrite N2, N1. split.
    + intros [[H|H]|(m' & Hm' & Hx)]; [right; exists m; split; [left; reflexivity|exact H]|left; exact H|].
      right. exists m'. split; [right; exact Hm'|exact Hx].
    + intros [H|(m' & [<-|Hm'] & Hx)]; [left; right; exact H|left; left; exact Hx|].
      right. exists m'. split; assumption.
Qed.

Lemma Inv_members_no_none s kv : Inv s -> NoNone s -> In kv (h_edge s) -> existsb is_none (mkset (snd kv)) = false.
Proof.
  intros I [NN _] Hin. apply no_none_members. intro Hx.
  apply NN. destruct kv as [e ms]. cbn [snd] in Hx.
  assert (Em : mems s e = ms).
  { destruct I as (_ & (_ & _ & _ & Ke) & _). unfold mems, getl. rewrite (In_get _ _ _ Ke Hin). reflexivity. }
  apply (members_are_nodes s e LNone I). rewrite Em. exact Hx.
Qed.

(* from_hyperedge_list(to_hyperedge_list(H)): the same member sets in the same order, under ids 0, 1, ... *)
Theorem hyperedge_list_roundtrip s : Inv s -> NoNone s ->
  let r := from_hyperedge_list (to_hyperedge_list s) in
  let t := st_of r in
  out_of r = Ok /\ Inv t /\
  ekeys t = map (fun j => LInt (Z.of_nat j)) (seq 0 (length (h_edge s))) /\
  (forall j, (j < length (h_edge s))%nat -> seteq (mems t (LInt (Z.of_nat j))) (snd (nth j (h_edge s) (LNone, [])))) /\
  (forall x, In x (nkeys t) <-> exists e, In x (mems s e)).
Proof.
  intros I NN. cbv zeta. unfold from_hyperedge_list, to_hyperedge_list. cbn [add_edges_from].
  change (loop _ (map snd (h_edge s)) hg_empty) with (loop (auto_step []) (map snd (h_edge s)) hg_empty).
  destruct (auto_loop_effect [] (map snd (h_edge s)) hg_empty Inv_empty) as (O1 & I1 & K1 & _ & M1 & _ & N1).
  { intros m Hm. apply in_map_iff in Hm. destruct Hm as (kv & <- & Hkv). apply (Inv_members_no_none s kv I NN Hkv). }
  rewrite map_length in *. cbn [h_uid hg_empty ekeys h_edge keys map app] in K1.
  split; [exact O1|]. split; [exact I1|]. split; [exact K1|]. split.
  - intros j Hj. specialize (M1 j Hj). cbn [h_uid hg_empty] in M1.
    replace (0 + Z.of_nat j) with (Z.of_nat j) in M1 by lia.
    rewrite (nth_indep _ [] (snd (LNone, @nil lbl))) in M1 by (rewrite map_length; exact Hj).
    rewrite map_nth in M1. exact M1.
  - intro x. rewrite N1. cbn [nkeys hg_empty h_node keys map]. split.
    + intros [[]|(m & Hm & Hx)]. apply in_map_iff in Hm. destruct Hm as ([e ms] & <- & Hkv). exists e.
      destruct I as (_ & (_ & _ & _ & Ke) & _). unfold mems, getl. rewrite (In_get _ _ _ Ke Hkv). exact Hx.
    + intros (e & Hx). right. unfold mems, getl in Hx. destruct (get e (h_edge s)) as [ms|] eqn:G; [|destruct Hx].
      exists ms. split; [|exact Hx]. apply in_map_iff. exists (e, ms). split; [reflexivity|apply get_In; exact G].
Qed.

(* ---------- hyperedge dict ---------- *)
Lemma loop_map {A B} (f : hg -> B -> res) (g : A -> B) l : forall s, loop f (map g l) s = loop (fun s x => f s (g x)) l s.
Proof.
  induction l as [|x l IH]; intro s; [reflexivity|]. cbn [map loop].
  destruct (f s (g x)) as [[s1 o] w]. destruct o; [rewrite IH; reflexivity|reflexivity].
Qed.

Lemma loop_ext {A} (f g : hg -> A -> res) l : (forall s x, f s x = g s x) -> forall s, loop f l s = loop g l s.
Proof.
  intro H. induction l as [|x l IH]; intro s; [reflexivity|]. cbn [loop]. rewrite H.
  destruct (g s x) as [[s1 o] w]. destruct o; [rewrite IH; reflexivity|reflexivity].
Qed.

Lemma eb2_as_eb4 (l : list (list lbl * lbl)) a s :
  add_edges_from (EB2 l) a s = add_edges_from (EB4 (map (fun mi => (fst mi, snd mi, [])) l)) a s.
Proof.
  cbn [add_edges_from]. rewrite loop_map. apply loop_ext. intros s' [m i]. reflexivity.
Qed.

(* from_hyperedge_dict(to_hyperedge_dict(H)): the same edge labels in the same order with the same members *)
Theorem hyperedge_dict_roundtrip s : Inv s -> NoNone s ->
  let r := from_hyperedge_dict (to_hyperedge_dict s) in
  let t := st_of r in
  out_of r = Ok /\ Inv t /\ ekeys t = ekeys s /\
  (forall e, In e (ekeys s) -> seteq (mems t e) (mems s e)) /\
  (forall x, In x (nkeys t) <-> exists e, In x (mems s e)).
Proof.
  intros I NN. cbv zeta. unfold from_hyperedge_dict, to_hyperedge_dict. rewrite eb2_as_eb4, map_map.
  set (L := map (fun x : lbl * list lbl => (fst (snd x, fst x), snd (snd x, fst x), @nil (string * aval))) (h_edge s)).
  assert (Hid : map item_id L = ekeys s).
  { unfold L. rewrite map_map. reflexivity. }
  pose proof I as (_ & (_ & _ & _ & Ke) & _).
  destruct (build_edges_effect L [] hg_empty Inv_empty) as (O1 & _ & I1 & K1 & E1 & _ & N1 & _).
  { split; [rewrite Hid; exact Ke|]. intros it Hit. unfold L in Hit. apply in_map_iff in Hit.
    destruct Hit as ([e ms] & <- & Hkv). cbn [fst snd item_id item_ms].
    split; [intros []|]. split.
    - apply is_none_false. intro N. subst e. destruct NN as [_ NE]. apply NE.
      unfold ekeys, keys. apply in_map_iff. exists (LNone, ms). split; [reflexivity|exact Hkv].
    - apply (Inv_members_no_none s (e, ms) I NN Hkv). }
  split; [exact O1|]. split; [exact I1|]. split; [rewrite K1, Hid; reflexivity|]. split.
  - intros e He. unfold ekeys, keys in He. apply in_map_iff in He. destruct He as ([e' ms] & <- & Hkv).
    destruct (E1 (ms, e', [])) as [(M & GM & SM & _) _].
    { unfold L. apply in_map_iff. exists (e', ms). split; [reflexivity|exact Hkv]. }
    cbn [item_id item_ms fst snd] in *. unfold mems, getl. rewrite GM, (In_get _ _ _ Ke Hkv). exact SM.
  - intro x. rewrite N1. cbn [nkeys hg_empty h_node keys map]. split.
    + intros [[]|(it & Hit & Hx)]. unfold L in Hit. apply in_map_iff in Hit. destruct Hit as ([e ms] & <- & Hkv).
      cbn [item_ms fst snd] in Hx. exists e. unfold mems, getl. rewrite (In_get _ _ _ Ke Hkv). exact Hx.
    + intros (e & Hx). right. unfold mems, getl in Hx. destruct (get e (h_edge s)) as [ms|] eqn:G; [|destruct Hx].
      exists (ms, e, []). split; [|exact Hx]. unfold L. apply in_map_iff. exists (e, ms). split; [reflexivity|apply get_In; exact G].
Qed.

(* ---------- (node, edge) pairs ---------- *)
Lemma add_node_to_edge_mems e n s : e <> LNone -> n <> LNone ->
  let r := add_node_to_edge e n s in
  let t := st_of r in
  r = (t, Ok, O) /\ forall y x, In x (mems t y) <-> (y = e /\ x = n) \/ In x (mems s y).
Proof.
  intros He Hn. cbv zeta. unfold add_node_to_edge.
  rewrite (is_none_false e He), (is_none_false n Hn), !andb_false_r.
  rewrite st_of_ok. split; [reflexivity|].
  set (s1 := if has e (h_edge s) then s else _).
  assert (E1 : forall y, mems s1 y = mems s y).
  { intro y. unfold s1. destruct (has e (h_edge s)) eqn:E; [reflexivity|].
    destruct (bump_uid_tables e (with_eattr (with_edge s (set e [] (h_edge s))) (set e [] (h_eattr s)))) as (_ & _ & T & _).
    unfold mems. rewrite T. cbn [h_edge with_eattr with_edge]. rewrite getl_set.
    destruct (lbl_eqb_spec y e) as [->|N]; [|reflexivity].
    symmetry. apply has_false_getl. exact E. }
  intros y x.
  change (mems (node_add n e (edge_add e n (ensure_node n s1))) y) with (mems (edge_add e n (ensure_node n s1)) y).
  rewrite edge_add_mems. unfold mems at 1 2. rewrite ensure_node_edge. fold (mems s1 e). fold (mems s1 y). rewrite !E1.
  destruct (lbl_eqb_spec y e) as [->|N].
  - rewrite In_sadd. split; [intros [->|H]; [left; split; reflexivity|right; exact H]|].
    intros [[_ ->]|H]; [left; reflexivity|right; exact H].
  - split; [intro H; right; exact H|]. intros [[E _]|H]; [contradiction|exact H].
Qed.

Lemma add_pairs_effect : forall l s,
  (forall p, In p l -> fst p <> LNone /\ snd p <> LNone) ->
  let r := add_pairs l s in
  let t := st_of r in
  out_of r = Ok /\ forall y x, In x (mems t y) <-> In (x, y) l \/ In x (mems s y).
Proof.
  induction l as [|[n e] l IH]; intros s Hp; cbv zeta; unfold add_pairs.
  - cbn [loop]. rewrite st_of_ok. split; [reflexivity|]. intros y x. split; [auto|]. intros [[]|H]. exact H.
  - destruct (Hp (n, e) (or_introl eq_refl)) as [Hn He]. cbn [fst snd] in Hn, He.
    destruct (add_node_to_edge_mems e n s He Hn) as [Er M1].
    set (s1 := st_of (add_node_to_edge e n s)) in *.
    destruct (loop_cons_ok (fun s ne => add_node_to_edge (snd ne) (fst ne) s) (n, e) l s s1 O Er) as [Est Eout].
    rewrite Est, Eout.
    destruct (IH s1 (fun p Hp' => Hp p (or_intror Hp'))) as [O2 M2]. unfold add_pairs in O2, M2.
    split; [exact O2|]. intros y x. rewrite M2, M1. split.
    + intros [H|[[-> ->]|H]]; [left; right; exact H|left; left; reflexivity|right; exact H].
    + intros [[E|H]|H]; [inversion E; subst; right; left; split; reflexivity|left; exact H|right; right; exact H].
Qed.

Lemma In_bipartite_edgelist s n e : NoDup (ekeys s) ->
  (In (n, e) (to_bipartite_edgelist s) <-> In n (mems s e)).
Proof.
  intro Ke. unfold to_bipartite_edgelist. rewrite in_flat_map. split.
  - intros ([e' ms] & Hkv & H). apply in_map_iff in H. destruct H as (x & E & Hx). inversion E; subst.
    cbn [snd] in Hx. unfold mems, getl. rewrite (In_get _ _ _ Ke Hkv). exact Hx.
  - intro H. unfold mems, getl in H. destruct (get e (h_edge s)) as [ms|] eqn:G; [|destruct H].
    exists (e, ms). split; [apply get_In; exact G|]. apply in_map_iff. exists n. split; [reflexivity|exact H].
Qed.

(* from_bipartite_edgelist(to_bipartite_edgelist(H)) has exactly the incidences of H, under the same labels *)
Theorem bipartite_edgelist_roundtrip s : Inv s -> NoNone s -> to_bipartite_edgelist s <> [] ->
  let r := from_bipartite_edgelist (to_bipartite_edgelist s) in
  let t := st_of r in
  out_of r = Ok /\ forall n e, In n (mems t e) <-> In n (mems s e).
Proof.
  intros I NN Hne. cbv zeta. unfold from_bipartite_edgelist.
  destruct (to_bipartite_edgelist s) as [|p l] eqn:El; [congruence|]. rewrite <- El.
  pose proof I as (_ & (_ & _ & _ & Ke) & _).
  destruct (add_pairs_effect (to_bipartite_edgelist s) hg_empty) as [O1 M1].
  { intros [n e] Hp. apply (In_bipartite_edgelist s n e Ke) in Hp. cbn [fst snd]. destruct NN as [NNn NNe]. split.
    - intro N. subst n. apply NNn. apply (members_are_nodes s e LNone I Hp).
    - intro N. subst e. apply NNe. unfold mems, getl in Hp. destruct (get LNone (h_edge s)) eqn:G; [|destruct Hp].
      apply get_Some_In in G. exact G. }
  split; [exact O1|]. intros n e. rewrite M1. rewrite (In_bipartite_edgelist s n e Ke).
  split; [intros [H|[]]; exact H|auto].
Qed.

(* the two-column dataframe lists the same incidences, node-major *)
Theorem dataframe_lists_incidences s n e : W1 s -> NoDup (nkeys s) ->
  (In (n, e) (to_dataframe s) <-> In n (mems s e)).
Proof.
  intros HW Kn. unfold to_dataframe. rewrite in_flat_map. split.
  - intros ([n' es] & Hkv & H). apply in_map_iff in H. destruct H as (x & E & Hx). inversion E; subst.
    cbn [snd] in Hx. apply HW. unfold mships, getl. rewrite (In_get _ _ _ Kn Hkv). exact Hx.
  - intro H. apply HW in H. unfold mships, getl in H. destruct (get n (h_node s)) as [es|] eqn:G; [|destruct H].
    exists (n, es). split; [apply get_In; exact G|]. apply in_map_iff. exists e. split; [reflexivity|exact H].
Qed.

Theorem dataframe_roundtrip s : Inv s -> NoNone s ->
  let r := from_dataframe (to_dataframe s) in
  let t := st_of r in
  out_of r = Ok /\ forall n e, In n (mems t e) <-> In n (mems s e).
Proof.
  intros I NN. cbv zeta. unfold from_dataframe.
  pose proof I as (HW & (_ & _ & Kn & Ke) & _).
  destruct (add_pairs_effect (to_dataframe s) hg_empty) as [O1 M1].
  { intros [n e] Hp. apply (dataframe_lists_incidences s n e HW Kn) in Hp. cbn [fst snd]. destruct NN as [NNn NNe]. split.
    - intro N. subst n. apply NNn. apply (members_are_nodes s e LNone I Hp).
    - intro N. subst e. apply NNe. unfold mems, getl in Hp. destruct (get LNone (h_edge s)) eqn:G; [|destruct Hp].
      apply get_Some_In in G. exact G. }
  split; [exact O1|]. intros n e. rewrite M1. rewrite (dataframe_lists_incidences s n e HW Kn).
  split; [intros [H|[]]; exact H|auto].
Qed.

(* ---------- edge-list file: one add_edge per line ---------- *)
Lemma fold_sadd_nodup l : forall acc, NoDup (acc ++ l) -> fold_left (fun a x => sadd x a) l acc = acc ++ l.
Proof.
  induction l as [|x l IH]; intros acc H; cbn [fold_left]; [rewrite app_nil_r; reflexivity|].
  assert (Hx : ~ In x acc).
  { intro Hi. apply NoDup_remove_2 in H. apply H. apply in_app_iff. left; exact Hi. }
  unfold sadd at 2. apply mem_nIn in Hx. rewrite Hx.
  rewrite IH; rewrite <- app_assoc; [reflexivity|exact H].
Qed.

Lemma mkset_idem m : mkset (mkset m) = mkset m.
Proof. unfold mkset at 1. rewrite fold_sadd_nodup; [reflexivity|]. simpl. apply NoDup_mkset. Qed.

Lemma add_edge_auto_as_step m s : Inv s -> existsb is_none (mkset m) = false ->
  add_edge m None [] s = auto_step [] s (mkset m).
Proof.
  intros (_ & _ & _ & Hu) Hn. unfold add_edge, auto_step, bulk_item.
  assert (Hhas : has (LInt (h_uid s)) (h_edge (with_uid s (h_uid s + 1))) = false).
  { apply has_nIn. intro Hi. specialize (Hu (LInt (h_uid s)) (h_uid s) Hi eq_refl). lia. }
  rewrite Hhas, mkset_idem, Hn. reflexivity.
Qed.

Lemma loop_ext_inv {A} (P : hg -> Prop) (f g : hg -> A -> res) l :
  (forall s x, P s -> In x l -> f s x = g s x) -> (forall s x, P s -> P (st_of (g s x))) ->
  forall s, P s -> loop f l s = loop g l s.
Proof.
  intros Hfg Hp. induction l as [|x l IH]; intros s Ps; [reflexivity|]. cbn [loop].
  rewrite (Hfg s x Ps (or_introl eq_refl)).
  specialize (Hp s x Ps). destruct (g s x) as [[s1 o] w]. destruct o; [|reflexivity].
  rewrite IH; [reflexivity| |exact Hp]. intros s' x' Ps' Hx'. apply Hfg; [exact Ps'|right; exact Hx'].
Qed.

(* read_edgelist(write_edgelist(H)): the same member sets in the same order under ids 0, 1, ... *)
Theorem edge_lines_roundtrip s : Inv s -> NoNone s ->
  let r := from_edge_lines (to_hyperedge_list s) in
  let t := st_of r in
  out_of r = Ok /\ Inv t /\
  ekeys t = map (fun j => LInt (Z.of_nat j)) (seq 0 (length (h_edge s))) /\
  (forall j, (j < length (h_edge s))%nat -> seteq (mems t (LInt (Z.of_nat j))) (snd (nth j (h_edge s) (LNone, [])))).
Proof.
  intros I NN. cbv zeta. unfold from_edge_lines.
  rewrite (loop_ext_inv Inv (fun s m => add_edge m None [] s) (fun s m => auto_step [] s (mkset m))).
  2:{ intros s' m Is' Hm. apply add_edge_auto_as_step; [exact Is'|].
      unfold to_hyperedge_list in Hm. apply in_map_iff in Hm. destruct Hm as (kv & <- & Hkv).
      apply (Inv_members_no_none s kv I NN Hkv). }
  2:{ intros s' m Is'. apply (Inv_bulk_auto [] s' (mkset m) [] Is'). }
  2:{ apply Inv_empty. }
  rewrite <- (loop_map (auto_step []) mkset).
  destruct (auto_loop_effect [] (map mkset (to_hyperedge_list s)) hg_empty Inv_empty) as (O1 & I1 & K1 & _ & M1 & _ & _).
  { intros m Hm. apply in_map_iff in Hm. destruct Hm as (m0 & <- & Hm0). rewrite mkset_idem.
    unfold to_hyperedge_list in Hm0. apply in_map_iff in Hm0. destruct Hm0 as (kv & <- & Hkv).
    apply (Inv_members_no_none s kv I NN Hkv). }
  unfold to_hyperedge_list in *. rewrite !map_length in *. cbn [h_uid hg_empty ekeys h_edge keys map app] in K1.
  split; [exact O1|]. split; [exact I1|]. split; [exact K1|].
  intros j Hj. specialize (M1 j Hj). cbn [h_uid hg_empty] in M1.
  replace (0 + Z.of_nat j) with (Z.of_nat j) in M1 by lia.
  assert (En : nth j (map mkset (map snd (h_edge s))) [] = mkset (snd (nth j (h_edge s) (LNone, [])))).
  { rewrite map_map.
    rewrite (nth_indep _ [] ((fun x => mkset (snd x)) (LNone, @nil lbl))) by (rewrite map_length; exact Hj).
    apply (map_nth (fun x => mkset (snd x))). }
  rewrite En in M1.
  intro x. rewrite (M1 x). apply In_mkset.
Qed.

(* ---------- HIF ---------- *)
Lemma geta_set k k' v (d : odict attrs) : geta k (set k' v d) = if lbl_eqb k k' then v else geta k d.
Proof.
  unfold geta. destruct (lbl_eqb_spec k k') as [->|N]; [rewrite get_set_same; reflexivity|].
  rewrite get_set_other by exact N. reflexivity.
Qed.

Lemma loop_pure {A} (P : hg -> Prop) (f : hg -> A -> res) (g : hg -> A -> hg) l :
  (forall s x, P s -> In x l -> f s x = (g s x, Ok, O) /\ P (g s x)) ->
  forall s, P s -> loop f l s = (fold_left g l s, Ok, O) /\ P (fold_left g l s).
Proof.
  induction l as [|x l IH]; intros H s Ps; cbn [loop fold_left]; [split; [reflexivity|exact Ps]|].
  destruct (H s x Ps (or_introl eq_refl)) as [E P1]. rewrite E.
  destruct (IH (fun s' x' Ps' Hx' => H s' x' Ps' (or_intror Hx')) (g s x) P1) as [E2 P2].
  rewrite E2. split; [reflexivity|exact P2].
Qed.

Definition Clean (net : attrs) (s : hg) : Prop :=
  (forall n, geta n (h_nattr s) = []) /\ (forall e, geta e (h_eattr s) = []) /\ h_net s = net.

Lemma add_node_to_edge_effect e n s net : e <> LNone -> n <> LNone -> Inv s -> Clean net s ->
  let t := st_of (add_node_to_edge e n s) in
  Inv t /\ Clean net t /\
  (forall x, In x (nkeys t) <-> x = n \/ In x (nkeys s)) /\
  (forall y, In y (ekeys t) <-> y = e \/ In y (ekeys s)).
Proof.
  intros He Hn I (C1 & C2 & C3). cbv zeta.
  pose proof (Inv_add_node_to_edge e n s I) as It. revert It.
  unfold add_node_to_edge. rewrite (is_none_false e He), (is_none_false n Hn), !andb_false_r.
  rewrite st_of_ok. intro It. split; [exact It|].
  set (s1 := if has e (h_edge s) then s else _).
  assert (S1 : h_node s1 = h_node s /\ h_nattr s1 = h_nattr s /\ h_net s1 = h_net s /\
               (forall y, In y (keys (h_edge s1)) <-> y = e \/ In y (ekeys s)) /\
               (forall y, geta y (h_eattr s1) = [])).
  { unfold s1. destruct (has e (h_edge s)) eqn:E.
    - split; [reflexivity|]. split; [reflexivity|]. split; [reflexivity|]. split; [|exact C2].
      intro y. apply has_In in E. split; [auto|]. intros [->|H]; [exact E|exact H].
    - destruct (bump_uid_tables e (with_eattr (with_edge s (set e [] (h_edge s))) (set e [] (h_eattr s)))) as (T1 & T2 & T3 & T4 & T5).
      rewrite T1, T2, T3, T4, T5. cbn [h_node h_nattr h_edge h_eattr h_net with_eattr with_edge].
      split; [reflexivity|]. split; [reflexivity|]. split; [reflexivity|]. split.
      + intro y. apply In_keys_set.
      + intro y. rewrite geta_set. destruct (lbl_eqb y e); [reflexivity|apply C2]. }
  destruct S1 as (N1 & N2 & N3 & E1 & E2).
  split; [|split].
  - split; [|split].
    + intro x. cbn [node_add edge_add h_nattr with_node with_edge]. unfold ensure_node.
      destruct (has n (h_node s1)); cbn [h_nattr with_nattr with_node]; [rewrite N2; apply C1|].
      rewrite geta_set, N2. destruct (lbl_eqb x n); [reflexivity|apply C1].
    + intro y. cbn [node_add edge_add h_eattr with_node with_edge]. rewrite ensure_node_eattr. apply E2.
    + cbn [node_add edge_add h_net with_node with_edge]. unfold ensure_node.
      destruct (has n (h_node s1)); cbn [h_net with_nattr with_node]; rewrite N3; exact C3.
  - intro x. unfold nkeys. cbn [node_add h_node with_node]. rewrite In_keys_set.
    change (keys (h_node (edge_add e n (ensure_node n s1)))) with (nkeys (ensure_node n s1)).
    rewrite ensure_node_nkeys. unfold nkeys. rewrite N1.
    destruct (has n (h_node s)) eqn:E.
    + apply has_In in E. split; [intros [->|H]; [left; reflexivity|right; exact H]|].
      intros [->|H]; [right; exact E|right; exact H].
    + rewrite in_app_iff. simpl. split.
      * intros [->|[H|[<-|[]]]]; [left; reflexivity|right; exact H|left; reflexivity].
      * intros [->|H]; [left; reflexivity|right; left; exact H].
  - intro y. unfold ekeys. cbn [node_add edge_add h_edge with_node with_edge]. rewrite In_keys_set, ensure_node_edge.
    rewrite E1. tauto.
Qed.

Definition NoNonePairs (l : list (lbl * lbl)) : Prop := forall p, In p l -> fst p <> LNone /\ snd p <> LNone.

Lemma add_pairs_full net : forall l s,
  NoNonePairs l -> Inv s -> Clean net s ->
  let r := add_pairs l s in
  let t := st_of r in
  out_of r = Ok /\ Inv t /\ Clean net t /\
  (forall y x, In x (mems t y) <-> In (x, y) l \/ In x (mems s y)) /\
  (forall x, In x (nkeys t) <-> (exists e, In (x, e) l) \/ In x (nkeys s)) /\
  (forall y, In y (ekeys t) <-> (exists n, In (n, y) l) \/ In y (ekeys s)).
Proof.
  induction l as [|[n e] l IH]; intros s Hp I Cl; cbv zeta.
  - unfold add_pairs. cbn [loop]. rewrite st_of_ok. split; [reflexivity|]. split; [exact I|]. split; [exact Cl|].
    split; [intros y x; split; [auto|intros [[]|H]; exact H]|].
    split; intro x; (split; [auto|intros [(z & [])|H]; exact H]).
  - destruct (Hp (n, e) (or_introl eq_refl)) as [Hn He]. cbn [fst snd] in Hn, He.
    destruct (add_node_to_edge_mems e n s He Hn) as [Er M1].
    destruct (add_node_to_edge_effect e n s net He Hn I Cl) as (I1 & C1 & N1 & E1).
    set (s1 := st_of (add_node_to_edge e n s)) in *.
    unfold add_pairs.
    destruct (loop_cons_ok (fun s ne => add_node_to_edge (snd ne) (fst ne) s) (n, e) l s s1 O Er) as [Est Eout].
    rewrite Est, Eout.
    destruct (IH s1 (fun p Hp' => Hp p (or_intror Hp')) I1 C1) as (O2 & I2 & C2 & M2 & N2 & E2). unfold add_pairs in *.
    split; [exact O2|]. split; [exact I2|]. split; [exact C2|]. split; [|split].
    + intros y x. rewrite M2, M1. split.
      * intros [H|[[-> ->]|H]]; [left; right; exact H|left; left; reflexivity|right; exact H].
      * intros [[E|H]|H]; [inversion E; subst; right; left; split; reflexivity|left; exact H|right; right; exact H].
    + intro x. rewrite N2, N1. split.
      * intros [(e' & H)|[->|H]]; [left; exists e'; right; exact H|left; exists e; left; reflexivity|right; exact H].
      * intros [(e' & [E|H])|H]; [inversion E; subst; right; left; reflexivity|left; exists e'; exact H|right; right; exact H].
    + intro y. rewrite E2, E1. split.
      * intros [(n' & H)|[->|H]]; [left; exists n'; right; exact H|left; exists n; left; reflexivity|right; exact H].
      * intros [(n' & [E|H])|H]; [inversion E; subst; right; left; reflexivity|left; exists n'; exact H|right; right; exact H].
Qed.

(* the node records *)
Definition nstep (s : hg) (na : lbl * attrs) : res :=
  if has (fst na) (h_node s) then set_node_attrs_dict [na] s else add_node (fst na) (snd na) s.
Definition nstep_pure (s : hg) (na : lbl * attrs) : hg := nattr_update (fst na) (snd na) (ensure_node (fst na) s).

Lemma nstep_is_pure s na : Inv s -> fst na <> LNone -> nstep s na = (nstep_pure s na, Ok, O).
Proof.
  intros I Hn. destruct na as [n a]. unfold nstep, nstep_pure. cbn [fst snd] in *.
  destruct (has n (h_node s)) eqn:E.
  - unfold set_node_attrs_dict. cbn [loop]. rewrite (has_nattr_node n s I), E. unfold ensure_node. rewrite E. reflexivity.
  - unfold add_node. rewrite E, (is_none_false n Hn). reflexivity.
Qed.

Lemma nstep_pure_effect s n a : Inv s ->
  let t := nstep_pure s (n, a) in
  Inv t /\ h_edge t = h_edge s /\ h_eattr t = h_eattr s /\ h_net t = h_net s /\
  (forall x, mships t x = mships s x) /\
  (forall x, In x (nkeys t) <-> x = n \/ In x (nkeys s)) /\
  (forall x, geta x (h_nattr t) = if lbl_eqb x n then aupdate (if has n (h_node s) then geta n (h_nattr s) else []) a
                                  else geta x (h_nattr s)).
Proof.
  intro I. cbv zeta. unfold nstep_pure. cbn [fst snd].
  assert (I1 : Inv (ensure_node n s)) by (apply Inv_ensure_node; exact I).
  split; [apply Inv_nattr_update; [apply ensure_node_has|exact I1]|].
  cbn [nattr_update h_edge h_eattr h_net with_nattr]. rewrite ensure_node_edge, ensure_node_eattr, ensure_node_net.
  split; [reflexivity|]. split; [reflexivity|]. split; [reflexivity|]. split; [|split].
  - intro x. apply ensure_node_mships.
  - intro x. change (nkeys (nattr_update n a (ensure_node n s))) with (nkeys (ensure_node n s)).
    rewrite ensure_node_nkeys. destruct (has n (h_node s)) eqn:E.
    + apply has_In in E. split; [auto|]. intros [->|H]; [exact E|exact H].
    + rewrite in_app_iff. simpl. split; [intros [H|[<-|[]]]; auto|intros [->|H]; auto].
  - intro x. unfold nattr_update. cbn [h_nattr with_nattr]. rewrite geta_set. destruct (lbl_eqb_spec x n) as [->|N].
    + f_equal. unfold ensure_node. destruct (has n (h_node s)); [reflexivity|].
      cbn [h_nattr with_nattr with_node]. rewrite geta_set, lbl_eqb_refl. reflexivity.
    + unfold ensure_node. destruct (has n (h_node s)); [reflexivity|].
      cbn [h_nattr with_nattr with_node]. rewrite geta_set. destruct (lbl_eqb_spec x n); [contradiction|reflexivity].
Qed.

Lemma node_records : forall recs s,
  Inv s -> NoDup (map fst recs) -> (forall r, In r recs -> fst r <> LNone) ->
  (forall x, In x (map fst recs) -> geta x (h_nattr s) = []) ->
  let t := st_of (loop nstep recs s) in
  out_of (loop nstep recs s) = Ok /\ Inv t /\ h_edge t = h_edge s /\ h_eattr t = h_eattr s /\
  h_net t = h_net s /\ (forall x, mships t x = mships s x) /\
  (forall x, In x (nkeys t) <-> In x (map fst recs) \/ In x (nkeys s)) /\
  (forall n a, In (n, a) recs -> geta n (h_nattr t) = aupdate [] a) /\
  (forall x, ~ In x (map fst recs) -> geta x (h_nattr t) = geta x (h_nattr s)).
Proof.
  induction recs as [|[n a] recs IH]; intros s I ND Hn Hc; cbv zeta.
  - cbn [loop]. rewrite st_of_ok. unfold out_of, ok. cbn [fst snd map].
    split; [reflexivity|]. split; [exact I|]. do 3 (split; [reflexivity|]). split; [reflexivity|].
    split; [intro x; split; [auto|intros [[]|H]; exact H]|]. split; [intros n0 a0 []|reflexivity].
  - assert (Hnn : n <> LNone) by (apply (Hn (n, a)); left; reflexivity).
    pose proof (nstep_is_pure s (n, a) I Hnn) as Er.
    destruct (nstep_pure_effect s n a I) as (I1 & E1 & EA1 & NT1 & MS1 & NK1 & NA1).
    set (s1 := nstep_pure s (n, a)) in *.
    destruct (loop_cons_ok nstep (n, a) recs s s1 O Er) as [Est Eout]. rewrite Est, Eout.
    cbn [map] in ND. inversion ND as [|? ? Hnin ND']; subst.
    destruct (IH s1 I1 ND' (fun r Hr => Hn r (or_intror Hr))) as (O2 & I2 & E2 & EA2 & NT2 & MS2 & NK2 & NA2 & NO2).
    { intros x Hx. rewrite NA1. destruct (lbl_eqb_spec x n) as [->|N]; [contradiction|]. apply Hc. right; exact Hx. }
    split; [exact O2|]. split; [exact I2|]. split; [congruence|]. split; [congruence|]. split; [congruence|].
    split; [intro x; rewrite MS2; apply MS1|]. split; [|split].
    + intro x. rewrite NK2, NK1. cbn [map fst]. split.
      * intros [H|[->|H]]; [left; right; exact H|left; left; reflexivity|right; exact H].
      * intros [[<-|H]|H]; [right; left; reflexivity|left; exact H|right; right; exact H].
    + intros n0 a0 [E|H]; [inversion E; subst|apply NA2; exact H].
      rewrite (NO2 n0 Hnin), NA1, lbl_eqb_refl. rewrite (Hc n0 (or_introl eq_refl)).
      destruct (has n0 (h_node s)); reflexivity.
    + intros x Hx. cbn [map fst] in Hx. rewrite NO2 by (intro Hi; apply Hx; right; exact Hi). rewrite NA1.
      destruct (lbl_eqb_spec x n) as [->|N]; [exfalso; apply Hx; left; reflexivity|reflexivity].
Qed.

(* the edge records *)
Definition estep (s : hg) (ea : lbl * attrs) : res :=
  if has (fst ea) (h_edge s) then set_edge_attrs_dict [ea] s else add_edge [] (Some (fst ea)) (snd ea) s.
Definition estep_pure (s : hg) (ea : lbl * attrs) : hg :=
  if has (fst ea) (h_edge s) then eattr_update (fst ea) (snd ea) s
  else bump_uid (fst ea) (insert_edge (fst ea) [] (snd ea) s).

Lemma estep_is_pure s ea : Inv s -> estep s ea = (estep_pure s ea, Ok, O).
Proof.
  intros I. destruct ea as [e a]. unfold estep, estep_pure. cbn [fst snd] in *.
  destruct (has e (h_edge s)) eqn:E.
  - unfold set_edge_attrs_dict. cbn [loop]. rewrite (has_eattr_edge e s I), E. reflexivity.
  - unfold add_edge. cbn [mkset fold_left existsb]. rewrite E. reflexivity.
Qed.

Lemma estep_pure_effect s e a : Inv s ->
  let t := estep_pure s (e, a) in
  Inv t /\ h_node t = h_node s /\ h_nattr t = h_nattr s /\ h_net t = h_net s /\
  (forall y, mems t y = mems s y) /\
  (forall y, In y (ekeys t) <-> y = e \/ In y (ekeys s)) /\
  (forall y, geta y (h_eattr t) = if lbl_eqb y e then aupdate (if has e (h_edge s) then geta e (h_eattr s) else []) a
                                  else geta y (h_eattr s)).
Proof.
  intro I. cbv zeta. unfold estep_pure. cbn [fst snd]. destruct (has e (h_edge s)) eqn:E.
  - split; [apply Inv_eattr_update; assumption|]. unfold eattr_update.
    cbn [h_node h_nattr h_net h_edge h_eattr with_eattr]. do 3 (split; [reflexivity|]).
    split; [reflexivity|]. split.
    + intro y. apply has_In in E. split; [auto|]. intros [->|H]; [exact E|exact H].
    + intro y. rewrite geta_set. reflexivity.
  - assert (Hne : ~ In e (ekeys s)) by (apply has_nIn; exact E).
    split; [apply Inv_insert_explicit; assumption|].
    destruct (bump_uid_tables e (insert_edge e [] a s)) as (T1 & T2 & T3 & T4 & T5).
    unfold mems, ekeys. rewrite T1, T2, T3, T4, T5. unfold insert_edge.
    cbn [fold_left h_node h_nattr h_net h_edge h_eattr with_eattr with_edge].
    do 3 (split; [reflexivity|]). split; [|split].
    + intro y. rewrite getl_set. destruct (lbl_eqb_spec y e) as [->|N]; [|reflexivity].
      symmetry. apply has_false_getl. exact E.
    + intro y. apply In_keys_set.
    + intro y. rewrite geta_set. reflexivity.
Qed.

Lemma edge_records : forall recs s,
  Inv s -> NoDup (map fst recs) ->
  (forall x, In x (map fst recs) -> geta x (h_eattr s) = []) ->
  let t := st_of (loop estep recs s) in
  out_of (loop estep recs s) = Ok /\ Inv t /\ h_node t = h_node s /\ h_nattr t = h_nattr s /\
  h_net t = h_net s /\ (forall y, mems t y = mems s y) /\
  (forall y, In y (ekeys t) <-> In y (map fst recs) \/ In y (ekeys s)) /\
  (forall e a, In (e, a) recs -> geta e (h_eattr t) = aupdate [] a) /\
  (forall y, ~ In y (map fst recs) -> geta y (h_eattr t) = geta y (h_eattr s)).
Proof.
  induction recs as [|[e a] recs IH]; intros s I ND Hc; cbv zeta.
  - cbn [loop]. rewrite st_of_ok. unfold out_of, ok. cbn [fst snd map].
    split; [reflexivity|]. split; [exact I|]. do 3 (split; [reflexivity|]). split; [reflexivity|].
    split; [intro x; split; [auto|intros [[]|H]; exact H]|]. split; [intros n0 a0 []|reflexivity].
  - pose proof (estep_is_pure s (e, a) I) as Er.
    destruct (estep_pure_effect s e a I) as (I1 & N1 & NA1 & NT1 & MS1 & EK1 & EA1).
    set (s1 := estep_pure s (e, a)) in *.
    destruct (loop_cons_ok estep (e, a) recs s s1 O Er) as [Est Eout]. rewrite Est, Eout.
    cbn [map] in ND. inversion ND as [|? ? Hnin ND']; subst.
    destruct (IH s1 I1 ND') as (O2 & I2 & N2 & NA2 & NT2 & MS2 & EK2 & EA2 & EO2).
    { intros x Hx. rewrite EA1. destruct (lbl_eqb_spec x e) as [->|N]; [contradiction|]. apply Hc. right; exact Hx. }
    split; [exact O2|]. split; [exact I2|]. split; [congruence|]. split; [congruence|]. split; [congruence|].
    split; [intro x; rewrite MS2; apply MS1|]. split; [|split].
    + intro x. rewrite EK2, EK1. cbn [map fst]. split.
      * intros [H|[->|H]]; [left; right; exact H|left; left; reflexivity|right; exact H].
      * intros [[<-|H]|H]; [right; left; reflexivity|left; exact H|right; right; exact H].
    + intros e0 a0 [Eq|H]; [inversion Eq; subst|apply EA2; exact H].
      rewrite (EO2 e0 Hnin), EA1, lbl_eqb_refl. rewrite (Hc e0 (or_introl eq_refl)).
      destruct (has e0 (h_edge s)); reflexivity.
    + intros x Hx. cbn [map fst] in Hx. rewrite EO2 by (intro Hi; apply Hx; right; exact Hi). rewrite EA1.
      destruct (lbl_eqb_spec x e) as [->|N]; [exfalso; apply Hx; left; reflexivity|reflexivity].
Qed.

(* what from_hif_dict builds from ANY HIF record *)
Theorem from_hif_spec h :
  NoNonePairs (hf_inc h) -> NoDup (map fst (hf_nodes h)) -> (forall r, In r (hf_nodes h) -> fst r <> LNone) ->
  NoDup (map fst (hf_edges h)) ->
  let r := from_hif h in
  let t := st_of r in
  out_of r = Ok /\ Inv t /\
  (forall y x, In x (mems t y) <-> In (x, y) (hf_inc h)) /\
  (forall x, In x (nkeys t) <-> (exists e, In (x, e) (hf_inc h)) \/ In x (map fst (hf_nodes h))) /\
  (forall y, In y (ekeys t) <-> (exists n, In (n, y) (hf_inc h)) \/ In y (map fst (hf_edges h))) /\
  (forall n a, In (n, a) (hf_nodes h) -> geta n (h_nattr t) = aupdate [] a) /\
  (forall x, ~ In x (map fst (hf_nodes h)) -> geta x (h_nattr t) = []) /\
  (forall e a, In (e, a) (hf_edges h) -> geta e (h_eattr t) = aupdate [] a) /\
  (forall y, ~ In y (map fst (hf_edges h)) -> geta y (h_eattr t) = []) /\
  h_net t = hf_net h.
Proof.
  intros Hp NDn Hnn NDe. cbv zeta. unfold from_hif.
  set (s0 := with_net hg_empty (hf_net h)).
  assert (I0 : Inv s0) by (apply Inv_with_net; apply Inv_empty).
  assert (C0 : Clean (hf_net h) s0) by (split; [|split]; reflexivity).
  destruct (add_pairs_full (hf_net h) (hf_inc h) s0 Hp I0 C0) as (O1 & I1 & (C1n & C1e & C1t) & M1 & N1 & E1).
  set (r1 := add_pairs (hf_inc h) s0) in *. set (s1 := st_of r1) in *.
  match goal with |- context [bind r1 ?k] => destruct (bind_ok_st r1 k O1) as [Est Eout] end. rewrite Est, Eout. clear Est Eout.
  cbv beta. fold s1.
  change (fun (s : hg) (na : lbl * attrs) => if has (fst na) (h_node s) then set_node_attrs_dict [na] s else add_node (fst na) (snd na) s) with nstep.
  change (fun (s : hg) (ea : lbl * attrs) => if has (fst ea) (h_edge s) then set_edge_attrs_dict [ea] s else add_edge [] (Some (fst ea)) (snd ea) s) with estep.
  destruct (node_records (hf_nodes h) s1 I1 NDn Hnn (fun x _ => C1n x)) as (O2 & I2 & E2 & EA2 & NT2 & MS2 & NK2 & NA2 & NO2).
  set (r2 := loop nstep (hf_nodes h) s1) in *. set (s2 := st_of r2) in *.
  match goal with |- context [bind r2 ?k] => destruct (bind_ok_st r2 k O2) as [Est Eout] end. rewrite Est, Eout. clear Est Eout.
  cbv beta. fold s2.
  destruct (edge_records (hf_edges h) s2 I2 NDe) as (O3 & I3 & N3 & NA3 & NT3 & MS3 & EK3 & EA3 & EO3).
  { intros x _. rewrite EA2. apply C1e. }
  split; [exact O3|]. split; [exact I3|].
  split.
  { intros y x. rewrite MS3. unfold mems. rewrite E2. fold (mems s1 y). rewrite M1.
    split; [intros [H|[]]; exact H|auto]. }
  split.
  { intro x. unfold nkeys. rewrite N3. fold (nkeys s2). rewrite NK2, N1.
    change (nkeys s0) with (@nil lbl). simpl. tauto. }
  split.
  { intro y. rewrite EK3. assert (Ek : ekeys s2 = ekeys s1) by (unfold ekeys; rewrite E2; reflexivity). rewrite Ek, E1.
    change (ekeys s0) with (@nil lbl). simpl. tauto. }
  split; [intros n a Hr; rewrite NA3; apply NA2; exact Hr|].
  split; [intros x Hx; rewrite NA3, (NO2 x Hx); apply C1n|].
  split; [exact EA3|].
  split; [intros y Hy; rewrite (EO3 y Hy), EA2; apply C1e|].
  rewrite NT3, NT2. exact C1t.
Qed.

(* the records written by to_hif_dict *)
Definition rec_of (at_ : odict attrs) (kv : lbl * list lbl) : list (lbl * attrs) :=
  let a := geta (fst kv) at_ in
  match snd kv, is_nil_attrs a with
  | _ :: _, true => []
  | _, _ => [(fst kv, a)]
  end.

Lemma rec_of_spec at_ kv r : In r (rec_of at_ kv) <-> r = (fst kv, geta (fst kv) at_) /\ (snd kv = [] \/ geta (fst kv) at_ <> []).
Proof.
  unfold rec_of. destruct kv as [k v]. cbn [fst snd]. destruct v as [|x v]; destruct (geta k at_) as [|p a] eqn:E; cbn [is_nil_attrs].
  - simpl. split; [intros [<-|[]]; split; [reflexivity|left; reflexivity]|intros [-> _]; left; reflexivity].
  - simpl. split; [intros [<-|[]]; split; [reflexivity|left; reflexivity]|intros [-> _]; left; reflexivity].
  - simpl. split; [intros []|]. intros [_ [H|H]]; [discriminate|congruence].
  - simpl. split; [intros [<-|[]]; split; [reflexivity|right; discriminate]|intros [-> _]; left; reflexivity].
Qed.

Lemma NoDup_app_in' {A} (a b : list A) :
  NoDup a -> NoDup b -> (forall x, In x a -> In x b -> False) -> NoDup (a ++ b).
Proof.
  induction 1 as [|x a Hx Ha IH]; intros Hb Hd; simpl; [exact Hb|].
  constructor.
  - rewrite in_app_iff. intros [H|H]; [contradiction|]. apply (Hd x); [left; reflexivity|exact H].
  - apply IH; [exact Hb|]. intros y Hy. apply Hd. right; exact Hy.
Qed.

Lemma recs_keys_NoDup at_ (d : odict (list lbl)) : NoDup (keys d) -> NoDup (map fst (flat_map (rec_of at_) d)).
Proof.
  induction d as [|kv d IH]; intro ND; [constructor|]. cbn [keys map] in ND. inversion ND as [|? ? Hn ND']; subst.
  cbn [flat_map]. rewrite map_app. apply NoDup_app_in'.
  - unfold rec_of. destruct (snd kv), (is_nil_attrs (geta (fst kv) at_)); simpl; repeat constructor; auto.
  - apply IH. exact ND'.
  - intros x Hx Hx'. apply in_map_iff in Hx. destruct Hx as (r & <- & Hr). apply rec_of_spec in Hr. destruct Hr as [-> _].
    cbn [fst] in Hx'. apply in_map_iff in Hx'. destruct Hx' as (r' & Er & Hr'). apply in_flat_map in Hr'.
    destruct Hr' as (kv' & Hkv' & Hr'). apply rec_of_spec in Hr'. destruct Hr' as [-> _]. cbn [fst] in Er.
    apply Hn. rewrite <- Er. unfold keys. apply in_map. exact Hkv'.
Qed.

Lemma to_hif_nodes s : hf_nodes (to_hif s) = flat_map (rec_of (h_nattr s)) (h_node s).
Proof. reflexivity. Qed.
Lemma to_hif_edges s : hf_edges (to_hif s) = flat_map (rec_of (h_eattr s)) (h_edge s).
Proof. reflexivity. Qed.

Lemma NoNonePairs_bip s : Inv s -> NoNone s -> NoNonePairs (to_bipartite_edgelist s).
Proof.
  intros I [NNn NNe] [n e] Hp. pose proof I as (_ & (_ & _ & _ & Ke) & _).
  apply (In_bipartite_edgelist s n e Ke) in Hp. cbn [fst snd]. split.
  - intro N. subst n. apply NNn. apply (members_are_nodes s e LNone I Hp).
  - intro N. subst e. apply NNe. unfold mems, getl in Hp. destruct (get LNone (h_edge s)) eqn:G; [|destruct Hp].
    apply get_Some_In in G. exact G.
Qed.

(* from_hif_dict(to_hif_dict(H)) = read_hif(write_hif(H)) at the dict level: the same nodes
   (isolated ones included), edges (empty ones included), incidences, attribute dicts (an empty
   dict updated with the source's dict) and network attributes *)
Theorem hif_roundtrip s : Inv s -> NoNone s ->
  let r := from_hif (to_hif s) in
  let t := st_of r in
  out_of r = Ok /\ Inv t /\
  (forall n e, In n (mems t e) <-> In n (mems s e)) /\
  (forall x, In x (nkeys t) <-> In x (nkeys s)) /\
  (forall y, In y (ekeys t) <-> In y (ekeys s)) /\
  (forall n, In n (nkeys s) -> geta n (h_nattr t) = aupdate [] (geta n (h_nattr s))) /\
  (forall e, In e (ekeys s) -> geta e (h_eattr t) = aupdate [] (geta e (h_eattr s))) /\
  h_net t = h_net s.
Proof.
  intros I NN. cbv zeta.
  pose proof I as (HW & (_ & _ & Kn & Ke) & _).
  destruct (from_hif_spec (to_hif s)) as (O1 & I1 & M1 & N1 & E1 & NA1 & NO1 & EA1 & EO1 & T1).
  - apply NoNonePairs_bip; assumption.
  - rewrite to_hif_nodes. apply recs_keys_NoDup. exact Kn.
  - intros r Hr. rewrite to_hif_nodes in Hr. apply in_flat_map in Hr. destruct Hr as (kv & Hkv & Hr).
    apply rec_of_spec in Hr. destruct Hr as [-> _]. cbn [fst]. intro N. destruct NN as [NNn _]. apply NNn.
    unfold nkeys, keys. rewrite <- N. apply in_map. exact Hkv.
  - rewrite to_hif_edges. apply recs_keys_NoDup. exact Ke.
  - assert (Hinc : forall n e, In (n, e) (hf_inc (to_hif s)) <-> In n (mems s e)).
    { intros n e. apply (In_bipartite_edgelist s n e Ke). }
    assert (Hrec_n : forall n, In n (map fst (hf_nodes (to_hif s))) <->
                               In n (nkeys s) /\ (mships s n = [] \/ geta n (h_nattr s) <> [])).
    { intro n. rewrite to_hif_nodes, in_map_iff. split.
      - intros (r & <- & Hr). apply in_flat_map in Hr. destruct Hr as ([k v] & Hkv & Hr). apply rec_of_spec in Hr.
        destruct Hr as [-> Hc]. cbn [fst snd] in *. split; [unfold nkeys, keys; apply (in_map fst _ _ Hkv)|].
        unfold mships, getl. rewrite (In_get _ _ _ Kn Hkv). exact Hc.
      - intros [Hk Hc]. unfold nkeys, keys in Hk. apply in_map_iff in Hk. destruct Hk as ([k v] & <- & Hkv). cbn [fst] in *.
        exists (k, geta k (h_nattr s)). split; [reflexivity|]. apply in_flat_map. exists (k, v). split; [exact Hkv|].
        apply rec_of_spec. cbn [fst snd]. split; [reflexivity|].
        unfold mships, getl in Hc. rewrite (In_get _ _ _ Kn Hkv) in Hc. exact Hc. }
    assert (Hrec_e : forall e, In e (map fst (hf_edges (to_hif s))) <->
                               In e (ekeys s) /\ (mems s e = [] \/ geta e (h_eattr s) <> [])).
    { intro e. rewrite to_hif_edges, in_map_iff. split.
      - intros (r & <- & Hr). apply in_flat_map in Hr. destruct Hr as ([k v] & Hkv & Hr). apply rec_of_spec in Hr.
        destruct Hr as [-> Hc]. cbn [fst snd] in *. split; [unfold ekeys, keys; apply (in_map fst _ _ Hkv)|].
        unfold mems, getl. rewrite (In_get _ _ _ Ke Hkv). exact Hc.
      - intros [Hk Hc]. unfold ekeys, keys in Hk. apply in_map_iff in Hk. destruct Hk as ([k v] & <- & Hkv). cbn [fst] in *.
        exists (k, geta k (h_eattr s)). split; [reflexivity|]. apply in_flat_map. exists (k, v). split; [exact Hkv|].
        apply rec_of_spec. cbn [fst snd]. split; [reflexivity|].
        unfold mems, getl in Hc. rewrite (In_get _ _ _ Ke Hkv) in Hc. exact Hc. }
    split; [exact O1|]. split; [exact I1|].
    split; [intros n e; rewrite M1; apply Hinc|].
    split.
    { intro x. rewrite N1, Hrec_n. split.
      - intros [(e & He)|[Hk _]]; [|exact Hk]. apply Hinc in He. apply (members_are_nodes s e x I He).
      - intro Hk. destruct (mships s x) as [|e es] eqn:Em; [right; split; [exact Hk|left; reflexivity]|].
        left. exists e. apply Hinc. apply HW. rewrite Em. left; reflexivity. }
    split.
    { intro y. rewrite E1, Hrec_e. split.
      - intros [(n & Hn)|[Hk _]]; [|exact Hk]. apply Hinc in Hn. unfold mems in Hn.
        apply (getl_nonempty_key y (h_edge s) n Hn).
      - intro Hk. destruct (mems s y) as [|n ns] eqn:Em; [right; split; [exact Hk|left; reflexivity]|].
        left. exists n. apply Hinc. rewrite Em. left; reflexivity. }
    split.
    { intros n Hk. destruct (in_dec lbl_eq_dec n (map fst (hf_nodes (to_hif s)))) as [Hi|Hni].
      - apply NA1. rewrite to_hif_nodes. rewrite to_hif_nodes in Hi. apply in_map_iff in Hi.
        destruct Hi as (r & <- & Hr). pose proof Hr as Hr'. apply in_flat_map in Hr'. destruct Hr' as (kv & _ & Hr').
        apply rec_of_spec in Hr'. destruct Hr' as [-> _]. cbn [fst]. exact Hr.
      - rewrite (NO1 n Hni). assert (Ea : geta n (h_nattr s) = []).
        { destruct (geta n (h_nattr s)) as [|p a] eqn:Eg; [reflexivity|]. exfalso. apply Hni. apply Hrec_n.
          split; [exact Hk|right; rewrite Eg; discriminate]. }
        rewrite Ea. reflexivity. }
    split; [|exact T1].
    intros e Hk. destruct (in_dec lbl_eq_dec e (map fst (hf_edges (to_hif s)))) as [Hi|Hni].
    + apply EA1. rewrite to_hif_edges. rewrite to_hif_edges in Hi. apply in_map_iff in Hi.
      destruct Hi as (r & <- & Hr). pose proof Hr as Hr'. apply in_flat_map in Hr'. destruct Hr' as (kv & _ & Hr').
      apply rec_of_spec in Hr'. destruct Hr' as [-> _]. cbn [fst]. exact Hr.
    + rewrite (EO1 e Hni). assert (Ea : geta e (h_eattr s) = []).
      { destruct (geta e (h_eattr s)) as [|p a] eqn:Eg; [reflexivity|]. exfalso. apply Hni. apply Hrec_e.
        split; [exact Hk|right; rewrite Eg; discriminate]. }
      rewrite Ea. reflexivity.
Qed.
