(* C15: the model's normaliser is the function the source defines (Gen/MaxSubfaces.v, regenerated every run). *)
From Coq Require Import ZArith List Lia.
From XV Require Import Model.Simpliciality Gen.MaxSubfaces.
Open Scope Z_scope.

Lemma fold_sub_add (g : nat -> Z) l : forall a b,
  fold_left (fun d i => d - g i) l a = a - (fold_left (fun acc i => acc + g i) l b - b).
Proof. induction l as [|i l IH]; intros a b; cbn [fold_left]; [lia|]. rewrite (IH (a - g i) (b + g i)). lia. Qed.

Theorem max_number_of_subfaces_is_source k n : max_number_of_subfaces k n = src_max_subfaces k n.
Proof.
  unfold max_number_of_subfaces, src_max_subfaces.
  rewrite (fold_sub_add (fun i => binomZ n i) (seq 1 (k - 1)) (2 ^ Z.of_nat n - 2) 0). lia.
Qed.
