"""Fail-closed translator of the bodies of nine Hypergraph mutators and of the items of the bulk calls (add_edges_from in
all five formats, remove_nodes_from) - add_node, add_node_to_edge, remove_edge, remove_node,
remove_node_from_edge, add_edge, remove_edges_from, clear, clear_edges (xgi/core/hypergraph.py) - into programs of the small imperative language of
coq/Model/PyIR.v (coq/Gen/Mutators.v).  `Props/C01.v` proves that running the regenerated programs on a state
satisfying the class invariant is exactly what the hand-written model does.

Accepted statements (anything else fails the translation):
    if <cond>: <stmts> [elif ...] [else: <stmts>]        raise XGIError(...) / IDNotFound(...)
    self._node[<v>] = set()     self._edge[<v>] = set()     self._node_attr[<v>] = {}     self._edge_attr[<v>] = {}
    self._node[<v>].add(<v>)    self._edge[<v>].add(<v>)    ....remove(<v>)
    del self._edge[<v>]         del self._edge_attr[<v>]    (and _node / _node_attr)
    update_uid_counter(self, <v>)        self._node_attr[<v>].update(<the **attr of the method>)
    for <x> in self._edge[<v>].copy(): <stmts>            (or self._node[<v>].copy())
    self._edge[<v>] = members | frozenset(members)        <x> = next(self._edge_uid)   (scope = the rest of the block)
    for <x> in self.edges.members(<v>): <stmts>  (a copy)   raise ValueError(...)        <v> is None
    <name> = self._node[<v>]   (a reference to the stored set; scope = the rest of the block)
    for <x> in <name>: <stmts>        for <x> in <name>.difference({<v>}): <stmts>        (at most two nested loops)
  <cond> ::= <v> in self._T | <v> not in self._T | <v> [not] in self._T[<v>] | not self._T[<v>] | <flag> | not <cond>
           | <cond> and <cond>
  <v> a label parameter or the loop variable; <flag> a boolean parameter.
add_edge(self, members, idx=None, **attr) additionally: a first statement `members = set(members)`; leading guards
    `if <cond>: raise E(...)` and `if <cond>: warn(...); return` with <cond> also `None in members`, `idx in self._edge[.keys()]`;
    `uid = next(self._edge_uid) if idx is None else idx` (scope = the rest of the block); `for <x> in members:`; `idx is [not] None`.
remove_edges_from(self, ebunch): `for <x> in ebunch:`.   clear / clear_edges: `self._T.clear()`, `self._net_attr.clear()`,
    `for <x> in self.nodes: self._node[<x>] = set()` (a loop over the keys whose body keeps the key set)."""
import ast, os
from . import common as C

GEN = os.path.join(C.COQ, "Gen")
TABLES = {"_node": "TNode", "_edge": "TEdge"}
ATABLES = {"_node_attr": "TNode", "_edge_attr": "TEdge"}


class TranslationError(Exception):
    pass


class M:
    def __init__(self, labels, flags, kwattr=None, members=None, idx=None):
        self.labels, self.flags, self.kwattr = labels, flags, kwattr
        self.loops, self.locals = [], []          # innermost first
        self.members, self.idx, self.uid = members, idx, None   # add_edge: the `members` set, the optional id, the bound uid
        self.always_auto = False                                # a helper that always draws its id from the counter
        self.item_mode = False                                  # the body of a loop over items: `continue` ends the item
        self.eattr = None                                       # the item's own attribute dict (bulk formats)
        self.flag_exprs = {}                                    # source text of a boolean expression -> flag index

    def v(self, x):
        if isinstance(x, ast.Name) and x.id in self.labels:
            return f"(VArg {self.labels.index(x.id)})"
        if isinstance(x, ast.Name) and x.id in self.loops[:2]:
            return "VLoop" if self.loops.index(x.id) == 0 else "VLoop1"
        if isinstance(x, ast.Name) and self.uid is not None and x.id == self.uid:
            return "VUid"
        if isinstance(x, ast.Name) and self.idx is not None and x.id == self.idx:
            return "VIdx"
        raise TranslationError(f"label not understood: {ast.unparse(x)}")

    def selftab(self, x, tables):
        if isinstance(x, ast.Attribute) and isinstance(x.value, ast.Name) and x.value.id == "self" and x.attr in tables:
            return tables[x.attr]
        return None

    def sub(self, x, tables):
        """self._T[<v>] -> (table, key)"""
        if isinstance(x, ast.Subscript):
            t = self.selftab(x.value, tables)
            if t:
                return t, self.v(x.slice)
        return None

    def cond(self, c):
        if isinstance(c, ast.BoolOp) and isinstance(c.op, ast.Or) and ast.unparse(c) not in self.flag_exprs:
            parts = [self.cond(v) for v in c.values]
            out = parts[-1]
            for p_ in reversed(parts[:-1]):
                out = f"(BOr {p_} {out})"
            return out
        if self.members is not None and isinstance(c, ast.UnaryOp) and isinstance(c.op, ast.Not) and isinstance(c.operand, ast.Name) \
                and c.operand.id == self.members:
            return "BMembersEmpty"
        if self.members is not None and ast.unparse(c) == f"self.has_simplex({self.members})":
            return "BHasSimplexMembers"
        if isinstance(c, ast.BoolOp) and isinstance(c.op, ast.And):
            parts = [self.cond(v) for v in c.values]
            out = parts[-1]
            for p in reversed(parts[:-1]):
                out = f"(BAnd {p} {out})"
            return out
        if isinstance(c, ast.UnaryOp) and isinstance(c.op, ast.Not):
            s = self.sub(c.operand, TABLES)
            if s:
                return f"(BEmptySet {s[1]} {s[0]})"
            return f"(BNot {self.cond(c.operand)})"
        if isinstance(c, ast.Name) and c.id in getattr(self, "abbrev", {}):
            return self.cond(self.abbrev[c.id])
        if isinstance(c, ast.Name) and c.id in self.flags:
            return f"(BFlag {self.flags.index(c.id)})"
        if ast.unparse(c) in self.flag_exprs:
            return f"(BFlag {self.flag_exprs[ast.unparse(c)]})"
        if isinstance(c, ast.Compare) and len(c.ops) == 1 and isinstance(c.ops[0], (ast.Is, ast.IsNot)) and self.idx is not None \
                and isinstance(c.left, ast.Name) and c.left.id == self.idx and ast.unparse(c.comparators[0]) == "None":
            return "BIdxNone" if isinstance(c.ops[0], ast.Is) else "(BNot BIdxNone)"
        if isinstance(c, ast.Compare) and len(c.ops) == 1 and isinstance(c.ops[0], ast.In) and self.members is not None \
                and ast.unparse(c.left) == "None" and isinstance(c.comparators[0], ast.Name) and c.comparators[0].id == self.members:
            return "BNoneInMembers"
        if isinstance(c, ast.Compare) and len(c.ops) == 1 and isinstance(c.ops[0], ast.In) and self.idx is not None \
                and isinstance(c.left, ast.Name) and c.left.id == self.idx:
            right = c.comparators[0]
            if isinstance(right, ast.Call) and isinstance(right.func, ast.Attribute) and right.func.attr == "keys" and not right.args:
                right = right.func.value          # x in d.keys()  ==  x in d
            t = self.selftab(right, TABLES)
            if t:
                return f"(BIdxIn {t})"
        if isinstance(c, ast.Compare) and len(c.ops) == 1 and isinstance(c.ops[0], (ast.Is, ast.IsNot)) \
                and ast.unparse(c.comparators[0]) == "None" and isinstance(c.left, ast.Name) and c.left.id in self.loops[:2]:
            return f"(BIsNone {self.v(c.left)})" if isinstance(c.ops[0], ast.Is) else f"(BNot (BIsNone {self.v(c.left)}))"
        if isinstance(c, ast.Compare) and len(c.ops) == 1 and isinstance(c.ops[0], (ast.In, ast.NotIn)):
            right = c.comparators[0]
            if isinstance(right, ast.Name) and right.id in self.locals and getattr(self, "local_sets", False):
                base = f"(BInLocal {self.locals.index(right.id)} {self.v(c.left)})"      # x in <a bound set>
                return base if isinstance(c.ops[0], ast.In) else f"(BNot {base})"
            if isinstance(right, ast.Call) and isinstance(right.func, ast.Attribute) and right.func.attr == "keys" and not right.args:
                right = right.func.value          # x in d.keys()  ==  x in d
            t = self.selftab(right, TABLES)
            if t is None and isinstance(right, ast.Name) and right.id == "self":
                t = "TNode"               # `n in self` is Hypergraph.__contains__: n in self._node
            if t:
                base = f"(BIn {self.v(c.left)} {t})"
            else:
                s = self.sub(right, TABLES)
                if not s:
                    raise TranslationError(f"condition not understood: {ast.unparse(c)}")
                base = f"(BMember {self.v(c.left)} {s[1]} {s[0]})"
            return base if isinstance(c.ops[0], ast.In) else f"(BNot {base})"
        raise TranslationError(f"condition not understood: {ast.unparse(c)}")

    def block(self, stmts):
        out = []
        for i, st in enumerate(stmts):
            # x = self._T[<v>]: a reference to the stored set; the rest of the block is its scope
            if isinstance(st, ast.Assign) and len(st.targets) == 1 and isinstance(st.targets[0], ast.Name):
                s = self.sub(st.value, TABLES)
                if s:
                    self.locals.insert(0, st.targets[0].id)
                    rest = self.block(stmts[i + 1:])
                    self.locals.pop(0)
                    out.append(f"(SBindIn {s[0]} {s[1]} {rest})")
                    return "[" + "; ".join(out) + "]"
            # x = next(self._edge_uid)  (a method without an id parameter): the rest of the block is its scope
            if isinstance(st, ast.Assign) and len(st.targets) == 1 and isinstance(st.targets[0], ast.Name) and self.idx is None \
                    and self.uid is None and self.always_auto and ast.unparse(st.value) == "next(self._edge_uid)":
                self.uid = st.targets[0].id
                rest = self.block(stmts[i + 1:])
                self.uid = None
                out.append(f"(SBindUid {rest})")
                return "[" + "; ".join(out) + "]"
            # idx = next(self._edge_uid) if not idx else idx  (the parameter is rebound; a falsy id counts as "not given")
            if isinstance(st, ast.Assign) and len(st.targets) == 1 and isinstance(st.targets[0], ast.Name) and self.idx is not None \
                    and st.targets[0].id == self.idx and ast.unparse(st.value) == f"next(self._edge_uid) if not {self.idx} else {self.idx}":
                rest = self.block(stmts[i + 1:])
                out.append(f"(SRebindIdxFalsy {rest})")
                return "[" + "; ".join(out) + "]"
            # uid = next(self._edge_uid) if idx is None else idx ; the rest of the block is its scope
            if isinstance(st, ast.Assign) and len(st.targets) == 1 and isinstance(st.targets[0], ast.Name) and self.idx is not None \
                    and self.uid is None and ast.unparse(st.value) == f"next(self._edge_uid) if {self.idx} is None else {self.idx}":
                self.uid = st.targets[0].id
                rest = self.block(stmts[i + 1:])
                self.uid = None
                out.append(f"(SBindUid {rest})")
                return "[" + "; ".join(out) + "]"
            out.append(self.stmt(st))
        return "[" + "; ".join(out) + "]"

    def guards(self, stmts):
        """leading `if c: raise E(...)` / `if c: warn(...); return` statements -> (guards, remaining statements)"""
        gs = []
        for i, st in enumerate(stmts):
            if isinstance(st, ast.If) and not st.orelse:
                b = st.body
                if len(b) == 1 and isinstance(b[0], ast.Raise) and isinstance(b[0].exc, ast.Call) and isinstance(b[0].exc.func, ast.Name) \
                        and b[0].exc.func.id in ("XGIError", "IDNotFound"):
                    gs.append(f"({self.cond(st.test)}, GRaise {b[0].exc.func.id})")
                    continue
                if len(b) == 2 and isinstance(b[0], ast.Expr) and isinstance(b[0].value, ast.Call) and isinstance(b[0].value.func, ast.Name) \
                        and b[0].value.func.id == "warn" and ((isinstance(b[1], ast.Return) and b[1].value is None and not self.item_mode)
                                                             or (isinstance(b[1], ast.Continue) and self.item_mode)):
                    gs.append(f"({self.cond(st.test)}, GWarnReturn)")
                    continue
            if isinstance(st, ast.If) and not st.orelse and len(st.body) == 1 and (
                    (isinstance(st.body[0], ast.Return) and st.body[0].value is None and not self.item_mode)
                    or (isinstance(st.body[0], ast.Continue) and self.item_mode)):
                gs.append(f"({self.cond(st.test)}, GReturn)")
                continue
            if self.item_mode and ast.unparse(st) == DECODE_MEMBERS:
                continue          # input decoding: the interpreter is handed list(members) and set(members)
            return gs, stmts[i:]
        return gs, []

    def stmt(self, st):
        if isinstance(st, ast.If):
            return f"(SIf {self.cond(st.test)} {self.block(st.body)} {self.block(st.orelse)})"
        if isinstance(st, ast.Raise) and isinstance(st.exc, ast.Call) and isinstance(st.exc.func, ast.Name) \
                and st.exc.func.id in ("XGIError", "IDNotFound", "ValueError"):
            return f"(SRaise {st.exc.func.id})"
        if isinstance(st, ast.Assign) and len(st.targets) == 1:
            tgt, val = st.targets[0], st.value
            s = self.sub(tgt, TABLES)
            if s and ast.unparse(val) == "set()":
                return f"(SNewSet {s[0]} {s[1]})"
            if s and self.members is not None and ast.unparse(val) in (self.members, f"frozenset({self.members})"):
                return f"(SSetMembers {s[0]} {s[1]})"
            s = self.sub(tgt, ATABLES)
            if s and ast.unparse(val) in ("{}", "self._node_attr_dict_factory()", "self._edge_attr_dict_factory()"):
                return f"(SNewAttr {s[0]} {s[1]})"
        if isinstance(st, ast.Expr) and isinstance(st.value, ast.Call):
            call = st.value
            if isinstance(call.func, ast.Name) and call.func.id == "update_uid_counter" and len(call.args) == 2 \
                    and ast.unparse(call.args[0]) == "self":
                return f"(SUid {self.v(call.args[1])})"
            if isinstance(call.func, ast.Attribute) and call.func.attr == "update" and len(call.args) == 1 \
                    and isinstance(call.args[0], ast.Name) and call.args[0].id == self.kwattr:
                s = self.sub(call.func.value, ATABLES)
                if s:
                    return f"(SAttrUpdate {s[0]} {s[1]})"
            if isinstance(call.func, ast.Attribute) and call.func.attr == "update" and len(call.args) == 1 \
                    and isinstance(call.args[0], ast.Name) and self.eattr is not None and call.args[0].id == self.eattr:
                s = self.sub(call.func.value, ATABLES)
                if s:
                    return f"(SAttrUpdateItem {s[0]} {s[1]})"
            if isinstance(call.func, ast.Attribute) and call.func.attr in ("add", "remove") and len(call.args) == 1:
                s = self.sub(call.func.value, TABLES)
                if s:
                    return f"({'SAdd' if call.func.attr == 'add' else 'SRemove'} {s[0]} {s[1]} {self.v(call.args[0])})"
        if isinstance(st, ast.Expr) and isinstance(st.value, ast.Call) and isinstance(st.value.func, ast.Attribute) \
                and st.value.func.attr == "clear" and not st.value.args and not st.value.keywords:
            t = self.selftab(st.value.func.value, TABLES)
            if t:
                return f"(SClear {t})"
            t = self.selftab(st.value.func.value, ATABLES)
            if t:
                return f"(SClearAttr {t})"
            if ast.unparse(st.value.func.value) == "self._net_attr":
                return "SClearNet"
        if isinstance(st, ast.Expr) and ast.unparse(st.value) in getattr(self, "calls", {}):
            return f"(SCall {self.calls[ast.unparse(st.value)]})"
        # self.<translated one-parameter method>(<v>)
        if isinstance(st, ast.Expr) and isinstance(st.value, ast.Call) and len(st.value.args) == 1 and not st.value.keywords \
                and ast.unparse(st.value.func) in getattr(self, "arg_calls", {}):
            return f"(SCallArg {self.arg_calls[ast.unparse(st.value.func)]} {self.v(st.value.args[0])})"
        if isinstance(st, ast.Delete) and len(st.targets) == 1:
            s = self.sub(st.targets[0], TABLES)
            if s:
                return f"(SDel {s[0]} {s[1]})"
            s = self.sub(st.targets[0], ATABLES)
            if s:
                return f"(SDelAttr {s[0]} {s[1]})"
        if isinstance(st, ast.For) and isinstance(st.target, ast.Name) and not st.orelse and len(self.loops) < 2:
            it = st.iter
            # self.edges.members(<v>) / self.nodes.memberships(<v>) return a copy of the stored set
            if isinstance(it, ast.Call) and len(it.args) == 1 and not it.keywords \
                    and ast.unparse(it.func) in ("self.edges.members", "self.nodes.memberships"):
                t = "TEdge" if ast.unparse(it.func) == "self.edges.members" else "TNode"
                k = self.v(it.args[0])
                self.loops.insert(0, st.target.id)
                body = self.block(st.body)
                self.loops.pop(0)
                return f"(SForCopy {t} {k} {body})"
            keyt = {"self.nodes": "TNode", "self._node": "TNode", "self": "TNode", "self.edges": "TEdge", "self._edge": "TEdge"}.get(ast.unparse(it))
            if keyt and not self.loops:
                # iterating the keys while the body runs: only `self._T[<loop>] = set()` on existing keys is accepted
                self.loops.insert(0, st.target.id)
                body = [self.stmt(b) for b in st.body]
                self.loops.pop(0)
                if any(b != f"(SNewSet {keyt} VLoop)" for b in body):
                    raise TranslationError(f"loop over the keys with a body that may change them: {ast.unparse(st)[:80]}")
                return f"(SForKeys {keyt} [{'; '.join(body)}])"
            if isinstance(it, ast.Name) and self.members is not None and it.id == self.members:
                self.loops.insert(0, st.target.id)
                body = self.block(st.body)
                self.loops.pop(0)
                return f"(SForMembers {body})"
            if isinstance(it, ast.Call) and isinstance(it.func, ast.Attribute) and it.func.attr == "copy" and not it.args:
                s = self.sub(it.func.value, TABLES)
                if s:
                    self.loops.insert(0, st.target.id)
                    body = self.block(st.body)
                    self.loops.pop(0)
                    return f"(SForCopy {s[0]} {s[1]} {body})"
            minus = None
            if isinstance(it, ast.Call) and isinstance(it.func, ast.Attribute) and it.func.attr == "difference" and len(it.args) == 1 \
                    and isinstance(it.args[0], ast.Set) and len(it.args[0].elts) == 1:
                minus, it = self.v(it.args[0].elts[0]), it.func.value
            if isinstance(it, ast.Name) and it.id in self.locals:
                idx = self.locals.index(it.id)
                self.loops.insert(0, st.target.id)
                body = self.block(st.body)
                self.loops.pop(0)
                m = "None" if minus is None else f"(Some {minus})"
                return f"(SForLocal {idx} {m} {body})"
        raise TranslationError(f"statement not understood: {ast.unparse(st)[:90]}")


SPEC = [("src_add_node", "add_node", ["node"], []),
        ("src_add_node_to_edge", "add_node_to_edge", ["edge", "node"], []),
        ("src_remove_edge", "remove_edge", ["idx"], []),
        ("src_remove_node", "remove_node", ["n"], ["strong", "remove_empty"]),
        ("src_remove_node_from_edge", "remove_node_from_edge", ["edge", "node"], ["remove_empty"])]


# methods over an iterable of ids / over flags only: (coq name, method, parameters, flag parameters, the iterable)
SPEC_L = [("src_remove_edges_from", "remove_edges_from", ["ebunch"], [], "ebunch"),
          ("src_clear", "clear", ["remove_net_attr"], ["remove_net_attr"], None),
          ("src_clear_edges", "clear_edges", [], [], None)]


def translate():
    tree = ast.parse(open(os.path.join(C.REPO, "xgi", "core", "hypergraph.py")).read())
    cls = [n for n in tree.body if isinstance(n, ast.ClassDef) and n.name == "Hypergraph"]
    if len(cls) != 1:
        raise TranslationError("class Hypergraph not found")
    out = []
    for coqname, pyname, labels, flags in SPEC:
        fns = [n for n in cls[0].body if isinstance(n, ast.FunctionDef) and n.name == pyname]
        if len(fns) != 1 or [a.arg for a in fns[0].args.args] != ["self"] + labels + flags:
            raise TranslationError(f"Hypergraph.{pyname} not found or unexpected parameters")
        kw = fns[0].args.kwarg.arg if fns[0].args.kwarg else None
        body = [s for s in fns[0].body if not (isinstance(s, ast.Expr) and isinstance(s.value, ast.Constant))]
        out.append(f"Definition {coqname} : list stmt :=\n  {M(labels, flags, kw).block(body)}.\n")
    for coqname, pyname, params, flags, members in SPEC_L:
        fns = [n for n in cls[0].body if isinstance(n, ast.FunctionDef) and n.name == pyname]
        if len(fns) != 1 or [a.arg for a in fns[0].args.args] != ["self"] + params or fns[0].args.kwarg or fns[0].args.vararg:
            raise TranslationError(f"Hypergraph.{pyname} not found or unexpected parameters")
        body = [s for s in fns[0].body if not (isinstance(s, ast.Expr) and isinstance(s.value, ast.Constant))]
        out.append(f"Definition {coqname} : list stmt :=\n  {M([], flags, None, members=members).block(body)}.\n")
    return out + translate_add_edge(cls[0]) + translate_add_edges_from_dict(cls[0]) + translate_add_edges_from_items(cls[0]) \
        + translate_remove_nodes_from(cls[0]) + translate_add_nodes_from(cls[0])


DECODE_MEMBERS = ("try:\n    members = list(members)\n    member_set = set(members)\n"
                  "except TypeError as e:\n    raise XGIError('Invalid ebunch format') from e")


def translate_add_edges_from_dict(cls):
    """the dict branch (format 5) of add_edges_from:  for idx, members in ebunch_to_add.items(): <item>  - the item is
    translated as a guarded body run once per (idx, members)"""
    fns = [n for n in cls.body if isinstance(n, ast.FunctionDef) and n.name == "add_edges_from"]
    if len(fns) != 1 or [a.arg for a in fns[0].args.args] != ["self", "ebunch_to_add"] or fns[0].args.kwarg is None:
        raise TranslationError("Hypergraph.add_edges_from not found or unexpected parameters")
    body = [s for s in fns[0].body if not (isinstance(s, ast.Expr) and isinstance(s.value, ast.Constant))]
    first = body[0] if body else None
    if not (isinstance(first, ast.If) and ast.unparse(first.test) == "isinstance(ebunch_to_add, dict)" and not first.orelse
            and len(first.body) == 2 and isinstance(first.body[1], ast.Return) and first.body[1].value is None):
        raise TranslationError("Hypergraph.add_edges_from: expected the dict branch first")
    loop = first.body[0]
    if not (isinstance(loop, ast.For) and ast.unparse(loop.target) == "(idx, members)" and ast.unparse(loop.iter) == "ebunch_to_add.items()"
            and not loop.orelse):
        raise TranslationError("Hypergraph.add_edges_from: expected `for idx, members in ebunch_to_add.items():`")
    m = M([], [], None, members="member_set", idx="idx")
    m.item_mode = True
    m.locals = ["members"]
    gs, rest = m.guards(loop.body)
    return [f"Definition src_add_edges_from_dict_guards : list (bexp * guard_action) :=\n  [{'; '.join(gs)}].\n",
            f"Definition src_add_edges_from_dict : list stmt :=\n  {m.block(rest)}.\n"]


FORMAT_DISPATCH = {
    # the tuple assigned to (members, idx, eattr) in each format -> (the id is the caller's, the item has its own attributes)
    "(e, next(self._edge_uid), {})": (False, False),
    "(e[0], e[1], {})": (True, False),
    "(e[0], next(self._edge_uid), e[1])": (False, True),
    "(e[0], e[1], e[2])": (True, True),
}
NEXT_ITEM = "try:\n    e = next(new_edges)\nexcept StopIteration:\n    break"


def translate_add_edges_from_items(cls):
    """formats 1-4 of add_edges_from: the `while True:` loop - the dispatch on the format (read into a table), the item
    (`if idx in self._edge.keys(): warn(...) else: <statements>`, translated as a guarded body) and the fetch of the next item"""
    fns = [n for n in cls.body if isinstance(n, ast.FunctionDef) and n.name == "add_edges_from"]
    if len(fns) != 1:
        raise TranslationError("Hypergraph.add_edges_from not found")
    loops = [s for s in fns[0].body if isinstance(s, ast.While)]
    if len(loops) != 1 or ast.unparse(loops[0].test) != "True" or loops[0].orelse or len(loops[0].body) != 3:
        raise TranslationError("Hypergraph.add_edges_from: expected one `while True:` loop of three statements")
    disp, item, nxt = loops[0].body
    # 1. the dispatch: if format1: members, idx, eattr = ... elif format2: ... elif format3: ... elif format4: ...
    table = []
    cur = disp
    for k in (1, 2, 3, 4):
        if not (isinstance(cur, ast.If) and isinstance(cur.test, ast.Name) and cur.test.id == f"format{k}" and len(cur.body) == 1
                and isinstance(cur.body[0], ast.Assign) and ast.unparse(cur.body[0].targets[0]) == "(members, idx, eattr)"
                and ast.unparse(cur.body[0].value) in FORMAT_DISPATCH):
            raise TranslationError(f"Hypergraph.add_edges_from: dispatch of format {k} not understood")
        table.append(FORMAT_DISPATCH[ast.unparse(cur.body[0].value)])
        if k < 4:
            if len(cur.orelse) != 1:
                raise TranslationError("Hypergraph.add_edges_from: dispatch chain not understood")
            cur = cur.orelse[0]
        elif cur.orelse:
            raise TranslationError("Hypergraph.add_edges_from: dispatch chain not understood")
    # 3. the fetch of the next item
    if ast.unparse(nxt) != NEXT_ITEM:
        raise TranslationError("Hypergraph.add_edges_from: fetch of the next item not understood")
    # 2. the item
    if not (isinstance(item, ast.If) and len(item.body) == 1 and isinstance(item.body[0], ast.Expr) and isinstance(item.body[0].value, ast.Call)
            and isinstance(item.body[0].value.func, ast.Name) and item.body[0].value.func.id == "warn" and item.orelse):
        raise TranslationError("Hypergraph.add_edges_from: item not understood")
    m = M([], [], fns[0].args.kwarg.arg, members="member_set", idx="idx")
    m.item_mode = True
    m.locals = ["members"]
    m.eattr = "eattr"
    # `format2 or format4` etc.: a disjunction of format names is the flag "the id is the caller's" iff it lists exactly those formats
    explicit = [f"format{k + 1}" for k, (ex, _) in enumerate(table) if ex]
    m.flag_exprs = {" or ".join(explicit): 0}
    g0 = f"({m.cond(item.test)}, GWarnReturn)"
    gs, rest = m.guards(item.orelse)
    tab = "; ".join(f"({str(ex).lower()}, {str(ea).lower()})" for ex, ea in table)
    return [f"Definition src_bulk_formats : list (bool * bool) :=\n  [{tab}].\n",
            f"Definition src_bulk_item_guards : list (bexp * guard_action) :=\n  [{'; '.join([g0] + gs)}].\n",
            f"Definition src_bulk_item : list stmt :=\n  {m.block(rest)}.\n"]


def translate_remove_nodes_from(cls):
    """remove_nodes_from(self, nodes, strong=False, remove_empty=True): for n in nodes: <guards>; self.remove_node(n, ...)"""
    fns = [n for n in cls.body if isinstance(n, ast.FunctionDef) and n.name == "remove_nodes_from"]
    if len(fns) != 1 or [a.arg for a in fns[0].args.args] != ["self", "nodes", "strong", "remove_empty"]:
        raise TranslationError("Hypergraph.remove_nodes_from not found or unexpected parameters")
    body = [s for s in fns[0].body if not (isinstance(s, ast.Expr) and isinstance(s.value, ast.Constant))]
    if not (len(body) == 1 and isinstance(body[0], ast.For) and isinstance(body[0].target, ast.Name) and ast.unparse(body[0].iter) == "nodes"
            and not body[0].orelse):
        raise TranslationError("Hypergraph.remove_nodes_from: expected one loop over `nodes`")
    var = body[0].target.id
    m = M([], ["strong", "remove_empty"], None)
    m.item_mode = True
    m.loops = [var]
    gs, rest = m.guards(body[0].body)
    if len(rest) != 1 or ast.unparse(rest[0]) != f"self.remove_node({var}, strong=strong, remove_empty=remove_empty)":
        raise TranslationError("Hypergraph.remove_nodes_from: expected the call of remove_node with the same options")
    return [f"Definition src_remove_nodes_from_guards : list (bexp * guard_action) :=\n  [{'; '.join(gs)}].\n"]


DECODE_NODE_ITEM = ("try:\n    newnode = n not in self._node\n    newdict = attr\nexcept TypeError:\n    n, ndict = n\n"
                    "    newnode = n not in self._node\n    newdict = attr.copy()\n    newdict.update(ndict)")


def translate_add_nodes_from(cls):
    """add_nodes_from(self, nodes_for_adding, **attr): for n in nodes_for_adding: <decoding>; <statements>.  The decoding (is the item a
    node or a (node, dict) pair; newnode = n not in self._node; newdict = attr, or a copy of attr updated with the item's dict) is
    accepted verbatim: the interpreter is handed the node and the dict, `newnode` is read as the condition it abbreviates"""
    fns = [n for n in cls.body if isinstance(n, ast.FunctionDef) and n.name == "add_nodes_from"]
    if len(fns) != 1 or [a.arg for a in fns[0].args.args] != ["self", "nodes_for_adding"] or fns[0].args.kwarg is None \
            or fns[0].args.kwarg.arg != "attr":
        raise TranslationError("Hypergraph.add_nodes_from not found or unexpected parameters")
    body = [s for s in fns[0].body if not (isinstance(s, ast.Expr) and isinstance(s.value, ast.Constant))]
    if not (len(body) == 1 and isinstance(body[0], ast.For) and isinstance(body[0].target, ast.Name) and body[0].target.id == "n"
            and ast.unparse(body[0].iter) == "nodes_for_adding" and not body[0].orelse and body[0].body
            and ast.unparse(body[0].body[0]) == DECODE_NODE_ITEM):
        raise TranslationError("Hypergraph.add_nodes_from: loop or decoding of the item not understood")
    m = M([], [], "newdict")
    m.loops = ["n"]
    m.flag_exprs = {}
    m.abbrev = {"newnode": ast.parse("n not in self._node", mode="eval").body}
    return [f"Definition src_add_nodes_from_item : list stmt :=\n  {m.block(body[0].body[1:])}.\n"]


def translate_add_edge(cls):
    """add_edge(self, members, idx=None, **attr): `members = set(members)`, guards, statements"""
    fns = [n for n in cls.body if isinstance(n, ast.FunctionDef) and n.name == "add_edge"]
    if len(fns) != 1:
        raise TranslationError("Hypergraph.add_edge not found")
    f = fns[0]
    if [a.arg for a in f.args.args] != ["self", "members", "idx"] or len(f.args.defaults) != 1 \
            or ast.unparse(f.args.defaults[0]) != "None" or f.args.kwarg is None or f.args.vararg or f.args.kwonlyargs:
        raise TranslationError("Hypergraph.add_edge: unexpected parameters")
    body = [s for s in f.body if not (isinstance(s, ast.Expr) and isinstance(s.value, ast.Constant))]
    if not body or ast.unparse(body[0]) != "members = set(members)":
        raise TranslationError("Hypergraph.add_edge: expected `members = set(members)` first")
    m = M([], [], f.args.kwarg.arg, members="members", idx="idx")
    gs, rest = m.guards(body[1:])
    return [f"Definition src_add_edge_guards : list (bexp * guard_action) :=\n  [{'; '.join(gs)}].\n",
            f"Definition src_add_edge : list stmt :=\n  {m.block(rest)}.\n"]


def regenerate():
    defs = translate()
    os.makedirs(GEN, exist_ok=True)
    text = ("(* GENERATED by harness/translate_mutators.py from xgi/core/hypergraph.py (add_node, add_node_to_edge, remove_edge, remove_node, remove_node_from_edge, add_edge, remove_edges_from, clear, clear_edges) - do not edit. *)\n"
            "From Coq Require Import List.\nFrom XV Require Import Base.Outcome Model.PyIR.\nImport ListNotations.\n\n" + "\n".join(defs))
    p = os.path.join(GEN, "Mutators.v")
    if not os.path.exists(p) or open(p).read() != text:
        open(p, "w").write(text)
    return defs
