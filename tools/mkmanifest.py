#!/usr/bin/env python3
"""Regenerate /verif/MANIFEST.json from the table below (kept valid at all times)."""
import json, os
HERE = os.path.dirname(os.path.dirname(os.path.abspath(__file__)))
ALL = [f"C{i:02d}" for i in range(1, 21)]
CLAIMED = {
 "C01": ("Theorem C01_history_wf: the invariant Inv (two-way incidence, equal key lists of structure and attribute tables, duplicate-free sets, id counter above every integer id) holds after every admissible history of the 27-op Hypergraph alphabet and every prefix, raising calls included; C01_reports turns Inv into the statement about reported members/memberships/attribute records. The model is tied to /repo by a per-run correspondence: generated histories are executed on the working tree and the model is evaluated on them inside Coq (vm_compute).",
         "DESIGN.md 5/C01", "invariant by induction over operations (Coq) + correspondence on generated histories + oracle"),
 "C02": ("Theorem C02_history_wf: DInv (C01's invariant on the tail side and on the head side, plus agreement of their key sets and counters) after every history of the 20-op DiHypergraph alphabet, raising calls included; C02_reports states tail<->out, head<->in, nothing dangling. Correspondence as for C01 on directed histories.",
         "DESIGN.md 5/C02", "invariant by induction over operations (Coq) + correspondence on generated histories + oracle"),
 "C03": ("Theorem C03_history_inv: SInv (C01's invariant + every sub-face with at least two nodes of every simplex is a simplex + no two ids carry the same node set + no simplex is empty) after every history of the 20-op SimplicialComplex alphabet, for every iteration order of the face sets (hint) and raising calls included; C03_remove_exact, C03_max_order, C03_has_simplex_exact. Correspondence on generated histories as for C01.",
         "DESIGN.md 5/C03", "invariant by induction over operations (Coq) + correspondence on generated histories + oracle"),
 "C04": ("Theorems C04_history_uid_hg (counter above every integer-like id after every history), C04_auto_fresh, C04_add_frame / C04_bulk_add_frame (old edges keep position, members, attributes; memberships only gain new ids), C04_explicit_dup_refused. Correspondence compares edge tables, attribute values, warnings and the next automatic id step by step; every provenance of all three classes is probed by the oracle with automatic/explicit additions.",
         "DESIGN.md 5/C04", "invariant + frame theorems (Coq) + correspondence incl. next-id + provenance sweep oracle"),
 "C05": ("Theorems over the Hypergraph model: C05_error_types (every op ends in Ok/XGIError/IDNotFound; IndexError, TypeError, ValueError are confined to the listed ops), declarative effects C05_remove_node_strong, C05_remove_node_weak (with remove_empty), C05_remove_edge, C05_add_edge (with frame), C05_attr_precedence, C05_swap_preserves (degrees, sizes, ids, attributes). PARTIAL: the effects of merge_duplicate_edges, update, the setters, clear/clear_edges and random_edge_shuffle, and all effects for the directed and simplicial classes, are not stated as theorems; they are covered by the full-snapshot correspondence (all three classes) and, for Hypergraph, by the documentation-level reference oracle on every step.",
         "DESIGN.md 5/C05", "declarative effect theorems (Coq) + full-snapshot correspondence on histories + documentation-level reference oracle"),
 "C18": ("freeze() is modelled as a dispatch over the list of replaced method names, which a fail-closed translator regenerates from the three freeze() bodies on every run (Gen/FreezeLists.v). Theorems: C18_lists_protect (reflective obligation over the regenerated lists: every table-writing method is replaced), C18_frozen_unchanged_{hg,di,sc} (for every op of the class, compound methods, deprecated aliases and in-place helpers included, and every argument, nodes/edges/memberships are unchanged), C18_frozen_blocks (direct mutators: XGIError, state untouched), C18_unfrozen_is_step. Correspondence: two-phase histories (edits, freeze(), more calls) against fstep/dfstep/sfstep; every public method found by introspection is probed unfrozen and frozen, so a new mutator that the model does not know breaks the correspondence.",
         "DESIGN.md 5/C18", "regenerated freeze lists + reflective obligation + dispatch theorems (Coq) + two-phase correspondence + method-surface probing"),
 "C07": ("PARTIAL. Theorems: C07_duplicate_wellformed_partial (the network rebuilt by copy() / Hypergraph(H) satisfies the C01/C04 invariant for every source state, although copy() takes the id counter from the source), C07_both_fresh_ids, C07_pickle_equal (state dictionary round trip). Equality of the duplicate with its source and independence - structural in both directions and for nested attribute values reached through copy() - are NOT theorems (they need an aliasing model): they are decided on every run by the correspondence (model duplicate vs observed duplicate for copy() and Class(net), three classes) and by the oracle (equality, independence both ways, nested in-place mutations, fresh ids on both sides).",
         "DESIGN.md 5/C07", "well-formedness/fresh-id theorems (Coq) + correspondence of duplicates + equality/independence/aliasing oracle"),
 "C19": ("PARTIAL (theorems pending in this session: see DESIGN.md). Every derived network is modelled as the code builds it (Model/Derived.v: subhypergraph with node/edge selections and keep_isolates, dual, <<, cut_to_order/k_skeleton, cleanup/relabelling/largest component with in_place=False, from_max_simplices, complement as a set of sets); Proofs/Build.v proves that filling a network through add_edges_from (format 4) yields exactly the listed edges, nodes and attributes (build_edges_effect), the lemma on which the characterisations rest. On every run the model's derived network is compared with the implementation's (full snapshot) and the oracle checks the set-theoretic definition of the property text, including all 32 cleanup flag sets and the dual involution.",
         "DESIGN.md 5/C19", "model of each derived network + build lemma (Coq) + correspondence + set-theoretic oracle"),
 "C06": ("Theorems: C06_degree_memberships, C06_size_members, C06_handshake and C06_handshake_order (double counting, for every state satisfying the C01 invariant, hence every reachable state), C06_formats_agree, C06_filterby_exact (all 7 modes), C06_isolates_singletons_empty, C06_neighbors_spec, C06_lookup_spec, C06_maximal_spec (membership-intersection test <-> no strict superset). Liveness is by construction of the model (a statistic is a function of the current state) and is checked against the code by the oracle, which holds views and stats across mutations. PARTIAL: duplicates, filterby_attr, neighbors(s>1), the directed statistics and the pandas/numpy containers are covered by correspondence/oracle only; the known open finding about directed neighbors/duplicates/lookup is recorded in known_findings.json.",
         "DESIGN.md 5/C06", "definitional + double-counting + filter exactness theorems (Coq) + query correspondence + definition/liveness oracle"),
 "C16": ("Theorems, for all n, m and sizes (no bound): C16_comb_decoder_spec (_index_to_edge_comb(index, n, m) is the index-th m-combination of range(n) in lexicographic order; the two nested loops are transcribed with fuel n), C16_comb_bijection, C16_prod_bijection (base-n digits), C16_partition_bijection (mixed radix), C16_skip_sampling and C16_sampled_edges_distinct (for every sequence of geometric draws >= 1 the visited indices, hence the sampled edges, are pairwise distinct and in range). Correspondence: the three decoders exhaustively on a grid; uniform_erdos_renyi_hypergraph and fast_random_hypergraph re-run in the model from the recorded geometric draws. PARTIAL: the other generator contracts (node sets, sizes, p in {0,1}, complete hypergraphs, configuration-model degrees, lattice/star/sunflower shapes, closure of generated complexes, flag complexes = cliques) are decided by the oracle on parameter grids, not by theorems.",
         "DESIGN.md 5/C16", "unranking theorems (Coq) + exhaustive decoder tables + generator replay from recorded draws + contract oracle"),
 "C12": ("Theorems (for every model state, order, s >= 1, weighted flag): C12_incidence_entry/shape (a one exactly where the i-th node is a member of the j-th edge of the order), C12_adjacency_entry (zero diagonal; off the diagonal the number of shared edges, thresholded by s), C12_shared_is_count, C12_adjacency_symmetric, C12_adjacency_shape (N x N also without edges / edges of the order), C12_degree_entry, C12_laplacian_entry, C12_laplacian_symmetric; at every state reachable by an admissible history (Inv, by C01's induction): C12_laplacian_row_sums (rows of d K - A sum to zero) and C12_laplacian_psd (x^T L x >= 0 for every integer vector indexed by node label, via Cauchy-Schwarz per edge). Correspondence: incidence / adjacency / degree / intersection profile / clique motif / order-d Laplacian (integer, exact) and the multi-order Laplacian (exact rationals) of generated hypergraphs, sparse or dense at random, compared with the model. PARTIAL: the adjacency tensor, the normalised Laplacian, the multi-order combination's row sums/PSD and sparse = dense for every argument combination are decided by the numpy oracle (entry-wise textbook construction from members()), not by theorems.",
        "DESIGN.md 5/C12", "entry-wise matrix theorems + Laplacian row-sum/PSD theorems over reachable states (Coq) + exact matrix correspondence + brute-force oracle"),
 "C13": ("Theorems: C13_double_boundary_zero (for every simplex and every candidate face the signed count of the two-step deletions vanishes, by induction on the simplex), C13_dd_zero (every entry of B_k B_{k+1} is zero for every orientation assignment, given that no simplex is listed twice and every facet is listed - what C03 proves of simplicial complexes), C13_entry_formula. Correspondence: every boundary matrix B_0..B_{dim+1} with its index maps and every Hodge Laplacian of generated complexes (int/string labels, explicit ids, random orientations) compared exactly with the model. PARTIAL: symmetry/positive semidefiniteness of the Hodge Laplacians and dim ker L0 = number of components are checked by the oracle (numpy), not proved; the link from C03's invariant to the two hypotheses of C13_dd_zero goes through the canonical sorting of member lists, which is not proved.",
         "DESIGN.md 5/C13", "chain-complex identity (Coq, induction on the simplex) + exact matrix correspondence + numerical oracle"),
 "C15": ("PARTIAL. Theorem C15_trie_search (the prefix tree of utils/trie.py, transcribed with its insert and search, answers exactly whether the sorted word is one of the sorted inserted words, for all words and all insertion sequences). The three measures (edit distance with its redundancy bookkeeping over earlier overlapping maximal faces, face edit distance, simplicial fraction) are transcribed over exact rationals and compared with the implementation for min_size 1..3, both exclude_min_size and normalize values; that they equal the enumerative definitions, lie in [0,1] or are NaN, and equal 1 on downward-closed hypergraphs is decided by the brute-force oracle, not by a theorem (the inclusion-exclusion argument is described in DESIGN.md and left unproved).",
         "DESIGN.md 5/C15", "trie correctness theorem (Coq) + exact-rational correspondence of the three measures + exhaustive-enumeration oracle"),
}
NOTE = ("trusted: Coq 8.16.1 kernel and vm_compute; no axioms (Print Assumptions: Closed under the global context); "
        "harness generators/serialiser/observation; CPython containers and numeric libraries are environment "
        "validated only by the correspondence run")
checks = []
for p, (text, ref, tech) in sorted(CLAIMED.items()):
    checks.append({
        "property_id": p,
        "quick_cmd": f"./check {p} --tier quick",
        "thorough_cmd": f"./check {p} --tier thorough",
        "evidence_file": f"evidence/{p}.json",
        "replay_cmd_template": f"./check {p} --replay {{path}}",
        "engine": "coq-model",
        "level_claimed": {"category": "proof", "text": text, "design_ref": ref},
        "level_note": NOTE,
        "technique": tech,
    })
m = {
 "version": 1,
 "setup_cmd": "cd /verif && ./check --setup",
 "hooks": {"guard": "XGI_VERIF",
           "enable": "no source hooks are needed: checks observe through the public API and wrap RNG callables from the harness process; XGI_VERIF=1 is set by ./check and never read by the repository",
           "baseline_off_cmd": "cd /verif && python3 tools/baseline.py",
           "source_commits": [], "add_only": True},
 "engines": [{"name": "coq-model", "path": "coq/", "serves_properties": sorted(CLAIMED),
              "kind_free_text": "hand-written executable Gallina model + theorems (Coq 8.16.1); correspondence evaluated by vm_compute on generated case files; Python oracle per property"}],
 "checks": checks,
 "not_applicable": [{"property_id": p, "reason": "not built yet in this session (work in progress, see DESIGN.md section 10 for the order of work); no claim is made"} for p in ALL if p not in CLAIMED],
 "notes": "See DESIGN.md. Every check rebuilds the Coq targets it needs, re-checks the property theorems, regenerates and re-evaluates the correspondence cases against /repo's working tree.",
}
json.dump(m, open(os.path.join(HERE, "MANIFEST.json"), "w"), indent=1)
try:
    import jsonschema
    jsonschema.validate(m, json.load(open("/root/.vp/MANIFEST.schema.json")))
    print("MANIFEST.json valid;", len(checks), "checks")
except ImportError:
    print("written (jsonschema not available to validate)")
