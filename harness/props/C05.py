"""C05 - each edit has exactly its documented effect."""
from .. import common as C, histcheck as HC, hgsim, disim, scsim, refspec as R
from . import base, C01, C02, C03

PROP = "C05"
PROJ = "(mkProj true true true true)"
EMPTY_OB = {"nodes": [], "nattr": [], "edges": [], "eattr": [], "net": {}, "uid": 0, "broken": None}


def swap_oracle(op, before, after, exc):
    """degree- and size-preserving moves keep every degree, every size, all ids and attributes"""
    if after.get("broken"):
        return "observation failed: " + after["broken"]
    if [n for n, _ in before["nodes"]] != [n for n, _ in after["nodes"]] or \
       [e for e, _ in before["edges"]] != [e for e, _ in after["edges"]]:
        return f"{op[0]} changed the ids"
    if before["nattr"] != after["nattr"] or before["eattr"] != after["eattr"] or before["net"] != after["net"]:
        return f"{op[0]} changed attributes"
    if [len(es) for _, es in before["nodes"]] != [len(es) for _, es in after["nodes"]]:
        return f"{op[0]} changed a node degree"
    if [len(ms) for _, ms in before["edges"]] != [len(ms) for _, ms in after["edges"]]:
        return f"{op[0]} changed an edge size"
    if exc is not None and (before["nodes"] != after["nodes"] or before["edges"] != after["edges"]):
        return f"{op[0]} raised {exc} but modified the network"
    if exc not in (None, "XGIError", "IDNotFound") and not (op[0] == "random_edge_shuffle" and exc == "ValueError"):
        return f"{op[0]} raised {exc}, not the library's error type"
    return None


def oracle_history_hg(rec):
    prev = EMPTY_OB
    for i, (op, extra, ob, exc) in enumerate(zip(rec["ops"], rec["extras"], rec["obs"], rec["excs"])):
        if ob.get("broken"):
            return i, "observation failed: " + ob["broken"]
        if op[0] in ("double_edge_swap", "random_edge_shuffle"):
            d = swap_oracle(op, prev, ob, exc)
            if d:
                return i, d
        else:
            op2 = op
            if op[0] == "add_edge" and extra is not None:
                op2 = (op[0], extra, op[2], op[3])      # members in the iteration order of the set
            r = R.ref_step(R.state_of(prev), op2, extra)
            if r is not None:
                st, warns, classes = r
                if classes is None and exc is not None:
                    return i, f"{op[0]} raised {exc} where the documented behaviour is to succeed"
                if classes is not None and exc not in classes:
                    return i, f"{op[0]} ended with {exc or 'no exception'} where {'/'.join(classes)} is documented"
                d = R.compare(st, ob, check_uid=(exc is None))
                if d:
                    return i, f"after {op[0]}: {d}"
                if warns != rec["warns"][i]:
                    return i, f"{op[0]} issued {rec['warns'][i]} warnings, {warns} documented"
        prev = ob
    return None


def lib_error_oracle(rec, removal_ops):
    """for the other two classes: an edit naming a missing id ends in the library's error type"""
    prev_nodes, prev_edges = set(), set()
    for i, (op, ob, exc) in enumerate(zip(rec["ops"], rec["obs"], rec["excs"])):
        if ob.get("broken"):
            return i, "observation failed: " + ob["broken"]
        if op[0] in removal_ops and exc not in (None, "XGIError", "IDNotFound"):
            return i, f"{op[0]} raised {exc}, not the library's error type"
        prev_nodes = {repr(n) for n, _ in ob["nodes"]}
        prev_edges = {repr(e) for e, _ in ob["edges"]}
    return None


REMOVALS = {"remove_node", "remove_nodes_from", "remove_edge", "remove_edges_from", "remove_node_from_edge",
            "remove_simplex_id", "remove_simplex_ids_from", "add_node_to_edge", "add_node", "add_nodes_from"}


def run(v):
    proof = base.proof_stage(v, PROP)
    p = C01.params()
    failures, reports, errors = [], [], []
    total = 0
    allrecs = []
    for sim, imp, klass, orc, share in (
            (hgsim, C01.COQ_IMPORT, "Hypergraph", oracle_history_hg, 1.0),
            (disim, C02.COQ_IMPORT, "DiHypergraph", lambda r: lib_error_oracle(r, REMOVALS), 0.4),
            (scsim, C03.COQ_IMPORT, "SimplicialComplex", lambda r: lib_error_oracle(r, REMOVALS), 0.4)):
        recs = HC.gen_histories(sim, int(p["n_cases"] * share), p["max_len"], C.seed() + 5,
                                corpus=HC.load_corpus(PROP) if klass == "Hypergraph" else ())
        total += len(recs)
        allrecs += recs
        for r in recs:
            f = orc(r)
            if f:
                i, d = f
                failures.append((f"{PROP}:{klass}.{r['ops'][i][0]}:{' '.join(d.split(' ')[:4])}",
                                 {"what": d, "class": klass, "history": HC.jsonable(r["ops"][:i + 1]), "step": i}))
        mism, errs = HC.eval_histories(PROP, sim, recs, imp, PROJ)
        errors += errs
        for ci, si in mism[:2]:
            small = HC.shrink(PROP, sim, recs[ci]["ops"][:si + 1], imp, PROJ)
            r, mtrace = HC.model_trace(PROP, sim, small, imp)
            f = orc(r)
            if f:
                i, d = f
                failures.append((f"{PROP}:{klass}.{small[i][0]}:{' '.join(d.split(' ')[:4])}",
                                 {"what": d, "class": klass, "history": HC.jsonable(small[:i + 1]), "step": i}))
            reports.append({"correspondence": f"{imp.split()[-1]}.mismatches {PROJ}", "class": klass,
                            "history": HC.jsonable(small), "implementation_outcomes": r["excs"],
                            "implementation_last": HC.jsonable(r["obs"][-1]), "model_trace": mtrace})
        for ci, si in mism[2:]:
            reports.append({"correspondence": f"{imp.split()[-1]}.mismatches {PROJ}", "class": klass, "case": ci,
                            "step": si, "history": HC.jsonable(recs[ci]["ops"][:si + 1])})
    st = HC.stats(allrecs)
    v.coverage.update({
        "evaluations": total,
        "distinct_nontrivial": st.pop("distinct_nontrivial"),
        "rule": "edit histories of all three classes compared with the model on the full snapshot (order, members, "
                "every attribute value, network attributes, exception class, warnings, next id); the oracle is a "
                "documentation-level reference (harness/refspec.py) applied to every single step of the Hypergraph "
                "histories plus the preservation laws of swap/shuffle; non-trivial = history changes the tables",
        "samples": [HC.jsonable(r["ops"][:5]) for r in allrecs[:3]],
        "oracle_evaluations": sum(len(r["obs"]) for r in allrecs),
        "exhaustive": False,
        **st,
    })
    base.conclude(v, proof, reports, failures, errors)


def replay(payload):
    klass = payload.get("class") or payload.get("detail", {}).get("class") or "Hypergraph"
    sim, imp, orc = {"Hypergraph": (hgsim, C01.COQ_IMPORT, oracle_history_hg),
                     "DiHypergraph": (disim, C02.COQ_IMPORT, lambda r: lib_error_oracle(r, REMOVALS)),
                     "SimplicialComplex": (scsim, C03.COQ_IMPORT, lambda r: lib_error_oracle(r, REMOVALS))}[klass]
    return HC.replay_history(PROP, sim, payload, imp, PROJ, orc)
