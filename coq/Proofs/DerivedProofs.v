(* C19 / C07: characterisations of networks built through the bulk methods. *)
From Coq Require Import String ZArith List Bool Lia.
From XV Require Import Base.Label Base.LSet Base.ODict Base.Attr Base.Outcome Model.Hypergraph
  Model.Copy Model.Derived
  Proofs.HgViews Proofs.HgInv Proofs.HgInvOps Proofs.HgStep Proofs.HgKeys Proofs.HgErrors Proofs.Build
  Proofs.CopyProofs.
Import ListNotations.
Open Scope Z_scope.

(* None is never a node or an edge id (IDDict refuses it) *)
Definition NoNone (s : hg) : Prop := ~ In LNone (nkeys s) /\ ~ In LNone (ekeys s).

Lemma bind_ok_st r k : out_of r = Ok -> st_of (bind r k) = st_of (k (st_of r)) /\ out_of (bind r k) = out_of (k (st_of r)).
Proof.
  destruct r as [[s o] w]. unfold out_of, st_of. simpl. intros ->. destruct (k s) as [[s' o'] w']. split; reflexivity.
Qed.

Lemma is_none_false x : x <> LNone -> is_none x = false.
Proof. destruct x; try reflexivity. intro H. exfalso. apply H. reflexivity. Qed.

Lemma no_none_members l : ~ In LNone l -> existsb is_none (mkset l) = false.
Proof.
  intro H. destruct (existsb is_none (mkset l)) eqn:E; [|reflexivity].
  apply existsb_exists in E. destruct E as (x & Hx & Hn). apply (proj1 (In_mkset x l)) in Hx.
  destruct x; try discriminate. contradiction.
Qed.

Lemma NoDup_app_absorb {A} (a l : list A) : NoDup (a ++ l) -> (forall x, In x l -> In x a) -> l = [].
Proof.
  intros ND H. destruct l as [|x l]; [reflexivity|]. exfalso.
  apply NoDup_remove_2 in ND. apply ND. apply in_app_iff. left. apply H. left; reflexivity.
Qed.

Lemma members_are_nodes s e x : Inv s -> In x (mems s e) -> In x (nkeys s).
Proof. intros I H. destruct (Inv_reports_core s I) as (_ & M & _). apply (M e x H). Qed.

(* ---------- subhypergraph(H, nodes, edges, keep_isolates=True) ---------- *)

Definition sub_nset (nodes : option (list lbl)) (s : hg) : list lbl :=
  match nodes with None => keys (h_node s) | Some l => filter (fun n => mem n l) (keys (h_node s)) end.
Definition sub_eset (edges : option (list lbl)) (s : hg) : list lbl :=
  match edges with None => keys (h_edge s) | Some l => filter (fun e => mem e l) (keys (h_edge s)) end.

Theorem subhypergraph_exact nodes edges s :
  Inv s -> NoNone s ->
  let r := subhypergraph nodes edges true s in
  let t := st_of r in
  let nset := sub_nset nodes s in
  let kept := filter (fun e => ssubset (mems s e) nset) (sub_eset edges s) in
  out_of r = Ok /\ Inv t /\
  nkeys t = nset /\ ekeys t = kept /\
  (forall e, In e kept -> (exists M, get e (h_edge t) = Some M /\ seteq M (mems s e)) /\
                          get e (h_eattr t) = Some (aupdate [] (aupdate [] (geta e (h_eattr s))))) /\
  (forall n, In n nset -> get n (h_nattr t) = Some (aupdate [] (aupdate [] (geta n (h_nattr s))))) /\
  h_net t = h_net s.
Proof.
  intros I (NN & NE). cbv zeta. unfold subhypergraph.
  fold (sub_nset nodes s). fold (sub_eset edges s).
  set (nset := sub_nset nodes s). set (eset := sub_eset edges s).
  set (nitems := map (fun n => (n, Some (geta n (h_nattr s)))) nset).
  set (kept := filter (fun e => ssubset (getl e (h_edge s)) nset) eset).
  set (eitems := map (fun e => (getl e (h_edge s), e, geta e (h_eattr s))) kept).
  pose proof I as (_ & (_ & _ & K3 & K4) & _).
  assert (Hns : forall n, In n nset -> In n (nkeys s)).
  { intros n H. unfold nset, sub_nset in H. destruct nodes; [apply filter_In in H; tauto|exact H]. }
  assert (Hes : forall e, In e eset -> In e (ekeys s)).
  { intros e H. unfold eset, sub_eset in H. destruct edges; [apply filter_In in H; tauto|exact H]. }
  assert (NDn : NoDup nset) by (unfold nset, sub_nset; destruct nodes; [apply NoDup_filter|]; exact K3).
  assert (NDe : NoDup kept).
  { unfold kept. apply NoDup_filter. unfold eset, sub_eset. destruct edges; [apply NoDup_filter|]; exact K4. }
  set (s0 := with_net hg_empty (h_net s)).
  assert (I0 : Inv s0) by (apply Inv_with_net; apply Inv_empty).
  assert (Fn : map fst nitems = nset) by (unfold nitems; rewrite map_map; simpl; apply map_id).
  destruct (build_nodes_effect nitems [] s0 I0) as (O1 & I1 & K1 & E1 & EA1 & NT1 & U1 & New1 & _).
  { rewrite Fn. exact NDn. }
  { intros it Hit. unfold nitems in Hit. apply in_map_iff in Hit. destruct Hit as (n & <- & Hn). simpl.
    split; [apply is_none_false; intro; subst; apply NN; apply Hns; exact Hn|intros []]. }
  cbv zeta in *. rewrite Fn in K1. simpl in K1.
  destruct (bind_ok_st (add_nodes_from nitems [] s0)
              (fun s1 => bind (add_edges_from (EB4 eitems) [] s1) (fun s2 => ok s2)) O1) as [B1 B2].
  rewrite B1, B2. set (s1 := st_of (add_nodes_from nitems [] s0)) in *.
  assert (Fe : map item_id eitems = kept) by (unfold eitems; rewrite map_map; simpl; apply map_id).
  assert (Ek1 : ekeys s1 = []) by (unfold ekeys; rewrite E1; reflexivity).
  destruct (build_edges_effect eitems [] s1 I1) as (O2 & W2 & I2 & E2 & Items & _ & NK2 & (l & NP2) & NA2 & NT2).
  { split; [rewrite Fe; exact NDe|]. intros it Hit. unfold eitems in Hit. apply in_map_iff in Hit.
    destruct Hit as (e & <- & He). unfold item_id, item_ms. simpl.
    assert (Hek : In e (ekeys s)) by (apply Hes; unfold kept in He; apply filter_In in He; tauto).
    split; [rewrite Ek1; intros []|]. split; [apply is_none_false; intro; subst; contradiction|].
    apply no_none_members. intro Hm. apply NN. apply (members_are_nodes s e LNone I Hm). }
  cbv zeta in *.
  destruct (bind_ok_st (add_edges_from (EB4 eitems) [] s1) (fun s2 => ok s2) O2) as [C1 C2].
  rewrite C1, C2. rewrite st_of_ok. set (s2 := st_of (add_edges_from (EB4 eitems) [] s1)) in *.
  assert (Hl : l = []).
  { apply (NoDup_app_absorb (nkeys s1) l).
    - rewrite <- NP2. destruct I2 as (_ & (_ & _ & K3' & _) & _). exact K3'.
    - intros x Hx. assert (Hin : In x (nkeys s2)) by (rewrite NP2; apply in_app_iff; right; exact Hx).
      apply NK2 in Hin. destruct Hin as [H|(it & Hit & Hm)]; [exact H|].
      unfold eitems in Hit. apply in_map_iff in Hit. destruct Hit as (e & <- & He). unfold item_ms in Hm. simpl in Hm.
      rewrite K1. unfold kept in He. apply filter_In in He. destruct He as [_ Hs].
      apply (proj1 (ssubset_spec _ _) Hs). exact Hm. }
  split; [reflexivity|]. split; [exact I2|].
  split; [rewrite NP2, Hl, app_nil_r; exact K1|].
  split; [rewrite E2, Ek1, Fe; reflexivity|].
  split.
  { intros e He. destruct (Items (getl e (h_edge s), e, geta e (h_eattr s))) as [(M & GM & SM & _) GA].
    { unfold eitems. exact (in_map (fun e => (getl e (h_edge s), e, geta e (h_eattr s))) kept e He). }
    unfold item_id, item_ms, item_attr in *. simpl in *. split; [exists M; split; assumption|exact GA]. }
  split.
  { intros n Hn. rewrite NA2 by (rewrite K1; exact Hn).
    destruct (New1 (n, Some (geta n (h_nattr s)))) as [G _];
      [unfold nitems; exact (in_map (fun n => (n, Some (geta n (h_nattr s)))) nset n Hn)|].
    exact G. }
  rewrite NT2, NT1. reflexivity.
Qed.

(* ---------- copy() / Hypergraph(H): the duplicate equals its source ---------- *)

Theorem hg_dup_equal route s :
  Inv s -> NoNone s ->
  let r := hg_dup route s in
  let t := st_of r in
  out_of r = Ok /\ Inv t /\
  nkeys t = nkeys s /\ ekeys t = ekeys s /\
  (forall e, In e (ekeys s) -> (exists M, get e (h_edge t) = Some M /\ seteq M (mems s e)) /\
                                get e (h_eattr t) = Some (aupdate [] (aupdate [] (geta e (h_eattr s))))) /\
  (forall n, In n (nkeys s) -> get n (h_nattr t) = Some (aupdate [] (aupdate [] (geta n (h_nattr s)))) /\
                               seteq (mships t n) (mships s n)) /\
  h_net t = h_net s /\ (route = true -> h_uid t = h_uid s).
Proof.
  intros I (NN & NE). cbv zeta. unfold hg_dup.
  pose proof I as (W & (_ & _ & K3 & K4) & _).
  assert (Fn : map fst (node_items s) = nkeys s) by (unfold node_items; rewrite map_map; simpl; apply map_id).
  destruct (build_nodes_effect (node_items s) [] hg_empty Inv_empty) as (O1 & I1 & K1 & E1 & EA1 & NT1 & U1 & New1 & _).
  { rewrite Fn. exact K3. }
  { intros it Hit. unfold node_items in Hit. apply in_map_iff in Hit. destruct Hit as (n & <- & Hn). simpl.
    split; [apply is_none_false; intro; subst; contradiction|intros []]. }
  cbv zeta in *. rewrite Fn in K1. simpl in K1.
  destruct (bind_ok_st (add_nodes_from (node_items s) [] hg_empty)
              (fun s1 => bind (add_edges_from (EB4 (edge_items s)) [] s1)
                 (fun s2 => ok (if route then with_uid (with_net s2 (h_net s)) (h_uid s) else with_net s2 (h_net s)))) O1) as [B1 B2].
  rewrite B1, B2. set (s1 := st_of (add_nodes_from (node_items s) [] hg_empty)) in *.
  assert (Fe : map item_id (edge_items s) = ekeys s) by (unfold edge_items; rewrite map_map; simpl; apply map_id).
  assert (Ek1 : ekeys s1 = []) by (unfold ekeys; rewrite E1; reflexivity).
  destruct (build_edges_effect (edge_items s) [] s1 I1) as (O2 & W2 & I2 & E2 & Items & _ & NK2 & (l & NP2) & NA2 & NT2).
  { split; [rewrite Fe; exact K4|]. intros it Hit. unfold edge_items in Hit. apply in_map_iff in Hit.
    destruct Hit as (e & <- & He). unfold item_id, item_ms. simpl.
    split; [rewrite Ek1; intros []|]. split; [apply is_none_false; intro; subst; contradiction|].
    apply no_none_members. intro Hm. apply NN. apply (members_are_nodes s e LNone I Hm). }
  cbv zeta in *.
  destruct (bind_ok_st (add_edges_from (EB4 (edge_items s)) [] s1)
              (fun s2 => ok (if route then with_uid (with_net s2 (h_net s)) (h_uid s) else with_net s2 (h_net s))) O2) as [C1 C2].
  rewrite C1, C2. rewrite st_of_ok. set (s2 := st_of (add_edges_from (EB4 (edge_items s)) [] s1)) in *.
  assert (Hl : l = []).
  { apply (NoDup_app_absorb (nkeys s1) l).
    - rewrite <- NP2. destruct I2 as (_ & (_ & _ & K3' & _) & _). exact K3'.
    - intros x Hx. assert (Hin : In x (nkeys s2)) by (rewrite NP2; apply in_app_iff; right; exact Hx).
      apply NK2 in Hin. destruct Hin as [H|(it & Hit & Hm)]; [exact H|].
      unfold edge_items in Hit. apply in_map_iff in Hit. destruct Hit as (e & <- & He). unfold item_ms in Hm. simpl in Hm.
      rewrite K1. apply (members_are_nodes s e x I Hm). }
  assert (HI : Inv (st_of (hg_dup route s))) by (apply hg_dup_Inv; exact I).
  set (t := if route then with_uid (with_net s2 (h_net s)) (h_uid s) else with_net s2 (h_net s)).
  assert (Tn : h_node t = h_node s2 /\ h_nattr t = h_nattr s2 /\ h_edge t = h_edge s2 /\ h_eattr t = h_eattr s2 /\ h_net t = h_net s)
    by (unfold t; destruct route; simpl; auto).
  destruct Tn as (T1 & T2 & T3 & T4 & T5).
  assert (It : Inv t).
  { unfold hg_dup in HI. cbv zeta in HI. rewrite B1, C1 in HI. rewrite st_of_ok in HI. exact HI. }
  assert (Edges : forall e, In e (ekeys s) -> (exists M, get e (h_edge t) = Some M /\ seteq M (mems s e)) /\
                                 get e (h_eattr t) = Some (aupdate [] (aupdate [] (geta e (h_eattr s))))).
  { intros e He. rewrite T3, T4.
    destruct (Items (getl e (h_edge s), e, geta e (h_eattr s))) as [(M & GM & SM & _) GA].
    { unfold edge_items. exact (in_map (fun e => (getl e (h_edge s), e, geta e (h_eattr s))) (keys (h_edge s)) e He). }
    unfold item_id, item_ms, item_attr in *. simpl in *. split; [exists M; split; assumption|exact GA]. }
  split; [reflexivity|]. split; [exact It|].
  split; [unfold nkeys; rewrite T1; fold (nkeys s2); rewrite NP2, Hl, app_nil_r; exact K1|].
  split; [unfold ekeys; rewrite T3; fold (ekeys s2); rewrite E2, Ek1, Fe; reflexivity|].
  split; [exact Edges|].
  split.
  { intros n Hn. split.
    - rewrite T2, NA2 by (rewrite K1; exact Hn).
      destruct (New1 (n, Some (geta n (h_nattr s)))) as [G _];
        [unfold node_items; exact (in_map (fun n => (n, Some (geta n (h_nattr s)))) (keys (h_node s)) n Hn)|].
      exact G.
    - (* memberships follow from the two-way consistency of both networks *)
      destruct It as (Wt & _). intro e. rewrite (Wt n e), (W n e). split; intro H.
      + assert (He : In e (ekeys s)).
        { assert (In e (ekeys t)) by (eapply getl_nonempty_key; exact H).
          unfold ekeys in H0. rewrite T3 in H0. fold (ekeys s2) in H0. rewrite E2, Ek1, Fe in H0. exact H0. }
        destruct (Edges e He) as [(M & GM & SM) _]. unfold mems, getl in H. rewrite GM in H. apply SM. exact H.
      + assert (He : In e (ekeys s)) by (eapply getl_nonempty_key; exact H).
        destruct (Edges e He) as [(M & GM & SM) _]. unfold mems at 1, getl. rewrite GM. apply SM. exact H. }
  split; [exact T5|]. intro R. subst route. reflexivity.
Qed.
