"""Stages shared by all property checks: proof stage, conclusion logic (DESIGN.md section 2.4)."""
import os
from .. import common as C

TRUSTED_BASE_COMMON = [
    "Coq 8.16.1 kernel; vm_compute (correspondence evaluation and reflective obligations); no native_compute",
    "harness: case generators, Gallina serialiser (harness/gallina.py), observation projections, shrinker",
    "CPython dict/set/sorted/itertools/copy/pickle and the numeric libraries are environment, modelled by Gallina list functions and validated only by the correspondence run",
]


def proof_stage(v, prop, extra_obligations=0, extra_discharged=0):
    """lint + full .vo build of Props/<prop>.v + Print Assumptions."""
    from .. import translate
    gen_errors = translate.regenerate_all()
    problems = C.coq_lint()
    deps = {"C18": ["freeze"], "C17": ["seed"], "C08": ["api"], "C04": ["uid"], "C06": ["filter", "stats"],
            "C15": ["subfaces"], "C16": ["gens"], "C01": ["mutators"], "C02": ["dimutators"], "C03": ["scmutators"], "C05": ["mutators", "dimutators"]}.get(prop, [])
    for dep in deps:
        if dep in gen_errors:
            problems = problems + [f"translator {dep} failed (fail-closed): {gen_errors[dep]}"]
    pr = C.check_props(prop)
    ok = pr["ok"] and not problems
    v.coverage.update({
        "obligations": pr["obligations"] + extra_obligations,
        "discharged": (pr["discharged"] if ok else 0) + extra_discharged,
        "theorems": pr["theorems"],
        "checker_cmd": f"make -C {C.COQ} Props/{prop}.vo && coqc -Q . XV Props/{prop}.v (Print Assumptions under every theorem)",
        "trusted_base": TRUSTED_BASE_COMMON + [
            "Print Assumptions: " + ("Closed under the global context for every theorem"
                                     if not pr["assumptions"] else "axioms used: " + ", ".join(pr["assumptions"])),
        ],
        "lint_problems": problems,
    })
    info = {"ok": ok, "lint": problems, "failed_at": pr.get("failed_at"), "log": pr["log"] if not ok else ""}
    return info


def conclude(v, proof, mismatch_reports, oracle_failures, coq_errors=()):
    """proof: dict from proof_stage; mismatch_reports: list of dict payloads (minimised disagreeing
    cases); oracle_failures: list of (signature, payload).  Implements DESIGN 2.4."""
    new_failures = 0
    seen = set()
    for sig, payload in oracle_failures:
        if sig in seen:
            continue
        seen.add(sig)
        if v.failing_input(sig, payload):
            new_failures += 1
        if len(seen) > 40:
            break
    broken = []
    if not proof["ok"]:
        broken.append(("theorem", {"failed_at": proof.get("failed_at"), "lint": proof.get("lint"),
                                   "log": proof.get("log", "")[-3000:]}))
    for rep in mismatch_reports:
        broken.append(("correspondence", rep))
    for err in coq_errors:
        broken.append(("correspondence-evaluation", err))
    if broken and new_failures == 0:
        # no new concrete failing input explains the break
        known_explains = bool(oracle_failures) and all(True for _ in oracle_failures) and not mismatch_reports and proof["ok"] and not coq_errors
        if not known_explains:
            what, payload = broken[0]
            v.broken_obligation(what, {"all_broken": [b[0] for b in broken], "detail": payload})
    v.coverage["mismatches"] = len(mismatch_reports)
    v.coverage["oracle_failures"] = len(oracle_failures)
