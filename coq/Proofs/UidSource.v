(* C04: the model's update of the id counter IS the function the source defines (regenerated from
   xgi/utils/utilities.py::update_uid_counter into Gen/UidCounter.v on every run). *)
From Coq Require Import ZArith Bool Lia.
From XV Require Import Base.Label Base.ODict Base.Attr Model.Hypergraph Model.PySem Gen.UidCounter.
Open Scope Z_scope.

Ltac split_cmp :=
  repeat match goal with
         | |- context [Z.leb ?a ?b] => destruct (Z.leb_spec a b)
         | |- context [Z.ltb ?a ?b] => destruct (Z.ltb_spec a b)
         | |- context [Z.geb ?a ?b] => rewrite (Z.geb_leb a b)
         | |- context [Z.gtb ?a ?b] => rewrite (Z.gtb_ltb a b)
         | |- context [Z.eqb ?a ?b] => destruct (Z.eqb_spec a b)
         end.

Theorem bump_uid_is_source idx s : idx <> LNone ->
  h_uid (bump_uid idx s) = src_uid idx (h_uid s).
Proof.
  intro Hn. unfold bump_uid, src_uid. destruct idx as [z|str|l|]; [| | |congruence];
    cbn [as_int is_str is_tup float_is_integer num negb andb orb];
    split_cmp; cbn [negb andb orb h_uid with_uid]; try reflexivity; try lia.
Qed.

(* everything but the counter is left alone *)
Theorem bump_uid_frame idx s :
  h_node (bump_uid idx s) = h_node s /\ h_edge (bump_uid idx s) = h_edge s /\
  h_nattr (bump_uid idx s) = h_nattr s /\ h_eattr (bump_uid idx s) = h_eattr s /\ h_net (bump_uid idx s) = h_net s.
Proof. unfold bump_uid. destruct (as_int idx) as [z|]; [destruct (h_uid s <=? z)|]; repeat split. Qed.
