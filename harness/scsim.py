"""Histories of mutating calls on xgi.SimplicialComplex (generation, execution, observation, Gallina)."""
import random, warnings
from . import gallina as G
from . import common as C
from .hgsim import rattr, observe, obs_to_gallina, dedup_named, bunch_arg
from . import hgsim as _H

ITER_OK = True     # member collections may be presented as tuples / one-shot iterators (common.members)
INTLIKE_OK = True  # explicit integer ids may be presented as numpy integers / whole floats (hgsim.PRESENT)
STYLES = ["int", "int", "int", "str", "mixed"]


def make_pool(rng, style):
    if style == "int":
        return list(range(0, 7)), [0, 1, 2, 3, 5, 8, 12, -1]
    if style == "mixed":
        return [1, 2, 3, "a", "b", 10], [0, 2, "e", "f", 7, 4]
    return ["a", "b", "c", "d", "e", "f"], ["s0", "s1", "x", "y"]


def rsimplex(rng, nodes, malformed, lo=0, hi=4):
    k = rng.randint(lo, min(hi, len(nodes)))
    ms = rng.sample(nodes, k)
    if malformed and rng.random() < 0.25:
        ms.insert(rng.randrange(len(ms) + 1), None)
    return ms


def gen_op(rng, S, nodes, eids, malformed):
    cur_nodes = list(S.nodes)
    cur_edges = list(S.edges)
    def some_node(p_missing=0.15):
        if cur_nodes and rng.random() > p_missing:
            return rng.choice(cur_nodes)
        return rng.choice(nodes + ([None] if malformed else []))
    def some_edge(p_missing=0.15):
        if cur_edges and rng.random() > p_missing:
            return rng.choice(cur_edges)
        return rng.choice(eids + [99])
    def members():
        if cur_edges and rng.random() < 0.2:   # already-present and overlapping simplices
            base = list(S.edges.members(rng.choice(cur_edges)))
            if rng.random() < 0.5 and len(base) > 1:
                base = rng.sample(base, len(base) - 1)
            return base
        return rsimplex(rng, nodes, malformed)
    kinds = [(10, "add_simplex"), (10, "add_simplices_from"), (2, "add_weighted_simplices_from"),
             (6, "remove_simplex_id"), (4, "remove_simplex_ids_from"), (4, "remove_node"),
             (3, "remove_nodes_from"), (2, "close"), (2, "cleanup"), (1, "relabel"),
             (2, "add_edge"), (2, "add_edges_from"), (1, "add_weighted_edges_from"), (1, "remove_edge"),
             (1, "remove_edges_from"), (2, "add_node"), (2, "add_nodes_from"), (1, "set_node_attrs_dict"),
             (1, "set_edge_attrs_dict"), (1, "clear")]
    x = rng.random() * sum(w for w, _ in kinds)
    for w, kind in kinds:
        x -= w
        if x <= 0:
            break
    if len(cur_edges) < 3 and rng.random() < 0.5:
        kind = rng.choice(["add_simplex", "add_simplices_from"])
    def bunch(allow_max_order=True):
        fmt = rng.choice([1, 1, 2, 3, 4, 5])
        items = []
        for i in range(rng.randint(0, 3)):
            ms = members()
            if fmt == 1:
                if i == 0 and not ms and not malformed:
                    ms = [nodes[0]]
                if i == 0 and ms and isinstance(ms[0], (str, tuple)) and not all(isinstance(x, str) for x in ms):
                    # the documented ambiguity of a caller's format-1 bunch whose first simplex starts with a str / tuple label
                    # among other kinds (it reads as another format): keep the caller's input clear of it, as hgsim does
                    ms = [x for x in ms if isinstance(x, str)]
                items.append(ms)
            elif fmt == 2:
                items.append((ms, some_edge(0.85)))
            elif fmt == 3:
                items.append((ms, rattr(rng, 0.8)))
            elif fmt == 4:
                items.append((ms, some_edge(0.85), rattr(rng, 0.8)))
            else:
                items.append((some_edge(0.85), ms))
        if fmt == 5:
            d = {}
            for k, v in items:
                d[k] = v
            items = list(d.items())
        mo = rng.choice([None, None, 0, 1, 2]) if allow_max_order else None
        return fmt, items, mo
    if kind == "add_simplex":
        idx = None
        if rng.random() < 0.45:
            idx = some_edge(0.75)
        return ("add_simplex", members(), idx, rattr(rng))
    if kind == "add_simplices_from":
        fmt, items, mo = bunch()
        return ("add_simplices_from", fmt, items, mo, rattr(rng, 0.3))
    if kind == "add_edges_from":
        fmt, items, mo = bunch(False)
        return ("add_edges_from", fmt, items, rattr(rng, 0.3))
    if kind in ("add_weighted_simplices_from", "add_weighted_edges_from"):
        items = [(rsimplex(rng, nodes, False, 1, 3), rng.choice([1, 2, 5])) for _ in range(rng.randint(0, 2))]
        return (kind, items, rng.choice([None, 1, 2]), rng.choice(["weight", "w"]), rattr(rng, 0.2))
    if kind == "add_edge":
        return ("add_edge", members(), rattr(rng))
    if kind in ("remove_simplex_id", "remove_edge"):
        return (kind, some_edge())
    if kind in ("remove_simplex_ids_from", "remove_edges_from"):
        return (kind, [some_edge(0.1) for _ in range(rng.randint(0, 3))])
    if kind == "remove_node":
        return ("remove_node", some_node())
    if kind == "remove_nodes_from":
        return ("remove_nodes_from", [some_node(0.3) for _ in range(rng.randint(0, 3))])
    if kind == "close":
        return ("close",)
    if kind == "cleanup":
        return ("cleanup", rng.random() < 0.5, rng.random() < 0.5, rng.random() < 0.4)
    if kind == "relabel":
        return ("relabel", rng.choice(["label", "old"]))
    if kind == "add_node":
        return ("add_node", some_node(0.7), rattr(rng))
    if kind == "add_nodes_from":
        items = []
        for _ in range(rng.randint(0, 3)):
            n = some_node(0.7)
            items.append((n, rattr(rng, 0.9)) if rng.random() < 0.4 else (n, None))
        return ("add_nodes_from", items, rattr(rng, 0.3))
    if kind == "set_node_attrs_dict":
        return ("set_node_attrs_dict", [(some_node(0.3), rattr(rng, 1.0)) for _ in range(rng.randint(0, 3))])
    if kind == "set_edge_attrs_dict":
        return ("set_edge_attrs_dict", [(some_edge(0.3), rattr(rng, 1.0)) for _ in range(rng.randint(0, 3))])
    if kind == "clear":
        return ("clear", rng.random() < 0.5)
    raise AssertionError(kind)


def apply_op(S, op):
    import xgi
    name = op[0]
    exc = None
    extra = {}
    before = set(map(repr, S.edges))
    with warnings.catch_warnings(record=True) as wl:
        warnings.simplefilter("always")
        try:
            if name == "add_simplex":
                _, ms, idx, a = op
                extra["fs_order"] = list(frozenset(ms)) if all(_hashable(x) for x in ms) else list(ms)
                if idx is None:
                    S.add_simplex(C.members(ms), **a)
                else:
                    S.add_simplex(C.members(ms), idx=_H._pres(idx), **a)
            elif name == "add_edge":
                _, ms, a = op
                extra["fs_order"] = list(frozenset(ms))
                S.add_edge(C.members(ms), **a)
            elif name == "add_simplices_from":
                _, fmt, items, mo, a = op
                if fmt == 5:
                    extra["fs_items"] = [(i, list(frozenset(ms))) for i, ms in items]
                S.add_simplices_from(bunch_arg(fmt, items), max_order=mo, **a)
            elif name == "add_edges_from":
                _, fmt, items, a = op
                if fmt == 5:
                    extra["fs_items"] = [(i, list(frozenset(ms))) for i, ms in items]
                S.add_edges_from(bunch_arg(fmt, items), **a)
            elif name == "add_weighted_simplices_from":
                _, items, mo, weight, a = op
                S.add_weighted_simplices_from([list(ms) + [w] for ms, w in items], max_order=mo, weight=weight, **a)
            elif name == "add_weighted_edges_from":
                _, items, mo, weight, a = op
                S.add_weighted_edges_from([list(ms) + [w] for ms, w in items], max_order=mo, weight=weight, **a)
            elif name == "remove_simplex_id":
                S.remove_simplex_id(op[1])
            elif name == "remove_edge":
                S.remove_edge(op[1])
            elif name == "remove_simplex_ids_from":
                S.remove_simplex_ids_from(list(op[1]))
            elif name == "remove_edges_from":
                S.remove_edges_from(list(op[1]))
            elif name == "remove_node":
                S.remove_node(op[1])
            elif name == "remove_nodes_from":
                S.remove_nodes_from(list(op[1]))
            elif name == "close":
                S.close()
            elif name == "cleanup":
                S.cleanup(isolates=op[1], connected=op[2], relabel=op[3], in_place=True)
            elif name == "relabel":
                xgi.convert_labels_to_integers(S, label_attribute=op[1], in_place=True)
            elif name == "add_node":
                S.add_node(op[1], **op[2])
            elif name == "add_nodes_from":
                S.add_nodes_from([n if d is None else (n, dict(d)) for n, d in op[1]], **op[2])
            elif name == "set_node_attrs_dict":
                S.set_node_attributes({k: dict(v) for k, v in op[1]})
            elif name == "set_edge_attrs_dict":
                S.set_edge_attributes({k: dict(v) for k, v in op[1]})
            elif name == "clear":
                S.clear(remove_net_attr=op[1])
            else:
                raise AssertionError(name)
        except Exception as e:  # noqa: BLE001
            exc = G.classify_exception(e)
    nwarn = sum(1 for w in wl if not issubclass(w.category, DeprecationWarning))
    # the member sets of the edges that are new after the call, in edge order
    try:
        extra["hint"] = [sorted(S.edges.members(e), key=repr) for e in S.edges if repr(e) not in before]
        extra["nhint"] = list(S.nodes)
    except Exception:  # noqa: BLE001
        extra["hint"] = []
        extra["nhint"] = []
    return extra, exc, nwarn


def _hashable(x):
    try:
        hash(x)
        return True
    except TypeError:
        return False


def op_to_gallina(op, extra):
    name = op[0]
    oattr = lambda d: G.gopt(d, G.attrs)
    hint = G.gpair(G.glist([G.lbls(f) for f in extra.get("hint", [])]), G.lbls(extra.get("nhint", [])))
    gmo = lambda mo: "None" if mo is None else f"(Some {G.gnat(mo)})"
    def bunch(fmt, items):
        if fmt == 1:
            return "(EB1 " + G.glist([G.lbls(ms) for ms in items]) + ")"
        if fmt == 2:
            return "(EB2 " + G.glist([G.gpair(G.lbls(ms), G.lbl(i)) for ms, i in items]) + ")"
        if fmt == 3:
            return "(EB3 " + G.glist([G.gpair(G.lbls(ms), G.attrs(a)) for ms, a in items]) + ")"
        if fmt == 4:
            return "(EB4 " + G.glist([G.gpair(G.lbls(ms), G.lbl(i), G.attrs(a)) for ms, i, a in items]) + ")"
        return "(EB5 " + G.glist([G.gpair(G.lbl(i), G.lbls(ms)) for i, ms in extra.get("fs_items", items)]) + ")"
    if name == "add_simplex":
        return f"SAddSimplex {G.lbls(extra['fs_order'])} {G.gopt(op[2], G.lbl)} {G.attrs(op[3])} {hint}"
    if name == "add_edge":
        return f"SAddEdge {G.lbls(extra['fs_order'])} {G.attrs(op[2])} {hint}"
    if name == "add_simplices_from":
        return f"SAddSimplicesFrom {bunch(op[1], op[2])} {gmo(op[3])} {G.attrs(op[4])} {hint}"
    if name == "add_edges_from":
        return f"SAddEdgesFrom {bunch(op[1], op[2])} {G.attrs(op[3])} {hint}"
    if name in ("add_weighted_simplices_from", "add_weighted_edges_from"):
        c = "SAddWeightedSimplicesFrom" if name.endswith("simplices_from") else "SAddWeightedEdgesFrom"
        items = G.glist([G.gpair(G.lbls(ms), G.aval(w)) for ms, w in op[1]])
        return f"{c} {items} {gmo(op[2])} {G.gstr(op[3])} {G.attrs(op[4])} {hint}"
    if name == "remove_simplex_id":
        return f"SRemoveSimplexId {G.lbl(op[1])}"
    if name == "remove_edge":
        return f"SRemoveEdge {G.lbl(op[1])}"
    if name == "remove_simplex_ids_from":
        return f"SRemoveSimplexIdsFrom {G.lbls(op[1])}"
    if name == "remove_edges_from":
        return f"SRemoveEdgesFrom {G.lbls(op[1])}"
    if name == "remove_node":
        return f"SRemoveNode {G.lbl(op[1])}"
    if name == "remove_nodes_from":
        return f"SRemoveNodesFrom {G.lbls(op[1])}"
    if name == "close":
        return f"SClose {hint}"
    if name == "cleanup":
        return "SCleanup " + " ".join(G.gbool(b) for b in op[1:4])
    if name == "relabel":
        return f"SRelabel {G.gstr(op[1])}"
    if name == "add_node":
        return f"SAddNode {G.lbl(op[1])} {G.attrs(op[2])}"
    if name == "add_nodes_from":
        return f"SAddNodesFrom {G.glist([G.gpair(G.lbl(n), oattr(d)) for n, d in op[1]])} {G.attrs(op[2])}"
    if name == "set_node_attrs_dict":
        return f"SSetNodeAttrsDict {G.glist([G.gpair(G.lbl(k), G.attrs(v)) for k, v in dedup_named(op[1])])}"
    if name == "set_edge_attrs_dict":
        return f"SSetEdgeAttrsDict {G.glist([G.gpair(G.lbl(k), G.attrs(v)) for k, v in dedup_named(op[1])])}"
    if name == "clear":
        return f"SClear {G.gbool(op[1])}"
    raise AssertionError(name)


def run_history(ops_or_gen, length=None, rng=None, style=None, malformed=False, freeze_at=None):
    import xgi
    S = xgi.SimplicialComplex()
    if ops_or_gen is None:
        nodes, eids = make_pool(rng, style)
    rec = {"ops": [], "extras": [], "obs": [], "excs": [], "warns": [], "unsupported": None}
    n = length if ops_or_gen is None else len(ops_or_gen)
    prng = random.Random(12345)
    for i in range(n):
        if freeze_at is not None and i == freeze_at:
            S.freeze()
        op = _H._norm(gen_op(rng, S, nodes, eids, malformed)) if ops_or_gen is None else ops_or_gen[i]
        extra, exc, nwarn = apply_op(S, op)
        ob = observe(S)
        ob["has_probes"] = has_probes(S, prng)
        rec["ops"].append(op); rec["extras"].append(extra); rec["obs"].append(ob)
        rec["excs"].append(exc); rec["warns"].append(nwarn)
        if ob["broken"]:
            break
    rec["net"] = S
    return rec


def has_probes(S, prng):
    """S.has_simplex on a few node sets (present, sub-face, random) with the answer"""
    out = []
    try:
        nodes = list(S.nodes)
        edges = list(S.edges)
        cands = []
        if edges:
            m = list(S.edges.members(prng.choice(edges)))
            cands.append(m)
            if len(m) > 1:
                cands.append(prng.sample(m, len(m) - 1))
        if nodes:
            cands.append(prng.sample(nodes, min(len(nodes), prng.randint(1, 3))))
        for c in cands:
            out.append((frozenset(c), bool(S.has_simplex(c))))
    except Exception as e:  # noqa: BLE001
        out.append(("error", f"{type(e).__name__}: {e}"))
    return out


def history_to_gallina(rec):
    items = []
    try:
        for op, extra, ob, exc, nwarn in zip(rec["ops"], rec["extras"], rec["obs"], rec["excs"], rec["warns"]):
            if ob["broken"]:
                return None
            items.append(G.gpair(op_to_gallina(op, extra), obs_to_gallina(ob, exc, nwarn)))
    except G.Unsupported as e:
        rec["unsupported"] = str(e)
        return None
    return G.glist(items)


def corrupt(rec):
    ob = rec["obs"][-1]
    ob["uid"] += 1
    ob["nodes"] = ob["nodes"] + [("canary", set())]
    ob["nattr"] = ob["nattr"] + [{}]
    return rec
