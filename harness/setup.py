"""setup_cmd: regenerate Gen/*.v from /repo, then a full .vo build of the whole development."""
import os, sys
from . import common as C

def run():
    try:
        from . import translate
        translate.regenerate_all()
    except ImportError:
        pass
    rc, out = C.sh(["coq_makefile", "-f", "_CoqProject", "-o", "Makefile"], 120, cwd=C.COQ)
    if rc:
        print(out); return 1
    rc, out = C.coq_make([], timeout=3000)
    print(out[-3000:])
    problems = C.coq_lint()
    for p in problems:
        print("LINT:", p)
    return 1 if (rc or problems) else 0
