(* C15, continued: the simplicial fraction is the share of candidate edges all of whose eligible
   subsets are edges, and lies in [0, 1]. *)
From Coq Require Import String ZArith QArith List Bool Lia.
From XV Require Import Base.Label Base.LSet Base.ODict Base.Attr Base.Outcome Model.Hypergraph Model.Hodge
  Model.Simpliciality Proofs.TrieProofs.
Import ListNotations.

(* an edge counts as a simplex exactly when each of its subsets of at least min_size nodes is, as a
   sorted word, one of the edges *)
Theorem is_simplex_spec ws e k :
  is_simplex (build_trie ws) e k = true <->
  forall f, In f (subsets_between e k (length e)) -> exists w, In w ws /\ sort_simplex f = sort_simplex w.
Proof.
  unfold is_simplex. rewrite forallb_forall. split.
  - intros H f Hf. specialize (H f Hf). rewrite trie_search in H. apply existsb_exists in H.
    destruct H as (w & Hw & E). exists w. split; [exact Hw|]. apply Proofs.HodgeProofs.lbls_eqb_eq. exact E.
  - intros H f Hf. destruct (H f Hf) as (w & Hw & E). rewrite trie_search. apply existsb_exists.
    exists w. split; [exact Hw|]. apply Proofs.HodgeProofs.lbls_eqb_eq. exact E.
Qed.

Lemma filter_len_le {A} (p : A -> bool) l : (length (filter p l) <= length l)%nat.
Proof. induction l as [|x l IH]; [reflexivity|]. cbn [filter]. destruct (p x); cbn [length]; lia. Qed.

(* the score is a share: between 0 and 1 whenever it is defined *)
Theorem simplicial_fraction_range k excl s q :
  simplicial_fraction k excl s = Some q -> (0 <= q /\ q <= 1)%Q.
Proof.
  unfold simplicial_fraction. set (t := build_trie (vals (h_edge s))).
  set (cand := map snd (edges_geq s (k + b2n excl))).
  destruct cand as [|c0 cs] eqn:E; [discriminate|]. set (L := c0 :: cs) in *. intro H.
  assert (E' := f_equal (fun o => match o with Some x => x | None => 0%Q end) H). cbv beta iota in E'. rewrite <- E'. clear H E'.
  assert (Hn : (length (filter (fun e => is_simplex t e k) L) <= length L)%nat) by apply filter_len_le.
  assert (Hpos : (0 < length L)%nat) by (unfold L; cbn [length]; lia).
  assert (Ep : Z.pos (Pos.of_nat (length L)) = Z.of_nat (length L)).
  { rewrite <- positive_nat_Z, Nat2Pos.id by lia. reflexivity. }
  unfold Qle. cbn [Qnum Qden]. rewrite Ep. split; lia.
Qed.
