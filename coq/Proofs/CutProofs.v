(* C19: cut_to_order keeps exactly the edges up to the order (Hypergraph case). *)
From Coq Require Import String ZArith List Bool Lia.
From XV Require Import Base.Label Base.LSet Base.ODict Base.Attr Base.Outcome Model.Hypergraph Model.SimplicialComplex Model.Copy Model.Derived
     Proofs.HgViews Proofs.HgInv Proofs.HgInvOps Proofs.HgStep Proofs.HgKeys Proofs.HgErrors Proofs.ScTables
     Proofs.Build Proofs.DerivedProofs Proofs.EditDistance Proofs.CleanupProofs.
Import ListNotations.
Open Scope Z_scope.

Lemma max_size_ge s e m : In (e, m) (h_edge s) -> (length m <= max_size s)%nat.
Proof.
  unfold max_size.
  assert (G : forall (l : list (lbl * list lbl)) acc, (acc <= fold_left (fun acc kv => Nat.max acc (length (snd kv))) l acc)%nat /\
                            (forall e m, In (e, m) l -> (length m <= fold_left (fun acc (kv : lbl * list lbl) => Nat.max acc (length (snd kv))) l acc)%nat)).
  { induction l as [|[e' m'] l IH]; intro acc; cbn [fold_left snd]; [split; [lia|intros e0 m0 H0; destruct H0]|].
    destruct (IH (Nat.max acc (length m'))) as [A B]. split; [lia|].
    intros e0 m0 [H|H]; [inversion H; subst; lia|apply (B e0 m0 H)]. }
  intro H. apply (proj2 (G (h_edge s) O) e m H).
Qed.

Theorem cut_to_order_spec order s : Inv s -> NoNone s ->
  out_of (cut_to_order false order s) = Ok ->
  let t := st_of (cut_to_order false order s) in
  Inv t /\ nkeys t = nkeys s /\
  (forall e, (exists M, get e (h_edge t) = Some M) <-> In e (ekeys s) /\ Z.of_nat (length (mems s e)) - 1 <= order) /\
  (forall e M, get e (h_edge t) = Some M -> seteq M (mems s e)).
Proof.
  intros I NN Hok. cbv zeta. unfold cut_to_order in *.
  assert (Hne : (match h_edge s, h_node s with [], [] => true | _, _ => false end) = false).
  { destruct (h_edge s), (h_node s); try reflexivity. discriminate Hok. }
  set (mo := match h_edge s with [] => 0 | _ => Z.of_nat (max_size s) - 1 end) in *.
  set (k := fun c : hg => if mo <? order then raise c XGIError else if order =? mo then ok c else
              remove_edges_from (map fst (filter (fun kv : lbl * list lbl => order <? Z.of_nat (length (snd kv)) - 1) (h_edge c))) c) in *.
  assert (Hb : cut_to_order false order s = bind (hg_dup true s) k).
  { unfold cut_to_order. fold mo. destruct (h_edge s), (h_node s); try reflexivity. discriminate Hne. }
  assert (Hok' : out_of (bind (hg_dup true s) k) = Ok).
  { destruct (h_edge s), (h_node s); try exact Hok. discriminate Hne. }
  assert (Est : st_of (match h_edge s, h_node s with [], [] => raise s TypeError | _, _ => bind (hg_dup true s) k end) = st_of (bind (hg_dup true s) k)).
  { destruct (h_edge s), (h_node s); try reflexivity. discriminate Hne. }
  rewrite Est. clear Est Hok Hb.
  destruct (hg_dup_equal true s I NN) as (Od & Ic & Kn & Ke & Ed & _). cbv zeta in *.
  destruct (bind_ok_st (hg_dup true s) k Od) as [E1 E2]. rewrite E1. rewrite E2 in Hok'. clear E1 E2.
  set (c := st_of (hg_dup true s)) in *.
  pose proof I as (_ & (_ & _ & _ & KeS) & (_ & VmS) & _). pose proof Ic as (_ & (_ & _ & _ & KeC) & (_ & VmC) & _).
  (* facts about the copy *)
  assert (Cget : forall e M, get e (h_edge c) = Some M -> In e (ekeys s) /\ seteq M (mems s e) /\ length M = length (mems s e)).
  { intros e M G. assert (He : In e (ekeys s)) by (rewrite <- Ke; apply (get_Some_In e (h_edge c) M G)).
    destruct (Ed e He) as [(M' & G' & Sq) _]. rewrite G in G'. inversion G'; subst M'. split; [exact He|]. split; [exact Sq|].
    assert (NM : NoDup M) by (rewrite <- (mems_get c e M G); apply VmC).
    apply Nat.le_antisymm; apply NoDup_incl_length; try assumption; try apply VmS; intros a Ha; apply Sq; exact Ha. }
  assert (Cin : forall e, In e (ekeys s) -> exists M, get e (h_edge c) = Some M).
  { intros e He. destruct (Ed e He) as [(M & G & _) _]. exists M. exact G. }
  unfold k in *. destruct (mo <? order) eqn:E1; [discriminate Hok'|]. apply Z.ltb_ge in E1.
  destruct (order =? mo) eqn:E2.
  - apply Z.eqb_eq in E2. rewrite st_of_ok. split; [exact Ic|]. split; [exact Kn|]. split.
    + intro e. split.
      * intros (M & G). destruct (Cget e M G) as (He & _ & _). split; [exact He|].
        destruct (get e (h_edge s)) as [m|] eqn:Gs; [|apply get_None in Gs; contradiction].
        rewrite (mems_get s e m Gs). pose proof (max_size_ge s e m (get_In _ _ _ Gs)) as Hm.
        unfold mo in E2. destruct (h_edge s) eqn:Eh; [discriminate Gs|]. lia.
      * intros [He _]. apply Cin. exact He.
    + intros e M G. apply (Cget e M G).
  - apply Z.eqb_neq in E2.
    set (bunch := map fst (filter (fun kv : lbl * list lbl => order <? Z.of_nat (length (snd kv)) - 1) (h_edge c))) in *.
    destruct (remove_edges_from_table bunch c) as (_ & N2 & T2).
    { unfold bunch. apply NoDup_keys_filter. exact KeC. }
    { intros e He. unfold bunch in He. apply in_map_iff in He. destruct He as ([e' m] & <- & Hf). apply filter_In in Hf.
      unfold ekeys, keys. change e' with (fst (e', m)). apply in_map. apply Hf. }
    split; [apply Inv_remove_edges_from; exact Ic|]. split; [rewrite N2; exact Kn|].
    assert (Bm : forall e M, get e (h_edge c) = Some M -> (mem e bunch = true <-> order < Z.of_nat (length M) - 1)).
    { intros e M G. rewrite mem_In. unfold bunch. rewrite in_map_iff. split.
      - intros ([e' m] & E & Hf). cbn [fst] in E. subst e'. apply filter_In in Hf. destruct Hf as [Hf Hl].
        rewrite (get_In_NoDup e m (h_edge c) KeC Hf) in G. inversion G; subst. cbn [snd] in Hl. apply Z.ltb_lt in Hl. exact Hl.
      - intro Hl. exists (e, M). split; [reflexivity|]. apply filter_In. split; [apply get_In; exact G|]. cbn [snd]. apply Z.ltb_lt. exact Hl. }
    split.
    + intro e. rewrite T2. split.
      * intros (M & G). destruct (mem e bunch) eqn:Mb; [discriminate G|]. destruct (Cget e M G) as (He & _ & L). split; [exact He|].
        rewrite <- L. destruct (Z.ltb_spec order (Z.of_nat (length M) - 1)) as [Hl|Hl]; [|exact Hl].
        apply (Bm e M G) in Hl. congruence.
      * intros [He Hl]. destruct (Cin e He) as (M & G). exists M. destruct (Cget e M G) as (_ & _ & L).
        destruct (mem e bunch) eqn:Mb; [|exact G]. apply (Bm e M G) in Mb. lia.
    + intros e M G. rewrite T2 in G. destruct (mem e bunch); [discriminate G|]. apply (Cget e M G).
Qed.
