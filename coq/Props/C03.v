(* C03 - simplicial complexes stay downward closed and duplicate-free. *)
From Coq Require Import String ZArith List Bool.
From XV Require Import Base.Label Base.LSet Base.ODict Base.Attr Base.Outcome Model.Hypergraph
  Model.HgCheck Model.SimplicialComplex Model.ScCheck Proofs.HgViews Proofs.HgInv Proofs.ScInv Proofs.ScMaxOrder
  Model.PyIR Gen.ScMutators Proofs.ScMutatorSource.
Import ListNotations.

(* SInv = two-way consistent incidence (C01's invariant) + every sub-face with >= 2 nodes of
   every simplex is a simplex + no two ids carry the same node set + no simplex is empty *)
Theorem C03_init_inv : SInv hg_empty.
Proof. exact SInv_empty. Qed.
Print Assumptions C03_init_inv.

(* one call (for every hint, i.e. every iteration order of the face sets), returning or raising *)
Theorem C03_step_inv : forall s o, SInv s -> SInv (st_of (sstep s o)).
Proof. exact sstep_SInv. Qed.
Print Assumptions C03_step_inv.

Theorem C03_history_inv : forall ops, SInv (srun ops hg_empty).
Proof. intro ops. exact (srun_SInv ops hg_empty SInv_empty). Qed.
Print Assumptions C03_history_inv.

Theorem C03_prefix_inv : forall ops k, SInv (srun (firstn k ops) hg_empty).
Proof. intros ops k. exact (srun_SInv (firstn k ops) hg_empty SInv_empty). Qed.
Print Assumptions C03_prefix_inv.

(* removing a simplex removes exactly that simplex and the simplices containing it *)
Theorem C03_remove_exact : forall idx ms s, SInv s -> Sx s idx ms ->
  forall e m, Sx (st_of (remove_simplex_id idx s)) e m <-> Sx s e m /\ ~ Sub ms m.
Proof. intros idx ms s (I & _ & U & _) H. exact (remove_simplex_id_Sx idx ms s I U H). Qed.
Print Assumptions C03_remove_exact.

(* simplices created under max_order = k have at most k + 1 nodes *)
Theorem C03_max_order : forall eb k a hint s, SInv s ->
  forall e m, Sx (st_of (add_simplices_from eb (Some k) a hint s)) e m -> Sx s e m \/ (length m <= k + 1)%nat.
Proof. intros eb k a hint s SI. exact (max_order_respected eb k a hint s SI). Qed.
Print Assumptions C03_max_order.

(* has_simplex answers membership exactly *)
Theorem C03_has_simplex_exact : forall s f, SInv s -> (has_simplex s f = true <-> HasS s f).
Proof. intros s f ((_ & (_ & _ & _ & K4) & _) & _). exact (has_simplex_spec s f K4). Qed.
Print Assumptions C03_has_simplex_exact.

Definition c03_example_ops : list sop :=
  [SAddSimplex [LInt 1; LInt 2; LInt 3] None [] ([], []);
   SAddSimplicesFrom (EB1 [[LInt 3; LInt 4; LInt 5; LInt 6]]) (Some 1%nat) [] ([], []);
   SRemoveSimplexId (LInt 1)].
Example C03_nonvacuous :
  sinv_b (srun c03_example_ops hg_empty) = true /\ length (h_edge (srun c03_example_ops hg_empty)) = 8%nat.
Proof. vm_compute. split; reflexivity. Qed.
Print Assumptions C03_nonvacuous.

(* THE SOURCE TIE for the three helpers through which SimplicialComplex writes its tables.  Gen/ScMutators.v holds the bodies of
   _add_simplex, _add_face and _remove_simplex_id as programs of the statement language of Model/PyIR.v, regenerated from
   xgi/core/simplicialcomplex.py on every run (harness/translate_scmutators.py, fail-closed).  Running them gives exactly the model:
   _add_simplex(members, idx, **attr) = insert_edge idx members attr and _add_face(members) = insert_edge under the next automatic id
   (members a frozenset, i.e. without repeats, and free of None), _remove_simplex_id(idx) = Hypergraph.remove_edge (it is the same
   program, statement for statement) on every state satisfying the class invariant *)
Theorem C03_table_helpers_are_source :
  (forall ms e a s, NoDup ms -> existsb is_none ms = false -> is_none e = false ->
     run_method_f src_sc_add_simplex ms (Some e) a s = ok (insert_edge e ms a s)) /\
  (forall ms s, NoDup ms -> existsb is_none ms = false ->
     run_method_f src_sc_add_face ms None [] s = ok (insert_edge (LInt (h_uid s)) ms [] (with_uid s (h_uid s + 1)%Z))) /\
  (forall e s, Inv s -> run_method src_sc_remove_simplex_id [e] [] s = remove_edge1 e s).
Proof. split; [exact sc_add_simplex_is_source|split; [exact sc_add_face_is_source|exact sc_remove_simplex_id_is_source]]. Qed.
Print Assumptions C03_table_helpers_are_source.

(* THE SOURCE TIE for add_simplex as a whole.  The guards of SimplicialComplex.add_simplex (None among the members; an empty or
   already present simplex; an id already in use), the choice of the id (`next(self._edge_uid) if not idx else idx`: a falsy id counts
   as not given), the calls of _add_simplex and update_uid_counter, and the loop `for members_sub in set(self._subfaces(members))`
   with its own guard and the call of _add_face are regenerated from the source on every run; run under Model/PyIR.v on the faces in
   the order in which the set yields them (each face in the order in which the frozenset yields its nodes: the hint), they are the
   model's add_simplex - for every member list, id, attribute dict, state and hint.  What stays hand-modelled is _subfaces itself
   (Model: subfaces; tied by C15's translator for xgi.utils.subfaces) and the iteration order of the sets (an input) *)
Theorem C03_add_simplex_is_source : forall ms idx a hint s,
  NoDup (snd hint) -> Forall (@NoDup lbl) (fst hint) -> has LNone (h_edge s) = false ->
  run_add_simplex src_sc_add_simplex_guards src_sc_add_simplex_head src_sc_face_guards src_sc_face_item ms idx a
                  (map (order_by (snd hint)) (order_faces (subfaces (mkset ms)) (fst hint))) s
  = add_simplex ms idx a hint s.
Proof. exact sc_add_simplex_full_is_source. Qed.
Print Assumptions C03_add_simplex_is_source.

(* the program does something: a triangle under a falsy id gets the automatic id 0 and its three edges the ids 1-3 *)
Example C03_add_simplex_source_runs :
  let r := run_add_simplex src_sc_add_simplex_guards src_sc_add_simplex_head src_sc_face_guards src_sc_face_item
             [LInt 1; LInt 2; LInt 3] (Some (LInt 0)) [] (map (order_by []) (order_faces (subfaces (mkset [LInt 1; LInt 2; LInt 3])) [])) hg_empty in
  keys (h_edge (st_of r)) = [LInt 0; LInt 1; LInt 2; LInt 3] /\ h_uid (st_of r) = 4%Z.
Proof. vm_compute. split; reflexivity. Qed.

(* THE SOURCE TIE for the public remove_simplex_id.  Its body - the loop over the ids _supfaces_id returns, each removed through
   _remove_simplex_id, then the simplex itself, the whole in `try ... except KeyError: raise XGIError` - is regenerated from the source
   on every run; run on the ids of the strict supersets of the simplex (Model: supfaces_id; _supfaces_id itself stays hand-modelled),
   it is the model's remove_simplex_id on every state satisfying the class invariant, for a present and for a missing id *)
Theorem C03_remove_simplex_id_is_source : forall idx s, Inv s ->
  run_remove_simplex_id src_sc_remove_simplex_id_public idx
     (match get idx (h_edge s) with Some ms => supfaces_id s ms | None => [] end) s
  = remove_simplex_id idx s.
Proof. exact sc_remove_simplex_id_public_is_source. Qed.
Print Assumptions C03_remove_simplex_id_is_source.

(* THE SOURCE TIE for remove_simplex_ids_from.  The snapshot `all_ids = set(self._edge.keys())`, the loop over the given ids with its
   guard (an id that was present at the start and has meanwhile been removed together with a face is skipped) and the call of the
   translated remove_simplex_id are regenerated from the source on every run; with _supfaces_id as the model has it, running them
   is the model's remove_simplex_ids_from on every state satisfying the class invariant, for every list of ids *)
Theorem C03_remove_simplex_ids_from_is_source : forall ids s, Inv s ->
  run_remove_simplex_ids_from src_sc_remove_ids_guards src_sc_remove_simplex_id_public
     (fun s idx => match get idx (h_edge s) with Some ms => supfaces_id s ms | None => [] end) ids s
  = remove_simplex_ids_from ids s.
Proof. exact sc_remove_simplex_ids_from_is_source. Qed.
Print Assumptions C03_remove_simplex_ids_from_is_source.
