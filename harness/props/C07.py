"""C07 - copies, pickles and network-to-network constructors are equal and independent."""
import copy, os, pickle, random, warnings
from .. import common as C, histcheck as HC, gallina as G, hgsim, disim, scsim, provenance as PV
from . import base, C01, C02, C03, C04

PROP = "C07"
PROJ = "(mkProj true true true false)"
IMPORTS = ("Base.Label Base.Attr Base.Outcome Model.Hypergraph Model.HgCheck Model.DiHypergraph Model.DiCheck "
           "Model.SimplicialComplex Model.ScCheck Model.Copy")
CLASSES = {"Hypergraph": (hgsim, "dup_mismatches_hg"), "DiHypergraph": (disim, "dup_mismatches_di"),
           "SimplicialComplex": (scsim, "dup_mismatches_sc")}
NESTED = [{"tags": [1, 2], "meta": {"a": [1], "b": "x"}}, {"tags": ["u"], "w": 3}, {"meta": {"k": {"z": [0]}}},
          # mutable objects inside immutable containers, and a set
          {"route": ([1, 2], "x")}, {"pos": (0.5, {"k": 1}), "tags": [3]}, {"group": {1, 2}, "pair": (("a", [0]), 1)}]


def dup(net, route):
    if route == "copy":
        return net.copy()
    if route == "ctor":
        return type(net)(net)
    with warnings.catch_warnings():
        warnings.simplefilter("ignore")
        return pickle.loads(pickle.dumps(net))


def snap(sim, net):
    ob = sim.observe(net)
    return {k: ob.get(k) for k in ("nodes", "nattr", "edges", "eattr", "net", "uid", "broken")}


def decorate(sim, net, rng):
    """nested mutable attribute values on a few nodes and edges, and a nested network attribute"""
    nodes, edges = list(net.nodes), list(net.edges)
    if nodes:
        net.set_node_attributes({n: copy.deepcopy(rng.choice(NESTED)) for n in rng.sample(nodes, min(2, len(nodes)))})
    if edges:
        net.set_edge_attributes({e: copy.deepcopy(rng.choice(NESTED)) for e in rng.sample(edges, min(2, len(edges)))})
    net._net_attr["info"] = {"l": [1, 2]}


def mutate_nested(net):
    """in-place changes of nested attribute values reached through `net` (inside lists, dicts, sets and tuples)"""
    def mut(v):
        k = 0
        if isinstance(v, list):
            v.append("MUT"); k += 1
            for w in v[:-1]:
                k += mut(w)
        elif isinstance(v, dict):
            for w in list(v.values()):
                k += mut(w)
            v["MUT"] = 1; k += 1
        elif isinstance(v, set):
            v.add("MUT"); k += 1
        elif isinstance(v, tuple):
            for w in v:
                k += mut(w)
        return k
    n = 0
    for view in (net.nodes, net.edges):
        for i in view:
            for v in list(view[i].values()):
                n += mut(v)
    for v in net._net_attr.values():
        if isinstance(v, dict):
            v["MUT"] = 1; n += 1
    return n


def check_one(sim, klass, rec, rng):
    """returns (failure description or None, list of (route, obs of duplicate))"""
    decorate(sim, rec["net"], rng)
    with warnings.catch_warnings():
        warnings.simplefilter("ignore")
        blob = pickle.dumps(rec["net"])
    def pristine():
        with warnings.catch_warnings():
            warnings.simplefilter("ignore")
            return pickle.loads(blob)
    dups = []
    for route in ("copy", "ctor", "pickle"):
        net = pristine()
        base_snap = snap(sim, net)
        try:
            d = dup(net, route)
        except Exception as e:  # noqa: BLE001
            return f"{route} raised {type(e).__name__}: {e}", dups
        s = snap(sim, d)
        dups.append((route, s))
        for k in ("nodes", "nattr", "edges", "eattr", "net"):
            if s[k] != base_snap[k]:
                return f"{route}: {k} differ: {base_snap[k]} vs {s[k]}", dups
        if route in ("copy", "pickle") and s["uid"] != base_snap["uid"]:
            return f"{route}: next automatic id {s['uid']} differs from the source's {base_snap['uid']}", dups
        if snap(sim, net) != base_snap:
            return f"{route} modified its source", dups
        # structural independence, both directions
        r2 = random.Random(rng.randrange(2 ** 60))
        nodes, eids = sim.make_pool(r2, rec.get("style", "int"))
        for _ in range(4):
            sim.apply_op(d, sim.gen_op(r2, d, nodes, eids, False))
        if snap(sim, net) != base_snap:
            return f"edits of the {route} duplicate are visible in the source", dups
        d2 = dup(net, route)
        d2_snap = snap(sim, d2)
        for _ in range(3):
            sim.apply_op(net, sim.gen_op(r2, net, nodes, eids, False))
        if snap(sim, d2) != d2_snap:
            return f"edits of the source are visible in its {route} duplicate", dups
        # nested attribute values reached through copy()
        if route == "copy":
            net = pristine()
            d3 = dup(net, "copy")
            before = copy.deepcopy(snap(sim, net))
            mutate_nested(d3)
            if snap(sim, net) != before:
                return "an in-place change of a nested attribute value reached through copy() is visible in the source", dups
            d4 = dup(net, "copy")
            before4 = copy.deepcopy(snap(sim, d4))
            mutate_nested(net)
            if snap(sim, d4) != before4:
                return "an in-place change of a nested attribute value of the source is visible in its copy()", dups
        # both keep assigning fresh ids
        net = pristine()
        for which, x in (("duplicate", dup(net, route)), ("source", net)):
            dsc = C04.probe_additions(x, random.Random(1))
            if dsc:
                return f"after {route}, the {which}: {dsc}", dups
    return None, dups


def run(v):
    proof = base.proof_stage(v, PROP)
    n = 1500 if C.tier() == "thorough" else 150
    failures, reports, errors, total, allrecs = [], [], [], 0, []
    # "keeps assigning fresh edge ids" for ids outside the model's label universe too: networks whose explicit ids are whole-number
    # floats / numpy scalars, duplicated by pickle, deepcopy, copy.copy and .copy(), then extended (the probe of C04, the
    # duplication routes only)
    for sig, payload in C04.exotic_id_probe():
        if " then " in payload.get("provenance", ""):
            failures.append((sig.replace("C04:", PROP + ":", 1), dict(payload, property_clause="a duplicate keeps assigning fresh edge ids")))
    for klass, (sim, fn) in CLASSES.items():
        rng = random.Random(C.seed() * 31 + 7)
        recs = HC.gen_histories(sim, n, 14, C.seed() + 70)
        total += len(recs); allrecs += recs
        terms = []
        for i, r in enumerate(recs):
            if r["obs"] and r["obs"][-1].get("broken"):
                continue
            net = r["net"]
            # correspondence cases first (on the undecorated network: attribute values stay in the model's universe)
            for route in ("copy", "ctor"):
                try:
                    d = dup(net, route)
                    ob = sim.observe(d)
                    t = G.gpair(G.glist([sim.op_to_gallina(op, ex) for op, ex in zip(r["ops"], r["extras"])]),
                                G.gbool(route == "copy"), sim.obs_to_gallina(ob, None, 0))
                    terms.append(((i, route), t))
                except G.Unsupported:
                    pass
                except Exception as e:  # noqa: BLE001
                    failures.append((f"{PROP}:{klass}.{route}:raises",
                                     {"what": f"{route} raised {type(e).__name__}: {e}", "class": klass,
                                      "history": HC.jsonable(r["ops"])}))
            d, _ = check_one(sim, klass, r, rng)
            if d:
                failures.append((f"{PROP}:{klass}:{' '.join(d.split(' ')[:3])}",
                                 {"what": d, "class": klass, "history": HC.jsonable(r["ops"])}))
        # evaluate the correspondence
        cdir = C.cases_dir(PROP + klass)
        files = {}
        for k in range(0, len(terms), 150):
            chunk = terms[k:k + 150]
            path = os.path.join(cdir, f"cases_{PROP}_{klass}_{k // 150}.v")
            C.write_case_file(path, [IMPORTS], "Definition cases := [\n" + ";\n".join(t for _, t in chunk) + "\n].\n" +
                              f"Eval vm_compute in ({fn} {PROJ} cases).\n")
            files[path] = [key for key, _ in chunk]
        res = C.run_coq_files(files.keys())
        for path, keys in files.items():
            rc, out = res[path]
            pairs = C.parse_pairs(out) if rc == 0 else None
            if pairs is None:
                errors.append({"file": os.path.basename(path), "rc": rc, "output": out[-1500:]})
                continue
            for ci, _ in pairs[:3]:
                i, route = keys[ci]
                reports.append({"correspondence": f"{fn} {PROJ}", "class": klass, "route": route,
                                "history": HC.jsonable(recs[i]["ops"])})
        C.clean_cases(cdir)
    st = HC.stats(allrecs)
    v.coverage.update({
        "evaluations": total,
        "distinct_nontrivial": st.pop("distinct_nontrivial"),
        "rule": "networks of the three classes built by generated edit histories (then decorated with nested mutable "
                "attribute values); duplicated by copy(), Class(net) and pickle; model duplicate compared with the "
                "observed one; oracle: equality, structural independence in both directions, nested in-place "
                "mutations through copy(), fresh ids on both sides",
        "samples": [HC.jsonable(r["ops"][:5]) for r in allrecs[:2]],
        "oracle_evaluations": total * 3,
        "exhaustive": False,
        **st,
    })
    base.conclude(v, proof, reports, failures, errors)


def replay(payload):
    klass = payload.get("class", "Hypergraph")
    d = payload.get("detail", payload)
    sim, fn = CLASSES[klass]
    ops = HC.unjson(d["history"])
    rec = sim.run_history(ops)
    rec["style"] = "int"
    r, _ = check_one(sim, klass, rec, random.Random(0))
    print("oracle:", r or "holds")
    return 1 if r else 0
