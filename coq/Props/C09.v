(* C09 - structural measures are invariant under relabelling and insertion order.
   rename_hg fn fe s relabels nodes through fn and edge ids through fe.  For every state s and every
   injective fn, fe (any target labels: other integers, permutations, strings) the modelled measures
   commute with the relabelling; the matrices are literally equal (the relabelling keeps the table
   order).  For every reordering of the node and edge tables (insertion order) the label-indexed
   quantities are unchanged.  That the model functions are the implementation's is the
   correspondence of C06 / C12 / C14, repeated here on relabelled networks. *)
From Coq Require Import String ZArith List Bool Permutation.
From XV Require Import Base.Label Base.LSet Base.ODict Base.Attr Base.Outcome Model.Hypergraph Model.Stats Model.Hodge
  Model.Matrix Model.Graph Model.Rename Proofs.HgViews Proofs.RenameProofs Proofs.RenameMore Proofs.HgInv Proofs.GraphProofs Proofs.MemberOrder.
Import ListNotations.
Open Scope Z_scope.

Theorem C09_degree_relabel : forall fn fe s n, Inj fn ->
  degree None None (rename_hg fn fe s) (fn n) = degree None None s n.
Proof. intros fn fe s n Hn. apply degree_rename. exact Hn. Qed.
Print Assumptions C09_degree_relabel.

Theorem C09_edge_size_relabel : forall fn fe s e, Inj fe ->
  edge_size None (rename_hg fn fe s) (fe e) = edge_size None s e.
Proof. intros fn fe s e He. apply edge_size_rename. exact He. Qed.
Print Assumptions C09_edge_size_relabel.

Theorem C09_neighbors_relabel : forall fn fe s v, Inj fn -> Inj fe ->
  nbrs (rename_hg fn fe s) (fn v) = map fn (nbrs s v).
Proof. intros fn fe s v Hn He. apply nbrs_rename; assumption. Qed.
Print Assumptions C09_neighbors_relabel.

Theorem C09_component_relabel : forall fn fe s v, Inj fn -> Inj fe ->
  component (rename_hg fn fe s) (fn v) = map fn (component s v).
Proof. intros fn fe s v Hn He. apply component_rename; assumption. Qed.
Print Assumptions C09_component_relabel.

Theorem C09_distance_relabel : forall fn fe s a b, Inj fn -> Inj fe ->
  dist (rename_hg fn fe s) (fn a) (fn b) = dist s a b.
Proof. intros fn fe s a b Hn He. apply dist_rename; assumption. Qed.
Print Assumptions C09_distance_relabel.

Theorem C09_matrices_relabel : forall fn fe s, Inj fn -> Inj fe ->
  (forall o, incidence (rename_hg fn fe s) o = incidence s o) /\
  (forall o sv w, adjacency' (rename_hg fn fe s) o sv w = adjacency' s o sv w) /\
  (forall o, degree_vec (rename_hg fn fe s) o = degree_vec s o) /\
  (forall d, laplacian (rename_hg fn fe s) d = laplacian s d) /\
  (forall o, intersection_profile (rename_hg fn fe s) o = intersection_profile s o).
Proof.
  intros fn fe s Hn He. split; [|split; [|split; [|split]]].
  - intro o. apply incidence_rename; assumption.
  - intros o sv w. apply adjacency_rename; assumption.
  - intro o. apply degree_vec_rename; assumption.
  - intro d. apply laplacian_rename; assumption.
  - intro o. apply intersection_profile_rename; assumption.
Qed.
Print Assumptions C09_matrices_relabel.

Theorem C09_clustering_relabel : forall fn fe s v, Inj fn -> Inj fe ->
  clustering (rename_hg fn fe s) (fn v) = clustering s v.
Proof. intros fn fe s v Hn He. apply clustering_rename; assumption. Qed.
Print Assumptions C09_clustering_relabel.

Theorem C09_maximal_relabel : forall fn fe s strict, Inj fn -> Inj fe ->
  maximal strict (rename_hg fn fe s) = map fe (maximal strict s).
Proof. intros fn fe s strict Hn He. apply maximal_rename; assumption. Qed.
Print Assumptions C09_maximal_relabel.

Theorem C09_projection_relabel : forall fn fe s, Inj fn -> Inj fe ->
  projection_links (rename_hg fn fe s) = map (fun ab => (fn (fst ab), fn (snd ab))) (projection_links s).
Proof. intros fn fe s Hn He. apply projection_links_rename; assumption. Qed.
Print Assumptions C09_projection_relabel.

Theorem C09_line_graph_relabel : forall fn fe s sv, Inj fn ->
  line_links sv (h_edge (rename_hg fn fe s)) =
  map (fun t => (fe (fst (fst t)), fe (snd (fst t)), snd t)) (line_links sv (h_edge s)).
Proof. intros fn fe s sv Hn. apply line_graph_rename; assumption. Qed.
Print Assumptions C09_line_graph_relabel.

(* insertion order of nodes and of edges *)
Theorem C09_insertion_order : forall s s',
  NoDup (keys (h_node s)) -> NoDup (keys (h_edge s)) ->
  Permutation (h_node s) (h_node s') -> Permutation (h_edge s) (h_edge s') ->
  (forall n, degree None None s' n = degree None None s n) /\
  (forall e, edge_size None s' e = edge_size None s e) /\
  (forall v, nbrs s' v = nbrs s v) /\
  (forall v, component s' v = component s v) /\
  (forall a b, dist s' a b = dist s a b) /\
  (forall a b, fold_left (fun acc kv => acc + b2z (mem a (snd kv)) * b2z (mem b (snd kv))) (h_edge s') 0 =
               fold_left (fun acc kv => acc + b2z (mem a (snd kv)) * b2z (mem b (snd kv))) (h_edge s) 0).
Proof.
  intros s s' Kn Ke Pn Pe. split; [|split; [|split; [|split; [|split]]]].
  - intro n. apply degree_reorder; assumption.
  - intro e. apply edge_size_reorder; assumption.
  - intro v. apply nbrs_reorder; assumption.
  - intro v. apply component_reorder; assumption.
  - intros a b. apply dist_reorder; assumption.
  - intros a b. apply shared_reorder; assumption.
Qed.
Print Assumptions C09_insertion_order.

Example C09_nonvacuous :
  let s := run [OAddEdgesFrom (EB1 [[LInt 1; LInt 2; LInt 3]; [LInt 3; LInt 4]]) []] hg_empty in
  let fn := apply_map [(LInt 1, LStr "a"); (LInt 2, LStr "b"); (LInt 3, LInt 0); (LInt 4, LInt 7)] in
  let fe := apply_map [(LInt 0, LInt 1); (LInt 1, LInt 0)] in
  component (rename_hg fn fe s) (LStr "a") = [LStr "a"; LStr "b"; LInt 0; LInt 7] /\
  dist (rename_hg fn fe s) (LStr "a") (LInt 7) = Some 2.
Proof. vm_compute. split; reflexivity. Qed.
Print Assumptions C09_nonvacuous.

(* member order: the order in which Python happens to iterate a member or membership set is invisible - two states
   with the same keys whose stored lists are equal as sets have the same degrees, sizes, neighbourhoods,
   reachability, components (as sets) and distances *)
Theorem C09_member_order : forall s s', Inv s -> Inv s' -> SameSets s s' ->
  (forall n, degree None None s' n = degree None None s n) /\
  (forall e, edge_size None s' e = edge_size None s e) /\
  (forall a b, In b (nbrs s' a) <-> In b (nbrs s a)) /\
  (forall a b, Reach s' a b <-> Reach s a b) /\
  (forall v x, In v (nkeys s) -> (In x (component s' v) <-> In x (component s v))) /\
  (forall a b, In a (nkeys s) -> dist s' a b = dist s a b).
Proof.
  intros s s' I I' SS. split; [apply (mo_degree s s' I I' SS)|]. split; [apply (mo_edge_size s s' I I' SS)|].
  split; [apply (mo_nbrs s s' SS)|]. split; [apply (mo_reach s s' SS)|].
  split; [apply (mo_component s s' I I' SS)|apply (mo_dist s s' I I' SS)].
Qed.
Print Assumptions C09_member_order.
