(* Attribute values (JSON-like trees plus labels-as-values) and attribute dictionaries. *)
From Coq Require Import String ZArith List Bool Lia.
From XV Require Import Base.Label.
Import ListNotations.

Inductive aval : Type :=
| AInt (z : Z)
| AStr (s : string)
| ANone
| ABool (b : bool)
| AList (l : list aval)                 (* Python list *)
| ATup (l : list aval)                  (* Python tuple *)
| ASet (l : list aval)                  (* Python set: compared up to order *)
| ADict (l : list (string * aval)).     (* Python dict with string keys, insertion order *)

Definition attrs := list (string * aval).

Fixpoint aval_eqb (a b : aval) : bool :=
  let fix go (x y : list aval) : bool :=
    match x, y with
    | [], [] => true
    | a :: x', b :: y' => aval_eqb a b && go x' y'
    | _, _ => false
    end in
  let fix subv (x y : list aval) : bool :=
    match x with
    | [] => true
    | a :: x' => (fix memr (y : list aval) : bool :=
                    match y with [] => false | b :: y' => aval_eqb a b || memr y' end) y
                 && subv x' y
    end in
  let fix god (x y : list (string * aval)) : bool :=
    match x, y with
    | [], [] => true
    | (k, a) :: x', (k', b) :: y' => String.eqb k k' && aval_eqb a b && god x' y'
    | _, _ => false
    end in
  match a, b with
  | AInt x, AInt y => Z.eqb x y
  | AStr x, AStr y => String.eqb x y
  | ANone, ANone => true
  | ABool x, ABool y => Bool.eqb x y
  | AList x, AList y => go x y
  | ATup x, ATup y => go x y
  | ASet x, ASet y => subv x y && Nat.eqb (List.length x) (List.length y)
  | ADict x, ADict y => god x y
  | _, _ => false
  end.

Fixpoint aget (k : string) (d : attrs) : option aval :=
  match d with
  | [] => None
  | (k', v) :: r => if String.eqb k k' then Some v else aget k r
  end.

Fixpoint aset (k : string) (v : aval) (d : attrs) : attrs :=
  match d with
  | [] => [(k, v)]
  | (k', v') :: r => if String.eqb k k' then (k', v) :: r else (k', v') :: aset k v r
  end.

(* d.update(u) *)
Definition aupdate (d u : attrs) : attrs :=
  fold_left (fun acc kv => aset (fst kv) (snd kv) acc) u d.

(* dict equality: same keys with equal values, key order ignored (keys are unique) *)
Definition attrs_sub (x y : attrs) : bool :=
  forallb (fun kv => match aget (fst kv) y with Some v => aval_eqb (snd kv) v | None => false end) x.
Definition attrs_eqb (x y : attrs) : bool :=
  attrs_sub x y && Nat.eqb (List.length x) (List.length y).

(* key sets only (projection used when a property does not speak about values) *)
Definition attrs_keys (d : attrs) : list string := map fst d.

Fixpoint aval_of_lbl (a : lbl) : aval :=
  match a with
  | LInt z => AInt z
  | LStr s => AStr s
  | LTup l => ATup (map aval_of_lbl l)
  | LNone => ANone
  end.
