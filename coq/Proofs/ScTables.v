(* How the primitives used by the SimplicialComplex model change the edge table, stated with `get`. *)
From Coq Require Import String ZArith List Bool Lia.
From XV Require Import Base.Label Base.LSet Base.ODict Base.Attr Base.Outcome Model.Hypergraph
  Proofs.HgViews Proofs.HgInv Proofs.HgInvOps Proofs.HgKeys.
Import ListNotations.
Open Scope Z_scope.

Lemma attach_get e s n e' :
  get e' (h_edge (attach e s n)) =
  if lbl_eqb e' e then Some (sadd n (getl e (h_edge s))) else get e' (h_edge s).
Proof.
  unfold attach, edge_add, node_add. simpl. rewrite get_set, !ensure_node_edge. reflexivity.
Qed.

Lemma fold_attach_get e ms : forall s,
  has e (h_edge s) = true ->
  exists M, (forall x, In x M <-> In x ms \/ In x (getl e (h_edge s))) /\
            (NoDup (getl e (h_edge s)) -> NoDup M) /\
            forall e', get e' (h_edge (fold_left (attach e) ms s)) =
                       if lbl_eqb e' e then Some M else get e' (h_edge s).
Proof.
  induction ms as [|m ms IH]; intros s He; simpl.
  - exists (getl e (h_edge s)). split; [intro x; simpl; tauto|]. split; [auto|].
    intro e'. destruct (lbl_eqb_spec e' e) as [->|N]; [|reflexivity].
    unfold has in He. unfold getl. destruct (get e (h_edge s)); [reflexivity|discriminate].
  - destruct (IH (attach e s m) (attach_has e s m He)) as (M & A & B & C).
    exists M. split; [|split].
    + intro x. rewrite A. unfold getl. rewrite attach_get, lbl_eqb_refl. rewrite In_sadd. fold (getl e (h_edge s)). simpl. intuition (subst; auto).
    + intro ND. apply B. unfold getl. rewrite attach_get, lbl_eqb_refl. apply NoDup_sadd. exact ND.
    + intro e'. rewrite C, attach_get. destruct (lbl_eqb e' e); reflexivity.
Qed.

Lemma insert_edge_get e ms a s :
  exists M, (forall x, In x M <-> In x ms) /\ NoDup M /\
            forall e', get e' (h_edge (insert_edge e ms a s)) =
                       if lbl_eqb e' e then Some M else get e' (h_edge s).
Proof.
  unfold insert_edge. set (s1 := with_edge s (set e [] (h_edge s))).
  assert (He1 : has e (h_edge s1) = true).
  { apply has_In. unfold s1. simpl. apply In_keys_set. left; reflexivity. }
  destruct (fold_attach_get e ms s1 He1) as (M & A & B & C).
  assert (G : getl e (h_edge s1) = []).
  { unfold s1, getl. simpl. rewrite get_set_same. reflexivity. }
  exists M. split; [|split].
  - intro x. rewrite A, G. simpl. tauto.
  - apply B. rewrite G. constructor.
  - intro e'. simpl. rewrite C. unfold s1. simpl. rewrite get_set.
    destruct (lbl_eqb e' e); reflexivity.
Qed.

Lemma bump_uid_edge e s : h_edge (bump_uid e s) = h_edge s.
Proof. destruct (bump_uid_tables e s) as (_ & _ & C & _). exact C. Qed.

Lemma remove_edge1_get e s e' :
  get e' (h_edge (st_of (remove_edge1 e s))) = if lbl_eqb e' e then None else get e' (h_edge s).
Proof.
  unfold remove_edge1. destruct (get e (h_edge s)) as [ms|] eqn:G.
  - rewrite st_of_ok. destruct (unlink_views e ms s) as (_ & B & _).
    unfold drop_edge. simpl. rewrite B. apply get_del.
  - rewrite st_of_raise. destruct (lbl_eqb_spec e' e) as [->|N]; [exact G|reflexivity].
Qed.

Lemma fold_remove_edge1_get es : forall s e',
  get e' (h_edge (fold_left (fun s e => st_of (remove_edge1 e s)) es s)) =
  if mem e' es then None else get e' (h_edge s).
Proof.
  induction es as [|e es IH]; intros s e'; simpl; [reflexivity|].
  rewrite IH, remove_edge1_get. destruct (lbl_eqb_spec e' e) as [->|N]; simpl.
  - destruct (mem e es); reflexivity.
  - reflexivity.
Qed.

Lemma fold_remove_edge1_Inv es : forall s, Inv s -> Inv (fold_left (fun s e => st_of (remove_edge1 e s)) es s).
Proof.
  induction es as [|e es IH]; intros s I; simpl; [exact I|]. apply IH. apply Inv_remove_edge1. exact I.
Qed.

(* strong node removal on the edge table *)
Lemma node_rem_edge m e s : h_edge (node_rem m e s) = h_edge s.
Proof. unfold node_rem. destruct (has m (h_node s)); reflexivity. Qed.

Lemma fold_node_rem_edge e ms : forall s, h_edge (fold_left (fun s m => node_rem m e s) ms s) = h_edge s.
Proof. induction ms as [|m ms IH]; intro s; simpl; [reflexivity|]. rewrite IH. apply node_rem_edge. Qed.

Lemma strong_fold_get n es : forall s e',
  get e' (h_edge (fold_left (fun s e =>
                    let nbrs := getl e (h_edge s) in
                    let s' := drop_edge e s in
                    fold_left (fun s m => node_rem m e s) (sremove n nbrs) s') es s)) =
  if mem e' es then None else get e' (h_edge s).
Proof.
  induction es as [|e es IH]; intros s e'; simpl; [reflexivity|].
  rewrite IH, fold_node_rem_edge. unfold drop_edge. simpl. rewrite get_del.
  destruct (lbl_eqb_spec e' e) as [->|N]; simpl.
  - destruct (mem e es); reflexivity.
  - reflexivity.
Qed.

Lemma strong_remove_get n re s es e' :
  get n (h_node s) = Some es ->
  get e' (h_edge (st_of (remove_node n true re s))) = if mem e' es then None else get e' (h_edge s).
Proof.
  intro G. unfold remove_node. rewrite G, st_of_ok. rewrite strong_fold_get. reflexivity.
Qed.
