From XV Require Import Model.Hypergraph Model.HgCheck.
Theorem C01_init_wf : wf_b hg_empty = true.
Proof. reflexivity. Qed.
Print Assumptions C01_init_wf.
