(* Relabelling of a hypergraph (C09): nodes through fn, edge ids through fe, order of the tables kept. *)
From Coq Require Import String ZArith List Bool Lia.
From XV Require Import Base.Label Base.LSet Base.ODict Base.Attr Base.Outcome Model.Hypergraph Model.Stats Model.Hodge
     Model.Matrix Model.Graph.
Import ListNotations.
Open Scope Z_scope.

Definition rename_table (f g : lbl -> lbl) (d : odict (list lbl)) : odict (list lbl) :=
  map (fun kv => (f (fst kv), map g (snd kv))) d.
Definition rename_attrs (f : lbl -> lbl) (d : odict attrs) : odict attrs := map (fun kv => (f (fst kv), snd kv)) d.

Definition rename_hg (fn fe : lbl -> lbl) (s : hg) : hg :=
  mkHG (rename_table fn fe (h_node s)) (rename_attrs fn (h_nattr s))
       (rename_table fe fn (h_edge s)) (rename_attrs fe (h_eattr s)) (h_net s) (h_uid s).

(* a finite relabelling given as association lists (identity elsewhere) *)
Definition apply_map (m : list (lbl * lbl)) (x : lbl) : lbl := match get x m with Some y => y | None => x end.

(* ---------- correspondence: the implementation's values on the relabelled network ---------- *)
Inductive rquery : Type :=
| RDegree | RSize | RNeighbors (v : lbl) | RComponent (v : lbl) | RDistances (v : lbl)
| RShared (a b : lbl) | RClusteringQ.
Inductive ranswer : Type :=
| RaMap (l : list (lbl * Z)) | RaSet (l : list lbl) | RaDist (l : list (lbl * option Z)) | RaZ (z : Z)
| RaQ (l : list (lbl * (Z * Z))).

Definition reval (q : rquery) (s : hg) : ranswer :=
  match q with
  | RDegree => RaMap (along (keys (h_node s)) (degree None None s))
  | RSize => RaMap (along (keys (h_edge s)) (edge_size None s))
  | RNeighbors v => RaSet (nbrs s v)
  | RComponent v => RaSet (component s v)
  | RDistances v => RaDist (dist_row s v)
  | RShared a b => RaZ (fold_left (fun acc kv => acc + b2z (mem a (snd kv)) * b2z (mem b (snd kv))) (h_edge s) 0)
  | RClusteringQ => RaQ (map (fun v => (v, clustering s v)) (keys (h_node s)))
  end.

(* keyed answers are compared as finite maps (the relabelled implementation network lists its
   nodes and edges in another order) *)
Definition map_sub (a b : list (lbl * Z)) : bool :=
  forallb (fun x => existsb (fun y => lbl_eqb (fst x) (fst y) && (snd x =? snd y)) b) a.
Definition dist_sub (a b : list (lbl * option Z)) : bool :=
  forallb (fun x => existsb (fun y => lbl_eqb (fst x) (fst y) && oz_eqb (snd x) (snd y)) b) a.
Definition q_sub (a b : list (lbl * (Z * Z))) : bool :=
  forallb (fun x => existsb (fun y => lbl_eqb (fst x) (fst y) && qval_eqb (snd x) (snd y)) b) a.
Definition ranswer_eqb (a b : ranswer) : bool :=
  match a, b with
  | RaMap x, RaMap y => map_sub x y && map_sub y x && Nat.eqb (length x) (length y)
  | RaSet x, RaSet y => set_eqb' x y
  | RaDist x, RaDist y => dist_sub x y && dist_sub y x && Nat.eqb (length x) (length y)
  | RaZ x, RaZ y => x =? y
  | RaQ x, RaQ y => q_sub x y && q_sub y x && Nat.eqb (length x) (length y)
  | _, _ => false
  end.

Fixpoint r_first_bad (s : hg) (qs : list (rquery * ranswer)) (j : nat) : option nat :=
  match qs with
  | [] => None
  | (q, a) :: r => if ranswer_eqb (reval q s) a then r_first_bad s r (S j) else Some j
  end.
(* (history, node map, edge map, queries answered by the implementation on its relabelled network) *)
Fixpoint rename_bad_from (cases : list (list op * list (lbl * lbl) * list (lbl * lbl) * list (rquery * ranswer))) (i : nat)
  : list (nat * nat) :=
  match cases with
  | [] => []
  | (ops, mn, me, qs) :: r =>
      match r_first_bad (rename_hg (apply_map mn) (apply_map me) (run ops hg_empty)) qs O with
      | Some j => (i, j) :: rename_bad_from r (S i)
      | None => rename_bad_from r (S i)
      end
  end.
Definition rename_bad cases := rename_bad_from cases O.
