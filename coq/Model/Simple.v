(* xgi/generators/simple.py::sunflower (C16): l petals of m nodes sharing a core of c nodes. *)
From Coq Require Import List Arith Lia Bool.
From XV Require Import Base.Label Base.LSet Model.Decoders.
Import ListNotations.

Definition sunflower_edges (l c m : nat) : list (list nat) :=
  map (fun p => seq 0 c ++ seq (c + p * (m - c)) (m - c)) (seq 0 l).

Definition sunflower_bad (cases : list (nat * nat * nat * list (list nat))) :=
  bad_index (fun '(l, c, m, obs) => lists_eqb (sunflower_edges l c m) obs) cases O.

(* star_clique(n_star, n_clique, d_max): a star on nodes 0..n_star-1 centred at 0, one link from the centre to the
   first clique node, and every subset of 2..d_max+1 clique nodes *)
Definition star_clique_edges (ns nc dmax : nat) : list (list nat) :=
  map (fun i => [0; i]) (seq 1 (ns - 1)) ++ [[0; ns]] ++
  flat_map (fun d => combs (seq ns nc) (d + 1)) (seq 1 dmax).
Definition star_clique_bad (cases : list (nat * nat * nat * list (list nat))) :=
  bad_index (fun '(ns, nc, dmax, obs) => lists_eqb (star_clique_edges ns nc dmax) obs) cases O.

(* ring_lattice(n, d, k, l): for every node and each of the k/2 next start positions, the node followed by the d-1
   consecutive nodes from start + l (mod n); given as the member lists the generator builds (an edge is their set) *)
Definition ring_lattice_edges (n d k l : nat) : list (list nat) :=
  flat_map (fun node => map (fun start => node :: map (fun i => (start + l + i) mod n) (seq 0 (d - 1)))
                            (seq (node + 1) (k / 2))) (seq 0 n).
Definition nat_set_eqb (a b : list nat) : bool :=
  forallb (fun x => existsb (Nat.eqb x) b) a && forallb (fun x => existsb (Nat.eqb x) a) b.
Fixpoint sets_eqb (a b : list (list nat)) : bool :=
  match a, b with [], [] => true | x :: a', y :: b' => nat_set_eqb x y && sets_eqb a' b' | _, _ => false end.
Definition ring_lattice_bad (cases : list (nat * nat * nat * nat * list (list nat))) :=
  bad_index (fun '(n, d, k, l, obs) => sets_eqb (ring_lattice_edges n d k l) obs) cases O.
