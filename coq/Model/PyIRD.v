(* The statement language of Model/PyIR.v for the bodies of the simplest mutators of xgi/core/dihypergraph.py, and its
   semantics on the two-sided model state.  harness/translate_dimutators.py regenerates the programs
   (Gen/DiMutators.v) from the source on every run; Proofs/DiMutatorSource.v proves that running them is what the
   hand-written model does.

   The Python object and the model state:
     self._node[n]["out"]  =  h_node (ts d) n      self._node[n]["in"]  =  h_node (hs d) n
     self._edge[e]["in"]   =  h_edge (ts d) e      self._edge[e]["out"] =  h_edge (hs d) e
     self._node_attr / self._edge_attr / self._net_attr = the tables of the tail side (the head side carries empty
     records under the same keys); the id counter is kept on both sides.
   A key test `k in self._T` reads the tail side (DInv: both sides have the same keys); a lookup self._T[k] of a missing
   key raises IDNotFound; self._T[k] = {...} with k = None raises XGIError; set.remove of a missing element raises
   KeyError. *)
From Coq Require Import String ZArith List Bool.
From XV Require Import Base.Label Base.LSet Base.ODict Base.Attr Base.Outcome Model.Hypergraph Model.DiHypergraph Model.PyIR.
Import ListNotations.

Inductive side := SdIn | SdOut.                       (* the strings "in" / "out" *)
Inductive sexp := SConst (s : side) | SEd | SNd.      (* a literal, or the variables ed / nd bound from `direction` *)
Inductive dbexp :=
| DIn (k : vexp) (t : table)                          (* k in self._T *)
| DMember (x k : vexp) (t : table) (sd : sexp)        (* x in self._T[k][sd] *)
| DEmpty (k : vexp) (t : table) (sd : sexp)           (* not self._T[k][sd] *)
| DFlag (i : nat)
| DNoneInTail | DNoneInHead                           (* None in tail / None in head *)
| DIdxNone                                            (* idx is None *)
| DIdxIn (t : table)                                  (* idx in self._T[.keys()]   (Python's None is the label LNone) *)
| DNot (b : dbexp) | DAnd (a b : dbexp) | DOr (a b : dbexp).
Inductive dstmt :=
| DIf (c : dbexp) (th el : list dstmt)
| DRaise (e : exc)
| DNewPair (t : table) (k : vexp)                     (* self._T[k] = {"in": set(), "out": set()} *)
| DNewAttr (t : table) (k : vexp)                     (* self._T_attr[k] = {} *)
| DAdd (t : table) (k : vexp) (sd : sexp) (x : vexp)  (* self._T[k][sd].add(x) *)
| DRemove (t : table) (k : vexp) (sd : sexp) (x : vexp)
| DDel (t : table) (k : vexp)                         (* del self._T[k] *)
| DDelAttr (t : table) (k : vexp)
| DUid (k : vexp)                                     (* update_uid_counter(self, k) *)
| DAttrUpdate (t : table) (k : vexp)                  (* self._T_attr[k].update(attr) *)
| DBindDir (ed_in nd_in ed_out nd_out : side) (body : list dstmt)
      (* if direction == "in": ed, nd = .. elif direction == "out": ed, nd = .. else: raise XGIError ; body = the rest *)
| DBindEdgeCopy (k : vexp) (body : list dstmt)        (* edge = self._edge[k].copy() ; body = the rest of the block *)
| DForLocal (sd : side) (body : list dstmt)           (* for <loop> in edge[sd]: body *)
| DForIds (body : list dstmt)                         (* for <loop> in <the iterable of ids>: body *)
| DForTail (body : list dstmt) | DForHead (body : list dstmt)   (* for <loop> in tail / head: body   (tail = list(members[0])) *)
| DClear (t : table) | DClearAttr (t : table) | DClearNet
| DBindNodeRef (k : vexp) (body : list dstmt)         (* x = self._node[k]  (a reference kept after `del self._node[k]`); body = the rest *)
| DForLocalMinus (sd : side) (v : vexp) (body : list dstmt)   (* for <loop> in x[sd].difference({v}): body *)
| DForLocalUnion (body : list dstmt)                  (* for <loop> in x["in"].union(x["out"]): body *)
| DSetPair (k : vexp)                                 (* self._edge[k] = {"in": set(tail), "out": set(head)} *)
| DAttrUpdateItem (t : table) (k : vexp).             (* self._T_attr[k].update(eattr), the item's own attribute dict *)

Record dext := mkDExt { dx_tail : list lbl; dx_head : list lbl; dx_idx : option lbl; dx_uid : lbl; dx_eattr : attrs }.
Definition dext0 : dext := mkDExt [] [] None LNone [].
Record denv := mkDEnv { de_args : list lbl; de_flags : list bool; de_dir : direction; de_attr : attrs; de_ids : list lbl;
                        de_loop : lbl; de_loop1 : lbl; de_ed : side; de_nd : side; de_local : list lbl * list lbl; de_x : dext }.
Definition dwith_loop (en : denv) (x : lbl) : denv :=
  mkDEnv (de_args en) (de_flags en) (de_dir en) (de_attr en) (de_ids en) x (de_loop en) (de_ed en) (de_nd en) (de_local en) (de_x en).
Definition dwith_sides (en : denv) (ed nd : side) : denv :=
  mkDEnv (de_args en) (de_flags en) (de_dir en) (de_attr en) (de_ids en) (de_loop en) (de_loop1 en) ed nd (de_local en) (de_x en).
Definition dwith_local (en : denv) (p : list lbl * list lbl) : denv :=
  mkDEnv (de_args en) (de_flags en) (de_dir en) (de_attr en) (de_ids en) (de_loop en) (de_loop1 en) (de_ed en) (de_nd en) p (de_x en).
Definition dwith_uid_var (en : denv) (u : lbl) : denv :=
  mkDEnv (de_args en) (de_flags en) (de_dir en) (de_attr en) (de_ids en) (de_loop en) (de_loop1 en) (de_ed en) (de_nd en) (de_local en)
         (mkDExt (dx_tail (de_x en)) (dx_head (de_x en)) (dx_idx (de_x en)) u (dx_eattr (de_x en))).

Definition dveval (v : vexp) (en : denv) : lbl :=
  match v with VArg i => nth i (de_args en) LNone | VLoop => de_loop en | VLoop1 => de_loop1 en | VUid => dx_uid (de_x en)
  | VIdx => match dx_idx (de_x en) with Some i => i | None => LNone end end.
Definition seval (sd : sexp) (en : denv) : side :=
  match sd with SConst s => s | SEd => de_ed en | SNd => de_nd en end.

(* which half of the state holds self._T[.][sd] *)
Definition tail_side (t : table) (sd : side) : bool :=
  match t, sd with TNode, SdOut => true | TNode, SdIn => false | TEdge, SdIn => true | TEdge, SdOut => false end.
Definition dtab (t : table) (sd : side) (d : dhg) : odict (list lbl) :=
  tab t (if tail_side t sd then ts d else hs d).
Definition set_dtab (t : table) (sd : side) (d : dhg) (v : odict (list lbl)) : dhg :=
  if tail_side t sd then mkD (set_tab t (ts d) v) (hs d) else mkD (ts d) (set_tab t (hs d) v).

Fixpoint dbeval (b : dbexp) (en : denv) (d : dhg) : bool + exc :=
  match b with
  | DIn k t => inl (has (dveval k en) (tab t (ts d)))
  | DMember x k t sd => if has (dveval k en) (tab t (ts d))
                        then inl (mem (dveval x en) (getl (dveval k en) (dtab t (seval sd en) d)))
                        else inr IDNotFound
  | DEmpty k t sd => if has (dveval k en) (tab t (ts d))
                     then inl (match getl (dveval k en) (dtab t (seval sd en) d) with [] => true | _ => false end)
                     else inr IDNotFound
  | DFlag i => inl (nth i (de_flags en) false)
  | DNoneInTail => inl (existsb is_none (dx_tail (de_x en)))
  | DNoneInHead => inl (existsb is_none (dx_head (de_x en)))
  | DIdxNone => inl (match dx_idx (de_x en) with None => true | Some _ => false end)
  | DIdxIn t => inl (has (match dx_idx (de_x en) with Some i => i | None => LNone end) (tab t (ts d)))
  | DNot b => match dbeval b en d with inl v => inl (negb v) | inr e => inr e end
  | DAnd a b => match dbeval a en d with
                | inl true => dbeval b en d
                | inl false => inl false
                | inr e => inr e
                end
  | DOr a b => match dbeval a en d with
               | inl true => inl true
               | inl false => dbeval b en d
               | inr e => inr e
               end
  end.

Fixpoint dexec (q : dstmt) (en : denv) (d : dhg) {struct q} : dhg * outcome :=
  match q with
  | DIf c th el => match dbeval c en d with
                   | inr e => (d, Raised e)
                   | inl true => (fix go (l : list dstmt) (d : dhg) : dhg * outcome :=
                                    match l with [] => (d, Ok)
                                    | q :: r => match dexec q en d with (d', Ok) => go r d' | y => y end end) th d
                   | inl false => (fix go (l : list dstmt) (d : dhg) : dhg * outcome :=
                                    match l with [] => (d, Ok)
                                    | q :: r => match dexec q en d with (d', Ok) => go r d' | y => y end end) el d
                   end
  | DRaise e => (d, Raised e)
  | DNewPair t k => if is_none (dveval k en) then (d, Raised XGIError)
                    else (mkD (set_tab t (ts d) (set (dveval k en) [] (tab t (ts d))))
                              (set_tab t (hs d) (set (dveval k en) [] (tab t (hs d)))), Ok)
  | DNewAttr t k => if is_none (dveval k en) then (d, Raised XGIError)
                    else (mkD (set_atab t (ts d) (set (dveval k en) [] (atab t (ts d))))
                              (set_atab t (hs d) (set (dveval k en) [] (atab t (hs d)))), Ok)
  | DAdd t k sd x => if has (dveval k en) (tab t (ts d))
                     then (set_dtab t (seval sd en) d (set (dveval k en) (sadd (dveval x en) (getl (dveval k en) (dtab t (seval sd en) d)))
                                                           (dtab t (seval sd en) d)), Ok)
                     else (d, Raised IDNotFound)
  | DRemove t k sd x => if has (dveval k en) (tab t (ts d))
                        then if mem (dveval x en) (getl (dveval k en) (dtab t (seval sd en) d))
                             then (set_dtab t (seval sd en) d (set (dveval k en) (sremove (dveval x en) (getl (dveval k en) (dtab t (seval sd en) d)))
                                                                   (dtab t (seval sd en) d)), Ok)
                             else (d, Raised KeyError)
                        else (d, Raised IDNotFound)
  | DDel t k => if has (dveval k en) (tab t (ts d))
                then (mkD (set_tab t (ts d) (del (dveval k en) (tab t (ts d)))) (set_tab t (hs d) (del (dveval k en) (tab t (hs d)))), Ok)
                else (d, Raised IDNotFound)
  | DDelAttr t k => if has (dveval k en) (atab t (ts d))
                    then (mkD (set_atab t (ts d) (del (dveval k en) (atab t (ts d)))) (set_atab t (hs d) (del (dveval k en) (atab t (hs d)))), Ok)
                    else (d, Raised IDNotFound)
  | DUid k => (both (bump_uid (dveval k en)) d, Ok)
  | DAttrUpdate t k => match get (dveval k en) (atab t (ts d)) with
                       | Some a => (mkD (set_atab t (ts d) (set (dveval k en) (aupdate a (de_attr en)) (atab t (ts d)))) (hs d), Ok)
                       | None => (d, Raised IDNotFound)
                       end
  | DBindDir ei ni eo no body =>
      match de_dir en with
      | DirIn => (fix go (l : list dstmt) (d : dhg) : dhg * outcome :=
                    match l with [] => (d, Ok)
                    | q :: r => match dexec q (dwith_sides en ei ni) d with (d', Ok) => go r d' | y => y end end) body d
      | DirOut => (fix go (l : list dstmt) (d : dhg) : dhg * outcome :=
                    match l with [] => (d, Ok)
                    | q :: r => match dexec q (dwith_sides en eo no) d with (d', Ok) => go r d' | y => y end end) body d
      | DirInvalid => (d, Raised XGIError)
      end
  | DBindEdgeCopy k body =>
      match get (dveval k en) (h_edge (ts d)) with
      | None => (d, Raised IDNotFound)
      | Some tl => let en' := dwith_local en (tl, getl (dveval k en) (h_edge (hs d))) in   (* a snapshot *)
                   (fix go (l : list dstmt) (d : dhg) : dhg * outcome :=
                    match l with [] => (d, Ok)
                    | q :: r => match dexec q en' d with (d', Ok) => go r d' | y => y end end) body d
      end
  | DForLocal sd body => (fix it (xs : list lbl) (d : dhg) : dhg * outcome :=
         match xs with [] => (d, Ok)
         | x :: r => match (fix go (l : list dstmt) (d : dhg) : dhg * outcome :=
                              match l with [] => (d, Ok)
                              | q :: r' => match dexec q (dwith_loop en x) d with (d', Ok) => go r' d' | y => y end end) body d with
                     | (d', Ok) => it r d' | y => y end end) (match sd with SdIn => fst (de_local en) | SdOut => snd (de_local en) end) d
  | DForIds body => (fix it (xs : list lbl) (d : dhg) : dhg * outcome :=
         match xs with [] => (d, Ok)
         | x :: r => match (fix go (l : list dstmt) (d : dhg) : dhg * outcome :=
                              match l with [] => (d, Ok)
                              | q :: r' => match dexec q (dwith_loop en x) d with (d', Ok) => go r' d' | y => y end end) body d with
                     | (d', Ok) => it r d' | y => y end end) (de_ids en) d
  | DForTail body => (fix it (xs : list lbl) (d : dhg) : dhg * outcome :=
         match xs with [] => (d, Ok)
         | x :: r => match (fix go (l : list dstmt) (d : dhg) : dhg * outcome :=
                              match l with [] => (d, Ok)
                              | q :: r' => match dexec q (dwith_loop en x) d with (d', Ok) => go r' d' | y => y end end) body d with
                     | (d', Ok) => it r d' | y => y end end) (dx_tail (de_x en)) d
  | DForHead body => (fix it (xs : list lbl) (d : dhg) : dhg * outcome :=
         match xs with [] => (d, Ok)
         | x :: r => match (fix go (l : list dstmt) (d : dhg) : dhg * outcome :=
                              match l with [] => (d, Ok)
                              | q :: r' => match dexec q (dwith_loop en x) d with (d', Ok) => go r' d' | y => y end end) body d with
                     | (d', Ok) => it r d' | y => y end end) (dx_head (de_x en)) d
  | DClear t => (mkD (set_tab t (ts d) []) (set_tab t (hs d) []), Ok)
  | DClearAttr t => (mkD (set_atab t (ts d) []) (set_atab t (hs d) []), Ok)
  | DClearNet => (mkD (with_net (ts d) []) (with_net (hs d) []), Ok)
  | DBindNodeRef k body =>
      match get (dveval k en) (h_node (ts d)) with
      | None => (d, Raised IDNotFound)
      | Some outs => let en' := dwith_local en (getl (dveval k en) (h_node (hs d)), outs) in   (* ("in", "out") *)
                     (fix go (l : list dstmt) (d : dhg) : dhg * outcome :=
                        match l with [] => (d, Ok)
                        | q :: r => match dexec q en' d with (d', Ok) => go r d' | y => y end end) body d
      end
  | DForLocalMinus sd v body => (fix it (xs : list lbl) (d : dhg) : dhg * outcome :=
         match xs with [] => (d, Ok)
         | x :: r => match (fix go (l : list dstmt) (d : dhg) : dhg * outcome :=
                              match l with [] => (d, Ok)
                              | q :: r' => match dexec q (dwith_loop en x) d with (d', Ok) => go r' d' | y => y end end) body d with
                     | (d', Ok) => it r d' | y => y end end) (sremove (dveval v en) (match sd with SdIn => fst (de_local en) | SdOut => snd (de_local en) end)) d
  | DForLocalUnion body => (fix it (xs : list lbl) (d : dhg) : dhg * outcome :=
         match xs with [] => (d, Ok)
         | x :: r => match (fix go (l : list dstmt) (d : dhg) : dhg * outcome :=
                              match l with [] => (d, Ok)
                              | q :: r' => match dexec q (dwith_loop en x) d with (d', Ok) => go r' d' | y => y end end) body d with
                     | (d', Ok) => it r d' | y => y end end) (sunion (fst (de_local en)) (snd (de_local en))) d
  | DSetPair k => if is_none (dveval k en) then (d, Raised XGIError)
                  else (mkD (with_edge (ts d) (set (dveval k en) (mkset (dx_tail (de_x en))) (h_edge (ts d))))
                            (with_edge (hs d) (set (dveval k en) (mkset (dx_head (de_x en))) (h_edge (hs d)))), Ok)
  | DAttrUpdateItem t k => match get (dveval k en) (atab t (ts d)) with
                           | Some a => (mkD (set_atab t (ts d) (set (dveval k en) (aupdate a (dx_eattr (de_x en))) (atab t (ts d)))) (hs d), Ok)
                           | None => (d, Raised IDNotFound)
                           end
  end.

Fixpoint dexec_list (l : list dstmt) (en : denv) (d : dhg) : dhg * outcome :=
  match l with [] => (d, Ok)
  | q :: r => match dexec q en d with (d', Ok) => dexec_list r en d' | y => y end end.

Definition run_dmethod (body : list dstmt) (args : list lbl) (flags : list bool) (dir : direction) (a : attrs) (ids : list lbl) (d : dhg) : dres :=
  match dexec_list body (mkDEnv args flags dir a ids LNone LNone SdIn SdOut ([], []) dext0) d with (d', o) => (d', o, O) end.

(* add_edge(self, members, idx=None, **attr): `tail = list(members[0]); head = list(members[1])`, guards, the binding
   `uid = next(self._edge_uid) if idx is None else idx`, guards again, then the statements *)
Fixpoint run_dguards (gs : list (dbexp * guard_action)) (en : denv) (d : dhg) : option dres :=
  match gs with
  | [] => None
  | (c, act) :: r =>
      match dbeval c en d with
      | inr e => Some (d, Raised e, O)
      | inl true => Some (match act with GRaise e => (d, Raised e, O) | GWarnReturn => (d, Ok, 1%nat) | GReturn => (d, Ok, O) end)
      | inl false => run_dguards r en d
      end
  end.
Definition run_dmethod_e (gs1 gs2 : list (dbexp * guard_action)) (body : list dstmt) (tl hd : list lbl) (idx : option lbl) (a : attrs) (d : dhg) : dres :=
  let en := mkDEnv [] [] DirInvalid a [] LNone LNone SdIn SdOut ([], []) (mkDExt tl hd idx LNone []) in
  match run_dguards gs1 en d with
  | Some r => r
  | None =>
      let u := match idx with Some i => i | None => LInt (h_uid (ts d)) end in
      let d0 := match idx with Some _ => d | None => both (fun s => with_uid s (h_uid s + 1)%Z) d end in
      let en' := dwith_uid_var en u in
      match run_dguards gs2 en' d0 with
      | Some r => r
      | None => match dexec_list body en' d0 with (d', o) => (d', o, O) end
      end
  end.

(* one item of the bulk formats of DiHypergraph.add_edges_from (the flag: the id is the caller's), and the loops over the items *)
Definition run_dbulk_item (gs : list (dbexp * guard_action)) (body : list dstmt) (explicit : bool) (a : attrs)
           (tl hd : list lbl) (idx : lbl) (ea : attrs) (d : dhg) : dres :=
  let en := mkDEnv [] [explicit] DirInvalid a [] LNone LNone SdIn SdOut ([], []) (mkDExt tl hd (Some idx) LNone ea) in
  match run_dguards gs en d with
  | Some r => r
  | None => match dexec_list body en d with (d', o) => (d', o, O) end
  end.
Definition run_dbulk (table : list (bool * bool)) (k : nat) (gs : list (dbexp * guard_action)) (body : list dstmt) (a : attrs)
           (items : list (list lbl * list lbl * lbl * attrs)) (d : dhg) : dres :=
  let '(explicit, has_ea) := nth k table (false, false) in
  dloop (fun d it =>
           let '(tl, hd, idx, ea) := it in
           let ea' := if has_ea then ea else [] in
           if explicit then run_dbulk_item gs body true a tl hd idx ea' d
           else run_dbulk_item gs body false a tl hd (LInt (h_uid (ts d))) ea' (both (fun s => with_uid s (h_uid s + 1)%Z) d)) items d.
Definition run_ditems (gs : list (dbexp * guard_action)) (body : list dstmt) (items : list (lbl * (list lbl * list lbl))) (d : dhg) : dres :=
  dloop (fun d im => run_dbulk_item gs body true [] (fst (snd im)) (snd (snd im)) (fst im) [] d) items d.

(* a loop over node ids whose item is: guards (a `warn(...); continue` guard ends the item with one warning), then the call of
   another translated method on that id with the same options *)
Definition run_dnode_items (gs : list (dbexp * guard_action)) (callee : list dstmt) (ns : list lbl) (flags : list bool) (d : dhg) : dres :=
  dloop (fun d n => match run_dguards gs (mkDEnv [] flags DirInvalid [] [] n LNone SdIn SdOut ([], []) dext0) d with
                    | Some r => r
                    | None => run_dmethod callee [n] flags DirInvalid [] [] d
                    end) ns d.

(* add_nodes_from: a loop over items n | (n, dict); `newdict` is the call's **attr, or a copy of it updated with the item's dict *)
Definition run_dnode_attr_items (body : list dstmt) (items : list (lbl * option attrs)) (a : attrs) (d : dhg) : dres :=
  dloop (fun d it => match dexec_list body (mkDEnv [] [] DirInvalid (match snd it with None => a | Some x => aupdate a x end) []
                                                   (fst it) LNone SdIn SdOut ([], []) dext0) d
                     with (d', o) => (d', o, O) end) items d.
