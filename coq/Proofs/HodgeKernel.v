(* C13, last clause: the kernel of the order-0 Hodge Laplacian consists exactly of the vectors that
   are constant on connected components (so its dimension is the number of components). *)
From Coq Require Import String ZArith List Bool Lia Sorted.
From XV Require Import Base.Label Base.LSet Base.ODict Base.Attr Base.Outcome Model.Hypergraph
     Model.SimplicialComplex Model.Hodge Model.Stats Model.Graph
     Proofs.HgViews Proofs.HgInv Proofs.ScInv Proofs.HodgeProofs Proofs.MatrixProofs Proofs.HodgeMore
     Proofs.SortProofs Proofs.ChainComplex Proofs.DerivedProofs Proofs.StatsProofs Proofs.GraphProofs.
Import ListNotations.
Open Scope Z_scope.

(* an entry of B_1: +-1 at the two end points of the 1-simplex, 0 elsewhere *)
Lemma bentry_edge n a b o :
  bentry [n] [a; b] 0 o = (if lbl_eqb b n then sgn o else 0) + (if lbl_eqb a n then - sgn o else 0).
Proof.
  unfold bentry. cbn [length seq fold_left remove_nth Hodge.lbls_eqb].
  replace (o + Z.of_nat 0 + 0) with o by (cbn; lia).
  replace (o + Z.of_nat 1 + 0) with (o + 1) by (cbn; lia). rewrite sgn_S.
  destruct (lbl_eqb b n), (lbl_eqb a n); cbn [andb]; lia.
Qed.

Lemma sum_indicator (y : lbl -> Z) (c : Z) (b : lbl) : forall l, NoDup l -> In b l ->
  sumZ (fun n => (if lbl_eqb b n then c else 0) * y n) l = c * y b.
Proof.
  induction l as [|x l IH]; intros ND Hb; [destruct Hb|]. inversion ND as [|? ? Hx ND']; subst.
  rewrite sumZ_cons. destruct (lbl_eqb_spec b x) as [->|N].
  - rewrite (sumZ_ext _ (fun _ => 0)); [rewrite sumZ_zero; lia|].
    intros n Hn. destruct (lbl_eqb_spec x n) as [->|_]; [contradiction|lia].
  - destruct Hb as [E|Hb]; [congruence|]. rewrite (IH ND' Hb). lia.
Qed.

Lemma sum_indicator_out (y : lbl -> Z) (c : Z) (b : lbl) l : ~ In b l ->
  sumZ (fun n => (if lbl_eqb b n then c else 0) * y n) l = 0.
Proof.
  intro H. rewrite (sumZ_ext _ (fun _ => 0)); [apply sumZ_zero|].
  intros n Hn. destruct (lbl_eqb_spec b n) as [->|_]; [contradiction|lia].
Qed.

(* the column of B_1 at the 1-simplex [a; b] applied to y *)
Lemma column_dot (y : lbl -> Z) nodes a b o : NoDup nodes -> In a nodes -> In b nodes ->
  sumZ (fun n => bentry [n] [a; b] 0 o * y n) nodes = sgn o * (y b - y a).
Proof.
  intros ND Ha Hb.
  rewrite (sumZ_ext _ (fun n => (if lbl_eqb b n then sgn o else 0) * y n + (if lbl_eqb a n then - sgn o else 0) * y n))
    by (intros; rewrite bentry_edge; lia).
  rewrite sumZ_plus, (sum_indicator y (sgn o) b nodes ND Hb), (sum_indicator y (- sgn o) a nodes ND Ha). lia.
Qed.

Lemma sgn_sq o : sgn o * sgn o = 1.
Proof. unfold sgn. destruct (Z.even o); reflexivity. Qed.

Lemma sumZ_zero_terms {A} (f : A -> Z) l : (forall t, 0 <= f t) -> sumZ f l = 0 -> forall t, In t l -> f t = 0.
Proof.
  intros Hp. induction l as [|x l IH]; intros H t Ht; [destruct Ht|]. rewrite sumZ_cons in H.
  pose proof (Hp x). assert (0 <= sumZ f l) by (apply sumZ_nonneg; exact Hp).
  destruct Ht as [<-|Ht]; [lia|]. apply IH; [lia|exact Ht].
Qed.

Lemma filter_nil {A} (p : A -> bool) l : (forall x, In x l -> p x = false) -> filter p l = [].
Proof. induction l as [|x l IH]; intro H; [reflexivity|]. cbn [filter]. rewrite (H x (or_introl eq_refl)). apply IH. intros y Hy. apply H. right; exact Hy. Qed.

Section Kernel.
  Variables (s : hg) (orient : list (lbl * Z)).
  Hypothesis SI : SInv s.
  Hypothesis Ord : Orderable s.

  Let I : Inv s := proj1 SI.
  Let nodes := keys (h_node s).
  Let n := length (cols_of s orient 0).
  Let T := map snd (cols_of s orient 1).           (* the 1-simplices: (sorted pair, orientation) *)
  Let B := boundary_matrix s orient 0.
  Let B1 := boundary_matrix s orient 1.
  Let L := hodge_laplacian s orient 0.

  Lemma n_nodes : n = length nodes.
  Proof. unfold n, nodes. cbn [cols_of]. unfold node_simplices. rewrite map_length. reflexivity. Qed.

  Lemma nodes_nodup : NoDup nodes.
  Proof. pose proof I as (_ & (_ & _ & Kn & _) & _). exact Kn. Qed.

  Lemma B_empty : B = [].
  Proof.
    unfold B, boundary_matrix, bmatrix. cbn [rows_of]. unfold simplices_of_size.
    assert (E : filter (fun kv : lbl * list lbl => Nat.eqb (length (snd kv)) 0) (h_edge s) = []).
    { apply filter_nil. intros [e m] Hin. cbn [snd].
      pose proof SI as (_ & _ & _ & Ne). pose proof I as (_ & (_ & _ & _ & Ke) & _).
      specialize (Ne e m (In_get _ _ _ Ke Hin)). destruct m; [congruence|reflexivity]. }
    rewrite E. reflexivity.
  Qed.

  (* the 1-simplices are sorted pairs of two different nodes *)
  Lemma one_simplex sigma : In sigma T -> exists a b, fst sigma = [a; b] /\ a <> b /\ In a nodes /\ In b nodes /\ In b (nbrs s a).
  Proof.
    intro H. unfold T in H. cbn [cols_of] in H. unfold simplices_of_size in H. rewrite map_map in H.
    apply in_map_iff in H. destruct H as ([e m] & <- & Hin). apply filter_In in Hin. destruct Hin as [Hin Hsz].
    cbn [fst snd] in *. apply Nat.eqb_eq in Hsz.
    destruct (edge_facts s SI Ord e m Hin) as (G & ND & Ho & KS).
    pose proof (sort_simplex_length m) as Ls. rewrite Hsz in Ls.
    destruct (sort_simplex m) as [|a [|b [|c r]]] eqn:E; try discriminate Ls.
    assert (Ha : In a m) by (apply (proj1 (In_sort_simplex a m)); rewrite E; left; reflexivity).
    assert (Hb : In b m) by (apply (proj1 (In_sort_simplex b m)); rewrite E; right; left; reflexivity).
    assert (Nab : a <> b).
    { apply KSorted_NoDup in KS. inversion KS as [|? ? Hn _]; subst. intro Eq. apply Hn. left. symmetry. exact Eq. }
    assert (Hmems : mems s e = m) by (unfold mems, getl; unfold Sx in G; rewrite G; reflexivity).
    exists a, b. split; [reflexivity|]. split; [exact Nab|].
    split; [apply (members_are_nodes s e a I); rewrite Hmems; exact Ha|].
    split; [apply (members_are_nodes s e b I); rewrite Hmems; exact Hb|].
    apply nbrs_spec. split; [congruence|]. exists e. split; [|rewrite Hmems; exact Hb].
    pose proof I as (HW & _). apply HW. rewrite Hmems. exact Ha.
  Qed.

  Definition gap (y : lbl -> Z) (sigma : list lbl * Z) : Z :=
    match fst sigma with [a; b] => y b - y a | _ => 0 end.

  Definition vec (y : lbl -> Z) (i : nat) : Z := y (nth i nodes LNone).

  (* B_1^T applied to y, column by column *)
  Lemma column_value (y : lbl -> Z) c : (c < length T)%nat ->
    sumZ (fun i => nth c (nth i B1 []) 0 * vec y i) (seq 0 n) = sgn (snd (nth c T ([], 0))) * gap y (nth c T ([], 0)).
  Proof.
    intro Hc. set (sigma := nth c T ([], 0)).
    assert (Hs : In sigma T) by (apply nth_In; exact Hc).
    destruct (one_simplex sigma Hs) as (a & b & Ef & Nab & Ha & Hb & _).
    rewrite n_nodes.
    rewrite (sumZ_ext _ (fun i => (fun nd => bentry [nd] [a; b] 0 (snd sigma) * y nd) (nth i nodes LNone))).
    - rewrite (sumZ_nth (fun nd => bentry [nd] [a; b] 0 (snd sigma) * y nd) nodes LNone).
      rewrite (column_dot y nodes a b (snd sigma) nodes_nodup Ha Hb). unfold gap. rewrite Ef. reflexivity.
    - intros i Hi. apply in_seq in Hi. unfold vec. f_equal.
      unfold B1, boundary_matrix, bmatrix. cbn [rows_of]. unfold node_simplices. rewrite !map_map. cbn [snd].
      rewrite (nth_map_lt _ _ _ LNone) by (fold nodes; lia). cbn [fst snd]. fold T.
      rewrite (nth_map_lt _ _ _ ([], 0)) by exact Hc. fold sigma. rewrite Ef. reflexivity.
  Qed.

  Lemma shapes : length B1 = n /\ forall r, In r B1 -> length r = length T.
  Proof.
    unfold B1, boundary_matrix. destruct (bmatrix_shape (map snd (rows_of s orient 1)) (map snd (cols_of s orient 1))) as [S1 S2].
    split; [rewrite S1, map_length; reflexivity|]. intros r Hr. rewrite (S2 r Hr). reflexivity.
  Qed.

  (* x^T L_0 x = sum over the 1-simplices {a, b} of (y_b - y_a)^2 *)
  Theorem L0_quadratic (y : lbl -> Z) :
    sumZ (fun i => sumZ (fun j => vec y i * entry L i j * vec y j) (seq 0 n)) (seq 0 n) =
    sumZ (fun sigma => gap y sigma * gap y sigma) T.
  Proof.
    destruct shapes as [S1 S2]. unfold L, hodge_laplacian. fold n. fold B. fold B1.
    change (length (cols_of s orient 1)) with (length (cols_of s orient 1)).
    assert (En1 : length (cols_of s orient 1) = length T) by (unfold T; rewrite map_length; reflexivity).
    rewrite En1.
    rewrite (L_quadratic_form n (length T) B B1 S1 S2 (vec y)). rewrite B_empty.
    change (sumZ _ []) with 0. rewrite Z.add_0_l.
    rewrite (sumZ_ext _ (fun c => (fun sg => gap y sg * gap y sg) (nth c T ([], 0)))).
    - apply (sumZ_nth (fun sg => gap y sg * gap y sg) T ([], 0)).
    - intros c Hc. apply in_seq in Hc. rewrite (column_value y c) by lia.
      set (g := gap y (nth c T ([], 0))). set (o := snd (nth c T ([], 0))).
      transitivity ((sgn o * sgn o) * (g * g)); [ring|]. rewrite sgn_sq. ring.
  Qed.

  Definition Lvec (y : lbl -> Z) (i : nat) : Z := sumZ (fun j => entry L i j * vec y j) (seq 0 n).

  (* the kernel: L_0 y = 0 exactly when y takes the same value at the two ends of every 1-simplex *)
  Theorem L0_kernel_edges (y : lbl -> Z) :
    (forall i, (i < n)%nat -> Lvec y i = 0) <-> (forall sigma, In sigma T -> gap y sigma = 0).
  Proof.
    destruct shapes as [S1 S2].
    assert (En1 : length (cols_of s orient 1) = length T) by (unfold T; rewrite map_length; reflexivity).
    split.
    - intros H sigma Hs.
      assert (Q : sumZ (fun sg => gap y sg * gap y sg) T = 0).
      { rewrite <- L0_quadratic. rewrite (sumZ_ext _ (fun _ => 0)); [apply sumZ_zero|].
        intros i Hi. apply in_seq in Hi.
        rewrite (sumZ_ext _ (fun j => vec y i * (entry L i j * vec y j))) by (intros; ring).
        rewrite sumZ_scale. fold (Lvec y i). rewrite H by lia. ring. }
      pose proof (sumZ_zero_terms (fun sg => gap y sg * gap y sg) T (fun t => Z.square_nonneg _) Q sigma Hs) as K.
      cbv beta in K. nia.
    - intros H i Hi. unfold Lvec.
      rewrite (sumZ_ext _ (fun j => sumZ (fun c => nth c (nth i B1 []) 0 * (nth c (nth j B1 []) 0 * vec y j)) (seq 0 (length T)))).
      2:{ intros j Hj. apply in_seq in Hj. unfold L, hodge_laplacian. fold n. fold B. fold B1. rewrite En1.
          rewrite (L_entry n (length T) B B1 S1 S2 i j Hi ltac:(lia)). rewrite B_empty. change (sumZ _ []) with 0.
          rewrite Z.add_0_l, sumZ_mul_r. apply sumZ_ext. intros; ring. }
      rewrite sumZ_swap.
      rewrite (sumZ_ext _ (fun _ => 0)); [apply sumZ_zero|].
      intros c Hc. apply in_seq in Hc. rewrite sumZ_scale.
      rewrite (column_value y c) by lia. rewrite (H (nth c T ([], 0))) by (apply nth_In; lia). ring.
  Qed.

  (* ... i.e. when y is constant on connected components *)
  Theorem L0_kernel_components (y : lbl -> Z) :
    (forall i, (i < n)%nat -> Lvec y i = 0) <-> (forall a b, In a nodes -> Reach s a b -> y a = y b).
  Proof.
    rewrite L0_kernel_edges. split.
    - intros H a b Ha Hr. induction Hr as [|b c Hab IH Hc]; [reflexivity|]. rewrite IH. clear IH.
      (* b and c share an edge: by closure {b, c} is a 1-simplex *)
      pose proof I as (HW & (_ & _ & _ & Ke) & (_ & V) & _).
      assert (Hbn : In b nodes) by (apply (Reach_node s a b HW Ha Hab)).
      apply nbrs_spec in Hc. destruct Hc as (Ncb & e & He & Hce).
      apply HW in He.
      set (m := mems s e) in *.
      assert (G : Sx s e m).
      { unfold Sx, m, mems, getl in *. destruct (get e (h_edge s)) as [m0|] eqn:Eg; [reflexivity|destruct He]. }
      assert (Fc : Face [b; c] m).
      { split; [constructor; [intros [E|[]]; congruence|constructor; [intros []|constructor]]|].
        split; [intros x [<-|[<-|[]]]; assumption|simpl; lia]. }
      pose proof SI as (_ & Cl & _ & _). destruct (Cl e m [b; c] G Fc) as (e' & m' & G' & Hs).
      assert (Hin' : In (e', m') (h_edge s)) by (apply get_In; exact G').
      destruct (edge_facts s SI Ord e' m' Hin') as (_ & ND' & Ho' & KS').
      assert (Lm' : length m' = 2%nat).
      { rewrite <- (same_len [b; c] m'); [reflexivity| |exact ND'|exact Hs].
        constructor; [intros [E|[]]; congruence|constructor; [intros []|constructor]]. }
      assert (Hsig : In (sort_simplex m', orient_of orient e') T).
      { unfold T. cbn [cols_of]. unfold simplices_of_size. rewrite map_map. apply in_map_iff. exists (e', m').
        split; [reflexivity|]. apply filter_In. split; [exact Hin'|]. cbn [snd]. apply Nat.eqb_eq. exact Lm'. }
      specialize (H _ Hsig). unfold gap in H. cbn [fst] in H.
      pose proof (sort_simplex_length m') as Ls. rewrite Lm' in Ls.
      destruct (sort_simplex m') as [|p [|q [|w r]]] eqn:E; try discriminate Ls.
      assert (Hp : In p [b; c]) by (apply Hs; apply (proj1 (In_sort_simplex p m')); rewrite E; left; reflexivity).
      assert (Hq : In q [b; c]) by (apply Hs; apply (proj1 (In_sort_simplex q m')); rewrite E; right; left; reflexivity).
      assert (Npq : p <> q).
      { apply KSorted_NoDup in KS'. inversion KS' as [|? ? Hn _]; subst. intro Eq. apply Hn. left. symmetry. exact Eq. }
      destruct Hp as [<-|[<-|[]]]; destruct Hq as [<-|[<-|[]]]; try congruence; lia.
    - intros H sigma Hs. destruct (one_simplex sigma Hs) as (a & b & Ef & _ & Ha & _ & Hnb).
      unfold gap. rewrite Ef. rewrite (H a b Ha); [lia|]. eapply Reach_step; [constructor|exact Hnb].
  Qed.
End Kernel.
