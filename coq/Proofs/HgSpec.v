(* C05: declarative (documentation-level) effect of the main Hypergraph edits, proved of the model. *)
From Coq Require Import String ZArith List Bool Lia.
From XV Require Import Base.Label Base.LSet Base.ODict Base.Attr Base.Outcome Model.Hypergraph
  Proofs.HgViews Proofs.HgInv Proofs.HgInvOps Proofs.HgStep Proofs.HgKeys Proofs.ScTables.
Import ListNotations.
Open Scope Z_scope.

(* ---------- attribute precedence ---------- *)

Lemma aget_aset k k' v d : aget k (aset k' v d) = if String.eqb k k' then Some v else aget k d.
Proof.
  induction d as [|[k2 v2] r IH]; simpl.
  - destruct (String.eqb k k'); reflexivity.
  - destruct (String.eqb k' k2) eqn:E; simpl.
    + apply String.eqb_eq in E. subst. destruct (String.eqb k k2); reflexivity.
    + rewrite IH. destruct (String.eqb k k2) eqn:E2; [|reflexivity].
      apply String.eqb_eq in E2. subst. rewrite String.eqb_sym, E. reflexivity.
Qed.

Lemma aget_None_notin k u : ~ In k (map fst u) -> aget k u = None.
Proof.
  induction u as [|[k2 v2] u IH]; simpl; [reflexivity|]. intro H.
  destruct (String.eqb k k2) eqn:E; [apply String.eqb_eq in E; subst; exfalso; apply H; left; reflexivity|].
  apply IH. intro; apply H; right; assumption.
Qed.

(* d.update(u) for a dict u (distinct keys): the keys of u win, the other keys of d are kept.
   This is the precedence rule of the bulk formats: newdict = attr.copy(); newdict.update(item) *)
Lemma aget_aupdate k u : NoDup (map fst u) -> forall d,
  aget k (aupdate d u) = match aget k u with Some v => Some v | None => aget k d end.
Proof.
  unfold aupdate. induction u as [|[k' v'] u IH]; intros ND d; simpl; [reflexivity|].
  inversion ND as [|? ? Hn ND']; subst. rewrite (IH ND'), aget_aset.
  destruct (String.eqb k k') eqn:E.
  - apply String.eqb_eq in E. subst. rewrite (aget_None_notin k' u Hn). reflexivity.
  - reflexivity.
Qed.

(* ---------- strong node removal ---------- *)

Theorem remove_node_strong_spec n re s :
  Inv s -> In n (nkeys s) ->
  let s' := st_of (remove_node n true re s) in
  (forall x, In x (nkeys s') <-> x <> n /\ In x (nkeys s)) /\
  (forall e m, get e (h_edge s') = Some m <-> get e (h_edge s) = Some m /\ ~ In n m) /\
  Inv s'.
Proof.
  intros I Hn. cbv zeta. pose proof I as (W & _).
  destruct (get n (h_node s)) as [es|] eqn:G; [|apply get_None in G; contradiction].
  assert (Hes : mships s n = es) by (unfold mships, getl; rewrite G; reflexivity).
  split; [|split; [|apply Inv_remove_node; exact I]].
  - (* node keys: the J-fold keeps them; go through the invariant-free key lemma *)
    intro x. unfold remove_node. rewrite G, st_of_ok.
    assert (F : forall es0 s0, nkeys (fold_left (fun s e =>
                 let nbrs := getl e (h_edge s) in
                 let s' := drop_edge e s in
                 fold_left (fun s m => node_rem m e s) (sremove n nbrs) s') es0 s0) = nkeys s0).
    { induction es0 as [|e es0 IH]; intro s0; simpl; [reflexivity|]. rewrite IH.
      destruct (unlink_views e (sremove n (getl e (h_edge s0))) (drop_edge e s0)) as (_ & _ & _ & _ & _ & F & _).
      exact F. }
    rewrite F. destruct (drop_node_keys n s) as (D & _). apply D.
  - intros e m. rewrite (strong_remove_get n re s es e G).
    destruct (mem e es) eqn:M.
    + apply mem_In in M. split; [discriminate|]. intros [H Hn']. exfalso. apply Hn'.
      rewrite <- Hes in M. apply W in M. unfold mems, getl in M. rewrite H in M. exact M.
    + apply mem_nIn in M. split; [|tauto]. intro H. split; [exact H|]. intro Hi. apply M.
      rewrite <- Hes. apply W. unfold mems, getl. rewrite H. exact Hi.
Qed.

(* ---------- removing an edge ---------- *)

Theorem remove_edge_spec e s :
  Inv s -> In e (ekeys s) ->
  let s' := st_of (remove_edge1 e s) in
  nkeys s' = nkeys s /\
  (forall e' , get e' (h_edge s') = if lbl_eqb e' e then None else get e' (h_edge s)) /\
  (forall x y, In y (mships s' x) <-> y <> e /\ In y (mships s x)) /\
  h_nattr s' = h_nattr s /\ (forall e', e' <> e -> get e' (h_eattr s') = get e' (h_eattr s)) /\
  h_uid s' = h_uid s /\ h_net s' = h_net s.
Proof.
  intros I He. cbv zeta. destruct (remove_edge1_keys e s) as (K1 & _ & K3). cbv zeta in *.
  split; [exact K1|]. split; [intro e'; apply remove_edge1_get|].
  split; [intros x y; apply (remove_edge1_mships_core e s I x y)|].
  unfold remove_edge1. destruct (get e (h_edge s)) as [ms|] eqn:G; [|apply get_None in G; contradiction].
  rewrite st_of_ok. destruct (unlink_views e ms s) as (_ & _ & C & D & E & _ & N).
  unfold drop_edge. simpl. rewrite C, D, E, N. repeat split; auto.
  intros e' Ne. apply get_del_other. exact Ne.
Qed.

(* ---------- double edge swap keeps every degree, every size, all ids and attributes ---------- *)

Theorem double_edge_swap_preserves n1 n2 e1 e2 s :
  let s' := st_of (double_edge_swap n1 n2 e1 e2 s) in
  Inv s ->
  nkeys s' = nkeys s /\ ekeys s' = ekeys s /\ h_nattr s' = h_nattr s /\ h_eattr s' = h_eattr s /\
  h_net s' = h_net s /\ h_uid s' = h_uid s /\
  (forall n, length (mships s' n) = length (mships s n)) /\
  (forall e, length (mems s' e) = length (mems s e)).
Proof.
  cbv zeta. intro I. unfold double_edge_swap.
  destruct (get n1 (h_node s)) as [ms1|] eqn:G1; [|repeat split; reflexivity].
  destruct (get n2 (h_node s)) as [ms2|] eqn:G2; [|repeat split; reflexivity].
  destruct (get e1 (h_edge s)) as [m1|] eqn:G3; [|repeat split; reflexivity].
  destruct (get e2 (h_edge s)) as [m2|] eqn:G4; [|repeat split; reflexivity].
  destruct (mem n1 m1); [|repeat split; reflexivity]. destruct (mem n2 m2); [|repeat split; reflexivity].
  destruct (mem e1 ms1); [|repeat split; reflexivity]. destruct (mem e2 ms2); [|repeat split; reflexivity].
  simpl negb. cbv iota.
  match goal with |- context [if ?c then raise s XGIError else _] => destruct c eqn:C end;
    [repeat split; reflexivity|].
  rewrite st_of_ok.
  apply orb_false_iff in C. destruct C as [C L4]. apply orb_false_iff in C. destruct C as [C L3].
  apply orb_false_iff in C. destruct C as [L1 L2].
  apply negb_false_iff, Nat.eqb_eq in L1, L2, L3, L4.
  assert (Kn1 : In n1 (keys (h_node s))) by (eapply get_Some_In; eauto).
  assert (Kn2 : In n2 (keys (h_node s))) by (eapply get_Some_In; eauto).
  assert (Ke1 : In e1 (keys (h_edge s))) by (eapply get_Some_In; eauto).
  assert (Ke2 : In e2 (keys (h_edge s))) by (eapply get_Some_In; eauto).
  pose proof (getl_of_get _ _ _ G1) as E1. pose proof (getl_of_get _ _ _ G2) as E2.
  pose proof (getl_of_get _ _ _ G3) as E3. pose proof (getl_of_get _ _ _ G4) as E4.
  split. { unfold nkeys. simpl. rewrite keys_set_in; [apply keys_set_in; exact Kn1|rewrite keys_set_in by exact Kn1; exact Kn2]. }
  split. { unfold ekeys. simpl. rewrite keys_set_in; [apply keys_set_in; exact Ke1|rewrite keys_set_in by exact Ke1; exact Ke2]. }
  split; [reflexivity|]. split; [reflexivity|]. split; [reflexivity|]. split; [reflexivity|].
  split.
  - intro n. unfold mships. simpl. rewrite !getl_set.
    destruct (lbl_eqb_spec n n2) as [->|N2]; [rewrite E2; exact L2|].
    destruct (lbl_eqb_spec n n1) as [->|N1]; [rewrite E1; exact L1|reflexivity].
  - intro e. unfold mems. simpl. rewrite !getl_set.
    destruct (lbl_eqb_spec e e2) as [->|N2]; [rewrite E4; exact L4|].
    destruct (lbl_eqb_spec e e1) as [->|N1]; [rewrite E3; exact L3|reflexivity].
Qed.

(* ---------- weak node removal ---------- *)

Lemma edge_rem_get e n s e' :
  get e' (h_edge (edge_rem e n s)) =
  if lbl_eqb e' e then match get e (h_edge s) with Some m => Some (sremove n m) | None => None end
  else get e' (h_edge s).
Proof.
  unfold edge_rem, has, getl. destruct (get e (h_edge s)) as [m|] eqn:G; simpl.
  - rewrite get_set. destruct (lbl_eqb e' e); reflexivity.
  - destruct (lbl_eqb_spec e' e) as [->|N]; [exact G|reflexivity].
Qed.

Lemma drop_edge_get e s e' :
  get e' (h_edge (drop_edge e s)) = if lbl_eqb e' e then None else get e' (h_edge s).
Proof. unfold drop_edge. simpl. apply get_del. Qed.

Definition weak_result (n : lbl) (re : bool) (o : option (list lbl)) : option (list lbl) :=
  match o with
  | Some m => match sremove n m with
              | [] => if re then None else Some []
              | m' => Some m'
              end
  | None => None
  end.

Lemma weak_step_get n re e s e' :
  get e' (h_edge (let s' := edge_rem e n s in
                  if (match getl e (h_edge s') with [] => true | _ => false end) && re && has e (h_edge s')
                  then drop_edge e s' else s')) =
  if lbl_eqb e' e then weak_result n re (get e (h_edge s)) else get e' (h_edge s).
Proof.
  cbv zeta. unfold weak_result.
  pose proof (edge_rem_get e n s e) as Ge. rewrite lbl_eqb_refl in Ge.
  unfold getl, has. rewrite Ge.
  destruct (get e (h_edge s)) as [m|] eqn:G.
  - destruct (sremove n m) as [|y m'] eqn:R; simpl.
    + destruct re; simpl.
      * rewrite get_del, edge_rem_get, G, R.
        destruct (lbl_eqb e' e); reflexivity.
      * rewrite edge_rem_get, G, R. destruct (lbl_eqb e' e); reflexivity.
    + rewrite edge_rem_get, G, R. destruct (lbl_eqb e' e); reflexivity.
  - cbv iota beta. rewrite andb_false_r. rewrite edge_rem_get, G.
    destruct (lbl_eqb_spec e' e) as [->|N]; reflexivity.
Qed.

Lemma weak_fold_get n re es : NoDup es -> forall s e',
  get e' (h_edge (fold_left (fun s e =>
                    let s' := edge_rem e n s in
                    if (match getl e (h_edge s') with [] => true | _ => false end) && re && has e (h_edge s')
                    then drop_edge e s' else s') es s)) =
  if mem e' es then weak_result n re (get e' (h_edge s)) else get e' (h_edge s).
Proof.
  induction 1 as [|e es He ND IH]; intros s e'; simpl fold_left; [reflexivity|].
  rewrite IH. rewrite !weak_step_get. simpl mem.
  destruct (lbl_eqb_spec e' e) as [->|N]; simpl.
  - destruct (mem e es) eqn:M; [apply mem_In in M; contradiction|reflexivity].
  - reflexivity.
Qed.

Theorem remove_node_weak_spec n re s :
  Inv s -> In n (nkeys s) ->
  let s' := st_of (remove_node n false re s) in
  (forall e, get e (h_edge s') =
             match get e (h_edge s) with
             | Some m => if mem n m then weak_result n re (Some m) else Some m
             | None => None
             end) /\
  Inv s'.
Proof.
  intros I Hn. cbv zeta. pose proof I as (W & _ & (V1 & _) & _).
  destruct (get n (h_node s)) as [es|] eqn:G; [|apply get_None in G; contradiction].
  assert (Hes : mships s n = es) by (unfold mships, getl; rewrite G; reflexivity).
  split; [|apply Inv_remove_node; exact I].
  intro e. unfold remove_node. rewrite G, st_of_ok.
  rewrite weak_fold_get by (rewrite <- Hes; apply V1).
  change (h_edge (drop_node n s)) with (h_edge s).
  destruct (get e (h_edge s)) as [m|] eqn:Ge.
  - assert (Q : mem e es = mem n m).
    { destruct (mem n m) eqn:M.
      - apply mem_In. rewrite <- Hes. apply W. unfold mems, getl. rewrite Ge. apply mem_In. exact M.
      - apply mem_nIn. intro Hi. rewrite <- Hes in Hi. apply W in Hi. unfold mems, getl in Hi. rewrite Ge in Hi.
        apply mem_In in Hi. congruence. }
    rewrite Q. reflexivity.
  - destruct (mem e es); reflexivity.
Qed.

(* ---------- adding one edge ---------- *)

Theorem add_edge_effect ms idx a s :
  Inv s -> existsb is_none (mkset ms) = false ->
  (forall i, idx = Some i -> has i (h_edge s) = false) ->
  let s' := st_of (add_edge ms idx a s) in
  let e := match idx with Some i => i | None => LInt (h_uid s) end in
  ekeys s' = ekeys s ++ [e] /\
  (exists M, get e (h_edge s') = Some M /\ seteq M ms) /\
  get e (h_eattr s') = Some (aupdate [] a) /\
  (forall x, In x (nkeys s') <-> In x ms \/ In x (nkeys s)) /\
  Frame s s'.
Proof.
  intros I Hnone Hfresh. cbv zeta. pose proof I as (Hw & Hk & Hv & Hu).
  pose proof (add_edge_frame ms idx a s I) as Fr.
  unfold add_edge in *. rewrite Hnone in *.
  destruct idx as [i|].
  - rewrite (Hfresh i eq_refl) in *. rewrite st_of_ok in *.
    assert (Hne : ~ In i (ekeys s)) by (apply has_false_nin; apply Hfresh; reflexivity).
    destruct (insert_edge_spec i (mkset ms) a s Hne Hw Hk Hv) as (_ & _ & _ & Ek & _).
    destruct (insert_edge_get i (mkset ms) a s) as (M & HM & _ & GM).
    destruct (bump_uid_tables i (insert_edge i (mkset ms) a s)) as (Tn & _ & Te & Ta & _).
    split; [unfold ekeys; rewrite Te; exact Ek|].
    split. { exists M. split; [rewrite Te, GM, lbl_eqb_refl; reflexivity|]. intro x. rewrite HM. apply In_mkset. }
    split. { rewrite Ta. unfold insert_edge. simpl. apply get_set_same. }
    split; [|exact Fr].
    intro x. unfold nkeys. rewrite Tn. fold (nkeys (insert_edge i (mkset ms) a s)).
    rewrite insert_edge_nkeys, In_mkset. reflexivity.
  - rewrite st_of_ok in *. set (s0 := with_uid s (h_uid s + 1)) in *. set (e := LInt (h_uid s)) in *.
    assert (Hne : ~ In e (ekeys s0)) by (apply auto_id_fresh_aux; exact I).
    destruct (insert_edge_spec e (mkset ms) a s0 Hne Hw Hk Hv) as (_ & _ & _ & Ek & _).
    destruct (insert_edge_get e (mkset ms) a s0) as (M & HM & _ & GM).
    split; [exact Ek|].
    split. { exists M. split; [rewrite GM, lbl_eqb_refl; reflexivity|]. intro x. rewrite HM. apply In_mkset. }
    split. { unfold insert_edge. simpl. apply get_set_same. }
    split; [|exact Fr].
    intro x. rewrite insert_edge_nkeys, In_mkset. reflexivity.
Qed.
