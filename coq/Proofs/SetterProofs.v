(* C05: the named and scalar forms of set_node_attributes / set_edge_attributes. *)
From Coq Require Import String ZArith List Bool Lia.
From XV Require Import Base.Label Base.LSet Base.ODict Base.Attr Base.Outcome Model.Hypergraph
     Proofs.HgViews Proofs.HgInv Proofs.HgInvOps Proofs.HgKeys Proofs.Build Proofs.ConvertProofs Proofs.RelabelProofs.
Import ListNotations.
Open Scope Z_scope.

(* the named form is the dict-of-dicts form with one-entry dicts *)
Lemma set_node_attrs_named_as_dict vals name s :
  set_node_attrs_named vals name s = set_node_attrs_dict (map (fun nv => (fst nv, [(name, snd nv)])) vals) s.
Proof.
  unfold set_node_attrs_named, set_node_attrs_dict. rewrite loop_map. apply loop_ext. intros s' [n v]. reflexivity.
Qed.
Lemma set_edge_attrs_named_as_dict vals name s :
  set_edge_attrs_named vals name s = set_edge_attrs_dict (map (fun nv => (fst nv, [(name, snd nv)])) vals) s.
Proof.
  unfold set_edge_attrs_named, set_edge_attrs_dict. rewrite loop_map. apply loop_ext. intros s' [n v]. reflexivity.
Qed.

Lemma get_map_snd {V W} (f : V -> W) n (l : list (lbl * V)) :
  get n (map (fun nv => (fst nv, f (snd nv))) l) = match get n l with Some v => Some (f v) | None => None end.
Proof. induction l as [|[k v] l IH]; [reflexivity|]. cbn [map get fst snd]. destruct (lbl_eqb n k); [reflexivity|exact IH]. Qed.

Theorem set_node_attrs_named_effect vals name s : NoDup (map fst vals) ->
  (forall nv, In nv vals -> In (fst nv) (keys (h_nattr s))) ->
  let t := st_of (set_node_attrs_named vals name s) in
  (forall n, get n (h_nattr t) = match get n vals with Some v => Some (aset name v (geta n (h_nattr s))) | None => get n (h_nattr s) end) /\
  h_node t = h_node s /\ h_edge t = h_edge s /\ h_eattr t = h_eattr s /\ h_uid t = h_uid s.
Proof.
  intros ND Hk. cbv zeta. rewrite set_node_attrs_named_as_dict.
  set (vals' := map (fun nv : lbl * aval => (fst nv, [(name, snd nv)])) vals).
  destruct (set_node_attrs_dict_get vals' s) as [G E].
  { unfold vals'. rewrite map_map. cbn [fst]. exact ND. }
  { intros nd Hnd. unfold vals' in Hnd. apply in_map_iff in Hnd. destruct Hnd as (nv & <- & Hnv). cbn [fst]. apply has_In. apply Hk. exact Hnv. }
  destruct (set_node_attrs_dict_same vals' s) as (A & B & C).
  split; [|split; [exact A|split; [exact B|split; [exact E|exact C]]]].
  intro n. rewrite G. assert (Gm : @get attrs n vals' = match get n vals with Some v => Some [(name, v)] | None => None end) by (exact (get_map_snd (W:=attrs) (fun v => [(name, v)]) n vals)). rewrite Gm. destruct (get n vals); reflexivity.
Qed.

Theorem set_edge_attrs_named_effect vals name s : NoDup (map fst vals) ->
  (forall nv, In nv vals -> In (fst nv) (keys (h_eattr s))) ->
  let t := st_of (set_edge_attrs_named vals name s) in
  (forall e, get e (h_eattr t) = match get e vals with Some v => Some (aset name v (geta e (h_eattr s))) | None => get e (h_eattr s) end) /\
  h_node t = h_node s /\ h_edge t = h_edge s /\ h_nattr t = h_nattr s /\ h_uid t = h_uid s.
Proof.
  intros ND Hk. cbv zeta. rewrite set_edge_attrs_named_as_dict.
  set (vals' := map (fun nv : lbl * aval => (fst nv, [(name, snd nv)])) vals).
  destruct (set_edge_attrs_dict_get vals' s) as [G E].
  { unfold vals'. rewrite map_map. cbn [fst]. exact ND. }
  { intros nd Hnd. unfold vals' in Hnd. apply in_map_iff in Hnd. destruct Hnd as (nv & <- & Hnv). cbn [fst]. apply has_In. apply Hk. exact Hnv. }
  destruct (set_edge_attrs_dict_same vals' s) as (A & B & C).
  split; [|split; [exact A|split; [exact B|split; [exact E|exact C]]]].
  intro n. rewrite G. assert (Gm : @get attrs n vals' = match get n vals with Some v => Some [(name, v)] | None => None end) by (exact (get_map_snd (W:=attrs) (fun v => [(name, v)]) n vals)). rewrite Gm. destruct (get n vals); reflexivity.
Qed.

(* the scalar form sets the attribute on every node / edge *)
Lemma fold_nattr_update name v : forall l s, NoDup l ->
  let t := fold_left (fun s n => nattr_update n [(name, v)] s) l s in
  (forall n, get n (h_nattr t) = if mem n l then Some (aset name v (geta n (h_nattr s))) else get n (h_nattr s)) /\
  h_node t = h_node s /\ h_edge t = h_edge s /\ h_eattr t = h_eattr s /\ h_uid t = h_uid s /\ h_net t = h_net s.
Proof.
  induction l as [|a l IH]; intros s ND; cbv zeta; cbn [fold_left].
  - split; [intro n; reflexivity|repeat split].
  - inversion ND as [|? ? Ha ND']; subst. destruct (IH (nattr_update a [(name, v)] s) ND') as (G & A & B & C & D & E). cbv zeta in *.
    split; [|rewrite A, B, C, D, E; repeat split].
    intro n. rewrite G. cbn [mem]. unfold nattr_update. cbn [h_nattr with_nattr]. rewrite get_set. unfold geta at 1. rewrite get_set.
    destruct (lbl_eqb_spec n a) as [->|N]; cbn [orb].
    + assert (M : mem a l = false) by (apply mem_nIn; exact Ha). rewrite M. reflexivity.
    + destruct (mem n l); reflexivity.
Qed.

Theorem set_node_attrs_scalar_effect v name s : Inv s ->
  let t := st_of (set_node_attrs_scalar v name s) in
  (forall n, In n (nkeys s) -> get n (h_nattr t) = Some (aset name v (geta n (h_nattr s)))) /\
  h_node t = h_node s /\ h_edge t = h_edge s /\ h_eattr t = h_eattr s /\ h_uid t = h_uid s.
Proof.
  intros (_ & (_ & _ & Kn & _) & _). cbv zeta. unfold set_node_attrs_scalar. rewrite st_of_ok.
  destruct (fold_nattr_update name v (keys (h_node s)) s Kn) as (G & A & B & C & D & _). cbv zeta in *.
  split; [|split; [exact A|split; [exact B|split; [exact C|exact D]]]].
  intros n Hn. rewrite G. apply mem_In in Hn. unfold nkeys in Hn. rewrite Hn. reflexivity.
Qed.

Lemma fold_eattr_update name v : forall l s, NoDup l ->
  let t := fold_left (fun s e => eattr_update e [(name, v)] s) l s in
  (forall e, get e (h_eattr t) = if mem e l then Some (aset name v (geta e (h_eattr s))) else get e (h_eattr s)) /\
  h_node t = h_node s /\ h_edge t = h_edge s /\ h_nattr t = h_nattr s /\ h_uid t = h_uid s /\ h_net t = h_net s.
Proof.
  induction l as [|a l IH]; intros s ND; cbv zeta; cbn [fold_left].
  - split; [intro n; reflexivity|repeat split].
  - inversion ND as [|? ? Ha ND']; subst. destruct (IH (eattr_update a [(name, v)] s) ND') as (G & A & B & C & D & E). cbv zeta in *.
    split; [|rewrite A, B, C, D, E; repeat split].
    intro n. rewrite G. cbn [mem]. unfold eattr_update. cbn [h_eattr with_eattr]. rewrite get_set. unfold geta at 1. rewrite get_set.
    destruct (lbl_eqb_spec n a) as [->|N]; cbn [orb].
    + assert (M : mem a l = false) by (apply mem_nIn; exact Ha). rewrite M. reflexivity.
    + destruct (mem n l); reflexivity.
Qed.

Theorem set_edge_attrs_scalar_effect v name s : Inv s ->
  let t := st_of (set_edge_attrs_scalar v name s) in
  (forall e, In e (ekeys s) -> get e (h_eattr t) = Some (aset name v (geta e (h_eattr s)))) /\
  h_node t = h_node s /\ h_edge t = h_edge s /\ h_nattr t = h_nattr s /\ h_uid t = h_uid s.
Proof.
  intros (_ & (_ & _ & _ & Ke) & _). cbv zeta. unfold set_edge_attrs_scalar. rewrite st_of_ok.
  destruct (fold_eattr_update name v (keys (h_edge s)) s Ke) as (G & A & B & C & D & _). cbv zeta in *.
  split; [|split; [exact A|split; [exact B|split; [exact C|exact D]]]].
  intros n Hn. rewrite G. apply mem_In in Hn. unfold ekeys in Hn. rewrite Hn. reflexivity.
Qed.
