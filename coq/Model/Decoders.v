(* The three index-to-edge decoders of xgi/generators/uniform.py and the skip-sampling loop (C16). *)
From Coq Require Import List Arith Lia ZArith Bool.
From XV Require Import Base.Label Base.LSet.
Import ListNotations.

(* scipy.special.comb(n, k, exact=True) *)
Fixpoint binom (n k : nat) : nat :=
  match k with
  | O => 1
  | S k' => match n with
            | O => 0
            | S n' => binom n' k' + binom n' k
            end
  end.

(* while r - comb(n-1-cs, k1) > 0: r -= comb(...); cs += 1      (fuel: at most n iterations) *)
Fixpoint inner (fuel n k1 r cs : nat) : nat * nat :=
  match fuel with
  | O => (r, cs)
  | S f => let b := binom (n - 1 - cs) k1 in
           if b <? r then inner f n k1 (r - b) (cs + 1) else (r, cs)
  end.

(* for s in range(1, m+1): cs = j+1; <inner>; c.append(cs); j = cs      (k = picks left) *)
Fixpoint outer (k n r start : nat) : list nat :=
  match k with
  | O => []
  | S k' => let '(r', cs) := inner n n k' r start in cs :: outer k' n r' (cs + 1)
  end.

(* _index_to_edge_comb(index, n, m) *)
Definition unrank_comb (index n m : nat) : list nat := outer m n (index + 1) 0.

(* _index_to_edge_prod(index, n, m) = [index // n**r % n for r in range(m-1, -1, -1)] *)
Definition unrank_prod (index n m : nat) : list nat :=
  map (fun r => (index / n ^ r) mod n) (rev (seq 0 m)).

(* _index_to_edge_partition(index, sizes, m) = [index // prod(sizes[r+1:]) % sizes[r] for r in range(m)] *)
Definition prod_list (l : list nat) : nat := fold_right Nat.mul 1 l.
Definition unrank_partition (index : nat) (sizes : list nat) : list nat :=
  map (fun r => (index / prod_list (skipn (r + 1) sizes)) mod nth r sizes 1) (seq 0 (length sizes)).

(* skip sampling: index = g1 - 1; while index <= max_index: visit; index += g   (draws >= 1) *)
Fixpoint skip_indices (draws : list nat) (cur bound : nat) : list nat :=
  match draws with
  | [] => []
  | g :: rest => let i := cur + g in
                 if i <=? bound then (i - 1) :: skip_indices rest i bound else []
  end.
(* visited indices for a bound on index+1, i.e. indices < count *)
Definition visited (draws : list nat) (count : nat) : list nat := skip_indices draws 0 count.

(* ---------- generators driven by recorded geometric draws ---------- *)
Fixpoint skip_take (draws : list nat) (cur bound : nat) : list nat * list nat :=
  match draws with
  | [] => ([], [])
  | g :: rest => let i := cur + g in
                 if i <=? bound then let '(v, r) := skip_take rest i bound in ((i - 1) :: v, r)
                 else ([], rest)
  end.

Fixpoint nat_mem (x : nat) (l : list nat) : bool :=
  match l with [] => false | y :: r => Nat.eqb x y || nat_mem x r end.
Fixpoint nat_nodup (l : list nat) : bool :=
  match l with [] => true | x :: r => negb (nat_mem x r) && nat_nodup r end.
Definition nat_seteqb (a b : list nat) : bool :=
  forallb (fun x => nat_mem x b) a && forallb (fun x => nat_mem x a) b.

(* uniform_erdos_renyi_hypergraph(n, m, q, multiedges) for 0 < q < 1 *)
Definition er_edges (draws : list nat) (n m : nat) (multi : bool) : list (list nat) :=
  if multi then filter nat_nodup (map (fun i => unrank_prod i n m) (visited draws (n ^ m)))
  else map (fun i => unrank_comb i n m) (visited draws (binom n m)).

(* fast_random_hypergraph: per order d either all combinations (p = 1), nothing (p = 0) or skip sampling *)
Inductive pkind := PAll | PNone | PSkip.
Fixpoint fast_edges (spec : list (nat * pkind)) (draws : list nat) (n : nat) : list (list nat) :=
  match spec with
  | [] => []
  | (d, PAll) :: r => combs (seq 0 n) (d + 1) ++ fast_edges r draws n
  | (d, PNone) :: r => fast_edges r draws n
  | (d, PSkip) :: r => let '(v, rest) := skip_take draws 0 (binom n (d + 1)) in
                       map (fun i => unrank_comb i n (d + 1)) v ++ fast_edges r rest n
  end.

Fixpoint edges_match (a b : list (list nat)) : bool :=
  match a, b with
  | [], [] => true
  | x :: a', y :: b' => nat_seteqb x y && Nat.eqb (length x) (length y) && edges_match a' b'
  | _, _ => false
  end.

(* correspondence helpers *)
Fixpoint lists_eqb (a b : list (list nat)) : bool :=
  match a, b with
  | [], [] => true
  | x :: a', y :: b' => (fix eq (u v : list nat) := match u, v with [], [] => true | p :: u', q :: v' => Nat.eqb p q && eq u' v' | _, _ => false end) x y && lists_eqb a' b'
  | _, _ => false
  end.
Definition comb_table_bad (t : list (nat * nat * list (list nat))) : list (nat * nat) :=
  flat_map (fun '(n, m, l) => if lists_eqb (map (fun i => unrank_comb i n m) (seq 0 (binom n m))) l then [] else [(n, m)]) t.
Definition prod_table_bad (t : list (nat * nat * list (list nat))) : list (nat * nat) :=
  flat_map (fun '(n, m, l) => if lists_eqb (map (fun i => unrank_prod i n m) (seq 0 (n ^ m))) l then [] else [(n, m)]) t.
Definition part_table_bad (t : list (list nat * list (list nat))) : list (nat * nat) :=
  flat_map (fun '(sizes, l) => if lists_eqb (map (fun i => unrank_partition i sizes) (seq 0 (prod_list sizes))) l
                               then [] else [(length sizes, prod_list sizes)]) t.
Fixpoint bad_index {C} (f : C -> bool) (l : list C) (i : nat) : list (nat * nat) :=
  match l with [] => [] | c :: r => if f c then bad_index f r (S i) else (i, O) :: bad_index f r (S i) end.
Definition er_bad (cases : list (list nat * nat * nat * bool * list (list nat))) :=
  bad_index (fun '(draws, n, m, multi, obs) => edges_match (er_edges draws n m multi) obs) cases O.
Definition fast_bad (cases : list (list (nat * pkind) * list nat * nat * list (list nat))) :=
  bad_index (fun '(spec, draws, n, obs) => edges_match (fast_edges spec draws n) obs) cases O.

(* ---------- complete_hypergraph(N, order, max_order, include_singletons): the edge list ---------- *)
Definition complete_edges (n : nat) (sizes : list nat) : list (list nat) := flat_map (fun r => combs (seq 0 n) r) sizes.
Definition complete_sizes (order max_order : option nat) (incl : bool) : list nat :=
  match order, max_order with
  | Some d, _ => [d + 1]
  | None, Some mo => let start := if incl then 1 else 2 in seq start (mo + 2 - start)
  | None, None => []
  end.
Definition complete_bad (cases : list (nat * option nat * option nat * bool * list (list nat))) :=
  bad_index (fun '(n, order, mo, incl, obs) => lists_eqb (complete_edges n (complete_sizes order mo incl)) obs) cases O.
