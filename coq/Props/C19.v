(* C19 - derived networks (theorems are added from Proofs/DerivedProofs.v). *)
From Coq Require Import String ZArith List Bool.
From XV Require Import Base.Label Base.LSet Base.ODict Base.Attr Base.Outcome Model.Hypergraph
  Model.HgCheck Model.Copy Model.Derived.
Import ListNotations.
Open Scope Z_scope.

Example C19_nonvacuous :
  let s := run [OAddEdgesFrom (EB1 [[LInt 1; LInt 2; LInt 3]; [LInt 3; LInt 4]; [LInt 5]]) []; OAddNode (LInt 9) []] hg_empty in
  keys (h_edge (st_of (subhypergraph (Some [LInt 1; LInt 2; LInt 3; LInt 4]) None true s))) = [LInt 0; LInt 1] /\
  keys (h_edge (st_of (dual [] s))) = [LInt 1; LInt 2; LInt 3; LInt 4; LInt 5; LInt 9] /\
  keys (h_node (st_of (cleanup_copy false false false true true s))) = [LInt 0; LInt 1; LInt 2; LInt 3].
Proof. vm_compute. repeat split. Qed.
Print Assumptions C19_nonvacuous.
