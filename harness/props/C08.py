"""C08 - the read-only API never mutates the network it is given."""
import contextlib, copy, inspect, io, os, random, shutil, tempfile, warnings
from .. import common as C, histcheck as HC, gallina as G, hgsim, disim, scsim, api_surface
from . import base

PROP = "C08"
IMPORTS = "Base.Label Base.Attr Base.Outcome Model.Hypergraph Model.HgCheck"


# admissible values for optional parameters that occur across the API (never in_place=True)
OPTION_VALUES = {
    "max_order": (1, 2), "order": (1, 2), "d": (1,), "sparse": (True, False), "weighted": (True,), "index": (True,),
    "in_place": (False,), "s": (2,), "weights": ("absolute", "normalized"), "subset_types": ("immediate", "empirical"),
    "exact": (True,), "kind": ("top-2",), "normalized": (True,), "rescale_per_node": (True,), "min_size": (1, 3),
    "exclude_min_size": (False,), "ignore_singletons": (True,), "strict": (False,), "hull": (True,),
    "node_labels": (True,), "hyperedge_labels": (True,), "rescale_sizes": (False,), "seed": (3,),
    "include_self": (True,), "cutoff": (5,), "tol": (1e-3,), "max_iter": (5,), "iterations": (3,),
    "p": (0.5,), "k": (2,), "create_using": (None,),
    # further optional parameters (an audit of the API surface listed every optional parameter that was never varied)
    "normalize": (False,), "return_phantom_graph": (True,), "label_attribute": ("lbl",), "keep_isolates": (False,),
    "rotate_edges": (True,), "conn_lines": (False,), "equidistant": (True,), "center": ((1.0, 1.0),), "radius": (0.1,),
    "node_size": (11,), "node_fc": ("red",), "node_ec": ("blue",), "node_lw": (2,), "edge_fc": ("green",), "alpha": (0.8,),
    "dyad_lw": (2,), "dyad_color": ("red",), "dyad_style": ("dashed",), "num_samples": (20,), "resolution": (0.5,),
    "aspect": ("auto",), "sep": (0.5,), "h_angle": (20,), "v_angle": (30,), "layer_color": ("blue",), "node_shape": ("s",),
    "delimiter": (",",), "timesteps": (5,), "n_steps": (5,), "T": (1,), "dt": (0.01,), "sigma": (2,), "id_temp": (-7,),
}


def deep_snapshot(H):
    """everything a caller can observe, order included, plus the next automatic id"""
    import xgi
    di = isinstance(H, xgi.DiHypergraph)
    return {
        "class": type(H).__name__,
        "nodes": list(H.nodes),
        "memberships": [sorted(map(repr, H._node[n]["in"])) + ["|"] + sorted(map(repr, H._node[n]["out"])) if di
                        else sorted(map(repr, H._node[n])) for n in H.nodes],
        "edges": list(H.edges),
        "members": [(sorted(map(repr, H._edge[e]["in"])), sorted(map(repr, H._edge[e]["out"]))) if di
                    else sorted(map(repr, H._edge[e])) for e in H.edges],
        "nattr": [copy.deepcopy(dict(H._node_attr[n])) for n in H.nodes],
        "eattr": [copy.deepcopy(dict(H._edge_attr[e])) for e in H.edges],
        "nattr_keys": list(H._node_attr), "eattr_keys": list(H._edge_attr),
        "net": copy.deepcopy(dict(H._net_attr)),
        "uid": hgsim.peek_uid(H),
        "frozen": getattr(H, "frozen", False),
    }


def scribble(x, depth=0):
    """add an element to every SET a call returned (directly or inside a dict / list): a view or an
    algorithm that hands out an internal member or membership set would let this reach the network.
    Attribute dicts are not touched: H.nodes[n] / H.edges[e] are the live dicts by design."""
    if depth > 3:
        return
    try:
        if isinstance(x, set):
            x.add("__scribble__")
        elif isinstance(x, dict):
            for v in list(x.values())[:50]:
                scribble(v, depth + 1)
        elif isinstance(x, (list, tuple)):
            for v in x[:50]:
                scribble(v, depth + 1)
    except Exception:  # noqa: BLE001
        pass


def recipes(H, tmp, rng):
    """name -> thunk for the callables that need more than the network"""
    import networkx as nx, xgi
    nodes = list(H.nodes); edges = list(H.edges)
    n0 = nodes[0] if nodes else 0
    n1 = nodes[-1] if nodes else 1
    pos = {n: (rng.random(), rng.random()) for n in nodes}
    mo = xgi.max_edge_order(H) if not isinstance(H, xgi.DiHypergraph) else 1
    # name -> thunk giving (positional arguments after the network, keyword arguments)
    A = {
        "adjacency_tensor": lambda: ((1,), {}),
        "cut_to_order": lambda: ((max(0, (mo or 0) - 1),), {}),
        "draw_hyperedge_labels": lambda: ((pos,), {}),
        "draw_node_labels": lambda: ((pos,), {}),
        "edge_neighborhood": lambda: ((n0,), {}),
        "edge_positions_from_barycenters": lambda: ((pos,), {}),
        "empirical_subsets_filter": lambda: ((xgi.to_encapsulation_dag(H),), {}),
        "is_possible_order": lambda: ((1,), {}),
        "k_skeleton": lambda: ((1,), {}),
        "multiorder_laplacian": lambda: (([1, 2], [1, 1]), {}),
        "node_connected_component": lambda: ((n0,), {}),
        "node_swap": lambda: ((n0, n1), {}),
        "shuffle_hyperedges": lambda: ((1, 0.5), {}),
        "simulate_kuramoto": lambda: ((1, 1), {"n_steps": 5}),
        "single_source_shortest_path_length": lambda: ((n0,), {}),
        "write_bipartite_edgelist": lambda: ((os.path.join(tmp, "b.txt"),), {}),
        "write_edgelist": lambda: ((os.path.join(tmp, "e.txt"),), {}),
        "write_hif": lambda: ((os.path.join(tmp, "h.json"),), {}),
        "write_hif_collection": None,
        "write_incidence_matrix": lambda: ((os.path.join(tmp, "i.txt"),), {}),
        "write_json": lambda: ((os.path.join(tmp, "j.json"),), {}),
    }
    def thunk(name, extra=None):
        def call():
            if name == "write_hif_collection":
                return xgi.write_hif_collection([H, H], tmp, "c")
            args, kw = A[name]()
            kw = dict(kw); kw.update(extra or {})
            return getattr(xgi, name)(H, *args, **kw)
        return call
    r = {name: thunk(name) for name in A}
    r["__with__"] = thunk
    return r


def recipe_names(surf):
    """the callables the sweep can call: no further required parameter, or a recipe above"""
    import xgi
    rec = recipes(xgi.Hypergraph([[0, 1]]), "/nonexistent", random.Random(0))
    return [n for n, _, req in surf if not req or n in rec]   # "__with__" is not a surface name


def methods(H, rng):
    """read-only methods, views and statistics of the network object"""
    import inspect as _insp0
    import xgi
    nodes = list(H.nodes); edges = list(H.edges)
    di = isinstance(H, xgi.DiHypergraph)
    m = {
        "copy": lambda: H.copy(),
        "nodes.memberships()": lambda: H.nodes.memberships(),
        "edges.members()": lambda: H.edges.members(),
        "edges.members(dtype=dict)": lambda: H.edges.members(dtype=dict),
        "nodes.degree.asdict": lambda: H.nodes.degree.asdict(),
        "nodes.degree.aslist": lambda: H.nodes.degree.aslist(),
        "nodes.degree.asnumpy": lambda: H.nodes.degree.asnumpy(),
        "nodes.degree.aspandas": lambda: H.nodes.degree.aspandas(),
        "edges.size.asdict": lambda: H.edges.size.asdict(),
        "nodes.attrs.asdict": lambda: H.nodes.attrs.asdict(),
        "edges.attrs.asdict": lambda: H.edges.attrs.asdict(),
        "nodes.isolates": lambda: H.nodes.isolates(),
        "edges.singletons": lambda: H.edges.singletons(),
        "edges.empty": lambda: H.edges.empty(),
        "nodes.filterby": lambda: H.nodes.filterby("degree", 1, "geq"),
        "edges.filterby": lambda: H.edges.filterby("size", 2, "geq"),
        "nodes.multi": lambda: H.nodes.multi(["degree"]).asdict(),
        "len/contains/iter": lambda: (len(H), (nodes[0] in H) if nodes else None, list(H)),
        "str": lambda: str(H),
        "num_nodes/num_edges": lambda: (H.num_nodes, H.num_edges),
    }
    if nodes:
        m["nodes.memberships(n)"] = lambda: H.nodes.memberships(nodes[0])
        m["nodes[n]"] = lambda: H.nodes[nodes[0]]
        m["nodes.neighbors(n)"] = lambda: H.nodes.neighbors(nodes[0])
    if edges:
        m["edges.members(e)"] = lambda: H.edges.members(edges[0])
        m["edges[e]"] = lambda: H.edges[edges[0]]
        if not di:
            m["edges.neighbors(e)"] = lambda: H.edges.neighbors(edges[0])
    if di:
        if edges:
            m["edges.tail(e)"] = lambda: H.edges.tail(edges[0])
            m["edges.head(e)"] = lambda: H.edges.head(edges[0])
            m["edges.dimembers(e)"] = lambda: H.edges.dimembers(edges[0])
        if nodes:
            m["nodes.dimemberships(n)"] = lambda: H.nodes.dimemberships(nodes[0])
    else:
        m["edges.duplicates"] = lambda: H.edges.duplicates()
        m["edges.maximal"] = lambda: H.edges.maximal()
        m["edges.lookup"] = lambda: H.edges.lookup(set(H.edges.members(edges[0]))) if edges else None
        m["nodes.duplicates"] = lambda: H.nodes.duplicates()
        m["nodes.average_neighbor_degree"] = lambda: H.nodes.average_neighbor_degree.asdict()
        m["nodes.clustering_coefficient"] = lambda: H.nodes.clustering_coefficient.asdict()
    # every method of the two views that can be called without a required argument: defaults, then each boolean option flipped
    for vname, view in (("nodes", H.nodes), ("edges", H.edges)):
        for mname in dir(type(view)):
            if mname.startswith("_") or mname in ("from_view",):
                continue
            meth = getattr(view, mname, None)
            if not callable(meth) or isinstance(getattr(type(view), mname, None), property):
                continue
            try:
                ps = _insp0.signature(meth).parameters
            except (TypeError, ValueError):
                continue
            if any(par.default is _insp0.Parameter.empty and par.kind in (par.POSITIONAL_ONLY, par.POSITIONAL_OR_KEYWORD) for par in ps.values()):
                continue
            key = f"{vname}.{mname}()"
            if key not in m:
                m[key] = lambda meth=meth: meth()
            for q, par in ps.items():
                if isinstance(par.default, bool):
                    m[f"{vname}.{mname}({q}={not par.default})"] = lambda meth=meth, q=q, val=not par.default: meth(**{q: val})
    # every method with an in_place parameter, called with in_place=False: defaults, then each boolean option flipped
    import inspect as _insp
    for mname in dir(type(H)):
        if mname.startswith("_"):
            continue
        meth = getattr(H, mname, None)
        try:
            ps = _insp.signature(meth).parameters if callable(meth) else {}
        except (TypeError, ValueError):
            ps = {}
        if "in_place" not in ps:
            continue
        bools = [q for q, par in ps.items() if q != "in_place" and isinstance(par.default, bool)]
        m[f"{mname}(in_place=False)"] = lambda meth=meth: meth(in_place=False)
        for q in bools:
            m[f"{mname}({q}={not ps[q].default}, in_place=False)"] = lambda meth=meth, q=q, val=not ps[q].default: meth(in_place=False, **{q: val})
    if type(H) is xgi.Hypergraph:
        # node_swap restricted to one order: a pair of nodes for which the call does something (both have edges of that order,
        # one of which holds exactly one of the two)
        for d_ in sorted({len(ms) - 1 for ms in H.edges.members() if len(ms) >= 2})[:3]:
            es_d = [set(ms) for ms in H.edges.members() if len(ms) == d_ + 1]
            deg = {}
            for ms in es_d:
                for x in ms:
                    deg[x] = deg.get(x, 0) + 1
            pair = next(((a_, b_) for a_ in deg for b_ in deg if a_ != b_ and any((a_ in ms) != (b_ in ms) for ms in es_d)), None)
            if pair:
                m[f"node_swap(order={d_})"] = lambda pair=pair, d_=d_: xgi.node_swap(H, pair[0], pair[1], order=d_)
        m["dual"] = lambda: H.dual()
        m["<<"] = lambda: H << xgi.Hypergraph([[0, "q"]])
        m["merge_duplicate_edges? no: in place"] = lambda: None
        m["convert_labels_to_integers(in_place=False)"] = lambda: xgi.convert_labels_to_integers(H, in_place=False)
        m["largest_connected_hypergraph(in_place=False)"] = lambda: xgi.largest_connected_hypergraph(H, in_place=False)
        m["subhypergraph(nodes)"] = lambda: xgi.subhypergraph(H, nodes=nodes[:2])
        m["SimplicialComplex(H)"] = lambda: xgi.SimplicialComplex(H)
        m["Hypergraph(H)"] = lambda: xgi.Hypergraph(H)
        m["pickle"] = lambda: __import__("pickle").dumps(H)
        m["deepcopy"] = lambda: copy.deepcopy(H)
    return m


def sweep(H, surf, tmp, rng, counts):
    """call everything; returns a description of the first call after which H differs"""
    import matplotlib
    matplotlib.use("Agg")
    import matplotlib.pyplot as plt, xgi
    before = deep_snapshot(H)
    rec = recipes(H, tmp, rng)
    calls = []
    for name, p0, req in surf:
        if name in api_surface.DOCUMENTED_IN_PLACE:
            continue
        f = getattr(xgi, name)
        if name in rec:
            calls.append((name, rec[name]))
        elif not req:
            calls.append((name, (lambda f=f: f(H))))
        # the same callable with its optional arguments set, one at a time
        try:
            params = inspect.signature(f).parameters
        except (TypeError, ValueError):
            params = {}
        if name in rec and name != "write_hif_collection":
            # a recipe supplies the required arguments; vary the remaining optional ones on top of it
            nreq = len(req)
            for pn in list(params)[1 + nreq:]:
                for val in OPTION_VALUES.get(pn, ()):
                    calls.append((f"{name}(..., {pn}={val!r})", rec["__with__"](name, {pn: val})))
        elif not [r for r in req if r not in OPTION_VALUES]:
            for pn in params:
                for val in OPTION_VALUES.get(pn, ()):
                    kw = {r: OPTION_VALUES[r][0] for r in req}
                    kw[pn] = val
                    calls.append((f"{name}({pn}={val!r})", (lambda f=f, kw=kw: f(H, **kw))))
    for name, th in methods(H, rng).items():
        calls.append(("H." + name, th))
    rng.shuffle(calls)
    for name, th in calls:
        with warnings.catch_warnings(), contextlib.redirect_stdout(io.StringIO()):
            warnings.simplefilter("ignore")
            try:
                out = th()
                if hasattr(out, "__next__"):
                    out = list(out)
                scribble(out)
                counts["returned"] = counts.get("returned", 0) + 1
            except Exception:  # noqa: BLE001
                counts["raised"] = counts.get("raised", 0) + 1
        plt.close("all")
        after = deep_snapshot(H)
        if after != before:
            diff = [k for k in before if before[k] != after[k]]
            return f"{name} changed its argument ({type(H).__name__}): " + ", ".join(diff)
    return None


def run(v):
    import xgi
    proof = base.proof_stage(v, PROP)
    thorough = C.tier() == "thorough"
    rng = random.Random(C.seed() * 231 + 8)
    surf = api_surface.surface()
    failures, reports, errors, terms = [], [], [], []
    counts = {}
    n = 40 if thorough else 14
    tmp = tempfile.mkdtemp(prefix="xgi_c08_")
    all_recs = []
    try:
        for sim, name in ((hgsim, "Hypergraph"), (disim, "DiHypergraph"), (scsim, "SimplicialComplex")):
            recs = HC.gen_histories(sim, n, 8, C.seed() + 80 + len(name), malformed_share=0.0)
            for r in recs:
                H = r["net"]
                if r["obs"] and r["obs"][-1].get("broken"):
                    continue
                all_recs.append(r)
                d = sweep(H, surf, tmp, rng, counts)
                if d:
                    failures.append((f"{PROP}:{d.split(' changed')[0]}", {"what": d, "class": name, "history": HC.jsonable(r["ops"])}))
                    continue
                # the same network carrying structured attribute values (tuples, nested lists / dicts holding tuples): a callable that
                # normalises or serialises attribute values must do so on its own copy
                if len(all_recs) % 2 == 0 and H.num_nodes:
                    H2 = enrich(H)
                    d = sweep(H2, surf, tmp, rng, counts)
                    if d:
                        failures.append((f"{PROP}:{d.split(' changed')[0]}:structured-attributes",
                                         {"what": d + " (input carrying tuple-valued and nested attribute values)", "class": name,
                                          "history": HC.jsonable(r["ops"]), "structured_attributes": True}))
                if sim is hgsim:
                    # the network after the whole sweep against the model state of its history
                    try:
                        ob = hgsim.obs_to_gallina(hgsim.observe(H), None, 0)
                        opsg = G.glist([hgsim.op_to_gallina(op, ex) for op, ex in zip(r["ops"], r["extras"])])
                        terms.append((len(all_recs) - 1, G.gpair(opsg, ob)))
                    except G.Unsupported:
                        pass
        # degenerate but legal networks the generated histories rarely end in
        for dname, mk in degenerate().items():
            counts["degenerate networks"] = counts.get("degenerate networks", 0) + 1
            d = sweep(mk(), surf, tmp, rng, counts)
            if d:
                failures.append((f"{PROP}:{d.split(' changed')[0]}:{dname}", {"what": d + f" (input: {dname})", "degenerate": dname}))
    finally:
        shutil.rmtree(tmp, ignore_errors=True)
    cdir = C.cases_dir(PROP)
    files = {}
    for k in range(0, len(terms), 60):
        chunk = terms[k:k + 60]
        path = os.path.join(cdir, f"cases_{PROP}_{k // 60}.v")
        with open(path, "w") as f:
            f.write("From Coq Require Import String ZArith List Bool.\nFrom XV Require Import " + IMPORTS +
                    ".\nImport ListNotations.\nOpen Scope Z_scope.\nDefinition cases : list (list op * obs) := [\n" +
                    ";\n".join(t for _, t in chunk) + "\n].\n"
                    "Definition bad := (fix go (l : list (list op * obs)) (i : nat) : list (nat * nat) := match l with [] => [] "
                    "| (ops, ob) :: r => if obs_match (mkProj true true true false) (ok (run ops hg_empty)) ob then go r (S i) else (i, O) :: go r (S i) end) cases O.\n"
                    "Eval vm_compute in bad.\n")
        files[path] = [i for i, _ in chunk]
    res = C.run_coq_files(files.keys())
    for path, idxs in files.items():
        rc, out = res[path]
        pairs = C.parse_pairs(out) if rc == 0 else None
        if pairs is None:
            errors.append({"file": os.path.basename(path), "rc": rc, "output": out[-1500:]})
            continue
        for ci, _ in pairs[:4]:
            reports.append({"correspondence": "network after the read-only sweep vs model state of its history",
                            "history": HC.jsonable(all_recs[idxs[ci]]["ops"])})
    C.clean_cases(cdir)
    st = HC.stats(all_recs)
    v.coverage.update({
        "evaluations": counts.get("returned", 0) + counts.get("raised", 0),
        "distinct_nontrivial": st.pop("distinct_nontrivial"),
        "rule": "every public callable whose first parameter is a network (list regenerated by introspection on every "
                "run) plus the read-only methods, views, statistics, copy/dual/<</cleanup(in_place=False)/relabel/"
                "largest component/subhypergraph/class conversions/pickle, called in random order on networks of the "
                "three classes built by generated histories; after every call (returned or raised) a deep snapshot "
                "(order, members, attributes, attribute-table keys, next automatic id) is compared with the one before, "
                "after adding an element to every set the call returned; the Hypergraph after the whole sweep "
                "is compared with the model state of its history; non-trivial = history changes the tables",
        "samples": [HC.jsonable(all_recs[0]["ops"][:3])] if all_recs else [],
        "oracle_evaluations": len(all_recs),
        "api_surface": len(surf),
        "calls_returned": counts.get("returned", 0), "calls_raised": counts.get("raised", 0),
        "exhaustive": False,
        **st,
    })
    base.conclude(v, proof, reports, failures, errors)


def degenerate():
    """name -> thunk building a degenerate but legal network"""
    import xgi

    def nodeless(cls, empty):
        def mk():
            H = cls()
            H.add_edge(empty, idx="void", weight=2)
            H["name"] = "nodeless"
            return H
        return mk

    def edgeless(cls):
        def mk():
            H = cls()
            H.add_nodes_from([("a", {"c": 1}), "b", 3])
            H["name"] = "edgeless"
            return H
        return mk

    def single(cls, e):
        def mk():
            H = cls()
            H.add_node("x", c=1)
            H.add_edge(e, idx=5, w=1)
            return H
        return mk

    def overlap():
        H = xgi.DiHypergraph()
        H.add_edge(([1, 2], [2, 3]), idx="o", w=1)
        H.add_edge(([3], [3]), idx="loop")
        return H

    def all_equal():
        H = xgi.Hypergraph()
        H.add_edges_from([[1, 2, 3], [1, 2, 3], [3, 2, 1]])
        return H
    return {
        "Hypergraph without nodes, with an empty edge and a network attribute": nodeless(xgi.Hypergraph, []),
        "DiHypergraph without nodes, with an empty edge and a network attribute": nodeless(xgi.DiHypergraph, ([], [])),
        "Hypergraph with nodes and no edge": edgeless(xgi.Hypergraph),
        "DiHypergraph with nodes and no edge": edgeless(xgi.DiHypergraph),
        "SimplicialComplex with nodes and no simplex": edgeless(xgi.SimplicialComplex),
        "Hypergraph with one node in one singleton edge": single(xgi.Hypergraph, ["x"]),
        "SimplicialComplex with one node in one singleton simplex": single(xgi.SimplicialComplex, ["x"]),
        "DiHypergraph whose tails and heads overlap": overlap,
        "Hypergraph whose edges are all equal": all_equal,
    }


def enrich(H):
    """a copy of H with tuple-valued and nested attribute values on a node, an edge and the network"""
    H2 = H.copy()
    rich = {"pos": (0.5, 1.5), "tags": ["a", ("b", 1)], "meta": {"k": (1, 2), "l": [3, (4,)]}}
    H2.set_node_attributes({list(H2.nodes)[0]: copy.deepcopy(rich)})
    if H2.num_edges:
        H2.set_edge_attributes({list(H2.edges)[-1]: copy.deepcopy(rich)})
    H2["rich"] = copy.deepcopy(rich)
    return H2


def replay(payload):
    d = payload.get("detail", payload)
    if d.get("degenerate"):
        tmp = tempfile.mkdtemp(prefix="xgi_c08_")
        try:
            dsc = sweep(degenerate()[d["degenerate"]](), api_surface.surface(), tmp, random.Random(0), {})
        finally:
            shutil.rmtree(tmp, ignore_errors=True)
        print("oracle:", dsc or "holds", f"(input: {d['degenerate']})")
        return 1 if dsc else 0
    ops = HC.unjson(d["history"])
    sim = {"Hypergraph": hgsim, "DiHypergraph": disim, "SimplicialComplex": scsim}[d.get("class", "Hypergraph")]
    r = sim.run_history(ops)
    tmp = tempfile.mkdtemp(prefix="xgi_c08_")
    try:
        dsc = sweep(enrich(r["net"]) if d.get("structured_attributes") else r["net"], api_surface.surface(), tmp, random.Random(0), {})
    finally:
        shutil.rmtree(tmp, ignore_errors=True)
    print("oracle:", dsc or "holds")
    return 1 if dsc else 0
