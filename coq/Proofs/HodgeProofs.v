(* C13: consecutive boundary matrices multiply to zero. *)
From Coq Require Import String ZArith List Bool Lia.
From XV Require Import Base.Label Base.LSet Base.ODict Base.Attr Base.Outcome Model.Hypergraph Model.Hodge.
Import ListNotations.
Open Scope Z_scope.

Definition sumZ {A} (f : A -> Z) (l : list A) : Z := fold_left (fun acc x => acc + f x) l 0.

Lemma sumZ_acc {A} (f : A -> Z) l : forall a, fold_left (fun acc x => acc + f x) l a = a + sumZ f l.
Proof.
  unfold sumZ. induction l as [|x l IH]; intro a; cbn [fold_left]; [lia|]. rewrite (IH (a + f x)), (IH (0 + f x)). lia.
Qed.
Lemma sumZ_nil {A} (f : A -> Z) : sumZ f [] = 0. Proof. reflexivity. Qed.
Lemma sumZ_cons {A} (f : A -> Z) x l : sumZ f (x :: l) = f x + sumZ f l.
Proof. unfold sumZ. cbn [fold_left]. rewrite sumZ_acc. reflexivity. Qed.
Lemma sumZ_app {A} (f : A -> Z) l1 l2 : sumZ f (l1 ++ l2) = sumZ f l1 + sumZ f l2.
Proof. induction l1 as [|x l IH]; cbn [app]; [unfold sumZ at 2; simpl; lia|]. rewrite !sumZ_cons, IH. lia. Qed.
Lemma sumZ_ext {A} (f g : A -> Z) l : (forall x, In x l -> f x = g x) -> sumZ f l = sumZ g l.
Proof.
  induction l as [|x l IH]; intro H; [reflexivity|]. rewrite !sumZ_cons, IH; [rewrite (H x (or_introl eq_refl)); reflexivity|].
  intros y Hy. apply H. right; exact Hy.
Qed.
Lemma sumZ_map {A B} (f : B -> Z) (g : A -> B) l : sumZ f (map g l) = sumZ (fun x => f (g x)) l.
Proof. induction l as [|x l IH]; [reflexivity|]. simpl. rewrite !sumZ_cons, IH. reflexivity. Qed.
Lemma sumZ_zero {A} (l : list A) : sumZ (fun _ => 0) l = 0.
Proof. induction l as [|x l IH]; [reflexivity|]. rewrite sumZ_cons, IH. reflexivity. Qed.
Lemma sumZ_plus {A} (f g : A -> Z) l : sumZ (fun x => f x + g x) l = sumZ f l + sumZ g l.
Proof. induction l as [|x l IH]; [reflexivity|]. rewrite !sumZ_cons, IH. lia. Qed.
Lemma sumZ_scale {A} (c : Z) (f : A -> Z) l : sumZ (fun x => c * f x) l = c * sumZ f l.
Proof. induction l as [|x l IH]; [rewrite !sumZ_nil; lia|]. rewrite !sumZ_cons, IH. lia. Qed.
Lemma sumZ_swap {A B} (f : A -> B -> Z) la lb :
  sumZ (fun a => sumZ (fun b => f a b) lb) la = sumZ (fun b => sumZ (fun a => f a b) la) lb.
Proof.
  induction la as [|a la IH]; simpl.
  - rewrite sumZ_nil. symmetry. apply sumZ_zero.
  - rewrite sumZ_cons, IH. rewrite <- sumZ_plus. apply sumZ_ext. intros b _. rewrite sumZ_cons. reflexivity.
Qed.
Lemma sumZ_seq_S (f : nat -> Z) n : sumZ f (seq 0 (S n)) = f O + sumZ (fun j => f (S j)) (seq 0 n).
Proof. simpl. rewrite sumZ_cons. rewrite <- seq_shift, sumZ_map. reflexivity. Qed.

Lemma sgn_S e : sgn (e + 1) = - sgn e.
Proof.
  unfold sgn. rewrite Z.even_add. destruct (Z.even e); reflexivity.
Qed.
Lemma sgn_mul a b : sgn a * sgn b = sgn (a + b).
Proof. unfold sgn. rewrite Z.even_add. destruct (Z.even a), (Z.even b); reflexivity. Qed.
Lemma sgn_add2 a b : sgn (a + 2 * b) = sgn a.
Proof. unfold sgn. rewrite Z.even_add, Z.even_mul. simpl. destruct (Z.even a); reflexivity. Qed.

Lemma lbls_eqb_eq a : forall b, lbls_eqb a b = true <-> a = b.
Proof.
  induction a as [|x a IH]; intros [|y b]; simpl; try (split; [discriminate|intro H; inversion H]); [split; reflexivity|].
  rewrite andb_true_iff, lbl_eqb_eq, IH. split; [intros [-> ->]; reflexivity|intro H; inversion H; auto].
Qed.

Definition delta (a b : list lbl) : Z := if lbls_eqb a b then 1 else 0.

Lemma delta_cons x y a b : delta (x :: a) (y :: b) = if lbl_eqb x y then delta a b else 0.
Proof. unfold delta. simpl. destruct (lbl_eqb x y); reflexivity. Qed.
Lemma delta_nil_cons y b : delta [] (y :: b) = 0. Proof. reflexivity. Qed.
Lemma delta_cons_nil x a : delta (x :: a) [] = 0. Proof. reflexivity. Qed.

(* the boundary entry as a sum *)
Lemma cond_fold (c : nat -> bool) (g : nat -> Z) l : forall a,
  fold_left (fun acc j => if c j then acc + g j else acc) l a = a + sumZ (fun j => (if c j then 1 else 0) * g j) l.
Proof.
  induction l as [|j l IH]; intro a; cbn [fold_left]; [rewrite sumZ_nil; lia|].
  rewrite IH, sumZ_cons. destruct (c j); lia.
Qed.

Lemma bentry_sum rho sigma o_rho o_sigma :
  bentry rho sigma o_rho o_sigma =
  sumZ (fun j => delta (remove_nth j sigma) rho * sgn (o_sigma + Z.of_nat j + o_rho)) (seq 0 (length sigma)).
Proof. unfold bentry. rewrite cond_fold. unfold delta. rewrite Z.add_0_l. reflexivity. Qed.

(* the double boundary: faces of faces with the product of the positional signs *)
Definition dd (tau rho : list lbl) : Z :=
  sumZ (fun j => sumZ (fun i => delta (remove_nth i (remove_nth j tau)) rho * sgn (Z.of_nat i + Z.of_nat j))
                      (seq 0 (length tau - 1))) (seq 0 (length tau)).

(* the two ways of reaching a codimension-2 face carry opposite signs *)
Theorem dd_zero : forall tau rho, dd tau rho = 0.
Proof.
  induction tau as [|x t IH]; intro rho; unfold dd; [reflexivity|].
  cbn [length]. rewrite sumZ_seq_S. cbn [remove_nth]. replace (S (length t) - 1)%nat with (length t) by lia.
  (* j = 0 : the faces of t, signs (-1)^i *)
  (* j = S j' : x :: (t - j'), then i = 0 gives t - j' with sign (-1)^(j'+1), i = S i' gives x :: ((t-j')-i') *)
  destruct t as [|y t'].
  - simpl. rewrite !sumZ_nil. reflexivity.
  - set (t := y :: t') in *. assert (Lt : length t = S (length t')) by reflexivity.
    rewrite (sumZ_ext (fun j => sumZ (fun i => delta (remove_nth i (remove_nth (S j) (x :: t))) rho * sgn (Z.of_nat i + Z.of_nat (S j))) (seq 0 (length t)))
                      (fun j => delta (remove_nth j t) rho * sgn (Z.of_nat j + 1)
                                + sumZ (fun i => delta (x :: remove_nth i (remove_nth j t)) rho * sgn (Z.of_nat i + Z.of_nat j)) (seq 0 (length t'))) ).
    2:{ intros j Hj. rewrite Lt at 1. rewrite sumZ_seq_S. cbn [remove_nth]. f_equal.
        - f_equal. f_equal. lia.
        - apply sumZ_ext. intros i _. f_equal. rewrite !Nat2Z.inj_succ. rewrite <- (sgn_add2 (Z.of_nat i + Z.of_nat j) 1). f_equal. lia. }
    rewrite sumZ_plus.
    rewrite (sumZ_ext (fun i => delta (remove_nth i t) rho * sgn (Z.of_nat i + Z.of_nat 0)) (fun i => delta (remove_nth i t) rho * sgn (Z.of_nat i))).
    2:{ intros i _. f_equal. f_equal. simpl. lia. }
    rewrite (sumZ_ext (fun j => delta (remove_nth j t) rho * sgn (Z.of_nat j + 1)) (fun j => (-1) * (delta (remove_nth j t) rho * sgn (Z.of_nat j)))).
    2:{ intros j _. rewrite sgn_S. lia. }
    rewrite sumZ_scale.
    assert (Rest : sumZ (fun j => sumZ (fun i => delta (x :: remove_nth i (remove_nth j t)) rho * sgn (Z.of_nat i + Z.of_nat j)) (seq 0 (length t'))) (seq 0 (length t)) = 0).
    { destruct rho as [|r rho'].
      - rewrite (sumZ_ext _ (fun _ => 0)); [apply sumZ_zero|]. intros j _.
        rewrite (sumZ_ext _ (fun _ => 0)); [apply sumZ_zero|]. intros i _. rewrite delta_cons_nil. lia.
      - destruct (lbl_eqb x r) eqn:E.
        + specialize (IH rho'). unfold dd in IH. rewrite Lt in IH. replace (S (length t') - 1)%nat with (length t') in IH by lia.
          rewrite <- IH at 1. rewrite Lt. apply sumZ_ext. intros j _. apply sumZ_ext. intros i _. rewrite delta_cons, E. reflexivity.
        + rewrite (sumZ_ext _ (fun _ => 0)); [apply sumZ_zero|]. intros j _.
          rewrite (sumZ_ext _ (fun _ => 0)); [apply sumZ_zero|]. intros i _. rewrite delta_cons, E. lia. }
    rewrite Rest. lia.
Qed.

Lemma remove_nth_length {A} (l : list A) : forall j, (j < length l)%nat -> length (remove_nth j l) = (length l - 1)%nat.
Proof.
  induction l as [|x l IH]; intros j H; [simpl in H; lia|].
  destruct j as [|j]; cbn [remove_nth length]; [lia|].
  cbn [length] in H. rewrite IH by lia. lia.
Qed.

Lemma delta_sym a b : delta a b = delta b a.
Proof.
  unfold delta. destruct (lbls_eqb a b) eqn:E1; destruct (lbls_eqb b a) eqn:E2; try reflexivity.
  - apply lbls_eqb_eq in E1. subst. assert (lbls_eqb b b = true) by (apply lbls_eqb_eq; reflexivity). congruence.
  - apply lbls_eqb_eq in E2. subst. assert (lbls_eqb a a = true) by (apply lbls_eqb_eq; reflexivity). congruence.
Qed.

(* picking the unique column whose simplex is a *)
Lemma pick_unique (F : list lbl * Z -> Z) (a : list lbl) (o : Z) (l : list (list lbl * Z)) :
  NoDup (map fst l) -> In (a, o) l -> sumZ (fun c => delta a (fst c) * F c) l = F (a, o).
Proof.
  induction l as [|[b ob] l IH]; intros ND Hin; [destruct Hin|].
  rewrite sumZ_cons. simpl in ND. inversion ND as [|? ? Hni ND']; subst. destruct Hin as [E|Hin].
  - assert (Eb1 : b = a) by congruence. assert (Eb2 : ob = o) by congruence. subst b ob. clear E. unfold delta at 1. simpl fst.
    assert (R : lbls_eqb a a = true) by (apply lbls_eqb_eq; reflexivity). rewrite R.
    rewrite (sumZ_ext _ (fun _ => 0)); [rewrite sumZ_zero; lia|].
    intros [b' ob'] Hb. unfold delta. simpl. destruct (lbls_eqb a b') eqn:Eb; [|lia].
    apply lbls_eqb_eq in Eb. subst b'. exfalso. apply Hni. change a with (fst (a, ob')). apply in_map. exact Hb.
  - rewrite (IH ND' Hin). unfold delta at 1. simpl fst. destruct (lbls_eqb a b) eqn:Eb; [|lia].
    apply lbls_eqb_eq in Eb. subst b. exfalso. apply Hni. change a with (fst (a, o)). apply in_map. exact Hin.
Qed.

Lemma sgn_split a b : sgn (a + b) = sgn a * sgn b. Proof. symmetry. apply sgn_mul. Qed.

Lemma sgn4 f i r t j : sgn (f + i + r) * sgn (t + j + f) = sgn (t + r) * sgn (i + j).
Proof.
  unfold sgn. rewrite !Z.even_add.
  destruct (Z.even f), (Z.even i), (Z.even r), (Z.even t), (Z.even j); reflexivity.
Qed.

(* one entry of B_k * B_{k+1}: rho a (k-1)-simplex, tau a (k+1)-simplex, mid the k-simplices.
   Hypotheses: no simplex is listed twice, and every facet of tau is listed (closure). *)
Theorem boundary_product_entry (rho tau : list lbl) (o_rho o_tau : Z) (mid : list (list lbl * Z)) (o_face : nat -> Z) :
  NoDup (map fst mid) ->
  (forall j, (j < length tau)%nat -> In (remove_nth j tau, o_face j) mid) ->
  sumZ (fun c => bentry rho (fst c) o_rho (snd c) * bentry (fst c) tau (snd c) o_tau) mid = 0.
Proof.
  intros ND Hface.
  rewrite (sumZ_ext _ (fun c => sumZ (fun j => delta (remove_nth j tau) (fst c) *
                                   (bentry rho (fst c) o_rho (snd c) * sgn (o_tau + Z.of_nat j + snd c)))
                                  (seq 0 (length tau)))).
  2:{ intros c _. rewrite (bentry_sum (fst c) tau). rewrite <- sumZ_scale. apply sumZ_ext. intros j _. lia. }
  rewrite sumZ_swap.
  rewrite (sumZ_ext _ (fun j => sgn (o_tau + o_rho) *
              sumZ (fun i => delta (remove_nth i (remove_nth j tau)) rho * sgn (Z.of_nat i + Z.of_nat j)) (seq 0 (length tau - 1)))).
  2:{ intros j Hj. apply in_seq in Hj.
      rewrite (pick_unique (fun c => bentry rho (fst c) o_rho (snd c) * sgn (o_tau + Z.of_nat j + snd c))
                           (remove_nth j tau) (o_face j) mid ND (Hface j ltac:(lia))).
      simpl fst. simpl snd. rewrite bentry_sum, remove_nth_length by lia.
      rewrite <- sumZ_scale. rewrite Z.mul_comm. rewrite <- sumZ_scale. apply sumZ_ext. intros i _.
      pose proof (sgn4 (o_face j) (Z.of_nat i) o_rho o_tau (Z.of_nat j)) as S4.
      set (A := sgn (o_tau + Z.of_nat j + o_face j)) in *. set (B := sgn (o_face j + Z.of_nat i + o_rho)) in *.
      set (D := delta (remove_nth i (remove_nth j tau)) rho).
      replace (A * (D * B)) with (D * (B * A)) by ring. rewrite S4. ring. }
  rewrite sumZ_scale. fold (dd tau rho). rewrite dd_zero. lia.
Qed.
