"""C12 - matrix representations encode the network exactly."""
import math, os, random, warnings
from fractions import Fraction
from itertools import permutations
from .. import common as C, histcheck as HC, gallina as G, hgsim
from . import base

PROP = "C12"
IMPORTS = "Base.Label Base.Attr Base.Outcome Model.Hypergraph Model.Hodge Model.Matrix"


def dense(M):
    import numpy as np
    return np.asarray(M.todense()) if hasattr(M, "todense") else np.asarray(M)


def gmat(M):
    M = dense(M)
    if M.ndim == 1:
        M = M.reshape(1, -1)
    return "[" + "; ".join("[" + "; ".join(G.gZ(int(round(float(x)))) for x in row) + "]" for row in M) + "]"


def gqmat(M):
    M = dense(M)
    rows = []
    for row in M:
        rows.append("[" + "; ".join("(%d # %d)%%Q" % (Fraction(float(x)).limit_denominator(10 ** 6).numerator,
                                                      Fraction(float(x)).limit_denominator(10 ** 6).denominator) for x in row) + "]")
    return "[" + "; ".join(rows) + "]"


def gon(o):
    return "None" if o is None else f"(Some {G.gnat(o)})"


def oracle(H):
    """textbook definitions, symmetry, zero row sums, PSD, sparse = dense, on the implementation"""
    import numpy as np, xgi
    nodes, edges = list(H.nodes), list(H.edges)
    mem = {e: set(H.edges.members(e)) for e in edges}
    N = len(nodes)
    for order in (None, 0, 1, 2, 3):
        es = [e for e in edges if order is None or len(mem[e]) == order + 1]
        for sparse in (True, False):
            with warnings.catch_warnings():
                warnings.simplefilter("ignore")
                I, rd, cd = xgi.incidence_matrix(H, order=order, sparse=sparse, index=True)
            I = dense(I)
            if es and nodes:
                if I.shape != (N, len(es)) or [rd[i] for i in range(N)] != nodes or [cd[j] for j in range(len(es))] != es:
                    return f"incidence_matrix(order={order}, sparse={sparse}): wrong shape or index maps"
                for i, n in enumerate(nodes):
                    for j, e in enumerate(es):
                        if I[i, j] != (1 if n in mem[e] else 0):
                            return f"incidence_matrix(order={order}, sparse={sparse})[{n!r}, {e!r}] = {I[i, j]}"
            elif I.shape != (0, 0):
                return f"incidence_matrix(order={order}) of a network without such edges has shape {I.shape}"
        for s in (1, 2):
            for weighted in (False, True):
                outs = []
                for sparse in (True, False):
                    with warnings.catch_warnings():
                        warnings.simplefilter("ignore")
                        A = dense(xgi.adjacency_matrix(H, order=order, sparse=sparse, s=s, weighted=weighted))
                    outs.append(A)
                    if A.shape != (N, N):
                        return f"adjacency_matrix(order={order}, sparse={sparse}) has shape {A.shape} for {N} nodes"
                    for i, a in enumerate(nodes):
                        for j, b in enumerate(nodes):
                            shared = sum(1 for e in es if a in mem[e] and b in mem[e]) if i != j else 0
                            want = (shared if weighted else 1) if shared >= s else 0
                            if i == j:
                                want = 0
                            if A[i, j] != want:
                                return (f"adjacency_matrix(order={order}, s={s}, weighted={weighted}, sparse={sparse})"
                                        f"[{a!r}, {b!r}] = {A[i, j]}, the nodes share {shared} edges")
                if not np.array_equal(outs[0], outs[1]):
                    return f"adjacency_matrix(order={order}, s={s}, weighted={weighted}): sparse and dense outputs differ"
        with warnings.catch_warnings():
            warnings.simplefilter("ignore")
            K = xgi.degree_matrix(H, order=order)
        if list(K) != [sum(1 for e in es if n in mem[e]) for n in nodes]:
            return f"degree_matrix(order={order}) = {list(K)}"
        for sparse in (True, False):
            with warnings.catch_warnings():
                warnings.simplefilter("ignore")
                P = dense(xgi.intersection_profile(H, order=order, sparse=sparse))
            if es and nodes:
                for i, e in enumerate(es):
                    for j, f in enumerate(es):
                        if P[i, j] != len(mem[e] & mem[f]):
                            return f"intersection_profile(order={order})[{e!r}, {f!r}] = {P[i, j]}"
    for d in (1, 2, 3):
        Ls = []
        for sparse in (True, False):
            with warnings.catch_warnings():
                warnings.simplefilter("ignore")
                L = dense(xgi.laplacian(H, order=d, sparse=sparse))
            Ls.append(L)
            if N and L.shape == (N, N):
                if np.abs(L.sum(axis=1)).max() > 1e-9:
                    return f"laplacian(order={d}) has non-zero row sums"
                if np.abs(L - L.T).max() > 1e-9:
                    return f"laplacian(order={d}) is not symmetric"
                if np.linalg.eigvalsh(L).min() < -1e-8:
                    return f"laplacian(order={d}) is not positive semidefinite"
        if not np.array_equal(Ls[0], Ls[1]):
            return f"laplacian(order={d}): sparse and dense outputs differ"
    if N:
        with warnings.catch_warnings():
            warnings.simplefilter("ignore")
            Lm = dense(xgi.multiorder_laplacian(H, [1, 2], [1, 2]))
        if np.abs(Lm.sum(axis=1)).max() > 1e-9 or np.abs(Lm - Lm.T).max() > 1e-9 or np.linalg.eigvalsh(Lm).min() < -1e-8:
            return "multiorder_laplacian: row sums / symmetry / PSD fails"
        for resc in (False, True):
            for orders, weights in (([1, 2], [1, 2]), ([2, 3, 1], [1, 0.5, 2]), ([3], [1])):
                want = np.zeros((N, N))
                for d, w in zip(orders, weights):
                    es_d = [e for e in edges if len(mem[e]) == d + 1]
                    K = np.array([sum(1 for e in es_d if n in mem[e]) for n in nodes], dtype=float)
                    if K.sum() == 0:
                        continue
                    A = np.array([[0 if a == b else sum(1 for e in es_d if a in mem[e] and b in mem[e]) for b in nodes] for a in nodes], dtype=float)
                    L = d * np.diag(K) - A
                    if resc:
                        L = L / d
                    want += L * w / K.mean()
                outs = []
                for sparse in (True, False):
                    with warnings.catch_warnings():
                        warnings.simplefilter("ignore")
                        got, rd = xgi.multiorder_laplacian(H, orders, weights, sparse=sparse, rescale_per_node=resc, index=True)
                    outs.append(dense(got))
                    if [rd[i] for i in range(N)] != nodes:
                        return "multiorder_laplacian index map"
                if np.abs(outs[0] - want).max() > 1e-9 or np.abs(outs[1] - want).max() > 1e-9:
                    return f"multiorder_laplacian(orders={orders}, weights={weights}, rescale_per_node={resc}) differs from sum_d w_d L_d / <K_d>"
        if edges and not list(H.nodes.isolates()) and all(len(m) > 0 for m in mem.values()):
            outs = []
            for sparse in (True, False):
                with warnings.catch_warnings():
                    warnings.simplefilter("ignore")
                    Ln = dense(xgi.normalized_hypergraph_laplacian(H, sparse=sparse))
                outs.append(Ln)
            Im = np.array([[1.0 if n in mem[e] else 0.0 for e in edges] for n in nodes])
            Dv = Im.sum(axis=1); De = Im.sum(axis=0)
            want = np.eye(N) - np.diag(Dv ** -0.5) @ Im @ np.diag(1 / De) @ Im.T @ np.diag(Dv ** -0.5)
            if np.abs(outs[0] - want).max() > 1e-9 or np.abs(outs[0] - outs[1]).max() > 1e-9:
                return "normalized_hypergraph_laplacian differs from I - Dv^-1/2 I De^-1 I^T Dv^-1/2 (or sparse != dense)"
            if np.abs(want - want.T).max() > 1e-9 or np.linalg.eigvalsh((want + want.T) / 2).min() < -1e-8:
                return "normalized_hypergraph_laplacian is not symmetric positive semidefinite"
        for d in (1, 2):
            es = [e for e in edges if len(mem[e]) == d + 1]
            with warnings.catch_warnings():
                warnings.simplefilter("ignore")
                T = xgi.adjacency_tensor(H, d, normalized=False)
            if es:
                want = np.zeros((N,) * (d + 1), dtype=int)
                for e in es:
                    for p in permutations([nodes.index(x) for x in mem[e]], d + 1):
                        want[p] = 1
                if not np.array_equal(np.asarray(T), want):
                    return f"adjacency_tensor(order={d}) differs from the permutation indicator"
    return None


def run(v):
    import numpy as np
    import xgi
    proof = base.proof_stage(v, PROP)
    n = 1500 if C.tier() == "thorough" else 160
    rng = random.Random(C.seed() * 111 + 12)
    recs = HC.gen_histories(hgsim, n, 10, C.seed() + 120, malformed_share=0.0)
    failures, reports, errors, terms = [], [], [], []
    nq = 0
    for i, r in enumerate(recs):
        H = r["net"]
        if r["obs"] and r["obs"][-1].get("broken") or H.num_nodes > 9:
            continue
        try:
            d = oracle(H)
        except Exception as e:  # noqa: BLE001
            d = f"raised {type(e).__name__}: {e}"
        if d:
            failures.append((f"{PROP}:{d.split('(')[0]}", {"what": d, "history": HC.jsonable(r["ops"])}))
            continue
        qs, mo = [], []
        try:
            with warnings.catch_warnings():
                warnings.simplefilter("ignore")
                for _ in range(6):
                    o = rng.choice([None, None, 0, 1, 2, 3]); sp = rng.random() < 0.5
                    k = rng.choice(["inc", "adj", "adj", "deg", "int", "cm", "lap", "ten"])
                    if k == "inc":
                        qs.append(G.gpair(f"(MIncidence {gon(o)})", gmat(xgi.incidence_matrix(H, order=o, sparse=sp))))
                    elif k == "adj":
                        s_ = rng.choice([1, 1, 2, 3]); w = rng.random() < 0.5
                        qs.append(G.gpair(f"(MAdjacency {gon(o)} {G.gZ(s_)} {G.gbool(w)})", gmat(xgi.adjacency_matrix(H, order=o, sparse=sp, s=s_, weighted=w))))
                    elif k == "deg":
                        qs.append(G.gpair(f"(MDegree {gon(o)})", gmat(xgi.degree_matrix(H, order=o))))
                    elif k == "int":
                        qs.append(G.gpair(f"(MIntersection {gon(o)})", gmat(xgi.intersection_profile(H, order=o, sparse=sp))))
                    elif k == "ten":
                        dd = rng.choice([1, 1, 2])
                        if H.num_nodes ** (dd + 1) <= 800:
                            B = np.asarray(xgi.adjacency_tensor(H, dd, normalized=False))
                            Bn = np.asarray(xgi.adjacency_tensor(H, dd))        # default: divided by order!
                            if Bn.shape != B.shape or not np.allclose(Bn * math.factorial(dd), B):
                                failures.append((f"{PROP}:adjacency_tensor:normalized", {"what": f"adjacency_tensor(H, {dd}) is not adjacency_tensor(H, {dd}, normalized=False) / {dd}!", "history": HC.jsonable(r["ops"])}))
                            if B.shape != (H.num_nodes,) * (dd + 1):
                                failures.append((f"{PROP}:adjacency_tensor:shape", {"what": f"adjacency_tensor(H, {dd}) has shape {B.shape} for {H.num_nodes} nodes", "history": HC.jsonable(r["ops"])}))
                            qs.append(G.gpair(f"(MTensor {G.gnat(dd)})", gmat(B.reshape(1, -1) if B.size else np.zeros((1, 0)))))
                    elif k == "cm":
                        qs.append(G.gpair("MCliqueMotif", gmat(xgi.clique_motif_matrix(H, sparse=sp))))
                    else:
                        dd = rng.choice([1, 2, 3])
                        qs.append(G.gpair(f"(MLaplacian {G.gnat(dd)})", gmat(xgi.laplacian(H, order=dd, sparse=sp))))
                    nq += 1
                if H.num_nodes:
                    orders = rng.sample([1, 2, 3], 2); weights = [rng.randint(1, 3) for _ in orders]
                    resc = rng.random() < 0.5
                    Lm = xgi.multiorder_laplacian(H, orders, weights, sparse=rng.random() < 0.5, rescale_per_node=resc)
                    mo.append(G.gpair("(QMulti [" + "; ".join(G.gnat(o) for o in orders) + "] [" + "; ".join(G.gZ(w) for w in weights) + f"] {G.gbool(resc)})", gqmat(Lm)))
                    dd = rng.choice([1, 2, 3])
                    mo.append(G.gpair(f"(QRescaled {G.gnat(dd)})", gqmat(xgi.laplacian(H, order=dd, sparse=rng.random() < 0.5, rescale_per_node=True))))
                    nq += 2
            opsg = G.glist([hgsim.op_to_gallina(op, ex) for op, ex in zip(r["ops"], r["extras"])])
            terms.append((i, G.gpair(opsg, G.glist(qs), G.glist(mo))))
        except G.Unsupported:
            pass
    cdir = C.cases_dir(PROP)
    files = {}
    for k in range(0, len(terms), 50):
        chunk = terms[k:k + 50]
        path = os.path.join(cdir, f"cases_{PROP}_{k // 50}.v")
        with open(path, "w") as f:
            f.write("From Coq Require Import String ZArith QArith List Bool.\nFrom XV Require Import " + IMPORTS +
                    ".\nImport ListNotations.\nOpen Scope Z_scope.\nDefinition cases := [\n" + ";\n".join(t for _, t in chunk) +
                    "\n].\nEval vm_compute in (matrix_bad cases).\n")
        files[path] = [i for i, _ in chunk]
    res = C.run_coq_files(files.keys())
    for path, idxs in files.items():
        rc, out = res[path]
        pairs = C.parse_pairs(out) if rc == 0 else None
        if pairs is None:
            errors.append({"file": os.path.basename(path), "rc": rc, "output": out[-1500:]})
            continue
        for ci, qi in pairs[:4]:
            reports.append({"correspondence": "Model.Matrix.matrix_bad", "query_index": qi,
                            "history": HC.jsonable(recs[idxs[ci]]["ops"])})
    C.clean_cases(cdir)
    st = HC.stats(recs)
    v.coverage.update({
        "evaluations": nq,
        "distinct_nontrivial": st.pop("distinct_nontrivial"),
        "rule": "hypergraphs built by generated histories (any labels, multi-edges, singletons, isolated nodes, empty "
                "edges, <= 9 nodes); incidence / adjacency (order, s, weighted) / degree / intersection / clique-motif / "
                "Laplacian / multi-order Laplacian matrices, sparse or dense at random, compared exactly with the model; "
                "oracle: entry-wise textbook definitions for every argument combination, symmetry, zero row sums, PSD, "
                "sparse = dense, normalised Laplacian and tensor; non-trivial = history changes the tables",
        "samples": [HC.jsonable(recs[0]["ops"][:4])],
        "oracle_evaluations": len(recs),
        "exhaustive": False,
        **st,
    })
    base.conclude(v, proof, reports, failures, errors)


def replay(payload):
    d = payload.get("detail", payload)
    ops = HC.unjson(d["history"])
    r = hgsim.run_history(ops)
    dsc = oracle(r["net"])
    print("oracle:", dsc or "holds")
    return 1 if dsc else 0
