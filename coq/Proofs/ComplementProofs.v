(* C19: complement(H) holds exactly the absent node sets up to the maximum edge size. *)
From Coq Require Import String ZArith List Bool Lia.
From XV Require Import Base.Label Base.LSet Base.ODict Base.Attr Base.Outcome Model.Hypergraph Model.HgCheck
     Model.SimplicialComplex Model.Copy Model.Derived Proofs.HgViews Proofs.Combs.
Import ListNotations.

Definition comp_bound (s : hg) : nat := match h_edge s with [] => 1%nat | _ => max_size s end.
Definition present (s : hg) (f : list lbl) : Prop := exists m, In m (vals (h_edge s)) /\ seteq f m.

Lemma existsb_present s f : existsb (fun m => seteqb f m) (vals (h_edge s)) = true <-> present s f.
Proof.
  rewrite existsb_exists. unfold present. split; intros (m & Hm & H); exists m; (split; [exact Hm|]); apply seteqb_spec; exact H.
Qed.

(* soundness: every listed set is a duplicate-free set of nodes of admissible size that is not an edge *)
Theorem complement_sound s c : NoDup (keys (h_node s)) -> In c (complement_sets s) ->
  (1 <= length c <= comp_bound s)%nat /\ NoDup c /\ (forall x, In x c -> In x (keys (h_node s))) /\ ~ present s c.
Proof.
  intros ND H. unfold complement_sets in H. apply filter_In in H. destruct H as [H Hn].
  unfold powerset_sizes in H. apply in_flat_map in H. destruct H as (k & Hk & Hc). apply in_seq in Hk.
  destruct (combs_sound _ _ _ Hc) as [L S]. fold (comp_bound s) in Hk.
  split; [rewrite L; lia|]. split; [apply (combs_NoDup _ ND k c Hc)|]. split; [exact S|].
  intro P. apply existsb_present in P. rewrite P in Hn. discriminate Hn.
Qed.

(* completeness: every absent set of admissible size is listed (as a set) *)
Theorem complement_complete s f :
  NoDup f -> (forall x, In x f -> In x (keys (h_node s))) -> (1 <= length f <= comp_bound s)%nat -> ~ present s f ->
  exists c, In c (complement_sets s) /\ seteq c f.
Proof.
  intros ND Hs Hl Hn. destruct (combs_complete (keys (h_node s)) f ND Hs) as (c & Hc & Sc).
  exists c. split; [|exact Sc]. unfold complement_sets. apply filter_In. split.
  - unfold powerset_sizes. apply in_flat_map. exists (length f). split; [|exact Hc].
    apply in_seq. fold (comp_bound s). lia.
  - apply negb_true_iff. destruct (existsb (fun m => seteqb c m) (vals (h_edge s))) eqn:E; [|reflexivity].
    exfalso. apply Hn. apply existsb_present in E. destruct E as (m & Hm & Hcm). exists m. split; [exact Hm|].
    intro x. rewrite <- (Sc x). apply Hcm.
Qed.
