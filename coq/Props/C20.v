(* C20 - layouts and drawings represent every node and edge faithfully.
   Model/Draw.v is the drawing plan: markers, lines and polygons as functions of the tables and the
   node positions (rationals).  The theorems say what the plan contains, for every state, position
   map and max_order; that the matplotlib collections built by the code are this plan is the
   correspondence (offsets, segments, polygon vertices compared for exact dyadic positions).  The
   layout functions themselves (networkx / numpy) are outside the model: the oracle checks that
   they return exactly one finite position per node. *)
From Coq Require Import String ZArith QArith List Bool.
From XV Require Import Base.Label Base.LSet Base.ODict Base.Attr Base.Outcome Model.Hypergraph Model.Stats Model.Graph
  Model.SimplicialComplex Model.Draw Proofs.DrawProofs.
Import ListNotations.

Theorem C20_one_marker_per_node : forall p s,
  length (markers p s) = length (h_node s) /\
  forall i, (i < length (h_node s))%nat -> nth i (markers p s) (0, 0)%Q = pos_of p (nth i (keys (h_node s)) LNone).
Proof. exact markers_spec. Qed.
Print Assumptions C20_one_marker_per_node.

Theorem C20_lines_are_two_node_edges : forall p s seg,
  In seg (lines p s) <-> exists e ms, In (e, ms) (h_edge s) /\ length ms = 2%nat /\ seg = map (pos_of p) ms.
Proof. exact lines_spec. Qed.
Print Assumptions C20_lines_are_two_node_edges.

Theorem C20_polygons_are_larger_edges : forall p mo s poly,
  In poly (polygons p mo s) <->
  exists e ms, In (e, ms) (h_edge s) /\ (3 <= length ms <= S mo)%nat /\ poly = map (pos_of p) ms.
Proof. exact polygons_spec. Qed.
Print Assumptions C20_polygons_are_larger_edges.

Theorem C20_counts : forall p mo s,
  length (lines p s) = length (filter (fun kv => Nat.eqb (length (snd kv)) 2) (h_edge s)) /\
  length (polygons p mo s) = length (filter (fun kv => Nat.leb 3 (length (snd kv)) && Nat.leb (length (snd kv)) (S mo)) (h_edge s)).
Proof. intros p mo s. split; [apply lines_count|apply polygons_count]. Qed.
Print Assumptions C20_counts.

Theorem C20_simplicial_polygons_are_maximal_faces : forall p mo s poly,
  In poly (sc_polygons p mo s) <->
  exists ms, In ms (sc_faces mo s) /\ (3 <= length ms)%nat /\
             (forall f, In f (sc_faces mo s) -> ~ ((forall x, In x ms -> In x f) /\ (length ms < length f)%nat)) /\
             poly = map (pos_of p) ms.
Proof. exact sc_polygons_spec. Qed.
Print Assumptions C20_simplicial_polygons_are_maximal_faces.

Theorem C20_simplicial_lines : forall p mo s seg,
  In seg (sc_lines p mo s) <-> exists ms, In ms (sc_faces mo s) /\ length ms = 2%nat /\ seg = map (pos_of p) ms.
Proof. exact sc_lines_spec. Qed.
Print Assumptions C20_simplicial_lines.

Theorem C20_barycenter_is_mean : forall p ms, ms <> [] ->
  ((Z.of_nat (length ms) # 1) * fst (barycenter p ms) == qsum (map (fun n => fst (pos_of p n)) ms) /\
   (Z.of_nat (length ms) # 1) * snd (barycenter p ms) == qsum (map (fun n => snd (pos_of p n)) ms))%Q.
Proof. exact barycenter_is_mean. Qed.
Print Assumptions C20_barycenter_is_mean.

Theorem C20_barycenter_in_box : forall p ms lo hi, ms <> [] ->
  (forall n, In n ms -> lo <= fst (pos_of p n) /\ fst (pos_of p n) <= hi)%Q ->
  (lo <= fst (barycenter p ms) /\ fst (barycenter p ms) <= hi)%Q.
Proof. exact barycenter_in_box. Qed.
Print Assumptions C20_barycenter_in_box.
