(* C06: the comparison the model applies in filterby / filterby_attr is, for every mode, the one the source
   spells out (Gen/FilterModes.v is regenerated from xgi/core/views.py on every run). *)
From Coq Require Import String ZArith Bool Lia.
From XV Require Import Base.Label Base.Attr Model.Hypergraph Model.Stats Gen.FilterModes.
Open Scope Z_scope.

Definition mode_name (m : fmode) : string :=
  match m with
  | FEq => "eq" | FNeq => "neq" | FLt => "lt" | FGt => "gt" | FLeq => "leq" | FGeq => "geq" | FBetween _ => "between"
  end%string.
Definition mode_hi (m : fmode) : Z := match m with FBetween hi => hi | _ => 0 end.

Ltac cmp_cases :=
  repeat match goal with
         | |- context [Z.geb ?a ?b] => rewrite (Z.geb_leb a b)
         | |- context [Z.gtb ?a ?b] => rewrite (Z.gtb_ltb a b)
         end;
  repeat match goal with
         | |- context [Z.leb ?a ?b] => destruct (Z.leb_spec a b)
         | |- context [Z.ltb ?a ?b] => destruct (Z.ltb_spec a b)
         | |- context [Z.eqb ?a ?b] => destruct (Z.eqb_spec a b)
         end; cbn [negb andb orb]; try reflexivity; try lia.

Theorem fcmp_is_source m x v : src_filterby (mode_name m) x v (mode_hi m) = Some (fcmp m x v).
Proof. destruct m; vm_compute mode_name; cbn [src_filterby String.eqb Ascii.eqb Bool.eqb mode_hi fcmp]; f_equal; cmp_cases. Qed.

Theorem fcmp_attr_is_source m x v : src_filterby_attr (mode_name m) x v (mode_hi m) = Some (fcmp m x v).
Proof. destruct m; vm_compute mode_name; cbn [src_filterby_attr String.eqb Ascii.eqb Bool.eqb mode_hi fcmp andb]; f_equal; cmp_cases. Qed.

