(* C12: the multi-order Laplacian (sum over the orders d of L_d * w_d / <K_d>, also with
   rescale_per_node) has zero row sums and, for non-negative weights, a non-negative quadratic form. *)
From Coq Require Import String ZArith QArith List Bool Lia Lqa.
From XV Require Import Base.Label Base.LSet Base.ODict Base.Attr Base.Outcome Model.Hypergraph Model.Hodge Model.Matrix
     Proofs.HgViews Proofs.HgInv Proofs.HodgeProofs Proofs.MatrixProofs.
Import ListNotations.

Definition sumQ {A} (f : A -> Q) (l : list A) : Q := fold_right (fun x acc => f x + acc)%Q 0%Q l.
Definition qentry (M : qmat) (i j : nat) : Q := nth j (nth i M []) 0%Q.

Lemma sumQ_ext {A} (f g : A -> Q) l : (forall x, In x l -> f x == g x)%Q -> (sumQ f l == sumQ g l)%Q.
Proof.
  induction l as [|x l IH]; intro H; cbn [sumQ fold_right]; [reflexivity|].
  fold (sumQ f l). fold (sumQ g l). rewrite (H x (or_introl eq_refl)), IH; [reflexivity|].
  intros y Hy. apply H. right; exact Hy.
Qed.
Lemma sumQ_plus {A} (f g : A -> Q) l : (sumQ (fun x => f x + g x) l == sumQ f l + sumQ g l)%Q.
Proof.
  induction l as [|x l IH]; cbn [sumQ fold_right]; [ring|].
  fold (sumQ (fun x => (f x + g x)%Q) l). fold (sumQ f l). fold (sumQ g l). rewrite IH. ring.
Qed.
Lemma sumQ_scale {A} (c : Q) (f : A -> Q) l : (sumQ (fun x => c * f x) l == c * sumQ f l)%Q.
Proof.
  induction l as [|x l IH]; cbn [sumQ fold_right]; [ring|].
  fold (sumQ (fun x => (c * f x)%Q) l). fold (sumQ f l). rewrite IH. ring.
Qed.
Lemma sumQ_inject {A} (f : A -> Z) l : (sumQ (fun x => inject_Z (f x)) l == inject_Z (sumZ f l))%Q.
Proof.
  induction l as [|x l IH]; [reflexivity|]. cbn [sumQ fold_right]. fold (sumQ (fun x => inject_Z (f x)) l).
  rewrite IH, sumZ_cons, inject_Z_plus. reflexivity.
Qed.

Lemma frac_as_scale (a w nn : Z) (d : positive) : ((a * w * nn # d) == inject_Z a * (w * nn # d))%Q.
Proof. unfold Qeq, inject_Z, Qmult. cbn [Qnum Qden]. lia. Qed.

(* one step of the accumulation *)
Definition addscaled (acc : qmat) (L : list (list Z)) (w nn : Z) (den : positive) : qmat :=
  map (fun p => map (fun q => (fst q + (snd q * w * nn # den))%Q) (combine (fst p) (snd p))) (combine acc L).

Lemma addscaled_entry n acc L w nn den i j :
  length acc = n -> length L = n -> (forall r, In r acc -> length r = n) -> (forall r, In r L -> length r = n) ->
  (i < n)%nat -> (j < n)%nat ->
  qentry (addscaled acc L w nn den) i j = (qentry acc i j + (nth j (nth i L []) 0%Z * w * nn # den))%Q.
Proof.
  intros HA HL HrA HrL Hi Hj. unfold qentry, addscaled.
  rewrite (nth_map_lt _ _ _ ([], [])) by (rewrite combine_length, HA, HL; lia).
  rewrite combine_nth by congruence. cbn [fst snd].
  assert (LA : length (nth i acc []) = n) by (apply HrA; apply nth_In; rewrite HA; exact Hi).
  assert (LL : length (nth i L []) = n) by (apply HrL; apply nth_In; rewrite HL; exact Hi).
  rewrite (nth_map_lt _ _ _ (0%Q, 0%Z)) by (rewrite combine_length, LA, LL; lia).
  rewrite combine_nth by congruence. reflexivity.
Qed.

Lemma addscaled_shape n acc L w nn den :
  length acc = n -> length L = n -> (forall r, In r acc -> length r = n) -> (forall r, In r L -> length r = n) ->
  length (addscaled acc L w nn den) = n /\ forall r, In r (addscaled acc L w nn den) -> length r = n.
Proof.
  intros HA HL HrA HrL. unfold addscaled. split.
  - rewrite map_length, combine_length, HA, HL. lia.
  - intros r Hr. apply in_map_iff in Hr. destruct Hr as ([ra rl] & <- & Hin). cbn [fst snd].
    rewrite map_length, combine_length. apply in_combine_l in Hin as H1. apply in_combine_r in Hin as H2.
    rewrite (HrA ra H1), (HrL rl H2). lia.
Qed.

(* the invariant of the accumulation: an n x n matrix with zero row sums and non-negative form *)
Definition rowsum (M : qmat) n i : Q := sumQ (fun j => qentry M i j) (seq 0 n).
Definition qformQ (M : qmat) n (x : nat -> Z) : Q :=
  sumQ (fun i => sumQ (fun j => (inject_Z (x i) * qentry M i j * inject_Z (x j))%Q) (seq 0 n)) (seq 0 n).
Definition zrowsum (L : list (list Z)) n i : Z := sumZ (fun j => nth j (nth i L []) 0%Z) (seq 0 n).
Definition zform (L : list (list Z)) n (x : nat -> Z) : Z :=
  sumZ (fun i => sumZ (fun j => (x i * nth j (nth i L []) 0 * x j)%Z) (seq 0 n)) (seq 0 n).

Record Good (n : nat) (x : nat -> Z) (M : qmat) : Prop := {
  g_len : length M = n;
  g_rows : forall r, In r M -> length r = n;
  g_sum : forall i, (i < n)%nat -> (rowsum M n i == 0)%Q;
  g_psd : (0 <= qformQ M n x)%Q }.

Lemma Good_step n x acc L w nn den :
  Good n x acc -> length L = n -> (forall r, In r L -> length r = n) ->
  (forall i, (i < n)%nat -> zrowsum L n i = 0%Z) -> (0 <= zform L n x)%Z -> (0 <= w)%Z -> (0 <= nn)%Z ->
  Good n x (addscaled acc L w nn den).
Proof.
  intros [HA HrA Hs Hp] HL HrL Hz Hf Hw Hnn. assert (Hc : (0 <= w * nn)%Z) by nia.
  destruct (addscaled_shape n acc L w nn den HA HL HrA HrL) as [S1 S2].
  constructor; [exact S1|exact S2| |].
  - intros i Hi. unfold rowsum.
    rewrite (sumQ_ext _ (fun j => qentry acc i j + inject_Z (nth j (nth i L []) 0%Z) * (w * nn # den))%Q).
    2:{ intros j Hj. apply in_seq in Hj. rewrite (addscaled_entry n) by (assumption || lia). rewrite frac_as_scale. reflexivity. }
    rewrite sumQ_plus. fold (rowsum acc n i). rewrite (Hs i Hi).
    rewrite (sumQ_ext _ (fun j => (w * nn # den) * inject_Z (nth j (nth i L []) 0%Z))%Q) by (intros; ring).
    rewrite sumQ_scale, sumQ_inject. fold (zrowsum L n i). rewrite (Hz i Hi). ring.
  - unfold qformQ.
    rewrite (sumQ_ext _ (fun i => sumQ (fun j => inject_Z (x i) * qentry acc i j * inject_Z (x j))%Q (seq 0 n)
                                  + (w * nn # den) * inject_Z (sumZ (fun j => (x i * nth j (nth i L []) 0 * x j)%Z) (seq 0 n)))%Q).
    2:{ intros i Hi. apply in_seq in Hi.
        rewrite (sumQ_ext _ (fun j => inject_Z (x i) * qentry acc i j * inject_Z (x j)
                                      + (w * nn # den) * inject_Z (x i * nth j (nth i L []) 0%Z * x j)%Z)%Q).
        - rewrite sumQ_plus, sumQ_scale, sumQ_inject. reflexivity.
        - intros j Hj. apply in_seq in Hj. rewrite (addscaled_entry n) by (assumption || lia). rewrite frac_as_scale.
          rewrite !inject_Z_mult. ring. }
    rewrite sumQ_plus. fold (qformQ acc n x). rewrite sumQ_scale, sumQ_inject. fold (zform L n x).
    assert (0 <= (w * nn # den) * inject_Z (zform L n x))%Q.
    { apply Qmult_le_0_compat; [unfold Qle; cbn; lia|]. rewrite <- (Zle_Qle 0). exact Hf. }
    lra.
Qed.

Lemma Good_zero n x : Good n x (repeat (repeat 0%Q n) n).
Proof.
  assert (E : forall i j, (i < n)%nat -> (j < n)%nat -> qentry (repeat (repeat 0%Q n) n) i j = 0%Q).
  { intros i j Hi Hj. unfold qentry. rewrite (nth_repeat' (repeat 0%Q n) n i []) by exact Hi. apply nth_repeat'. exact Hj. }
  constructor.
  - apply repeat_length.
  - intros r Hr. apply repeat_spec in Hr. subst r. apply repeat_length.
  - intros i Hi. unfold rowsum. rewrite (sumQ_ext _ (fun _ => 0%Q)).
    + clear. induction (seq 0 n) as [|a l IH]; [reflexivity|]. cbn [sumQ fold_right]. fold (sumQ (fun _ : nat => 0%Q) l). rewrite IH. ring.
    + intros j Hj. apply in_seq in Hj. rewrite E by lia. reflexivity.
  - unfold qformQ. rewrite (sumQ_ext _ (fun _ => 0%Q)).
    + assert (Z0 : forall l : list nat, (sumQ (fun _ => 0%Q) l == 0)%Q).
      { induction l as [|a l IH]; [reflexivity|]. cbn [sumQ fold_right]. fold (sumQ (fun _ : nat => 0%Q) l). rewrite IH. ring. }
      rewrite Z0. lra.
    + intros i Hi. apply in_seq in Hi. rewrite (sumQ_ext _ (fun _ => 0%Q)).
      * induction (seq 0 n) as [|a l IH]; [reflexivity|]. cbn [sumQ fold_right]. fold (sumQ (fun _ : nat => 0%Q) l). rewrite IH. ring.
      * intros j Hj. apply in_seq in Hj. rewrite E by lia. ring.
Qed.

(* ---------- the model's multiorder_laplacian ---------- *)
Section Multi.
  Variable s : hg.
  Hypothesis WF : Wellformed s.
  Variable y : lbl -> Z.
  Let ns := keys (h_node s).
  Let n := length (h_node s).
  Let x (i : nat) : Z := y (nth i ns LNone).

  Lemma n_keys : length ns = n. Proof. apply length_keys. Qed.

  Lemma laplacian_length d : length (laplacian s d) = n.
  Proof.
    unfold laplacian, n. destruct (h_node s) as [|kv l] eqn:E; [reflexivity|]. rewrite <- E.
    pose proof (adjacency_shape s (Some d) 1 true) as [HA _]. pose proof (degree_length s (Some d)) as HK.
    rewrite map_length, combine_length, length_diag, HK, HA. lia.
  Qed.

  Lemma laplacian_rows d r : In r (laplacian s d) -> length r = n.
  Proof.
    intro Hr. destruct (In_nth _ _ [] Hr) as (i & Hi & <-). rewrite laplacian_length in Hi.
    apply laplacian_row_length. exact Hi.
  Qed.

  Lemma laplacian_zrowsum d i : (i < n)%nat -> zrowsum (laplacian s d) n i = 0%Z.
  Proof.
    intro Hi. unfold zrowsum. pose proof (laplacian_row_length s d i Hi) as Lr. fold n in Lr.
    rewrite <- Lr. rewrite (sumZ_nth (fun v => v) (nth i (laplacian s d) []) 0%Z).
    rewrite <- fold_add_sumZ. apply laplacian_row_sum; [exact WF|exact Hi].
  Qed.

  Lemma laplacian_zform d : (0 <= zform (laplacian s d) n x)%Z.
  Proof.
    pose proof (laplacian_psd s d y WF) as H. unfold qform in H. fold ns in H. rewrite n_keys in H.
    unfold zform. erewrite sumZ_ext; [exact H|]. intros i _. cbv beta.
    rewrite <- sumZ_scale. apply sumZ_ext. intros j _. unfold x. ring.
  Qed.

  Definition mstep (rescale : bool) (acc : qmat) (dw : nat * Z) : qmat :=
    let '(d, w) := dw in
    let sumK := fold_left Z.add (degree_vec s (Some d)) 0%Z in
    if (sumK =? 0)%Z then acc
    else addscaled acc (laplacian s d) w (Z.of_nat n)
                   (if rescale then Z.to_pos (sumK * Z.of_nat d) else Z.to_pos sumK).

  Lemma multiorder_as_fold orders weights rescale :
    multiorder_laplacian s orders weights rescale =
    fold_left (mstep rescale) (combine orders weights) (repeat (repeat 0%Q n) n).
  Proof. reflexivity. Qed.

  Lemma mstep_Good rescale acc dw : Good n x acc -> (0 <= snd dw)%Z -> Good n x (mstep rescale acc dw).
  Proof.
    intros G Hw. destruct dw as [d w]. cbn [snd] in Hw. unfold mstep.
    destruct (fold_left Z.add (degree_vec s (Some d)) 0%Z =? 0)%Z; [exact G|].
    apply Good_step; [exact G|apply laplacian_length|apply laplacian_rows|apply laplacian_zrowsum|apply laplacian_zform|exact Hw|lia].
  Qed.

  (* zero row sums and a non-negative quadratic form, for every list of orders and non-negative weights *)
  Theorem multiorder_Good orders weights rescale :
    (forall w, In w weights -> (0 <= w)%Z) -> Good n x (multiorder_laplacian s orders weights rescale).
  Proof.
    intro Hw. rewrite multiorder_as_fold.
    assert (G : forall l acc, Good n x acc -> (forall dw, In dw l -> (0 <= snd dw)%Z) -> Good n x (fold_left (mstep rescale) l acc)).
    { induction l as [|dw l IH]; intros acc Ga Hl; [exact Ga|]. cbn [fold_left]. apply IH.
      - apply mstep_Good; [exact Ga|apply Hl; left; reflexivity].
      - intros dw' H'. apply Hl. right; exact H'. }
    apply G; [apply Good_zero|]. intros [d w] Hin. cbn [snd]. apply Hw. apply (in_combine_r _ _ _ _ Hin).
  Qed.
End Multi.
