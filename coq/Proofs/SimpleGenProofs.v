(* C16: star_clique and ring_lattice deliver the structure their parameters promise. *)
From Coq Require Import List Arith Lia Bool.
From XV Require Import Base.Label Base.LSet Model.Decoders Model.Simple Proofs.Combs Proofs.DecoderProofs Proofs.CompleteProofs.
Import ListNotations.

(* star_clique: every edge is a duplicate-free set of nodes below n_star + n_clique of 2 .. d_max + 1 nodes (the star legs
   and the link have 2); the star has its n_star - 1 legs at the centre 0 and the link to the first clique node; the clique
   part holds every set of 2 .. d_max + 1 clique nodes *)
Theorem star_clique_spec ns nc dmax : 1 <= ns -> 1 <= nc ->
  (forall e, In e (star_clique_edges ns nc dmax) ->
     NoDup e /\ (forall x, In x e -> x < ns + nc) /\ (length e = 2 \/ 2 <= length e <= dmax + 1)) /\
  (forall i, 1 <= i < ns -> In [0; i] (star_clique_edges ns nc dmax)) /\
  In [0; ns] (star_clique_edges ns nc dmax) /\
  (forall f, NoDup f -> (forall x, In x f -> ns <= x < ns + nc) -> 2 <= length f <= dmax + 1 ->
             exists c, In c (star_clique_edges ns nc dmax) /\ sameset nat c f).
Proof.
  intros Hs Hc. unfold star_clique_edges. split; [|split; [|split]].
  - intros e He. apply in_app_iff in He. destruct He as [He|He].
    + apply in_map_iff in He. destruct He as (i & <- & Hi). apply in_seq in Hi. split; [|split].
      * constructor; [intros [E|[]]; lia|constructor; [intros []|constructor]].
      * intros x [<-|[<-|[]]]; lia.
      * left. reflexivity.
    + apply in_app_iff in He. destruct He as [[<-|[]]|He].
      * split; [|split].
        -- constructor; [intros [E|[]]; lia|constructor; [intros []|constructor]].
        -- intros x [<-|[<-|[]]]; lia.
        -- left. reflexivity.
      * apply in_flat_map in He. destruct He as (d & Hd & He). apply in_seq in Hd.
        destruct (combs_sound _ _ _ He) as [L S]. split; [apply (combs_NoDup _ (seq_NoDup nc ns) _ _ He)|].
        split; [intros x Hx; apply S in Hx; apply in_seq in Hx; lia|right; lia].
  - intros i Hi. apply in_app_iff. left. apply in_map_iff. exists i. split; [reflexivity|apply in_seq; lia].
  - apply in_app_iff. right. apply in_app_iff. left. left. reflexivity.
  - intros f ND Hf Hl. destruct (combs_complete_gen nat Nat.eq_dec (seq ns nc) f ND) as (c & Hcc & Sc).
    { intros x Hx. apply in_seq. specialize (Hf x Hx). lia. }
    exists c. split; [|exact Sc]. apply in_app_iff. right. apply in_app_iff. right.
    apply in_flat_map. exists (length f - 1). split; [apply in_seq; lia|]. replace (length f - 1 + 1) with (length f) by lia. exact Hcc.
Qed.

(* ring_lattice: n * (k/2) edges, each starting at its node with d - 1 further members, all below n *)
Theorem ring_lattice_spec n d k l : 0 < n ->
  length (ring_lattice_edges n d k l) = n * (k / 2) /\
  (forall e, In e (ring_lattice_edges n d k l) -> length e = S (d - 1) /\ forall x, In x e -> x < n).
Proof.
  intro Hn. unfold ring_lattice_edges. split.
  - assert (G : forall l0, length (flat_map (fun node => map (fun start => node :: map (fun i => (start + l + i) mod n) (seq 0 (d - 1))) (seq (node + 1) (k / 2))) l0) = length l0 * (k / 2)).
    { induction l0 as [|a l0 IH]; [reflexivity|]. cbn [flat_map length]. rewrite app_length, map_length, seq_length, IH. lia. }
    rewrite G, seq_length. reflexivity.
  - intros e He. apply in_flat_map in He. destruct He as (node & Hnode & He). apply in_seq in Hnode.
    apply in_map_iff in He. destruct He as (start & <- & _). split; [cbn [length]; rewrite map_length, seq_length; reflexivity|].
    intros x [<-|Hx]; [lia|]. apply in_map_iff in Hx. destruct Hx as (i & <- & _). apply Nat.mod_upper_bound. lia.
Qed.
