"""C14 - graph-reducible algorithms agree with an independent graph library."""
import itertools, math, os, random, warnings
from fractions import Fraction
from .. import common as C, histcheck as HC, gallina as G, hgsim
from . import base

PROP = "C14"
IMPORTS = "Base.Label Base.Attr Base.Outcome Model.Hypergraph Model.Stats Model.Graph"


def expansion(H):
    import networkx as nx
    g = nx.Graph(); g.add_nodes_from(H.nodes)
    for e in H.edges:
        for a, b in itertools.combinations(list(H.edges.members(e)), 2):
            g.add_edge(a, b)
    return g


def oracle(H):
    """every C14 quantity of the implementation against networkx on graphs built directly from members()"""
    import networkx as nx, xgi
    nodes = list(H.nodes); edges = list(H.edges)
    mem = {e: set(H.edges.members(e)) for e in edges}
    if not nodes:
        return None
    g = expansion(H)
    B = nx.Graph(); B.add_nodes_from(("n", n) for n in nodes); B.add_nodes_from(("e", e) for e in edges)
    for e in edges:
        for n in mem[e]:
            B.add_edge(("n", n), ("e", e))
    want = [frozenset(x[1] for x in c if x[0] == "n") for c in nx.connected_components(B)]
    want = set(c for c in want if c)
    got = [frozenset(c) for c in xgi.connected_components(H)]
    if len(got) != len(set(got)) or set(got) != want:
        return f"connected_components = {[sorted(c, key=repr) for c in got]} differ from the components of the bipartite graph"
    if sum(len(c) for c in got) != len(nodes) or set().union(*got) != set(nodes):
        return "connected_components do not partition the node set"
    if xgi.is_connected(H) != (len(want) == 1):
        return "is_connected is inconsistent with the components"
    if xgi.number_connected_components(H) != len(want):
        return "number_connected_components is inconsistent with the components"
    lc = xgi.largest_connected_component(H)
    if frozenset(lc) not in want or len(lc) != max(len(c) for c in want):
        return "largest_connected_component is not a largest component"
    for n in nodes:
        if frozenset(xgi.node_connected_component(H, n)) != next(c for c in want if n in c):
            return f"node_connected_component({n!r}) is not the component of the node"
    LH = xgi.largest_connected_hypergraph(H)
    if set(LH.nodes) != set(lc) or {e: set(LH.edges.members(e)) for e in LH.edges} != {e: m for e, m in mem.items() if m <= set(lc)}:
        return "largest_connected_hypergraph is not the subhypergraph induced by the largest component"
    D = dict(xgi.shortest_path_length(H))
    if list(D) != nodes:
        return "shortest_path_length does not yield one entry per node"
    nd = dict(nx.all_pairs_shortest_path_length(g))
    for a in nodes:
        if set(D[a]) != set(nodes):
            return f"single_source_shortest_path_length({a!r}) keys"
        for b in nodes:
            w = nd[a].get(b, math.inf)
            if D[a][b] != w:
                return f"distance({a!r}, {b!r}) = {D[a][b]}, breadth-first search in the clique expansion gives {w}"
            if D[a][b] != D[b][a]:
                return f"distance not symmetric at ({a!r}, {b!r})"
    cc = xgi.clustering_coefficient(H); nc = nx.clustering(g)
    for n in nodes:
        if abs(cc[n] - nc[n]) > 1e-9:
            return f"clustering_coefficient[{n!r}] = {cc[n]}, networkx on the projection gives {nc[n]}"
    P = xgi.to_graph(H)
    if set(P.nodes) != set(nodes) or {frozenset(e) for e in P.edges} != {frozenset(e) for e in g.edges}:
        return "to_graph differs from the clique expansion"
    for s in (1, 2, 3):
        for w in (None, "absolute", "normalized"):
            L = xgi.to_line_graph(H, s=s, weights=w)
            if set(L.nodes) != set(edges):
                return "to_line_graph vertices"
            for e in edges:
                if set(L.nodes[e]["original_hyperedge"]) != mem[e]:
                    return "to_line_graph original_hyperedge attribute"
            wl = {}
            for a, b in itertools.combinations(edges, 2):
                k = len(mem[a] & mem[b])
                if k >= s:
                    wl[frozenset((a, b))] = None if w is None else (k if w == "absolute" else k / min(len(mem[a]), len(mem[b])))
            gl = {frozenset((a, b)): d.get("weight") for a, b, d in L.edges(data=True)}
            if set(gl) != set(wl):
                return f"to_line_graph(s={s}) links"
            for k_ in wl:
                if (wl[k_] is None) != (gl[k_] is None) or (wl[k_] is not None and abs(wl[k_] - gl[k_]) > 1e-12):
                    return f"to_line_graph(s={s}, weights={w}) weight"
    BG, nd_, ed_ = xgi.to_bipartite_graph(H, index=True)
    if [nd_[i] for i in range(len(nodes))] != nodes or [ed_[len(nodes) + j] for j in range(len(edges))] != edges:
        return "to_bipartite_graph index maps"
    if set(BG.nodes) != set(range(len(nodes) + len(edges))):
        return "to_bipartite_graph vertices"
    if any(BG.nodes[i]["bipartite"] != (0 if i < len(nodes) else 1) for i in BG.nodes):
        return "to_bipartite_graph bipartite attribute"
    wl = {frozenset((nodes.index(n), len(nodes) + j)) for j, e in enumerate(edges) for n in mem[e]}
    if {frozenset(e) for e in BG.edges} != wl:
        return "to_bipartite_graph links"
    if all(mem[e] for e in edges):
        allw = {(a, b) for a in edges for b in edges if mem[b] < mem[a]}
        d = xgi.to_encapsulation_dag(H, "all")
        if set(d.nodes) != set(edges) or set(d.edges) != allw:
            return "to_encapsulation_dag(all) differs from the strict-subset relation"
        d = xgi.to_encapsulation_dag(H, "immediate")
        if set(d.nodes) != set(edges) or set(d.edges) != {(a, b) for a, b in allw if len(mem[a]) == len(mem[b]) + 1}:
            return "to_encapsulation_dag(immediate) differs from the strict-subset relation between adjacent sizes"
        d = xgi.to_encapsulation_dag(H, "empirical")
        emp = set()
        for a, b in allw:
            if len(mem[a]) == min(len(mem[p]) for p, q in allw if q == b) and len(mem[b]) == max(len(mem[q]) for p, q in allw if p == a):
                emp.add((a, b))
        if set(d.nodes) != set(edges) or set(d.edges) != emp:
            return "to_encapsulation_dag(empirical) differs from the smallest-superset / largest-subset relation"
        if not nx.is_directed_acyclic_graph(d):
            return "to_encapsulation_dag is not acyclic"
    return None


def big_history(rng):
    """sparser, larger networks (chains, several components, nested edges) than the generic histories"""
    style = rng.choice(["int", "str", "mixed"])
    n = rng.randint(4, 11)
    if style == "int":
        labels = rng.sample(range(0, 30), n)
    elif style == "str":
        labels = rng.sample("abcdefghijklmnop", n)
    else:
        labels = rng.sample([1, 2, 3, 4, 5, 6, "a", "b", "c", "d", "e", 10, 11], n)
    ops = []
    if rng.random() < 0.6:
        ops.append(("add_nodes_from", [(x, None) for x in rng.sample(labels, rng.randint(1, n))], {}))
    edges = []
    k = rng.randint(2, 9)
    for _ in range(k):
        r = rng.random()
        if r < 0.45 and len(labels) > 2:    # chain link between label neighbours
            i = rng.randrange(len(labels) - 1)
            ms = labels[i:i + rng.randint(2, 3)]
        elif r < 0.65 and edges:            # nested edge
            big = rng.choice(edges)
            ms = rng.sample(big, rng.randint(1, len(big))) if big else []
        else:
            ms = rng.sample(labels, rng.randint(1, min(4, n)))
        edges.append(list(ms))
    first = edges[0]
    if first and isinstance(first[0], (str, tuple)) and not all(isinstance(x, str) for x in first):
        edges[0] = [x for x in first if isinstance(x, str)]
    ops.append(("add_edges_from", 1, edges, {}))
    return ops


def queries(rng, H):
    import xgi
    nodes = list(H.nodes)
    qs = []
    def lset(xs):
        return G.lbls(list(xs))
    qs.append(("GComponents", "(RSets " + G.glist([lset(c) for c in xgi.connected_components(H)]) + ")"))
    if nodes:
        qs.append(("GIsConnected", f"(RBool (Some {G.gbool(xgi.is_connected(H))}))"))
        qs.append(("GLargest", f"(RSet {lset(xgi.largest_connected_component(H))})"))
        for v in rng.sample(nodes, min(2, len(nodes))):
            qs.append((f"(GNodeComponent {G.lbl(v)})", f"(RSet {lset(xgi.node_connected_component(H, v))})"))
        for v in rng.sample(nodes, min(3, len(nodes))):
            d = xgi.single_source_shortest_path_length(H, v)
            row = G.glist([G.gpair(G.lbl(b), "None" if d[b] == math.inf else f"(Some {G.gZ(int(d[b]))})") for b in nodes])
            qs.append((f"(GDistances {G.lbl(v)})", f"(RDist {row})"))
        cc = xgi.clustering_coefficient(H)
        row = []
        for n in nodes:
            f = Fraction(float(cc[n])).limit_denominator(10 ** 6)
            row.append(G.gpair(G.lbl(n), G.gpair(G.gZ(f.numerator), G.gZ(f.denominator))))
        qs.append(("GClustering", f"(RQ {G.glist(row)})"))
        P = xgi.to_graph(H)
        links = []
        for a, b in P.edges:
            links.append(G.gpair(G.lbl(a), G.lbl(b))); links.append(G.gpair(G.lbl(b), G.lbl(a)))
        qs.append(("GProjection", f"(RLinks {G.glist(links)})"))
    sv = rng.choice([1, 1, 2, 3])
    L = xgi.to_line_graph(H, s=sv, weights="normalized")
    La = xgi.to_line_graph(H, s=sv, weights="absolute")
    order = {e: i for i, e in enumerate(H.edges)}
    items = []
    for a, b, d in L.edges(data=True):
        if order[a] > order[b]:
            a, b = b, a
        k = La[a][b]["weight"]
        f = Fraction(float(d["weight"])).limit_denominator(10 ** 6)
        if Fraction(k, 1) * f.denominator != f.numerator * Fraction(k, 1) / f * f.denominator:
            pass
        # (|intersection|, min size) recovered from the absolute and the normalised weight
        mn = Fraction(k) / f
        items.append(G.gpair(G.gpair(G.lbl(a), G.lbl(b)), G.gpair(G.gZ(k), G.gZ(int(mn)))))
    qs.append((f"(GLine {G.gZ(sv)})", f"(RLine {G.glist(items)})"))
    BG = xgi.to_bipartite_graph(H)
    n = len(nodes)
    items = []
    for a, b in BG.edges:
        if a > b:
            a, b = b, a
        items.append(G.gpair(G.gnat(a), G.gnat(b)))
    qs.append(("GBipartite", f"(RNat {G.glist(items)})"))
    for t, name in (("all", "StAll"), ("immediate", "StImmediate"), ("empirical", "StEmpirical")):
        d = xgi.to_encapsulation_dag(H, t)
        qs.append((f"(GDag {name})", "(RLinks " + G.glist([G.gpair(G.lbl(a), G.lbl(b)) for a, b in d.edges]) + ")"))
    return qs


def run(v):
    proof = base.proof_stage(v, PROP)
    thorough = C.tier() == "thorough"
    rng = random.Random(C.seed() * 131 + 14)
    recs = HC.gen_histories(hgsim, 1200 if thorough else 150, 10, C.seed() + 140, malformed_share=0.0)
    for _ in range(2500 if thorough else 250):
        recs.append(hgsim.run_history(big_history(rng)))
    failures, reports, errors, terms = [], [], [], []
    nq = 0
    sizes, ncomp = [], []
    for i, r in enumerate(recs):
        H = r["net"]
        if r["obs"] and r["obs"][-1].get("broken"):
            continue
        sizes.append(H.num_nodes)
        try:
            with warnings.catch_warnings():
                warnings.simplefilter("ignore")
                d = oracle(H)
        except Exception as e:  # noqa: BLE001
            d = f"raised {type(e).__name__}: {e}"
        if d:
            failures.append((f"{PROP}:{d.split('(')[0].split('=')[0].strip()}", {"what": d, "history": HC.jsonable(r["ops"])}))
            continue
        try:
            with warnings.catch_warnings():
                warnings.simplefilter("ignore")
                qs = queries(rng, H)
            nq += len(qs)
            opsg = G.glist([hgsim.op_to_gallina(op, ex) for op, ex in zip(r["ops"], r["extras"])])
            terms.append((i, G.gpair(opsg, G.glist([G.gpair(q, a) for q, a in qs]))))
        except G.Unsupported:
            pass
        except Exception as e:  # noqa: BLE001
            failures.append((f"{PROP}:query-raised", {"what": f"raised {type(e).__name__}: {e}", "history": HC.jsonable(r["ops"])}))
    cdir = C.cases_dir(PROP)
    files = {}
    for k in range(0, len(terms), 50):
        chunk = terms[k:k + 50]
        path = os.path.join(cdir, f"cases_{PROP}_{k // 50}.v")
        with open(path, "w") as f:
            f.write("From Coq Require Import String ZArith List Bool.\nFrom XV Require Import " + IMPORTS +
                    ".\nImport ListNotations.\nOpen Scope Z_scope.\nDefinition cases := [\n" + ";\n".join(t for _, t in chunk) +
                    "\n].\nEval vm_compute in (graph_bad cases).\n")
        files[path] = [i for i, _ in chunk]
    res = C.run_coq_files(files.keys())
    for path, idxs in files.items():
        rc, out = res[path]
        pairs = C.parse_pairs(out) if rc == 0 else None
        if pairs is None:
            errors.append({"file": os.path.basename(path), "rc": rc, "output": out[-1500:]})
            continue
        for ci, qi in pairs[:4]:
            reports.append({"correspondence": "Model.Graph.graph_bad", "query_index": qi,
                            "history": HC.jsonable(recs[idxs[ci]]["ops"])})
    C.clean_cases(cdir)
    st = HC.stats(recs)
    import collections
    v.coverage.update({
        "evaluations": nq,
        "distinct_nontrivial": st.pop("distinct_nontrivial"),
        "rule": "hypergraphs built by generated histories plus sparser 4-11 node networks (chains, several components, "
                "nested edges, isolated nodes, int/str/mixed labels); components, is_connected, largest, node component, "
                "distances, clustering, projection, s-line graph with weights, bipartite graph, the three encapsulation "
                "dags compared with the model; oracle: the same plus largest_connected_hypergraph against networkx on "
                "graphs built from members(); non-trivial = history changes the tables",
        "samples": [HC.jsonable(recs[-1]["ops"][:2])],
        "oracle_evaluations": len(recs),
        "node_count_histogram": dict(sorted(collections.Counter(sizes).items())),
        "exhaustive": False,
        **st,
    })
    base.conclude(v, proof, reports, failures, errors)


def replay(payload):
    d = payload.get("detail", payload)
    ops = HC.unjson(d["history"])
    r = hgsim.run_history(ops)
    dsc = oracle(r["net"])
    print("oracle:", dsc or "holds")
    return 1 if dsc else 0
