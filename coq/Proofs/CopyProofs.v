(* C07: the duplicates are well-formed networks that keep assigning fresh ids. *)
From Coq Require Import String ZArith List Bool Lia.
From XV Require Import Base.Label Base.LSet Base.ODict Base.Attr Base.Outcome Model.Hypergraph
  Model.DiHypergraph Model.SimplicialComplex Model.Copy
  Proofs.HgViews Proofs.HgInv Proofs.HgInvOps Proofs.HgStep Proofs.HgKeys Proofs.DiInv Proofs.ScInv.
Import ListNotations.
Open Scope Z_scope.

(* a bulk addition in format 4 creates no edge id outside the listed ones *)
Definition KeysWithin (ids : list lbl) (s0 s : hg) : Prop :=
  Inv s /\ forall e, In e (ekeys s) -> In e (ekeys s0) \/ In e ids.

Lemma loop_prop {A} (P : hg -> Prop) (f : hg -> A -> res) l :
  (forall s x, In x l -> P s -> P (st_of (f s x))) -> forall s, P s -> P (st_of (loop f l s)).
Proof.
  induction l as [|x xs IH]; intros Hf s Hs; simpl; [exact Hs|].
  pose proof (Hf s x (or_introl eq_refl) Hs) as H1. destruct (f s x) as [[s' o] w]. unfold st_of in H1; simpl in H1.
  destruct o; [|exact H1].
  assert (Hf' : forall s x, In x xs -> P s -> P (st_of (f s x))) by (intros; apply Hf; [right|]; assumption).
  specialize (IH Hf' s' H1). destruct (loop f xs s') as [[s'' o'] w']. exact IH.
Qed.

Lemma bulk4_keys_within L a s0 :
  Inv s0 -> KeysWithin (map (fun it => snd (fst it)) L) s0 (st_of (add_edges_from (EB4 L) a s0)).
Proof.
  intro I0. simpl. apply (loop_prop (KeysWithin (map (fun it => snd (fst it)) L) s0)).
  - intros s [[m i] ea] Hin (I & K). unfold bulk_item.
    destruct (has i (h_edge s)) eqn:E; [split; assumption|].
    destruct (existsb is_none (mkset m)); [split; assumption|]. destruct (is_none i); [split; assumption|].
    rewrite st_of_ok. split; [apply Inv_insert_explicit; [apply has_false_nin; exact E|exact I]|].
    intros e He. destruct (bump_uid_keys i (insert_edge i m (aupdate a ea) s)) as [_ B]. rewrite B in He.
    destruct I as (Hw & Hk & Hv & _).
    destruct (insert_edge_spec i m (aupdate a ea) s (has_false_nin i s E) Hw Hk Hv) as (_ & _ & _ & Ek & _).
    rewrite Ek in He. apply in_app_iff in He. destruct He as [He|[<-|[]]]; [apply K; exact He|].
    right. apply in_map_iff. exists (m, i, ea). split; [reflexivity|exact Hin].
  - split; [exact I0|]. intros e He. left; exact He.
Qed.

Lemma add_nodes_from_no_edges items a s : ekeys (st_of (add_nodes_from items a s)) = ekeys s.
Proof. unfold ekeys. rewrite add_nodes_from_edges. reflexivity. Qed.

Lemma edge_items_ids s : map (fun it => snd (fst it)) (edge_items s) = keys (h_edge s).
Proof. unfold edge_items. rewrite map_map. simpl. apply map_id. Qed.

(* copy() and Hypergraph(H): the duplicate satisfies the invariant of C01/C04 - in particular its
   counter is above every integer-like id, although copy() takes the counter from the source *)
Definition Within (s t : hg) : Prop := Inv t /\ forall e, In e (ekeys t) -> In e (ekeys s).

Theorem hg_dup_Inv route s : Inv s -> Inv (st_of (hg_dup route s)).
Proof.
  intros (_ & _ & _ & U).
  enough (H : Within s (st_of (hg_dup route s))) by (destruct H; assumption).
  unfold hg_dup. apply (bind_inv (Within s)).
  - split; [apply Inv_add_nodes_from; apply Inv_empty|].
    intros e He. rewrite add_nodes_from_no_edges in He. destruct He.
  - intros s1 (I1 & K1). apply (bind_inv (Within s)).
    + pose proof (bulk4_keys_within (edge_items s) [] s1 I1) as (I2 & K2).
      rewrite edge_items_ids in K2. split; [exact I2|].
      intros e He. destruct (K2 e He) as [H|H]; [apply K1; exact H|exact H].
    + intros s2 (I2 & K2). rewrite st_of_ok. destruct route.
      * split; [|exact K2]. destruct I2 as (W & K & V & _).
        split; [exact W|]. split; [exact K|]. split; [exact V|].
        intros e z He Hz. simpl. apply (U e z); [apply K2; exact He|exact Hz].
      * split; [apply Inv_with_net; exact I2|exact K2].
Qed.

Theorem hg_dup_fresh route s : Inv s ->
  ~ In (LInt (h_uid (st_of (hg_dup route s)))) (ekeys (st_of (hg_dup route s))).
Proof. intro I. apply auto_id_fresh. apply hg_dup_Inv. exact I. Qed.
