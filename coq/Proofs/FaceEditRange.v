(* C15: the normalised mean face edit distance is an average of shares, hence in [0, 1].
   Needs the binomial row sum: the normaliser 2^n - 2 - sum_{1 <= i < k} C(n, i) is the number of
   subsets of size k .. n-1, of which the missing sub-faces are some. *)
From Coq Require Import String ZArith QArith List Bool Lia Lqa.
From XV Require Import Base.Label Base.LSet Base.ODict Base.Attr Base.Outcome Model.Hypergraph Model.Stats Model.Hodge
  Model.Simpliciality Model.Decoders Proofs.Combs Proofs.DecoderProofs Proofs.EditDistance.
Import ListNotations.
Open Scope Z_scope.

Fixpoint zsum (l : list nat) (g : nat -> Z) : Z := match l with [] => 0 | i :: r => g i + zsum r g end.

Lemma fold_add l g : forall z, fold_left (fun acc i => acc + g i) l z = z + zsum l g.
Proof. induction l as [|i l IH]; intro z; cbn [fold_left zsum]; [lia|]. rewrite IH. lia. Qed.

Lemma zsum_app l1 l2 g : zsum (l1 ++ l2) g = zsum l1 g + zsum l2 g.
Proof. induction l1 as [|i l1 IH]; cbn [app zsum]; [lia|]. rewrite IH. lia. Qed.

Lemma zsum_ext l g h : (forall i, In i l -> g i = h i) -> zsum l g = zsum l h.
Proof.
  induction l as [|i l IH]; intro H; cbn [zsum]; [reflexivity|]. rewrite (H i (or_introl eq_refl)), IH; [reflexivity|].
  intros j Hj. apply H. right. exact Hj.
Qed.

Lemma zsum_shift a len g : zsum (seq (S a) len) g = zsum (seq a len) (fun i => g (S i)).
Proof. revert a. induction len as [|len IH]; intro a; cbn [seq zsum]; [reflexivity|]. rewrite IH. reflexivity. Qed.

Lemma zsum_plus l g h : zsum l (fun i => g i + h i) = zsum l g + zsum l h.
Proof. induction l as [|i l IH]; cbn [zsum]; [lia|]. rewrite IH. lia. Qed.

Lemma binomZ_binom n : forall r, binomZ n r = Z.of_nat (binom n r).
Proof.
  induction n as [|n IH]; intro r; destruct r as [|r]; cbn [binomZ binom]; try reflexivity.
  rewrite !IH. lia.
Qed.

Lemma binom_gt n : forall r, (n < r)%nat -> binom n r = 0%nat.
Proof.
  induction n as [|n IH]; intros r H; destruct r as [|r]; try lia; cbn [binom]; [reflexivity|].
  rewrite !IH by lia. reflexivity.
Qed.

Lemma binom_nn n : binom n n = 1%nat.
Proof. induction n as [|n IH]; [reflexivity|]. cbn [binom]. rewrite IH, binom_gt by lia. reflexivity. Qed.

Lemma binom_n0 n : binom n 0 = 1%nat.
Proof. destruct n; reflexivity. Qed.

(* sum_{r = 0}^{n} C(n, r) = 2^n *)
Lemma binom_row_sum n : zsum (seq 0 (S n)) (fun r => Z.of_nat (binom n r)) = 2 ^ Z.of_nat n.
Proof.
  induction n as [|n IH]; [reflexivity|].
  change (seq 0 (S (S n))) with (0%nat :: seq 1 (S n)). cbn [zsum]. rewrite binom_n0, zsum_shift.
  rewrite (zsum_ext _ _ (fun i => Z.of_nat (binom n i) + Z.of_nat (binom n (S i)))).
  2:{ intros i _. cbn [binom]. lia. }
  rewrite zsum_plus, IH.
  (* sum_{i=0}^{n} C(n, i+1) = 2^n - 1 *)
  assert (E : zsum (seq 0 (S n)) (fun i => Z.of_nat (binom n (S i))) = 2 ^ Z.of_nat n - 1).
  { rewrite <- (zsum_shift 0 (S n) (fun r => Z.of_nat (binom n r))). replace (S n) with (n + 1)%nat at 1 by lia. rewrite seq_app, zsum_app. cbn [seq zsum].
    rewrite (binom_gt n (1 + n)) by lia.
    assert (F : zsum (seq 0 (S n)) (fun r => Z.of_nat (binom n r)) = 1 + zsum (seq 1 n) (fun r => Z.of_nat (binom n r))).
    { change (seq 0 (S n)) with (0%nat :: seq 1 n). cbn [zsum]. rewrite binom_n0. reflexivity. }
    rewrite IH in F. lia. }
  rewrite E. replace (Z.of_nat (S n)) with (Z.succ (Z.of_nat n)) by lia. rewrite Z.pow_succ_r by lia. lia.
Qed.

Lemma length_flat_map_seq {A} (f : nat -> list A) a len :
  Z.of_nat (length (flat_map f (seq a len))) = zsum (seq a len) (fun r => Z.of_nat (length (f r))).
Proof.
  revert a. induction len as [|len IH]; intro a; cbn [seq flat_map zsum]; [reflexivity|].
  rewrite app_length, Nat2Z.inj_add, IH. reflexivity.
Qed.

(* the normaliser is the number of subsets of size k .. n-1 *)
Lemma max_subfaces_counts (f : list lbl) k : (1 <= k <= length f)%nat ->
  max_number_of_subfaces k (length f) = Z.of_nat (length (subsets_between f k (length f - 1))).
Proof.
  intro H. set (n := length f) in *. unfold max_number_of_subfaces, subsets_between.
  rewrite length_flat_map_seq, fold_add.
  rewrite (zsum_ext (seq k _) _ (fun r => Z.of_nat (binom n r))) by (intros r _; rewrite combs_length; reflexivity).
  rewrite (zsum_ext (seq 1 _) _ (fun r => Z.of_nat (binom n r))) by (intros r _; apply binomZ_binom).
  pose proof (binom_row_sum n) as R.
  replace (S n) with (1 + ((k - 1) + ((n - k) + 1)))%nat in R by lia.
  rewrite !seq_app, !zsum_app in R. cbn [seq zsum] in R. rewrite binom_n0 in R.
  replace (0 + 1)%nat with 1%nat in R by lia.
  replace (1 + (k - 1))%nat with k in R by lia.
  replace (k + (n - k))%nat with n in R by lia.
  rewrite binom_nn in R.
  replace (S (n - 1) - k)%nat with (n - k)%nat by lia. lia.
Qed.

Open Scope Q_scope.

(* one term of the average is a share *)
Lemma share_range t (e : list lbl) k : (1 <= k <= length e)%nat ->
  let d := Z.of_nat (length (missing_subfaces t e k)) in
  let m := max_number_of_subfaces k (length e) in
  let dq := if true && negb (m =? 0)%Z then d # Z.to_pos m else d # 1 in
  0 <= dq /\ dq <= 1.
Proof.
  intro H. cbv zeta. rewrite (max_subfaces_counts e k H). unfold missing_subfaces.
  set (T := subsets_between e k (length e - 1)).
  assert (Hd : (length (filter (fun x => negb (tsearch t x)) T) <= length T)%nat).
  { clear. induction T as [|x T IH]; [apply Nat.le_refl|]. cbn [filter]. destruct (negb (tsearch t x)); cbn [length]; lia. }
  cbn [andb]. destruct (Z.of_nat (length T) =? 0)%Z eqn:E; cbn [negb].
  - apply Z.eqb_eq in E. assert (length (filter (fun x => negb (tsearch t x)) T) = 0%nat) by lia. rewrite H0.
    unfold Qle. cbn. lia.
  - apply Z.eqb_neq in E. unfold Qle. cbn [Qnum Qden]. rewrite Z2Pos.id by lia. split; lia.
Qed.

Lemma fold_average_bounds (g : list lbl -> Q) (p : list lbl -> bool) (inv : Q) :
  0 <= inv -> forall l acc, (forall e, In e l -> p e = true -> 0 <= g e /\ g e <= 1) ->
  let r := fold_left (fun acc e => if p e then acc + g e * inv else acc) l acc in
  acc <= r /\ r <= acc + (Z.of_nat (length l) # 1) * inv.
Proof.
  intros Hi. induction l as [|e l IH]; intros acc Hg; cbv zeta; cbn [fold_left length].
  - change (Z.of_nat 0 # 1) with 0. split; lra.
  - assert (Es : (Z.of_nat (S (length l)) # 1) == 1 + (Z.of_nat (length l) # 1)).
    { rewrite Nat2Z.inj_succ. unfold Qeq, Qplus. cbn [Qnum Qden]. lia. }
    rewrite Es.
    specialize (IH (if p e then acc + g e * inv else acc) (fun e' He' => Hg e' (or_intror He'))). cbv zeta in IH.
    destruct IH as [A B]. destruct (p e) eqn:Ep.
    + destruct (Hg e (or_introl eq_refl) Ep) as [G0 G1].
      assert (0 <= g e * inv) by (apply Qmult_le_0_compat; assumption).
      assert (g e * inv <= inv) by (setoid_replace inv with (1 * inv) at 2 by ring; apply Qmult_le_compat_r; assumption).
      split; lra.
    + assert (0 <= (Z.of_nat (length l) # 1) * inv).
      { apply Qmult_le_0_compat; [unfold Qle; cbn; lia|exact Hi]. }
      split; lra.
Qed.

Theorem mfed_normalised_range k excl s q : (1 <= k)%nat ->
  mean_face_edit_distance k excl true s = Some q -> 0 <= q /\ q <= 1.
Proof.
  intros Hk H. unfold mean_face_edit_distance in H.
  set (t := build_trie (map snd (edges_geq s k))) in *. set (mx := map snd (max_edges s (k + b2n excl))) in *.
  assert (Eq := f_equal (fun o => match o with Some x => x | None => 0 end) H). cbv beta iota in Eq. rewrite <- Eq. clear H Eq.
  set (inv := / (Z.of_nat (length mx) # 1)).
  assert (Hi : 0 <= inv).
  { unfold inv. apply Qinv_le_0_compat. unfold Qle. cbn. lia. }
  pose proof (fold_average_bounds
    (fun e => if true && negb (max_number_of_subfaces k (length e) =? 0)%Z
              then Z.of_nat (length (missing_subfaces t e k)) # Z.to_pos (max_number_of_subfaces k (length e))
              else Z.of_nat (length (missing_subfaces t e k)) # 1)
    (fun e => (k <=? length e)%nat) inv Hi mx 0) as B. cbv zeta in B.
  destruct B as [B1 B2].
  { intros e _ Hp. apply Nat.leb_le in Hp. apply (share_range t e k). lia. }
  unfold Qdiv. fold inv. split; [exact B1|].
  eapply Qle_trans; [exact B2|].
  destruct (Nat.eq_dec (length mx) 0) as [E|E].
  - rewrite E. change (Z.of_nat 0 # 1) with 0. lra.
  - assert (K : (Z.of_nat (length mx) # 1) * inv == 1).
    { unfold inv. apply Qmult_inv_r. unfold Qeq. cbn [Qnum Qden]. lia. }
    rewrite K. lra.
Qed.
