(* Random-number events of a seeded function (C17).  The event lists are generated from the source
   by harness/translate_seed.py (Gen/SeedIR.v). *)
From Coq Require Import String List Bool Arith.
Import ListNotations.

Inductive stream : Type := PyRandom | NpGlobal | Local (n : nat) | Extern (n : nat) | Ambient.
Inductive ev : Type := ESeed (s : stream) | EDraw (s : stream).
Definition prog := list ev.

Definition stream_eqb (a b : stream) : bool :=
  match a, b with
  | PyRandom, PyRandom | NpGlobal, NpGlobal | Ambient, Ambient => true
  | Local n, Local m | Extern n, Extern m => Nat.eqb n m
  | _, _ => false
  end.

Lemma stream_eqb_spec a b : reflect (a = b) (stream_eqb a b).
Proof.
  destruct a, b; simpl; try (constructor; congruence).
  - destruct (Nat.eqb_spec n n0); constructor; congruence.
  - destruct (Nat.eqb_spec n n0); constructor; congruence.
Qed.

Definition seedable (s : stream) : bool := match s with Ambient => false | _ => true end.

(* every draw is from a stream that the function itself has seeded before *)
Fixpoint well_seeded_from (seeded : list stream) (p : prog) : bool :=
  match p with
  | [] => true
  | ESeed s :: r => if seedable s then well_seeded_from (s :: seeded) r else well_seeded_from seeded r
  | EDraw s :: r => existsb (stream_eqb s) seeded && well_seeded_from seeded r
  end.
Definition well_seeded (p : prog) : bool := well_seeded_from [] p.

(* semantics, for ANY generator: states St, seeding init, stepping next, output out *)
Section Sem.
  Variable St : Type.
  Variable init : nat -> stream -> St.     (* the state a stream gets from a seed *)
  Variable next : St -> St.
  Variable out : St -> nat.

  Definition upd (sigma : stream -> St) (s : stream) (v : St) : stream -> St :=
    fun t => if stream_eqb t s then v else sigma t.

  (* the numbers drawn when the function runs with `seed` from the generator states sigma *)
  Fixpoint draws (seed : nat) (sigma : stream -> St) (p : prog) : list nat :=
    match p with
    | [] => []
    | ESeed s :: r => if seedable s then draws seed (upd sigma s (init seed s)) r else draws seed sigma r
    | EDraw s :: r => out (sigma s) :: draws seed (upd sigma s (next (sigma s))) r
    end.
End Sem.
