"""Entry point:  check Cxx [--tier quick|thorough] [--replay FILE]   |   check --setup"""
import importlib, json, os, sys

def main(argv):
    os.environ.setdefault("MPLBACKEND", "Agg")
    from harness import common as C
    sys.path.insert(0, C.REPO)
    if not argv:
        print(__doc__); return 2
    if argv[0] == "--setup":
        from harness import setup
        return setup.run()
    prop = argv[0]
    args = argv[1:]
    replay = None
    while args:
        a = args.pop(0)
        if a == "--tier":
            os.environ["VERIF_TIER"] = args.pop(0)
        elif a == "--replay":
            replay = args.pop(0)
        elif a == "--seed":
            os.environ["VERIF_SEED"] = args.pop(0)
    mod = importlib.import_module(f"harness.props.{prop}")
    if replay:
        return mod.replay(json.load(open(replay))) or 0
    v = C.Verdict(prop)
    try:
        mod.run(v)
    except Exception as e:  # noqa: BLE001 - the implementation (or the model build) broke the evaluation itself
        import traceback
        tb = traceback.format_exc()
        sys.stderr.write(tb)
        v.broken_obligation("correspondence-evaluation",
                            {"what": f"the check could not be evaluated: {type(e).__name__}: {e}",
                             "traceback": tb[-4000:]})
    return v.finish(getattr(mod, "LEVEL", "proof"))

if __name__ == "__main__":
    sys.exit(main(sys.argv[1:]))
