(* C05, continued: clear / clear_edges, the attribute setters, bulk edge removal, duplicate merging. *)
From Coq Require Import String ZArith List Bool Lia.
From XV Require Import Base.Label Base.LSet Base.ODict Base.Attr Base.Outcome Model.Hypergraph
     Proofs.HgViews Proofs.HgInv Proofs.HgInvOps Proofs.HgStep Proofs.HgKeys Proofs.HgErrors Proofs.Build
     Proofs.DerivedProofs Proofs.RelabelProofs Proofs.CleanupProofs.
Import ListNotations.
Open Scope Z_scope.

Theorem clear_effect rn s :
  st_of (clear rn s) = mkHG [] [] [] [] (if rn then [] else h_net s) (h_uid s) /\ out_of (clear rn s) = Ok.
Proof. split; reflexivity. Qed.

Theorem clear_edges_effect s :
  let t := st_of (clear_edges s) in
  out_of (clear_edges s) = Ok /\ nkeys t = nkeys s /\ (forall n, mships t n = []) /\ h_edge t = [] /\ h_eattr t = [] /\
  h_nattr t = h_nattr s /\ h_net t = h_net s /\ h_uid t = h_uid s.
Proof.
  cbv zeta. unfold clear_edges. rewrite st_of_ok. cbn [h_node h_edge h_eattr h_nattr h_net h_uid].
  split; [reflexivity|]. split; [unfold nkeys, keys; cbn [h_node]; rewrite map_map; reflexivity|].
  split; [|repeat split].
  intro n. unfold mships, getl. cbn [h_node]. induction (h_node s) as [|[k v] l IH]; [reflexivity|].
  cbn [map get fst]. destruct (lbl_eqb n k); [reflexivity|exact IH].
Qed.

(* set_node_attributes / set_edge_attributes with a dict of dicts whose keys are all present: the given keys are
   updated (d.update), every other attribute dict and the whole structure are untouched *)
Theorem set_node_attrs_dict_effect vals s : NoDup (map fst vals) ->
  (forall nd, In nd vals -> In (fst nd) (keys (h_nattr s))) ->
  let t := st_of (set_node_attrs_dict vals s) in
  (forall n, get n (h_nattr t) = match get n vals with Some d => Some (aupdate (geta n (h_nattr s)) d) | None => get n (h_nattr s) end) /\
  h_node t = h_node s /\ h_edge t = h_edge s /\ h_eattr t = h_eattr s /\ h_uid t = h_uid s.
Proof.
  intros ND Hk. cbv zeta. destruct (set_node_attrs_dict_get vals s ND) as [G E].
  { intros nd Hnd. apply has_In. apply Hk. exact Hnd. }
  destruct (set_node_attrs_dict_same vals s) as (A & B & C). split; [exact G|]. split; [exact A|]. split; [exact B|]. split; [exact E|exact C].
Qed.

Theorem set_edge_attrs_dict_effect vals s : NoDup (map fst vals) ->
  (forall nd, In nd vals -> In (fst nd) (keys (h_eattr s))) ->
  let t := st_of (set_edge_attrs_dict vals s) in
  (forall e, get e (h_eattr t) = match get e vals with Some d => Some (aupdate (geta e (h_eattr s)) d) | None => get e (h_eattr s) end) /\
  h_node t = h_node s /\ h_edge t = h_edge s /\ h_nattr t = h_nattr s /\ h_uid t = h_uid s.
Proof.
  intros ND Hk. cbv zeta. destruct (set_edge_attrs_dict_get vals s ND) as [G E].
  { intros nd Hnd. apply has_In. apply Hk. exact Hnd. }
  destruct (set_edge_attrs_dict_same vals s) as (A & B & C). split; [exact G|]. split; [exact A|]. split; [exact B|]. split; [exact E|exact C].
Qed.

(* remove_edges_from of distinct present ids: exactly these edges disappear, the nodes stay *)
Theorem remove_edges_from_effect es s : Inv s -> NoDup es -> (forall e, In e es -> In e (ekeys s)) ->
  let t := st_of (remove_edges_from es s) in
  out_of (remove_edges_from es s) = Ok /\ Inv t /\ nkeys t = nkeys s /\
  forall e, get e (h_edge t) = if mem e es then None else get e (h_edge s).
Proof.
  intros I ND H. cbv zeta. destruct (remove_edges_from_table es s ND H) as (A & B & C).
  split; [exact A|]. split; [apply Inv_remove_edges_from; exact I|]. split; [exact B|exact C].
Qed.

(* merge_duplicate_edges(rename="first", merge_rule="first"): afterwards no two edges have the same members *)
Theorem merge_first_no_repeats s : Inv s -> NoNone s ->
  out_of (merge_duplicate_edges RnFirst MrFirst None s) = Ok ->
  let t := st_of (merge_duplicate_edges RnFirst MrFirst None s) in
  Inv t /\ forall e f ms mf, get e (h_edge t) = Some ms -> get f (h_edge t) = Some mf -> seteq ms mf -> e = f.
Proof. intros I NN H. destruct (merge_stage s I NN H) as (A & B & _). split; [exact A|exact B]. Qed.
