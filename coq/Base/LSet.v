(* Finite sets of labels as duplicate-free lists (Python set / frozenset). *)
From Coq Require Import ZArith List Bool Lia.
From XV Require Import Base.Label.
Import ListNotations.

Fixpoint mem (x : lbl) (s : list lbl) : bool :=
  match s with
  | [] => false
  | y :: ys => lbl_eqb x y || mem x ys
  end.

Lemma mem_In x s : mem x s = true <-> In x s.
Proof.
  induction s as [|y ys IH]; simpl; [split; [discriminate|tauto]|].
  rewrite orb_true_iff, IH, lbl_eqb_eq. split; intros [H|H]; auto.
Qed.

Lemma mem_nIn x s : mem x s = false <-> ~ In x s.
Proof.
  rewrite <- mem_In. destruct (mem x s); split; intro H; congruence.
Qed.

Definition sadd (x : lbl) (s : list lbl) : list lbl :=
  if mem x s then s else s ++ [x].

Fixpoint sremove (x : lbl) (s : list lbl) : list lbl :=
  match s with
  | [] => []
  | y :: ys => if lbl_eqb x y then sremove x ys else y :: sremove x ys
  end.

Fixpoint dedup (l : list lbl) : list lbl :=
  match l with
  | [] => []
  | x :: xs => if mem x xs then dedup xs else x :: dedup xs
  end.

(* set(l): first occurrences, in order *)
Definition mkset (l : list lbl) : list lbl := fold_left (fun acc x => sadd x acc) l [].

Definition sunion (a b : list lbl) : list lbl := fold_left (fun acc x => sadd x acc) b a.
Definition sinter (a b : list lbl) : list lbl := filter (fun x => mem x b) a.
Definition sdiff (a b : list lbl) : list lbl := filter (fun x => negb (mem x b)) a.
Definition ssubset (a b : list lbl) : bool := forallb (fun x => mem x b) a.
Definition seteqb (a b : list lbl) : bool := ssubset a b && ssubset b a.
Definition seteq (a b : list lbl) : Prop := forall x, In x a <-> In x b.

Lemma In_sadd x y s : In x (sadd y s) <-> x = y \/ In x s.
Proof.
  unfold sadd. destruct (mem y s) eqn:E.
  - apply mem_In in E. split; [auto|]. intros [->|H]; auto.
  - rewrite in_app_iff. simpl. split; intros [H|H]; auto.
    + destruct H as [H|[]]; auto.
Qed.

Lemma NoDup_sadd y s : NoDup s -> NoDup (sadd y s).
Proof.
  intro H. unfold sadd. destruct (mem y s) eqn:E; [exact H|].
  apply mem_nIn in E.
  induction H as [|a l Ha Hl IH]; simpl.
  - constructor; [intros []|constructor].
  - constructor.
    + rewrite in_app_iff. simpl. intros [H|[H|[]]]; [auto|]. subst. apply E. left; reflexivity.
    + apply IH. intro H. apply E. right; exact H.
Qed.

Lemma In_sremove x y s : In x (sremove y s) <-> x <> y /\ In x s.
Proof.
  induction s as [|a l IH]; simpl; [tauto|].
  destruct (lbl_eqb_spec y a) as [->|N].
  - rewrite IH. split; [intros [H1 H2]; auto|]. intros [H1 [H2|H2]]; [congruence|auto].
  - simpl. rewrite IH. split.
    + intros [->|[H1 H2]]; auto.
    + intros [H1 [H2|H2]]; auto.
Qed.

Lemma NoDup_sremove y s : NoDup s -> NoDup (sremove y s).
Proof.
  induction 1 as [|a l Ha Hl IH]; simpl; [constructor|].
  destruct (lbl_eqb y a); [exact IH|].
  constructor; [|exact IH]. rewrite In_sremove. tauto.
Qed.

Lemma sremove_nIn y s : ~ In y s -> sremove y s = s.
Proof.
  induction s as [|a l IH]; simpl; [reflexivity|]. intro H.
  destruct (lbl_eqb_spec y a) as [->|N]; [exfalso; apply H; auto|].
  rewrite IH; [reflexivity|]. intro; apply H; auto.
Qed.

Lemma length_sremove y s : NoDup s -> In y s -> S (length (sremove y s)) = length s.
Proof.
  induction 1 as [|a l Ha Hl IH]; simpl; [intros []|]. intros [->|H].
  - rewrite lbl_eqb_refl. rewrite sremove_nIn by assumption. reflexivity.
  - destruct (lbl_eqb_spec y a) as [->|N]; [contradiction|]. simpl. rewrite IH by assumption. reflexivity.
Qed.

Lemma fold_sadd_In l acc x :
  In x (fold_left (fun acc x => sadd x acc) l acc) <-> In x acc \/ In x l.
Proof.
  revert acc. induction l as [|a l IH]; intro acc; simpl; [tauto|].
  rewrite IH, In_sadd. intuition (subst; auto).
Qed.

Lemma fold_sadd_NoDup l acc :
  NoDup acc -> NoDup (fold_left (fun acc x => sadd x acc) l acc).
Proof.
  revert acc. induction l as [|a l IH]; intro acc; simpl; [auto|].
  intro H. apply IH. apply NoDup_sadd. exact H.
Qed.

Lemma In_mkset x l : In x (mkset l) <-> In x l.
Proof. unfold mkset. rewrite fold_sadd_In. simpl. tauto. Qed.

Lemma NoDup_mkset l : NoDup (mkset l).
Proof. apply fold_sadd_NoDup. constructor. Qed.

Lemma In_sunion x a b : In x (sunion a b) <-> In x a \/ In x b.
Proof. apply fold_sadd_In. Qed.

Lemma NoDup_sunion a b : NoDup a -> NoDup (sunion a b).
Proof. apply fold_sadd_NoDup. Qed.

Lemma In_sinter x a b : In x (sinter a b) <-> In x a /\ In x b.
Proof. unfold sinter. rewrite filter_In, mem_In. tauto. Qed.

Lemma In_sdiff x a b : In x (sdiff a b) <-> In x a /\ ~ In x b.
Proof.
  unfold sdiff. rewrite filter_In, negb_true_iff, mem_nIn. tauto.
Qed.

Lemma NoDup_filter {A} (f : A -> bool) l : NoDup l -> NoDup (filter f l).
Proof.
  induction 1 as [|a l Ha Hl IH]; simpl; [constructor|].
  destruct (f a); [|exact IH]. constructor; [|exact IH].
  rewrite filter_In. tauto.
Qed.

Lemma ssubset_spec a b : ssubset a b = true <-> (forall x, In x a -> In x b).
Proof.
  unfold ssubset. rewrite forallb_forall. split; intros H x Hx.
  - apply mem_In. apply H. exact Hx.
  - apply mem_In. apply H. exact Hx.
Qed.

Lemma seteqb_spec a b : seteqb a b = true <-> seteq a b.
Proof.
  unfold seteqb, seteq. rewrite andb_true_iff, !ssubset_spec. split.
  - intros [H1 H2] x. split; auto.
  - intro H. split; intros x Hx; apply H; exact Hx.
Qed.

Lemma In_dedup x l : In x (dedup l) <-> In x l.
Proof.
  induction l as [|a l IH]; simpl; [tauto|].
  destruct (mem a l) eqn:E.
  - rewrite IH. apply mem_In in E. split; [auto|]. intros [->|H]; auto.
  - simpl. rewrite IH. tauto.
Qed.

Lemma NoDup_dedup l : NoDup (dedup l).
Proof.
  induction l as [|a l IH]; simpl; [constructor|].
  destruct (mem a l) eqn:E; [exact IH|].
  constructor; [|exact IH]. rewrite In_dedup. apply mem_nIn. exact E.
Qed.

(* k-subsets in itertools.combinations order *)
Fixpoint combs {A} (l : list A) (k : nat) : list (list A) :=
  match k with
  | O => [[]]
  | S k' => match l with
            | [] => []
            | x :: xs => map (cons x) (combs xs k') ++ combs xs k
            end
  end.
