(* Executable model of xgi.core.simplicialcomplex.SimplicialComplex (its own mutators) after the
   "fix:" commits, on the same six tables as Model/Hypergraph.v (member sets are frozensets in the
   code, duplicate-free lists here).

   Python iterates `set(faces)` (a set of tuples) when it inserts the missing sub-faces, so the
   ids handed to the new faces follow an order the model cannot compute.  Each adding op therefore
   carries a `hint`: the member sets of the edges that are new after the call, in edge order, as
   the harness observed them, together with the node order after the call (a face whose nodes
   are new creates them in the element order of a tuple the model cannot see either).  The model
   inserts the required faces in the order of the hint and any required face the hint does not
   mention afterwards, so the *set* of inserted faces never depends on the hint and the theorems
   hold for every hint. *)
From Coq Require Import String ZArith List Bool Lia.
From XV Require Import Base.Label Base.LSet Base.ODict Base.Attr Base.Outcome Model.Hypergraph.
Import ListNotations.
Open Scope Z_scope.

(* frozenset(simplex) in self._edge.values() *)
Definition set_eqb (a b : list lbl) : bool := seteqb a b.
Definition has_simplex (s : hg) (ms : list lbl) : bool := existsb (fun kv => set_eqb ms (snd kv)) (h_edge s).

(* _subfaces(simplex, all=True): combinations of sizes size-1 down to 2 *)
Fixpoint sizes_down (k : nat) : list nat :=     (* k, k-1, ..., 2 *)
  match k with
  | O => []
  | S k' => if (2 <=? k)%nat then k :: sizes_down k' else []
  end.
Definition subfaces (ms : list lbl) : list (list lbl) :=
  flat_map (fun k => combs ms k) (sizes_down (length ms - 1)).

(* powerset(members, include_singletons=False, max_size=k): sizes 2 .. min k (len) *)
Definition powerset_upto (ms : list lbl) (k : nat) : list (list lbl) :=
  flat_map (fun r => combs ms r) (seq 2 (Nat.min k (length ms) - 1)).

Definition mem_set (f : list lbl) (l : list (list lbl)) : bool := existsb (set_eqb f) l.
Fixpoint dedup_sets (l : list (list lbl)) : list (list lbl) :=
  match l with
  | [] => []
  | f :: r => if mem_set f r then dedup_sets r else f :: dedup_sets r
  end.

(* iteration order of set(faces): first the faces named by the hint (in that order), then the rest *)
Definition order_faces (required hint : list (list lbl)) : list (list lbl) :=
  let req := dedup_sets required in
  filter (fun h => mem_set h req) (dedup_sets hint) ++ filter (fun r => negb (mem_set r hint)) req.

Definition hints : Type := (list (list lbl) * list lbl)%type.

(* the elements of f in the order of the node hint (then those the hint does not mention) *)
Definition order_by (nh f : list lbl) : list lbl :=
  filter (fun x => mem x f) nh ++ filter (fun x => negb (mem x nh)) f.

(* _add_face(members) *)
Definition add_face (nh : list lbl) (s : hg) (f : list lbl) : hg :=
  match f with
  | [] => s
  | _ => if has_simplex s f then s
         else insert_edge (LInt (h_uid s)) (order_by nh f) [] (with_uid s (h_uid s + 1))
  end.
Definition add_faces (faces : list (list lbl)) (h : hints) (s : hg) : hg :=
  fold_left (add_face (snd h)) (order_faces faces (fst h)) s.

(* "not idx" *)
Definition falsy (i : lbl) : bool :=
  match i with
  | LInt 0 => true
  | LStr EmptyString => true
  | LTup [] => true
  | LNone => true
  | _ => false
  end.

(* add_simplex(members, idx, **attr); members in frozenset iteration order *)
Definition add_simplex (ms : list lbl) (idx : option lbl) (a : attrs) (hint : hints) (s : hg) : res :=
  let ms := mkset ms in
  if existsb is_none ms then raise s XGIError
  else if (match ms with [] => true | _ => false end) || has_simplex s ms then ok s
  else if (match idx with Some i => has i (h_edge s) | None => false end) then warn1 s
  else
    let auto := match idx with Some i => falsy i | None => true end in
    let e := if auto then LInt (h_uid s) else match idx with Some i => i | None => LNone end in
    let s0 := if auto then with_uid s (h_uid s + 1) else s in
    let s1 := bump_uid e (insert_edge e ms a s0) in
    ok (add_faces (subfaces ms) hint s1).

(* one item of formats 1-4; returns the state and the faces to add at the end *)
Definition sres : Type := hg * list (list lbl) * outcome * nat.

Definition bulk_simplex (auto : bool) (max_order : option nat) (a : attrs) (s : hg)
           (ms : list lbl) (idx : lbl) (ea : attrs) : sres :=
  if existsb is_none ms then (s, [], Raised XGIError, O)
  else if (match ms with [] => true | _ => false end) || has_simplex s ms then (s, [], Ok, O)
  else
    (* formats 1 and 3 draw the id here, before the max_order test *)
    let e := if auto then LInt (h_uid s) else idx in
    let s0 := if auto then with_uid s (h_uid s + 1) else s in
    match (match max_order with Some k => (k + 1 <? length ms)%nat | None => false end), max_order with
    | true, Some k => (s0, powerset_upto ms (k + 1), Ok, O)
    | _, _ =>
        if has e (h_edge s0) then (s0, [], Ok, 1%nat)
        else if is_none e then (s0, [], Raised XGIError, O)
        else (bump_uid e (insert_edge e ms (aupdate a ea) s0), subfaces ms, Ok, O)
    end.

Fixpoint sloop {A} (f : hg -> A -> sres) (l : list A) (s : hg) (faces : list (list lbl)) (w : nat)
  : hg * list (list lbl) * outcome * nat :=
  match l with
  | [] => (s, faces, Ok, w)
  | x :: xs =>
      match f s x with
      | (s', fs, Ok, w') => sloop f xs s' (faces ++ fs) (w + w')%nat
      | (s', fs, o, w') => (s', faces ++ fs, o, (w + w')%nat)
      end
  end.

(* the faces collected so far are inserted in a "finally" block: also when an item raised *)
Definition finish (hint : hints) (r : hg * list (list lbl) * outcome * nat) : res :=
  match r with
  | (s, faces, o, w) => (add_faces faces hint s, o, w)
  end.

Definition add_simplices_from (eb : ebunch) (max_order : option nat) (a : attrs)
           (hint : hints) (s : hg) : res :=
  match eb with
  | EB5 l =>
      (* dict format: members iterate as a frozenset; **attr is not applied *)
      finish hint (sloop (fun s im =>
        let '(idx, ms) := im in
        if existsb is_none ms then (s, [], Raised XGIError, O)
        else if (match ms with [] => true | _ => false end) || has_simplex s ms then (s, [], Ok, O)
        else if has idx (h_edge s) then (s, [], Ok, 1%nat)
        else match (match max_order with Some k => (k + 1 <? length ms)%nat | None => false end), max_order with
             | true, Some k => (s, powerset_upto ms (k + 1), Ok, O)
             | _, _ =>
                 if is_none idx then (s, [], Raised XGIError, O)
                 else (bump_uid idx (insert_edge idx ms [] s), subfaces ms, Ok, O)
             end) l s [] O)
  | EB1 l =>
      match l with
      | [] :: _ => raise s IndexError
      | _ => finish hint (sloop (fun s ms => bulk_simplex true max_order a s ms LNone []) l s [] O)
      end
  | EB2 l => finish hint (sloop (fun s it => let '(m, i) := it in bulk_simplex false max_order a s m i []) l s [] O)
  | EB3 l => finish hint (sloop (fun s it => let '(m, ea) := it in bulk_simplex true max_order a s m LNone ea) l s [] O)
  | EB4 l => finish hint (sloop (fun s it => let '(m, i, ea) := it in bulk_simplex false max_order a s m i ea) l s [] O)
  end.

Definition add_weighted_simplices_from (l : list (list lbl * aval)) (max_order : option nat)
           (weight : string) (a : attrs) (hint : hints) (s : hg) : res :=
  add_simplices_from (EB3 (map (fun mw => (fst mw, [(weight, snd mw)])) l)) max_order a hint s.

(* strict superset *)
Definition strict_sub (a b : list lbl) : bool := ssubset a b && negb (ssubset b a).
Definition supfaces_id (s : hg) (ms : list lbl) : list lbl :=
  map fst (filter (fun kv => strict_sub ms (snd kv)) (h_edge s)).

Definition remove_simplex_id (idx : lbl) (s : hg) : res :=
  match get idx (h_edge s) with
  | None => raise s XGIError
  | Some ms =>
      let s1 := fold_left (fun s e => st_of (remove_edge1 e s)) (supfaces_id s ms) s in
      ok (st_of (remove_edge1 idx s1))
  end.

Definition remove_simplex_ids_from (ids : list lbl) (s : hg) : res :=
  let all_ids := keys (h_edge s) in
  loop (fun s idx => if mem idx all_ids && negb (has idx (h_edge s)) then ok s
                     else remove_simplex_id idx s) ids s.

(* SimplicialComplex.remove_node is always strong *)
Definition sc_remove_node (n : lbl) (s : hg) : res := remove_node n true true s.
Definition sc_remove_nodes_from (ns : list lbl) (s : hg) : res :=
  loop (fun s n => if has n (h_node s) then sc_remove_node n s else warn1 s) ns s.

(* close(): add the sub-faces of every simplex (a no-op on a closed complex) *)
Definition close (hint : hints) (s : hg) : res :=
  loop (fun s ms => match ms with
                    | [] => ok s
                    | _ => match subfaces ms with
                           | [] => ok s
                           | fs => add_simplices_from (EB1 fs) None [] hint s
                           end
                    end) (vals (h_edge s)) s.

Definition sc_largest_connected_inplace (s : hg) : res :=
  match first_longest (components s) with
  | None => raise s ValueError
  | Some c => sc_remove_nodes_from (sdiff (keys (h_node s)) c) s
  end.

Definition sc_relabel_inplace (label_attr : string) (s : hg) : res :=
  let ns := keys (h_node s) in
  let es := keys (h_edge s) in
  let nmap n := LInt (index_of n ns 0) in
  let emap e := LInt (index_of e es 0) in
  let s0 := mkHG [] [] [] [] (h_net s) (h_uid s) in
  bind (add_nodes_from (map (fun n => (nmap n, Some (geta n (h_nattr s)))) ns) [] s0)
  (fun s1 => bind (set_node_attrs_dict (map (fun n => (nmap n, [(label_attr, aval_of_lbl n)])) ns) s1)
  (fun s2 => bind (add_simplices_from
                     (EB4 (map (fun e => (map nmap (getl e (h_edge s)), emap e, geta e (h_eattr s))) es))
                     None [] ([], []) s2)
  (fun s3 => set_edge_attrs_dict (map (fun e => (emap e, [(label_attr, aval_of_lbl e)])) es) s3))).

Definition sc_cleanup (iso conn relabel : bool) (s : hg) : res :=
  bind (if iso then ok s else sc_remove_nodes_from (isolates s) s)
  (fun s1 => bind (if conn && negb (match h_node s1 with [] => true | _ => false end)
                   then sc_largest_connected_inplace s1 else ok s1)
  (fun s2 => if relabel then sc_relabel_inplace "label" s2 else ok s2)).

Definition warn_more (r : res) : res := match r with (s, o, w) => (s, o, S w) end.

Inductive sop : Type :=
| SAddSimplex (ms : list lbl) (idx : option lbl) (a : attrs) (hint : hints)
| SAddSimplicesFrom (eb : ebunch) (max_order : option nat) (a : attrs) (hint : hints)
| SAddWeightedSimplicesFrom (l : list (list lbl * aval)) (max_order : option nat) (weight : string)
                            (a : attrs) (hint : hints)
| SRemoveSimplexId (idx : lbl)
| SRemoveSimplexIdsFrom (ids : list lbl)
| SRemoveNode (n : lbl)
| SRemoveNodesFrom (ns : list lbl)
| SClose (hint : hints)
| SCleanup (iso conn relabel : bool)
| SRelabel (label_attr : string)
(* deprecated aliases: one extra warning, idx / max_order are dropped as the code does *)
| SAddEdge (ms : list lbl) (a : attrs) (hint : hints)
| SAddEdgesFrom (eb : ebunch) (a : attrs) (hint : hints)
| SAddWeightedEdgesFrom (l : list (list lbl * aval)) (max_order : option nat) (weight : string)
                        (a : attrs) (hint : hints)
| SRemoveEdge (idx : lbl)
| SRemoveEdgesFrom (ids : list lbl)
(* inherited, structure-neutral or node-only *)
| SAddNode (n : lbl) (a : attrs)
| SAddNodesFrom (items : list (lbl * option attrs)) (a : attrs)
| SSetNodeAttrsDict (vals : list (lbl * attrs))
| SSetEdgeAttrsDict (vals : list (lbl * attrs))
| SClear (remove_net : bool).

Definition sstep (s : hg) (o : sop) : res :=
  match o with
  | SAddSimplex ms idx a hint => add_simplex ms idx a hint s
  | SAddSimplicesFrom eb mo a hint => add_simplices_from eb mo a hint s
  | SAddWeightedSimplicesFrom l mo w a hint => add_weighted_simplices_from l mo w a hint s
  | SRemoveSimplexId idx => remove_simplex_id idx s
  | SRemoveSimplexIdsFrom ids => remove_simplex_ids_from ids s
  | SRemoveNode n => sc_remove_node n s
  | SRemoveNodesFrom ns => sc_remove_nodes_from ns s
  | SClose hint => close hint s
  | SCleanup iso conn rl => sc_cleanup iso conn rl s
  | SRelabel la => sc_relabel_inplace la s
  | SAddEdge ms a hint => warn_more (add_simplex ms None a hint s)
  | SAddEdgesFrom eb a hint => warn_more (add_simplices_from eb None a hint s)
  | SAddWeightedEdgesFrom l mo w a hint => warn_more (add_weighted_simplices_from l mo w a hint s)
  | SRemoveEdge idx => warn_more (remove_simplex_id idx s)
  | SRemoveEdgesFrom ids => warn_more (remove_simplex_ids_from ids s)
  | SAddNode n a => add_node n a s
  | SAddNodesFrom items a => add_nodes_from items a s
  | SSetNodeAttrsDict vals => set_node_attrs_dict vals s
  | SSetEdgeAttrsDict vals => set_edge_attrs_dict vals s
  | SClear rn => clear rn s
  end.

Definition srun (ops : list sop) (s : hg) : hg := fold_left (fun s o => st_of (sstep s o)) ops s.
