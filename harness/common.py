"""Shared machinery of the checks: paths, Coq build / lint / proof checking, parallel evaluation of
generated case files, known findings, verdicts and evidence."""
import fcntl, glob, hashlib, json, os, random, re, shutil, subprocess, sys, time

VERIF = os.path.dirname(os.path.dirname(os.path.abspath(__file__)))
REPO = os.environ.get("XGI_REPO", "/repo")
COQ = os.path.join(VERIF, "coq")
NPROC = int(os.environ.get("VERIF_JOBS", "16"))

FORBIDDEN = re.compile(
    r"\b(Admitted|admit|Axiom|Axioms|Parameter|Parameters|Conjecture|Conjectures|"
    r"Admit\s+Obligations|bypass_check|give_up)\b|Unset\s+Guard|Unset\s+Positivity|"
    r"Unset\s+Universe\s+Checking|type-in-type|impredicative-set")


def tier():
    t = os.environ.get("VERIF_TIER", "quick")
    return t if t in ("quick", "thorough") else "quick"


def seed():
    try:
        return int(os.environ.get("VERIF_SEED", "0"))
    except ValueError:
        return 0


def strip_coq_comments(src):
    out, depth, i = [], 0, 0
    while i < len(src):
        if src.startswith("(*", i):
            depth += 1; i += 2
        elif src.startswith("*)", i) and depth:
            depth -= 1; i += 2
        else:
            if not depth:
                out.append(src[i])
            i += 1
    return "".join(out)


def coq_sources():
    fs = []
    for sub in ("Base", "Model", "Spec", "Proofs", "Props", "Gen"):
        fs += sorted(glob.glob(os.path.join(COQ, sub, "*.v")))
    return fs


def coq_lint():
    """No axioms, admits, or switched-off kernel checks anywhere in the development.
    Variable/Hypothesis are allowed only inside a Section."""
    problems = []
    for f in coq_sources():
        src = strip_coq_comments(open(f).read())
        # strip string literals
        src_ns = re.sub(r'"(?:[^"]|"")*"', '""', src)
        for m in FORBIDDEN.finditer(src_ns):
            problems.append(f"{os.path.relpath(f, COQ)}: forbidden token {m.group(0)!r}")
        depth = 0
        for line in src_ns.splitlines():
            s = line.strip()
            if re.match(r"Section\s+\w+", s):
                depth += 1
            elif re.match(r"End\s+\w+", s) and depth:
                depth -= 1
            elif depth == 0 and re.match(r"(Variable|Variables|Hypothesis|Hypotheses|Context)\b", s):
                problems.append(f"{os.path.relpath(f, COQ)}: {s.split()[0]} outside a Section")
    proj = open(os.path.join(COQ, "_CoqProject")).read()
    if re.search(r"type-in-type|impredicative-set|-vos|-vok", proj):
        problems.append("_CoqProject: forbidden flag")
    return problems


class Lock:
    def __init__(self, name):
        self.path = os.path.join(COQ, "." + name + ".lock")
    def __enter__(self):
        self.f = open(self.path, "w")
        fcntl.flock(self.f, fcntl.LOCK_EX)
    def __exit__(self, *a):
        fcntl.flock(self.f, fcntl.LOCK_UN)
        self.f.close()


def sh(cmd, timeout, cwd=None, env=None):
    try:
        p = subprocess.run(cmd, shell=isinstance(cmd, str), cwd=cwd, env=env, timeout=timeout,
                           stdout=subprocess.PIPE, stderr=subprocess.STDOUT, text=True)
        return p.returncode, p.stdout
    except subprocess.TimeoutExpired as e:
        out = e.stdout if isinstance(e.stdout, str) else (e.stdout or b"").decode("utf8", "replace")
        return 124, out + "\n[timeout]"


def coq_make(targets, timeout=3000):
    """Full .vo build of the given targets (and what they depend on); serialised by a lock."""
    with Lock("make"):
        mk = os.path.join(COQ, "Makefile")
        cp = os.path.join(COQ, "_CoqProject")
        if not os.path.exists(mk) or os.path.getmtime(mk) < os.path.getmtime(cp):
            rc, out = sh(["coq_makefile", "-f", "_CoqProject", "-o", "Makefile"], 120, cwd=COQ)
            if rc:
                return rc, out
        return sh(["make", f"-j{NPROC}"] + list(targets), timeout, cwd=COQ)


def theorem_names(vfile):
    src = strip_coq_comments(open(vfile).read())
    return re.findall(r"^\s*(?:Theorem|Lemma|Corollary|Example)\s+(\w+)", src, re.M)


def check_props(prop):
    """Compile Props/<prop>.v from scratch (its dependencies are built by make) and read what
    Print Assumptions reports.  Returns dict(ok, obligations, discharged, assumptions, log)."""
    vfile = os.path.join(COQ, "Props", prop + ".v")
    names = theorem_names(vfile)
    # the property file and every model / check-support module the generated case files import
    models = [os.path.relpath(f, COQ) + "o" for f in sorted(glob.glob(os.path.join(COQ, "Model", "*.v")))]
    rc, out = coq_make([f"Props/{prop}.vo"] + models)
    res = {"ok": rc == 0, "obligations": len(names), "discharged": 0, "theorems": names,
           "assumptions": [], "log": out[-4000:], "failed_at": None}
    if rc != 0:
        m = re.search(r'File "([^"]+)", line (\d+)', out)
        res["failed_at"] = f"{m.group(1)}:{m.group(2)}" if m else "make"
        return res
    # re-run coqc on the property file alone to capture the Print Assumptions output
    tmpd = os.path.join(COQ, "Cases", f"props-{os.getpid()}")
    os.makedirs(tmpd, exist_ok=True)
    rc, out = sh(["coqc", "-Q", ".", "XV", "-o", os.path.join(tmpd, f"{prop}.vo"), f"Props/{prop}.v"], 900, cwd=COQ)
    shutil.rmtree(tmpd, ignore_errors=True)
    res["log"] = out[-4000:]
    if rc != 0:
        res["ok"] = False
        m = re.search(r'File "([^"]+)", line (\d+)', out)
        res["failed_at"] = f"{m.group(1)}:{m.group(2)}" if m else "coqc"
        return res
    closed = out.count("Closed under the global context")
    axioms = []
    for blk in re.findall(r"Axioms:\n((?:.+\n?)+?)(?=\n\S|\Z)", out):
        for line in blk.splitlines():
            m = re.match(r"^(\S+)\s*:", line)
            if m:
                axioms.append(m.group(1))
    res["assumptions"] = sorted(set(axioms))
    res["print_assumptions"] = closed + len(re.findall(r"^Axioms:", out, re.M))
    res["discharged"] = len(names)
    return res


# ---------------------------------------------------------------------------------------------
# evaluation of generated case files

def cases_dir(prop):
    d = os.path.join(COQ, "Cases", f"{prop}-{os.getpid()}")
    os.makedirs(d, exist_ok=True)
    return d


def clean_cases(d):
    shutil.rmtree(d, ignore_errors=True)


def write_case_file(path, imports, body):
    with open(path, "w") as f:
        f.write("From Coq Require Import String ZArith List Bool.\n")
        f.write(f"From XV Require Import {' '.join(imports)}.\n")
        f.write("Import ListNotations.\nOpen Scope Z_scope.\n")
        f.write(body)


def run_coq_files(paths, timeout=900):
    """coqc each file (in parallel); returns {path: (rc, output)}."""
    procs, results = [], {}
    paths = list(paths)
    env = dict(os.environ)
    idx = 0
    running = []
    while idx < len(paths) or running:
        while idx < len(paths) and len(running) < NPROC:
            p = paths[idx]; idx += 1
            rel = os.path.relpath(p, COQ)
            pr = subprocess.Popen(f"ulimit -s unlimited 2>/dev/null; exec timeout {timeout} coqc -Q . XV {rel}",
                                  shell=True, cwd=COQ, env=env, stdout=subprocess.PIPE,
                                  stderr=subprocess.STDOUT, text=True)
            running.append((p, pr))
        still = []
        for p, pr in running:
            if pr.poll() is None:
                still.append((p, pr))
            else:
                results[p] = (pr.returncode, pr.stdout.read())
        running = still
        if running:
            time.sleep(0.05)
    return results


def parse_pairs(out):
    """Parse '= [(i, j); ...] : list (nat * nat)' printed by Eval vm_compute."""
    m = re.search(r"=\s*(\[.*?\])\s*:\s*list", out, re.S)
    if not m:
        return None
    return [(int(a), int(b)) for a, b in re.findall(r"\((\d+)(?:%nat)?,\s*(\d+)(?:%nat)?\)", m.group(1))]


def parse_nats(out):
    m = re.search(r"=\s*(\[.*?\])\s*:\s*list", out, re.S)
    if not m:
        return None
    return [int(a) for a in re.findall(r"\d+", m.group(1))]


# ---------------------------------------------------------------------------------------------
# known findings, verdict, evidence

def load_known():
    p = os.path.join(VERIF, "known_findings.json")
    if not os.path.exists(p):
        return []
    return json.load(open(p)).get("open", [])


class Verdict:
    def __init__(self, prop):
        self.prop = prop
        self.t0 = time.time()
        self.violations = []       # (replay_path, suffix)
        self.known = []
        self.known_open = [k for k in load_known() if k.get("property") == prop]
        self.coverage = {}
        self.assumptions = []
        os.makedirs(os.path.join(VERIF, "replays"), exist_ok=True)

    def replay_path(self, payload):
        h = hashlib.sha1(json.dumps(payload, sort_keys=True, default=str).encode()).hexdigest()[:10]
        p = os.path.join(VERIF, "replays", f"{self.prop}-{h}.json")
        with open(p, "w") as f:
            json.dump(payload, f, indent=1, default=str)
        return p

    def failing_input(self, signature, payload):
        """A concrete input on which the implementation fails the property text."""
        for k in self.known_open:
            if k.get("signature") == signature:
                line = f"KNOWN-FINDING: property={self.prop} {k.get('what', signature)}"
                if line not in self.known:
                    self.known.append(line)
                    print(line)
                return False
        payload = dict(payload, property=self.prop, kind="failing-input", signature=signature)
        p = self.replay_path(payload)
        self.violations.append(p)
        print(f"VIOLATION property={self.prop} replay={p}")
        return True

    def broken_obligation(self, what, payload):
        """A theorem or the correspondence no longer checks and no failing input was found."""
        payload = dict(payload, property=self.prop, kind="broken-obligation", broken=what)
        p = self.replay_path(payload)
        self.violations.append(p)
        print(f"VIOLATION property={self.prop} replay={p} no-failing-input-found")

    def finish(self, level="proof"):
        ev = {
            "property_id": self.prop,
            "tier": tier(),
            "seed": seed(),
            "level": level,
            "coverage": self.coverage,
            "assumptions": self.assumptions,
            "wall_s": round(time.time() - self.t0, 2),
            "violations": len(self.violations),
        }
        os.makedirs(os.path.join(VERIF, "evidence"), exist_ok=True)
        path = os.path.join(VERIF, "evidence", f"{self.prop}.json")
        cov = ev["coverage"]
        if not cov.get("discharged"):
            cov["discharged_now"] = cov.pop("discharged", 0)   # keeps a failing run's evidence schema-valid
        with open(path, "w") as f:
            json.dump(ev, f, indent=1, default=str)
        try:
            import jsonschema
            schema = json.load(open("/root/.vp/EVIDENCE.schema.json"))
            jsonschema.validate(json.load(open(path)), schema)
        except (ImportError, FileNotFoundError):
            pass
        except Exception as e:  # noqa: BLE001
            print(f"[{self.prop}] evidence file does not validate: {str(e).splitlines()[0]}")
        status = "FAIL" if self.violations else "PASS"
        print(f"[{self.prop}] {status} tier={tier()} seed={seed()} wall={ev['wall_s']}s "
              f"obligations={self.coverage.get('discharged')}/{self.coverage.get('obligations')} "
              f"cases={self.coverage.get('evaluations')} mismatches={self.coverage.get('mismatches')} "
              f"oracle_failures={self.coverage.get('oracle_failures')}")
        return 1 if self.violations else 0


def case_hash(obj):
    return hashlib.sha1(repr(obj).encode()).hexdigest()


def histogram(items):
    h = {}
    for x in items:
        h[x] = h.get(x, 0) + 1
    return dict(sorted(h.items(), key=lambda kv: (-kv[1], str(kv[0]))))


# Presentation of member collections.  The library documents "an iterable of node ids"; a list, a tuple, a
# one-shot iterator and a generator holding the same ids are the same argument, and the model takes the list.
# When ITER_SALT is an int the implementation is handed one of these (chosen by a hash of the ids and the
# salt, so that a replay with the same salt presents them the same way).
ITER_SALT = None

def members(ms):
    ms = list(ms)
    if ITER_SALT is None:
        return ms
    import zlib
    k = zlib.crc32(repr((ms, ITER_SALT)).encode()) % 5
    if k == 0:
        return ms
    if k == 1:
        return tuple(ms)
    if k == 2:
        return iter(ms)
    if k == 3:
        return (x for x in ms)
    return iter(tuple(ms))


class presenting:
    """with presenting(salt): member collections are presented as lists/tuples/iterators (salt None = lists)."""
    def __init__(self, salt):
        self.salt = salt
    def __enter__(self):
        global ITER_SALT
        self.old, ITER_SALT = ITER_SALT, self.salt
    def __exit__(self, *a):
        global ITER_SALT
        ITER_SALT = self.old
