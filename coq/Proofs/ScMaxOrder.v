(* C03: simplices created by add_simplices_from(..., max_order = k) have at most k+1 nodes. *)
From Coq Require Import String ZArith List Bool Lia.
From XV Require Import Base.Label Base.LSet Base.ODict Base.Attr Base.Outcome Model.Hypergraph
  Model.SimplicialComplex Proofs.HgViews Proofs.HgInv Proofs.HgInvOps Proofs.HgKeys Proofs.Combs
  Proofs.ScTables Proofs.ScInv.
Import ListNotations.
Open Scope Z_scope.

(* every simplex of s is a simplex of the start state s0 or has at most b nodes *)
Definition Small (b : nat) (s0 s : hg) : Prop :=
  forall e m, Sx s e m -> Sx s0 e m \/ (length m <= b)%nat.
Definition SmallF (b : nat) (F : list (list lbl)) : Prop := forall g, In g F -> (length g <= b)%nat.

Lemma Small_refl b s : Small b s s. Proof. intros e m H. left; exact H. Qed.

Lemma Small_same_edges b s0 s s' : h_edge s' = h_edge s -> Small b s0 s -> Small b s0 s'.
Proof. intros E H. unfold Small, Sx in *. rewrite E. exact H. Qed.

Lemma Small_Ext b s0 s s' e M : Ext s s' e M -> (length M <= b)%nat -> Small b s0 s -> Small b s0 s'.
Proof.
  intros X L H e' m Hx. apply (Ext_Sx s s' e M e' m X) in Hx.
  destruct Hx as [[_ ->]|[_ Hx]]; [right; exact L|apply H; exact Hx].
Qed.

Lemma stored_length e ms a s M :
  Ext s (insert_edge e ms a s) e M -> seteq M ms -> NoDup M -> (length M <= length ms)%nat.
Proof. intros _ HM ND. apply NoDup_incl_length; [exact ND|]. intros x Hx. apply HM. exact Hx. Qed.

Lemma Small_add_face b nh s0 s l :
  Inv s -> (exists g, seteq l g /\ (length g <= b)%nat) -> Small b s0 s -> Small b s0 (add_face nh s l).
Proof.
  intros I (g & Hlg & L) H. unfold add_face. destruct l as [|x l']; [exact H|].
  destruct (has_simplex s (x :: l')); [exact H|].
  set (e := LInt (h_uid s)). set (s1 := with_uid s (h_uid s + 1)).
  assert (Hne : ~ In e (ekeys s1)) by (apply auto_id_fresh_aux; exact I).
  destruct (insert_edge_Ext e (order_by nh (x :: l')) [] s1 Hne) as (M & HM & NDM & X).
  apply (Small_Ext b s0 s _ e M); [exact X| |exact H].
  assert (HMg : seteq M g).
  { eapply seteq_trans; [exact HM|]. eapply seteq_trans; [apply order_by_seteq|exact Hlg]. }
  assert ((length M <= length g)%nat).
  { apply NoDup_incl_length; [exact NDM|]. intros y Hy. apply HMg. exact Hy. }
  lia.
Qed.

Lemma Small_fold b nh F s0 : forall L s,
  (forall l, In l L -> exists g, In g F /\ seteq l g) -> SmallF b F ->
  Inv s -> Unique s -> Nonempty s -> PreClosed s F -> Small b s0 s ->
  Small b s0 (fold_left (add_face nh) L s).
Proof.
  induction L as [|l L IH]; intros s HL SF I U N P H; simpl; [exact H|].
  destruct (HL l (or_introl eq_refl)) as (g & Hg & Hs).
  assert (HF : InF F l) by (exists g; split; assumption).
  destruct (add_face_step nh s F l I U N P HF) as (I1 & U1 & N1 & P1 & _). cbv zeta in *.
  apply IH; try assumption.
  - intros l' Hl'. apply HL. right; exact Hl'.
  - apply Small_add_face; [exact I| |exact H]. exists g. split; [exact Hs|apply SF; exact Hg].
Qed.

Lemma Small_add_faces b F hint s0 s :
  Inv s -> Unique s -> Nonempty s -> PreClosed s F -> SmallF b F -> Small b s0 s ->
  Small b s0 (add_faces F hint s).
Proof.
  intros I U N P SF H. unfold add_faces. apply (Small_fold b (snd hint) F s0); try assumption.
  intros l Hl. apply (order_faces_sound F (fst hint) l Hl).
Qed.

Lemma SmallF_app b F G : SmallF b F -> SmallF b G -> SmallF b (F ++ G).
Proof. intros A B g Hg. apply in_app_iff in Hg. destruct Hg; [apply A|apply B]; assumption. Qed.

Lemma SmallF_subfaces b ms : (length ms <= b)%nat -> SmallF b (subfaces ms).
Proof. intros L g Hg. destruct (subfaces_sound ms g Hg) as [_ Lg]. lia. Qed.

Lemma SmallF_powerset b ms : SmallF b (powerset_upto ms b).
Proof. intros g Hg. destruct (powerset_upto_sound ms b g Hg) as [_ Lg]. lia. Qed.

(* the loop invariant: Work plus the two size bounds *)
Definition WorkS (b : nat) (s0 s : hg) (F : list (list lbl)) : Prop :=
  Work s F /\ Small b s0 s /\ SmallF b F.

Lemma ltb_false_le a c : (a <? c)%nat = false -> (c <= a)%nat.
Proof. intro H. apply Nat.ltb_ge in H. exact H. Qed.

Lemma WorkS_main_explicit b s0 e ms a s F :
  WorkS b s0 s F -> ~ In e (ekeys s) -> ms <> [] -> has_simplex s ms = false -> (length ms <= b)%nat ->
  WorkS b s0 (bump_uid e (insert_edge e ms a s)) (F ++ subfaces ms).
Proof.
  intros (W & Sm & SF) Hne Hms Hh L.
  split; [apply Work_main_explicit; assumption|]. split; [|apply SmallF_app; [exact SF|apply SmallF_subfaces; exact L]].
  destruct (insert_edge_Ext e ms a s Hne) as (M & HM & NDM & X).
  apply (Small_same_edges b s0 (insert_edge e ms a s)); [apply bump_uid_edge|].
  apply (Small_Ext b s0 s _ e M X); [|exact Sm].
  pose proof (stored_length e ms a s M X HM NDM). lia.
Qed.

Lemma WorkS_main_auto b s0 ms a s F :
  WorkS b s0 s F -> ms <> [] -> has_simplex s ms = false -> (length ms <= b)%nat ->
  WorkS b s0 (bump_uid (LInt (h_uid s)) (insert_edge (LInt (h_uid s)) ms a (with_uid s (h_uid s + 1)))) (F ++ subfaces ms).
Proof.
  intros (W & Sm & SF) Hms Hh L.
  split; [apply Work_main_auto; assumption|]. split; [|apply SmallF_app; [exact SF|apply SmallF_subfaces; exact L]].
  pose proof W as (I & _).
  set (e := LInt (h_uid s)). set (s1 := with_uid s (h_uid s + 1)).
  assert (Hne : ~ In e (ekeys s1)) by (apply auto_id_fresh_aux; exact I).
  destruct (insert_edge_Ext e ms a s1 Hne) as (M & HM & NDM & X).
  apply (Small_same_edges b s0 (insert_edge e ms a s1)); [apply bump_uid_edge|].
  apply (Small_Ext b s0 s _ e M X); [|exact Sm].
  pose proof (stored_length e ms a s1 M X HM NDM). lia.
Qed.

Lemma WorkS_nil_app b s0 s F : WorkS b s0 s F -> WorkS b s0 s (F ++ []).
Proof. rewrite app_nil_r. auto. Qed.

Lemma WorkS_uid b s0 s F k : h_uid s <= k -> WorkS b s0 s F -> WorkS b s0 (with_uid s k) F.
Proof. intros L (W & Sm & SF). split; [apply Work_uid; assumption|]. split; [exact Sm|exact SF]. Qed.

Lemma WorkS_bulk_simplex k auto a s0 s ms idx ea F :
  WorkS (k + 1) s0 s F ->
  match bulk_simplex auto (Some k) a s ms idx ea with (s', fs, _, _) => WorkS (k + 1) s0 s' (F ++ fs) end.
Proof.
  intro W. unfold bulk_simplex.
  destruct (existsb is_none ms); [apply WorkS_nil_app; exact W|].
  destruct ((match ms with [] => true | _ => false end) || has_simplex s ms) eqn:C; [apply WorkS_nil_app; exact W|].
  apply orb_false_iff in C. destruct C as [C1 C2]. apply nil_or_not in C1.
  set (e := if auto then LInt (h_uid s) else idx). set (s1 := if auto then with_uid s (h_uid s + 1) else s).
  assert (W0 : WorkS (k + 1) s0 s1 F) by (unfold s1; destruct auto; [apply WorkS_uid; [lia|exact W]|exact W]).
  destruct (k + 1 <? length ms)%nat eqn:Q.
  - destruct W0 as ((I0 & U0 & N0 & P0) & Sm0 & SF0).
    split; [split; [exact I0|]; split; [exact U0|]; split; [exact N0|apply oversize_owed; exact P0]|].
    split; [exact Sm0|apply SmallF_app; [exact SF0|apply SmallF_powerset]].
  - apply ltb_false_le in Q.
    destruct (has e (h_edge s1)) eqn:He; [apply WorkS_nil_app; exact W0|].
    destruct (is_none e); [apply WorkS_nil_app; exact W0|].
    unfold e, s1 in *. destruct auto.
    + apply WorkS_main_auto; assumption.
    + apply WorkS_main_explicit; [exact W|apply has_false_nin; exact He|exact C1|exact C2|exact Q].
Qed.

Lemma sloop_WorkS {A} b s0 (f : hg -> A -> sres) l :
  (forall s x F, WorkS b s0 s F -> match f s x with (s', fs, _, _) => WorkS b s0 s' (F ++ fs) end) ->
  forall s F w, WorkS b s0 s F -> match sloop f l s F w with (s', F', _, _) => WorkS b s0 s' F' end.
Proof.
  intro Hf. induction l as [|x xs IH]; intros s F w W; simpl; [exact W|].
  specialize (Hf s x F W). destruct (f s x) as [[[s' fs] o] w'].
  destruct o; [apply IH; exact Hf|exact Hf].
Qed.

Lemma finish_Small b s0 hint r :
  (match r with (s', F', _, _) => WorkS b s0 s' F' end) -> Small b s0 (st_of (finish hint r)).
Proof.
  destruct r as [[[s F] o] w]. intros ((I & U & N & P) & Sm & SF). unfold finish, st_of. simpl.
  apply Small_add_faces; assumption.
Qed.

Theorem max_order_respected eb k a hint s :
  SInv s -> Small (k + 1) s (st_of (add_simplices_from eb (Some k) a hint s)).
Proof.
  intro SI. assert (W : WorkS (k + 1) s s []).
  { split; [apply SInv_Work; exact SI|]. split; [apply Small_refl|intros g []]. }
  destruct eb as [l|l|l|l|l]; simpl.
  - destruct l as [|[|x xs] r].
    + apply finish_Small. simpl. exact W.
    + apply Small_refl.
    + apply finish_Small. apply sloop_WorkS; [|exact W]. intros s' ms F W'. apply WorkS_bulk_simplex. exact W'.
  - apply finish_Small. apply sloop_WorkS; [|exact W]. intros s' [m i] F W'. apply WorkS_bulk_simplex. exact W'.
  - apply finish_Small. apply sloop_WorkS; [|exact W]. intros s' [m ea] F W'. apply WorkS_bulk_simplex. exact W'.
  - apply finish_Small. apply sloop_WorkS; [|exact W]. intros s' [[m i] ea] F W'. apply WorkS_bulk_simplex. exact W'.
  - apply finish_Small. apply sloop_WorkS; [|exact W]. intros s' [idx ms] F W'.
    destruct (existsb is_none ms); [apply WorkS_nil_app; exact W'|].
    destruct ((match ms with [] => true | _ => false end) || has_simplex s' ms) eqn:C; [apply WorkS_nil_app; exact W'|].
    apply orb_false_iff in C. destruct C as [C1 C2]. apply nil_or_not in C1.
    destruct (has idx (h_edge s')) eqn:Hi; [apply WorkS_nil_app; exact W'|].
    destruct (k + 1 <? length ms)%nat eqn:Q.
    + destruct W' as ((I0 & U0 & N0 & P0) & Sm0 & SF0).
      split; [split; [exact I0|]; split; [exact U0|]; split; [exact N0|apply oversize_owed; exact P0]|].
      split; [exact Sm0|apply SmallF_app; [exact SF0|apply SmallF_powerset]].
    + apply ltb_false_le in Q. destruct (is_none idx); [apply WorkS_nil_app; exact W'|].
      apply WorkS_main_explicit; [exact W'|apply has_false_nin; exact Hi|exact C1|exact C2|exact Q].
Qed.
