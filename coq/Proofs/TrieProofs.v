(* C15: the trie answers membership of the sorted word among the sorted inserted words. *)
From Coq Require Import String ZArith List Bool Lia.
From XV Require Import Base.Label Base.LSet Base.ODict Base.Attr Base.Outcome Model.Hypergraph Model.Hodge
  Model.Simpliciality Proofs.HodgeProofs.
Import ListNotations.

Lemma tsearch_insert_sorted w' : forall w t,
  tsearch_sorted w (tinsert_sorted w' t) = if lbls_eqb w w' then true else tsearch_sorted w t.
Proof.
  induction w' as [|c w' IH]; intros w t.
  - destruct w as [|d w]; simpl; [reflexivity|]. destruct t as [e ch]. simpl. reflexivity.
  - destruct w as [|d w]; simpl.
    + destruct t; reflexivity.
    + destruct t as [e ch]. simpl. rewrite get_set.
      destruct (lbl_eqb_spec d c) as [->|N]; simpl.
      * rewrite IH. destruct (lbls_eqb w w') eqn:E; [reflexivity|].
        destruct (get c ch) as [t'|]; [reflexivity|]. destruct w; reflexivity.
      * reflexivity.
Qed.

Lemma tsearch_empty w : tsearch_sorted w tempty = false.
Proof. destruct w; reflexivity. Qed.

(* searching after building: true iff the sorted word equals some sorted inserted word *)
Theorem trie_search ws w :
  tsearch (build_trie ws) w = existsb (fun w' => lbls_eqb (sort_simplex w) (sort_simplex w')) ws.
Proof.
  unfold build_trie, tsearch.
  assert (G : forall ws t, tsearch_sorted (sort_simplex w) (fold_left (fun t w' => tinsert w' t) ws t) =
                           existsb (fun w' => lbls_eqb (sort_simplex w) (sort_simplex w')) ws || tsearch_sorted (sort_simplex w) t).
  { induction ws0 as [|a ws0 IH]; intro t; simpl; [reflexivity|].
    rewrite IH. unfold tinsert. rewrite tsearch_insert_sorted.
    destruct (lbls_eqb (sort_simplex w) (sort_simplex a)); simpl; [apply orb_true_r|reflexivity]. }
  rewrite G, tsearch_empty. apply orb_false_r.
Qed.
