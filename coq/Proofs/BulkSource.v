(* C01: the dict format of Hypergraph.add_edges_from - the loop body regenerated from the source, run once per item - is the
   model's add_edges_from (EB5 ...). *)
From Coq Require Import String ZArith List Bool Lia.
From XV Require Import Base.Label Base.LSet Base.ODict Base.Attr Base.Outcome Model.Hypergraph Model.PyIR Gen.Mutators
     Proofs.HgViews Proofs.HgInv Proofs.HgInvOps Proofs.IRLemmas Proofs.MutatorSource.
Import ListNotations.
Open Scope Z_scope.

Lemma dict_item_ok idx ms s : has LNone (h_edge s) = false ->
  run_guarded src_add_edges_from_dict_guards src_add_edges_from_dict (mkEnv [] [] LNone [] LNone [ms] (mkset ms) (Some idx) LNone []) s =
  (if has idx (h_edge s) then warn1 s
   else if existsb is_none (mkset ms) then raise s XGIError
   else if is_none idx then raise s XGIError
   else ok (bump_uid idx (insert_edge idx ms [] s))).
Proof.
  intro Hn. unfold run_guarded, src_add_edges_from_dict_guards, src_add_edges_from_dict. cbn [run_guards beval]. hgs.
  destruct (has idx (h_edge s)) eqn:Hh; [reflexivity|].
  destruct (existsb is_none (mkset ms)) eqn:En; [reflexivity|].
  set (en := mkEnv [] [] LNone [] LNone [ms] (mkset ms) (Some idx) LNone []).
  rewrite exec_list_cons, exec_setmembers. change (veval VIdx en) with idx.
  destruct (is_none idx) eqn:Ni; [reflexivity|]. cbn [tab set_tab]. change (e_members en) with (mkset ms).
  assert (Hms : forall x, In x ms -> is_none x = false).
  { intros x Hx. destruct (is_none x) eqn:E; [|reflexivity]. exfalso.
    assert (existsb is_none (mkset ms) = true).
    { apply existsb_exists. exists x. split; [|exact E]. apply In_mkset. exact Hx. }
    congruence. }
  rewrite exec_list_cons, exec_forlocal. change (nth 0 (e_locals en) []) with ms.
  change [SNewSet TNode VLoop; SNewAttr TNode VLoop] with ([] ++ [SNewSet TNode VLoop; SNewAttr TNode VLoop]).
  rewrite (nstep_loop_ok [] VIdx idx en (fun x => eq_refl) (fun x => eq_refl) (fun x s1 _ => eq_refl) ms _ Hms).
  rewrite exec_list_cons, exec_newattr. change (veval VIdx en) with idx. rewrite Ni. cbn [atab set_atab].
  rewrite exec_list_cons, exec_uid, !exec_list_nil. change (veval VIdx en) with idx.
  rewrite insert_edge_as_nstep'.
  rewrite fold_nstep_with_edge, h_eattr_with_edge, fold_nstep_h_eattr. reflexivity.
Qed.

(* None never becomes an edge id *)
Lemma dict_item_keeps_no_none idx ms s : has LNone (h_edge s) = false ->
  has LNone (h_edge (st_of (if has idx (h_edge s) then warn1 s
   else if existsb is_none (mkset ms) then raise s XGIError
   else if is_none idx then raise s XGIError
   else ok (bump_uid idx (insert_edge idx ms [] s))))) = false.
Proof.
  intro Hn. destruct (has idx (h_edge s)); [exact Hn|]. destruct (existsb is_none (mkset ms)); [exact Hn|].
  destruct (is_none idx) eqn:Ni; [exact Hn|]. unfold st_of, ok. cbn [fst].
  destruct (bump_uid_tables idx (insert_edge idx ms [] s)) as (_ & E & _). rewrite E.
  rewrite insert_edge_as_nstep'. rewrite h_eattr_with_edge || idtac. cbn [h_edge with_eattr with_edge].
  unfold has. rewrite get_set_other; [exact Hn|]. intro X. rewrite <- X in Ni. discriminate Ni.
Qed.

Theorem add_edges_from_dict_is_source : forall a l s, has LNone (h_edge s) = false ->
  run_items src_add_edges_from_dict_guards src_add_edges_from_dict l s = add_edges_from (EB5 l) a s.
Proof.
  intro a. unfold run_items, add_edges_from.
  induction l as [|[idx ms] l IH]; intros s Hn; [reflexivity|]. cbn [loop fst snd].
  rewrite (dict_item_ok idx ms s Hn).
  pose proof (dict_item_keeps_no_none idx ms s Hn) as Hn'.
  destruct (if has idx (h_edge s) then warn1 s else _) as [[s1 o1] w1] eqn:E. unfold st_of in Hn'. cbn [fst] in Hn'.
  destruct o1 as [|x]; [|reflexivity]. rewrite (IH s1 Hn'). reflexivity.
Qed.

(* ---------- formats 1-4 ---------- *)
Theorem bulk_item_is_source explicit a ms idx ea s : NoDup (map fst a) ->
  run_bulk_item src_bulk_item_guards src_bulk_item explicit a ms idx ea s = bulk_item explicit a s ms idx ea.
Proof.
  intro NDa. unfold run_bulk_item, run_guarded, src_bulk_item_guards, src_bulk_item, bulk_item. cbn [run_guards beval]. hgs.
  destruct (has idx (h_edge s)) eqn:Hh; [reflexivity|].
  destruct (existsb is_none (mkset ms)) eqn:En; [reflexivity|].
  set (en := mkEnv [] [explicit] LNone a LNone [ms] (mkset ms) (Some idx) LNone ea).
  rewrite exec_list_cons, exec_setmembers. change (veval VIdx en) with idx.
  destruct (is_none idx) eqn:Ni; [reflexivity|]. cbn [tab set_tab]. change (e_members en) with (mkset ms).
  assert (Hms : forall x, In x ms -> is_none x = false).
  { intros x Hx. destruct (is_none x) eqn:E; [|reflexivity]. exfalso.
    assert (existsb is_none (mkset ms) = true).
    { apply existsb_exists. exists x. split; [|exact E]. apply In_mkset. exact Hx. }
    congruence. }
  rewrite exec_list_cons, exec_forlocal. change (nth 0 (e_locals en) []) with ms.
  change [SNewSet TNode VLoop; SNewAttr TNode VLoop] with ([] ++ [SNewSet TNode VLoop; SNewAttr TNode VLoop]).
  rewrite (nstep_loop_ok [] VIdx idx en (fun x => eq_refl) (fun x => eq_refl) (fun x s1 _ => eq_refl) ms _ Hms).
  rewrite exec_list_cons, exec_newattr. change (veval VIdx en) with idx. rewrite Ni. cbn [atab set_atab].
  rewrite exec_list_cons, exec_attrupdate. change (veval VIdx en) with idx. cbn [atab set_atab h_eattr with_eattr]. rewrite get_set_same, set_set_same.
  rewrite exec_list_cons, exec_attrupdateitem. change (veval VIdx en) with idx. cbn [atab set_atab h_eattr with_eattr]. rewrite get_set_same, set_set_same.
  change (e_attr en) with a. change (e_eattr en) with ea.
  assert (Ea : aupdate (aupdate [] a) ea = aupdate [] (aupdate a ea)).
  { rewrite (aupdate_nil_id a NDa). symmetry. apply aupdate_nil_id. apply aupdate_keys_nodup. exact NDa. }
  rewrite Ea.
  rewrite exec_list_cons, exec_if. cbn [beval]. change (nth 0 (e_flags en) false) with explicit.
  rewrite insert_edge_as_nstep'.
  destruct explicit.
  - rewrite exec_list_cons, exec_uid, !exec_list_nil. change (veval VIdx en) with idx.
    rewrite fold_nstep_with_edge, h_eattr_with_edge, fold_nstep_h_eattr. reflexivity.
  - rewrite !exec_list_nil. rewrite fold_nstep_with_edge, h_eattr_with_edge, fold_nstep_h_eattr. reflexivity.
Qed.

(* the four formats, with the dispatch table read from the source *)
Theorem add_edges_from_items_is_source a s : NoDup (map fst a) ->
  (forall l, run_bulk src_bulk_formats 0 src_bulk_item_guards src_bulk_item a (map (fun m => (m, LNone, [])) l) s = add_edges_from (EB1 l) a s) /\
  (forall l, run_bulk src_bulk_formats 1 src_bulk_item_guards src_bulk_item a (map (fun mi => (fst mi, snd mi, [])) l) s = add_edges_from (EB2 l) a s) /\
  (forall l, run_bulk src_bulk_formats 2 src_bulk_item_guards src_bulk_item a (map (fun me => (fst me, LNone, snd me)) l) s = add_edges_from (EB3 l) a s) /\
  (forall l, run_bulk src_bulk_formats 3 src_bulk_item_guards src_bulk_item a l s = add_edges_from (EB4 l) a s).
Proof.
  intro NDa.
  assert (L : forall A (f g : hg -> A -> res) (l : list A) s0, (forall s1 x, f s1 x = g s1 x) -> loop f l s0 = loop g l s0).
  { intros A f g l. induction l as [|x l IH]; intros s0 H; [reflexivity|]. cbn [loop]. rewrite H.
    destruct (g s0 x) as [[s1 o] w]. destruct o; [rewrite (IH s1 H)|]; reflexivity. }
  assert (M : forall A B (h : A -> B) (f : hg -> B -> res) (l : list A) s0, loop f (map h l) s0 = loop (fun s x => f s (h x)) l s0).
  { intros A B h f l. induction l as [|x l IH]; intro s0; [reflexivity|]. cbn [map loop].
    destruct (f s0 (h x)) as [[s1 o] w]. destruct o; [rewrite IH|]; reflexivity. }
  unfold run_bulk, src_bulk_formats, add_edges_from. cbn [nth]. repeat split; intro l.
  - rewrite M. apply L. intros s1 m. apply bulk_item_is_source. exact NDa.
  - rewrite M. apply L. intros s1 [m i]. cbn [fst snd]. apply bulk_item_is_source. exact NDa.
  - rewrite M. apply L. intros s1 [m ea]. cbn [fst snd]. apply bulk_item_is_source. exact NDa.
  - apply L. intros s1 [[m i] ea]. apply bulk_item_is_source. exact NDa.
Qed.

(* ---------- remove_nodes_from: the guard of the loop, then the translated remove_node ---------- *)
Lemma loop_ext_inv {A} (P : hg -> Prop) (f g : hg -> A -> res) (l : list A) :
  (forall s x, P s -> f s x = g s x) -> (forall s x, P s -> P (st_of (g s x))) -> forall s, P s -> loop f l s = loop g l s.
Proof.
  intros Hfg Hinv. induction l as [|x l IH]; intros s0 I0; [reflexivity|]. cbn [loop]. rewrite (Hfg s0 x I0).
  pose proof (Hinv s0 x I0) as I1. destruct (g s0 x) as [[s1 o] w]. unfold st_of in I1. cbn [fst] in I1.
  destruct o; [rewrite (IH s1 I1)|]; reflexivity.
Qed.

Theorem remove_nodes_from_is_source strong re ns s : Inv s ->
  run_node_items src_remove_nodes_from_guards src_remove_node ns [strong; re] s = remove_nodes_from ns strong re s.
Proof.
  unfold run_node_items, remove_nodes_from, src_remove_nodes_from_guards. apply (loop_ext_inv Inv).
  - intros s1 n I. cbn [run_guards beval]. hgs. destruct (has n (h_node s1)); cbn [negb]; [|reflexivity].
    apply remove_node_is_source. exact I.
  - intros s1 n I. destruct (has n (h_node s1)); [apply Inv_remove_node; exact I|exact I].
Qed.

(* ---------- add_nodes_from ---------- *)
Theorem add_nodes_from_is_source items a s : Inv s ->
  run_node_attr_items src_add_nodes_from_item items a s = add_nodes_from items a s.
Proof.
  unfold run_node_attr_items, add_nodes_from, src_add_nodes_from_item. apply (loop_ext_inv Inv).
  - intros s1 [n od] I. cbn [fst snd]. set (nd := match od with None => a | Some d => aupdate a d end).
    destruct I as (_ & (Kna & _) & _).
    rewrite exec_list_cons, exec_if. cbn [beval]. hgs.
    destruct (has n (h_node s1)) eqn:Hn; cbn [negb].
    + rewrite exec_list_nil, exec_list_cons, exec_attrupdate. hgs.
      assert (Ha : has n (h_nattr s1) = true) by (apply has_In; rewrite Kna; apply has_In; exact Hn).
      unfold has in Ha. destruct (get n (h_nattr s1)) as [x|] eqn:G; [|discriminate Ha].
      rewrite exec_list_nil. unfold ok, nattr_update, geta. rewrite G. reflexivity.
    + destruct (is_none n) eqn:Nn; [repeat step; rewrite Nn; reflexivity|].
      repeat step. rewrite ?exec_list_cons, exec_attrupdate. hgs. rewrite get_set_same. rewrite ?exec_list_nil.
      unfold ok, nattr_update, ensure_node, geta. rewrite Hn. hgs. rewrite get_set_same. reflexivity.
  - intros s1 [n od] I. apply (Inv_add_node_body n (match od with None => a | Some d => aupdate a d end) s1 I).
Qed.
