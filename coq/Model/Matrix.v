(* xgi/linalg/hypergraph_matrix.py and laplacian_matrix.py (C12), as the code computes them:
   the incidence matrix from the member sets, A = I I^T with the diagonal cleared and thresholded,
   K = row sums, L = order * K - A, the multi-order sum divided by the mean degree. *)
From Coq Require Import String ZArith QArith List Bool Lia.
From XV Require Import Base.Label Base.LSet Base.ODict Base.Attr Base.Outcome Model.Hypergraph Model.Hodge.
Import ListNotations.
Open Scope Z_scope.

Definition edges_of_order (s : hg) (order : option nat) : list (lbl * list lbl) :=
  match order with
  | None => h_edge s
  | Some d => filter (fun kv => Nat.eqb (length (snd kv)) (S d)) (h_edge s)
  end.

Definition b2z (b : bool) : Z := if b then 1 else 0.

(* incidence_matrix: rows = nodes, columns = edges of the order; (0 x 0) when either is empty *)
Definition incidence (s : hg) (order : option nat) : list (list Z) :=
  match edges_of_order s order, h_node s with
  | [], _ | _, [] => []
  | es, _ => map (fun n => map (fun kv => b2z (mem n (snd kv))) es) (keys (h_node s))
  end.

Definition zero_diag (m : list (list Z)) : list (list Z) :=
  map (fun ir => map (fun jx => if Nat.eqb (fst ir) (fst jx) then 0 else snd jx)
                     (combine (seq 0 (length (snd ir))) (snd ir)))
      (combine (seq 0 (length m)) m).

Definition zeros (n m : nat) : list (list Z) := repeat (repeat 0 m) n.

(* adjacency_matrix(H, order, s, weighted): A = I I^T (row_i . row_j), diagonal cleared, thresholded *)
Definition gram (n : nat) (Im : list (list Z)) : list (list Z) := map (fun r => map (fun r' => dot r r') Im) Im.
Definition adjacency' (s : hg) (order : option nat) (sv : Z) (weighted : bool) : list (list Z) :=
  let Im := incidence s order in
  let n := length (h_node s) in
  match Im with
  | [] => zeros n n
  | _ => map (map (fun a => if sv <=? a then (if weighted then a else 1) else 0)) (zero_diag (gram n Im))
  end.

Definition degree_vec (s : hg) (order : option nat) : list Z :=
  match incidence s order with
  | [] => repeat 0 (length (h_node s))
  | Im => map (fun r => fold_left Z.add r 0) Im
  end.

Definition intersection_profile (s : hg) (order : option nat) : list (list Z) :=
  let Im := incidence s order in
  let m := length (edges_of_order s order) in
  match Im with
  | [] => []
  | _ => let It := transpose m Im in gram m It
  end.

Definition diag (v : list Z) : list (list Z) :=
  map (fun ix => map (fun j => if Nat.eqb (fst ix) j then snd ix else 0) (seq 0 (length v))) (combine (seq 0 (length v)) v).

(* laplacian(H, order): order * K - A (A weighted, s = 1); (0 x 0) when A is *)
Definition laplacian (s : hg) (order : nat) : list (list Z) :=
  match h_node s with
  | [] => []
  | _ =>
      let A := adjacency' s (Some order) 1 true in
      let K := diag (degree_vec s (Some order)) in
      map (fun p => map (fun q => Z.of_nat order * fst q - snd q) (combine (fst p) (snd p))) (combine K A)
  end.

(* multiorder_laplacian(H, orders, weights): sum_d L_d * w_d / mean(K_d), skipping orders without edges *)
Definition qmat := list (list Q).
Definition multiorder_laplacian (s : hg) (orders : list nat) (weights : list Z) (rescale : bool) : qmat :=
  let n := length (h_node s) in
  fold_left (fun acc dw =>
               let '(d, w) := dw in
               let K := degree_vec s (Some d) in
               let sumK := fold_left Z.add K 0 in
               if sumK =? 0 then acc
               else
                 let L := laplacian s d in
                 (* L (/ d when rescaled per node) * w / mean(K) = L * w * n / (sum(K) [* d]) *)
                 let den := if rescale then Z.to_pos (sumK * Z.of_nat d) else Z.to_pos sumK in
                 map (fun p => map (fun q => (fst q + (snd q * w * Z.of_nat n # den))%Q) (combine (fst p) (snd p)))
                     (combine acc L))
            (combine orders weights) (repeat (repeat 0%Q n) n).

(* laplacian(H, order, rescale_per_node=True) = L / order (order >= 1) *)
Definition rescaled_laplacian (s : hg) (d : nat) : qmat :=
  map (map (fun x => (x # Z.to_pos (Z.of_nat d))%Q)) (laplacian s d).

Inductive qquery : Type :=
| QMulti (orders : list nat) (weights : list Z) (rescale : bool)
| QRescaled (d : nat).
Definition qeval (q : qquery) (s : hg) : qmat :=
  match q with
  | QMulti o w r => multiorder_laplacian s o w r
  | QRescaled d => rescaled_laplacian s d
  end.

Fixpoint qmat_eqb (a b : qmat) : bool :=
  match a, b with
  | [], [] => true
  | r :: a', r' :: b' => (fix eq (u v : list Q) := match u, v with [], [] => true | x :: u', y :: v' => Qeq_bool x y && eq u' v' | _, _ => false end) r r' && qmat_eqb a' b'
  | _, _ => false
  end.

(* ---------- adjacency_tensor(H, order): T[i0, .., id] = 1 iff (i0, .., id) enumerates, without repetition, the
   members of an edge of that order (the code writes 1 at every permutation of the member indices); given here
   flattened in row-major order, as numpy's B.flatten() ---------- *)
Fixpoint tuples (n k : nat) : list (list nat) :=
  match k with
  | O => [[]]
  | S k' => flat_map (fun i => map (cons i) (tuples n k')) (seq 0 n)
  end.
Fixpoint nat_nodupb (l : list nat) : bool :=
  match l with [] => true | x :: r => negb (existsb (Nat.eqb x) r) && nat_nodupb r end.
Fixpoint pos_in (x : lbl) (l : list lbl) (i : nat) : nat :=
  match l with [] => i | y :: r => if lbl_eqb x y then i else pos_in x r (S i) end.
Definition node_pos (s : hg) (x : lbl) : nat := pos_in x (keys (h_node s)) O.
Definition enumerates (s : hg) (idx : list nat) (m : list lbl) : bool :=
  Nat.eqb (length idx) (length m) && nat_nodupb idx &&
  forallb (fun x => existsb (Nat.eqb (node_pos s x)) idx) m.
Definition tensor_entry (s : hg) (d : nat) (idx : list nat) : Z :=
  b2z (existsb (fun kv => Nat.eqb (length (snd kv)) (S d) && enumerates s idx (snd kv)) (h_edge s)).
Definition adjacency_tensor_flat (s : hg) (d : nat) : list Z :=
  map (tensor_entry s d) (tuples (length (h_node s)) (S d)).

(* ---------- correspondence ---------- *)
Inductive mquery : Type :=
| MTensor (order : nat)
| MIncidence (order : option nat)
| MAdjacency (order : option nat) (sv : Z) (weighted : bool)
| MDegree (order : option nat)
| MIntersection (order : option nat)
| MCliqueMotif
| MLaplacian (order : nat).

Definition vec_as_matrix (v : list Z) : list (list Z) := [v].

Definition meval (q : mquery) (s : hg) : list (list Z) :=
  match q with
  | MIncidence o => incidence s o
  | MAdjacency o sv w => adjacency' s o sv w
  | MDegree o => vec_as_matrix (degree_vec s o)
  | MIntersection o => intersection_profile s o
  | MCliqueMotif => adjacency' s None 1 true
  | MLaplacian d => laplacian s d
  | MTensor d => vec_as_matrix (adjacency_tensor_flat s d)
  end.

Fixpoint m_first_bad (s : hg) (qs : list (mquery * list (list Z))) (j : nat) : option nat :=
  match qs with
  | [] => None
  | (q, m) :: r => if mat_eqb (meval q s) m then m_first_bad s r (S j) else Some j
  end.
Fixpoint matrix_bad_from (cases : list (list op * list (mquery * list (list Z)) * list (qquery * qmat))) (i : nat)
  : list (nat * nat) :=
  match cases with
  | [] => []
  | (ops, qs, mo) :: r =>
      let s := run ops hg_empty in
      match m_first_bad s qs O with
      | Some j => (i, j) :: matrix_bad_from r (S i)
      | None =>
          if forallb (fun '(q, m) => qmat_eqb (qeval q s) m) mo
          then matrix_bad_from r (S i) else (i, 99%nat) :: matrix_bad_from r (S i)
      end
  end.
Definition matrix_bad cases := matrix_bad_from cases O.
