(* C07 - copies, pickles and network-to-network constructors are equal and independent.
   PARTIAL: what is proved here is that the duplicates built by copy() / Hypergraph(H) (the code
   rebuilds the network through add_nodes_from / add_edges_from) are well-formed and keep assigning
   fresh ids, for every source state; equality with the source and independence (including nested
   attribute values, which need an aliasing model) are decided by the correspondence and the oracle
   of this property, not by a theorem. *)
From Coq Require Import String ZArith List Bool.
From XV Require Import Base.Label Base.LSet Base.ODict Base.Attr Base.Outcome Model.Hypergraph
  Model.HgCheck Model.Copy Proofs.HgViews Proofs.HgInv Proofs.HgStep Proofs.CopyProofs Proofs.DerivedProofs Proofs.NoNoneProofs.
Import ListNotations.
Open Scope Z_scope.

Theorem C07_pickle_equal : forall s, pickle_roundtrip s = s.
Proof. reflexivity. Qed.
Print Assumptions C07_pickle_equal.

(* route = true: copy() (the counter is taken from the source); false: Hypergraph(H) *)
Theorem C07_duplicate_wellformed_partial : forall route s, Inv s -> Inv (st_of (hg_dup route s)).
Proof. exact hg_dup_Inv. Qed.
Print Assumptions C07_duplicate_wellformed_partial.

Theorem C07_both_fresh_ids : forall route s, Inv s ->
  ~ In (LInt (h_uid s)) (ekeys s) /\
  ~ In (LInt (h_uid (st_of (hg_dup route s)))) (ekeys (st_of (hg_dup route s))).
Proof.
  intros route s I. split; [apply Proofs.HgStep.auto_id_fresh; exact I|apply hg_dup_fresh; exact I].
Qed.
Print Assumptions C07_both_fresh_ids.

(* copy() (route = true) and Hypergraph(H) (route = false) succeed and return a network with the
   same nodes and edges in the same order, the same members (as sets), the same attribute records
   (aupdate [] (aupdate [] d) is the dict d rebuilt key by key: equal to d for a dict, whose keys
   are distinct), the same memberships and network attributes; copy() also has the same next id.
   NoNone (None is never a node or edge id) holds in every state the library can reach, because
   IDDict refuses the key None; it is a hypothesis here, not yet an invariant proved for all ops. *)
Theorem C07_copy_equal : forall route s, Inv s -> NoNone s ->
  let r := hg_dup route s in
  let t := st_of r in
  Proofs.HgErrors.out_of r = Ok /\ Inv t /\
  nkeys t = nkeys s /\ ekeys t = ekeys s /\
  (forall e, In e (ekeys s) -> (exists M, get e (h_edge t) = Some M /\ seteq M (mems s e)) /\
                                get e (h_eattr t) = Some (aupdate [] (aupdate [] (geta e (h_eattr s))))) /\
  (forall n, In n (nkeys s) -> get n (h_nattr t) = Some (aupdate [] (aupdate [] (geta n (h_nattr s)))) /\
                               seteq (mships t n) (mships s n)) /\
  h_net t = h_net s /\ (route = true -> h_uid t = h_uid s).
Proof. exact hg_dup_equal. Qed.
Print Assumptions C07_copy_equal.

Example C07_nonvacuous :
  let s := run [OAddEdge [LInt 1; LInt 2] (Some (LInt 5)) [("w"%string, AInt 1)];
                OAddEdge [LInt 2; LInt 3] None []; ORemoveEdge (LInt 6); OAddNode (LStr "iso") []] hg_empty in
  let c := st_of (hg_dup true s) in
  keys (h_node c) = keys (h_node s) /\ h_edge c = h_edge s /\ h_eattr c = h_eattr s /\ h_uid c = 7 /\
  h_uid (st_of (hg_dup false s)) = 6.
Proof. vm_compute. repeat split. Qed.
Print Assumptions C07_nonvacuous.

(* the premises Inv and NoNone hold at every state reachable by an admissible history in which no
   explicit edge id is None (Python cannot pass one: idx=None means "automatic") *)
Theorem C07_premises_reachable : forall ops,
  admissible_history hg_empty ops -> expressible_history ops ->
  Inv (run ops hg_empty) /\ NoNone (run ops hg_empty).
Proof. intros ops A E. apply run_NoNone; [exact A|exact E|apply Inv_empty|apply NoNone_empty]. Qed.
Print Assumptions C07_premises_reachable.
