(* C19: from_max_simplices keeps exactly the maximal simplices (and every node). *)
From Coq Require Import String ZArith List Bool Lia.
From XV Require Import Base.Label Base.LSet Base.ODict Base.Attr Base.Outcome Model.Hypergraph Model.HgCheck
     Model.Hodge Model.Matrix Model.Graph Model.SimplicialComplex Model.Copy Model.DiHypergraph Model.Convert Model.Derived
     Proofs.HgViews Proofs.HgInv Proofs.HgInvOps Proofs.HgStep Proofs.HgKeys Proofs.HgErrors Proofs.ScTables
     Proofs.Build Proofs.DerivedProofs Proofs.ConvertProofs Proofs.DualProofs Proofs.UnionProofs.
Import ListNotations.
Open Scope Z_scope.

(* e is listed exactly when no other edge contains it *)
Lemma maximal_ids_spec s e :
  In e (maximal_ids s) <->
  exists ms, In (e, ms) (h_edge s) /\ forall e' ms', In (e', ms') (h_edge s) -> e' = e \/ ~ (forall x, In x ms -> In x ms').
Proof.
  unfold maximal_ids. rewrite in_map_iff. split.
  - intros ([e0 ms] & <- & H). apply filter_In in H. destruct H as [Hin Hall]. exists ms. split; [exact Hin|].
    intros e' ms' Hin'. rewrite forallb_forall in Hall. specialize (Hall (e', ms') Hin'). cbn [fst snd] in Hall.
    apply orb_true_iff in Hall. destruct Hall as [H|H]; [left; apply lbl_eqb_eq; exact H|].
    right. intro Hs. apply negb_true_iff in H. apply ssubset_spec in Hs. congruence.
  - intros (ms & Hin & Hall). exists (e, ms). split; [reflexivity|]. apply filter_In. split; [exact Hin|].
    apply forallb_forall. intros [e' ms'] Hin'. cbn [fst snd]. apply orb_true_iff.
    destruct (Hall e' ms' Hin') as [->|H]; [left; apply lbl_eqb_refl|].
    right. apply negb_true_iff. destruct (ssubset ms ms') eqn:E; [|reflexivity].
    exfalso. apply H. apply ssubset_spec. exact E.
Qed.

Theorem from_max_simplices_spec s : Inv s -> NoNone s ->
  let r := from_max_simplices s in
  let t := st_of r in
  let mx := maximal_ids s in
  out_of r = Ok /\ Inv t /\
  (forall x, In x (nkeys t) <-> In x (nkeys s)) /\
  ekeys t = map (fun j => LInt (Z.of_nat j)) (seq 0 (length mx)) /\
  (forall j, (j < length mx)%nat -> seteq (mems t (LInt (Z.of_nat j))) (mems s (nth j mx LNone))).
Proof.
  intros I N. cbv zeta. unfold from_max_simplices.
  destruct (add_nodes_from_struct (map (fun n => (n, None)) (keys (h_node s))) [] hg_empty Inv_empty) as (O1 & I1 & E1 & _ & K1 & _).
  { intros it Hit. apply in_map_iff in Hit. destruct Hit as (n & <- & Hn). cbn [fst]. intro E. subst n.
    destruct N as [NN _]. apply NN. exact Hn. }
  set (r1 := add_nodes_from (map (fun n => (n, None)) (keys (h_node s))) [] hg_empty) in *. set (s1 := st_of r1) in *.
  match goal with |- context [bind r1 ?k] => destruct (bind_ok_st r1 k O1) as [Est Eout] end. rewrite Est, Eout. clear Est Eout.
  cbv beta. fold s1.
  assert (Fn : map fst (map (fun n : lbl => (n, @None attrs)) (keys (h_node s))) = nkeys s).
  { rewrite map_map. cbn [fst]. apply map_id. }
  assert (Ek1 : ekeys s1 = []) by (unfold ekeys; rewrite E1; reflexivity).
  assert (U1 : h_uid s1 = 0).
  { unfold s1, r1. rewrite add_nodes_from_uid. reflexivity. }
  set (L := map (fun e => getl e (h_edge s)) (maximal_ids s)).
  assert (Hmx : forall e, In e (maximal_ids s) -> In e (ekeys s)).
  { intros e He. apply maximal_ids_spec in He. destruct He as (ms & Hin & _). unfold ekeys, keys. apply (in_map fst _ _ Hin). }
  assert (HL : forall m, In m L -> existsb is_none (mkset m) = false).
  { intros m Hm. unfold L in Hm. apply in_map_iff in Hm. destruct Hm as (e & <- & He).
    apply no_none_members. intro Hx. destruct N as [NN _]. apply NN. apply (members_are_nodes s e LNone I). exact Hx. }
  assert (Res : forall r2, r2 = match L with [] => ok s1 | l0 :: l1 => add_edges_from (EB1 (l0 :: l1)) [] s1 end ->
           out_of r2 = Ok /\ Inv (st_of r2) /\
           (forall x, In x (nkeys (st_of r2)) <-> In x (nkeys s1) \/ exists m, In m L /\ In x m) /\
           ekeys (st_of r2) = map (fun j => LInt (Z.of_nat j)) (seq 0 (length L)) /\
           (forall j, (j < length L)%nat -> seteq (mems (st_of r2) (LInt (Z.of_nat j))) (nth j L []))).
  { intros r2 ->. destruct L as [|m0 L0] eqn:EL.
    - rewrite st_of_ok. unfold out_of, ok. cbn [fst snd length seq map]. split; [reflexivity|]. split; [exact I1|].
      split; [intro x; split; [auto|intros [H|(m & [] & _)]; exact H]|]. split; [exact Ek1|]. intros j Hj. lia.
    - rewrite <- EL in *. cbn [add_edges_from].
      change (loop _ L s1) with (loop (auto_step []) L s1).
      destruct (auto_loop_effect [] L s1 I1 HL) as (O2 & I2 & K2 & _ & M2 & _ & N2).
      rewrite Ek1, U1 in K2. cbn [app] in K2.
      split; [exact O2|]. split; [exact I2|]. split; [exact N2|]. split.
      + rewrite K2. apply map_ext. intro j. f_equal; lia.
      + intros j Hj. specialize (M2 j Hj). rewrite U1 in M2. replace (0 + Z.of_nat j) with (Z.of_nat j) in M2 by lia. exact M2. }
  destruct (Res _ eq_refl) as (O2 & I2 & N2 & K2 & M2).
  fold L.
  split; [exact O2|]. split; [exact I2|]. split.
  - intro x. rewrite N2, K1, Fn. cbn [nkeys hg_empty h_node keys map]. split.
    + intros [[[]|H]|(m & Hm & Hx)]; [exact H|]. unfold L in Hm. apply in_map_iff in Hm. destruct Hm as (e & <- & He).
      apply (members_are_nodes s e x I). exact Hx.
    + intro H. left. right. exact H.
  - unfold L in K2, M2. rewrite map_length in K2, M2. split; [exact K2|].
    intros j Hj. specialize (M2 j Hj).
    rewrite (nth_indep _ [] ((fun e => getl e (h_edge s)) LNone)) in M2 by (rewrite map_length; exact Hj).
    rewrite (map_nth (fun e => getl e (h_edge s))) in M2. exact M2.
Qed.
