"""Correspondence check for the state-machine models: generated edit histories are executed on the
implementation, written with their observations into Cases/*.v, and the model is evaluated on
them inside Coq (vm_compute); mismatching (case, step) pairs come back and are minimised."""
import json, os, random
from . import common as C


def gen_histories(sim, n_cases, max_len, seed, malformed_share=0.15, corpus=(), iter_share=0.0):
    """iter_share: share of the histories in which member collections are handed to the implementation as tuples,
    one-shot iterators or generators instead of lists (C.members); the record keeps the salt for replays."""
    rng = random.Random(seed)
    irng = random.Random(seed * 7919 + 17)
    recs = []
    for ops in corpus:
        recs.append(sim.run_history(list(ops)))
    for i in range(n_cases):
        style = rng.choice(sim.STYLES)
        malformed = rng.random() < malformed_share
        length = rng.randint(3, max_len)
        salt = irng.randrange(1, 2 ** 31) if irng.random() < iter_share else None
        with C.presenting(salt):
            r = sim.run_history(None, length=length, rng=random.Random(rng.randrange(2 ** 62)),
                                style=style, malformed=malformed)
        r["style"] = style
        r["malformed"] = malformed
        r["iter_salt"] = salt
        recs.append(r)
    return recs


def eval_histories(prop, sim, recs, coq_import, proj_term, shard=250, cdir=None, canary=True):
    """Returns (mismatches as list of (case index, step index or -1), errors list).
    A canary (a copy of a real case with a planted divergence, index -1) is evaluated with the
    first shard and must come back as a mismatch, otherwise the evaluation itself is reported
    as broken."""
    own = cdir is None
    cdir = cdir or C.cases_dir(prop)
    mism, errors = [], []
    terms = []
    for i, r in enumerate(recs):
        t = sim.history_to_gallina(r)
        if t is None:
            # observation could not be taken or serialised: a mismatch by itself
            mism.append((i, len(r["ops"]) - 1))
        else:
            terms.append((i, t))
    canary_planted = False
    if canary and terms:
        import copy as _copy
        for i, _ in terms:
            if recs[i]["ops"]:
                c = sim.corrupt(_copy.deepcopy(recs[i]))
                t = sim.history_to_gallina(c)
                if t is not None:
                    terms.insert(0, (-1, t))
                    canary_planted = True
                break
    files = {}
    for k in range(0, len(terms), shard):
        chunk = terms[k:k + shard]
        path = os.path.join(cdir, f"cases_{prop}_{k // shard}.v")
        body = ("Definition cases := [\n" + ";\n".join(t for _, t in chunk) + "\n].\n" +
                f"Eval vm_compute in (mismatches {proj_term} cases).\n")
        C.write_case_file(path, [coq_import], body)
        files[path] = [i for i, _ in chunk]
    results = C.run_coq_files(files.keys())
    for path, idxs in files.items():
        rc, out = results[path]
        pairs = C.parse_pairs(out) if rc == 0 else None
        if pairs is None:
            errors.append({"file": os.path.basename(path), "rc": rc, "output": out[-1500:]})
            continue
        for ci, si in pairs:
            mism.append((idxs[ci], si))
    if canary_planted:
        if not any(ci == -1 for ci, _ in mism) and not errors:
            errors.append({"file": "canary", "rc": 0, "output": "planted divergence was not reported"})
        mism = [(ci, si) for ci, si in mism if ci != -1]
    if own:
        C.clean_cases(cdir)
    return sorted(mism), errors


def shrink(prop, sim, ops, coq_import, proj_term, budget=24):
    """Greedy one-at-a-time removal of ops while model and implementation still disagree."""
    cdir = C.cases_dir(prop + "-shrink")
    def disagrees(cand):
        r = sim.run_history(list(cand))
        m, errs = eval_histories(prop, sim, [r], coq_import, proj_term, cdir=cdir)
        return bool(m) or bool(errs)
    cur = list(ops)
    i = len(cur) - 2
    while i >= 0 and budget > 0:
        cand = cur[:i] + cur[i + 1:]
        budget -= 1
        if disagrees(cand):
            cur = cand
        i -= 1
    C.clean_cases(cdir)
    return cur


def model_trace(prop, sim, ops, coq_import, trace_fn="trace"):
    """Raw text of the model's own observations along a history (stored in replays, never parsed)."""
    cdir = C.cases_dir(prop + "-trace")
    r = sim.run_history(list(ops))
    t = sim.history_to_gallina(r)
    out = "(history not serialisable)"
    if t is not None:
        path = os.path.join(cdir, "trace.v")
        C.write_case_file(path, [coq_import],
                          f"Definition h := {t}.\nEval vm_compute in ({trace_fn} (map fst h)).\n")
        rc, out = C.run_coq_files([path])[path]
    C.clean_cases(cdir)
    return r, out[-6000:]


def stats(recs):
    ops = [op[0] for r in recs for op in r["ops"]]
    excs = [e or "Ok" for r in recs for e in r["excs"]]
    sizes = []
    for r in recs:
        last = r["obs"][-1] if r["obs"] else None
        if last and not last.get("broken"):
            sizes.append((len(last["nodes"]), len(last["edges"])))
    nontrivial = set()
    for r in recs:
        changed = False
        prev = None
        for ob in r["obs"]:
            key = repr((ob.get("nodes"), ob.get("edges")))
            if prev is not None and key != prev:
                changed = True
            prev = key
        if changed:
            nontrivial.add(C.case_hash(r["ops"]))
    return {
        "op_histogram": C.histogram(ops),
        "outcome_histogram": C.histogram(excs),
        "final_size_histogram": {f"{n}n/{m}e": c for (n, m), c in list(C.histogram(sizes).items())[:12]},
        "style_histogram": C.histogram([r.get("style", "corpus") for r in recs]),
        "malformed_cases": sum(1 for r in recs if r.get("malformed")),
        "calls": len(ops),
        "distinct_nontrivial": len(nontrivial),
    }


def load_corpus(prop):
    p = os.path.join(C.VERIF, "corpus", f"{prop}.json")
    if not os.path.exists(p):
        return []
    def tup(x):
        if isinstance(x, list):
            return [tup(y) for y in x]
        if isinstance(x, dict) and "__tuple__" in x:
            return tuple(tup(y) for y in x["__tuple__"])
        if isinstance(x, dict) and "__dict__" in x:
            return {k: tup(v) for k, v in x["__dict__"]}
        return x
    return [tup(h) for h in json.load(open(p))]


def jsonable(x):
    if isinstance(x, tuple):
        return {"__tuple__": [jsonable(y) for y in x]}
    if isinstance(x, list):
        return [jsonable(y) for y in x]
    if isinstance(x, dict):
        return {"__dict__": [[k, jsonable(v)] for k, v in x.items()]}
    if isinstance(x, (set, frozenset)):
        return {"__set__": sorted(map(repr, x))}
    return x


def unjson(x):
    if isinstance(x, list):
        return [unjson(y) for y in x]
    if isinstance(x, dict) and "__tuple__" in x:
        return tuple(unjson(y) for y in x["__tuple__"])
    if isinstance(x, dict) and "__dict__" in x:
        return {k: unjson(v) for k, v in x["__dict__"]}
    return x


def replay_history(prop, sim, payload, coq_import, proj_term, oracle_history):
    """Re-execute the history of a replay file on implementation, oracle and model, side by side."""
    detail = payload.get("detail", payload)
    hist = detail.get("history") or payload.get("history")
    if hist is None:
        print("replay file has no history; broken obligation:", payload.get("broken"), detail)
        return 1
    ops = unjson(hist)
    C.ITER_SALT = detail.get("iter_salt") or payload.get("iter_salt")
    r, mtrace = model_trace(prop, sim, ops, coq_import)
    if (detail.get("presentation") or payload.get("presentation")) == "intlike":
        # the history was found with explicit integer ids handed over as numpy integers / whole floats: try such presentations
        from . import hgsim as _H

        class _Const:
            def __init__(self, x): self.x = x
            def random(self): return self.x
        try:
            for pres in [_Const(0.9), _Const(0.5)] + [random.Random(k) for k in range(10)]:
                _H.PRESENT = pres
                r, mtrace = model_trace(prop, sim, ops, coq_import)
                m0, _ = eval_histories(prop, sim, [r], coq_import, proj_term)
                if oracle_history(r) or m0:
                    print("(explicit integer ids presented as numpy integers / whole floats)")
                    break
        finally:
            _H.PRESENT = None
    for i, (op, exc, w, ob) in enumerate(zip(r["ops"], r["excs"], r["warns"], r["obs"])):
        print(f"step {i}: {op}\n   implementation: outcome={exc or 'returns'} warnings={w}")
        for k in ("nodes", "edges", "nattr", "eattr", "uid", "broken"):
            if k in ob and ob[k] not in (None,):
                print(f"      {k}: {ob[k]}")
    f = oracle_history(r)
    print("oracle:", f"FAILS at step {f[0]}: {f[1]}" if f else "holds on every observed state")
    m, errs = eval_histories(prop, sim, [r], coq_import, proj_term)
    print("correspondence:", f"model and implementation differ at step {m[0][1]}" if m else "model agrees with implementation", errs or "")
    print("model trace (raw Coq output):\n" + mtrace)
    return 1 if (f or m) else 0
