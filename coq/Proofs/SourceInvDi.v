(* C02: the two-sided class invariant holds of the programs regenerated from xgi/core/dihypergraph.py themselves - a corollary of
   the source tie and of the invariant theorems. *)
From Coq Require Import String ZArith List Bool Lia.
From XV Require Import Base.Label Base.LSet Base.ODict Base.Attr Base.Outcome Model.Hypergraph Model.DiHypergraph Model.PyIR Model.PyIRD
     Gen.DiMutators Proofs.HgViews Proofs.HgInv Proofs.HgInvOps Proofs.DiInv Proofs.DiMutatorSource.
Import ListNotations.
Open Scope Z_scope.

(* the same for the seven regenerated DiHypergraph programs and the two-sided invariant *)
Theorem di_source_programs_keep_DInv d : DInv d -> h_net (hs d) = [] -> has LNone (h_edge (ts d)) = false ->
  (forall n a, DInv (dst_of (run_dmethod dsrc_add_node [n] [] DirInvalid a [] d))) /\
  (forall e n dir, DInv (dst_of (run_dmethod dsrc_add_node_to_edge [e; n] [] dir [] [] d))) /\
  (forall e, DInv (dst_of (run_dmethod dsrc_remove_edge [e] [] DirInvalid [] [] d))) /\
  (forall es, DInv (dst_of (run_dmethod dsrc_remove_edges_from [] [] DirInvalid [] es d))) /\
  (forall e n dir re, DInv (dst_of (run_dmethod dsrc_remove_node_from_edge [e; n] [re] dir [] [] d))) /\
  (forall b, DInv (dst_of (run_dmethod dsrc_clear [] [b] DirInvalid [] [] d))) /\
  (forall tl hd idx a, idx <> Some LNone ->
     DInv (dst_of (run_dmethod_e dsrc_add_edge_guards1 dsrc_add_edge_guards2 dsrc_add_edge tl hd idx a d))) /\
  (forall n strong re, DInv (dst_of (run_dmethod dsrc_remove_node [n] [strong; re] DirInvalid [] [] d))).
Proof.
  intros I Hn HN. split; [|split; [|split; [|split; [|split; [|split; [|split]]]]]].
  - intros n a. rewrite (d_add_node_is_source n a d I). apply DInv_add_node_body. exact I.
  - intros e n dir. rewrite (d_add_node_to_edge_is_source e n dir d I). apply DInv_add_node_to_edge. exact I.
  - intro e. rewrite (d_remove_edge_is_source e d I). apply DInv_remove_edge. exact I.
  - intro es. rewrite (d_remove_edges_from_is_source es d I). apply DInv_remove_edges_from. exact I.
  - intros e n dir re. rewrite (d_remove_node_from_edge_is_source e n dir re d I). apply DInv_remove_node_from_edge. exact I.
  - intro b. rewrite (d_clear_is_source b d Hn). apply DInv_clear. exact I.
  - intros tl hd idx a Hi. rewrite (d_add_edge_is_source tl hd idx a d I Hi HN). apply DInv_add_edge. exact I.
  - intros n st re. rewrite (d_remove_node_is_source n st re d I). apply DInv_remove_node. exact I.
Qed.
