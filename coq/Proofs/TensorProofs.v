(* C12: the adjacency tensor.  An entry is 1 exactly when its index tuple enumerates, without repetition, the
   member positions of an edge of the order; the tensor is symmetric under every permutation of the indices. *)
From Coq Require Import String ZArith List Bool Lia Permutation.
From XV Require Import Base.Label Base.LSet Base.ODict Base.Attr Base.Outcome Model.Hypergraph Model.Hodge Model.Matrix.
Import ListNotations.
Open Scope Z_scope.

Lemma nat_nodupb_spec l : nat_nodupb l = true <-> NoDup l.
Proof.
  induction l as [|x l IH]; cbn [nat_nodupb]; [split; [constructor|reflexivity]|].
  rewrite andb_true_iff, negb_true_iff, IH. split.
  - intros [H1 H2]. constructor; [|exact H2]. intro Hi.
    assert (existsb (Nat.eqb x) l = true) by (apply existsb_exists; exists x; split; [exact Hi|apply Nat.eqb_refl]). congruence.
  - intro H. inversion H as [|? ? Hx Hl]; subst. split; [|exact Hl].
    destruct (existsb (Nat.eqb x) l) eqn:E; [|reflexivity]. exfalso. apply existsb_exists in E. destruct E as (y & Hy & Ey).
    apply Nat.eqb_eq in Ey. subst. contradiction.
Qed.

Lemma enumerates_spec s idx m :
  enumerates s idx m = true <->
  length idx = length m /\ NoDup idx /\ forall x, In x m -> In (node_pos s x) idx.
Proof.
  unfold enumerates. rewrite !andb_true_iff, Nat.eqb_eq, nat_nodupb_spec, forallb_forall. split.
  - intros [[A B] Cc]. split; [exact A|]. split; [exact B|]. intros x Hx. specialize (Cc x Hx).
    apply existsb_exists in Cc. destruct Cc as (i & Hi & E). apply Nat.eqb_eq in E. subst. exact Hi.
  - intros (A & B & Cc). split; [split; assumption|]. intros x Hx. apply existsb_exists. exists (node_pos s x).
    split; [apply Cc; exact Hx|apply Nat.eqb_refl].
Qed.

(* every entry is 0 or 1, and it is 1 exactly for the enumerations of the edges of the order *)
Theorem tensor_entry_spec s d idx :
  (tensor_entry s d idx = 1 <->
   exists e m, In (e, m) (h_edge s) /\ length m = S d /\ length idx = S d /\ NoDup idx /\
               forall x, In x m -> In (node_pos s x) idx) /\
  (tensor_entry s d idx = 0 \/ tensor_entry s d idx = 1).
Proof.
  unfold tensor_entry. destruct (existsb _ (h_edge s)) eqn:E; cbn [b2z].
  - split; [|right; reflexivity]. split; [intros _|reflexivity].
    apply existsb_exists in E. destruct E as ([e m] & Hin & H). cbn [snd] in H. apply andb_true_iff in H. destruct H as [L En].
    apply Nat.eqb_eq in L. apply enumerates_spec in En. destruct En as (A & B & Cc).
    exists e, m. split; [exact Hin|]. split; [exact L|]. split; [lia|]. split; assumption.
  - split; [|left; reflexivity]. split; [discriminate|]. intros (e & m & Hin & L & Li & ND & Cc). exfalso.
    assert (existsb (fun kv : lbl * list lbl => Nat.eqb (length (snd kv)) (S d) && enumerates s idx (snd kv)) (h_edge s) = true).
    { apply existsb_exists. exists (e, m). split; [exact Hin|]. cbn [snd]. apply andb_true_iff. split; [apply Nat.eqb_eq; exact L|].
      apply enumerates_spec. split; [lia|]. split; assumption. }
    congruence.
Qed.

(* symmetric: permuting the indices does not change the entry *)
Theorem tensor_symmetric s d idx idx' : Permutation idx idx' -> tensor_entry s d idx = tensor_entry s d idx'.
Proof.
  intro P.
  assert (G : forall a b, Permutation a b -> tensor_entry s d a = 1 -> tensor_entry s d b = 1).
  { intros a b Pab H. apply (proj1 (tensor_entry_spec s d a)) in H. destruct H as (e & m & Hin & L & Li & ND & Cc).
    apply (proj1 (tensor_entry_spec s d b)). exists e, m. split; [exact Hin|]. split; [exact L|].
    split; [rewrite <- (Permutation_length Pab); exact Li|]. split; [apply (Permutation_NoDup Pab ND)|].
    intros x Hx. apply (Permutation_in _ Pab). apply Cc. exact Hx. }
  destruct (proj2 (tensor_entry_spec s d idx)) as [H0|H1]; destruct (proj2 (tensor_entry_spec s d idx')) as [H0'|H1']; try congruence.
  - rewrite (G idx' idx (Permutation_sym P) H1') in H0. discriminate.
  - rewrite (G idx idx' P H1) in H0'. discriminate.
Qed.

(* the flattened tensor lists the entries of all index tuples, row-major: N^(d+1) of them *)
Lemma tuples_length n : forall k, length (tuples n k) = (n ^ k)%nat.
Proof.
  induction k as [|k IH]; [reflexivity|]. cbn [tuples Nat.pow].
  assert (G : forall l, length (flat_map (fun i => map (cons i) (tuples n k)) l) = (length l * n ^ k)%nat).
  { induction l as [|i l IHl]; [reflexivity|]. cbn [flat_map length]. rewrite app_length, map_length, IH, IHl. lia. }
  rewrite G, seq_length. reflexivity.
Qed.

Theorem tensor_flat_length s d : length (adjacency_tensor_flat s d) = (length (h_node s) ^ S d)%nat.
Proof. unfold adjacency_tensor_flat. rewrite map_length. apply tuples_length. Qed.
