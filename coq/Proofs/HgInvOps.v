(* Preservation of Inv by the ops of Model/Hypergraph.v. *)
From Coq Require Import String ZArith List Bool Lia.
From XV Require Import Base.Label Base.LSet Base.ODict Base.Attr Base.Outcome Model.Hypergraph
  Proofs.HgViews Proofs.HgInv.
Import ListNotations.
Open Scope Z_scope.

(* ---------- combinators ---------- *)

Lemma loop_inv {A} (P : hg -> Prop) (f : hg -> A -> res) l :
  (forall s x, P s -> P (st_of (f s x))) -> forall s, P s -> P (st_of (loop f l s)).
Proof.
  intro Hf. induction l as [|x xs IH]; intros s Hs; simpl; [exact Hs|].
  specialize (Hf s x Hs). destruct (f s x) as [[s' o] w]. unfold st_of in Hf; simpl in Hf.
  destruct o; [|exact Hf].
  specialize (IH s' Hf). destruct (loop f xs s') as [[s'' o'] w']. exact IH.
Qed.

Lemma bind_inv (P : hg -> Prop) (r : res) (k : hg -> res) :
  P (st_of r) -> (forall s, P s -> P (st_of (k s))) -> P (st_of (bind r k)).
Proof.
  intros Hr Hk. destruct r as [[s o] w]. unfold st_of in Hr; simpl in Hr. unfold bind.
  destruct o; [|exact Hr].
  specialize (Hk s Hr). destruct (k s) as [[s' o'] w']. exact Hk.
Qed.

Lemma st_of_ok s : st_of (ok s) = s. Proof. reflexivity. Qed.
Lemma st_of_warn1 s : st_of (warn1 s) = s. Proof. reflexivity. Qed.
Lemma st_of_raise s e : st_of (raise s e) = s. Proof. reflexivity. Qed.

(* ---------- changes that keep the structure ---------- *)

Lemma Inv_same_struct s s' :
  h_node s' = h_node s -> h_edge s' = h_edge s ->
  keys (h_nattr s') = keys (h_nattr s) -> keys (h_eattr s') = keys (h_eattr s) ->
  h_uid s <= h_uid s' -> Inv s -> Inv s'.
Proof.
  intros Hn He Hna Hea Hu (W & (K1 & K2 & K3 & K4) & (V1 & V2) & U).
  split; [|split; [|split]].
  - intros n e. unfold mships, mems. rewrite Hn, He. apply W.
  - unfold KWF. rewrite Hn, He, Hna, Hea. auto.
  - unfold VND, mships, mems. rewrite Hn, He. split; assumption.
  - intros e z Hi Hz. unfold ekeys in Hi. rewrite He in Hi. specialize (U e z Hi Hz). lia.
Qed.

Lemma Inv_with_uid s k : h_uid s <= k -> Inv s -> Inv (with_uid s k).
Proof. intros H. apply Inv_same_struct; simpl; auto. Qed.

Lemma Inv_with_net s v : Inv s -> Inv (with_net s v).
Proof. apply Inv_same_struct; simpl; auto; lia. Qed.

Lemma Inv_bump e s : Inv s -> Inv (bump_uid e s).
Proof.
  destruct (bump_uid_tables e s) as (A & B & C & D & _).
  apply Inv_same_struct; try congruence. apply bump_uid_mono.
Qed.

Lemma Inv_nattr_update n a s : has n (h_node s) = true -> Inv s -> Inv (nattr_update n a s).
Proof.
  intros H I. apply (Inv_same_struct s); simpl; auto; try lia.
  apply keys_set_in. destruct I as (_ & (K1 & _) & _). rewrite K1. apply has_In. exact H.
Qed.

Lemma Inv_eattr_update e a s : has e (h_edge s) = true -> Inv s -> Inv (eattr_update e a s).
Proof.
  intros H I. apply (Inv_same_struct s); simpl; auto; try lia.
  apply keys_set_in. destruct I as (_ & (_ & K2 & _) & _). rewrite K2. apply has_In. exact H.
Qed.

Lemma has_nattr_node n s : Inv s -> has n (h_nattr s) = has n (h_node s).
Proof.
  intros (_ & (K1 & _) & _). destruct (has n (h_node s)) eqn:E.
  - apply has_In. rewrite K1. apply has_In. exact E.
  - apply has_nIn. rewrite K1. apply has_nIn. exact E.
Qed.
Lemma has_eattr_edge e s : Inv s -> has e (h_eattr s) = has e (h_edge s).
Proof.
  intros (_ & (_ & K2 & _) & _). destruct (has e (h_edge s)) eqn:E.
  - apply has_In. rewrite K2. apply has_In. exact E.
  - apply has_nIn. rewrite K2. apply has_nIn. exact E.
Qed.

Lemma Inv_ensure_node n s : Inv s -> Inv (ensure_node n s).
Proof.
  intros (W & (K1 & K2 & K3 & K4) & (V1 & V2) & U).
  split; [|split; [|split]].
  - intros x e. rewrite ensure_node_mships. unfold mems. rewrite ensure_node_edge. apply W.
  - unfold KWF. rewrite ensure_node_edge, ensure_node_eattr.
    split; [apply ensure_node_nakeys; exact K1|]. split; [exact K2|]. split; [|exact K4].
    change (NoDup (nkeys (ensure_node n s))). rewrite ensure_node_nkeys.
    destruct (has n (h_node s)) eqn:E; [exact K3|]. apply NoDup_snoc; [exact K3|]. apply has_nIn; exact E.
  - split; intro x; [rewrite ensure_node_mships; apply V1|].
    unfold mems. rewrite ensure_node_edge. apply V2.
  - intros e z Hi Hz. unfold ekeys in Hi. rewrite ensure_node_edge in Hi. rewrite ensure_node_uid.
    apply (U e z); assumption.
Qed.

(* ---------- nodes ---------- *)

Lemma Inv_add_node_body n a s :
  Inv s -> Inv (st_of (if has n (h_node s) then ok (nattr_update n a s)
                       else if is_none n then raise s XGIError
                       else ok (nattr_update n a (ensure_node n s)))).
Proof.
  intro I. destruct (has n (h_node s)) eqn:E.
  - apply Inv_nattr_update; assumption.
  - destruct (is_none n); [exact I|].
    apply Inv_nattr_update; [apply ensure_node_has|apply Inv_ensure_node; exact I].
Qed.

Lemma Inv_add_node n a s : Inv s -> Inv (st_of (add_node n a s)).
Proof. apply Inv_add_node_body. Qed.

Lemma Inv_add_nodes_from items a s : Inv s -> Inv (st_of (add_nodes_from items a s)).
Proof.
  unfold add_nodes_from. apply loop_inv. intros s' [n od] I. apply Inv_add_node_body. exact I.
Qed.

Lemma Inv_set_node_attrs_named vals name s : Inv s -> Inv (st_of (set_node_attrs_named vals name s)).
Proof.
  unfold set_node_attrs_named. apply loop_inv. intros s' [n v] I.
  destruct (has n (h_nattr s')) eqn:E; [|exact I].
  apply Inv_nattr_update; [|exact I]. rewrite <- (has_nattr_node n s' I). exact E.
Qed.

Lemma Inv_set_node_attrs_dict vals s : Inv s -> Inv (st_of (set_node_attrs_dict vals s)).
Proof.
  unfold set_node_attrs_dict. apply loop_inv. intros s' [n v] I.
  destruct (has n (h_nattr s')) eqn:E; [|exact I].
  apply Inv_nattr_update; [|exact I]. rewrite <- (has_nattr_node n s' I). exact E.
Qed.

Lemma fold_nattr_update f ks : forall s,
  (forall n, In n ks -> In n (keys (h_node s))) -> Inv s ->
  Inv (fold_left (fun s n => nattr_update n (f n) s) ks s).
Proof.
  induction ks as [|k ks IH]; intros s Hk I; simpl; [exact I|].
  apply IH.
  - intros n Hn. simpl. apply Hk. right; exact Hn.
  - apply Inv_nattr_update; [|exact I]. apply has_In. apply Hk. left; reflexivity.
Qed.

Lemma Inv_set_node_attrs_scalar v name s : Inv s -> Inv (st_of (set_node_attrs_scalar v name s)).
Proof.
  intro I. unfold set_node_attrs_scalar. rewrite st_of_ok.
  apply (fold_nattr_update (fun _ => [(name, v)])); auto.
Qed.

Lemma fold_eattr_update f ks : forall s,
  (forall n, In n ks -> In n (keys (h_edge s))) -> Inv s ->
  Inv (fold_left (fun s n => eattr_update n (f n) s) ks s).
Proof.
  induction ks as [|k ks IH]; intros s Hk I; simpl; [exact I|].
  apply IH.
  - intros n Hn. simpl. apply Hk. right; exact Hn.
  - apply Inv_eattr_update; [|exact I]. apply has_In. apply Hk. left; reflexivity.
Qed.

Lemma Inv_set_edge_attrs_scalar v name s : Inv s -> Inv (st_of (set_edge_attrs_scalar v name s)).
Proof.
  intro I. unfold set_edge_attrs_scalar. rewrite st_of_ok.
  apply (fold_eattr_update (fun _ => [(name, v)])); auto.
Qed.

Lemma Inv_set_edge_attrs_named vals name s : Inv s -> Inv (st_of (set_edge_attrs_named vals name s)).
Proof.
  unfold set_edge_attrs_named. apply loop_inv. intros s' [n v] I.
  destruct (has n (h_eattr s')) eqn:E; [|exact I].
  apply Inv_eattr_update; [|exact I]. rewrite <- (has_eattr_edge n s' I). exact E.
Qed.

Lemma Inv_set_edge_attrs_dict vals s : Inv s -> Inv (st_of (set_edge_attrs_dict vals s)).
Proof.
  unfold set_edge_attrs_dict. apply loop_inv. intros s' [n v] I.
  destruct (has n (h_eattr s')) eqn:E; [|exact I].
  apply Inv_eattr_update; [|exact I]. rewrite <- (has_eattr_edge n s' I). exact E.
Qed.

(* ---------- adding edges ---------- *)

Lemma has_false_nin e s : has e (h_edge s) = false -> ~ In e (ekeys s).
Proof. intro H. apply has_nIn. exact H. Qed.

Lemma Inv_add_edge ms idx a s : Inv s -> Inv (st_of (add_edge ms idx a s)).
Proof.
  intro I. unfold add_edge. destruct (existsb is_none (mkset ms)); [exact I|].
  destruct idx as [i|].
  - destruct (has i (h_edge s)) eqn:E; [exact I|].
    rewrite st_of_ok. apply Inv_insert_explicit; [apply has_false_nin; exact E|exact I].
  - rewrite st_of_ok. apply Inv_insert_auto. exact I.
Qed.

Lemma Inv_bulk_explicit a s ms idx ea : Inv s -> Inv (st_of (bulk_item true a s ms idx ea)).
Proof.
  intro I. unfold bulk_item. destruct (has idx (h_edge s)) eqn:E; [exact I|].
  destruct (existsb is_none (mkset ms)); [exact I|]. destruct (is_none idx); [exact I|].
  rewrite st_of_ok. apply Inv_insert_explicit; [apply has_false_nin; exact E|exact I].
Qed.

Lemma Inv_bulk_auto a s ms ea :
  Inv s -> Inv (st_of (bulk_item false a (with_uid s (h_uid s + 1)) ms (LInt (h_uid s)) ea)).
Proof.
  intro I. unfold bulk_item.
  assert (I' : Inv (with_uid s (h_uid s + 1))) by (apply Inv_with_uid; [lia|exact I]).
  destruct (has (LInt (h_uid s)) (h_edge (with_uid s (h_uid s + 1)))); [exact I'|].
  destruct (existsb is_none (mkset ms)); [exact I'|]. simpl is_none. cbv iota.
  rewrite st_of_ok. apply Inv_insert_auto. exact I.
Qed.

Lemma Inv_add_edges_from eb a s : Inv s -> Inv (st_of (add_edges_from eb a s)).
Proof.
  intro I. destruct eb as [l|l|l|l|l]; simpl.
  - revert s I. apply loop_inv. intros s' ms I'. apply Inv_bulk_auto. exact I'.
  - revert s I. apply loop_inv. intros s' [m i] I'. apply Inv_bulk_explicit. exact I'.
  - revert s I. apply loop_inv. intros s' [m ea] I'. apply Inv_bulk_auto. exact I'.
  - revert s I. apply loop_inv. intros s' [[m i] ea] I'. apply Inv_bulk_explicit. exact I'.
  - revert s I. apply loop_inv. intros s' [idx ms] I'.
    destruct (has idx (h_edge s')) eqn:E; [exact I'|].
    destruct (existsb is_none (mkset ms)); [exact I'|]. destruct (is_none idx); [exact I'|].
    rewrite st_of_ok. apply Inv_insert_explicit; [apply has_false_nin; exact E|exact I'].
Qed.

Lemma Inv_add_weighted l w a s : Inv s -> Inv (st_of (add_weighted_edges_from l w a s)).
Proof. apply Inv_add_edges_from. Qed.

Lemma Inv_update edges nodes s : Inv s -> Inv (st_of (update edges nodes s)).
Proof.
  intro I. unfold update. apply bind_inv.
  - destruct nodes; [exact I|]. apply Inv_add_nodes_from. exact I.
  - intros s' I'. destruct edges; [|exact I']. apply Inv_add_edges_from. exact I'.
Qed.

(* ---------- removing edges ---------- *)

Lemma sremove_idem x l : sremove x (sremove x l) = sremove x l.
Proof.
  apply sremove_nIn. rewrite In_sremove. tauto.
Qed.

(* fold of node_rem over a list of nodes: views *)
Lemma unlink_views e ms : forall s,
  let s' := fold_left (fun s n => node_rem n e s) ms s in
  (forall x, mships s' x = if mem x ms then sremove e (mships s x) else mships s x) /\
  h_edge s' = h_edge s /\ h_eattr s' = h_eattr s /\ h_nattr s' = h_nattr s /\ h_uid s' = h_uid s /\
  nkeys s' = nkeys s /\ h_net s' = h_net s.
Proof.
  induction ms as [|n ms IH]; intro s; simpl.
  - repeat split; reflexivity.
  - destruct (IH (node_rem n e s)) as (A & B & C & D & E & F & G). simpl in *.
    assert (T : h_edge (node_rem n e s) = h_edge s /\ h_eattr (node_rem n e s) = h_eattr s /\
                h_nattr (node_rem n e s) = h_nattr s /\ h_uid (node_rem n e s) = h_uid s /\
                h_net (node_rem n e s) = h_net s).
    { unfold node_rem. destruct (has n (h_node s)); simpl; auto. }
    destruct T as (T1 & T2 & T3 & T4 & T5).
    split; [|rewrite B, C, D, E, F, G, node_rem_nkeys; repeat split; assumption].
    intro x. rewrite A, !node_rem_mships.
    destruct (lbl_eqb_spec x n) as [->|N]; simpl.
    + destruct (mem n ms); [apply sremove_idem|reflexivity].
    + reflexivity.
Qed.

Lemma KWF_drop_edge e s : KWF s -> KWF (drop_edge e s).
Proof.
  intros (K1 & K2 & K3 & K4). unfold KWF, drop_edge. simpl.
  rewrite !keys_del, K2. repeat split; auto. apply NoDup_sremove. exact K4.
Qed.

Lemma drop_edge_mships e s x : mships (drop_edge e s) x = mships s x.
Proof. reflexivity. Qed.

Lemma drop_edge_ekeys e s : ekeys (drop_edge e s) = sremove e (ekeys s).
Proof. unfold ekeys, drop_edge. simpl. apply keys_del. Qed.

Lemma UidInv_subset s s' :
  (forall e, In e (ekeys s') -> In e (ekeys s)) -> h_uid s <= h_uid s' -> UidInv s -> UidInv s'.
Proof. intros H1 H2 U e z Hi Hz. specialize (U e z (H1 e Hi) Hz). lia. Qed.

Lemma Inv_remove_edge1 e s : Inv s -> Inv (st_of (remove_edge1 e s)).
Proof.
  intro I. unfold remove_edge1. destruct (get e (h_edge s)) as [ms|] eqn:G; [|exact I].
  rewrite st_of_ok. destruct I as (W & K & (V1 & V2) & U).
  assert (Hms : mems s e = ms) by (unfold mems, getl; rewrite G; reflexivity).
  destruct (unlink_views e ms s) as (A & B & C & D & E & F & _).
  set (s1 := fold_left (fun s n => node_rem n e s) ms s) in *.
  split; [|split; [|split]].
  - intros n x. rewrite drop_edge_mships, drop_edge_mems, A. unfold mems. rewrite B. fold (mems s x).
    destruct (lbl_eqb_spec x e) as [->|N].
    + split; [|intros []]. destruct (mem n ms) eqn:M.
      * rewrite In_sremove. tauto.
      * intro Hi. apply W in Hi. rewrite Hms in Hi. apply mem_In in Hi. congruence.
    + destruct (mem n ms); [|apply W]. rewrite In_sremove. rewrite (W n x). tauto.
  - apply KWF_drop_edge. destruct K as (K1 & K2 & K3 & K4). unfold KWF.
    rewrite B, C, D. change (keys (h_node s1)) with (nkeys s1). rewrite F. auto.
  - split; intro x.
    + rewrite drop_edge_mships, A. destruct (mem x ms); [apply NoDup_sremove|]; apply V1.
    + rewrite drop_edge_mems. destruct (lbl_eqb x e); [constructor|]. unfold mems. rewrite B. apply V2.
  - apply (UidInv_subset s); [| |exact U].
    + intros x Hx. rewrite drop_edge_ekeys in Hx. apply In_sremove in Hx. unfold ekeys in *. rewrite B in Hx. tauto.
    + unfold drop_edge; simpl. lia.
Qed.

Lemma Inv_remove_edges_from es s : Inv s -> Inv (st_of (remove_edges_from es s)).
Proof. unfold remove_edges_from. apply loop_inv. intros s' e I. apply Inv_remove_edge1. exact I. Qed.

(* dropping an edge that has no members does not change the member view *)
Lemma drop_empty_edge_mems e s : mems s e = [] -> forall y, mems (drop_edge e s) y = mems s y.
Proof.
  intros H y. rewrite drop_edge_mems. destruct (lbl_eqb_spec y e) as [->|N]; [symmetry; exact H|reflexivity].
Qed.

Lemma Inv_drop_empty_edge e s : mems s e = [] -> Inv s -> Inv (drop_edge e s).
Proof.
  intros He (W & K & (V1 & V2) & U). pose proof (drop_empty_edge_mems e s He) as M.
  split; [|split; [|split]].
  - intros n x. rewrite drop_edge_mships, M. apply W.
  - apply KWF_drop_edge. exact K.
  - split; intro x; [apply V1|rewrite M; apply V2].
  - apply (UidInv_subset s); [| |exact U].
    + intros x Hx. rewrite drop_edge_ekeys in Hx. apply In_sremove in Hx. tauto.
    + unfold drop_edge; simpl; lia.
Qed.

Lemma Inv_remove_node_from_edge e n re s : Inv s -> Inv (st_of (remove_node_from_edge e n re s)).
Proof.
  intro I. unfold remove_node_from_edge.
  destruct (has e (h_edge s)) eqn:He; [|exact I]. destruct (has n (h_node s)) eqn:Hn; [|exact I].
  destruct (mem n (getl e (h_edge s))) eqn:Hm; [|exact I]. simpl negb. cbv iota.
  set (s1 := node_rem n e (edge_rem e n s)).
  assert (I1 : Inv s1).
  { destruct I as (W & (K1 & K2 & K3 & K4) & (V1 & V2) & U).
    assert (Mm : forall y, mems s1 y = if lbl_eqb y e then sremove n (mems s e) else mems s y).
    { intro y. unfold s1, mems, node_rem. destruct (has n (h_node (edge_rem e n s))); simpl; apply edge_rem_mems. }
    assert (Ms : forall x, mships s1 x = if lbl_eqb x n then sremove e (mships s n) else mships s x).
    { intro x. unfold s1. rewrite node_rem_mships. unfold mships, edge_rem.
      destruct (has e (h_edge s)); reflexivity. }
    split; [|split; [|split]].
    - intros x y. rewrite Ms, Mm.
      destruct (lbl_eqb_spec x n) as [->|Nx]; destruct (lbl_eqb_spec y e) as [->|Ny]; rewrite ?In_sremove.
      + tauto.
      + rewrite (W n y). intuition congruence.
      + rewrite (W x e). intuition congruence.
      + apply W.
    - unfold KWF, s1. unfold node_rem. 
      assert (Hn' : has n (h_node (edge_rem e n s)) = true) by (unfold edge_rem; rewrite He; exact Hn).
      rewrite Hn'. simpl. unfold edge_rem. rewrite He. simpl.
      rewrite !keys_set_in by (apply has_In; assumption). auto.
    - split; intro x.
      + rewrite Ms. destruct (lbl_eqb x n); [apply NoDup_sremove|]; apply V1.
      + rewrite Mm. destruct (lbl_eqb x e); [apply NoDup_sremove|]; apply V2.
    - apply (UidInv_subset s); [| |exact U].
      + intros x Hx. unfold s1, ekeys, node_rem in Hx.
        destruct (has n (h_node (edge_rem e n s))); simpl in Hx;
          change (In x (ekeys (edge_rem e n s))) in Hx; rewrite edge_rem_ekeys in Hx; exact Hx.
      + unfold s1, node_rem, edge_rem. destruct (has e (h_edge s)); simpl;
          match goal with |- context [if ?b then _ else _] => destruct b end; simpl; lia. }
  destruct (getl e (h_edge s1)) eqn:G; simpl; [|exact I1].
  destruct re; [|exact I1]. apply Inv_drop_empty_edge; [exact G|exact I1].
Qed.

(* ---------- removing nodes ---------- *)

Definition J (n : lbl) (s : hg) (todo : list lbl) : Prop :=
  (forall x e, x <> n -> (In e (mships s x) <-> In x (mems s e))) /\
  (forall e, In n (mems s e) -> In e todo) /\
  mships s n = [] /\ KWF s /\ VND s /\ UidInv s.

Lemma J_done n s : J n s [] -> Inv s.
Proof.
  intros (J1 & J2 & J3 & K & V & U). split; [|auto].
  intros x e. destruct (lbl_eqb_spec x n) as [->|N]; [|apply J1; exact N].
  rewrite J3. split; [intros []|]. intro H. exact (J2 e H).
Qed.

Lemma J_init n es s : Inv s -> get n (h_node s) = Some es -> J n (drop_node n s) es.
Proof.
  intros (W & (K1 & K2 & K3 & K4) & (V1 & V2) & U) G.
  assert (Hes : mships s n = es) by (unfold mships, getl; rewrite G; reflexivity).
  split; [|split; [|split; [|split; [|split]]]].
  - intros x e N. rewrite drop_node_mships. destruct (lbl_eqb_spec x n); [contradiction|]. apply W.
  - intros e H. rewrite <- Hes. apply W. exact H.
  - rewrite drop_node_mships, lbl_eqb_refl. reflexivity.
  - unfold KWF, drop_node. simpl. rewrite !keys_del, K1. repeat split; auto. apply NoDup_sremove; exact K3.
  - split; intro x.
    + rewrite drop_node_mships. destruct (lbl_eqb x n); [constructor|apply V1].
    + apply V2.
  - exact U.
Qed.

Lemma edge_rem_other e n s :
  h_node (edge_rem e n s) = h_node s /\ h_nattr (edge_rem e n s) = h_nattr s /\
  h_eattr (edge_rem e n s) = h_eattr s /\ h_uid (edge_rem e n s) = h_uid s.
Proof. unfold edge_rem. destruct (has e (h_edge s)); simpl; auto. Qed.

Lemma J_drop_empty n e s todo : mems s e = [] -> J n s todo -> J n (drop_edge e s) todo.
Proof.
  intros He (J1 & J2 & J3 & K & (V1 & V2) & U). pose proof (drop_empty_edge_mems e s He) as M.
  split; [|split; [|split; [|split; [|split]]]].
  - intros x y N. rewrite drop_edge_mships, M. apply J1. exact N.
  - intros y. rewrite M. apply J2.
  - exact J3.
  - apply KWF_drop_edge. exact K.
  - split; intro x; [apply V1|rewrite M; apply V2].
  - apply (UidInv_subset s); [| |exact U].
    + intros x Hx. rewrite drop_edge_ekeys in Hx. apply In_sremove in Hx. tauto.
    + unfold drop_edge; simpl; lia.
Qed.

Lemma J_weak_step n e todo re s :
  J n s (e :: todo) ->
  J n (let s' := edge_rem e n s in
       if (match getl e (h_edge s') with [] => true | _ => false end) && re && has e (h_edge s')
       then drop_edge e s' else s') todo.
Proof.
  intros (J1 & J2 & J3 & (K1 & K2 & K3 & K4) & (V1 & V2) & U).
  destruct (edge_rem_other e n s) as (T1 & T2 & T3 & T4).
  assert (Ms : forall x, mships (edge_rem e n s) x = mships s x) by (intro x; unfold mships; rewrite T1; reflexivity).
  assert (Jr : J n (edge_rem e n s) todo).
  { split; [|split; [|split; [|split; [|split]]]].
    - intros x y N. rewrite Ms, edge_rem_mems. destruct (lbl_eqb_spec y e) as [->|Ny].
      + rewrite In_sremove. rewrite (J1 x e N). tauto.
      + apply J1. exact N.
    - intros y. rewrite edge_rem_mems. destruct (lbl_eqb_spec y e) as [->|Ny].
      + rewrite In_sremove. tauto.
      + intro H. destruct (J2 y H) as [H'|H']; [congruence|exact H'].
    - rewrite Ms. exact J3.
    - unfold KWF. rewrite T1, T2, T3. change (keys (h_edge (edge_rem e n s))) with (ekeys (edge_rem e n s)).
      rewrite edge_rem_ekeys. auto.
    - split; intro x; [rewrite Ms; apply V1|].
      rewrite edge_rem_mems. destruct (lbl_eqb x e); [apply NoDup_sremove|]; apply V2.
    - apply (UidInv_subset s); [| |exact U].
      + intros x Hx. rewrite edge_rem_ekeys in Hx. exact Hx.
      + lia. }
  cbv zeta. destruct (getl e (h_edge (edge_rem e n s))) eqn:G; simpl; [|exact Jr].
  destruct re; simpl; [|exact Jr]. destruct (has e (h_edge (edge_rem e n s))); [|exact Jr].
  apply J_drop_empty; [exact G|exact Jr].
Qed.

Lemma J_strong_step n e todo s :
  J n s (e :: todo) ->
  J n (let nbrs := getl e (h_edge s) in
       let s' := drop_edge e s in
       fold_left (fun s m => node_rem m e s) (sremove n nbrs) s') todo.
Proof.
  intros (J1 & J2 & J3 & K & (V1 & V2) & U). cbv zeta.
  change (getl e (h_edge s)) with (mems s e).
  destruct (unlink_views e (sremove n (mems s e)) (drop_edge e s)) as (A & B & C & D & E & F & _).
  set (s2 := fold_left (fun s m => node_rem m e s) (sremove n (mems s e)) (drop_edge e s)) in *.
  assert (Mm : forall y, mems s2 y = if lbl_eqb y e then [] else mems s y).
  { intro y. unfold mems at 1. rewrite B. apply drop_edge_mems. }
  split; [|split; [|split; [|split; [|split]]]].
  - intros x y N. rewrite A, Mm, drop_edge_mships.
    destruct (lbl_eqb_spec y e) as [->|Ny].
    + split; [|intros []]. destruct (mem x (sremove n (mems s e))) eqn:M.
      * rewrite In_sremove. tauto.
      * intro Hi. apply (J1 x e N) in Hi. apply mem_nIn in M. apply M. apply In_sremove. split; assumption.
    + destruct (mem x (sremove n (mems s e))).
      * rewrite In_sremove. rewrite (J1 x y N). tauto.
      * apply J1. exact N.
  - intro y. rewrite Mm. destruct (lbl_eqb_spec y e) as [->|Ny]; [intros []|].
    intro H. destruct (J2 y H) as [H'|H']; [congruence|exact H'].
  - rewrite A, drop_edge_mships. destruct (mem n (sremove n (mems s e))) eqn:M.
    + apply mem_In in M. apply In_sremove in M. tauto.
    + exact J3.
  - pose proof (KWF_drop_edge e s K) as (K1 & K2 & K3 & K4). unfold KWF.
    rewrite B, C, D. change (keys (h_node s2)) with (nkeys s2). rewrite F. auto.
  - split; intro x.
    + rewrite A, drop_edge_mships. destruct (mem x (sremove n (mems s e))); [apply NoDup_sremove|]; apply V1.
    + rewrite Mm. destruct (lbl_eqb x e); [constructor|apply V2].
  - apply (UidInv_subset s); [| |exact U].
    + intros x Hx. unfold ekeys in Hx. rewrite B in Hx. change (In x (ekeys (drop_edge e s))) in Hx.
      rewrite drop_edge_ekeys in Hx. apply In_sremove in Hx. tauto.
    + rewrite E. unfold drop_edge; simpl; lia.
Qed.

Lemma J_fold n (f : hg -> lbl -> hg) :
  (forall e todo s, J n s (e :: todo) -> J n (f s e) todo) ->
  forall todo s, J n s todo -> Inv (fold_left f todo s).
Proof.
  intros Hf. induction todo as [|e todo IH]; intros s Hj; simpl; [apply (J_done n); exact Hj|].
  apply IH. apply Hf. exact Hj.
Qed.

Lemma Inv_remove_node n st re s : Inv s -> Inv (st_of (remove_node n st re s)).
Proof.
  intro I. unfold remove_node. destruct (get n (h_node s)) as [es|] eqn:G; [|exact I].
  pose proof (J_init n es s I G) as Hj.
  destruct st; rewrite st_of_ok.
  - apply (J_fold n); [|exact Hj]. intros e todo s' Hj'. apply (J_strong_step n e todo s' Hj').
  - apply (J_fold n); [|exact Hj]. intros e todo s' Hj'. apply (J_weak_step n e todo re s' Hj').
Qed.

Lemma Inv_remove_nodes_from ns st re s : Inv s -> Inv (st_of (remove_nodes_from ns st re s)).
Proof.
  unfold remove_nodes_from. apply loop_inv. intros s' n I.
  destruct (has n (h_node s')); [apply Inv_remove_node; exact I|exact I].
Qed.

(* ---------- add_node_to_edge ---------- *)

Lemma node_edge_add_comm n e s : node_add n e (edge_add e n s) = edge_add e n (node_add n e s).
Proof. reflexivity. Qed.

Lemma Inv_attach e s n : has e (h_edge s) = true -> Inv s -> Inv (attach e s n).
Proof.
  intros He (W & (K1 & K2 & K3 & K4) & V & U).
  destruct (attach_nodeK e s n K1 K3) as [N1 N2].
  split; [|split; [|split]].
  - apply attach_W1; exact W.
  - unfold KWF. rewrite attach_eattr. change (keys (h_edge (attach e s n))) with (ekeys (attach e s n)).
    rewrite attach_edge_keys by exact He. auto.
  - apply attach_VND; exact V.
  - intros x z Hx Hz. rewrite attach_edge_keys in Hx by exact He. rewrite attach_uid. apply (U x z); assumption.
Qed.

Lemma Inv_new_empty_edge e s : ~ In e (ekeys s) -> Inv s ->
  Inv (bump_uid e (with_eattr (with_edge s (set e [] (h_edge s))) (set e [] (h_eattr s)))).
Proof.
  intros Hne I.
  pose proof (Inv_insert_explicit e [] [] s Hne I) as H. exact H.
Qed.

Lemma Inv_add_node_to_edge e n s : Inv s -> Inv (st_of (add_node_to_edge e n s)).
Proof.
  intro I. unfold add_node_to_edge.
  destruct (negb (has e (h_edge s)) && is_none e); [exact I|].
  set (s1 := if has e (h_edge s) then s else _).
  assert (I1 : Inv s1 /\ has e (h_edge s1) = true).
  { unfold s1. destruct (has e (h_edge s)) eqn:E; [split; [exact I|exact E]|].
    split; [apply Inv_new_empty_edge; [apply has_false_nin; exact E|exact I]|].
    destruct (bump_uid_tables e (with_eattr (with_edge s (set e [] (h_edge s))) (set e [] (h_eattr s)))) as (_ & _ & T & _).
    rewrite T. simpl. apply has_In. apply In_keys_set. left; reflexivity. }
  destruct I1 as [I1 He1].
  destruct (negb (has n (h_node s1)) && is_none n); [exact I1|].
  rewrite st_of_ok. rewrite node_edge_add_comm. apply (Inv_attach e s1 n He1 I1).
Qed.

(* ---------- clear / clear_edges ---------- *)

Lemma Inv_cleared net uid : Inv (mkHG [] [] [] [] net uid).
Proof.
  split; [|split; [|split]].
  - intros n e. unfold mships, mems, getl. simpl. tauto.
  - unfold KWF. simpl. repeat split; constructor.
  - split; intro; constructor.
  - intros e z [].
Qed.

Lemma Inv_clear rn s : Inv (st_of (clear rn s)).
Proof. unfold clear. rewrite st_of_ok. apply Inv_cleared. Qed.

Lemma getl_map_nil x (d : odict (list lbl)) : getl x (map (fun kv => (fst kv, @nil lbl)) d) = [].
Proof.
  unfold getl. induction d as [|[k v] r IH]; simpl; [reflexivity|].
  destruct (lbl_eqb x k); [reflexivity|exact IH].
Qed.

Lemma Inv_clear_edges s : Inv s -> Inv (st_of (clear_edges s)).
Proof.
  intros (W & (K1 & K2 & K3 & K4) & V & U). unfold clear_edges. rewrite st_of_ok.
  split; [|split; [|split]].
  - intros n e. unfold mships, mems. simpl. rewrite getl_map_nil. unfold getl. simpl. tauto.
  - unfold KWF. simpl. unfold keys. rewrite map_map. simpl. repeat split; auto; constructor.
  - split; intro x; unfold mships, mems; simpl; [rewrite getl_map_nil|]; constructor.
  - intros e z [].
Qed.

(* ---------- merge_duplicate_edges, connected component restriction, relabel, cleanup ---------- *)

Lemma merged_edge_Inv rn mr mult s ms ids :
  Inv s ->
  match merged_edge rn mr mult s ms ids with
  | inl (s', _) => Inv s'
  | inr (s', _) => Inv s'
  end.
Proof.
  intro I. unfold merged_edge.
  assert (I' : Inv (with_uid s (h_uid s + 1))) by (apply Inv_with_uid; [lia|exact I]).
  destruct rn; destruct (sort_lbls ids) as [[|f l]|]; destruct mr; simpl; auto.
Qed.

Lemma merge_collect_Inv rn mr mult g : forall s dups ne,
  Inv s ->
  match merge_collect rn mr mult g s dups ne with
  | inl (s', _, _) => Inv s'
  | inr (s', _) => Inv s'
  end.
Proof.
  induction g as [|[ms ids] r IH]; intros s dups ne I; simpl; [exact I|].
  destruct ids as [|i1 [|i2 ids']]; try (apply IH; exact I).
  pose proof (merged_edge_Inv rn mr mult s ms (i1 :: i2 :: ids') I) as H.
  destruct (merged_edge rn mr mult s ms (i1 :: i2 :: ids')) as [[s' ne']|[s' e]]; [|exact H].
  apply IH. exact H.
Qed.

Lemma Inv_merge rn mr mult s : Inv s -> Inv (st_of (merge_duplicate_edges rn mr mult s)).
Proof.
  intro I. unfold merge_duplicate_edges.
  pose proof (merge_collect_Inv rn mr mult (groups s) s [] [] I) as H.
  destruct (merge_collect rn mr mult (groups s) s [] []) as [[[s1 dups] ne]|[s' e]]; [|exact H].
  apply bind_inv; [apply Inv_remove_edges_from; exact H|].
  intros s2 I2. apply bind_inv.
  - destruct ne; [exact I2|]. apply Inv_add_edges_from. exact I2.
  - intros s3 I3. destruct mr; exact I3.
Qed.

Lemma Inv_lcc s : Inv s -> Inv (st_of (largest_connected_inplace s)).
Proof.
  intro I. unfold largest_connected_inplace. destruct (first_longest (components s)); [|exact I].
  apply Inv_remove_nodes_from. exact I.
Qed.

Lemma Inv_relabel la s : Inv (st_of (relabel_inplace la s)).
Proof.
  unfold relabel_inplace. cbv zeta.
  apply bind_inv; [apply Inv_add_nodes_from; apply Inv_cleared|].
  intros s1 I1. apply bind_inv; [apply Inv_set_node_attrs_dict; exact I1|].
  intros s2 I2. apply bind_inv.
  - destruct (keys (h_edge s)); [exact I2|]. apply Inv_add_edges_from. exact I2.
  - intros s3 I3. apply Inv_set_edge_attrs_dict. exact I3.
Qed.

Lemma Inv_cleanup iso sing multi conn rl s : Inv s -> Inv (st_of (cleanup iso sing multi conn rl s)).
Proof.
  intro I. unfold cleanup.
  apply bind_inv; [destruct multi; [exact I|apply Inv_merge; exact I]|].
  intros s1 I1. apply bind_inv; [destruct sing; [exact I1|apply Inv_remove_edges_from; exact I1]|].
  intros s2 I2. apply bind_inv; [destruct iso; [exact I2|apply Inv_remove_nodes_from; exact I2]|].
  intros s3 I3. apply bind_inv; [destruct (conn && negb (match h_node s3 with [] => true | _ => false end)); [apply Inv_lcc; exact I3|exact I3]|].
  intros s4 I4. destruct rl; [apply Inv_relabel|exact I4].
Qed.

(* ---------- double_edge_swap ---------- *)

Lemma length_sadd_sremove x y l :
  NoDup l -> In x l -> length (sadd y (sremove x l)) = length l -> y = x \/ ~ In y l.
Proof.
  intros ND Hx Hl. pose proof (length_sremove x l ND Hx) as L.
  unfold sadd in Hl. destruct (mem y (sremove x l)) eqn:M.
  - rewrite Hl in L. lia.
  - apply mem_nIn in M. rewrite In_sremove in M.
    destruct (lbl_eqb_spec y x) as [->|N]; [left; reflexivity|right; tauto].
Qed.

Lemma In_sadd_sremove_same x l z : In x l -> (In z (sadd x (sremove x l)) <-> In z l).
Proof.
  intro H. rewrite In_sadd, In_sremove. destruct (lbl_eqb_spec z x) as [->|N]; tauto.
Qed.

Lemma getl_of_get k (d : odict (list lbl)) v : get k d = Some v -> getl k d = v.
Proof. intro H. unfold getl. rewrite H. reflexivity. Qed.

Lemma Inv_double_edge_swap n1 n2 e1 e2 s : Inv s -> Inv (st_of (double_edge_swap n1 n2 e1 e2 s)).
Proof.
  intro I. unfold double_edge_swap.
  destruct (get n1 (h_node s)) as [ms1|] eqn:G1; [|exact I].
  destruct (get n2 (h_node s)) as [ms2|] eqn:G2; [|exact I].
  destruct (get e1 (h_edge s)) as [m1|] eqn:G3; [|exact I].
  destruct (get e2 (h_edge s)) as [m2|] eqn:G4; [|exact I].
  destruct (mem n1 m1) eqn:M1; [|exact I]. destruct (mem n2 m2) eqn:M2; [|exact I].
  destruct (mem e1 ms1) eqn:M3; [|exact I]. destruct (mem e2 ms2) eqn:M4; [|exact I].
  simpl negb. cbv iota.
  match goal with |- context [if ?c then raise s XGIError else _] => destruct c eqn:C end; [exact I|].
  rewrite st_of_ok.
  apply orb_false_iff in C. destruct C as [C L4]. apply orb_false_iff in C. destruct C as [C L3].
  apply orb_false_iff in C. destruct C as [L1 L2].
  apply negb_false_iff, Nat.eqb_eq in L1, L2, L3, L4.
  apply mem_In in M1, M2, M3, M4.
  destruct I as (W & (K1 & K2 & K3 & K4) & (V1 & V2) & U).
  pose proof (getl_of_get _ _ _ G1) as E1. pose proof (getl_of_get _ _ _ G2) as E2.
  pose proof (getl_of_get _ _ _ G3) as E3. pose proof (getl_of_get _ _ _ G4) as E4.
  fold (mships s n1) in E1. fold (mships s n2) in E2. fold (mems s e1) in E3. fold (mems s e2) in E4.
  assert (ND1 : NoDup ms1) by (rewrite <- E1; apply V1). assert (ND2 : NoDup ms2) by (rewrite <- E2; apply V1).
  assert (ND3 : NoDup m1) by (rewrite <- E3; apply V2). assert (ND4 : NoDup m2) by (rewrite <- E4; apply V2).
  pose proof (length_sadd_sremove e1 e2 ms1 ND1 M3 L1) as F3.
  pose proof (length_sadd_sremove e2 e1 ms2 ND2 M4 L2) as F4.
  pose proof (length_sadd_sremove n1 n2 m1 ND3 M1 L3) as F1.
  pose proof (length_sadd_sremove n2 n1 m2 ND4 M2 L4) as F2.
  set (sf := with_edge _ _).
  assert (Ms : forall x, mships sf x = if lbl_eqb x n2 then sadd e1 (sremove e2 ms2)
                                       else if lbl_eqb x n1 then sadd e2 (sremove e1 ms1) else mships s x).
  { intro x. unfold sf, mships. simpl. rewrite !getl_set. reflexivity. }
  assert (Mm : forall y, mems sf y = if lbl_eqb y e2 then sadd n1 (sremove n2 m2)
                                     else if lbl_eqb y e1 then sadd n2 (sremove n1 m1) else mems s y).
  { intro y. unfold sf, mems. simpl. rewrite !getl_set. reflexivity. }
  assert (Kn1 : In n1 (keys (h_node s))) by (eapply get_Some_In; eauto).
  assert (Kn2 : In n2 (keys (h_node s))) by (eapply get_Some_In; eauto).
  assert (Ke1 : In e1 (keys (h_edge s))) by (eapply get_Some_In; eauto).
  assert (Ke2 : In e2 (keys (h_edge s))) by (eapply get_Some_In; eauto).
  assert (KN : keys (h_node sf) = keys (h_node s)).
  { unfold sf. simpl. rewrite keys_set_in; [apply keys_set_in; exact Kn1|].
    rewrite keys_set_in by exact Kn1. exact Kn2. }
  assert (KE : keys (h_edge sf) = keys (h_edge s)).
  { unfold sf. simpl. rewrite keys_set_in; [apply keys_set_in; exact Ke1|].
    rewrite keys_set_in by exact Ke1. exact Ke2. }
  split; [|split; [|split]].
  - (* W1 *)
    intros x y. rewrite Ms, Mm.
    destruct (lbl_eqb_spec n1 n2) as [En|Nn].
    + (* same node: then same edge, and nothing changes as sets *)
      subst n2. rewrite E1 in E2. subst ms2.
      assert (e2 = e1) by (destruct F3 as [F|F]; [exact F|contradiction]). subst e2.
      rewrite E3 in E4. subst m2.
      destruct (lbl_eqb_spec x n1) as [->|Nx]; destruct (lbl_eqb_spec y e1) as [->|Ny];
        rewrite ?In_sadd_sremove_same by assumption; rewrite <- ?E1, <- ?E3; apply W.
    + assert (Hn21 : ~ In n2 m1) by (destruct F1 as [F|F]; [congruence|exact F]).
      assert (Hn12 : ~ In n1 m2) by (destruct F2 as [F|F]; [congruence|exact F]).
      assert (Ne : e1 <> e2).
      { intro Ee. subst e2. rewrite E3 in E4. subst m2. contradiction. }
      assert (He21 : ~ In e2 ms1) by (destruct F3 as [F|F]; [congruence|exact F]).
      assert (He12 : ~ In e1 ms2) by (destruct F4 as [F|F]; [congruence|exact F]).
      pose proof (W x e1) as Wx1. pose proof (W x e2) as Wx2.
      pose proof (W n1 y) as W1y. pose proof (W n2 y) as W2y. pose proof (W x y) as Wxy.
      rewrite E1 in *. rewrite E2 in *. rewrite E3 in *. rewrite E4 in *.
      clear G1 G2 G3 G4 L1 L2 L3 L4 ND1 ND2 ND3 ND4 F1 F2 F3 F4 Ms Mm KN KE Kn1 Kn2 Ke1 Ke2 K1 K2 K3 K4 V1 V2 U W.
      clear sf E1 E2 E3 E4.
      destruct (lbl_eqb_spec x n2) as [->|Nx2]; [|destruct (lbl_eqb_spec x n1) as [->|Nx1]];
        (destruct (lbl_eqb_spec y e2) as [->|Ny2]; [|destruct (lbl_eqb_spec y e1) as [->|Ny1]]);
        rewrite ?In_sadd, ?In_sremove; intuition congruence.
  - unfold KWF. rewrite KN, KE. unfold sf. simpl. auto.
  - split; intro x.
    + rewrite Ms. destruct (lbl_eqb x n2); [apply NoDup_sadd, NoDup_sremove; exact ND2|].
      destruct (lbl_eqb x n1); [apply NoDup_sadd, NoDup_sremove; exact ND1|apply V1].
    + rewrite Mm. destruct (lbl_eqb x e2); [apply NoDup_sadd, NoDup_sremove; exact ND4|].
      destruct (lbl_eqb x e1); [apply NoDup_sadd, NoDup_sremove; exact ND3|apply V2].
  - intros e z Hi Hz. unfold ekeys in Hi. rewrite KE in Hi. unfold sf; simpl. apply (U e z); assumption.
Qed.

(* ---------- random_edge_shuffle ---------- *)

(* what random.sample(list(nodes), k) can return: elements of the population, i.e. of the
   symmetric difference of the two edges *)
Definition shuffle_admissible (s : hg) (e1 e2 : lbl) (sample : list lbl) : Prop :=
  forall x, In x sample ->
    (In x (mems s e1) /\ ~ In x (mems s e2)) \/ (In x (mems s e2) /\ ~ In x (mems s e1)).

Definition moveL (a b : lbl) (ns : list lbl) (s : hg) : hg :=
  fold_left (fun s n => node_add n a (node_rem n b s)) ns s.

Lemma move1_mships a b n s x :
  mships (node_add n a (node_rem n b s)) x =
  if lbl_eqb x n then sadd a (sremove b (mships s n)) else mships s x.
Proof.
  rewrite node_add_mships, !node_rem_mships. rewrite lbl_eqb_refl.
  destruct (lbl_eqb x n); reflexivity.
Qed.

Lemma move1_other a b n s :
  let s' := node_add n a (node_rem n b s) in
  h_edge s' = h_edge s /\ h_eattr s' = h_eattr s /\ h_nattr s' = h_nattr s /\ h_uid s' = h_uid s /\
  h_net s' = h_net s.
Proof. unfold node_add, node_rem. destruct (has n (h_node s)); simpl; auto. Qed.

Lemma move1_nkeys a b n s : In n (nkeys s) -> nkeys (node_add n a (node_rem n b s)) = nkeys s.
Proof.
  intro H. rewrite node_add_nkeys.
  - apply node_rem_nkeys.
  - apply has_In. change (In n (nkeys (node_rem n b s))). rewrite node_rem_nkeys. exact H.
Qed.

Lemma moveL_views a b ns : forall s,
  (forall n, In n ns -> In n (nkeys s)) ->
  let s' := moveL a b ns s in
  (forall x y, In y (mships s' x) <->
               if mem x ns then y = a \/ (y <> b /\ In y (mships s x)) else In y (mships s x)) /\
  ((forall x, NoDup (mships s x)) -> forall x, NoDup (mships s' x)) /\
  h_edge s' = h_edge s /\ h_eattr s' = h_eattr s /\ h_nattr s' = h_nattr s /\ h_uid s' = h_uid s /\
  nkeys s' = nkeys s /\ h_net s' = h_net s.
Proof.
  induction ns as [|n ns IH]; intros s Hk; simpl.
  - split; [intros; tauto|]. split; [auto|]. repeat split; reflexivity.
  - unfold moveL in *. simpl.
    assert (Hn : In n (nkeys s)) by (apply Hk; left; reflexivity).
    destruct (IH (node_add n a (node_rem n b s))) as (A & N & B & C & D & E & F & G).
    { intros m Hm. rewrite move1_nkeys by exact Hn. apply Hk. right; exact Hm. }
    destruct (move1_other a b n s) as (T1 & T2 & T3 & T4 & T5). simpl in *.
    split; [|split; [|rewrite B, C, D, E, F, G, move1_nkeys by exact Hn; repeat split; assumption]].
    + intros x y. rewrite A, !move1_mships.
      destruct (lbl_eqb_spec x n) as [->|Nx]; simpl.
      * destruct (mem n ns); rewrite ?In_sadd, ?In_sremove; tauto.
      * tauto.
    + intros V x. apply N. intro x'. rewrite move1_mships.
      destruct (lbl_eqb x' n); [apply NoDup_sadd, NoDup_sremove|]; apply V.
Qed.

Lemma mem_true_iff x l : mem x l = true <-> In x l. Proof. apply mem_In. Qed.

Lemma Inv_random_edge_shuffle e1 e2 sample s :
  shuffle_admissible s e1 e2 sample -> Inv s -> Inv (st_of (random_edge_shuffle e1 e2 sample s)).
Proof.
  intros Adm I. unfold random_edge_shuffle.
  destruct (length (h_edge s) <? 2)%nat; [exact I|].
  destruct (get e1 (h_edge s)) as [m1|] eqn:G1; [|exact I].
  destruct (get e2 (h_edge s)) as [m2|] eqn:G2; [|exact I].
  rewrite st_of_ok. cbv zeta.
  destruct I as (W & (K1 & K2 & K3 & K4) & (V1 & V2) & U).
  pose proof (getl_of_get _ _ _ G1) as E1. pose proof (getl_of_get _ _ _ G2) as E2.
  fold (mems s e1) in E1. fold (mems s e2) in E2.
  unfold shuffle_admissible in Adm. rewrite E1, E2 in Adm.
  set (both := sinter m1 m2).
  set (r1 := if lbl_eqb e1 e2 then (if lbl_eqb e1 e2 then sdiff (sdiff m1 both) both else sdiff m2 both)
             else sdiff m1 both).
  set (r2 := if lbl_eqb e1 e2 then sdiff (sdiff m1 both) both else sdiff m2 both).
  assert (R1 : forall x, In x r1 <-> In x m1 /\ ~ In x m2).
  { intro x. unfold r1, both. destruct (lbl_eqb_spec e1 e2) as [Ee|Ne].
    - subst e2. rewrite E1 in E2. subst m2. rewrite !In_sdiff, In_sinter. tauto.
    - rewrite In_sdiff, In_sinter. tauto. }
  assert (R2 : forall x, In x r2 <-> In x m2 /\ ~ In x m1).
  { intro x. unfold r2, both. destruct (lbl_eqb_spec e1 e2) as [Ee|Ne].
    - subst e2. rewrite E1 in E2. subst m2. rewrite !In_sdiff, In_sinter. tauto.
    - rewrite In_sdiff, In_sinter. tauto. }
  assert (NDr1 : NoDup r1).
  { unfold r1. assert (NoDup m1) by (rewrite <- E1; apply V2). assert (NoDup m2) by (rewrite <- E2; apply V2).
    destruct (lbl_eqb e1 e2); unfold sdiff; repeat apply NoDup_filter; assumption. }
  set (nodes := sunion r1 r2).
  set (e1n := mkset sample).
  set (e2n := sdiff nodes e1n).
  set (A := sinter e1n r2). set (B := sinter e2n r1).
  assert (HA : forall x, In x A <-> In x sample /\ In x r2).
  { intro x. unfold A, e1n. rewrite In_sinter, In_mkset. tauto. }
  assert (HB : forall x, In x B <-> (In x r1 \/ In x r2) /\ ~ In x sample /\ In x r1).
  { intro x. unfold B, e2n, nodes, e1n. rewrite In_sinter, In_sdiff, In_sunion, In_mkset. tauto. }
  assert (KA : forall n, In n A -> In n (nkeys s)).
  { intros n Hn. apply HA in Hn. destruct Hn as [_ Hn]. apply R2 in Hn. destruct Hn as [Hn _].
    rewrite <- E2 in Hn. apply W in Hn. eapply getl_nonempty_key. exact Hn. }
  destruct (moveL_views e1 e2 A s KA) as (MA & NA & TA1 & TA2 & TA3 & TA4 & TA5 & _).
  fold (moveL e1 e2 A s) in *. set (sA := moveL e1 e2 A s) in *.
  assert (KB : forall n, In n B -> In n (nkeys sA)).
  { intros n Hn. rewrite TA5. apply HB in Hn. destruct Hn as (_ & _ & Hn). apply R1 in Hn. destruct Hn as [Hn _].
    rewrite <- E1 in Hn. apply W in Hn. eapply getl_nonempty_key. exact Hn. }
  destruct (moveL_views e2 e1 B sA KB) as (MB & NB & TB1 & TB2 & TB3 & TB4 & TB5 & _).
  fold (moveL e2 e1 B sA) in *. set (sB := moveL e2 e1 B sA) in *.
  set (sF := with_edge _ _).
  assert (Ms : forall x, mships sF x = mships sB x) by reflexivity.
  assert (Mm : forall y, mems sF y = if lbl_eqb y e2 then sunion e2n both
                                     else if lbl_eqb y e1 then sunion e1n both else mems s y).
  { intro y. unfold sF, mems. simpl. rewrite !getl_set, TB1, TA1. reflexivity. }
  assert (Ke1 : In e1 (keys (h_edge s))) by (eapply get_Some_In; eauto).
  assert (Ke2 : In e2 (keys (h_edge s))) by (eapply get_Some_In; eauto).
  assert (KE : keys (h_edge sF) = keys (h_edge s)).
  { unfold sF. simpl. rewrite TB1, TA1. rewrite keys_set_in; [apply keys_set_in; exact Ke1|].
    rewrite keys_set_in by exact Ke1. exact Ke2. }
  split; [|split; [|split]].
  - (* W1 *)
    intros x y. rewrite Ms, Mm, MB.
    assert (MAx : In y (mships sA x) <-> if mem x A then y = e1 \/ (y <> e2 /\ In y (mships s x)) else In y (mships s x))
      by apply MA.
    pose proof (W x y) as Wxy. pose proof (W x e1) as Wx1. pose proof (W x e2) as Wx2.
    rewrite E1 in Wx1. rewrite E2 in Wx2.
    pose proof (HA x) as HAx. pose proof (HB x) as HBx. pose proof (R1 x) as R1x. pose proof (R2 x) as R2x.
    pose proof (Adm x) as Admx.
    assert (Hboth : In x both <-> In x m1 /\ In x m2) by (unfold both; apply In_sinter).
    assert (He1n : In x e1n <-> In x sample) by (unfold e1n; apply In_mkset).
    assert (He2n : In x e2n <-> (In x r1 \/ In x r2) /\ ~ In x sample).
    { unfold e2n, nodes, e1n. rewrite In_sdiff, In_sunion, In_mkset. tauto. }
    assert (Hm : e1 = e2 -> m1 = m2) by (intro; subst; congruence).
    clear MA MB Ms Mm KE Ke1 Ke2 TA1 TA2 TA3 TA4 TA5 TB1 TB2 TB3 TB4 TB5 NA NB KA KB HA HB R1 R2 NDr1 Adm
          E1 E2 G1 G2 V1 V2 U K1 K2 K3 K4 W sF.
    (destruct (mem x B) eqn:MBx; [apply mem_In in MBx|apply mem_nIn in MBx]);
      (destruct (mem x A) eqn:MAxb; [apply mem_In in MAxb|apply mem_nIn in MAxb]);
      rewrite MAx; clear MAx;
      (destruct (lbl_eqb_spec y e2) as [->|Ny2]; [|destruct (lbl_eqb_spec y e1) as [->|Ny1]]);
      rewrite ?In_sunion, ?Hboth, ?He1n, ?He2n; try tauto;
      (destruct (lbl_eqb_spec e1 e2) as [Ee|Ne];
       [specialize (Hm Ee); subst|assert (Ne' : e2 <> e1) by congruence]);
      try tauto;
      destruct (in_dec lbl_eq_dec x m1) as [D1|D1]; destruct (in_dec lbl_eq_dec x m2) as [D2|D2];
      destruct (in_dec lbl_eq_dec x sample) as [D3|D3]; tauto.
  - unfold KWF. rewrite KE. unfold sF. simpl. rewrite TB2, TB3, TA2, TA3.
    change (keys (h_node sB)) with (nkeys sB). rewrite TB5, TA5. auto.
  - split; intro x.
    + rewrite Ms. apply NB. apply NA. exact V1.
    + rewrite Mm. destruct (lbl_eqb x e2).
      * apply NoDup_sunion. unfold e2n, sdiff. apply NoDup_filter. unfold nodes. apply NoDup_sunion. exact NDr1.
      * destruct (lbl_eqb x e1); [apply NoDup_sunion; unfold e1n; apply NoDup_mkset|apply V2].
  - intros e z Hi Hz. unfold ekeys in Hi. rewrite KE in Hi. unfold sF; simpl. rewrite TB4, TA4.
    apply (U e z); assumption.
Qed.

(* the meaning of Inv for the reports (also used by the directed model) *)
Lemma Inv_reports_core s : Inv s ->
  (forall n e, In e (mships s n) <-> In n (mems s e)) /\
  (forall e n, In n (mems s e) -> In n (nkeys s) /\ In e (ekeys s)) /\
  (forall n e, In e (mships s n) -> In e (ekeys s) /\ In n (nkeys s)) /\
  (forall n, In n (nkeys s) <-> has n (h_nattr s) = true) /\
  (forall e, In e (ekeys s) <-> has e (h_eattr s) = true) /\
  NoDup (nkeys s) /\ NoDup (ekeys s) /\ NoDup (keys (h_nattr s)) /\ NoDup (keys (h_eattr s)).
Proof.
  intros (W & (K1 & K2 & K3 & K4) & (V1 & V2) & U).
  assert (A : forall e n, In n (mems s e) -> In n (nkeys s) /\ In e (ekeys s)).
  { intros e n H. split.
    - apply W in H. eapply getl_nonempty_key. exact H.
    - eapply getl_nonempty_key. exact H. }
  split; [exact W|]. split; [exact A|]. split.
  { intros n e H. apply W in H. destruct (A e n H). tauto. }
  split. { intro n. rewrite has_In, K1. reflexivity. }
  split. { intro e. rewrite has_In, K2. reflexivity. }
  unfold nkeys, ekeys. rewrite K1, K2. auto 10.
Qed.

Lemma remove_edge1_mships_core e s : Inv s ->
  forall x y, In y (mships (st_of (remove_edge1 e s)) x) <-> y <> e /\ In y (mships s x).
Proof.
  intros (W & _) x y. unfold remove_edge1. destruct (get e (h_edge s)) as [ms|] eqn:G.
  - rewrite st_of_ok, drop_edge_mships.
    destruct (unlink_views e ms s) as (A & _). cbv zeta in A. rewrite A.
    assert (Hms : mems s e = ms) by (unfold mems, getl; rewrite G; reflexivity).
    destruct (mem x ms) eqn:M.
    + rewrite In_sremove. tauto.
    + split; [|tauto]. intro H. split; [|exact H]. intro; subst y.
      apply W in H. rewrite Hms in H. apply mem_In in H. congruence.
  - rewrite st_of_raise. split; [|tauto]. intro H. split; [|exact H]. intro; subst y.
    apply W in H. apply get_None in G. apply G. eapply getl_nonempty_key. exact H.
Qed.
