(* C03: the three helpers through which SimplicialComplex writes its tables - _add_simplex, _add_face, _remove_simplex_id -
   regenerated from xgi/core/simplicialcomplex.py on every run (Gen/ScMutators.v), run under the semantics of Model/PyIR.v,
   are the model's insert_edge / remove_edge1. *)
From Coq Require Import String ZArith List Bool Lia.
From XV Require Import Base.Label Base.LSet Base.ODict Base.Attr Base.Outcome Model.Hypergraph Model.PyIR Gen.ScMutators
     Proofs.HgViews Proofs.HgInv Proofs.IRLemmas.
Import ListNotations.
Open Scope Z_scope.

(* _remove_simplex_id(idx) is, statement for statement, Hypergraph.remove_edge *)
Theorem sc_remove_simplex_id_is_source e s : Inv s ->
  run_method src_sc_remove_simplex_id [e] [] s = remove_edge1 e s.
Proof. exact (remove_edge_prog_ok e s). Qed.

(* _add_face(members): the id is drawn from the counter *)
Theorem sc_add_face_is_source ms s : NoDup ms -> existsb is_none ms = false ->
  run_method_f src_sc_add_face ms None [] s = ok (insert_edge (LInt (h_uid s)) ms [] (with_uid s (h_uid s + 1))).
Proof.
  intros ND Nn. unfold run_method_f, run_guarded, src_sc_add_face. cbn [run_guards].
  assert (Hms : forall x, In x ms -> is_none x = false).
  { intros x Hx. destruct (is_none x) eqn:E; [|reflexivity]. exfalso.
    assert (existsb is_none ms = true) by (apply existsb_exists; exists x; split; assumption). congruence. }
  rewrite exec_list_cons, exec_binduid. hgs.
  set (e := LInt (h_uid s)). set (s0 := with_uid s (h_uid s + 1)).
  set (en := mkEnv [] [] LNone [] LNone [] ms None e []).
  rewrite exec_list_cons, exec_setmembers. change (veval VUid en) with e. change (is_none e) with false. cbn [tab set_tab e_members en].
  rewrite exec_list_cons, exec_formembers. change (e_members en) with ms.
  change [SNewSet TNode VLoop; SNewAttr TNode VLoop] with ([] ++ [SNewSet TNode VLoop; SNewAttr TNode VLoop]).
  rewrite (nstep_loop_ok [] VUid e en (fun x => eq_refl) (fun x => eq_refl) (fun x s1 _ => eq_refl) ms _ Hms).
  rewrite exec_list_cons, exec_newattr. change (veval VUid en) with e. change (is_none e) with false. cbn [atab set_atab].
  rewrite !exec_list_nil. rewrite (insert_edge_as_nstep e ms [] s0 ND).
  rewrite fold_nstep_with_edge, h_eattr_with_edge, fold_nstep_h_eattr. reflexivity.
Qed.

(* _add_simplex(members, idx, **attr): the id has been chosen by the caller *)
Theorem sc_add_simplex_is_source ms e a s : NoDup ms -> existsb is_none ms = false -> is_none e = false ->
  run_method_f src_sc_add_simplex ms (Some e) a s = ok (insert_edge e ms a s).
Proof.
  intros ND Nn Ne. unfold run_method_f, run_guarded, src_sc_add_simplex. cbn [run_guards].
  assert (Hms : forall x, In x ms -> is_none x = false).
  { intros x Hx. destruct (is_none x) eqn:E; [|reflexivity]. exfalso.
    assert (existsb is_none ms = true) by (apply existsb_exists; exists x; split; assumption). congruence. }
  set (en := mkEnv [] [] LNone a LNone [] ms (Some e) LNone []).
  rewrite exec_list_cons, exec_newset. change (veval VIdx en) with e. rewrite Ne. cbn [tab set_tab].
  rewrite exec_list_cons, exec_formembers. change (e_members en) with ms.
  change [SIf (BIsNone VLoop) [SRaise ValueError] []; SNewSet TNode VLoop; SNewAttr TNode VLoop]
    with ([SIf (BIsNone VLoop) [SRaise ValueError] []] ++ [SNewSet TNode VLoop; SNewAttr TNode VLoop]).
  rewrite (nstep_loop_ok [SIf (BIsNone VLoop) [SRaise ValueError] []] VIdx e en (fun x => eq_refl) (fun x => eq_refl)).
  2:{ intros x s1 Nx. rewrite exec_list_cons, exec_if. cbn [beval]. change (veval VLoop (with_loop en x)) with x. rewrite Nx.
      rewrite !exec_list_nil. reflexivity. }
  2:{ exact Hms. }
  rewrite exec_list_cons, exec_setmembers. change (veval VIdx en) with e. rewrite Ne. cbn [tab set_tab e_members en].
  rewrite exec_list_cons, exec_newattr. change (veval VIdx en) with e. rewrite Ne. cbn [atab set_atab].
  rewrite exec_list_cons, exec_attrupdate. change (veval VIdx en) with e. cbn [atab set_atab h_eattr with_eattr e_attr en].
  rewrite get_set_same, set_set_same, !exec_list_nil.
  rewrite (insert_edge_as_nstep e ms a s ND).
  rewrite fold_nstep_with_edge, with_eattr_with_eattr, !h_eattr_with_edge, !h_edge_with_edge, with_edge_with_edge, set_set_same, fold_nstep_h_eattr. reflexivity.
Qed.

