(* C17 - a seed fully determines every stochastic result.
   Gen/SeedIR.v (regenerated from /repo on every run by harness/translate_seed.py) lists, for every
   public function with a `seed` parameter, the random-number events it performs in source order.
   C17_all_well_seeded is re-checked against that list on every run: every draw is from a stream the
   function has seeded from its own seed argument.  C17_deterministic: for ANY generator semantics
   (state type, seeding, stepping, output) such a function draws the same numbers from any two
   generator states, i.e. whatever was drawn or seeded before the call.  The function's result is a
   function of its arguments and the numbers it draws; that this holds of the running code (no
   hidden source of randomness outside the analysed patterns, hash-order effects) is what the
   dynamic oracle decides. *)
From Coq Require Import String List Bool Arith.
From XV Require Import Model.Seed Proofs.SeedProofs Gen.SeedIR.
Import ListNotations.

Theorem C17_all_well_seeded : forallb (fun fp => well_seeded (snd fp)) seeded_functions = true.
Proof. vm_compute. reflexivity. Qed.
Print Assumptions C17_all_well_seeded.

Theorem C17_deterministic : forall (St : Type) init next out f p seed (s1 s2 : stream -> St),
  In (f, p) seeded_functions ->
  draws St init next out seed s1 p = draws St init next out seed s2 p.
Proof.
  intros St init next out f p seed s1 s2 Hin. apply well_seeded_deterministic.
  pose proof C17_all_well_seeded as H. rewrite forallb_forall in H. apply (H (f, p) Hin).
Qed.
Print Assumptions C17_deterministic.

Theorem C17_some_function_listed : seeded_functions <> [].
Proof. vm_compute. discriminate. Qed.
Print Assumptions C17_some_function_listed.
