(* C16: with probability 1 every geometric draw is 1 and skip sampling visits every index exactly once. *)
From Coq Require Import Arith List Lia.
From XV Require Import Model.Decoders.
Import ListNotations.

Lemma skip_all_ones count : forall k cur, (cur + k <= count)%nat ->
  skip_indices (repeat 1 k) cur count = seq cur k.
Proof.
  induction k as [|k IH]; intros cur H; [reflexivity|]. cbn [repeat skip_indices].
  destruct (Nat.leb_spec (cur + 1) count) as [L|L]; [|lia].
  rewrite IH by lia. cbn [seq]. f_equal; [lia|]. f_equal. lia.
Qed.

(* p = 1: draws 1, 1, 1, ... (count + 1 of them: the last one leaves the range) visit 0 .. count-1 in order *)
Theorem visited_all count : visited (repeat 1 (S count)) count = seq 0 count.
Proof.
  unfold visited. replace (S count) with (count + 1)%nat by lia. rewrite repeat_app.
  assert (G : forall k cur rest, (cur + k <= count)%nat ->
              skip_indices (repeat 1 k ++ rest) cur count = seq cur k ++ skip_indices rest (cur + k) count).
  { induction k as [|k IH]; intros cur rest H; [cbn; rewrite Nat.add_0_r; reflexivity|].
    cbn [repeat app skip_indices]. destruct (Nat.leb_spec (cur + 1) count) as [L|L]; [|lia].
    rewrite IH by lia. cbn [seq app]. f_equal; [lia|]. replace (cur + 1)%nat with (S cur) by lia.
    f_equal. f_equal. lia. }
  rewrite G by lia. cbn [repeat skip_indices]. destruct (Nat.leb_spec (0 + count + 1) count) as [L|L]; [lia|].
  apply app_nil_r.
Qed.
