(* xgi/utils/trie.py and xgi/algorithms/simpliciality.py (C15). *)
From Coq Require Import String ZArith QArith List Bool Lia.
From XV Require Import Base.Label Base.LSet Base.ODict Base.Attr Base.Outcome Model.Hypergraph Model.Stats Model.Hodge.
Import ListNotations.
Open Scope Z_scope.

(* ---------- Trie ---------- *)
Inductive trie : Type := TNode (e : bool) (ch : list (lbl * trie)).
Definition tempty : trie := TNode false [].
Definition tend (t : trie) : bool := match t with TNode e _ => e end.
Definition tchildren (t : trie) : list (lbl * trie) := match t with TNode _ ch => ch end.

Fixpoint tinsert_sorted (w : list lbl) (t : trie) : trie :=
  match w with
  | [] => TNode true (tchildren t)
  | c :: w' =>
      let child := match get c (tchildren t) with Some t' => t' | None => tempty end in
      TNode (tend t) (set c (tinsert_sorted w' child) (tchildren t))
  end.
Fixpoint tsearch_sorted (w : list lbl) (t : trie) : bool :=
  match w with
  | [] => tend t
  | c :: w' => match get c (tchildren t) with Some t' => tsearch_sorted w' t' | None => false end
  end.
(* insert / search sort the word first (sorted(word)) *)
Definition tinsert (w : list lbl) (t : trie) : trie := tinsert_sorted (sort_simplex w) t.
Definition tsearch (t : trie) (w : list lbl) : bool := tsearch_sorted (sort_simplex w) t.
Definition build_trie (ws : list (list lbl)) : trie := fold_left (fun t w => tinsert w t) ws tempty.

(* ---------- helpers ---------- *)
Definition edges_geq (s : hg) (k : nat) : list (lbl * list lbl) :=
  filter (fun kv => (k <=? length (snd kv))%nat) (h_edge s).
(* _powerset(face, min_size, max_size) *)
Definition subsets_between (f : list lbl) (lo hi : nat) : list (list lbl) :=
  flat_map (fun r => combs f r) (seq lo (S hi - lo)).
Definition missing_subfaces (t : trie) (f : list lbl) (min_size : nat) : list (list lbl) :=
  filter (fun x => negb (tsearch t x)) (subsets_between f min_size (length f - 1)).

Fixpoint dedup_sets (l : list (list lbl)) : list (list lbl) :=
  match l with
  | [] => []
  | f :: r => if existsb (seteqb f) r then dedup_sets r else f :: dedup_sets r
  end.

(* the maximal edges of size >= k, in edge order *)
Definition max_edges (s : hg) (k : nat) : list (lbl * list lbl) :=
  filter (fun kv => mem (fst kv) (maximal false s) && (k <=? length (snd kv))%nat) (h_edge s).

(* ---------- simplicial_edit_distance(H, min_size, exclude_min_size, normalize) ---------- *)
Fixpoint sed_loop (t : trie) (min_size : nat) (earlier rest : list (list lbl)) (acc : Z) : Z :=
  match rest with
  | [] => acc
  | e :: rest' =>
      let red := fold_left (fun acc2 e2 =>
                              let c := sinter e2 e in
                              if is_nil c then acc2            (* not a neighbour *)
                              else if (min_size <=? length c)%nat
                                   then acc2 ++ missing_subfaces t c min_size ++ (if tsearch t c then [] else [c])
                                   else acc2) earlier [] in
      let mf := Z.of_nat (length (missing_subfaces t e min_size)) in
      let rmf := Z.of_nat (length (dedup_sets red)) in
      sed_loop t min_size (earlier ++ [e]) rest' (acc + mf - rmf)
  end.

Definition b2n (b : bool) : nat := if b then 1%nat else 0%nat.

(* None = nan *)
Definition simplicial_edit_distance (min_size : nat) (excl normalize : bool) (s : hg) : option Q :=
  let edges := map snd (edges_geq s min_size) in
  let t := build_trie edges in
  let mx := map snd (max_edges s (min_size + b2n excl)) in
  match mx with
  | [] => None
  | _ =>
      let ms := sed_loop t min_size [] mx 0 in
      if normalize then
        let d := Z.of_nat (length edges) - Z.of_nat (length mx) + ms in
        if 0 <? d then Some (ms # Z.to_pos d) else None
      else Some (ms # 1)
  end.

(* 2^k - 2 - sum_{i < min_size, i >= 1} C(k, i) *)
Fixpoint binomZ (n k : nat) : Z :=
  match k with
  | O => 1
  | S k' => match n with O => 0 | S n' => binomZ n' k' + binomZ n' k end
  end.
Definition max_number_of_subfaces (min_size k : nat) : Z :=
  2 ^ Z.of_nat k - 2 - fold_left (fun acc i => acc + binomZ k i) (seq 1 (min_size - 1)) 0.

Definition mean_face_edit_distance (min_size : nat) (excl normalize : bool) (s : hg) : option Q :=
  let t := build_trie (map snd (edges_geq s min_size)) in
  let mx := map snd (max_edges s (min_size + b2n excl)) in
  let n := Z.of_nat (length mx) in
  Some (fold_left (fun acc e =>
                     if (min_size <=? length e)%nat then
                       let d := Z.of_nat (length (missing_subfaces t e min_size)) in
                       let m := max_number_of_subfaces min_size (length e) in
                       let dq := if normalize && negb (m =? 0) then (d # Z.to_pos m) else (d # 1) in
                       (acc + dq / (n # 1))%Q
                     else acc) mx 0%Q).

Definition is_simplex (t : trie) (e : list lbl) (min_size : nat) : bool :=
  forallb (tsearch t) (subsets_between e min_size (length e)).

Definition simplicial_fraction (min_size : nat) (excl : bool) (s : hg) : option Q :=
  let t := build_trie (vals (h_edge s)) in
  let cand := map snd (edges_geq s (min_size + b2n excl)) in
  match cand with
  | [] => None
  | _ => Some (Z.of_nat (length (filter (fun e => is_simplex t e min_size) cand)) # Pos.of_nat (length cand))
  end.

Definition oq_eqb (a b : option Q) : bool :=
  match a, b with
  | None, None => true
  | Some x, Some y => Qeq_bool x y
  | _, _ => false
  end.

(* correspondence: (history, [(which measure, min_size, excl, normalize, observed)]) *)
Inductive measure := MSed | MMfed | MFrac.
Definition eval_measure (m : measure) (min_size : nat) (excl normalize : bool) (s : hg) : option Q :=
  match m with
  | MSed => simplicial_edit_distance min_size excl normalize s
  | MMfed => mean_face_edit_distance min_size excl normalize s
  | MFrac => simplicial_fraction min_size excl s
  end.
Fixpoint simp_first_bad (s : hg) (qs : list (measure * nat * bool * bool * option Q)) (j : nat) : option nat :=
  match qs with
  | [] => None
  | (m, k, ex, nm, ob) :: r => if oq_eqb (eval_measure m k ex nm s) ob then simp_first_bad s r (S j) else Some j
  end.
Fixpoint simp_bad_from (cases : list (list op * list (measure * nat * bool * bool * option Q))) (i : nat) : list (nat * nat) :=
  match cases with
  | [] => []
  | (ops, qs) :: r => match simp_first_bad (run ops hg_empty) qs O with
                      | Some j => (i, j) :: simp_bad_from r (S i)
                      | None => simp_bad_from r (S i)
                      end
  end.
Definition simp_bad cases := simp_bad_from cases O.
