(* C19: the largest connected hypergraph (in place) is the sub-network INDUCED by a largest component:
   its nodes are one reachability class of maximal size and its edges are exactly the edges all of whose
   members lie in that class, with unchanged members. *)
From Coq Require Import String ZArith List Bool Lia.
From XV Require Import Base.Label Base.LSet Base.ODict Base.Attr Base.Outcome Model.Hypergraph Model.Stats Model.Graph
     Proofs.HgViews Proofs.HgInv Proofs.HgInvOps Proofs.DerivedProofs Proofs.GraphProofs Proofs.LccProofs Proofs.CleanupProofs.
Import ListNotations.
Open Scope Z_scope.

Theorem lcc_induced s c : Inv s -> first_longest (Hypergraph.components s) = Some c ->
  let t := st_of (largest_connected_inplace s) in
  exists v, In v (nkeys s) /\
    (forall c', In c' (Hypergraph.components s) -> (length c' <= length c)%nat) /\
    (forall x, In x (nkeys t) <-> Reach s v x) /\
    (forall e m, get e (h_edge t) = Some m <-> get e (h_edge s) = Some m /\ forall x, In x m -> Reach s v x).
Proof.
  intros I Hc. cbv zeta. pose proof I as (W & _).
  destruct (lcc_inplace_spec s c I Hc) as (v & Hv & Ec & Hmax & Nt).
  exists v. split; [exact Hv|]. split; [exact Hmax|]. split; [exact Nt|].
  unfold largest_connected_inplace in *. rewrite Hc in *.
  set (ns := sdiff (keys (h_node s)) c) in *.
  intros e m. rewrite (remove_nodes_weak_table ns s I e).
  destruct (get e (h_edge s)) as [m0|] eqn:G; [|rewrite wfold_None; split; [discriminate|intros [H _]; discriminate H]].
  assert (Hnodes : forall x, In x m0 -> In x (nkeys s)).
  { intros x Hx. apply (members_are_nodes s e x I). rewrite (mems_get s e m0 G). exact Hx. }
  assert (Hns : forall x, In x ns <-> In x (nkeys s) /\ ~ Reach s v x).
  { intro x. unfold ns. rewrite In_sdiff, Ec. reflexivity. }
  assert (Dec : (exists x0, In x0 m0 /\ Reach s v x0) \/ (forall x, In x m0 -> ~ Reach s v x)).
  { destruct (existsb (fun x => mem x c) m0) eqn:Ex.
    - left. apply existsb_exists in Ex. destruct Ex as (x0 & Hx0 & Mx). exists x0. split; [exact Hx0|]. apply Ec. apply mem_In. exact Mx.
    - right. intros x Hx R. apply Ec in R. apply mem_In in R.
      assert (existsb (fun x => mem x c) m0 = true) by (apply existsb_exists; exists x; auto). congruence. }
  destruct Dec as [(x0 & Hx0 & R0)|Hnone].
  - assert (All : forall x, In x m0 -> Reach s v x).
    { intros x Hx. eapply Reach_trans; [exact R0|]. apply (edge_members_reach s e m0 x0 x W G Hx0 Hx). }
    rewrite wfold_untouched.
    + split; [intro H; inversion H; subst; split; [reflexivity|exact All]|intros [H _]; exact H].
    + intros n Hn Hi. apply Hns in Hn. destruct Hn as [_ Hn]. apply Hn. apply All. exact Hi.
  - destruct m0 as [|y m0'].
    + rewrite wfold_untouched by (intros n _ []). split; [intro H; inversion H; subst; split; [reflexivity|intros x []]|intros [H _]; exact H].
    + rewrite wfold_all_removed; [|discriminate|].
      * split; [discriminate|]. intros [H R]. inversion H; subst. exfalso. apply (Hnone y (or_introl eq_refl)). apply R. left. reflexivity.
      * intros x Hx. apply Hns. split; [apply Hnodes; exact Hx|apply Hnone; exact Hx].
Qed.
