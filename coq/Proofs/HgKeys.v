(* How the Hypergraph-level functions change the key sets and the counter (used by the directed
   model, whose two sides must agree on them). *)
From Coq Require Import String ZArith List Bool Lia.
From XV Require Import Base.Label Base.LSet Base.ODict Base.Attr Base.Outcome Model.Hypergraph
  Model.DiHypergraph Proofs.HgViews Proofs.HgInv Proofs.HgInvOps.
Import ListNotations.
Open Scope Z_scope.

Lemma ensure_node_In x n s : In x (nkeys (ensure_node n s)) <-> x = n \/ In x (nkeys s).
Proof.
  rewrite ensure_node_nkeys. destruct (has n (h_node s)) eqn:E.
  - apply has_In in E. split; [auto|]. intros [->|H]; auto.
  - rewrite in_app_iff. simpl. intuition.
Qed.

Lemma ensure_node_ekeys n s : ekeys (ensure_node n s) = ekeys s.
Proof. unfold ekeys. rewrite ensure_node_edge. reflexivity. Qed.

Lemma ensure_nodes_spec ns : forall s,
  (forall x, In x (nkeys (ensure_nodes ns s)) <-> In x ns \/ In x (nkeys s)) /\
  ekeys (ensure_nodes ns s) = ekeys s /\ h_uid (ensure_nodes ns s) = h_uid s /\
  (Inv s -> Inv (ensure_nodes ns s)).
Proof.
  induction ns as [|n ns IH]; intro s; simpl.
  - split; [intro; tauto|auto].
  - destruct (IH (ensure_node n s)) as (A & B & C & D). unfold ensure_nodes in *. simpl.
    split; [|split; [|split]].
    + intro x. rewrite A, ensure_node_In. intuition.
    + rewrite B. apply ensure_node_ekeys.
    + rewrite C. apply ensure_node_uid.
    + intro I. apply D. apply Inv_ensure_node. exact I.
Qed.

Lemma attach_nkeys_In e s n x : In x (nkeys (attach e s n)) <-> x = n \/ In x (nkeys s).
Proof.
  unfold attach. change (nkeys (edge_add e n (node_add n e (ensure_node n s)))) with
    (nkeys (node_add n e (ensure_node n s))).
  rewrite node_add_nkeys by apply ensure_node_has. apply ensure_node_In.
Qed.

Lemma fold_attach_nkeys e ms : forall s x,
  In x (nkeys (fold_left (attach e) ms s)) <-> In x ms \/ In x (nkeys s).
Proof.
  induction ms as [|m ms IH]; intros s x; simpl; [tauto|].
  rewrite IH, attach_nkeys_In. intuition.
Qed.

Lemma insert_edge_nkeys e ms a s x :
  In x (nkeys (insert_edge e ms a s)) <-> In x ms \/ In x (nkeys s).
Proof.
  unfold insert_edge. change (nkeys (with_eattr ?s _)) with (nkeys s).
  unfold nkeys at 1. simpl. change (In x (nkeys (fold_left (attach e) ms (with_edge s (set e [] (h_edge s))))) <-> In x ms \/ In x (nkeys s)).
  rewrite fold_attach_nkeys. reflexivity.
Qed.

Lemma remove_edge1_keys e s :
  let s' := st_of (remove_edge1 e s) in
  nkeys s' = nkeys s /\ (forall x, In x (ekeys s') <-> x <> e /\ In x (ekeys s)) /\ h_uid s' = h_uid s.
Proof.
  unfold remove_edge1. destruct (get e (h_edge s)) as [ms|] eqn:G; cbv zeta; rewrite ?st_of_ok, ?st_of_raise.
  - destruct (unlink_views e ms s) as (_ & B & _ & _ & E & F & _).
    split; [exact F|]. split; [|exact E].
    intro x. rewrite drop_edge_ekeys, In_sremove. unfold ekeys. rewrite B. reflexivity.
  - split; [reflexivity|]. split; [|reflexivity].
    intro x. apply get_None in G. split; [|tauto]. intro H. split; [|exact H]. intro; subst. contradiction.
Qed.

Lemma drop_edge_keys e s :
  nkeys (drop_edge e s) = nkeys s /\ (forall x, In x (ekeys (drop_edge e s)) <-> x <> e /\ In x (ekeys s)) /\
  h_uid (drop_edge e s) = h_uid s.
Proof.
  split; [reflexivity|]. split; [|reflexivity]. intro x. rewrite drop_edge_ekeys. apply In_sremove.
Qed.

Lemma drop_node_keys n s :
  (forall x, In x (nkeys (drop_node n s)) <-> x <> n /\ In x (nkeys s)) /\ ekeys (drop_node n s) = ekeys s /\
  h_uid (drop_node n s) = h_uid s.
Proof.
  split; [|split; reflexivity]. intro x. unfold nkeys, drop_node. simpl. apply In_keys_del.
Qed.

(* weak removal without dropping empties: only the node disappears *)
Lemma fold_left_ext {A B} (f g : A -> B -> A) l :
  (forall a b, f a b = g a b) -> forall a, fold_left f l a = fold_left g l a.
Proof. intro H. induction l as [|x xs IH]; intro a; simpl; [reflexivity|]. rewrite H. apply IH. Qed.

Lemma remove_node_weak_keep n s :
  st_of (remove_node n false false s) =
  match get n (h_node s) with
  | None => s
  | Some es => fold_left (fun s e => edge_rem e n s) es (drop_node n s)
  end.
Proof.
  unfold remove_node. destruct (get n (h_node s)) as [es|]; [|reflexivity].
  rewrite st_of_ok. apply fold_left_ext. intros a b. rewrite andb_false_r. reflexivity.
Qed.

Lemma fold_edge_rem_keys n es : forall s,
  let s1 := fold_left (fun s e => edge_rem e n s) es s in
  nkeys s1 = nkeys s /\ ekeys s1 = ekeys s /\ h_uid s1 = h_uid s.
Proof.
  induction es as [|e es IH]; intro s; simpl; [auto|].
  destruct (IH (edge_rem e n s)) as (A & B & C). simpl in *.
  destruct (edge_rem_other e n s) as (T1 & _ & _ & T4).
  rewrite A, B, C, edge_rem_ekeys. unfold nkeys. rewrite T1. auto.
Qed.

Lemma remove_node_weak_keep_keys n s :
  let s' := st_of (remove_node n false false s) in
  (forall x, In x (nkeys s') <-> x <> n /\ In x (nkeys s)) /\ ekeys s' = ekeys s /\ h_uid s' = h_uid s.
Proof.
  cbv zeta. rewrite remove_node_weak_keep. destruct (get n (h_node s)) as [es|] eqn:G.
  - destruct (fold_edge_rem_keys n es (drop_node n s)) as (A & B & C). cbv zeta in *.
    destruct (drop_node_keys n s) as (D1 & D2 & D3).
    rewrite A, B, C. auto.
  - split; [|auto]. intro x. apply get_None in G. split; [|tauto]. intro H. split; [|exact H].
    intro; subst. contradiction.
Qed.

Lemma unlink1_keys e n s :
  nkeys (unlink1 e n s) = nkeys s /\ ekeys (unlink1 e n s) = ekeys s /\ h_uid (unlink1 e n s) = h_uid s.
Proof.
  unfold unlink1. rewrite node_rem_nkeys.
  destruct (edge_rem_other e n s) as (T1 & _ & _ & T4).
  split; [unfold nkeys; rewrite T1; reflexivity|]. split.
  - unfold node_rem. destruct (has n (h_node (edge_rem e n s))); simpl; apply edge_rem_ekeys.
  - unfold node_rem. destruct (has n (h_node (edge_rem e n s))); simpl; exact T4.
Qed.

(* operations that touch attributes only *)
Definition SameStruct (s s' : hg) : Prop :=
  h_node s' = h_node s /\ h_edge s' = h_edge s /\ h_uid s' = h_uid s.

Lemma SameStruct_refl s : SameStruct s s. Proof. repeat split. Qed.
Lemma SameStruct_trans a b c : SameStruct a b -> SameStruct b c -> SameStruct a c.
Proof. intros (A1 & A2 & A3) (B1 & B2 & B3). repeat split; congruence. Qed.

Lemma loop_same {A} (f : hg -> A -> res) l :
  (forall s x, SameStruct s (st_of (f s x))) -> forall s, SameStruct s (st_of (loop f l s)).
Proof.
  intro Hf. induction l as [|x xs IH]; intro s; simpl; [apply SameStruct_refl|].
  specialize (Hf s x). destruct (f s x) as [[s' o] w]. unfold st_of in *; simpl in *.
  destruct o; [|exact Hf]. specialize (IH s'). destruct (loop f xs s') as [[s'' o'] w']. simpl in *.
  eapply SameStruct_trans; eassumption.
Qed.

Lemma nattr_update_same n a s : SameStruct s (nattr_update n a s). Proof. repeat split. Qed.
Lemma eattr_update_same n a s : SameStruct s (eattr_update n a s). Proof. repeat split. Qed.

Lemma fold_same {A} (f : hg -> A -> hg) l :
  (forall s x, SameStruct s (f s x)) -> forall s, SameStruct s (fold_left f l s).
Proof.
  intro Hf. induction l as [|x xs IH]; intro s; simpl; [apply SameStruct_refl|].
  eapply SameStruct_trans; [apply Hf|apply IH].
Qed.

Lemma set_node_attrs_named_same vals name s : SameStruct s (st_of (set_node_attrs_named vals name s)).
Proof.
  unfold set_node_attrs_named. apply loop_same. intros s' [n v].
  destruct (has n (h_nattr s')); [apply nattr_update_same|apply SameStruct_refl].
Qed.
Lemma set_node_attrs_dict_same vals s : SameStruct s (st_of (set_node_attrs_dict vals s)).
Proof.
  unfold set_node_attrs_dict. apply loop_same. intros s' [n v].
  destruct (has n (h_nattr s')); [apply nattr_update_same|apply SameStruct_refl].
Qed.
Lemma set_node_attrs_scalar_same v name s : SameStruct s (st_of (set_node_attrs_scalar v name s)).
Proof. unfold set_node_attrs_scalar. rewrite st_of_ok. apply fold_same. intros; apply nattr_update_same. Qed.
Lemma set_edge_attrs_named_same vals name s : SameStruct s (st_of (set_edge_attrs_named vals name s)).
Proof.
  unfold set_edge_attrs_named. apply loop_same. intros s' [n v].
  destruct (has n (h_eattr s')); [apply eattr_update_same|apply SameStruct_refl].
Qed.
Lemma set_edge_attrs_dict_same vals s : SameStruct s (st_of (set_edge_attrs_dict vals s)).
Proof.
  unfold set_edge_attrs_dict. apply loop_same. intros s' [n v].
  destruct (has n (h_eattr s')); [apply eattr_update_same|apply SameStruct_refl].
Qed.
Lemma set_edge_attrs_scalar_same v name s : SameStruct s (st_of (set_edge_attrs_scalar v name s)).
Proof. unfold set_edge_attrs_scalar. rewrite st_of_ok. apply fold_same. intros; apply eattr_update_same. Qed.
