(* C10: from_incidence_matrix(to_incidence_matrix(H), labels from the index maps) has exactly the
   incidences of H. *)
From Coq Require Import String ZArith List Bool Lia.
From XV Require Import Base.Label Base.LSet Base.ODict Base.Attr Base.Outcome Model.Hypergraph Model.HgCheck
     Model.Hodge Model.Matrix Model.Graph Model.Copy Model.DiHypergraph Model.Convert
     Proofs.HgViews Proofs.HgInv Proofs.HgInvOps Proofs.HgStep Proofs.HgKeys Proofs.HgErrors
     Proofs.DerivedProofs Proofs.HodgeProofs Proofs.MatrixProofs Proofs.ConvertProofs.
Import ListNotations.
Open Scope Z_scope.

Lemma In_indexed {A} (l : list A) d x i : forall a,
  In (i, x) (combine (seq a (length l)) l) <-> (a <= i < a + length l)%nat /\ x = nth (i - a) l d.
Proof.
  induction l as [|y l IH]; intro a; cbn [length seq combine In].
  - split; [intros []|intros [H _]; lia].
  - rewrite IH. split.
    + intros [E|[H1 H2]].
      * inversion E; subst. split; [lia|]. rewrite Nat.sub_diag. reflexivity.
      * split; [lia|]. subst x. replace (i - a)%nat with (S (i - S a)) by lia. reflexivity.
    + intros [H1 H2]. destruct (Nat.eq_dec i a) as [->|N].
      * left. rewrite Nat.sub_diag in H2. subst x. reflexivity.
      * right. split; [lia|]. subst x. replace (i - a)%nat with (S (i - S a)) by lia. reflexivity.
Qed.

(* the pairs read off a matrix: (row label, column label) of every non-zero entry *)
Lemma In_matrix_pairs Im nl el x y :
  In (x, y) (matrix_pairs Im nl el) <->
  exists i j, (i < length Im)%nat /\ (j < length (nth i Im []))%nat /\ nth j (nth i Im []) 0 <> 0 /\
              x = nth i nl LNone /\ y = nth j el LNone.
Proof.
  unfold matrix_pairs. rewrite in_flat_map. split.
  - intros ([i row] & Hir & H). apply (In_indexed Im [] row i 0%nat) in Hir. destruct Hir as [Hi Er].
    rewrite Nat.sub_0_r in Er. cbn [fst snd] in H. apply in_flat_map in H. destruct H as ([j v] & Hjv & H).
    apply (In_indexed row 0 v j 0%nat) in Hjv. destruct Hjv as [Hj Ev]. rewrite Nat.sub_0_r in Ev. cbn [fst snd] in H.
    destruct (v =? 0) eqn:E0; [destruct H|]. destruct H as [H|[]]. inversion H; subst.
    exists i, j. split; [lia|]. split; [lia|]. split; [apply Z.eqb_neq; exact E0|]. split; reflexivity.
  - intros (i & j & Hi & Hj & Hv & -> & ->). exists (i, nth i Im []). split.
    + apply (In_indexed Im [] (nth i Im []) i 0%nat). split; [lia|]. rewrite Nat.sub_0_r. reflexivity.
    + cbn [fst snd]. apply in_flat_map. exists (j, nth j (nth i Im []) 0). split.
      * apply (In_indexed (nth i Im []) 0 _ j 0%nat). split; [lia|]. rewrite Nat.sub_0_r. reflexivity.
      * cbn [fst snd]. apply Z.eqb_neq in Hv. rewrite Hv. left. reflexivity.
Qed.

Lemma b2z_nonzero b : b2z b <> 0 <-> b = true.
Proof. destruct b; cbn; split; intro H; try reflexivity; try lia; try discriminate; congruence. Qed.

(* the pairs of the incidence matrix under its own index maps are exactly the incidences *)
Lemma incidence_pairs s n e : Inv s ->
  (In (n, e) (matrix_pairs (incidence s None) (keys (h_node s)) (keys (h_edge s))) <-> In n (mems s e)).
Proof.
  intro I. pose proof I as (HW & (_ & _ & Kn & Ke) & _).
  rewrite In_matrix_pairs. cbn [edges_of_order]. split.
  - intros (i & j & Hi & Hj & Hv & -> & ->).
    destruct (h_edge s) as [|e0 es0] eqn:Ee.
    { rewrite incidence_empty in Hi by (left; cbn [edges_of_order]; exact Ee). simpl in Hi. lia. }
    destruct (h_node s) as [|n0 ns0] eqn:En.
    { rewrite incidence_empty in Hi by (right; exact En). simpl in Hi. lia. }
    rewrite <- Ee, <- En in *.
    assert (He : edges_of_order s None <> []) by (cbn [edges_of_order]; rewrite Ee; discriminate).
    assert (Hn : h_node s <> []) by (rewrite En; discriminate).
    destruct (incidence_shape s None He Hn) as [HL HR].
    assert (Hi' : (i < length (h_node s))%nat) by (rewrite <- HL; exact Hi).
    assert (Hj' : (j < length (edges_of_order s None))%nat).
    { rewrite <- (HR (nth i (incidence s None) [])); [exact Hj|]. apply nth_In. exact Hi. }
    rewrite (incidence_entry s None i j Hi' Hj') in Hv. apply b2z_nonzero in Hv. apply mem_In in Hv.
    unfold node_at, edge_at in Hv. cbn [edges_of_order] in Hv, Hj'.
    set (kv := nth j (h_edge s) (LNone, [])) in *.
    assert (Hkv : In kv (h_edge s)) by (apply nth_In; exact Hj').
    assert (Ek : nth j (keys (h_edge s)) LNone = fst kv).
    { unfold keys. rewrite (nth_indep _ LNone (fst (LNone, @nil lbl))) by (rewrite map_length; exact Hj'). apply map_nth. }
    rewrite Ek. unfold mems, getl. destruct kv as [e ms]. cbn [fst snd] in *. rewrite (In_get _ _ _ Ke Hkv). exact Hv.
  - intro H.
    assert (Hn : In n (nkeys s)) by (apply (members_are_nodes s e n I H)).
    unfold mems, getl in H. destruct (get e (h_edge s)) as [ms|] eqn:G; [|destruct H].
    apply get_In in G.
    destruct (In_nth _ _ LNone Hn) as (i & Hi & Ei). destruct (In_nth _ _ (LNone, []) G) as (j & Hj & Ej).
    assert (He : edges_of_order s None <> []) by (cbn [edges_of_order]; intro E0; rewrite E0 in Hj; simpl in Hj; lia).
    assert (Hnn : h_node s <> []) by (intro E0; unfold nkeys in Hi; rewrite E0 in Hi; simpl in Hi; lia).
    destruct (incidence_shape s None He Hnn) as [HL HR].
    assert (Hi' : (i < length (h_node s))%nat) by (unfold nkeys, keys in Hi; rewrite map_length in Hi; exact Hi).
    exists i, j. split; [rewrite HL; exact Hi'|]. split.
    { rewrite (HR (nth i (incidence s None) [])); [exact Hj|]. apply nth_In. rewrite HL. exact Hi'. }
    split.
    { rewrite (incidence_entry s None i j Hi' Hj). apply b2z_nonzero. apply mem_In.
      unfold node_at, edge_at. cbn [edges_of_order]. fold (nkeys s). rewrite Ei, Ej. exact H. }
    split; [symmetry; exact Ei|].
    unfold keys. rewrite (nth_indep _ LNone (fst (LNone, @nil lbl))) by (rewrite map_length; exact Hj).
    rewrite map_nth, Ej. reflexivity.
Qed.

Theorem incidence_matrix_roundtrip s : Inv s -> NoNone s ->
  let r := from_incidence_matrix (incidence s None) (Some (keys (h_node s), keys (h_edge s))) in
  let t := st_of r in
  (h_edge s <> [] -> h_node s <> [] -> out_of r = Ok) /\
  (out_of r = Ok -> forall n e, In n (mems t e) <-> In n (mems s e)).
Proof.
  intros I NN. cbv zeta. unfold from_incidence_matrix.
  set (P := matrix_pairs (incidence s None) (keys (h_node s)) (keys (h_edge s))).
  assert (HP : NoNonePairs P).
  { intros [n e] Hp. apply (incidence_pairs s n e I) in Hp. cbn [fst snd]. destruct NN as [NNn NNe]. split.
    - intro N. subst n. apply NNn. apply (members_are_nodes s e LNone I Hp).
    - intro N. subst e. apply NNe. unfold mems, getl in Hp. destruct (get LNone (h_edge s)) eqn:G; [|destruct Hp].
      apply get_Some_In in G. exact G. }
  destruct (add_pairs_effect P hg_empty HP) as [O1 M1].
  split.
  - intros He Hn.
    assert (He' : edges_of_order s None <> []) by (cbn [edges_of_order]; exact He).
    destruct (incidence_shape s None He' Hn) as [HL HR].
    assert (E1 : Nat.eqb (length (keys (h_node s))) (length (incidence s None)) = true).
    { apply Nat.eqb_eq. rewrite HL. unfold keys. apply map_length. }
    assert (E2 : Nat.eqb (length (keys (h_edge s))) (ncols (incidence s None)) = true).
    { apply Nat.eqb_eq. unfold ncols. destruct (incidence s None) as [|r0 rs] eqn:EI.
      - simpl in HL. destruct (h_node s); [congruence|discriminate].
      - rewrite (HR r0 (or_introl eq_refl)). cbn [edges_of_order]. unfold keys. apply map_length. }
    rewrite E1, E2. cbn [negb orb]. exact O1.
  - destruct (negb (Nat.eqb (length (keys (h_node s))) (length (incidence s None))) ||
              negb (Nat.eqb (length (keys (h_edge s))) (ncols (incidence s None)))) eqn:E.
    + intro H. discriminate H.
    + intros _ n e. rewrite M1. fold P. unfold P. rewrite (incidence_pairs s n e I).
      split; [intros [H|[]]; exact H|auto].
Qed.

(* positional reading (read_incidence_matrix): row i becomes node i, column j becomes edge j *)
Lemma nth_int_labels n i : (i < n)%nat -> nth i (int_labels n) LNone = LInt (Z.of_nat i).
Proof.
  intro H. unfold int_labels. rewrite (nth_map_lt (fun k => LInt (Z.of_nat k)) (seq 0 n) i O LNone) by (rewrite seq_length; exact H).
  rewrite seq_nth by exact H. reflexivity.
Qed.

Theorem incidence_positional_roundtrip s : Inv s -> h_edge s <> [] -> h_node s <> [] ->
  let r := from_incidence_matrix (incidence s None) None in
  let t := st_of r in
  out_of r = Ok /\
  forall i j, (i < length (h_node s))%nat -> (j < length (h_edge s))%nat ->
    (In (LInt (Z.of_nat i)) (mems t (LInt (Z.of_nat j))) <->
     In (nth i (keys (h_node s)) LNone) (snd (nth j (h_edge s) (LNone, [])))).
Proof.
  intros I He Hn. cbv zeta. unfold from_incidence_matrix.
  assert (He' : edges_of_order s None <> []) by (cbn [edges_of_order]; exact He).
  destruct (incidence_shape s None He' Hn) as [HL HR].
  assert (Hnc : ncols (incidence s None) = length (h_edge s)).
  { unfold ncols. destruct (incidence s None) as [|r0 rs] eqn:EI.
    - simpl in HL. destruct (h_node s); [congruence|discriminate].
    - rewrite (HR r0 (or_introl eq_refl)). reflexivity. }
  rewrite HL, Hnc.
  set (P := matrix_pairs (incidence s None) (int_labels (length (h_node s))) (int_labels (length (h_edge s)))).
  assert (Hchar : forall x y, In (x, y) P <-> exists i j, (i < length (h_node s))%nat /\ (j < length (h_edge s))%nat /\
                    In (nth i (keys (h_node s)) LNone) (snd (nth j (h_edge s) (LNone, []))) /\
                    x = LInt (Z.of_nat i) /\ y = LInt (Z.of_nat j)).
  { intros x y. unfold P. rewrite In_matrix_pairs. split.
    - intros (i & j & Hi & Hj & Hv & -> & ->). rewrite HL in Hi.
      assert (Hj' : (j < length (h_edge s))%nat).
      { rewrite (HR (nth i (incidence s None) [])) in Hj; [exact Hj|]. apply nth_In. rewrite HL. exact Hi. }
      exists i, j. split; [exact Hi|]. split; [exact Hj'|].
      rewrite (incidence_entry s None i j Hi Hj') in Hv. apply b2z_nonzero in Hv. apply mem_In in Hv.
      split; [exact Hv|]. split; apply nth_int_labels; assumption.
    - intros (i & j & Hi & Hj & Hin & -> & ->). exists i, j. split; [rewrite HL; exact Hi|]. split.
      { rewrite (HR (nth i (incidence s None) [])); [exact Hj|]. apply nth_In. rewrite HL. exact Hi. }
      split; [rewrite (incidence_entry s None i j Hi Hj); apply b2z_nonzero; apply mem_In; exact Hin|].
      split; symmetry; apply nth_int_labels; assumption. }
  assert (HP : forall p, In p P -> fst p <> LNone /\ snd p <> LNone).
  { intros [x y] Hp. apply Hchar in Hp. destruct Hp as (i & j & _ & _ & _ & -> & ->). cbn [fst snd]. split; discriminate. }
  destruct (add_pairs_effect P hg_empty HP) as [O1 M1].
  split; [exact O1|]. intros i j Hi Hj. rewrite M1, Hchar. split.
  - intros [(i' & j' & _ & _ & Hin & Ei & Ej)|[]]. inversion Ei as [E1]. inversion Ej as [E2].
    apply Nat2Z.inj in E1. apply Nat2Z.inj in E2. subst i' j'. exact Hin.
  - intro Hin. left. exists i, j. repeat split; assumption.
Qed.
