(* C14 - graph-reducible algorithms (theorems are added from Proofs/GraphProofs.v). *)
From Coq Require Import String ZArith List Bool.
From XV Require Import Base.Label Base.LSet Base.ODict Base.Attr Base.Outcome Model.Hypergraph Model.Stats Model.Graph.
Import ListNotations.
Open Scope Z_scope.

Example C14_nonvacuous :
  let s := run [OAddEdgesFrom (EB1 [[LInt 1; LInt 2; LInt 3]; [LInt 3; LInt 4]; [LInt 5; LInt 6]; [LInt 1; LInt 2]]) []; OAddNode (LInt 9) []] hg_empty in
  components s = [[LInt 1; LInt 2; LInt 3; LInt 4]; [LInt 5; LInt 6]; [LInt 9]] /\
  dist s (LInt 1) (LInt 4) = Some 2 /\ dist s (LInt 1) (LInt 5) = None /\
  dag_links s StAll = [(LInt 0, LInt 3)].
Proof. vm_compute. repeat split. Qed.
Print Assumptions C14_nonvacuous.
