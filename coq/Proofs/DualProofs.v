(* C19: the dual transposes the incidence relation, and is an involution on incidences. *)
From Coq Require Import String ZArith List Bool Lia.
From XV Require Import Base.Label Base.LSet Base.ODict Base.Attr Base.Outcome Model.Hypergraph Model.HgCheck
     Model.SimplicialComplex Model.Copy Model.Derived
     Proofs.HgViews Proofs.HgInv Proofs.HgInvOps Proofs.HgStep Proofs.HgKeys Proofs.HgErrors Proofs.ScTables
     Proofs.Build Proofs.DerivedProofs.
Import ListNotations.
Open Scope Z_scope.

Lemma In_order_by nh f x : In x (order_by nh f) <-> In x f.
Proof.
  unfold order_by. rewrite in_app_iff, !filter_In, mem_In, negb_true_iff, mem_nIn. split.
  - intros [[_ H]|[H _]]; exact H.
  - intro H. destruct (in_dec lbl_eq_dec x nh) as [Hi|Hn]; [left; split; assumption|right; split; assumption].
Qed.

(* add_nodes_from on the structure: only keys are added *)
Lemma add_nodes_from_struct items a : forall s,
  Inv s -> (forall it, In it items -> fst it <> LNone) ->
  let r := add_nodes_from items a s in
  let t := st_of r in
  out_of r = Ok /\ Inv t /\ h_edge t = h_edge s /\ h_net t = h_net s /\
  (forall x, In x (nkeys t) <-> In x (nkeys s) \/ In x (map fst items)) /\
  (forall n, mships t n = mships s n).
Proof.
  induction items as [|[n od] items IH]; intros s I Hn; cbv zeta; rewrite add_nodes_from_loop.
  - cbn [loop]. rewrite st_of_ok. unfold out_of, ok. cbn [fst snd map].
    split; [reflexivity|]. split; [exact I|]. split; [reflexivity|]. split; [reflexivity|].
    split; [intro x; split; [auto|intros [H|[]]; exact H]|reflexivity].
  - assert (Hnn : n <> LNone) by (apply (Hn (n, od)); left; reflexivity).
    set (nd := newdict a od).
    set (s1 := nattr_update n nd (ensure_node n s)).
    assert (F : node_step a s (n, od) = (s1, Ok, O)).
    { unfold node_step, s1, nd, newdict. destruct (has n (h_node s)) eqn:E.
      - unfold ensure_node. rewrite E. reflexivity.
      - rewrite (is_none_false n Hnn). reflexivity. }
    destruct (loop_cons_ok (node_step a) (n, od) items s s1 O F) as [E1 E2]. rewrite E1, E2.
    assert (I1 : Inv s1) by (apply Inv_nattr_update; [apply ensure_node_has|apply Inv_ensure_node; exact I]).
    specialize (IH s1 I1 (fun it Hit => Hn it (or_intror Hit))). cbv zeta in IH. rewrite add_nodes_from_loop in IH.
    destruct IH as (O2 & I2 & E2' & NT2 & K2 & M2).
    split; [exact O2|]. split; [exact I2|].
    split; [rewrite E2'; unfold s1; cbn [nattr_update h_edge with_nattr]; apply ensure_node_edge|].
    split; [rewrite NT2; unfold s1; cbn [nattr_update h_net with_nattr]; apply ensure_node_net|].
    split.
    + intro x. rewrite K2. unfold s1. change (nkeys (nattr_update n nd ?y)) with (nkeys y).
      rewrite ensure_node_In. cbn [map fst]. split.
      * intros [[->|H]|H]; [right; left; reflexivity|left; exact H|right; right; exact H].
      * intros [H|[<-|H]]; [left; right; exact H|left; left; reflexivity|right; exact H].
    + intro m. rewrite M2. unfold s1. change (mships (nattr_update n nd ?y) m) with (mships y m).
      apply ensure_node_mships.
Qed.

(* dual(): edges <-> nodes, the incidence relation transposed *)
Theorem dual_spec nhint s : Inv s -> NoNone s ->
  let r := dual nhint s in
  let t := st_of r in
  out_of r = Ok /\ Inv t /\ NoNone t /\
  ekeys t = nkeys s /\ (forall x, In x (nkeys t) <-> In x (ekeys s)) /\
  (forall n e, In e (mems t n) <-> In n (mems s e)) /\
  h_net t = h_net s.
Proof.
  intros I [NNn NNe]. cbv zeta. unfold dual.
  pose proof I as (HW & (_ & _ & Kn & Ke) & _).
  set (eitems := map (fun n => (order_by nhint (getl n (h_node s)), n, geta n (h_nattr s))) (keys (h_node s))).
  set (nitems := map (fun e => (e, Some (geta e (h_eattr s)))) (keys (h_edge s))).
  assert (Hid : map item_id eitems = nkeys s).
  { unfold eitems. rewrite map_map. cbn [item_id fst snd]. apply map_id. }
  assert (Hmships_keys : forall n e, In e (mships s n) -> In e (ekeys s)).
  { intros n e H. apply HW in H. unfold mems in H. apply (getl_nonempty_key e (h_edge s) n H). }
  destruct (build_edges_effect eitems [] hg_empty Inv_empty) as (O1 & _ & I1 & K1 & E1 & _ & N1 & _).
  { split; [rewrite Hid; exact Kn|]. intros it Hit. unfold eitems in Hit. apply in_map_iff in Hit.
    destruct Hit as (n & <- & Hk). cbn [item_id item_ms fst snd]. split; [intros []|]. split.
    - apply is_none_false. intro N. subst n. apply NNn. exact Hk.
    - apply no_none_members. intro Hx. apply In_order_by in Hx. apply NNe. apply (Hmships_keys n LNone Hx). }
  set (r1 := add_edges_from (EB4 eitems) [] hg_empty) in *. set (s1 := st_of r1) in *.
  match goal with |- context [bind r1 ?k] => destruct (bind_ok_st r1 k O1) as [Est Eout] end.
  rewrite Est, Eout. clear Est Eout. cbv beta. fold s1.
  assert (S2 : exists r2, (match nitems with [] => ok s1 | _ :: _ => add_nodes_from nitems [] s1 end) = r2 /\
               out_of r2 = Ok /\ Inv (st_of r2) /\ h_edge (st_of r2) = h_edge s1 /\ h_net (st_of r2) = h_net s1 /\
               (forall x, In x (nkeys (st_of r2)) <-> In x (nkeys s1) \/ In x (map fst nitems)) /\
               (forall n, mships (st_of r2) n = mships s1 n)).
  { eexists. split; [reflexivity|]. destruct nitems as [|it0 its] eqn:En.
    - rewrite st_of_ok. unfold out_of, ok. cbn [fst snd map]. split; [reflexivity|]. split; [exact I1|].
      split; [reflexivity|]. split; [reflexivity|]. split; [intro x; split; [auto|intros [H|[]]; exact H]|reflexivity].
    - rewrite <- En. apply add_nodes_from_struct; [exact I1|]. intros it Hit. unfold nitems in Hit.
      apply in_map_iff in Hit. destruct Hit as (e & <- & Hk). cbn [fst]. intro N. subst e. apply NNe. exact Hk. }
  destruct S2 as (r2 & Er2 & O2 & I2 & E2 & NT2 & K2 & M2). rewrite Er2.
  match goal with |- context [bind r2 ?k] => destruct (bind_ok_st r2 k O2) as [Est Eout] end.
  rewrite Est, Eout. clear Est Eout. cbv beta. rewrite st_of_ok.
  set (s2 := st_of r2) in *.
  assert (Hnk : forall x, In x (nkeys (with_net s2 (h_net s))) <-> In x (ekeys s)).
  { intro x. change (nkeys (with_net s2 (h_net s))) with (nkeys s2). rewrite K2, N1.
    assert (Fn : map fst nitems = ekeys s) by (unfold nitems; rewrite map_map; cbn [fst]; apply map_id).
    rewrite Fn. cbn [nkeys hg_empty h_node keys map]. split.
    - intros [[[]|(it & Hit & Hx)]|H]; [|exact H]. unfold eitems in Hit. apply in_map_iff in Hit.
      destruct Hit as (n & <- & Hk). cbn [item_ms fst snd] in Hx. apply In_order_by in Hx. apply (Hmships_keys n x Hx).
    - intro H. right; exact H. }
  assert (Hek : ekeys (with_net s2 (h_net s)) = nkeys s).
  { change (ekeys (with_net s2 (h_net s))) with (ekeys s2). unfold ekeys. rewrite E2. fold (ekeys s1). rewrite K1, Hid. reflexivity. }
  split; [reflexivity|]. split; [apply Inv_with_net; exact I2|].
  split.
  { split; [intro H; apply Hnk in H; apply NNe; exact H|rewrite Hek; exact NNn]. }
  split; [exact Hek|]. split; [exact Hnk|]. split; [|reflexivity].
  intros n e. change (mems (with_net s2 (h_net s)) n) with (mems s2 n). unfold mems. rewrite E2. fold (mems s1 n).
  destruct (in_dec lbl_eq_dec n (nkeys s)) as [Hk|Hnk'].
  - destruct (E1 (order_by nhint (getl n (h_node s)), n, geta n (h_nattr s))) as [(M & GM & SM & _) _].
    { unfold eitems. apply in_map_iff. exists n. split; [reflexivity|exact Hk]. }
    cbn [item_id item_ms fst snd] in GM, SM. unfold mems, getl at 1. rewrite GM. rewrite (SM e), In_order_by.
    fold (mships s n). apply HW.
  - (* n is not a node of s: no such dual edge, and n is in no edge of s *)
    assert (Hno : ~ In n (ekeys s1)) by (rewrite K1, Hid; exact Hnk').
    unfold mems. rewrite (getl_absent n (h_edge s1) Hno). split; [intros []|].
    intro H. exfalso. apply Hnk'. apply (members_are_nodes s e n I H).
Qed.

(* dual(dual(H)) has the nodes, the edges and the incidences of H *)
Theorem dual_involution h1 h2 s : Inv s -> NoNone s ->
  let t := st_of (dual h2 (st_of (dual h1 s))) in
  (forall x, In x (nkeys t) <-> In x (nkeys s)) /\ (forall y, In y (ekeys t) <-> In y (ekeys s)) /\
  (forall n e, In n (mems t e) <-> In n (mems s e)) /\ h_net t = h_net s.
Proof.
  intros I N. cbv zeta.
  destruct (dual_spec h1 s I N) as (_ & I1 & N1 & K1 & NK1 & M1 & T1).
  set (s1 := st_of (dual h1 s)) in *.
  destruct (dual_spec h2 s1 I1 N1) as (_ & _ & _ & K2 & NK2 & M2 & T2).
  set (s2 := st_of (dual h2 s1)) in *.
  split; [intro x; rewrite NK2, K1; reflexivity|].
  split; [intro y; rewrite K2; apply NK1|].
  split; [intros n e; rewrite M2; apply M1|]. rewrite T2. exact T1.
Qed.
