#!/usr/bin/env python3
"""keep_seed.py <prop> <name> <seed-worktree> "<what it needs to manifest>"
Confirms a seeded change (demo passes on /repo, fails on the changed tree, stable tests still pass on
the changed tree), runs the property's quick check against it, and stores it under seeded/<prop>-<name>/."""
import json, os, shutil, subprocess, sys
prop, name, tree, needs = sys.argv[1:5]
V = os.path.dirname(os.path.dirname(os.path.abspath(__file__)))
dst = os.path.join(V, "seeded", f"{prop}-{name}")
os.makedirs(dst, exist_ok=True)
sub = os.path.join(tree, "_seed") if os.path.isdir(os.path.join(tree, "_seed")) else tree
if os.path.exists(os.path.join(sub, "patch.diff")):
    patch = open(os.path.join(sub, "patch.diff")).read()
else:
    patch = subprocess.run(["git", "-C", tree, "diff", "--", "xgi"], capture_output=True, text=True).stdout
open(os.path.join(dst, "patch.diff"), "w").write(patch)
if os.path.abspath(sub) != os.path.abspath(dst):      # (re-evaluating a stored seed: <seed-worktree> is seeded/<prop>-<name> itself)
    shutil.copy(os.path.join(sub, "demo.py"), os.path.join(dst, "demo.py"))
    if os.path.exists(os.path.join(sub, "notes.md")):
        shutil.copy(os.path.join(sub, "notes.md"), os.path.join(dst, "notes.md"))
# evaluate on a fresh worktree of /repo's current HEAD with only the patch applied
fresh = f"/tmp/seedeval_{prop}_{os.getpid()}"
subprocess.run(["git", "-C", "/repo", "worktree", "add", "-q", fresh, "HEAD"], check=True)
ap = subprocess.run(["git", "-C", fresh, "apply", os.path.join(dst, "patch.diff")], capture_output=True, text=True)
if ap.returncode:
    print("patch does not apply to current HEAD:", ap.stderr); subprocess.run(["git", "-C", "/repo", "worktree", "remove", "--force", fresh]); sys.exit(2)
tree = fresh

def run(cmd, env=None):
    e = dict(os.environ); e.update(env or {})
    p = subprocess.run(cmd, shell=True, capture_output=True, text=True, env=e)
    return p.returncode, (p.stdout + p.stderr)[-200000:]
demo = os.path.join(dst, "demo.py")
rc0, out0 = run(f"PYTHONPATH=/repo /venv/bin/python {demo}")
rc1, out1 = run(f"PYTHONPATH={tree} /venv/bin/python {demo}")
rcb, outb = run(f"XGI_REPO={tree} python3 {V}/tools/baseline.py")
rcc, outc = run(f"cd {V} && XGI_REPO={tree} ./check {prop} --tier quick")
lines = [l for l in outc.splitlines() if l.startswith("VIOLATION") or l.startswith(f"[{prop}]")]
meta = {
    "property": prop, "name": name, "needs_to_manifest": needs,
    "demo_on_unchanged": {"exit": rc0, "tail": out0.strip()[-200:]},
    "demo_on_changed": {"exit": rc1, "tail": out1.strip()[-300:]},
    "existing_tests_on_changed": outb.strip().splitlines()[-1] if outb.strip() else "",
    "check_cmd": f"XGI_REPO=<tree with patch applied> ./check {prop} --tier quick",
    "check_exit": rcc, "check_output": lines[-4:],
    "detected": rcc != 0 and any(l.startswith("VIOLATION") for l in lines),
    "confirmed": rc0 == 0 and rc1 != 0 and rcb == 0,
}
json.dump(meta, open(os.path.join(dst, "meta.json"), "w"), indent=1)
subprocess.run(["git", "-C", "/repo", "worktree", "remove", "--force", fresh])
print(json.dumps(meta, indent=1))
