(* C09: the order in which a set of members / memberships happens to be stored (Python set iteration order)
   does not matter: two states with the same keys whose stored lists are equal as sets give the same degrees,
   sizes, neighbourhoods, reachability, components (as sets) and distances. *)
From Coq Require Import String ZArith List Bool Lia.
From XV Require Import Base.Label Base.LSet Base.ODict Base.Attr Base.Outcome Model.Hypergraph Model.Stats Model.Graph
     Proofs.HgViews Proofs.HgInv Proofs.StatsProofs Proofs.GraphProofs.
Import ListNotations.
Open Scope Z_scope.

Definition SameSets (s s' : hg) : Prop :=
  nkeys s' = nkeys s /\ ekeys s' = ekeys s /\
  (forall n, seteq (mships s' n) (mships s n)) /\ (forall e, seteq (mems s' e) (mems s e)).

Lemma seteq_NoDup_length (a b : list lbl) : NoDup a -> NoDup b -> seteq a b -> length a = length b.
Proof. intros Na Nb S. apply Nat.le_antisymm; apply NoDup_incl_length; try assumption; intros x Hx; apply S; exact Hx. Qed.

Section MO.
  Variables s s' : hg.
  Hypothesis I : Inv s.
  Hypothesis I' : Inv s'.
  Hypothesis SS : SameSets s s'.

  Theorem mo_degree n : degree None None s' n = degree None None s n.
  Proof.
    rewrite !degree_is_memberships. f_equal. destruct SS as (_ & _ & M & _).
    destruct I as (_ & _ & (V & _) & _). destruct I' as (_ & _ & (V' & _) & _). apply seteq_NoDup_length; [apply V'|apply V|apply M].
  Qed.

  Theorem mo_edge_size e : edge_size None s' e = edge_size None s e.
  Proof.
    change (Z.of_nat (length (mems s' e)) = Z.of_nat (length (mems s e))). f_equal. destruct SS as (_ & _ & _ & M).
    destruct I as (_ & _ & (_ & V) & _). destruct I' as (_ & _ & (_ & V') & _). apply seteq_NoDup_length; [apply V'|apply V|apply M].
  Qed.

  Lemma mo_nbrs a b : In b (nbrs s' a) <-> In b (nbrs s a).
  Proof.
    destruct SS as (_ & _ & M1 & M2). rewrite !nbrs_spec. split; intros [N (e & He & Hb)]; (split; [exact N|]); exists e.
    - split; [apply M1; exact He|apply M2; exact Hb].
    - split; [apply M1; exact He|apply M2; exact Hb].
  Qed.

  Lemma mo_walk a b n : Walk s' a b n <-> Walk s a b n.
  Proof.
    split; intro H; induction H as [|x y k _ IH Hy]; try constructor; (eapply Walk_S; [exact IH|]); apply mo_nbrs; exact Hy.
  Qed.

  Theorem mo_reach a b : Reach s' a b <-> Reach s a b.
  Proof.
    split; intro H.
    - apply Reach_Walk in H. destruct H as [n H]. apply mo_walk in H. apply (Walk_Reach _ _ _ _ H).
    - apply Reach_Walk in H. destruct H as [n H]. apply mo_walk in H. apply (Walk_Reach _ _ _ _ H).
  Qed.

  Theorem mo_component v x : In v (nkeys s) -> (In x (component s' v) <-> In x (component s v)).
  Proof.
    intro Hv. destruct I as (W & _). destruct I' as (W' & _). destruct SS as (K & _).
    rewrite (component_spec s' v x W') by (rewrite K; exact Hv). rewrite (component_spec s v x W Hv). apply mo_reach.
  Qed.

  Theorem mo_dist a b : In a (nkeys s) -> dist s' a b = dist s a b.
  Proof.
    intro Ha. destruct I as (W & _). destruct I' as (W' & _). destruct SS as (K & _).
    assert (Ha' : In a (nkeys s')) by (rewrite K; exact Ha).
    assert (MW : forall j, MinWalk s' a b j <-> MinWalk s a b j).
    { intro j. unfold MinWalk. rewrite mo_walk. split; intros [A B]; (split; [exact A|]); intros n Hn; apply B; apply mo_walk; exact Hn. }
    destruct (dist s a b) as [d|] eqn:E.
    - destruct (dist_some_nat s a b d E) as (j & -> & Hm). apply (dist_spec s' a b j W' Ha'). apply MW. exact Hm.
    - apply (dist_none s' a b W' Ha'). intro R. apply mo_reach in R. apply (dist_none s a b W Ha) in E. contradiction.
  Qed.
End MO.
