(* Counting the classes of a list modulo a decidable equivalence (used by C15: node sets are lists
   compared as sets).  dedupR keeps the last representative of every class, exactly as
   Simpliciality.dedup_sets does. *)
From Coq Require Import List Bool Arith Lia.
Import ListNotations.

Section Quot.
  Variable A : Type.
  Variable eqb : A -> A -> bool.
  Hypothesis eqb_refl : forall x, eqb x x = true.
  Hypothesis eqb_sym : forall x y, eqb x y = eqb y x.
  Hypothesis eqb_trans : forall x y z, eqb x y = true -> eqb y z = true -> eqb x z = true.

  Definition memR (x : A) (l : list A) : bool := existsb (eqb x) l.
  Fixpoint dedupR (l : list A) : list A :=
    match l with [] => [] | x :: r => if memR x r then dedupR r else x :: dedupR r end.
  Definition ndist (l : list A) : nat := length (dedupR l).
  Fixpoint NoDupR (l : list A) : Prop :=
    match l with [] => True | x :: r => memR x r = false /\ NoDupR r end.

  Lemma eqb_congr x y z : eqb x y = true -> eqb x z = eqb y z.
  Proof.
    intro H. destruct (eqb x z) eqn:E1, (eqb y z) eqn:E2; try reflexivity.
    - rewrite eqb_sym in H. rewrite (eqb_trans y x z H E1) in E2. discriminate.
    - rewrite (eqb_trans x y z H E2) in E1. discriminate.
  Qed.

  Lemma memR_congr x y l : eqb x y = true -> memR x l = memR y l.
  Proof.
    intro H. induction l as [|a l IH]; [reflexivity|]. cbn [memR existsb]. fold (memR x l). fold (memR y l).
    rewrite IH, (eqb_congr x y a H). reflexivity.
  Qed.

  Lemma memR_spec x l : memR x l = true <-> exists y, In y l /\ eqb x y = true.
  Proof. unfold memR. rewrite existsb_exists. reflexivity. Qed.

  Lemma memR_app x l1 l2 : memR x (l1 ++ l2) = memR x l1 || memR x l2.
  Proof. unfold memR. apply existsb_app. Qed.

  Lemma memR_false x l : memR x l = false <-> forall y, In y l -> eqb x y = false.
  Proof.
    split.
    - intros H y Hy. destruct (eqb x y) eqn:E; [|reflexivity].
      assert (memR x l = true) by (apply memR_spec; exists y; auto). congruence.
    - intro H. destruct (memR x l) eqn:E; [|reflexivity]. apply memR_spec in E. destruct E as (y & Hy & E).
      rewrite (H y Hy) in E. discriminate.
  Qed.

  Lemma NoDupR_filter p l : NoDupR l -> NoDupR (filter p l).
  Proof.
    induction l as [|a l IH]; [auto|]. intros [Ha Hl]. cbn [filter]. destruct (p a); [|apply IH; exact Hl].
    split; [|apply IH; exact Hl]. apply memR_false. intros y Hy. apply filter_In in Hy.
    apply (proj1 (memR_false a l) Ha). tauto.
  Qed.

  Lemma NoDupR_of l : NoDup l -> (forall x y, In x l -> In y l -> eqb x y = true -> x = y) -> NoDupR l.
  Proof.
    induction 1 as [|a l Ha Hl IH]; intro H; [exact I|]. split.
    - apply memR_false. intros y Hy. destruct (eqb a y) eqn:E; [|reflexivity].
      exfalso. apply Ha. rewrite (H a y (or_introl eq_refl) (or_intror Hy) E). exact Hy.
    - apply IH. intros x y Hx Hy. apply H; right; assumption.
  Qed.

  Lemma ndist_NoDupR l : NoDupR l -> ndist l = length l.
  Proof.
    unfold ndist. induction l as [|a l IH]; [reflexivity|]. intros [Ha Hl]. cbn [dedupR]. rewrite Ha.
    cbn [length]. rewrite IH by exact Hl. reflexivity.
  Qed.

  (* exactly one element of an R-duplicate-free list is equivalent to a *)
  Lemma count_one p a B : NoDupR B -> memR a B = true -> (forall b, In b B -> eqb b a = true -> p b = true) ->
    length (filter p B) = S (length (filter (fun b => p b && negb (eqb b a)) B)).
  Proof.
    induction B as [|b B IH]; [discriminate|]. intros [Hb HB] Ha Hp.
    cbn [memR existsb] in Ha. fold (memR a B) in Ha. cbn [filter].
    destruct (eqb a b) eqn:Eab.
    - assert (Eba : eqb b a = true) by (rewrite eqb_sym; exact Eab).
      rewrite (Hp b (or_introl eq_refl) Eba), Eba. cbn [andb negb length]. f_equal. f_equal.
      apply filter_ext_in. intros x Hx.
      assert (E : eqb x a = false).
      { destruct (eqb x a) eqn:E; [|reflexivity]. exfalso.
        assert (eqb b x = true) by (apply (eqb_trans b a x Eba); rewrite eqb_sym; exact E).
        rewrite (proj1 (memR_false b B) Hb x Hx) in H. discriminate. }
      rewrite E. cbn [negb]. rewrite andb_true_r. reflexivity.
    - cbn [orb] in Ha. assert (Eba : eqb b a = false) by (rewrite eqb_sym; exact Eab).
      rewrite Eba. cbn [negb]. rewrite andb_true_r.
      specialize (IH HB Ha (fun x Hx => Hp x (or_intror Hx))).
      destruct (p b); cbn [length]; rewrite IH; reflexivity.
  Qed.

  (* appending an R-duplicate-free list adds its elements that are new *)
  Lemma ndist_app A0 B : NoDupR B ->
    ndist (A0 ++ B) = (ndist A0 + length (filter (fun b => negb (memR b A0)) B))%nat.
  Proof.
    intro HB. induction A0 as [|a A0 IH].
    - cbn [app]. rewrite (ndist_NoDupR B HB). unfold ndist. cbn [dedupR length Nat.add].
      f_equal. symmetry. clear. induction B as [|b B IH]; [reflexivity|]. cbn [filter memR existsb negb]. f_equal. exact IH.
    - unfold ndist in *. cbn [app dedupR]. rewrite memR_app.
      destruct (memR a A0) eqn:E1.
      + cbn [orb]. rewrite IH. f_equal. f_equal. apply filter_ext_in. intros x Hx. f_equal.
        cbn [memR existsb]. fold (memR x A0). destruct (eqb x a) eqn:E; [|reflexivity].
        cbn [orb]. rewrite (memR_congr x a A0 E). first [exact E1|symmetry; exact E1].
      + cbn [orb]. destruct (memR a B) eqn:E2.
        * rewrite IH. cbn [length].
          rewrite (count_one (fun b => negb (memR b A0)) a B HB E2).
          2:{ intros b Hb E. rewrite (memR_congr b a A0 E), E1. reflexivity. }
          rewrite <- plus_n_Sm. cbn [Nat.add]. f_equal. f_equal. f_equal. apply filter_ext_in. intros x Hx.
          cbn [memR existsb]. fold (memR x A0). rewrite negb_orb. apply andb_comm.
        * cbn [length]. rewrite IH. cbn [Nat.add]. f_equal. f_equal. f_equal. apply filter_ext_in. intros x Hx.
          cbn [memR existsb]. fold (memR x A0).
          assert (E : eqb x a = false) by (rewrite eqb_sym; apply (proj1 (memR_false a B) E2 x Hx)).
          rewrite E. reflexivity.
  Qed.

  (* the number of classes of X, counted on an R-duplicate-free list B that covers X *)
  Lemma ndist_cover X B : NoDupR B -> (forall x, In x X -> memR x B = true) ->
    ndist X = length (filter (fun b => memR b X) B).
  Proof.
    intro HB. unfold ndist. induction X as [|x X IH]; intro Hc.
    - cbn [dedupR length]. symmetry. clear. induction B as [|b B IH]; [reflexivity|]. cbn [filter memR existsb]. exact IH.
    - cbn [dedupR]. assert (Hc' : forall y, In y X -> memR y B = true) by (intros y Hy; apply Hc; right; exact Hy).
      destruct (memR x X) eqn:E1.
      + rewrite IH by exact Hc'. f_equal. apply filter_ext_in. intros b Hb.
        cbn [memR existsb]. fold (memR b X). destruct (eqb b x) eqn:E; [|reflexivity].
        cbn [orb]. rewrite (memR_congr b x X E). first [exact E1|symmetry; exact E1].
      + cbn [length]. rewrite IH by exact Hc'.
        rewrite (count_one (fun b => memR b (x :: X)) x B HB (Hc x (or_introl eq_refl))).
        2:{ intros b Hb E. cbn [memR existsb]. rewrite E. reflexivity. }
        f_equal. f_equal. apply filter_ext_in. intros b Hb.
        cbn [memR existsb]. fold (memR b X). destruct (eqb b x) eqn:E; cbn [orb negb andb].
        * rewrite (memR_congr b x X E), E1. reflexivity.
        * rewrite andb_true_r. reflexivity.
  Qed.

  Lemma filter_split (p : A -> bool) l : length l = (length (filter p l) + length (filter (fun x => negb (p x)) l))%nat.
  Proof. induction l as [|a l IH]; [reflexivity|]. cbn [filter]. destruct (p a); cbn [negb length]; lia. Qed.

  (* the step of the inclusion-exclusion loop *)
  Lemma ndist_step A0 B Rd : NoDupR B ->
    (forall x, In x Rd -> memR x B = true) ->
    (forall b, In b B -> memR b Rd = memR b A0) ->
    (ndist (A0 ++ B) + ndist Rd = ndist A0 + length B)%nat.
  Proof.
    intros HB Hc Hm. rewrite (ndist_app A0 B HB), (ndist_cover Rd B HB Hc).
    rewrite (filter_split (fun b => memR b A0) B).
    rewrite (filter_ext_in (fun b => memR b Rd) (fun b => memR b A0) B Hm). lia.
  Qed.

  (* membership in the classes is what ndist counts: two lists with the same classes have the same count *)
  Lemma ndist_same_classes X Y : (forall x, memR x X = memR x Y) -> ndist X = ndist Y.
  Proof.
    intro H.
    assert (G : forall X Y, (forall x, memR x X = true -> memR x Y = true) -> (ndist X <= ndist Y)%nat).
    { clear X Y H. intros X Y H.
      assert (ND : NoDupR (dedupR Y)).
      { clear. induction Y as [|y Y IH]; [exact I|]. cbn [dedupR]. destruct (memR y Y) eqn:E; [exact IH|].
        split; [|exact IH]. apply memR_false. intros z Hz. apply (proj1 (memR_false y Y) E).
        clear -Hz. induction Y as [|a Y IH]; [destruct Hz|]. cbn [dedupR] in Hz. destruct (memR a Y); [right; auto|].
        destruct Hz as [->|Hz]; [left; reflexivity|right; auto]. }
      assert (MD : forall x, memR x (dedupR Y) = memR x Y).
      { clear -eqb_refl eqb_sym eqb_trans. intro x. induction Y as [|y Y IH]; [reflexivity|]. cbn [dedupR].
        destruct (memR y Y) eqn:E.
        - rewrite IH. cbn [memR existsb]. fold (memR x Y). destruct (eqb x y) eqn:E2; [|reflexivity].
          cbn [orb]. rewrite (memR_congr x y Y E2). exact E.
        - cbn [memR existsb]. fold (memR x Y). fold (memR x (dedupR Y)). rewrite IH. reflexivity. }
      rewrite (ndist_cover X (dedupR Y) ND).
      2:{ intros x Hx. rewrite MD. apply H. apply memR_spec. exists x. split; [exact Hx|apply eqb_refl]. }
      unfold ndist at 1. clear. induction (dedupR Y) as [|b B IH]; [apply Nat.le_refl|]. cbn [filter].
      destruct (memR b X); cbn [length]; lia. }
    apply Nat.le_antisymm; apply G; intros x Hx; [rewrite <- H|rewrite H]; exact Hx.
  Qed.
End Quot.
