(* C01 - undirected incidence integrity under every edit history.
   Property theorems only; proofs live in Proofs/. *)
From Coq Require Import String ZArith List Bool.
From XV Require Import Base.Label Base.LSet Base.ODict Base.Attr Base.Outcome Model.Hypergraph Model.HgCheck
  Proofs.HgViews Proofs.HgInv Proofs.HgInvOps Proofs.HgStep Model.PyIR Gen.Mutators Proofs.MutatorSource Proofs.SourceInvHg.
Import ListNotations.

(* the empty hypergraph satisfies the invariant *)
Theorem C01_init_wf : Inv hg_empty.
Proof. exact Inv_empty. Qed.
Print Assumptions C01_init_wf.

(* one call of any public mutator, returning or raising, keeps it (the post-state of a raising
   call is the state the partial execution leaves behind) *)
Theorem C01_step_wf : forall s o, op_admissible s o -> Inv s -> Inv (st_of (step s o)).
Proof. exact step_Inv. Qed.
Print Assumptions C01_step_wf.

(* every history, and every prefix of it *)
Theorem C01_history_wf : forall ops, admissible_history hg_empty ops -> Inv (run ops hg_empty).
Proof. intros ops A. exact (run_Inv ops hg_empty A Inv_empty). Qed.
Print Assumptions C01_history_wf.

Theorem C01_prefix_wf : forall ops k, admissible_history hg_empty ops -> Inv (run (firstn k ops) hg_empty).
Proof. intros ops k A. exact (run_prefix_Inv ops hg_empty k A Inv_empty). Qed.
Print Assumptions C01_prefix_wf.

(* what the invariant means for the reports of the API: two-way incidence, no dangling
   reference, exactly one attribute record per node and per edge *)
Theorem C01_reports : forall s, Inv s ->
  (forall n e, In e (mships s n) <-> In n (mems s e)) /\
  (forall e n, In n (mems s e) -> In n (nkeys s) /\ In e (ekeys s)) /\
  (forall n e, In e (mships s n) -> In e (ekeys s) /\ In n (nkeys s)) /\
  (forall n, In n (nkeys s) <-> has n (h_nattr s) = true) /\
  (forall e, In e (ekeys s) <-> has e (h_eattr s) = true) /\
  NoDup (nkeys s) /\ NoDup (ekeys s) /\ NoDup (keys (h_nattr s)) /\ NoDup (keys (h_eattr s)) /\
  (forall n, NoDup (mships s n)) /\ (forall e, NoDup (mems s e)).
Proof. exact Inv_reports. Qed.
Print Assumptions C01_reports.

(* non-vacuity: a 5-node, 4-edge state with a multi-edge and an empty edge is reached by an
   admissible history and passes the executable well-formedness test *)
Definition c01_example_ops : list op :=
  [OAddEdgesFrom (EB1 [[LInt 1; LInt 2; LInt 3]; [LInt 1; LInt 2; LInt 3]; [LInt 4; LInt 5]]) [];
   OAddEdge [] (Some (LStr "empty")) [];
   ORemoveNode (LInt 5) false true;
   ODoubleEdgeSwap (LInt 3) (LInt 4) (LInt 0) (LInt 2)].
Example C01_nonvacuous :
  admissible_history hg_empty c01_example_ops /\
  wf_b (run c01_example_ops hg_empty) = true /\
  length (h_edge (run c01_example_ops hg_empty)) = 4%nat.
Proof. split; [simpl; tauto|split; vm_compute; reflexivity]. Qed.
Print Assumptions C01_nonvacuous.

(* THE SOURCE TIE for nine core mutators.  Gen/Mutators.v holds the bodies of Hypergraph.add_node, add_node_to_edge, remove_edge,
   remove_node (strong and weak, with its nested loops), remove_node_from_edge, add_edge, remove_edges_from, clear and clear_edges
   as programs of a small imperative language, regenerated from xgi/core/hypergraph.py on every run
   (harness/translate_mutators.py, fail-closed).  Under the semantics of Model/PyIR.v (IDDict lookups raise IDNotFound, None keys
   raise XGIError, set.remove of a missing element raises KeyError, loops iterate a copy, `members = set(members)`, leading guards
   that raise or warn-and-return, `uid = next(counter) if idx is None else idx`) running them gives exactly the model's state,
   outcome and warning count: for add_node_to_edge and clear on EVERY state, for add_node whenever the two node tables have the
   same keys, for add_edge whenever None is not an edge id (idx = None is Python's None, so `Some LNone` is not a call), for
   clear_edges whenever the node keys are distinct and not None, and for the removals on every state satisfying the class
   invariant (where the lookups the code makes cannot fail) *)
Theorem C01_core_mutators_are_source :
  (forall n a s, keys (h_nattr s) = keys (h_node s) -> run_method_a src_add_node [n] [] a s = add_node n a s) /\
  (forall e n s, run_method src_add_node_to_edge [e; n] [] s = add_node_to_edge e n s) /\
  (forall e s, Inv s -> run_method src_remove_edge [e] [] s = remove_edge1 e s) /\
  (forall n strong re s, Inv s -> run_method src_remove_node [n] [strong; re] s = remove_node n strong re s) /\
  (forall e n re s, Inv s -> run_method src_remove_node_from_edge [e; n] [re] s = remove_node_from_edge e n re s) /\
  (forall members idx a s, idx <> Some LNone -> has LNone (h_edge s) = false ->
     run_method_m src_add_edge_guards src_add_edge members idx a s = add_edge members idx a s) /\
  (forall es s, Inv s -> run_method_l src_remove_edges_from es [] s = remove_edges_from es s) /\
  (forall b s, run_method_l src_clear [] [b] s = clear b s) /\
  (forall s, NoDup (keys (h_node s)) -> ~ In LNone (keys (h_node s)) -> run_method_l src_clear_edges [] [] s = clear_edges s).
Proof.
  split; [exact add_node_is_source|]. split; [exact add_node_to_edge_is_source|]. split; [exact remove_edge_is_source|].
  split; [exact remove_node_is_source|]. split; [exact remove_node_from_edge_is_source|]. split; [exact add_edge_is_source|].
  split; [exact remove_edges_from_is_source|]. split; [exact clear_is_source|exact clear_edges_is_source].
Qed.
Print Assumptions C01_core_mutators_are_source.

(* ... and therefore the class invariant holds of the regenerated programs themselves: running any of the nine on a state with
   Inv (no None key) ends, returning or raising, in a state with Inv *)
Theorem C01_source_programs_keep_Inv : forall s, Inv s -> ~ In LNone (keys (h_node s)) -> has LNone (h_edge s) = false ->
  (forall n a, Inv (st_of (run_method_a src_add_node [n] [] a s))) /\
  (forall e n, Inv (st_of (run_method src_add_node_to_edge [e; n] [] s))) /\
  (forall e, Inv (st_of (run_method src_remove_edge [e] [] s))) /\
  (forall n strong re, Inv (st_of (run_method src_remove_node [n] [strong; re] s))) /\
  (forall e n re, Inv (st_of (run_method src_remove_node_from_edge [e; n] [re] s))) /\
  (forall members idx a, idx <> Some LNone -> Inv (st_of (run_method_m src_add_edge_guards src_add_edge members idx a s))) /\
  (forall es, Inv (st_of (run_method_l src_remove_edges_from es [] s))) /\
  (forall b, Inv (st_of (run_method_l src_clear [] [b] s))) /\
  Inv (st_of (run_method_l src_clear_edges [] [] s)).
Proof. exact source_programs_keep_Inv. Qed.
Print Assumptions C01_source_programs_keep_Inv.
