(* C17: a well-seeded event sequence draws the same numbers whatever the generator states were. *)
From Coq Require Import String List Bool Arith.
From XV Require Import Model.Seed.
Import ListNotations.

Section Det.
  Variable St : Type.
  Variable init : nat -> stream -> St.
  Variable next : St -> St.
  Variable out : St -> nat.

  Definition agree (seeded : list stream) (s1 s2 : stream -> St) : Prop :=
    forall t, existsb (stream_eqb t) seeded = true -> s1 t = s2 t.

  Lemma agree_upd seeded s1 s2 s v :
    agree seeded s1 s2 -> agree (s :: seeded) (upd St s1 s v) (upd St s2 s v).
  Proof.
    intros H t Ht. unfold upd. cbn [existsb] in Ht.
    destruct (stream_eqb t s) eqn:E; [reflexivity|]. apply H. exact Ht.
  Qed.

  Lemma agree_upd_same seeded s1 s2 s v1 v2 :
    agree seeded s1 s2 -> v1 = v2 -> agree seeded (upd St s1 s v1) (upd St s2 s v2).
  Proof.
    intros H -> t Ht. unfold upd. destruct (stream_eqb t s); [reflexivity|]. apply H. exact Ht.
  Qed.

  Theorem well_seeded_deterministic_from : forall p seeded seed s1 s2,
    well_seeded_from seeded p = true -> agree seeded s1 s2 ->
    draws St init next out seed s1 p = draws St init next out seed s2 p.
  Proof.
    induction p as [|[s|s] r IH]; intros seeded seed s1 s2 W A; cbn [draws well_seeded_from] in *.
    - reflexivity.
    - destruct (seedable s).
      + apply (IH (s :: seeded)); [exact W|]. apply agree_upd. exact A.
      + apply (IH seeded); assumption.
    - apply andb_true_iff in W. destruct W as [Ws Wr].
      assert (E : s1 s = s2 s) by (apply A; exact Ws).
      rewrite E. f_equal. apply (IH seeded); [exact Wr|].
      apply agree_upd_same; [exact A|reflexivity].
  Qed.

  (* the statement of C17 on the event model: same seed, any two generator states (whatever was
     drawn or seeded before, by this function or any other) - same draws *)
  Theorem well_seeded_deterministic p seed s1 s2 :
    well_seeded p = true ->
    draws St init next out seed s1 p = draws St init next out seed s2 p.
  Proof. intro W. apply (well_seeded_deterministic_from p [] seed s1 s2 W). intros t Ht. discriminate Ht. Qed.
End Det.

(* and the check is not vacuous: a draw before the seeding can differ *)
Example unseeded_differs :
  draws nat (fun seed _ => seed) S (fun x => x) 7 (fun _ => 0) [EDraw PyRandom; ESeed PyRandom] <>
  draws nat (fun seed _ => seed) S (fun x => x) 7 (fun _ => 1) [EDraw PyRandom; ESeed PyRandom].
Proof. cbn. discriminate. Qed.
