(* C13, continued: every Hodge Laplacian B_k^T B_k + B_{k+1} B_{k+1}^T is symmetric and positive
   semidefinite (its quadratic form is a sum of squares), for every complex and orientation. *)
From Coq Require Import String ZArith List Bool Lia.
From XV Require Import Base.Label Base.LSet Base.ODict Base.Attr Base.Outcome Model.Hypergraph Model.Hodge
     Proofs.HodgeProofs Proofs.MatrixProofs.
Import ListNotations.
Open Scope Z_scope.

Definition entry (M : list (list Z)) (i j : nat) : Z := nth j (nth i M []) 0.

(* ---------- B^T B ---------- *)
Lemma down_entry n (B : list (list Z)) i j : (i < n)%nat -> (j < n)%nat ->
  entry (mat_mul n (transpose n B) B) i j = sumZ (fun row => nth i row 0 * nth j row 0) B.
Proof.
  intros Hi Hj. unfold entry, mat_mul, transpose.
  rewrite (nth_map_lt _ _ _ []) by (rewrite map_length, seq_length; exact Hi).
  rewrite (nth_map_lt _ _ _ O) by (rewrite seq_length; exact Hj).
  rewrite (nth_map_lt _ _ _ O) by (rewrite seq_length; exact Hi).
  rewrite !seq_nth by assumption. cbn [Nat.add]. unfold col. apply dot_map.
Qed.

(* ---------- B1 B1^T for a matrix whose rows all have n1 entries ---------- *)
Lemma row_as_map (r : list Z) n1 : length r = n1 -> r = map (fun c => nth c r 0) (seq 0 n1).
Proof.
  intros <-. apply (nth_ext _ _ 0 0); [rewrite map_length, seq_length; reflexivity|].
  intros k Hk. rewrite (nth_map_lt _ _ _ O) by (rewrite seq_length; exact Hk). rewrite seq_nth by exact Hk. reflexivity.
Qed.

Lemma up_entry n n1 (B1 : list (list Z)) i j :
  length B1 = n -> (forall r, In r B1 -> length r = n1) -> (i < n)%nat -> (j < n)%nat ->
  entry (mat_mul n B1 (transpose n1 B1)) i j = sumZ (fun c => nth c (nth i B1 []) 0 * nth c (nth j B1 []) 0) (seq 0 n1).
Proof.
  intros HL Hr Hi Hj. unfold entry, mat_mul.
  rewrite (nth_map_lt _ _ _ []) by (rewrite HL; exact Hi).
  rewrite (nth_map_lt _ _ _ O) by (rewrite seq_length; exact Hj).
  rewrite seq_nth by exact Hj. cbn [Nat.add].
  assert (Ecol : col 0 (transpose n1 B1) j = map (fun c => nth c (nth j B1 []) 0) (seq 0 n1)).
  { unfold col, transpose. rewrite map_map. apply map_ext. intro c. unfold col.
    rewrite (nth_map_lt _ _ _ []) by (rewrite HL; exact Hj). reflexivity. }
  rewrite Ecol.
  rewrite (row_as_map (nth i B1 []) n1) at 1 by (apply Hr; apply nth_In; rewrite HL; exact Hi).
  apply dot_map.
Qed.

Lemma mat_add_entry n (A C : list (list Z)) i j :
  length A = n -> length C = n -> (forall r, In r A -> length r = n) -> (forall r, In r C -> length r = n) ->
  (i < n)%nat -> (j < n)%nat -> entry (mat_add A C) i j = entry A i j + entry C i j.
Proof.
  intros HA HC HrA HrC Hi Hj. unfold entry, mat_add.
  rewrite (nth_map_lt _ _ _ ([], [])) by (rewrite combine_length, HA, HC; lia).
  rewrite combine_nth by congruence. cbn [fst snd].
  assert (LA : length (nth i A []) = n) by (apply HrA; apply nth_In; rewrite HA; exact Hi).
  assert (LC : length (nth i C []) = n) by (apply HrC; apply nth_In; rewrite HC; exact Hi).
  rewrite (nth_map_lt _ _ _ (0, 0)) by (rewrite combine_length, LA, LC; lia).
  rewrite combine_nth by congruence. reflexivity.
Qed.

Lemma mat_mul_shape nc (A B : list (list Z)) :
  length (mat_mul nc A B) = length A /\ forall r, In r (mat_mul nc A B) -> length r = nc.
Proof.
  unfold mat_mul. split; [apply map_length|]. intros r Hr. apply in_map_iff in Hr. destruct Hr as (x & <- & _).
  rewrite map_length. apply seq_length.
Qed.

Section Hodge.
  Variables (n n1 : nat) (B B1 : list (list Z)).
  Hypothesis HB1 : length B1 = n.
  Hypothesis HB1r : forall r, In r B1 -> length r = n1.
  Let L := mat_add (mat_mul n (transpose n B) B) (mat_mul n B1 (transpose n1 B1)).

  Lemma L_entry i j : (i < n)%nat -> (j < n)%nat ->
    entry L i j = sumZ (fun row => nth i row 0 * nth j row 0) B +
                  sumZ (fun c => nth c (nth i B1 []) 0 * nth c (nth j B1 []) 0) (seq 0 n1).
  Proof.
    intros Hi Hj. unfold L.
    destruct (mat_mul_shape n (transpose n B) B) as [S1 S2].
    destruct (mat_mul_shape n B1 (transpose n1 B1)) as [S3 S4].
    rewrite (mat_add_entry n); try assumption.
    - rewrite down_entry by assumption. rewrite (up_entry n n1) by assumption. reflexivity.
    - rewrite S1. unfold transpose. rewrite map_length. apply seq_length.
    - rewrite S3. exact HB1.
  Qed.

  Theorem L_symmetric i j : (i < n)%nat -> (j < n)%nat -> entry L i j = entry L j i.
  Proof.
    intros Hi Hj. rewrite !L_entry by assumption. f_equal; apply sumZ_ext; intros; lia.
  Qed.

  (* x^T L x = sum over the rows of B of (row . x)^2 + sum over the columns of B1 of (column . x)^2 *)
  Theorem L_quadratic_form (x : nat -> Z) :
    sumZ (fun i => sumZ (fun j => x i * entry L i j * x j) (seq 0 n)) (seq 0 n) =
    sumZ (fun row => sumZ (fun i => nth i row 0 * x i) (seq 0 n) * sumZ (fun i => nth i row 0 * x i) (seq 0 n)) B +
    sumZ (fun c => sumZ (fun i => nth c (nth i B1 []) 0 * x i) (seq 0 n) * sumZ (fun i => nth c (nth i B1 []) 0 * x i) (seq 0 n)) (seq 0 n1).
  Proof.
    rewrite (sumZ_ext _ (fun i => sumZ (fun j => sumZ (fun row => (nth i row 0 * x i) * (nth j row 0 * x j)) B) (seq 0 n)
                                   + sumZ (fun j => sumZ (fun c => (nth c (nth i B1 []) 0 * x i) * (nth c (nth j B1 []) 0 * x j)) (seq 0 n1)) (seq 0 n))).
    2:{ intros i Hi. apply in_seq in Hi. rewrite <- sumZ_plus. apply sumZ_ext. intros j Hj. apply in_seq in Hj.
        rewrite L_entry by lia. rewrite Z.mul_add_distr_l, Z.mul_add_distr_r.
        rewrite (Z.mul_comm (x i) (sumZ _ B)), !sumZ_mul_r. rewrite (Z.mul_comm (x i) (sumZ _ (seq 0 n1))), !sumZ_mul_r.
        f_equal; apply sumZ_ext; intros; ring. }
    rewrite sumZ_plus. f_equal.
    - rewrite (sumZ_ext _ (fun i => sumZ (fun row => sumZ (fun j => (nth i row 0 * x i) * (nth j row 0 * x j)) (seq 0 n)) B))
        by (intros; apply sumZ_swap).
      rewrite sumZ_swap. apply sumZ_ext. intros row _. symmetry. apply sumZ_prod.
    - rewrite (sumZ_ext _ (fun i => sumZ (fun c => sumZ (fun j => (nth c (nth i B1 []) 0 * x i) * (nth c (nth j B1 []) 0 * x j)) (seq 0 n)) (seq 0 n1)))
        by (intros; apply sumZ_swap).
      rewrite sumZ_swap. apply sumZ_ext. intros c _. symmetry. apply sumZ_prod.
  Qed.

  Theorem L_psd (x : nat -> Z) : 0 <= sumZ (fun i => sumZ (fun j => x i * entry L i j * x j) (seq 0 n)) (seq 0 n).
  Proof.
    rewrite L_quadratic_form.
    assert (A : forall {T} (f : T -> Z) l, 0 <= sumZ (fun t => f t * f t) l).
    { intros T f l. apply sumZ_nonneg_in. intros t _. apply Z.square_nonneg. }
    pose proof (A _ (fun row => sumZ (fun i => nth i row 0 * x i) (seq 0 n)) B).
    pose proof (A _ (fun c => sumZ (fun i => nth c (nth i B1 []) 0 * x i) (seq 0 n)) (seq 0 n1)). lia.
  Qed.
End Hodge.

(* instantiation: the Hodge Laplacian of the model *)
Lemma rows_cols_shift s orient o : rows_of s orient (S o) = cols_of s orient o.
Proof. destruct o as [|o']; reflexivity. Qed.

Lemma bmatrix_shape rows cols : length (bmatrix rows cols) = length rows /\ forall r, In r (bmatrix rows cols) -> length r = length cols.
Proof.
  unfold bmatrix. split; [apply map_length|]. intros r Hr. apply in_map_iff in Hr. destruct Hr as (x & <- & _). apply map_length.
Qed.

Theorem hodge_symmetric s orient o i j :
  let n := length (cols_of s orient o) in
  (i < n)%nat -> (j < n)%nat -> entry (hodge_laplacian s orient o) i j = entry (hodge_laplacian s orient o) j i.
Proof.
  intros n Hi Hj. unfold hodge_laplacian. fold n.
  destruct (bmatrix_shape (map snd (rows_of s orient (S o))) (map snd (cols_of s orient (S o)))) as [S1 S2].
  apply (L_symmetric n (length (cols_of s orient (S o))) (boundary_matrix s orient o) (boundary_matrix s orient (S o))); try assumption.
  - unfold boundary_matrix. rewrite S1, map_length, rows_cols_shift. reflexivity.
  - intros r Hr. unfold boundary_matrix in Hr. rewrite (S2 r Hr), map_length. reflexivity.
Qed.

Theorem hodge_psd s orient o (x : nat -> Z) :
  let n := length (cols_of s orient o) in
  0 <= sumZ (fun i => sumZ (fun j => x i * entry (hodge_laplacian s orient o) i j * x j) (seq 0 n)) (seq 0 n).
Proof.
  intro n. unfold hodge_laplacian. fold n.
  destruct (bmatrix_shape (map snd (rows_of s orient (S o))) (map snd (cols_of s orient (S o)))) as [S1 S2].
  apply (L_psd n (length (cols_of s orient (S o))) (boundary_matrix s orient o) (boundary_matrix s orient (S o))).
  - unfold boundary_matrix. rewrite S1, map_length, rows_cols_shift. reflexivity.
  - intros r Hr. unfold boundary_matrix in Hr. rewrite (S2 r Hr), map_length. reflexivity.
Qed.
