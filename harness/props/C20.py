"""C20 - layouts and drawings represent every node and edge faithfully."""
import contextlib, io, os, random, warnings
from fractions import Fraction
from .. import common as C, histcheck as HC, gallina as G, hgsim, scsim
from . import base

PROP = "C20"
IMPORTS = ("Base.Label Base.Attr Base.Outcome Model.Hypergraph Model.Stats Model.Graph Model.SimplicialComplex Model.Draw")
LAYOUTS = ["random_layout", "pairwise_spring_layout", "barycenter_spring_layout", "weighted_barycenter_spring_layout",
           "circular_layout", "spiral_layout", "barycenter_kamada_kawai_layout"]


def gq(x):
    f = Fraction(float(x))
    return f"({f.numerator} # {f.denominator})%Q"


def gpt(p):
    return f"({gq(p[0])}, {gq(p[1])})"


def check_positions(name, pos, keys):
    import numpy as np
    if set(pos) != set(keys) or len(pos) != len(keys):
        return f"{name}: positions are not exactly one per node/edge"
    for k, p in pos.items():
        p = np.asarray(p, dtype=float)
        if p.shape != (2,) or not np.all(np.isfinite(p)):
            return f"{name}: position of {k!r} is {p}"
    return None


def draw_it(H, npos, mo):
    """returns (error or None, offsets, segments, polygon vertex lists)"""
    import numpy as np, xgi
    import matplotlib
    matplotlib.use("Agg")
    import matplotlib.pyplot as plt
    fig, ax = plt.subplots()
    try:
        try:
            with contextlib.redirect_stdout(io.StringIO()):
                ax, (nc, dc, ec) = xgi.draw(H, pos=npos, ax=ax, max_order=mo)
        except Exception as e:  # noqa: BLE001
            return f"draw raised {type(e).__name__}: {e}", None, None, None
        off = [tuple(p) for p in np.asarray(nc.get_offsets())]
        segs = [[tuple(q) for q in np.asarray(s)] for s in dc.get_segments()]
        polys = []
        for p in ec.get_paths():
            vs = np.asarray(p.vertices)
            if len(vs) > 1 and np.allclose(vs[0], vs[-1]):
                vs = vs[:-1]
            polys.append([tuple(q) for q in vs])
        return None, off, segs, polys
    finally:
        plt.close(fig)


def oracle(H, rng):
    import numpy as np, xgi
    sc = isinstance(H, xgi.SimplicialComplex)
    nodes = list(H.nodes); edges = list(H.edges)
    mem = {e: set(H.edges.members(e)) for e in edges}
    if not nodes:
        return None
    for name in LAYOUTS:
        f = getattr(xgi, name)
        try:
            pos = f(H, seed=rng.randrange(100)) if "seed" in f.__code__.co_varnames[:f.__code__.co_argcount] else f(H)
        except Exception as e:  # noqa: BLE001
            return f"{name} raised {type(e).__name__}: {e}"
        d = check_positions(name, pos, nodes)
        if d:
            return d
    try:
        pos = xgi.bipartite_spring_layout(H, seed=1)
    except Exception as e:  # noqa: BLE001
        return f"bipartite_spring_layout raised {type(e).__name__}: {e}"
    if not (isinstance(pos, tuple) and len(pos) == 2):
        return "bipartite_spring_layout does not return a pair of position dicts"
    d = check_positions("bipartite_spring_layout (nodes)", pos[0], nodes) or check_positions("bipartite_spring_layout (edges)", pos[1], edges)
    if d:
        return d
    npos = {n: (rng.randint(-8, 8) / 4, rng.randint(-8, 8) / 4) for n in nodes}
    bp = xgi.edge_positions_from_barycenters(H, npos)
    for e in edges:
        if mem[e]:
            want = np.mean([npos[n] for n in mem[e]], axis=0)
            if e not in bp or not np.allclose(bp[e], want):
                return f"edge_positions_from_barycenters[{e!r}] is not the mean of the members' positions"
    if not any(len(m) >= 2 for m in mem.values()):
        return None
    pts = rng.sample([(x / 4, y / 4) for x in range(-12, 13) for y in range(-12, 13)], len(nodes))
    npos = dict(zip(nodes, pts))
    mo = rng.choice([None, None, 1, 2, 3])
    err, off, segs, polys = draw_it(H, npos, mo)
    if err:
        return err
    if len(off) != len(nodes) or not np.allclose(np.array(off), np.array([npos[n] for n in nodes])):
        return "draw: the node markers are not the positions in node order"
    rnd = lambda p: tuple(np.round(p, 9))
    if sc:
        faces = [m for m in mem.values() if not mo or len(m) <= mo + 1]
        want_lines = [m for m in faces if len(m) == 2]
        want_polys = [m for m in faces if len(m) >= 3 and not any(m < o for o in faces)]
    else:
        maxo = max(len(m) for m in mem.values()) - 1 if mo is None else mo
        want_lines = [m for m in mem.values() if len(m) == 2]
        want_polys = [m for m in mem.values() if 3 <= len(m) <= maxo + 1]
    got = sorted(sorted(map(rnd, s)) for s in segs)
    want = sorted(sorted(rnd(npos[n]) for n in m) for m in want_lines)
    if got != want:
        return f"draw ({type(H).__name__}, max_order={mo}): {len(segs)} lines for {len(want_lines)} two-node edges, or wrong end points"
    got = sorted(sorted(set(map(rnd, p))) for p in polys)
    want = sorted(sorted(rnd(npos[n]) for n in m) for m in want_polys)
    if got != want:
        return f"draw ({type(H).__name__}, max_order={mo}): {len(polys)} polygons for {len(want_polys)} larger edges, or wrong vertex sets"
    return None


def cases_for(H, rng):
    import xgi
    sc = isinstance(H, xgi.SimplicialComplex)
    nodes = list(H.nodes)
    pts = rng.sample([(x / 4, y / 4) for x in range(-12, 13) for y in range(-12, 13)], len(nodes))
    npos = dict(zip(nodes, pts))
    gpos = G.glist([G.gpair(G.lbl(n), gpt(p)) for n, p in npos.items()])
    cs = []
    bp = xgi.edge_positions_from_barycenters(H, npos)
    cs.append("(DBary " + G.glist([G.gpair(G.lbl(e), gpt(p)) for e, p in bp.items() if len(H.edges.members(e))]) + ")")
    if any(len(H.edges.members(e)) >= 2 for e in H.edges):
        mo = rng.choice([None, None, 1, 2, 3])
        err, off, segs, polys = draw_it(H, npos, mo)
        if err is None:
            gmo = "None" if mo is None else f"(Some {G.gnat(mo)})"
            shapes = lambda L: G.glist([G.glist([gpt(q) for q in s]) for s in L])
            cs.append(f"({'DDrawSC' if sc else 'DDraw'} {gmo} {G.glist([gpt(q) for q in off])} {shapes(segs)} {shapes(polys)})")
    return gpos, cs


def label_twins(H, rng):
    """the same network under other kinds of node labels: "whatever its labels" includes numbers that are not Python ints
    (numpy integers, whole floats - equal to small ints as dict keys), tuples, negative and mixed labels"""
    import numpy as np, xgi
    nodes = list(H.nodes)
    perm = list(range(len(nodes))); rng.shuffle(perm)
    kinds = {
        "numpy.int64 0..n-1": lambda i: np.int64(i),
        "float 0..n-1": lambda i: float(i),
        "numpy.int64, shuffled": lambda i: np.int64(perm[i]),
        "tuples": lambda i: (i, "t"),
        "negative ints": lambda i: -1 - i,
        "mixed str / int": lambda i: (f"s{i}" if i % 2 else i + 100),
    }
    for kind in rng.sample(sorted(kinds), 2):
        f = {n: kinds[kind](i) for i, n in enumerate(nodes)}
        try:
            if isinstance(H, xgi.SimplicialComplex):
                H2 = xgi.SimplicialComplex([[f[n] for n in ms] for ms in H.edges.maximal().members()])
            else:
                H2 = xgi.Hypergraph([[f[n] for n in ms] for ms in H.edges.members() if ms])
            H2.add_nodes_from(f.values())
        except Exception:  # noqa: BLE001 - a label kind the constructors refuse is not this property's business
            continue
        yield kind, H2


def layouts_only(H, rng):
    import xgi
    nodes = list(H.nodes)
    for name in LAYOUTS:
        f = getattr(xgi, name)
        try:
            pos = f(H, seed=rng.randrange(100)) if "seed" in f.__code__.co_varnames[:f.__code__.co_argcount] else f(H)
        except Exception as e:  # noqa: BLE001
            return f"{name} raised {type(e).__name__}: {e}"
        d = check_positions(name, pos, nodes)
        if d:
            return d
    return None


def run(v):
    proof = base.proof_stage(v, PROP)
    thorough = C.tier() == "thorough"
    rng = random.Random(C.seed() * 251 + 20)
    n = 700 if thorough else 70
    failures, reports, errors = [], [], []
    terms = {"hg": [], "sc": []}
    all_recs = []
    ncases = 0
    for sim, key in ((hgsim, "hg"), (scsim, "sc")):
        recs = HC.gen_histories(sim, n, 8, C.seed() + 200 + len(key), malformed_share=0.0)
        for r in recs:
            H = r["net"]
            if (r["obs"] and r["obs"][-1].get("broken")) or H.num_nodes == 0 or H.num_nodes > 12:
                continue
            all_recs.append(r)
            try:
                with warnings.catch_warnings():
                    warnings.simplefilter("ignore")
                    d = oracle(H, rng)
            except Exception as e:  # noqa: BLE001
                d = f"oracle raised {type(e).__name__}: {e}"
            if d:
                failures.append((f"{PROP}:{d.split(':')[0][:60]}", {"what": d, "class": type(H).__name__, "history": HC.jsonable(r["ops"])}))
                continue
            # the layouts once more on the same network under other kinds of labels
            for kind, H2 in label_twins(H, rng):
                try:
                    with warnings.catch_warnings():
                        warnings.simplefilter("ignore")
                        d2 = layouts_only(H2, rng)
                except Exception as e:  # noqa: BLE001
                    d2 = f"oracle raised {type(e).__name__}: {e}"
                if d2:
                    failures.append((f"{PROP}:labels:{d2.split(':')[0][:50]}",
                                     {"what": f"with node labels presented as {kind}: {d2}", "class": type(H).__name__,
                                      "history": HC.jsonable(r["ops"]), "label_kind": kind}))
                    break
            try:
                with warnings.catch_warnings():
                    warnings.simplefilter("ignore")
                    gpos, cs = cases_for(H, rng)
                opsg = G.glist([sim.op_to_gallina(op, ex) for op, ex in zip(r["ops"], r["extras"])])
                terms[key].append((len(all_recs) - 1, G.gpair(opsg, gpos, G.glist(cs))))
                ncases += len(cs)
            except G.Unsupported:
                pass
    cdir = C.cases_dir(PROP)
    files = {}
    for key, fn, typ in (("hg", "draw_bad_hg", "op"), ("sc", "draw_bad_sc", "sop")):
        T = terms[key]
        for k in range(0, len(T), 40):
            chunk = T[k:k + 40]
            path = os.path.join(cdir, f"cases_{PROP}_{key}_{k // 40}.v")
            with open(path, "w") as f:
                f.write("From Coq Require Import String ZArith QArith List Bool.\nFrom XV Require Import " + IMPORTS +
                        f".\nImport ListNotations.\nOpen Scope Z_scope.\nDefinition cases : list (list {typ} * posmap * list dcase) := [\n" +
                        ";\n".join(t for _, t in chunk) + f"\n].\nEval vm_compute in ({fn} cases).\n")
            files[path] = [i for i, _ in chunk]
    res = C.run_coq_files(files.keys())
    for path, idxs in files.items():
        rc, out = res[path]
        pairs = C.parse_pairs(out) if rc == 0 else None
        if pairs is None:
            errors.append({"file": os.path.basename(path), "rc": rc, "output": out[-1500:]})
            continue
        for ci, qi in pairs[:4]:
            reports.append({"correspondence": "Model.Draw (markers / lines / polygons / barycenters)", "case_index": qi,
                            "history": HC.jsonable(all_recs[idxs[ci]]["ops"])})
    C.clean_cases(cdir)
    st = HC.stats(all_recs)
    v.coverage.update({
        "evaluations": ncases,
        "distinct_nontrivial": st.pop("distinct_nontrivial"),
        "rule": "hypergraphs and simplicial complexes (<= 12 nodes; any labels, isolated nodes, singletons, multi-edges) built "
                "by generated histories; oracle: the eight layout functions return exactly one finite 2-d position per node "
                "(bipartite: also per edge), barycenters are means, draw succeeds when some edge has two nodes and its "
                "collections hold one marker per node in node order, one line per two-node edge / simplex and one polygon "
                "per larger edge up to max_order (maximal simplices for complexes) with the members' positions as vertex "
                "set; correspondence: offsets, segments, polygon vertices and barycenters against the model's drawing plan "
                "for the same positions (exact dyadic coordinates); non-trivial = history changes the tables",
        "samples": [HC.jsonable(all_recs[0]["ops"][:3])] if all_recs else [],
        "oracle_evaluations": len(all_recs),
        "exhaustive": False,
        **st,
    })
    base.conclude(v, proof, reports, failures, errors)


def replay(payload):
    d = payload.get("detail", payload)
    ops = HC.unjson(d["history"])
    sim = scsim if d.get("class") == "SimplicialComplex" else hgsim
    r = sim.run_history(ops)
    with warnings.catch_warnings():
        warnings.simplefilter("ignore")
        dsc = oracle(r["net"], random.Random(0))
    print("oracle:", dsc or "holds")
    return 1 if dsc else 0
