(* C05 - each edit has exactly its documented effect.
   The documentation-level effects are stated declaratively (in terms of what the views report)
   and proved of the model; the model is compared with the code on every attribute value,
   ordering, exception class and warning by the correspondence check of this property. *)
From Coq Require Import String ZArith List Bool.
From XV Require Import Base.Label Base.LSet Base.ODict Base.Attr Base.Outcome Model.Hypergraph
  Proofs.HgViews Proofs.HgInv Proofs.HgInvOps Proofs.HgStep Proofs.HgErrors Proofs.HgSpec Proofs.ShuffleProofs Proofs.DerivedProofs Proofs.HgSpecMore Model.DiHypergraph Proofs.DiSpec Model.SimplicialComplex Proofs.ScInv Proofs.ScExact Proofs.SetterProofs Proofs.ScClose Proofs.DiSpec2
  Proofs.DiInv Model.PyIR Model.PyIRD Gen.Mutators Gen.DiMutators Proofs.BulkSource Proofs.DiMutatorSource.
Import ListNotations.
Open Scope Z_scope.

(* an edit that is rejected ends in the library's own error types (XGIError / IDNotFound) for
   every op that names ids; the only other classes are IndexError (an empty first edge fixes no
   bulk format), TypeError (merging duplicate ids of mixed kinds) and ValueError (nothing to
   work on: no node / fewer than two edges), each confined to the ops listed in may_raise_other *)
Theorem C05_error_types : forall s o,
  lib_type_value (out_of (step s o)) /\ (may_raise_other o = false -> lib_only (out_of (step s o))).
Proof. exact step_error_types. Qed.
Print Assumptions C05_error_types.

(* strong removal deletes the node and exactly the edges containing it *)
Theorem C05_remove_node_strong : forall n re s, Inv s -> In n (nkeys s) ->
  let s' := st_of (remove_node n true re s) in
  (forall x, In x (nkeys s') <-> x <> n /\ In x (nkeys s)) /\
  (forall e m, get e (h_edge s') = Some m <-> get e (h_edge s) = Some m /\ ~ In n m) /\ Inv s'.
Proof. exact remove_node_strong_spec. Qed.
Print Assumptions C05_remove_node_strong.

(* weak removal takes the node out of every edge; an edge is deleted iff it held only that node
   and remove_empty is set; every other edge is untouched *)
Theorem C05_remove_node_weak : forall n re s, Inv s -> In n (nkeys s) ->
  let s' := st_of (remove_node n false re s) in
  (forall e, get e (h_edge s') =
             match get e (h_edge s) with
             | Some m => if mem n m then weak_result n re (Some m) else Some m
             | None => None
             end) /\ Inv s'.
Proof. exact remove_node_weak_spec. Qed.
Print Assumptions C05_remove_node_weak.

Theorem C05_remove_edge : forall e s, Inv s -> In e (ekeys s) ->
  let s' := st_of (remove_edge1 e s) in
  nkeys s' = nkeys s /\
  (forall e' , get e' (h_edge s') = if lbl_eqb e' e then None else get e' (h_edge s)) /\
  (forall x y, In y (mships s' x) <-> y <> e /\ In y (mships s x)) /\
  h_nattr s' = h_nattr s /\ (forall e', e' <> e -> get e' (h_eattr s') = get e' (h_eattr s)) /\
  h_uid s' = h_uid s /\ h_net s' = h_net s.
Proof. exact remove_edge_spec. Qed.
Print Assumptions C05_remove_edge.

(* add_edge appends one edge with the given members and attributes, creates the missing nodes,
   and leaves everything else as it was (Frame) *)
Theorem C05_add_edge : forall ms idx a s, Inv s -> existsb is_none (mkset ms) = false ->
  (forall i, idx = Some i -> has i (h_edge s) = false) ->
  let s' := st_of (add_edge ms idx a s) in
  let e := match idx with Some i => i | None => LInt (h_uid s) end in
  ekeys s' = ekeys s ++ [e] /\
  (exists M, get e (h_edge s') = Some M /\ seteq M ms) /\
  get e (h_eattr s') = Some (aupdate [] a) /\
  (forall x, In x (nkeys s') <-> In x ms \/ In x (nkeys s)) /\
  Frame s s'.
Proof. exact add_edge_effect. Qed.
Print Assumptions C05_add_edge.

(* precedence in the bulk formats: the per-item dict overrides the keyword attributes *)
Theorem C05_attr_precedence : forall k u, NoDup (map fst u) -> forall d,
  aget k (aupdate d u) = match aget k u with Some v => Some v | None => aget k d end.
Proof. exact aget_aupdate. Qed.
Print Assumptions C05_attr_precedence.

(* a double edge swap keeps every degree, every size, all ids and all attributes *)
Theorem C05_swap_preserves : forall n1 n2 e1 e2 s,
  let s' := st_of (double_edge_swap n1 n2 e1 e2 s) in
  Inv s ->
  nkeys s' = nkeys s /\ ekeys s' = ekeys s /\ h_nattr s' = h_nattr s /\ h_eattr s' = h_eattr s /\
  h_net s' = h_net s /\ h_uid s' = h_uid s /\
  (forall n, length (mships s' n) = length (mships s n)) /\
  (forall e, length (mems s' e) = length (mems s e)).
Proof. exact double_edge_swap_preserves. Qed.
Print Assumptions C05_swap_preserves.

(* a random edge shuffle of two distinct edges, for ANY sample random.sample can return (distinct
   elements of the symmetric difference, as many as e1 has outside the intersection): every degree,
   every size, all ids and all attributes are kept, other edges are untouched, the nodes of the two
   edges are only redistributed and the shared nodes stay in both *)
Theorem C05_shuffle_preserves : forall s e1 e2 sample m1 m2,
  Inv s -> e1 <> e2 -> get e1 (h_edge s) = Some m1 -> get e2 (h_edge s) = Some m2 ->
  sample_ok s e1 e2 sample -> (length (h_edge s) <? 2)%nat = false ->
  let t := st_of (random_edge_shuffle e1 e2 sample s) in
  nkeys t = nkeys s /\ ekeys t = ekeys s /\ h_nattr t = h_nattr s /\ h_eattr t = h_eattr s /\
  h_net t = h_net s /\ h_uid t = h_uid s /\
  (forall n, length (mships t n) = length (mships s n)) /\
  (forall e, length (mems t e) = length (mems s e)) /\
  (forall e, e <> e1 -> e <> e2 -> mems t e = mems s e) /\
  (forall x, In x (mems t e1) \/ In x (mems t e2) <-> In x (mems s e1) \/ In x (mems s e2)) /\
  (forall x, In x (mems s e1) -> In x (mems s e2) -> In x (mems t e1) /\ In x (mems t e2)).
Proof. exact shuffle_preserves. Qed.
Print Assumptions C05_shuffle_preserves.

(* clear / clear_edges *)
Theorem C05_clear : forall rn s,
  st_of (clear rn s) = mkHG [] [] [] [] (if rn then [] else h_net s) (h_uid s) /\ out_of (clear rn s) = Ok.
Proof. exact clear_effect. Qed.
Print Assumptions C05_clear.

Theorem C05_clear_edges : forall s,
  let t := st_of (clear_edges s) in
  out_of (clear_edges s) = Ok /\ nkeys t = nkeys s /\ (forall n, mships t n = []) /\ h_edge t = [] /\ h_eattr t = [] /\
  h_nattr t = h_nattr s /\ h_net t = h_net s /\ h_uid t = h_uid s.
Proof. exact clear_edges_effect. Qed.
Print Assumptions C05_clear_edges.

(* the attribute setters (dict of dicts, keys present): d.update on the named ids, nothing else changes *)
Theorem C05_set_node_attributes : forall vals s, NoDup (map fst vals) ->
  (forall nd, In nd vals -> In (fst nd) (keys (h_nattr s))) ->
  let t := st_of (set_node_attrs_dict vals s) in
  (forall n, get n (h_nattr t) = match get n vals with Some d => Some (aupdate (geta n (h_nattr s)) d) | None => get n (h_nattr s) end) /\
  h_node t = h_node s /\ h_edge t = h_edge s /\ h_eattr t = h_eattr s /\ h_uid t = h_uid s.
Proof. exact set_node_attrs_dict_effect. Qed.
Print Assumptions C05_set_node_attributes.

Theorem C05_set_edge_attributes : forall vals s, NoDup (map fst vals) ->
  (forall nd, In nd vals -> In (fst nd) (keys (h_eattr s))) ->
  let t := st_of (set_edge_attrs_dict vals s) in
  (forall e, get e (h_eattr t) = match get e vals with Some d => Some (aupdate (geta e (h_eattr s)) d) | None => get e (h_eattr s) end) /\
  h_node t = h_node s /\ h_edge t = h_edge s /\ h_nattr t = h_nattr s /\ h_uid t = h_uid s.
Proof. exact set_edge_attrs_dict_effect. Qed.
Print Assumptions C05_set_edge_attributes.

(* bulk edge removal and duplicate merging *)
Theorem C05_remove_edges_from : forall es s, Inv s -> NoDup es -> (forall e, In e es -> In e (ekeys s)) ->
  let t := st_of (remove_edges_from es s) in
  out_of (remove_edges_from es s) = Ok /\ Inv t /\ nkeys t = nkeys s /\
  forall e, get e (h_edge t) = if mem e es then None else get e (h_edge s).
Proof. exact remove_edges_from_effect. Qed.
Print Assumptions C05_remove_edges_from.

Theorem C05_merge_duplicates_no_repeats : forall s, Inv s -> NoNone s ->
  out_of (merge_duplicate_edges RnFirst MrFirst None s) = Ok ->
  let t := st_of (merge_duplicate_edges RnFirst MrFirst None s) in
  Inv t /\ forall e f ms mf, get e (h_edge t) = Some ms -> get f (h_edge t) = Some mf -> seteq ms mf -> e = f.
Proof. exact merge_first_no_repeats. Qed.
Print Assumptions C05_merge_duplicates_no_repeats.

(* the named and scalar forms of the attribute setters *)
Theorem C05_set_node_attributes_named : forall vals name s, NoDup (map fst vals) ->
  (forall nv, In nv vals -> In (fst nv) (keys (h_nattr s))) ->
  let t := st_of (set_node_attrs_named vals name s) in
  (forall n, get n (h_nattr t) = match get n vals with Some v => Some (aset name v (geta n (h_nattr s))) | None => get n (h_nattr s) end) /\
  h_node t = h_node s /\ h_edge t = h_edge s /\ h_eattr t = h_eattr s /\ h_uid t = h_uid s.
Proof. exact set_node_attrs_named_effect. Qed.
Print Assumptions C05_set_node_attributes_named.

Theorem C05_set_edge_attributes_named : forall vals name s, NoDup (map fst vals) ->
  (forall nv, In nv vals -> In (fst nv) (keys (h_eattr s))) ->
  let t := st_of (set_edge_attrs_named vals name s) in
  (forall e, get e (h_eattr t) = match get e vals with Some v => Some (aset name v (geta e (h_eattr s))) | None => get e (h_eattr s) end) /\
  h_node t = h_node s /\ h_edge t = h_edge s /\ h_nattr t = h_nattr s /\ h_uid t = h_uid s.
Proof. exact set_edge_attrs_named_effect. Qed.
Print Assumptions C05_set_edge_attributes_named.

Theorem C05_set_node_attributes_scalar : forall v name s, Inv s ->
  let t := st_of (set_node_attrs_scalar v name s) in
  (forall n, In n (nkeys s) -> get n (h_nattr t) = Some (aset name v (geta n (h_nattr s)))) /\
  h_node t = h_node s /\ h_edge t = h_edge s /\ h_eattr t = h_eattr s /\ h_uid t = h_uid s.
Proof. exact set_node_attrs_scalar_effect. Qed.
Print Assumptions C05_set_node_attributes_scalar.

Theorem C05_set_edge_attributes_scalar : forall v name s, Inv s ->
  let t := st_of (set_edge_attrs_scalar v name s) in
  (forall e, In e (ekeys s) -> get e (h_eattr t) = Some (aset name v (geta e (h_eattr s)))) /\
  h_node t = h_node s /\ h_edge t = h_edge s /\ h_nattr t = h_nattr s /\ h_uid t = h_uid s.
Proof. exact set_edge_attrs_scalar_effect. Qed.
Print Assumptions C05_set_edge_attributes_scalar.

(* ----- directed hypergraphs ----- *)
(* add_edge((tail, head)) with an automatic id stores exactly the given tail and head under the next id and
   leaves the tail and head of every other edge alone *)
Theorem C05_directed_add_edge : forall tl hd a d, has_none tl = false -> has_none hd = false ->
  let e := LInt (h_uid (ts d)) in
  let r := d_add_edge tl hd None a d in
  let d' := dst_of r in
  snd (fst r) = Ok /\
  exists T H, (forall x, In x T <-> In x tl) /\ (forall x, In x H <-> In x hd) /\ NoDup T /\ NoDup H /\
    forall e', get e' (h_edge (ts d')) = (if lbl_eqb e' e then Some T else get e' (h_edge (ts d))) /\
               get e' (h_edge (hs d')) = (if lbl_eqb e' e then Some H else get e' (h_edge (hs d))).
Proof. exact d_add_edge_effect. Qed.
Print Assumptions C05_directed_add_edge.

Theorem C05_directed_remove_edge : forall e d, has e (h_edge (ts d)) = true ->
  let r := d_remove_edge e d in
  let d' := dst_of r in
  snd (fst r) = Ok /\
  forall e', get e' (h_edge (ts d')) = (if lbl_eqb e' e then None else get e' (h_edge (ts d))) /\
             get e' (h_edge (hs d')) = (if lbl_eqb e' e then None else get e' (h_edge (hs d))).
Proof. exact d_remove_edge_effect. Qed.
Print Assumptions C05_directed_remove_edge.

Theorem C05_directed_remove_missing_edge : forall e d, has e (h_edge (ts d)) = false ->
  d_remove_edge e d = draise d IDNotFound.
Proof. exact d_remove_edge_missing. Qed.
Print Assumptions C05_directed_remove_missing_edge.

(* explicit ids: a free id stores the edge under it; an id in use is refused with a warning, None among the members
   with the library's error - and in both refusals the network is exactly as before *)
Theorem C05_directed_add_edge_explicit : forall tl hd i a d, has_none tl = false -> has_none hd = false ->
  has i (h_edge (ts d)) = false ->
  let r := d_add_edge tl hd (Some i) a d in
  let d' := dst_of r in
  snd (fst r) = Ok /\
  exists T H, (forall x, In x T <-> In x tl) /\ (forall x, In x H <-> In x hd) /\ NoDup T /\ NoDup H /\
    forall e', get e' (h_edge (ts d')) = (if lbl_eqb e' i then Some T else get e' (h_edge (ts d))) /\
               get e' (h_edge (hs d')) = (if lbl_eqb e' i then Some H else get e' (h_edge (hs d))).
Proof. exact d_add_edge_explicit_effect. Qed.
Print Assumptions C05_directed_add_edge_explicit.

Theorem C05_directed_add_edge_refusals : forall tl hd a d,
  (forall i, has_none tl = false -> has_none hd = false -> has i (h_edge (ts d)) = true ->
             d_add_edge tl hd (Some i) a d = dwarn1 d) /\
  (forall idx, has_none tl || has_none hd = true -> d_add_edge tl hd idx a d = draise d XGIError).
Proof. intros. split; [intros; apply d_add_edge_dup_refused; assumption|intros; apply d_add_edge_none_refused; assumption]. Qed.
Print Assumptions C05_directed_add_edge_refusals.

(* strong removal of a node: exactly the edges with the node in their tail or head disappear *)
Theorem C05_directed_remove_node_strong : forall n re d outs, get n (h_node (ts d)) = Some outs ->
  let r := d_remove_node n true re d in
  let d' := dst_of r in
  let gone := sunion (in_mships d n) outs in
  snd (fst r) = Ok /\
  forall e', get e' (h_edge (ts d')) = (if mem e' gone then None else get e' (h_edge (ts d))) /\
             get e' (h_edge (hs d')) = (if mem e' gone then None else get e' (h_edge (hs d))).
Proof. exact d_remove_node_strong_effect. Qed.
Print Assumptions C05_directed_remove_node_strong.

(* ----- simplicial complexes ----- *)
(* add_simplex of a new simplex (no None member, free id): afterwards the complex holds exactly what it held, the
   simplex, and the sub-faces of the simplex with two or more nodes - nothing else - and keeps its invariant *)
Theorem C05_add_simplex_exact : forall ms idx a hint s, SInv s ->
  existsb is_none (mkset ms) = false -> mkset ms <> [] -> ~ HasS s (mkset ms) ->
  (forall i, idx = Some i -> has i (h_edge s) = false) ->
  let t := st_of (add_simplex ms idx a hint s) in
  SInv t /\ forall x, HasS t x <-> HasS s x \/ seteq x (mkset ms) \/ exists g, seteq x g /\ Face g (mkset ms).
Proof. exact add_simplex_exact. Qed.
Print Assumptions C05_add_simplex_exact.

(* close() on a complex satisfying the class invariant (hence already closed) changes nothing at all *)
Theorem C05_close_is_noop : forall hint s, SInv s -> NoNone s -> close hint s = ok s.
Proof. exact close_noop. Qed.
Print Assumptions C05_close_is_noop.

Example C05_nonvacuous :
  let s := run [OAddEdgesFrom (EB1 [[LInt 1; LInt 2]; [LInt 3; LInt 4]; [LInt 1]]) []] hg_empty in
  keys (h_edge (st_of (remove_node (LInt 1) false true s))) = [LInt 0; LInt 1] /\
  keys (h_edge (st_of (remove_node (LInt 1) false false s))) = [LInt 0; LInt 1; LInt 2] /\
  keys (h_edge (st_of (remove_node (LInt 1) true true s))) = [LInt 1] /\
  getl (LInt 0) (h_edge (st_of (double_edge_swap (LInt 1) (LInt 3) (LInt 0) (LInt 1) s))) = [LInt 2; LInt 3].
Proof. vm_compute. repeat split. Qed.
Print Assumptions C05_nonvacuous.

(* THE SOURCE TIE for the bulk calls.  Three more pieces of xgi/core/hypergraph.py are regenerated on every run:
   - the item of the dict format of add_edges_from (`for idx, members in ebunch_to_add.items(): ...`) as a guarded body - a
     `warn(...); continue` guard ends the item with one warning, a raise ends the loop;
   - the `while True:` loop of formats 1-4: the dispatch `members, idx, eattr = ...` is read into the table src_bulk_formats (is the id
     the item's own or the next of the counter - drawn before anything else -, does the item carry its own attribute dict), the item
     `if idx in self._edge.keys(): warn(...) else: <statements>` as a guarded body, `format2 or format4` as the flag "the id is the
     caller's", the two attribute updates in their order (the call's **attr first, the item's dict second);
   - the guard of remove_nodes_from, whose item then calls the translated remove_node;
   - the item of add_nodes_from (the decoding of the item into a node and an optional dict is accepted verbatim; `newnode` is read as the
     condition it abbreviates, `newdict` is the call's attributes or a copy of them updated with the item's dict).
   Run item by item they are the model's add_edges_from in all five formats (for every **attr with distinct keys - it is a Python dict)
   and remove_nodes_from.  What stays outside: the detection of the format from the first element, the iterator protocol, and the
   decoding `members = list(members); member_set = set(members)` (the interpreter is handed both) *)
Theorem C05_bulk_calls_are_source :
  (forall a l s, has LNone (h_edge s) = false ->
     run_items src_add_edges_from_dict_guards src_add_edges_from_dict l s = add_edges_from (EB5 l) a s) /\
  (forall a s, NoDup (map fst a) ->
     (forall l, run_bulk src_bulk_formats 0 src_bulk_item_guards src_bulk_item a (map (fun m => (m, LNone, [])) l) s = add_edges_from (EB1 l) a s) /\
     (forall l, run_bulk src_bulk_formats 1 src_bulk_item_guards src_bulk_item a (map (fun mi => (fst mi, snd mi, [])) l) s = add_edges_from (EB2 l) a s) /\
     (forall l, run_bulk src_bulk_formats 2 src_bulk_item_guards src_bulk_item a (map (fun me => (fst me, LNone, snd me)) l) s = add_edges_from (EB3 l) a s) /\
     (forall l, run_bulk src_bulk_formats 3 src_bulk_item_guards src_bulk_item a l s = add_edges_from (EB4 l) a s)) /\
  (forall strong re ns s, Inv s ->
     run_node_items src_remove_nodes_from_guards src_remove_node ns [strong; re] s = remove_nodes_from ns strong re s) /\
  (forall items a s, Inv s -> run_node_attr_items src_add_nodes_from_item items a s = add_nodes_from items a s).
Proof.
  split; [exact add_edges_from_dict_is_source|]. split; [exact add_edges_from_items_is_source|].
  split; [exact remove_nodes_from_is_source|exact add_nodes_from_is_source].
Qed.
Print Assumptions C05_bulk_calls_are_source.

(* THE SOURCE TIE for the bulk calls of DiHypergraph.  Both loops of add_edges_from (and the guard of remove_nodes_from, whose item
   calls the translated remove_node) are regenerated on every run: the item of the dict
   format, and the `while True:` loop of formats 1-4 (dispatch table, guarded item, `format2 or format4` as the flag, the two
   attribute updates in their order).  Run item by item they are the model's d_add_edges_from in all five formats, on every state
   with the class invariant and for every **attr with distinct keys.  Outside: the detection of the format, the iterator protocol,
   the decoding of `members` into the two lists *)
Theorem C05_directed_bulk_call_is_source :
  (forall a l d, DInv d -> run_ditems dsrc_dict_item_guards dsrc_dict_item l d = d_add_edges_from (DB5 l) a d) /\
  (forall a d, NoDup (map fst a) -> DInv d ->
     (forall l, run_dbulk dsrc_bulk_formats 0 dsrc_bulk_item_guards dsrc_bulk_item a (map (fun m => (fst m, snd m, LNone, [])) l) d = d_add_edges_from (DB1 l) a d) /\
     (forall l, run_dbulk dsrc_bulk_formats 1 dsrc_bulk_item_guards dsrc_bulk_item a (map (fun m => (fst (fst m), snd (fst m), snd m, [])) l) d = d_add_edges_from (DB2 l) a d) /\
     (forall l, run_dbulk dsrc_bulk_formats 2 dsrc_bulk_item_guards dsrc_bulk_item a (map (fun m => (fst (fst m), snd (fst m), LNone, snd m)) l) d = d_add_edges_from (DB3 l) a d) /\
     (forall l, run_dbulk dsrc_bulk_formats 3 dsrc_bulk_item_guards dsrc_bulk_item a l d = d_add_edges_from (DB4 l) a d)) /\
  (forall strong re ns d, DInv d ->
     run_dnode_items dsrc_remove_nodes_from_guards dsrc_remove_node ns [strong; re] d = d_remove_nodes_from ns strong re d) /\
  (forall items a d, DInv d -> run_dnode_attr_items dsrc_add_nodes_from_item items a d = d_add_nodes_from items a d).
Proof.
  split; [exact d_add_edges_from_dict_is_source|]. split; [exact d_add_edges_from_items_is_source|].
  split; [exact d_remove_nodes_from_is_source|exact d_add_nodes_from_is_source].
Qed.
Print Assumptions C05_directed_bulk_call_is_source.
