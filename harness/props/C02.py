"""C02 - directed incidence integrity (tail/head vs out/in) under every history."""
from .. import common as C, histcheck as HC, disim
from . import base, C01

PROP = "C02"
COQ_IMPORT = "Base.Label Base.Attr Base.Outcome Model.Hypergraph Model.HgCheck Model.DiHypergraph Model.DiCheck"
PROJ = "(mkProj false false false false)"


def oracle(ob):
    if ob.get("broken"):
        return "observation failed: " + ob["broken"]
    nodes = dict(ob["nodes"]); edges = dict(ob["edges"])
    for n, (ins, outs) in ob["nodes"]:
        for e in outs:
            if e not in edges:
                return f"node {n!r} lists out-membership {e!r} which is not an edge"
            if n not in edges[e][0]:
                return f"node {n!r} lists out-membership {e!r} but is not in its tail"
        for e in ins:
            if e not in edges:
                return f"node {n!r} lists in-membership {e!r} which is not an edge"
            if n not in edges[e][1]:
                return f"node {n!r} lists in-membership {e!r} but is not in its head"
    for e, (t, h) in ob["edges"]:
        for n in t:
            if n not in nodes:
                return f"edge {e!r} has tail member {n!r} which is not a node"
            if e not in nodes[n][1]:
                return f"edge {e!r} has tail member {n!r} whose out-memberships do not list it"
        for n in h:
            if n not in nodes:
                return f"edge {e!r} has head member {n!r} which is not a node"
            if e not in nodes[n][0]:
                return f"edge {e!r} has head member {n!r} whose in-memberships do not list it"
    for (n, _), a in zip(ob["nodes"], ob["nattr"]):
        if a is None:
            return f"node {n!r} has no attribute record"
    for (e, _), a in zip(ob["edges"], ob["eattr"]):
        if a is None:
            return f"edge {e!r} has no attribute record"
    return None


def oracle_history(rec):
    for i, ob in enumerate(rec["obs"]):
        d = oracle(ob)
        if d:
            return i, d
    return None


def run(v):
    C01.run(v, sim=disim, prop=PROP, coq_import=COQ_IMPORT, proj=PROJ, oracle_history=oracle_history,
            klass="DiHypergraph")


def replay(payload):
    return HC.replay_history(PROP, disim, payload, COQ_IMPORT, PROJ, oracle_history)
