(* The reference orientation of a simplex: sort_simplex (insertion sort by the key
   (isinstance(x, str), x)) is canonical on duplicate-free lists of numbers and strings. *)
From Coq Require Import String Ascii ZArith NArith List Bool Lia Sorted.
From XV Require Import Base.Label Base.LSet Model.Hypergraph Model.Hodge.
Import ListNotations.

Definition orderable (x : lbl) : Prop := match x with LInt _ | LStr _ => True | _ => False end.

(* ---------- the order on strings ---------- *)
Lemma ascii_compare_trans a b c : Ascii.compare a b = Lt -> Ascii.compare b c = Lt -> Ascii.compare a c = Lt.
Proof. unfold Ascii.compare. rewrite !N.compare_lt_iff. lia. Qed.

Lemma ascii_compare_refl a : Ascii.compare a a = Eq.
Proof. unfold Ascii.compare. apply N.compare_refl. Qed.

Lemma string_compare_refl s : String.compare s s = Eq.
Proof. induction s as [|a s IH]; [reflexivity|]. cbn [String.compare]. rewrite ascii_compare_refl. exact IH. Qed.

Lemma string_compare_trans : forall s1 s2 s3, String.compare s1 s2 = Lt -> String.compare s2 s3 = Lt -> String.compare s1 s3 = Lt.
Proof.
  induction s1 as [|a s1 IH]; intros [|b s2] [|c s3]; cbn [String.compare]; try discriminate; try reflexivity.
  destruct (Ascii.compare a b) eqn:E1; try discriminate; destruct (Ascii.compare b c) eqn:E2; try discriminate.
  - apply Ascii.compare_eq_iff in E1. apply Ascii.compare_eq_iff in E2. subst. rewrite ascii_compare_refl. apply IH.
  - apply Ascii.compare_eq_iff in E1. subst. rewrite E2. reflexivity.
  - apply Ascii.compare_eq_iff in E2. subst. rewrite E1. reflexivity.
  - rewrite (ascii_compare_trans a b c E1 E2). reflexivity.
Qed.

Lemma string_ltb_trans s1 s2 s3 : String.ltb s1 s2 = true -> String.ltb s2 s3 = true -> String.ltb s1 s3 = true.
Proof.
  unfold String.ltb. destruct (String.compare s1 s2) eqn:E1; try discriminate.
  destruct (String.compare s2 s3) eqn:E2; try discriminate. rewrite (string_compare_trans _ _ _ E1 E2). reflexivity.
Qed.
Lemma string_ltb_irrefl s : String.ltb s s = false.
Proof. unfold String.ltb. rewrite string_compare_refl. reflexivity. Qed.
Lemma string_ltb_total s1 s2 : s1 <> s2 -> String.ltb s1 s2 = true \/ String.ltb s2 s1 = true.
Proof.
  intro N. unfold String.ltb. rewrite (String.compare_antisym s2 s1).
  destruct (String.compare s1 s2) eqn:E; cbn [CompOpp].
  - apply String.compare_eq_iff in E. congruence.
  - left. reflexivity.
  - right. reflexivity.
Qed.

(* ---------- the key order ---------- *)
Lemma klt_irrefl x : key_ltb x x = false.
Proof. destruct x; cbn; try reflexivity; [apply Z.ltb_irrefl|apply string_ltb_irrefl]. Qed.

Lemma klt_trans a b c : key_ltb a b = true -> key_ltb b c = true -> key_ltb a c = true.
Proof.
  destruct a, b, c; cbn; try discriminate; try reflexivity; intros H1 H2.
  - apply Z.ltb_lt. apply Z.ltb_lt in H1. apply Z.ltb_lt in H2. lia.
  - eapply string_ltb_trans; eassumption.
Qed.

Lemma klt_total a b : orderable a -> orderable b -> a <> b -> key_ltb a b = true \/ key_ltb b a = true.
Proof.
  destruct a, b; cbn; try contradiction; intros _ _ N; auto.
  - destruct (Z.ltb_spec z z0); [left; reflexivity|]. right. apply Z.ltb_lt. assert (z <> z0) by congruence. lia.
  - apply string_ltb_total. congruence.
Qed.

Lemma klt_asym a b : key_ltb a b = true -> key_ltb b a = false.
Proof.
  intro H. destruct (key_ltb b a) eqn:E; [|reflexivity]. pose proof (klt_trans a b a H E) as K. rewrite klt_irrefl in K. discriminate.
Qed.

Definition klt (a b : lbl) : Prop := key_ltb a b = true.
Definition KSorted (l : list lbl) : Prop := StronglySorted klt l.

Lemma KSorted_NoDup l : KSorted l -> NoDup l.
Proof.
  induction 1 as [|x l _ IH F]; constructor; [|exact IH]. intro Hi. rewrite Forall_forall in F.
  specialize (F x Hi). unfold klt in F. rewrite klt_irrefl in F. discriminate.
Qed.

(* two strictly sorted lists with the same elements are equal *)
Lemma KSorted_unique : forall l1 l2, KSorted l1 -> KSorted l2 -> (forall x, In x l1 <-> In x l2) -> l1 = l2.
Proof.
  induction l1 as [|a l1 IH]; intros [|b l2] S1 S2 H.
  - reflexivity.
  - exfalso. apply (proj2 (H b)). left; reflexivity.
  - exfalso. apply (proj1 (H a)). left; reflexivity.
  - inversion S1 as [|? ? S1' F1]; subst. inversion S2 as [|? ? S2' F2]; subst.
    rewrite Forall_forall in F1, F2.
    assert (a = b).
    { destruct (lbl_eq_dec a b) as [E|N]; [exact E|exfalso].
      assert (Ha : In a l2) by (destruct (proj1 (H a) (or_introl eq_refl)) as [E|E]; [congruence|exact E]).
      assert (Hb : In b l1) by (destruct (proj2 (H b) (or_introl eq_refl)) as [E|E]; [congruence|exact E]).
      specialize (F1 b Hb). specialize (F2 a Ha). unfold klt in *. rewrite (klt_asym a b F1) in F2. discriminate. }
    subst b. f_equal. apply IH; [exact S1'|exact S2'|].
    pose proof (KSorted_NoDup _ S1) as N1. pose proof (KSorted_NoDup _ S2) as N2.
    inversion N1; subst. inversion N2; subst.
    intro x. split; intro Hx.
    + destruct (proj1 (H x) (or_intror Hx)) as [E|E]; [subst; contradiction|exact E].
    + destruct (proj2 (H x) (or_intror Hx)) as [E|E]; [subst; contradiction|exact E].
Qed.

(* ---------- insertion sort ---------- *)
Lemma In_insert_key x y l : In y (insert_key x l) <-> y = x \/ In y l.
Proof.
  induction l as [|z l IH]; cbn [insert_key].
  - cbn [In]. split; [intros [H|[]]; left; symmetry; exact H|intros [H|[]]; left; symmetry; exact H].
  - destruct (key_ltb x z); cbn [In].
    + split; [intros [H|H]; [left; symmetry; exact H|right; exact H]|intros [H|H]; [left; symmetry; exact H|right; exact H]].
    + rewrite IH. split.
      * intros [H|[H|H]]; [right; left; exact H|left; exact H|right; right; exact H].
      * intros [H|[H|H]]; [right; left; exact H|left; exact H|right; right; exact H].
Qed.

Lemma insert_key_sorted x l : orderable x -> (forall y, In y l -> orderable y) -> ~ In x l ->
  KSorted l -> KSorted (insert_key x l).
Proof.
  intros Ox Ol Hn S. induction S as [|z l S IH F]; cbn [insert_key].
  - constructor; [constructor|constructor].
  - destruct (key_ltb x z) eqn:E.
    + constructor; [constructor; assumption|]. constructor; [exact E|].
      rewrite Forall_forall in F |- *. intros y Hy. unfold klt. eapply klt_trans; [exact E|apply F; exact Hy].
    + assert (Hzx : klt z x).
      { destruct (klt_total x z Ox (Ol z (or_introl eq_refl))) as [K|K]; [intro; subst; apply Hn; left; reflexivity|congruence|exact K]. }
      constructor.
      * apply IH; [intros y Hy; apply Ol; right; exact Hy|intro Hi; apply Hn; right; exact Hi].
      * rewrite Forall_forall in F |- *. intros y Hy. apply In_insert_key in Hy. destruct Hy as [->|Hy]; [exact Hzx|apply F; exact Hy].
Qed.

Lemma In_sort_simplex x l : In x (sort_simplex l) <-> In x l.
Proof.
  induction l as [|y l IH]; cbn [sort_simplex fold_right]; [tauto|].
  change (fold_right insert_key [] l) with (sort_simplex l). rewrite In_insert_key, IH. cbn [In]. split; intros [H|H]; auto.
Qed.

Lemma sort_simplex_sorted l : NoDup l -> (forall y, In y l -> orderable y) -> KSorted (sort_simplex l).
Proof.
  induction 1 as [|x l Hx Hl IH]; intro Ho; cbn [sort_simplex fold_right]; [constructor|].
  change (fold_right insert_key [] l) with (sort_simplex l).
  apply insert_key_sorted.
  - apply Ho. left; reflexivity.
  - intros y Hy. apply (proj1 (In_sort_simplex y l)) in Hy. apply Ho. right; exact Hy.
  - intro Hi. apply (proj1 (In_sort_simplex x l)) in Hi. contradiction.
  - apply IH. intros y Hy. apply Ho. right; exact Hy.
Qed.

Lemma sort_simplex_length l : length (sort_simplex l) = length l.
Proof.
  induction l as [|x l IH]; [reflexivity|]. cbn [sort_simplex fold_right length].
  change (fold_right insert_key [] l) with (sort_simplex l). rewrite <- IH.
  generalize (sort_simplex l). intro m. induction m as [|z m IHm]; [reflexivity|]. cbn [insert_key].
  destruct (key_ltb x z); cbn [length]; [reflexivity|]. rewrite IHm. reflexivity.
Qed.

(* canonical: the sorted form depends only on the set *)
Theorem sort_simplex_canonical l1 l2 :
  NoDup l1 -> NoDup l2 -> (forall y, In y l1 -> orderable y) -> (forall x, In x l1 <-> In x l2) ->
  sort_simplex l1 = sort_simplex l2.
Proof.
  intros N1 N2 O1 H. apply KSorted_unique.
  - apply sort_simplex_sorted; assumption.
  - apply sort_simplex_sorted; [exact N2|]. intros y Hy. apply O1. apply H. exact Hy.
  - intro x. rewrite !In_sort_simplex. apply H.
Qed.

(* deleting a position of a strictly sorted list leaves a strictly sorted list of the other elements *)
Lemma remove_nth_sorted : forall l j, KSorted l -> KSorted (remove_nth j l).
Proof.
  induction l as [|x l IH]; intros j S; [destruct j; constructor|]. inversion S as [|? ? S' F]; subst.
  destruct j as [|j]; cbn [remove_nth]; [exact S'|]. constructor; [apply IH; exact S'|].
  rewrite Forall_forall in F |- *. intros y Hy. apply F.
  clear -Hy. revert j Hy. induction l as [|z l IHl]; intros j Hy; [destruct j; destruct Hy|].
  destruct j; cbn [remove_nth] in Hy; [right; exact Hy|]. destruct Hy as [->|Hy]; [left; reflexivity|right; eapply IHl; exact Hy].
Qed.

Lemma In_remove_nth (l : list lbl) : forall j x, NoDup l -> (j < length l)%nat ->
  (In x (remove_nth j l) <-> In x l /\ x <> nth j l LNone).
Proof.
  induction l as [|y l IH]; intros j x ND Hj; [simpl in Hj; lia|]. inversion ND as [|? ? Hy ND']; subst.
  destruct j as [|j]; cbn [remove_nth nth].
  - split; [intro H; split; [right; exact H|intro; subst; contradiction]|]. intros [[E|H] N]; [congruence|exact H].
  - cbn [In length] in *. rewrite IH by (assumption || lia). split.
    + intros [->|[H N]]; [split; [left; reflexivity|]|split; [right; exact H|exact N]].
      intro E. apply Hy. rewrite E. apply nth_In. lia.
    + intros [[<-|H] N]; [left; reflexivity|right; split; assumption].
Qed.
