"""Fail-closed translators from /repo's source to Gallina data (coq/Gen/*.v), run on every check.

translate_freeze : the freeze() bodies of the three network classes -> lists of method names.
(The seed-shape and API-surface translators live in translate_seed.py / api_surface.py.)"""
import ast, os
from . import common as C

GEN = os.path.join(C.COQ, "Gen")


class TranslationError(Exception):
    pass


def _class_def(tree, name):
    for node in tree.body:
        if isinstance(node, ast.ClassDef) and node.name == name:
            return node
    raise TranslationError(f"class {name} not found")


def _method(cls, name):
    for node in cls.body:
        if isinstance(node, ast.FunctionDef) and node.name == name:
            return node
    return None


def freeze_list(path, classname):
    """The names m of the statements `self.m = frozen` in freeze(); anything else in the body
    (other than a docstring and `self.frozen = True`) makes the translation fail."""
    tree = ast.parse(open(path).read())
    cls = _class_def(tree, classname)
    fn = _method(cls, "freeze")
    if fn is None:
        raise TranslationError(f"{classname}.freeze not found in {path}")
    names, saw_flag = [], False
    for i, st in enumerate(fn.body):
        if i == 0 and isinstance(st, ast.Expr) and isinstance(st.value, ast.Constant) and isinstance(st.value.value, str):
            continue
        ok = (isinstance(st, ast.Assign) and len(st.targets) == 1 and isinstance(st.targets[0], ast.Attribute)
              and isinstance(st.targets[0].value, ast.Name) and st.targets[0].value.id == "self")
        if not ok:
            raise TranslationError(f"{classname}.freeze: statement not understood: {ast.unparse(st)}")
        attr = st.targets[0].attr
        if isinstance(st.value, ast.Name) and st.value.id == "frozen":
            names.append(attr)
        elif attr == "frozen" and isinstance(st.value, ast.Constant) and st.value.value is True:
            saw_flag = True
        else:
            raise TranslationError(f"{classname}.freeze: statement not understood: {ast.unparse(st)}")
    if not saw_flag:
        raise TranslationError(f"{classname}.freeze does not set self.frozen = True")
    # `frozen` must be the function of xgi.exception that always raises XGIError
    exc = ast.parse(open(os.path.join(C.REPO, "xgi", "exception.py")).read())
    fr = [n for n in exc.body if isinstance(n, ast.FunctionDef) and n.name == "frozen"]
    if len(fr) != 1:
        raise TranslationError("xgi.exception.frozen not found")
    body = [s for s in fr[0].body if not (isinstance(s, ast.Expr) and isinstance(s.value, ast.Constant))]
    if not (len(body) == 1 and isinstance(body[0], ast.Raise) and isinstance(body[0].exc, ast.Call)
            and getattr(body[0].exc.func, "id", None) == "XGIError"):
        raise TranslationError("xgi.exception.frozen is not a single `raise XGIError(...)`")
    return names


def write_if_changed(path, text):
    os.makedirs(os.path.dirname(path), exist_ok=True)
    if os.path.exists(path) and open(path).read() == text:
        return False
    with open(path, "w") as f:
        f.write(text)
    return True


def translate_freeze():
    core = os.path.join(C.REPO, "xgi", "core")
    lists = {
        "frozen_hg": freeze_list(os.path.join(core, "hypergraph.py"), "Hypergraph"),
        "frozen_di": freeze_list(os.path.join(core, "dihypergraph.py"), "DiHypergraph"),
        "frozen_sc": freeze_list(os.path.join(core, "simplicialcomplex.py"), "SimplicialComplex"),
    }
    out = ["(* GENERATED on every run by harness/translate.py from the freeze() bodies of /repo. *)",
           "From Coq Require Import String List.", "Import ListNotations.", ""]
    for k, names in lists.items():
        out.append(f"Definition {k} : list string := [" + "; ".join(f'"{n}"%string' for n in names) + "].")
    write_if_changed(os.path.join(GEN, "FreezeLists.v"), "\n".join(out) + "\n")
    return lists


def regenerate_all():
    """Returns {name: error string} for the translators that failed (fail-closed: a failure is
    reported as a broken obligation by the property that depends on the generated file)."""
    errors = {}
    for name, fn in (("freeze", translate_freeze),):
        try:
            fn()
        except Exception as e:  # noqa: BLE001
            errors[name] = f"{type(e).__name__}: {e}"
    for mod, name in (("translate_seed", "seed"), ("api_surface", "api"), ("translate_uid", "uid"), ("translate_filter", "filter"), ("translate_subfaces", "subfaces"), ("translate_stats", "stats"), ("translate_gens", "gens"), ("translate_mutators", "mutators"), ("translate_dimutators", "dimutators"), ("translate_scmutators", "scmutators")):
        try:
            m = __import__(f"harness.{mod}", fromlist=["x"])
        except ImportError:
            continue
        try:
            m.regenerate()
        except Exception as e:  # noqa: BLE001
            errors[name] = f"{type(e).__name__}: {e}"
    return errors
