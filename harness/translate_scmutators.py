"""Fail-closed translator of SimplicialComplex mutators (xgi/core/simplicialcomplex.py) into programs of the statement language of
coq/Model/PyIR.v (coq/Gen/ScMutators.v): the three helpers _add_simplex, _add_face, _remove_simplex_id - the only places where the
class writes its tables - and, built on them, add_simplex as a whole (guards, `idx = next(self._edge_uid) if not idx else idx`,
the calls, the loop over set(self._subfaces(members)) with its guard) and the public remove_simplex_id (the try/except KeyError
frame, the loop over the ids _supfaces_id returns, the calls) and remove_simplex_ids_from (snapshot of the ids, guard, loop).  `Props/C03.v` proves that running them is what the model's
`insert_edge` / `remove_edge1` / `add_simplex` / `remove_simplex_id` do.  The accepted statements are those of translate_mutators.py;
`self._subfaces(...)`, `set(faces)` and `self._supfaces_id(self._edge[idx])` are accepted verbatim (their results are inputs of the runners)."""
import ast, os
from . import common as C
from .translate_mutators import M, TranslationError

GEN = os.path.join(C.COQ, "Gen")


def _fn(cls, name):
    fns = [n for n in cls.body if isinstance(n, ast.FunctionDef) and n.name == name]
    if len(fns) != 1:
        raise TranslationError(f"SimplicialComplex.{name} not found")
    f = fns[0]
    body = [s for s in f.body if not (isinstance(s, ast.Expr) and isinstance(s.value, ast.Constant))]
    return f, body


def translate():
    tree = ast.parse(open(os.path.join(C.REPO, "xgi", "core", "simplicialcomplex.py")).read())
    cls = [n for n in tree.body if isinstance(n, ast.ClassDef) and n.name == "SimplicialComplex"]
    if len(cls) != 1:
        raise TranslationError("class SimplicialComplex not found")
    out = []
    # _add_simplex(self, members, idx=None, **attr): members is the frozenset, idx the id already chosen
    f, body = _fn(cls[0], "_add_simplex")
    if [a.arg for a in f.args.args] != ["self", "members", "idx"] or f.args.kwarg is None or f.args.vararg or f.args.kwonlyargs:
        raise TranslationError("SimplicialComplex._add_simplex: unexpected parameters")
    m = M([], [], f.args.kwarg.arg, members="members", idx="idx")
    out.append(f"Definition src_sc_add_simplex : list stmt :=\n  {m.block(body)}.\n")
    # _add_face(self, members): the id is always drawn from the counter
    f, body = _fn(cls[0], "_add_face")
    if [a.arg for a in f.args.args] != ["self", "members"] or f.args.kwarg or f.args.vararg or f.args.kwonlyargs:
        raise TranslationError("SimplicialComplex._add_face: unexpected parameters")
    m = M([], [], None, members="members", idx=None)
    m.always_auto = True
    out.append(f"Definition src_sc_add_face : list stmt :=\n  {m.block(body)}.\n")
    # _remove_simplex_id(self, idx)
    f, body = _fn(cls[0], "_remove_simplex_id")
    if [a.arg for a in f.args.args] != ["self", "idx"] or f.args.kwarg or f.args.vararg or f.args.kwonlyargs:
        raise TranslationError("SimplicialComplex._remove_simplex_id: unexpected parameters")
    out.append(f"Definition src_sc_remove_simplex_id : list stmt :=\n  {M(['idx'], [], None).block(body)}.\n")
    # add_simplex(self, members, idx=None, **attr)
    f, body = _fn(cls[0], "add_simplex")
    if [a.arg for a in f.args.args] != ["self", "members", "idx"] or len(f.args.defaults) != 1 or ast.unparse(f.args.defaults[0]) != "None" \
            or f.args.kwarg is None or f.args.vararg or f.args.kwonlyargs:
        raise TranslationError("SimplicialComplex.add_simplex: unexpected parameters")
    decode = ("try:\n    members = frozenset(members)\nexcept TypeError:\n"
              "    raise XGIError('The simplex cannot be cast to a frozenset.')")
    if not body or ast.unparse(body[0]) != decode:
        raise TranslationError("SimplicialComplex.add_simplex: expected the cast of `members` to a frozenset first")
    m = M([], [], f.args.kwarg.arg, members="members", idx="idx")
    m.calls = {f"self._add_simplex(members, idx, **{f.args.kwarg.arg})": "src_sc_add_simplex"}
    gs, rest = m.guards(body[1:])
    # the tail: faces = self._subfaces(members); faces = set(faces); for members_sub in faces: <guards>; self._add_face(members_sub)
    if len(rest) < 3 or ast.unparse(rest[-3]) != "faces = self._subfaces(members)" or ast.unparse(rest[-2]) != "faces = set(faces)" \
            or not (isinstance(rest[-1], ast.For) and ast.unparse(rest[-1].target) == "members_sub" and ast.unparse(rest[-1].iter) == "faces"
                    and not rest[-1].orelse):
        raise TranslationError("SimplicialComplex.add_simplex: expected the loop over set(self._subfaces(members)) at the end")
    head = m.block(rest[:-3])
    mf = M([], [], None, members="members_sub", idx=None)
    mf.item_mode = True
    mf.calls = {"self._add_face(members_sub)": "src_sc_add_face"}
    fgs, frest = mf.guards(rest[-1].body)
    out.append(f"Definition src_sc_add_simplex_guards : list (bexp * guard_action) :=\n  [{'; '.join(gs)}].\n")
    out.append(f"Definition src_sc_add_simplex_head : list stmt :=\n  {head}.\n")
    out.append(f"Definition src_sc_face_guards : list (bexp * guard_action) :=\n  [{'; '.join(fgs)}].\n")
    out.append(f"Definition src_sc_face_item : list stmt :=\n  {mf.block(frest)}.\n")
    # remove_simplex_id(self, idx): try: supfaces_ids = self._supfaces_id(self._edge[idx]); <statements> except KeyError: raise XGIError
    f, body = _fn(cls[0], "remove_simplex_id")
    if [a.arg for a in f.args.args] != ["self", "idx"] or f.args.kwarg or f.args.vararg or f.args.kwonlyargs or f.args.defaults:
        raise TranslationError("SimplicialComplex.remove_simplex_id: unexpected parameters")
    if len(body) != 1 or not isinstance(body[0], ast.Try) or body[0].orelse or body[0].finalbody or len(body[0].handlers) != 1:
        raise TranslationError("SimplicialComplex.remove_simplex_id: expected one try ... except KeyError")
    h = body[0].handlers[0]
    if ast.unparse(h.type) != "KeyError" or len(h.body) != 1 or not isinstance(h.body[0], ast.Raise) \
            or not (isinstance(h.body[0].exc, ast.Call) and ast.unparse(h.body[0].exc.func) == "XGIError"):
        raise TranslationError("SimplicialComplex.remove_simplex_id: expected `except KeyError: raise XGIError(...)`")
    tb = body[0].body
    if not tb or ast.unparse(tb[0]) != "supfaces_ids = self._supfaces_id(self._edge[idx])":
        raise TranslationError("SimplicialComplex.remove_simplex_id: expected `supfaces_ids = self._supfaces_id(self._edge[idx])` first")
    m = M(["idx"], [], None)
    m.locals = ["supfaces_ids"]
    m.arg_calls = {"self._remove_simplex_id": "src_sc_remove_simplex_id"}
    out.append(f"Definition src_sc_remove_simplex_id_public : list stmt :=\n  {m.block(tb[1:])}.\n")
    # remove_simplex_ids_from(self, ebunch): all_ids = set(self._edge.keys()); for idx in ebunch: <guards>; self.remove_simplex_id(idx)
    f, body = _fn(cls[0], "remove_simplex_ids_from")
    if [a.arg for a in f.args.args] != ["self", "ebunch"] or f.args.kwarg or f.args.vararg or f.args.kwonlyargs or f.args.defaults:
        raise TranslationError("SimplicialComplex.remove_simplex_ids_from: unexpected parameters")
    if len(body) != 2 or ast.unparse(body[0]) != "all_ids = set(self._edge.keys())" or not isinstance(body[1], ast.For) or body[1].orelse \
            or ast.unparse(body[1].iter) != "ebunch" or not isinstance(body[1].target, ast.Name):
        raise TranslationError("SimplicialComplex.remove_simplex_ids_from: expected `all_ids = set(self._edge.keys())` and a loop over ebunch")
    x = body[1].target.id
    m = M([x], [], None)
    m.locals = ["all_ids"]
    m.local_sets = True
    m.item_mode = True
    gs, rest = m.guards(body[1].body)
    if len(rest) != 1 or ast.unparse(rest[0]) != f"self.remove_simplex_id({x})":
        raise TranslationError("SimplicialComplex.remove_simplex_ids_from: expected the call self.remove_simplex_id(<the loop variable>) after the guards")
    out.append(f"Definition src_sc_remove_ids_guards : list (bexp * guard_action) :=\n  [{'; '.join(gs)}].\n")
    return out


def regenerate():
    defs = translate()
    os.makedirs(GEN, exist_ok=True)
    text = ("(* GENERATED by harness/translate_scmutators.py from xgi/core/simplicialcomplex.py (_add_simplex, _add_face, "
            "_remove_simplex_id) - do not edit. *)\n"
            "From Coq Require Import List.\nFrom XV Require Import Base.Outcome Model.PyIR.\nImport ListNotations.\n\n" + "\n".join(defs))
    p = os.path.join(GEN, "ScMutators.v")
    if not os.path.exists(p) or open(p).read() != text:
        open(p, "w").write(text)
    return defs
