(* C11 - files (theorems are added from Proofs/ConvertProofs.v). *)
From Coq Require Import String ZArith List Bool.
From XV Require Import Base.Label Base.LSet Base.ODict Base.Attr Base.Outcome Model.Hypergraph Model.HgCheck Model.Convert.
Import ListNotations.
Open Scope Z_scope.

Example C11_nonvacuous :
  let s := run [OAddEdgesFrom (EB1 [[LInt 1; LInt 2; LInt 3]; []; [LInt 3; LInt 4]]) []; OAddNode (LInt 9) [("c"%string, AInt 1)]] hg_empty in
  h_edge (st_of (from_edge_lines (to_hyperedge_list s))) = h_edge s /\
  get (LInt 1) (h_edge (st_of (from_hif (to_hif s)))) = Some [] /\ h_node (st_of (from_hif (to_hif s))) = h_node s /\
  h_nattr (st_of (from_hif (to_hif s))) = h_nattr s.
Proof. vm_compute. repeat split. Qed.
Print Assumptions C11_nonvacuous.
