(* C05: which exception classes each Hypergraph op can end in. *)
From Coq Require Import String ZArith List Bool Lia.
From XV Require Import Base.Label Base.LSet Base.ODict Base.Attr Base.Outcome Model.Hypergraph.
Import ListNotations.
Open Scope Z_scope.

Definition out_of (r : res) : outcome := snd (fst r).

Lemma loop_out {A} (P : outcome -> Prop) (f : hg -> A -> res) l :
  P Ok -> (forall s x, P (out_of (f s x))) -> forall s, P (out_of (loop f l s)).
Proof.
  intros H0 Hf. induction l as [|x xs IH]; intro s; simpl; [exact H0|].
  specialize (Hf s x). destruct (f s x) as [[s' o] w]. unfold out_of in *; simpl in *.
  destruct o; [|exact Hf]. specialize (IH s'). destruct (loop f xs s') as [[s'' o'] w']. exact IH.
Qed.

Lemma bind_out (P : outcome -> Prop) r k :
  P (out_of r) -> (forall s, P (out_of (k s))) -> P (out_of (bind r k)).
Proof.
  intros Hr Hk. destruct r as [[s o] w]. unfold out_of in *; simpl in *. destruct o; [|exact Hr].
  specialize (Hk s). destruct (k s) as [[s' o'] w']. exact Hk.
Qed.

(* only the library's own errors *)
Definition lib_only (o : outcome) : Prop := o = Ok \/ o = Raised XGIError \/ o = Raised IDNotFound.
(* ... or IndexError (an empty first edge decides no format) *)
Definition lib_or_index (o : outcome) : Prop := lib_only o \/ o = Raised IndexError.
(* ... or TypeError (sorting ids of mixed kinds) *)
Definition lib_or_type (o : outcome) : Prop := lib_or_index o \/ o = Raised TypeError.
(* ... or ValueError (no node / fewer than two edges) *)
Definition lib_type_value (o : outcome) : Prop := lib_or_type o \/ o = Raised ValueError.

Ltac lo := unfold lib_type_value, lib_or_type, lib_or_index, lib_only; auto 8.

Lemma lib_ok : lib_only Ok. Proof. lo. Qed.
Lemma lib_xgi : lib_only (Raised XGIError). Proof. lo. Qed.
Lemma lib_idnf : lib_only (Raised IDNotFound). Proof. lo. Qed.
#[global] Hint Resolve lib_ok lib_xgi lib_idnf : lib.

Lemma out_ok s : out_of (ok s) = Ok. Proof. reflexivity. Qed.
Lemma out_warn1 s : out_of (warn1 s) = Ok. Proof. reflexivity. Qed.
Lemma out_raise s e : out_of (raise s e) = Raised e. Proof. reflexivity. Qed.

Lemma add_node_out n a s : lib_only (out_of (add_node n a s)).
Proof. unfold add_node. destruct (has n (h_node s)); [lo|]. destruct (is_none n); lo. Qed.

Lemma add_nodes_from_out items a s : lib_only (out_of (add_nodes_from items a s)).
Proof.
  unfold add_nodes_from. apply loop_out; [lo|]. intros s' [n od].
  destruct (has n (h_node s')); [lo|]. destruct (is_none n); lo.
Qed.

Lemma remove_node_out n st re s : lib_only (out_of (remove_node n st re s)).
Proof. unfold remove_node. destruct (get n (h_node s)); [destruct st; lo|lo]. Qed.

Lemma remove_nodes_from_out ns st re s : lib_only (out_of (remove_nodes_from ns st re s)).
Proof.
  unfold remove_nodes_from. apply loop_out; [lo|]. intros s' n.
  destruct (has n (h_node s')); [apply remove_node_out|lo].
Qed.

Lemma bulk_item_out ex a s ms idx ea : lib_only (out_of (bulk_item ex a s ms idx ea)).
Proof.
  unfold bulk_item. destruct (has idx (h_edge s)); [lo|]. destruct (existsb is_none (mkset ms)); [lo|].
  destruct (is_none idx); lo.
Qed.

Lemma add_edges_from_out eb a s : lib_or_index (out_of (add_edges_from eb a s)).
Proof.
  destruct eb as [l|l|l|l|l]; simpl.
  - left. apply loop_out; [lo|]. intros; apply bulk_item_out.
  - left. apply loop_out; [lo|]. intros s' [m i]; apply bulk_item_out.
  - left. apply loop_out; [lo|]. intros s' [m ea]; apply bulk_item_out.
  - left. apply loop_out; [lo|]. intros s' [[m i] ea]; apply bulk_item_out.
  - left. apply loop_out; [lo|]. intros s' [idx ms].
    destruct (has idx (h_edge s')); [lo|]. destruct (existsb is_none (mkset ms)); [lo|].
    destruct (is_none idx); lo.
Qed.

Lemma add_edge_out ms idx a s : lib_only (out_of (add_edge ms idx a s)).
Proof.
  unfold add_edge. destruct (existsb is_none (mkset ms)); [lo|]. destruct idx as [i|]; [|lo].
  destruct (has i (h_edge s)); lo.
Qed.

Lemma remove_edge1_out e s : lib_only (out_of (remove_edge1 e s)).
Proof. unfold remove_edge1. destruct (get e (h_edge s)); lo. Qed.

Lemma remove_edges_from_out es s : lib_only (out_of (remove_edges_from es s)).
Proof. unfold remove_edges_from. apply loop_out; [lo|]. intros; apply remove_edge1_out. Qed.

Lemma set_attrs_out_n1 vals name s : lib_only (out_of (set_node_attrs_named vals name s)).
Proof. unfold set_node_attrs_named. apply loop_out; [lo|]. intros s' [n v]. destruct (has n (h_nattr s')); lo. Qed.
Lemma set_attrs_out_n2 vals s : lib_only (out_of (set_node_attrs_dict vals s)).
Proof. unfold set_node_attrs_dict. apply loop_out; [lo|]. intros s' [n v]. destruct (has n (h_nattr s')); lo. Qed.
Lemma set_attrs_out_e1 vals name s : lib_only (out_of (set_edge_attrs_named vals name s)).
Proof. unfold set_edge_attrs_named. apply loop_out; [lo|]. intros s' [n v]. destruct (has n (h_eattr s')); lo. Qed.
Lemma set_attrs_out_e2 vals s : lib_only (out_of (set_edge_attrs_dict vals s)).
Proof. unfold set_edge_attrs_dict. apply loop_out; [lo|]. intros s' [n v]. destruct (has n (h_eattr s')); lo. Qed.

Lemma double_edge_swap_out n1 n2 e1 e2 s : lib_only (out_of (double_edge_swap n1 n2 e1 e2 s)).
Proof.
  unfold double_edge_swap.
  destruct (get n1 (h_node s)); [|lo]. destruct (get n2 (h_node s)); [|lo].
  destruct (get e1 (h_edge s)); [|lo]. destruct (get e2 (h_edge s)); [|lo].
  repeat match goal with |- context [if ?c then raise _ _ else _] => destruct c; [lo|] end. lo.
Qed.

Lemma add_node_to_edge_out e n s : lib_only (out_of (add_node_to_edge e n s)).
Proof.
  unfold add_node_to_edge. destruct (negb (has e (h_edge s)) && is_none e); [lo|].
  match goal with |- context [if ?c then raise _ _ else _] => destruct c; lo end.
Qed.

Lemma remove_node_from_edge_out e n re s : lib_only (out_of (remove_node_from_edge e n re s)).
Proof.
  unfold remove_node_from_edge.
  repeat match goal with |- context [if ?c then raise _ _ else _] => destruct c; [lo|] end. lo.
Qed.

Lemma lift (P Q : outcome -> Prop) o : (forall x, P x -> Q x) -> P o -> Q o. Proof. auto. Qed.

Lemma lib_only_index o : lib_only o -> lib_or_index o. Proof. lo. Qed.
Lemma lib_index_type o : lib_or_index o -> lib_or_type o. Proof. lo. Qed.
Lemma lib_type_tv o : lib_or_type o -> lib_type_value o. Proof. lo. Qed.

Lemma update_out edges nodes s : lib_or_index (out_of (update edges nodes s)).
Proof.
  unfold update. apply bind_out.
  - destruct nodes; [lo|]. apply lib_only_index. apply add_nodes_from_out.
  - intro s'. destruct edges; [apply add_edges_from_out|lo].
Qed.

Lemma merge_out rn mr mult s : lib_or_type (out_of (merge_duplicate_edges rn mr mult s)).
Proof.
  unfold merge_duplicate_edges.
  assert (H : forall g s dups ne, match merge_collect rn mr mult g s dups ne with
                                  | inl _ => True
                                  | inr (_, e) => e = TypeError \/ e = XGIError
                                  end).
  { induction g as [|[ms ids] r IH]; intros s0 dups ne; simpl; [exact I|].
    destruct ids as [|i1 [|i2 ids']]; try apply IH.
    unfold merged_edge.
    destruct rn; destruct (sort_lbls (i1 :: i2 :: ids')) as [[|f l]|]; destruct mr; simpl; auto; apply IH. }
  specialize (H (groups s) s [] []).
  destruct (merge_collect rn mr mult (groups s) s [] []) as [[[s1 dups] ne]|[s' e]].
  - apply bind_out; [apply lib_index_type, lib_only_index, remove_edges_from_out|].
    intro s2. apply bind_out.
    + destruct ne; [lo|]. apply lib_index_type. apply add_edges_from_out.
    + intro s3. destruct mr; lo.
  - destruct H as [->| ->]; lo.
Qed.

Lemma lcc_out s : lib_type_value (out_of (largest_connected_inplace s)).
Proof.
  unfold largest_connected_inplace. destruct (first_longest (components s)); [|lo].
  apply lib_type_tv, lib_index_type, lib_only_index. apply remove_nodes_from_out.
Qed.

Lemma relabel_out la s : lib_or_index (out_of (relabel_inplace la s)).
Proof.
  unfold relabel_inplace. cbv zeta.
  apply bind_out; [apply lib_only_index, add_nodes_from_out|]. intro s1.
  apply bind_out; [apply lib_only_index, set_attrs_out_n2|]. intro s2.
  apply bind_out; [destruct (keys (h_edge s)); [lo|apply add_edges_from_out]|]. intro s3.
  apply lib_only_index, set_attrs_out_e2.
Qed.

Lemma cleanup_out iso sing multi conn rl s : lib_type_value (out_of (cleanup iso sing multi conn rl s)).
Proof.
  unfold cleanup.
  apply bind_out; [destruct multi; [lo|apply lib_type_tv, merge_out]|]. intro s1.
  apply bind_out; [destruct sing; [lo|apply lib_type_tv, lib_index_type, lib_only_index, remove_edges_from_out]|]. intro s2.
  apply bind_out; [destruct iso; [lo|apply lib_type_tv, lib_index_type, lib_only_index, remove_nodes_from_out]|]. intro s3.
  apply bind_out; [destruct (conn && negb (match h_node s3 with [] => true | _ => false end)); [apply lcc_out|lo]|]. intro s4.
  destruct rl; [apply lib_type_tv, lib_index_type, relabel_out|lo].
Qed.

(* which ops may end in something else than the library's own error types *)
Definition may_raise_other (o : op) : bool :=
  match o with
  | OAddEdgesFrom _ _ | OAddWeightedEdgesFrom _ _ _ | OUpdate _ _ | ORelabel _ => true   (* IndexError: empty first edge *)
  | OMergeDuplicateEdges _ _ _ => true                                     (* TypeError: mixed ids *)
  | OCleanup _ _ _ _ _ | OLargestCC | ORandomEdgeShuffle _ _ _ => true     (* ValueError: nothing to work on *)
  | _ => false
  end.

Ltac solve_lib :=
  first [ apply add_node_out | apply add_nodes_from_out | apply remove_node_out
        | apply remove_nodes_from_out | apply set_attrs_out_n1 | apply set_attrs_out_n2
        | apply add_edge_out | apply set_attrs_out_e1 | apply set_attrs_out_e2
        | apply double_edge_swap_out | apply add_node_to_edge_out | apply remove_edge1_out
        | apply remove_edges_from_out | apply remove_node_from_edge_out
        | solve [unfold set_node_attrs_scalar, set_edge_attrs_scalar, clear, clear_edges; lo] ].

Lemma shuffle_out e1 e2 sample s : lib_type_value (out_of (random_edge_shuffle e1 e2 sample s)).
Proof.
  unfold random_edge_shuffle. destruct (length (h_edge s) <? 2)%nat; [lo|].
  destruct (get e1 (h_edge s)); [|lo]. destruct (get e2 (h_edge s)); lo.
Qed.

Theorem step_error_types s o :
  lib_type_value (out_of (step s o)) /\ (may_raise_other o = false -> lib_only (out_of (step s o))).
Proof.
  destruct o; simpl step; (split; [|intro Hm; try discriminate Hm; clear Hm]);
    try solve_lib;
    try (apply lib_type_tv, lib_index_type, lib_only_index; solve_lib).
  - apply lib_type_tv, lib_index_type. apply add_edges_from_out.
  - apply lib_type_tv, lib_index_type. apply add_edges_from_out.
  - apply shuffle_out.
  - apply lib_type_tv, lib_index_type. apply update_out.
  - apply lib_type_tv. apply merge_out.
  - apply cleanup_out.
  - apply lib_type_tv, lib_index_type. apply relabel_out.
  - apply lcc_out.
Qed.
