(* C16 - generators: the index decoders used for skip sampling are bijections, the sampled
   indices are distinct and in range. *)
From Coq Require Import List Arith Lia.
From XV Require Import Base.Label Base.LSet Model.Decoders Proofs.Combs Proofs.DecoderProofs Proofs.SkipAll Proofs.CompleteProofs Model.Simple Proofs.SunflowerProofs Proofs.SimpleGenProofs Gen.SimpleGens Proofs.GensSource Base.ODict Base.Attr Base.Outcome Model.Hypergraph Model.SimplicialComplex Proofs.ScInv.
Import ListNotations.

(* _index_to_edge_comb(index, n, m) is the index-th m-combination of range(n) in lexicographic
   order, for all n, m and every index < C(n, m) (scipy's comb(.., exact=True) is `binom`) *)
Theorem C16_comb_decoder_spec : forall index n m,
  index < binom n m -> unrank_comb index n m = nth index (combs (seq 0 n) m) [].
Proof. exact unrank_comb_spec. Qed.
Print Assumptions C16_comb_decoder_spec.

Theorem C16_comb_bijection : forall n m,
  (forall i, i < binom n m -> length (unrank_comb i n m) = m /\ NoDup (unrank_comb i n m) /\
                              forall x, In x (unrank_comb i n m) -> x < n) /\
  (forall i j, i < binom n m -> j < binom n m -> unrank_comb i n m = unrank_comb j n m -> i = j) /\
  (forall c, In c (combs (seq 0 n) m) -> exists i, i < binom n m /\ unrank_comb i n m = c).
Proof.
  intros n m. split; [intros i H; apply unrank_comb_valid; exact H|].
  split; [intros i j; apply unrank_comb_injective|intros c; apply unrank_comb_surjective].
Qed.
Print Assumptions C16_comb_bijection.

Theorem C16_prod_bijection : forall n m, n <> 0 ->
  (forall i, i < n ^ m -> rank_digits n (unrank_prod i n m) = i) /\
  (forall i, length (unrank_prod i n m) = m /\ Forall (fun d => d < n) (unrank_prod i n m)) /\
  (forall i j, i < n ^ m -> j < n ^ m -> unrank_prod i n m = unrank_prod j n m -> i = j).
Proof. exact unrank_prod_bijection. Qed.
Print Assumptions C16_prod_bijection.

Theorem C16_partition_bijection : forall sizes, Forall (fun s => s <> 0) sizes ->
  (forall i, i < prod_list sizes -> rank_mixed sizes (unrank_partition i sizes) = i) /\
  (forall i, length (unrank_partition i sizes) = length sizes /\
             forall r, r < length sizes -> nth r (unrank_partition i sizes) 0 < nth r sizes 1) /\
  (forall i j, i < prod_list sizes -> j < prod_list sizes -> unrank_partition i sizes = unrank_partition j sizes -> i = j).
Proof. exact unrank_partition_bijection. Qed.
Print Assumptions C16_partition_bijection.

(* skip sampling: for every sequence of geometric draws >= 1 the visited indices are pairwise
   distinct and below the number of candidates; with the decoder bijections the sampled edges
   are pairwise distinct valid combinations *)
Theorem C16_skip_sampling : forall draws count, Forall (fun g => 1 <= g) draws ->
  NoDup (visited draws count) /\ Forall (fun i => i < count) (visited draws count).
Proof. exact visited_distinct. Qed.
Print Assumptions C16_skip_sampling.

Theorem C16_sampled_edges_distinct : forall draws n m, Forall (fun g => 1 <= g) draws ->
  NoDup (map (fun i => unrank_comb i n m) (visited draws (binom n m))).
Proof.
  intros draws n m Hg. destruct (visited_distinct draws (binom n m) Hg) as [ND F].
  rewrite Forall_forall in F.
  induction (visited draws (binom n m)) as [|i l IH]; simpl; constructor.
  - intro Hin. apply in_map_iff in Hin. destruct Hin as (j & E & Hj).
    inversion ND as [|? ? Hni _]; subst. apply Hni.
    assert (i = j) by (apply (unrank_comb_injective n m); [apply F; left; reflexivity|apply F; right; exact Hj|symmetry; exact E]).
    subst. exact Hj.
  - inversion ND; subst. apply IH; [assumption|]. intros x Hx. apply F. right; exact Hx.
Qed.
Print Assumptions C16_sampled_edges_distinct.

Example C16_nonvacuous :
  map (fun i => unrank_comb i 5 3) (seq 0 (binom 5 3)) = combs (seq 0 5) 3 /\
  unrank_prod 11 3 3 = [1; 0; 2] /\ unrank_partition 7 [2; 3; 2] = [1; 0; 1] /\
  visited [2; 1; 4; 9] 8 = [1; 2; 6].
Proof. vm_compute. repeat split. Qed.
Print Assumptions C16_nonvacuous.

(* probability 1: every geometric draw is 1, and the skip sampling visits every index 0 .. count-1
   exactly once and in order; with the decoder bijections above, every admissible edge is generated
   exactly once *)
Theorem C16_probability_one_visits_all : forall count, visited (repeat 1 (S count)) count = seq 0 count.
Proof. exact visited_all. Qed.
Print Assumptions C16_probability_one_visits_all.

(* complete_hypergraph: for the sizes the generator uses (order + 1, or 2 / 1 .. max_order + 1) the edge list
   contains each node set of an admissible size exactly once: no repetition as lists or as sets, every edge is
   a duplicate-free set of existing nodes of an admissible size, and every such set occurs *)
Theorem C16_complete_hypergraph : forall n order mo incl,
  let E := complete_edges n (complete_sizes order mo incl) in
  NoDup E /\
  (forall c d, In c E -> In d E -> (forall x, In x c <-> In x d) -> c = d) /\
  (forall c, In c E -> NoDup c /\ (forall x, In x c -> x < n) /\ In (length c) (complete_sizes order mo incl)) /\
  (forall f, NoDup f -> (forall x, In x f -> x < n) -> In (length f) (complete_sizes order mo incl) ->
             exists c, In c E /\ (forall x, In x c <-> In x f)).
Proof. intros n order mo incl. exact (complete_edges_spec n _ (complete_sizes_NoDup order mo incl)). Qed.
Print Assumptions C16_complete_hypergraph.

(* generated simplicial complexes (random_simplicial_complex, the flag complexes) are built by add_nodes_from and
   add_simplices_from on an empty complex: whatever simplices are handed over, in whatever bulk format, with whatever
   max_order, the result is downward closed, without repeated or empty simplices (the invariant of C03) *)
Theorem C16_generated_complexes_closed : forall nodes eb1 mo1 eb2 mo2 a1 a2 h1 h2,
  SInv (st_of (add_simplices_from eb2 mo2 a2 h2
          (st_of (add_simplices_from eb1 mo1 a1 h1 (st_of (add_nodes_from nodes [] hg_empty)))))).
Proof.
  intros. apply SInv_add_simplices_from. apply SInv_add_simplices_from. apply SInv_add_nodes_from. apply SInv_empty.
Qed.
Print Assumptions C16_generated_complexes_closed.

(* sunflower(l, c, m), c <= m: exactly l petals, each of exactly m distinct nodes containing the core 0..c-1, and
   (for c < m) two different petals meet in the core only *)
Theorem C16_sunflower : forall l c m, c <= m ->
  length (sunflower_edges l c m) = l /\
  (forall e, In e (sunflower_edges l c m) -> NoDup e /\ length e = m /\ (forall x, x < c -> In x e)) /\
  (c < m -> forall p q, p < l -> q < l -> p <> q ->
     forall x, In x (nth p (sunflower_edges l c m) []) -> In x (nth q (sunflower_edges l c m) []) -> x < c).
Proof. exact sunflower_spec. Qed.
Print Assumptions C16_sunflower.

(* star_clique: legs at the centre 0, the link to the first clique node, and every set of 2 .. d_max + 1 clique nodes;
   every edge is a duplicate-free set of existing nodes of an allowed size *)
Theorem C16_star_clique : forall ns nc dmax, 1 <= ns -> 1 <= nc ->
  (forall e, In e (star_clique_edges ns nc dmax) ->
     NoDup e /\ (forall x, In x e -> x < ns + nc) /\ (length e = 2 \/ 2 <= length e <= dmax + 1)) /\
  (forall i, 1 <= i < ns -> In [0; i] (star_clique_edges ns nc dmax)) /\
  In [0; ns] (star_clique_edges ns nc dmax) /\
  (forall f, NoDup f -> (forall x, In x f -> ns <= x < ns + nc) -> 2 <= length f <= dmax + 1 ->
             exists c, In c (star_clique_edges ns nc dmax) /\ (forall x, In x c <-> In x f)).
Proof. exact star_clique_spec. Qed.
Print Assumptions C16_star_clique.

(* ring_lattice: n * (k / 2) edges, each led by its node with d - 1 further members, all existing nodes *)
Theorem C16_ring_lattice : forall n d k l, 0 < n ->
  length (ring_lattice_edges n d k l) = n * (k / 2) /\
  (forall e, In e (ring_lattice_edges n d k l) -> length e = S (d - 1) /\ forall x, In x e -> x < n).
Proof. exact ring_lattice_spec. Qed.
Print Assumptions C16_ring_lattice.

(* THE SOURCE TIE for the two comprehension-built generators: Gen/SimpleGens.v is regenerated on every run from
   ring_lattice and star_clique (harness/translate_gens.py, fail-closed); the models the two theorems above speak
   about are exactly the regenerated functions, for all parameter values *)
Theorem C16_simple_generators_are_source :
  (forall n d k l, ring_lattice_edges n d k l = src_ring_lattice n d k l) /\
  (forall ns nc dmax, star_clique_edges ns nc dmax = src_star_clique ns nc dmax).
Proof. split; [exact ring_lattice_is_source|exact star_clique_is_source]. Qed.
Print Assumptions C16_simple_generators_are_source.
