"""Entry point:  check Cxx [--tier quick|thorough] [--replay FILE]   |   check --setup"""
import importlib, json, os, sys

def main(argv):
    os.environ.setdefault("MPLBACKEND", "Agg")
    from harness import common as C
    sys.path.insert(0, C.REPO)
    if not argv:
        print(__doc__); return 2
    if argv[0] == "--setup":
        from harness import setup
        return setup.run()
    prop = argv[0]
    args = argv[1:]
    replay = None
    while args:
        a = args.pop(0)
        if a == "--tier":
            os.environ["VERIF_TIER"] = args.pop(0)
        elif a == "--replay":
            replay = args.pop(0)
        elif a == "--seed":
            os.environ["VERIF_SEED"] = args.pop(0)
    mod = importlib.import_module(f"harness.props.{prop}")
    if replay:
        return mod.replay(json.load(open(replay))) or 0
    v = C.Verdict(prop)
    mod.run(v)
    return v.finish(getattr(mod, "LEVEL", "proof"))

if __name__ == "__main__":
    sys.exit(main(sys.argv[1:]))
