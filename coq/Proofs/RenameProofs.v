(* C09: the modelled measures commute with every injective relabelling of nodes and edge ids. *)
From Coq Require Import String ZArith List Bool Lia.
From XV Require Import Base.Label Base.LSet Base.ODict Base.Attr Base.Outcome Model.Hypergraph Model.Stats Model.Hodge
     Model.Matrix Model.Graph Model.Rename Proofs.HgViews.
Import ListNotations.
Open Scope Z_scope.

Definition Inj (f : lbl -> lbl) : Prop := forall x y, f x = f y -> x = y.

Section Maps.
  Variable f : lbl -> lbl.
  Hypothesis Hf : Inj f.

  Lemma lbl_eqb_inj x y : lbl_eqb (f x) (f y) = lbl_eqb x y.
  Proof.
    destruct (lbl_eqb_spec x y) as [->|N]; [apply lbl_eqb_refl|].
    destruct (lbl_eqb_spec (f x) (f y)) as [E|_]; [exfalso; apply N; apply Hf; exact E|reflexivity].
  Qed.

  Lemma mem_map x l : mem (f x) (map f l) = mem x l.
  Proof.
    destruct (mem x l) eqn:E.
    - apply mem_In. apply in_map. apply mem_In. exact E.
    - apply mem_nIn. intro H. apply in_map_iff in H. destruct H as (y & Ey & Hy). apply Hf in Ey. subst y.
      apply mem_nIn in E. contradiction.
  Qed.

  Lemma sadd_map x l : sadd (f x) (map f l) = map f (sadd x l).
  Proof. unfold sadd. rewrite mem_map. destruct (mem x l); [reflexivity|]. rewrite map_app. reflexivity. Qed.

  Lemma sremove_map x l : sremove (f x) (map f l) = map f (sremove x l).
  Proof.
    induction l as [|y l IH]; [reflexivity|]. cbn [map sremove]. rewrite lbl_eqb_inj.
    destruct (lbl_eqb x y); [exact IH|]. cbn [map]. rewrite IH. reflexivity.
  Qed.

  Lemma sunion_map a b : sunion (map f a) (map f b) = map f (sunion a b).
  Proof.
    unfold sunion. revert a. induction b as [|x b IH]; intro a; [reflexivity|].
    cbn [map fold_left]. rewrite sadd_map. apply IH.
  Qed.

  Lemma sinter_map a b : sinter (map f a) (map f b) = map f (sinter a b).
  Proof.
    unfold sinter. induction a as [|x a IH]; [reflexivity|]. cbn [map filter]. rewrite mem_map.
    destruct (mem x b); cbn [map]; rewrite IH; reflexivity.
  Qed.

  Lemma dedup_map l : dedup (map f l) = map f (dedup l).
  Proof.
    induction l as [|x l IH]; [reflexivity|]. cbn [map dedup]. rewrite mem_map.
    destruct (mem x l); cbn [map]; rewrite IH; reflexivity.
  Qed.

  Lemma filter_notmem_map seen l :
    filter (fun v => negb (mem v (map f seen))) (map f l) = map f (filter (fun v => negb (mem v seen)) l).
  Proof.
    induction l as [|x l IH]; [reflexivity|]. cbn [map filter]. rewrite mem_map.
    destruct (mem x seen); cbn [negb map]; rewrite IH; reflexivity.
  Qed.

  Lemma fresh_map seen fr : fresh (map f seen) (map f fr) = map f (fresh seen fr).
  Proof. unfold fresh. rewrite dedup_map. apply filter_notmem_map. Qed.

  (* lookups in a renamed table *)
  Lemma get_rename_table (g : lbl -> lbl) k (d : odict (list lbl)) :
    get (f k) (rename_table f g d) = option_map (map g) (get k d).
  Proof.
    induction d as [|[k' v] d IH]; [reflexivity|]. cbn [rename_table map get fst snd]. rewrite lbl_eqb_inj.
    destruct (lbl_eqb k k'); [reflexivity|]. exact IH.
  Qed.

  Lemma getl_rename_table (g : lbl -> lbl) k d : getl (f k) (rename_table f g d) = map g (getl k d).
  Proof. unfold getl. rewrite get_rename_table. destruct (get k d); reflexivity. Qed.

  Lemma keys_rename_table (g : lbl -> lbl) d : keys (rename_table f g d) = map f (keys d).
  Proof. unfold keys, rename_table. rewrite !map_map. reflexivity. Qed.
End Maps.

Section Rename.
  Variables fn fe : lbl -> lbl.
  Hypothesis Hn : Inj fn.
  Hypothesis He : Inj fe.
  Variable s : hg.
  Let s' := rename_hg fn fe s.

  Lemma mships_rename n : mships s' (fn n) = map fe (mships s n).
  Proof. unfold mships, s', rename_hg. cbn [h_node]. apply getl_rename_table. exact Hn. Qed.
  Lemma mems_rename e : mems s' (fe e) = map fn (mems s e).
  Proof. unfold mems, s', rename_hg. cbn [h_edge]. apply getl_rename_table. exact He. Qed.
  Lemma nkeys_rename : nkeys s' = map fn (nkeys s).
  Proof. unfold nkeys, s', rename_hg. cbn [h_node]. apply keys_rename_table. Qed.
  Lemma ekeys_rename : ekeys s' = map fe (ekeys s).
  Proof. unfold ekeys, s', rename_hg. cbn [h_edge]. apply keys_rename_table. Qed.

  (* degree and size *)
  Theorem degree_rename n : degree None None s' (fn n) = degree None None s n.
  Proof.
    unfold degree, zlen. change (getl (fn n) (h_node s')) with (mships s' (fn n)). rewrite mships_rename, map_length. reflexivity.
  Qed.

  Theorem edge_size_rename e : edge_size None s' (fe e) = edge_size None s e.
  Proof.
    unfold edge_size, zlen. change (getl (fe e) (h_edge s')) with (mems s' (fe e)). rewrite mems_rename, map_length. reflexivity.
  Qed.

  (* neighbours *)
  Lemma fold_sunion_rename (l : list lbl) : forall acc,
    fold_left (fun acc e => sunion acc (getl e (h_edge s'))) (map fe l) (map fn acc) =
    map fn (fold_left (fun acc e => sunion acc (getl e (h_edge s))) l acc).
  Proof.
    induction l as [|e l IH]; intro acc; [reflexivity|]. cbn [map fold_left].
    change (getl (fe e) (h_edge s')) with (mems s' (fe e)). rewrite mems_rename.
    rewrite (sunion_map fn Hn). apply IH.
  Qed.

  Theorem nbrs_rename v : nbrs s' (fn v) = map fn (nbrs s v).
  Proof.
    unfold nbrs, neighbors. cbn [id_dict bi_dict Z.eqb Pos.eqb].
    change (getl (fn v) (h_node s')) with (mships s' (fn v)). rewrite mships_rename.
    change (@nil lbl) with (map fn []) at 1. rewrite fold_sunion_rename.
    rewrite (sremove_map fn Hn). reflexivity.
  Qed.

  (* breadth-first search, components, distances *)
  Lemma flat_map_nbrs_rename l : flat_map (nbrs s') (map fn l) = map fn (flat_map (nbrs s) l).
  Proof.
    induction l as [|x l IH]; [reflexivity|]. cbn [map flat_map]. rewrite nbrs_rename, IH, map_app. reflexivity.
  Qed.

  Lemma bfs_rename : forall fuel frontier seen,
    bfs fuel s' (map fn frontier) (map fn seen) = map fn (bfs fuel s frontier seen).
  Proof.
    induction fuel as [|k IH]; intros frontier seen; [reflexivity|]. cbn [bfs].
    destruct frontier as [|y fr]; [reflexivity|]. cbn [map].
    change (fn y :: map fn fr) with (map fn (y :: fr)).
    rewrite (fresh_map fn Hn), flat_map_nbrs_rename, <- map_app. apply IH.
  Qed.

  Lemma fuel_rename : bfs_fuel s' = bfs_fuel s.
  Proof. unfold bfs_fuel, s', rename_hg, rename_table. cbn [h_node]. rewrite map_length. reflexivity. Qed.

  Theorem component_rename v : component s' (fn v) = map fn (component s v).
  Proof. unfold component. rewrite fuel_rename. apply (bfs_rename (bfs_fuel s) [v] []). Qed.

  Lemma bfs_levels_rename : forall fuel frontier seen d,
    bfs_levels fuel s' (map fn frontier) (map fn seen) d =
    map (fun p => (fn (fst p), snd p)) (bfs_levels fuel s frontier seen d).
  Proof.
    induction fuel as [|k IH]; intros frontier seen d; [reflexivity|]. cbn [bfs_levels].
    destruct frontier as [|y fr]; [reflexivity|]. cbn [map].
    change (fn y :: map fn fr) with (map fn (y :: fr)).
    rewrite (fresh_map fn Hn), flat_map_nbrs_rename, <- map_app, IH, map_app, !map_map. reflexivity.
  Qed.

  Lemma get_map_key {V} k (l : list (lbl * V)) : get (fn k) (map (fun p => (fn (fst p), snd p)) l) = get k l.
  Proof.
    induction l as [|[k' v] l IH]; [reflexivity|]. cbn [map get fst snd]. rewrite (lbl_eqb_inj fn Hn).
    destruct (lbl_eqb k k'); [reflexivity|exact IH].
  Qed.

  Theorem dist_rename a b : dist s' (fn a) (fn b) = dist s a b.
  Proof.
    unfold dist, levels. rewrite fuel_rename.
    pose proof (bfs_levels_rename (bfs_fuel s) [a] [] 0) as E. cbn [map] in E. rewrite E. apply get_map_key.
  Qed.

  (* matrices: identical, since the relabelling keeps the order of the tables *)
  Lemma edges_of_order_rename o :
    edges_of_order s' o = map (fun kv => (fe (fst kv), map fn (snd kv))) (edges_of_order s o).
  Proof.
    destruct o as [d|]; cbn [edges_of_order]; [|reflexivity].
    unfold s', rename_hg, rename_table. cbn [h_edge].
    induction (h_edge s) as [|kv l IH]; [reflexivity|]. cbn [map filter snd]. rewrite map_length.
    destruct (Nat.eqb (length (snd kv)) (S d)); cbn [map]; rewrite IH; reflexivity.
  Qed.

  Lemma row_rename n (E : list (lbl * list lbl)) :
    map (fun kv => b2z (mem (fn n) (snd kv))) (map (fun kv0 => (fe (fst kv0), map fn (snd kv0))) E) =
    map (fun kv => b2z (mem n (snd kv))) E.
  Proof. rewrite map_map. apply map_ext. intro kv. cbn [snd]. rewrite (mem_map fn Hn). reflexivity. Qed.

  Theorem incidence_rename o : incidence s' o = incidence s o.
  Proof.
    unfold incidence. rewrite edges_of_order_rename.
    change (keys (h_node s')) with (nkeys s'). rewrite nkeys_rename.
    change (h_node s') with (rename_table fn fe (h_node s)). unfold nkeys.
    destruct (edges_of_order s o) as [|e es]; [reflexivity|].
    destruct (h_node s) as [|kv ns]; [reflexivity|].
    cbn [rename_table map]. rewrite map_map.
    change ((fe (fst e), map fn (snd e)) :: map (fun kv0 : lbl * list lbl => (fe (fst kv0), map fn (snd kv0))) es)
      with (map (fun kv0 : lbl * list lbl => (fe (fst kv0), map fn (snd kv0))) (e :: es)).
    cbn [keys map fst]. f_equal; [exact (row_rename (fst kv) (e :: es))|].
    apply map_ext. intro n. exact (row_rename n (e :: es)).
  Qed.

  Lemma node_count_rename : length (h_node s') = length (h_node s).
  Proof. unfold s', rename_hg, rename_table. cbn [h_node]. apply map_length. Qed.

  Theorem adjacency_rename o sv w : adjacency' s' o sv w = adjacency' s o sv w.
  Proof. unfold adjacency'. rewrite incidence_rename, node_count_rename. reflexivity. Qed.

  Theorem degree_vec_rename o : degree_vec s' o = degree_vec s o.
  Proof. unfold degree_vec. rewrite incidence_rename, node_count_rename. reflexivity. Qed.

  Theorem laplacian_rename d : laplacian s' d = laplacian s d.
  Proof.
    unfold laplacian. rewrite adjacency_rename, degree_vec_rename.
    unfold s', rename_hg, rename_table. cbn [h_node]. destruct (h_node s); reflexivity.
  Qed.

  Theorem intersection_profile_rename o : intersection_profile s' o = intersection_profile s o.
  Proof.
    unfold intersection_profile. rewrite incidence_rename, edges_of_order_rename, map_length. reflexivity.
  Qed.
End Rename.

(* ---------- insertion order of nodes and edges ---------- *)
From Coq Require Import Permutation.

Lemma get_perm {V} k (d d' : odict V) : NoDup (keys d) -> Permutation d d' -> get k d = get k d'.
Proof.
  intros ND P.
  assert (ND' : NoDup (keys d')) by (apply (Permutation_NoDup (Permutation_map fst P)); exact ND).
  destruct (get k d) as [v|] eqn:G.
  - apply get_In in G. symmetry. apply In_get; [exact ND'|]. apply (Permutation_in _ P). exact G.
  - symmetry. apply get_None. intro H. apply get_None in G. apply G.
    apply (Permutation_in _ (Permutation_sym (Permutation_map fst P))). exact H.
Qed.

Section Reorder.
  Variables s s' : hg.
  Hypothesis Kn : NoDup (keys (h_node s)).
  Hypothesis Ke : NoDup (keys (h_edge s)).
  Hypothesis Pn : Permutation (h_node s) (h_node s').
  Hypothesis Pe : Permutation (h_edge s) (h_edge s').

  Lemma getl_node_reorder k : getl k (h_node s') = getl k (h_node s).
  Proof. unfold getl. rewrite (get_perm k _ _ Kn Pn). reflexivity. Qed.
  Lemma getl_edge_reorder k : getl k (h_edge s') = getl k (h_edge s).
  Proof. unfold getl. rewrite (get_perm k _ _ Ke Pe). reflexivity. Qed.

  Theorem degree_reorder n : degree None None s' n = degree None None s n.
  Proof. unfold degree. rewrite getl_node_reorder. reflexivity. Qed.
  Theorem edge_size_reorder e : edge_size None s' e = edge_size None s e.
  Proof. unfold edge_size. rewrite getl_edge_reorder. reflexivity. Qed.

  Theorem nbrs_reorder v : nbrs s' v = nbrs s v.
  Proof.
    unfold nbrs, neighbors. cbn [id_dict bi_dict Z.eqb Pos.eqb]. rewrite getl_node_reorder. f_equal.
    generalize (@nil lbl). induction (getl v (h_node s)) as [|e l IH]; intro acc; [reflexivity|].
    cbn [fold_left]. rewrite getl_edge_reorder. apply IH.
  Qed.

  Lemma flat_map_nbrs_reorder l : flat_map (nbrs s') l = flat_map (nbrs s) l.
  Proof. induction l as [|x l IH]; [reflexivity|]. cbn [flat_map]. rewrite nbrs_reorder, IH. reflexivity. Qed.

  Lemma bfs_reorder : forall fuel frontier seen, bfs fuel s' frontier seen = bfs fuel s frontier seen.
  Proof.
    induction fuel as [|k IH]; intros frontier seen; [reflexivity|]. cbn [bfs].
    destruct frontier; [reflexivity|]. rewrite flat_map_nbrs_reorder. apply IH.
  Qed.
  Lemma bfs_levels_reorder : forall fuel frontier seen d,
    bfs_levels fuel s' frontier seen d = bfs_levels fuel s frontier seen d.
  Proof.
    induction fuel as [|k IH]; intros frontier seen d; [reflexivity|]. cbn [bfs_levels].
    destruct frontier; [reflexivity|]. rewrite flat_map_nbrs_reorder, IH. reflexivity.
  Qed.
  Lemma fuel_reorder : bfs_fuel s' = bfs_fuel s.
  Proof. unfold bfs_fuel. rewrite (Permutation_length Pn). reflexivity. Qed.

  (* the component of a node and every distance do not depend on the insertion order *)
  Theorem component_reorder v : component s' v = component s v.
  Proof. unfold component. rewrite fuel_reorder. apply bfs_reorder. Qed.
  Theorem dist_reorder a b : dist s' a b = dist s a b.
  Proof. unfold dist, levels. rewrite fuel_reorder, bfs_levels_reorder. reflexivity. Qed.

  (* the number of shared edges (every adjacency entry, by labels) does not depend on it either *)
  Theorem shared_reorder a b :
    fold_left (fun acc kv => acc + b2z (mem a (snd kv)) * b2z (mem b (snd kv))) (h_edge s') 0 =
    fold_left (fun acc kv => acc + b2z (mem a (snd kv)) * b2z (mem b (snd kv))) (h_edge s) 0.
  Proof.
    assert (G : forall (f : lbl * list lbl -> Z) l l', Permutation l l' -> forall z, fold_left (fun acc kv => acc + f kv) l z = fold_left (fun acc kv => acc + f kv) l' z).
    { intros f l l' P. induction P as [|x l l' P IH|x y l|l l' l'' P1 IH1 P2 IH2]; intro z; cbn [fold_left].
      - reflexivity.
      - apply IH.
      - f_equal. lia.
      - rewrite IH1. apply IH2. }
    symmetry. apply G. exact Pe.
  Qed.
End Reorder.
