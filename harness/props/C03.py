"""C03 - simplicial complexes stay downward closed and duplicate-free."""
from itertools import combinations
from .. import common as C, histcheck as HC, scsim
from . import base, C01

PROP = "C03"
COQ_IMPORT = "Base.Label Base.Attr Base.Outcome Model.Hypergraph Model.HgCheck Model.SimplicialComplex Model.ScCheck"
PROJ = "(mkProj false false false false)"


def state_oracle(ob):
    d = C01.oracle(ob)
    if d:
        return d
    sims = [frozenset(ms) for _, ms in ob["edges"]]
    simset = set(sims)
    if len(simset) != len(sims):
        return "two simplex ids carry the same node set"
    for (e, ms) in ob["edges"]:
        if not ms:
            return f"simplex {e!r} is empty"
        for k in range(2, len(ms)):
            for f in combinations(sorted(ms, key=repr), k):
                if frozenset(f) not in simset:
                    return f"simplex {e!r} {sorted(map(repr, ms))} has the face {list(f)} which is not a simplex"
    for probe in ob.get("has_probes", []):
        if probe[0] == "error":
            return "has_simplex raised " + probe[1]
        if probe[1] != (probe[0] in simset):
            return f"has_simplex({sorted(map(repr, probe[0]))}) answered {probe[1]}"
    return None


def oracle_history(rec):
    prev = None
    for i, (op, ob) in enumerate(zip(rec["ops"], rec["obs"])):
        d = state_oracle(ob)
        if d:
            return i, d
        if prev is not None and rec["excs"][i] is None:
            before = {repr(e): frozenset(ms) for e, ms in prev["edges"]}
            after = {repr(e): frozenset(ms) for e, ms in ob["edges"]}
            if op[0] in ("remove_simplex_id", "remove_edge") and repr(op[1]) in before:
                gone = before[repr(op[1])]
                expect = {k: v for k, v in before.items() if not gone <= v}
                if expect != after:
                    return i, (f"remove_simplex_id({op[1]!r}) did not remove exactly the simplex and its supersets: "
                               f"expected ids {sorted(expect)} got {sorted(after)}")
            if op[0] in ("add_simplices_from", "add_weighted_simplices_from", "add_weighted_edges_from"):
                mo = op[3] if op[0] == "add_simplices_from" else op[2]
                if mo is not None:
                    for k, v in after.items():
                        if k not in before and len(v) > mo + 1:
                            return i, f"{op[0]}(max_order={mo}) created simplex {k} of order {len(v) - 1}"
        prev = ob
    return None


def run(v):
    C01.run(v, sim=scsim, prop=PROP, coq_import=COQ_IMPORT, proj=PROJ, oracle_history=oracle_history,
            klass="SimplicialComplex")


def replay(payload):
    return HC.replay_history(PROP, scsim, payload, COQ_IMPORT, PROJ, oracle_history)
