(* C12: what the matrices of Model/Matrix.v contain, entry by entry, for every state of the model,
   and the zero row sums of the order-d Laplacian for every state that satisfies Inv. *)
From Coq Require Import String ZArith List Bool Lia Permutation.
From XV Require Import Base.Label Base.LSet Base.ODict Base.Attr Base.Outcome Model.Hypergraph Model.Hodge Model.Matrix
     Proofs.HgViews Proofs.HgInv Proofs.HodgeProofs.
Import ListNotations.
Open Scope Z_scope.

(* ---------- indexing ---------- *)
Lemma nth_map_lt {A B} (f : A -> B) l i d d' : (i < length l)%nat -> nth i (map f l) d' = f (nth i l d).
Proof. intro H. rewrite (nth_indep _ d' (f d)) by (rewrite map_length; exact H). apply map_nth. Qed.

Lemma nth_imap {A B} (f : nat * A -> B) (l : list A) d d' :
  forall a i, (i < length l)%nat -> nth i (map f (combine (seq a (length l)) l)) d' = f ((a + i)%nat, nth i l d).
Proof.
  induction l as [|x l IH]; intros a i Hi; simpl in Hi; [lia|].
  destruct i as [|i]; simpl.
  - rewrite Nat.add_0_r. reflexivity.
  - rewrite IH by lia. f_equal. f_equal. lia.
Qed.

Lemma length_imap {A B} (f : nat * A -> B) (l : list A) a : length (map f (combine (seq a (length l)) l)) = length l.
Proof. rewrite map_length, combine_length, seq_length. lia. Qed.

Lemma fold_add_sumZ (l : list Z) : fold_left Z.add l 0 = sumZ (fun x => x) l.
Proof. reflexivity. Qed.

Lemma dot_map {A} (f g : A -> Z) (l : list A) : dot (map f l) (map g l) = sumZ (fun x => f x * g x) l.
Proof.
  unfold dot. rewrite fold_add_sumZ.
  assert (E : combine (map f l) (map g l) = map (fun x => (f x, g x)) l).
  { induction l as [|x l IH]; simpl; [reflexivity|]. rewrite IH. reflexivity. }
  rewrite E, map_map, sumZ_map. reflexivity.
Qed.

Lemma sumZ_nth {A} (f : A -> Z) (l : list A) d : sumZ (fun j => f (nth j l d)) (seq 0 (length l)) = sumZ f l.
Proof.
  induction l as [|x l IH]; [reflexivity|].
  cbn [length]. rewrite sumZ_seq_S, sumZ_cons. cbn [nth]. rewrite IH. reflexivity.
Qed.

Lemma sumZ_pick (g : nat -> Z) (a : Z) (i n : nat) :
  (i < n)%nat -> sumZ (fun j => if Nat.eqb i j then a else g j) (seq 0 n) = sumZ g (seq 0 n) + (a - g i).
Proof.
  intro Hi.
  replace n with (i + S (n - i - 1))%nat by lia.
  rewrite seq_app. cbn [seq]. rewrite !sumZ_app, !sumZ_cons.
  rewrite Nat.eqb_refl. cbn [Nat.add].
  rewrite (sumZ_ext (fun j => if Nat.eqb i j then a else g j) g (seq 0 i)).
  2:{ intros x Hx. apply in_seq in Hx. destruct (Nat.eqb_spec i x); [lia|reflexivity]. }
  rewrite (sumZ_ext (fun j => if Nat.eqb i j then a else g j) g (seq (S i) _)).
  2:{ intros x Hx. apply in_seq in Hx. destruct (Nat.eqb_spec i x); [lia|reflexivity]. }
  lia.
Qed.

Lemma nth_repeat' {A} (x : A) n i d : (i < n)%nat -> nth i (repeat x n) d = x.
Proof. revert i; induction n as [|n IH]; intros i H; [lia|]. destruct i; simpl; [reflexivity|apply IH; lia]. Qed.

(* ---------- the textbook quantities ---------- *)
Definition ind (a : lbl) (kv : lbl * list lbl) : Z := b2z (mem a (snd kv)).
(* number of edges of the order that contain a, resp. both a and b *)
Definition deg_of (s : hg) (o : option nat) (a : lbl) : Z := sumZ (ind a) (edges_of_order s o).
Definition shared (s : hg) (o : option nat) (a b : lbl) : Z := sumZ (fun kv => ind a kv * ind b kv) (edges_of_order s o).
Definition thr (sv : Z) (w : bool) (a : Z) : Z := if sv <=? a then (if w then a else 1) else 0.

Lemma ind_01 a kv : ind a kv = 0 \/ ind a kv = 1.
Proof. unfold ind, b2z. destruct (mem a (snd kv)); auto. Qed.

Lemma ind_sq a kv : ind a kv * ind a kv = ind a kv.
Proof. destruct (ind_01 a kv) as [-> | ->]; reflexivity. Qed.

Lemma sumZ_nonneg {A} (f : A -> Z) l : (forall x, 0 <= f x) -> 0 <= sumZ f l.
Proof.
  intro H. induction l as [|x l IH]; [unfold sumZ; simpl; lia|]. rewrite sumZ_cons. specialize (H x). lia.
Qed.

Lemma shared_nonneg s o a b : 0 <= shared s o a b.
Proof.
  apply sumZ_nonneg. intro kv. destruct (ind_01 a kv) as [-> | ->], (ind_01 b kv) as [-> | ->]; lia.
Qed.

Lemma shared_sym s o a b : shared s o a b = shared s o b a.
Proof. unfold shared. apply sumZ_ext. intros; lia. Qed.

Lemma shared_diag s o a : shared s o a a = deg_of s o a.
Proof. unfold shared, deg_of. apply sumZ_ext. intros; apply ind_sq. Qed.

(* shared counts the edges of the order that contain both *)
Lemma shared_count s o a b :
  shared s o a b = Z.of_nat (length (filter (fun kv => mem a (snd kv) && mem b (snd kv)) (edges_of_order s o))).
Proof.
  unfold shared. induction (edges_of_order s o) as [|kv l IH]; [reflexivity|].
  rewrite sumZ_cons, IH. unfold ind, b2z. cbn [filter].
  destruct (mem a (snd kv)), (mem b (snd kv)); cbn [andb length]; lia.
Qed.

Lemma deg_count s o a :
  deg_of s o a = Z.of_nat (length (filter (fun kv => mem a (snd kv)) (edges_of_order s o))).
Proof.
  unfold deg_of. induction (edges_of_order s o) as [|kv l IH]; [reflexivity|].
  rewrite sumZ_cons, IH. unfold ind, b2z. cbn [filter].
  destruct (mem a (snd kv)); cbn [length]; lia.
Qed.

(* ---------- incidence ---------- *)
Definition node_at (s : hg) (i : nat) : lbl := nth i (keys (h_node s)) LNone.
Definition edge_at (s : hg) (o : option nat) (j : nat) : lbl * list lbl := nth j (edges_of_order s o) (LNone, []).

Lemma length_keys {V} (d : odict V) : length (keys d) = length d.
Proof. apply map_length. Qed.

Lemma incidence_rows s o :
  edges_of_order s o <> [] -> h_node s <> [] ->
  incidence s o = map (fun n => map (ind n) (edges_of_order s o)) (keys (h_node s)).
Proof.
  intros He Hn. unfold incidence.
  destruct (edges_of_order s o) as [|e es]; [congruence|].
  destruct (h_node s) as [|kv ns]; [congruence|]. reflexivity.
Qed.

Lemma incidence_empty s o : edges_of_order s o = [] \/ h_node s = [] -> incidence s o = [].
Proof.
  unfold incidence. intros [-> | ->]; [reflexivity|]. destruct (edges_of_order s o); reflexivity.
Qed.

(* the incidence matrix has a one exactly where the i-th node is a member of the j-th edge of the order *)
Theorem incidence_entry s o i j :
  (i < length (h_node s))%nat -> (j < length (edges_of_order s o))%nat ->
  nth j (nth i (incidence s o) []) 0 = b2z (mem (node_at s i) (snd (edge_at s o j))).
Proof.
  intros Hi Hj.
  rewrite incidence_rows.
  - rewrite (nth_map_lt _ _ _ LNone) by (rewrite length_keys; exact Hi).
    rewrite (nth_map_lt _ _ _ (LNone, [])) by exact Hj. reflexivity.
  - intro E. rewrite E in Hj. simpl in Hj. lia.
  - intro E. rewrite E in Hi. simpl in Hi. lia.
Qed.

Theorem incidence_shape s o :
  edges_of_order s o <> [] -> h_node s <> [] ->
  length (incidence s o) = length (h_node s) /\
  forall r, In r (incidence s o) -> length r = length (edges_of_order s o).
Proof.
  intros He Hn. rewrite incidence_rows by assumption. split.
  - rewrite map_length. apply length_keys.
  - intros r Hr. apply in_map_iff in Hr. destruct Hr as (n & <- & _). apply map_length.
Qed.

(* ---------- adjacency ---------- *)
Lemma nth_zero_diag (m : list (list Z)) i j :
  (i < length m)%nat -> (j < length (nth i m []))%nat ->
  nth j (nth i (zero_diag m) []) 0 = if Nat.eqb i j then 0 else nth j (nth i m []) 0.
Proof.
  intros Hi Hj. unfold zero_diag.
  rewrite (nth_imap _ m [] []) by exact Hi. cbn [fst snd Nat.add].
  rewrite (nth_imap _ (nth i m []) 0 0) by exact Hj. cbn [fst snd Nat.add]. reflexivity.
Qed.

Lemma length_zero_diag m : length (zero_diag m) = length m.
Proof. unfold zero_diag. apply length_imap. Qed.

Lemma length_zero_diag_row m i : (i < length m)%nat -> length (nth i (zero_diag m) []) = length (nth i m []).
Proof.
  intro Hi. unfold zero_diag. rewrite (nth_imap _ m [] []) by exact Hi. cbn [fst snd]. apply length_imap.
Qed.

Lemma gram_entry n (M : list (list Z)) i j :
  (i < length M)%nat -> (j < length M)%nat ->
  nth j (nth i (gram n M) []) 0 = dot (nth i M []) (nth j M []).
Proof.
  intros Hi Hj. unfold gram.
  rewrite (nth_map_lt _ _ _ []) by exact Hi.
  rewrite (nth_map_lt _ _ _ []) by exact Hj. reflexivity.
Qed.

Lemma gram_row_length n (M : list (list Z)) i : (i < length M)%nat -> length (nth i (gram n M) []) = length M.
Proof. intro Hi. unfold gram. rewrite (nth_map_lt _ _ _ []) by exact Hi. apply map_length. Qed.

Lemma adjacency_nonempty s o sv w :
  edges_of_order s o <> [] -> h_node s <> [] ->
  adjacency' s o sv w = map (map (thr sv w)) (zero_diag (gram (length (h_node s)) (incidence s o))).
Proof.
  intros He Hn. unfold adjacency'.
  pose proof (incidence_shape s o He Hn) as [HL _].
  destruct (incidence s o) as [|r rs] eqn:E.
  - simpl in HL. destruct (h_node s); [congruence|discriminate].
  - reflexivity.
Qed.

Lemma adjacency_empty s o sv w :
  edges_of_order s o = [] \/ h_node s = [] -> adjacency' s o sv w = zeros (length (h_node s)) (length (h_node s)).
Proof. intro H. unfold adjacency'. rewrite (incidence_empty s o H). reflexivity. Qed.

(* A[i][j] = number of shared edges (weighted) or whether that number reaches s (unweighted), 0 on the
   diagonal, for every state, every order, every s >= 1 *)
Theorem adjacency_entry s o sv w i j :
  0 < sv -> (i < length (h_node s))%nat -> (j < length (h_node s))%nat ->
  nth j (nth i (adjacency' s o sv w) []) 0 =
  if Nat.eqb i j then 0 else thr sv w (shared s o (node_at s i) (node_at s j)).
Proof.
  intros Hs Hi Hj.
  destruct (edges_of_order s o) as [|e0 es0] eqn:Ees.
  - rewrite adjacency_empty by (left; exact Ees). unfold zeros.
    rewrite nth_repeat' by exact Hi. rewrite nth_repeat' by exact Hj.
    unfold shared. rewrite Ees. unfold thr. cbn. destruct (Nat.eqb i j); [reflexivity|].
    destruct (sv <=? 0) eqn:E; [lia|reflexivity].
  - assert (He : edges_of_order s o <> []) by (rewrite Ees; discriminate).
    assert (Hn : h_node s <> []) by (intro E; rewrite E in Hi; simpl in Hi; lia).
    rewrite adjacency_nonempty by assumption.
    pose proof (incidence_shape s o He Hn) as [HL _].
    set (M := incidence s o) in *.
    assert (HG : length (gram (length (h_node s)) M) = length (h_node s)) by (unfold gram; rewrite map_length; exact HL).
    rewrite (nth_map_lt _ _ _ []) by (rewrite length_zero_diag, HG; exact Hi).
    rewrite (nth_map_lt _ _ _ 0).
    2:{ rewrite length_zero_diag_row by (rewrite HG; exact Hi). rewrite gram_row_length by (rewrite HL; exact Hi). rewrite HL. exact Hj. }
    rewrite nth_zero_diag.
    2:{ rewrite HG; exact Hi. }
    2:{ rewrite gram_row_length by (rewrite HL; exact Hi). rewrite HL. exact Hj. }
    destruct (Nat.eqb i j) eqn:Eij.
    + unfold thr. destruct (sv <=? 0) eqn:E; [lia|reflexivity].
    + rewrite gram_entry by (rewrite HL; assumption).
      unfold M. rewrite incidence_rows by assumption.
      rewrite (nth_map_lt _ _ _ LNone) by (rewrite length_keys; exact Hi).
      rewrite (nth_map_lt _ _ _ LNone) by (rewrite length_keys; exact Hj).
      rewrite dot_map. reflexivity.
Qed.

Theorem adjacency_symmetric s o sv w i j :
  0 < sv -> (i < length (h_node s))%nat -> (j < length (h_node s))%nat ->
  nth j (nth i (adjacency' s o sv w) []) 0 = nth i (nth j (adjacency' s o sv w) []) 0.
Proof.
  intros Hs Hi Hj. rewrite !adjacency_entry by assumption.
  rewrite (Nat.eqb_sym j i). rewrite shared_sym. reflexivity.
Qed.

Theorem adjacency_shape s o sv w :
  length (adjacency' s o sv w) = length (h_node s) /\
  forall i, (i < length (h_node s))%nat -> length (nth i (adjacency' s o sv w) []) = length (h_node s).
Proof.
  destruct (edges_of_order s o) as [|e0 es0] eqn:Ees.
  - rewrite adjacency_empty by (left; exact Ees). unfold zeros. split; [apply repeat_length|].
    intros i Hi. rewrite nth_repeat' by exact Hi. apply repeat_length.
  - destruct (h_node s) as [|n0 ns0] eqn:En.
    + rewrite adjacency_empty by (right; exact En). rewrite En. split; [reflexivity|]. simpl; intros; lia.
    + assert (He : edges_of_order s o <> []) by (rewrite Ees; discriminate).
      assert (Hn : h_node s <> []) by (rewrite En; discriminate).
      rewrite <- En. rewrite adjacency_nonempty by assumption.
      pose proof (incidence_shape s o He Hn) as [HL _].
      assert (HG : length (gram (length (h_node s)) (incidence s o)) = length (h_node s)) by (unfold gram; rewrite map_length; exact HL).
      split.
      * rewrite map_length, length_zero_diag. exact HG.
      * intros i Hi. rewrite (nth_map_lt _ _ _ []) by (rewrite length_zero_diag, HG; exact Hi).
        rewrite map_length, length_zero_diag_row by (rewrite HG; exact Hi).
        rewrite gram_row_length by (rewrite HL; exact Hi). exact HL.
Qed.

(* ---------- degree vector ---------- *)
Theorem degree_entry s o i :
  (i < length (h_node s))%nat -> nth i (degree_vec s o) 0 = deg_of s o (node_at s i).
Proof.
  intro Hi. unfold degree_vec.
  destruct (edges_of_order s o) as [|e0 es0] eqn:Ees.
  - rewrite incidence_empty by (left; exact Ees). rewrite nth_repeat' by exact Hi.
    unfold deg_of. rewrite Ees. reflexivity.
  - assert (He : edges_of_order s o <> []) by (rewrite Ees; discriminate).
    assert (Hn : h_node s <> []) by (intro E; rewrite E in Hi; simpl in Hi; lia).
    pose proof (incidence_shape s o He Hn) as [HL _].
    destruct (incidence s o) as [|r rs] eqn:EI.
    { simpl in HL. lia. }
    rewrite <- EI in HL |- *. rewrite (nth_map_lt _ _ _ []) by (rewrite HL; exact Hi).
    rewrite incidence_rows by assumption.
    rewrite (nth_map_lt _ _ _ LNone) by (rewrite length_keys; exact Hi).
    rewrite fold_add_sumZ, sumZ_map. unfold deg_of. rewrite Ees. reflexivity.
Qed.

Lemma degree_length s o : length (degree_vec s o) = length (h_node s).
Proof.
  unfold degree_vec.
  destruct (edges_of_order s o) as [|e0 es0] eqn:Ees.
  - rewrite incidence_empty by (left; exact Ees). apply repeat_length.
  - destruct (h_node s) as [|n0 ns0] eqn:En.
    + rewrite incidence_empty by (right; exact En). reflexivity.
    + assert (He : edges_of_order s o <> []) by (rewrite Ees; discriminate).
      assert (Hn : h_node s <> []) by (rewrite En; discriminate).
      pose proof (incidence_shape s o He Hn) as [HL _].
      destruct (incidence s o) as [|r rs] eqn:EI; [simpl in HL; rewrite En in HL; discriminate|].
      rewrite map_length. rewrite HL, En. reflexivity.
Qed.

(* ---------- Laplacian ---------- *)
Lemma nth_diag v i j : (i < length v)%nat -> (j < length v)%nat ->
  nth j (nth i (diag v) []) 0 = if Nat.eqb i j then nth i v 0 else 0.
Proof.
  intros Hi Hj. unfold diag.
  rewrite (nth_imap _ v 0 []) by exact Hi. cbn [fst snd Nat.add].
  rewrite (nth_map_lt _ _ _ O) by (rewrite seq_length; exact Hj).
  rewrite seq_nth by exact Hj. reflexivity.
Qed.

Lemma length_diag v : length (diag v) = length v.
Proof. unfold diag. apply length_imap. Qed.
Lemma length_diag_row v i : (i < length v)%nat -> length (nth i (diag v) []) = length v.
Proof.
  intro Hi. unfold diag. rewrite (nth_imap _ v 0 []) by exact Hi. rewrite map_length. apply seq_length.
Qed.

Theorem laplacian_entry s d i j :
  (i < length (h_node s))%nat -> (j < length (h_node s))%nat ->
  nth j (nth i (laplacian s d) []) 0 =
  if Nat.eqb i j then Z.of_nat d * deg_of s (Some d) (node_at s i)
  else - shared s (Some d) (node_at s i) (node_at s j).
Proof.
  intros Hi Hj. unfold laplacian.
  destruct (h_node s) as [|n0 ns0] eqn:En; [simpl in Hi; lia|]. rewrite <- En in *.
  pose proof (adjacency_shape s (Some d) 1 true) as [HA HAr].
  pose proof (degree_length s (Some d)) as HK.
  set (A := adjacency' s (Some d) 1 true) in *.
  set (K := diag (degree_vec s (Some d))).
  assert (HKl : length K = length (h_node s)) by (unfold K; rewrite length_diag; exact HK).
  rewrite (nth_map_lt _ _ _ ([], [])) by (rewrite combine_length, HKl, HA; lia).
  rewrite combine_nth by (rewrite HKl, HA; reflexivity). cbn [fst snd].
  assert (HKr : length (nth i K []) = length (h_node s)).
  { unfold K. rewrite length_diag_row by (rewrite HK; exact Hi). exact HK. }
  rewrite (nth_map_lt _ _ _ (0, 0)) by (rewrite combine_length, HKr, HAr by exact Hi; lia).
  rewrite combine_nth by (rewrite HKr, HAr by exact Hi; reflexivity). cbn [fst snd].
  unfold K. rewrite nth_diag by (rewrite HK; assumption).
  unfold A. rewrite adjacency_entry by (try lia; assumption).
  destruct (Nat.eqb i j).
  - rewrite degree_entry by exact Hi. lia.
  - unfold thr. pose proof (shared_nonneg s (Some d) (node_at s i) (node_at s j)) as Hp.
    destruct (1 <=? shared s (Some d) (node_at s i) (node_at s j)) eqn:E; lia.
Qed.

Theorem laplacian_symmetric s d i j :
  (i < length (h_node s))%nat -> (j < length (h_node s))%nat ->
  nth j (nth i (laplacian s d) []) 0 = nth i (nth j (laplacian s d) []) 0.
Proof.
  intros Hi Hj. rewrite !laplacian_entry by assumption.
  rewrite (Nat.eqb_sym j i). destruct (Nat.eqb_spec i j) as [->|N]; [reflexivity|].
  rewrite shared_sym. reflexivity.
Qed.

Lemma laplacian_row_length s d i :
  (i < length (h_node s))%nat -> length (nth i (laplacian s d) []) = length (h_node s).
Proof.
  intro Hi. unfold laplacian.
  destruct (h_node s) as [|n0 ns0] eqn:En; [simpl in Hi; lia|]. rewrite <- En in *.
  pose proof (adjacency_shape s (Some d) 1 true) as [HA HAr].
  pose proof (degree_length s (Some d)) as HK.
  rewrite (nth_map_lt _ _ _ ([], [])) by (rewrite combine_length, length_diag, HK, HA; lia).
  rewrite combine_nth by (rewrite length_diag, HK, HA; reflexivity). cbn [fst snd].
  rewrite map_length, combine_length, length_diag_row by (rewrite HK; exact Hi).
  rewrite HK, HAr by exact Hi. lia.
Qed.

(* counting: the number of nodes that are members of e is |e| when e is a duplicate-free set of nodes *)
Lemma count_members (ns e : list lbl) :
  NoDup ns -> NoDup e -> incl e ns -> sumZ (fun b => b2z (mem b e)) ns = Z.of_nat (length e).
Proof.
  intros Hn He Hi.
  assert (E : sumZ (fun b => b2z (mem b e)) ns = Z.of_nat (length (filter (fun b => mem b e) ns))).
  { clear. induction ns as [|x l IH]; [reflexivity|]. rewrite sumZ_cons, IH. cbn [filter].
    destruct (mem x e); cbn [b2z length]; lia. }
  rewrite E. f_equal. apply Permutation_length. apply NoDup_Permutation.
  - apply NoDup_filter. exact Hn.
  - exact He.
  - intro x. rewrite filter_In, mem_In. split; [tauto|]. intro H. split; [apply Hi; exact H|exact H].
Qed.

Definition Wellformed (s : hg) : Prop :=
  NoDup (keys (h_node s)) /\
  forall kv, In kv (h_edge s) -> NoDup (snd kv) /\ incl (snd kv) (keys (h_node s)).

Lemma Inv_Wellformed s : Inv s -> Wellformed s.
Proof.
  intros (HW & (_ & _ & Kn & Ke) & (_ & Vm) & _). split; [exact Kn|].
  intros [e ms] Hin. cbn [snd].
  assert (Em : mems s e = ms).
  { unfold mems, getl. rewrite (In_get _ _ _ Ke Hin). reflexivity. }
  split.
  - rewrite <- Em. apply Vm.
  - intros n Hn. rewrite <- Em in Hn. apply HW in Hn.
    apply (getl_nonempty_key n (h_node s) e). exact Hn.
Qed.

(* every row of the order-d Laplacian sums to zero *)
Theorem laplacian_row_sum s d i :
  Wellformed s -> (i < length (h_node s))%nat ->
  fold_left Z.add (nth i (laplacian s d) []) 0 = 0.
Proof.
  intros [Hnd Hwf] Hi.
  set (n := length (h_node s)).
  set (a := node_at s i).
  assert (Erow : nth i (laplacian s d) [] =
                 map (fun j => if Nat.eqb i j then Z.of_nat d * deg_of s (Some d) a
                               else - shared s (Some d) a (node_at s j)) (seq 0 n)).
  { apply (nth_ext _ _ 0 0).
    - rewrite laplacian_row_length by exact Hi. rewrite map_length, seq_length. reflexivity.
    - intros j Hj. rewrite laplacian_row_length in Hj by exact Hi.
      rewrite laplacian_entry by assumption.
      rewrite (nth_map_lt _ _ _ O) by (rewrite seq_length; exact Hj).
      rewrite seq_nth by exact Hj. reflexivity. }
  rewrite Erow, fold_add_sumZ, sumZ_map.
  rewrite (sumZ_pick (fun j => - shared s (Some d) a (node_at s j))) by exact Hi.
  fold a. rewrite shared_diag.
  assert (Esum : sumZ (fun j => - shared s (Some d) a (node_at s j)) (seq 0 n) =
                 - (Z.of_nat (S d) * deg_of s (Some d) a)).
  { unfold n. rewrite <- (length_keys (h_node s)).
    unfold node_at. rewrite (sumZ_nth (fun b => - shared s (Some d) a b) (keys (h_node s)) LNone).
    rewrite (sumZ_ext _ (fun b => (-1) * shared s (Some d) a b)) by (intros; lia).
    rewrite sumZ_scale. unfold shared.
    rewrite sumZ_swap.
    rewrite (sumZ_ext _ (fun kv => Z.of_nat (S d) * ind a kv)).
    - rewrite sumZ_scale. unfold deg_of. lia.
    - intros kv Hkv. cbn [edges_of_order] in Hkv. apply filter_In in Hkv. destruct Hkv as [Hin Hlen].
      apply Nat.eqb_eq in Hlen.
      rewrite (sumZ_ext _ (fun b => ind a kv * b2z (mem b (snd kv)))) by (intros; reflexivity).
      rewrite sumZ_scale. destruct (Hwf kv Hin) as [H1 H2].
      rewrite (count_members _ _ Hnd H1 H2). rewrite Hlen. lia. }
  rewrite Esum. lia.
Qed.

(* ---------- positive semidefiniteness of the order-d Laplacian ----------
   x^T L x = sum over the edges of the order of sum_{a<b in e} (x_a - x_b)^2; we prove the equivalent
   statement  x^T L x = sum_e ( |e| * sum_{a in e} x_a^2 - (sum_{a in e} x_a)^2 )  and that each summand
   is non-negative (Cauchy-Schwarz on a duplicate-free member list). *)
Lemma sumZ_sq_cs {A} (f : A -> Z) (l : list A) :
  (sumZ f l) * (sumZ f l) <= Z.of_nat (length l) * sumZ (fun x => f x * f x) l.
Proof.
  induction l as [|x l IH]; [unfold sumZ; simpl; lia|].
  rewrite !sumZ_cons. cbn [length]. rewrite Nat2Z.inj_succ.
  assert (H2 : 2 * f x * sumZ f l <= Z.of_nat (length l) * (f x * f x) + sumZ (fun y => f y * f y) l).
  { clear IH. induction l as [|y l IH2]; [unfold sumZ; simpl; lia|].
    rewrite !sumZ_cons. cbn [length]. rewrite Nat2Z.inj_succ.
    assert (0 <= (f x - f y) * (f x - f y)) by apply Z.square_nonneg. nia. }
  nia.
Qed.

Lemma sumZ_mul_r {A} (f : A -> Z) l c : sumZ f l * c = sumZ (fun x => f x * c) l.
Proof. rewrite Z.mul_comm, <- sumZ_scale. apply sumZ_ext. intros; lia. Qed.

Lemma sumZ_prod {A B} (f : A -> Z) (g : B -> Z) l l' :
  sumZ f l * sumZ g l' = sumZ (fun a => sumZ (fun b => f a * g b) l') l.
Proof.
  rewrite sumZ_mul_r. apply sumZ_ext. intros a _. rewrite sumZ_scale. reflexivity.
Qed.

Lemma sumZ_nonneg_in {A} (f : A -> Z) l : (forall x, In x l -> 0 <= f x) -> 0 <= sumZ f l.
Proof.
  intro H. induction l as [|x l IH]; [unfold sumZ; simpl; lia|]. rewrite sumZ_cons.
  assert (0 <= f x) by (apply H; left; reflexivity).
  assert (0 <= sumZ f l) by (apply IH; intros y Hy; apply H; right; exact Hy). lia.
Qed.

Lemma sumZ_minus {A} (f g : A -> Z) l : sumZ (fun x => f x - g x) l = sumZ f l - sumZ g l.
Proof. induction l as [|x l IH]; [reflexivity|]. rewrite !sumZ_cons, IH. lia. Qed.

Lemma sumZ_filter (f : lbl -> Z) (p : lbl -> bool) l : sumZ (fun a => b2z (p a) * f a) l = sumZ f (filter p l).
Proof.
  induction l as [|x l IH]; [reflexivity|]. rewrite sumZ_cons, IH. cbn [filter].
  destruct (p x); cbn [b2z]; [rewrite sumZ_cons|]; lia.
Qed.

Lemma cs_members (ns e : list lbl) (x : lbl -> Z) :
  NoDup ns -> NoDup e -> incl e ns ->
  sumZ (fun a => b2z (mem a e) * x a) ns * sumZ (fun a => b2z (mem a e) * x a) ns
  <= Z.of_nat (length e) * sumZ (fun a => b2z (mem a e) * (x a * x a)) ns.
Proof.
  intros Hn He Hi.
  rewrite (sumZ_filter x (fun a => mem a e)), (sumZ_filter (fun a => x a * x a) (fun a => mem a e)).
  assert (EL : length (filter (fun a => mem a e) ns) = length e).
  { apply Permutation_length. apply NoDup_Permutation.
    - apply NoDup_filter. exact Hn.
    - exact He.
    - intro y. rewrite filter_In, mem_In. split; [tauto|]. intro H. split; [apply Hi; exact H|exact H]. }
  rewrite <- EL. apply sumZ_sq_cs.
Qed.

(* the quadratic form of a matrix indexed by the node list, on a function of the node labels *)
Definition qform (L : list (list Z)) (ns : list lbl) (x : lbl -> Z) : Z :=
  sumZ (fun i => x (nth i ns LNone) *
                 sumZ (fun j => nth j (nth i L []) 0 * x (nth j ns LNone)) (seq 0 (length ns)))
       (seq 0 (length ns)).

Lemma qform_laplacian s d x :
  qform (laplacian s d) (keys (h_node s)) x =
  sumZ (fun a => x a * (Z.of_nat (S d) * deg_of s (Some d) a * x a
                        - sumZ (fun b => shared s (Some d) a b * x b) (keys (h_node s)))) (keys (h_node s)).
Proof.
  unfold qform. set (ns := keys (h_node s)).
  assert (Hlen : length ns = length (h_node s)) by apply length_keys.
  rewrite <- (sumZ_nth (fun a => x a * (Z.of_nat (S d) * deg_of s (Some d) a * x a
                        - sumZ (fun b => shared s (Some d) a b * x b) ns)) ns LNone).
  apply sumZ_ext. intros i Hi. apply in_seq in Hi. f_equal.
  rewrite (sumZ_ext _ (fun j => if Nat.eqb i j
                                then Z.of_nat d * deg_of s (Some d) (nth i ns LNone) * x (nth i ns LNone)
                                else - shared s (Some d) (nth i ns LNone) (nth j ns LNone) * x (nth j ns LNone))).
  2:{ intros j Hj. apply in_seq in Hj. rewrite laplacian_entry by lia. unfold node_at. fold ns.
      destruct (Nat.eqb_spec i j) as [->|N]; reflexivity. }
  rewrite (sumZ_pick (fun j => - shared s (Some d) (nth i ns LNone) (nth j ns LNone) * x (nth j ns LNone))) by lia.
  rewrite (sumZ_nth (fun b => - shared s (Some d) (nth i ns LNone) b * x b) ns LNone).
  rewrite shared_diag.
  rewrite (sumZ_ext (fun b => - shared s (Some d) (nth i ns LNone) b * x b)
                    (fun b => (-1) * (shared s (Some d) (nth i ns LNone) b * x b))) by (intros; lia).
  rewrite sumZ_scale. rewrite Nat2Z.inj_succ. lia.
Qed.

Theorem laplacian_psd s d (x : lbl -> Z) :
  Wellformed s -> 0 <= qform (laplacian s d) (keys (h_node s)) x.
Proof.
  intros [Hnd Hwf]. rewrite qform_laplacian.
  set (ns := keys (h_node s)). set (es := edges_of_order s (Some d)).
  set (P := fun kv => sumZ (fun a => ind a kv * x a) ns).
  set (S2 := fun kv => sumZ (fun a => ind a kv * (x a * x a)) ns).
  (* claim A *)
  assert (HA : sumZ (fun a => deg_of s (Some d) a * (x a * x a)) ns = sumZ S2 es).
  { unfold deg_of. fold es.
    rewrite (sumZ_ext _ (fun a => sumZ (fun kv => ind a kv * (x a * x a)) es)) by (intros; apply sumZ_mul_r).
    rewrite sumZ_swap. reflexivity. }
  (* claim B *)
  assert (HB : sumZ (fun a => x a * sumZ (fun b => shared s (Some d) a b * x b) ns) ns = sumZ (fun kv => P kv * P kv) es).
  { unfold P.
    rewrite (sumZ_ext (fun kv => _ * _) (fun kv => sumZ (fun a => sumZ (fun b => (ind a kv * x a) * (ind b kv * x b)) ns) ns))
      by (intros; apply sumZ_prod).
    rewrite (sumZ_swap (fun kv a => sumZ (fun b => ind a kv * x a * (ind b kv * x b)) ns) es ns).
    apply sumZ_ext. intros a _.
    rewrite (sumZ_swap (fun kv b => ind a kv * x a * (ind b kv * x b)) es ns).
    rewrite <- sumZ_scale. apply sumZ_ext. intros b _.
    unfold shared. fold es. rewrite sumZ_mul_r, <- sumZ_scale. apply sumZ_ext. intros kv _. ring. }
  rewrite (sumZ_ext _ (fun a => Z.of_nat (S d) * (deg_of s (Some d) a * (x a * x a))
                                - x a * sumZ (fun b => shared s (Some d) a b * x b) ns)) by (intros; ring).
  rewrite sumZ_minus, sumZ_scale, HA, HB, <- sumZ_scale, <- sumZ_minus.
  apply sumZ_nonneg_in. intros kv Hkv. unfold es in Hkv. cbn [edges_of_order] in Hkv.
  apply filter_In in Hkv. destruct Hkv as [Hin Hlen]. apply Nat.eqb_eq in Hlen.
  destruct (Hwf kv Hin) as [H1 H2].
  pose proof (cs_members ns (snd kv) x Hnd H1 H2) as Hcs. rewrite Hlen in Hcs.
  unfold P, S2, ind. lia.
Qed.
