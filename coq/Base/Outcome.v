(* How a call ends: normally, or with an exception class (the small enum the harness maps to). *)
From Coq Require Import Bool.
Inductive exc : Type :=
| XGIError | IDNotFound | TypeError | ValueError | KeyError | IndexError | AttributeError | OtherError.

Inductive outcome : Type := Ok | Raised (e : exc).

Definition exc_eqb (a b : exc) : bool :=
  match a, b with
  | XGIError, XGIError | IDNotFound, IDNotFound | TypeError, TypeError | ValueError, ValueError
  | KeyError, KeyError | IndexError, IndexError | AttributeError, AttributeError
  | OtherError, OtherError => true
  | _, _ => false
  end.

Definition outcome_eqb (a b : outcome) : bool :=
  match a, b with
  | Ok, Ok => true
  | Raised x, Raised y => exc_eqb x y
  | _, _ => false
  end.

(* IDNotFound is a subclass of XGIError: "the library's own error type" *)
Definition is_library_error (o : outcome) : bool :=
  match o with Raised XGIError | Raised IDNotFound => true | _ => false end.
