(* C03: the invariant of simplicial complexes (Inv + downward closed + no repeated simplex +
   no empty simplex) and its preservation by every op of Model/SimplicialComplex.v. *)
From Coq Require Import String ZArith List Bool Lia.
From XV Require Import Base.Label Base.LSet Base.ODict Base.Attr Base.Outcome Model.Hypergraph
  Model.SimplicialComplex Proofs.HgViews Proofs.HgInv Proofs.HgInvOps Proofs.HgKeys Proofs.Combs
  Proofs.ScTables.
Import ListNotations.
Open Scope Z_scope.

Definition Sx (s : hg) (e : lbl) (m : list lbl) : Prop := get e (h_edge s) = Some m.
Definition HasS (s : hg) (f : list lbl) : Prop := exists e m, Sx s e m /\ seteq f m.
(* a sub-face with at least two nodes *)
Definition Face (f m : list lbl) : Prop := NoDup f /\ (forall x, In x f -> In x m) /\ (2 <= length f)%nat.
Definition Closed (s : hg) : Prop := forall e m f, Sx s e m -> Face f m -> HasS s f.
Definition Unique (s : hg) : Prop := forall e1 e2 m1 m2, Sx s e1 m1 -> Sx s e2 m2 -> seteq m1 m2 -> e1 = e2.
Definition Nonempty (s : hg) : Prop := forall e m, Sx s e m -> m <> [].
Definition SInv (s : hg) : Prop := Inv s /\ Closed s /\ Unique s /\ Nonempty s.

Lemma seteq_refl a : seteq a a. Proof. intro; tauto. Qed.
Lemma seteq_sym a b : seteq a b -> seteq b a. Proof. intros H x. symmetry. apply H. Qed.
Lemma seteq_trans a b c : seteq a b -> seteq b c -> seteq a c.
Proof. intros H1 H2 x. rewrite (H1 x). apply H2. Qed.

Lemma set_eqb_spec a b : set_eqb a b = true <-> seteq a b. Proof. apply seteqb_spec. Qed.

Lemma has_simplex_spec s f : NoDup (keys (h_edge s)) -> (has_simplex s f = true <-> HasS s f).
Proof.
  intro ND. unfold has_simplex. rewrite existsb_exists. split.
  - intros ([e m] & Hi & Hs). exists e, m. split; [apply In_get; assumption|]. apply set_eqb_spec. exact Hs.
  - intros (e & m & Hx & Hs). exists (e, m). split; [apply get_In; exact Hx|]. apply set_eqb_spec. exact Hs.
Qed.

Lemma has_simplex_false s f : NoDup (keys (h_edge s)) -> has_simplex s f = false -> ~ HasS s f.
Proof. intros ND H Hs. apply (has_simplex_spec s f ND) in Hs. congruence. Qed.

Lemma HasS_seteq s f g : seteq f g -> HasS s g -> HasS s f.
Proof. intros H (e & m & Hx & Hs). exists e, m. split; [exact Hx|]. eapply seteq_trans; eassumption. Qed.

Lemma SInv_empty : SInv hg_empty.
Proof.
  split; [apply Inv_empty|]. split; [|split]; intros e; intros; discriminate.
Qed.

(* ---------- mem_set / dedup_sets / order_faces ---------- *)

Lemma mem_set_spec f l : mem_set f l = true <-> exists g, In g l /\ seteq f g.
Proof.
  unfold mem_set. rewrite existsb_exists. split; intros (g & Hi & Hs); exists g; (split; [exact Hi|]);
    apply set_eqb_spec; exact Hs.
Qed.

Lemma dedup_sets_sub l g : In g (dedup_sets l) -> In g l.
Proof.
  induction l as [|a l IH]; simpl; [tauto|]. destruct (mem_set a l); [auto|].
  intros [->|H]; auto.
Qed.

Lemma dedup_sets_rep l : forall g, In g l -> exists r, In r (dedup_sets l) /\ seteq g r.
Proof.
  induction l as [|a l IH]; intro g; simpl; [tauto|]. intros [->|H].
  - destruct (mem_set g l) eqn:M.
    + apply mem_set_spec in M. destruct M as (g' & Hi & Hs). destruct (IH g' Hi) as (r & Hr & Hs').
      exists r. split; [exact Hr|]. eapply seteq_trans; eassumption.
    + exists g. split; [left; reflexivity|apply seteq_refl].
  - destruct (IH g H) as (r & Hr & Hs). exists r. split; [|exact Hs].
    destruct (mem_set a l); [exact Hr|right; exact Hr].
Qed.

Lemma order_faces_sound req hint l : In l (order_faces req hint) -> exists g, In g req /\ seteq l g.
Proof.
  unfold order_faces. rewrite in_app_iff, !filter_In. intros [[_ H]|[H _]].
  - apply mem_set_spec in H. destruct H as (g & Hi & Hs). exists g. split; [apply dedup_sets_sub; exact Hi|exact Hs].
  - exists l. split; [apply dedup_sets_sub; exact H|apply seteq_refl].
Qed.

Lemma order_faces_complete req hint g : In g req -> exists l, In l (order_faces req hint) /\ seteq g l.
Proof.
  intro Hg. destruct (dedup_sets_rep req g Hg) as (r & Hr & Hs).
  unfold order_faces. destruct (mem_set r hint) eqn:M.
  - apply mem_set_spec in M. destruct M as (h & Hh & Hs2).
    destruct (dedup_sets_rep hint h Hh) as (h' & Hh' & Hs3).
    exists h'. split.
    + apply in_app_iff. left. apply filter_In. split; [exact Hh'|].
      apply mem_set_spec. exists r. split; [exact Hr|].
      apply seteq_sym. eapply seteq_trans; [exact Hs2|exact Hs3].
    + eapply seteq_trans; [exact Hs|]. eapply seteq_trans; [exact Hs2|exact Hs3].
  - exists r. split; [|exact Hs]. apply in_app_iff. right. apply filter_In. split; [exact Hr|].
    rewrite M. reflexivity.
Qed.

Lemma order_by_seteq nh f : seteq (order_by nh f) f.
Proof.
  intro x. unfold order_by. rewrite in_app_iff, !filter_In, negb_true_iff, mem_In, mem_nIn.
  destruct (in_dec lbl_eq_dec x nh); tauto.
Qed.

(* ---------- faces of a raw member list ---------- *)

Lemma sizes_down_In k n : In n (sizes_down k) <-> (2 <= n <= k)%nat.
Proof.
  induction k as [|k IH]; simpl; [lia|].
  destruct k as [|k']; simpl in *; [lia|].
  rewrite IH. lia.
Qed.

Lemma Face_length_le f m : Face f m -> (length f <= length m)%nat.
Proof. intros (ND & Hs & _). apply NoDup_incl_length; assumption. Qed.

Lemma strict_face_lt f m : NoDup f -> (forall x, In x f -> In x m) -> ~ seteq f m -> (length f < length m)%nat.
Proof.
  intros ND Hs Hne. destruct (le_lt_dec (length m) (length f)) as [L|L]; [|exact L].
  exfalso. apply Hne. intro x. split; [apply Hs|].
  apply (NoDup_length_incl ND L). exact Hs.
Qed.

Lemma face_in_combs ms f sizes :
  NoDup f -> (forall x, In x f -> In x ms) -> In (length f) sizes ->
  exists c, In c (flat_map (fun k => combs ms k) sizes) /\ seteq f c.
Proof.
  intros ND Hs Hk. destruct (combs_complete ms f ND Hs) as (c & Hc & Sc).
  exists c. split; [|apply seteq_sym; exact Sc]. apply in_flat_map. exists (length f). split; assumption.
Qed.

Lemma subfaces_sound ms g : In g (subfaces ms) -> (forall x, In x g -> In x ms) /\ (2 <= length g <= length ms - 1)%nat.
Proof.
  unfold subfaces. rewrite in_flat_map. intros (k & Hk & Hg). apply sizes_down_In in Hk.
  destruct (combs_sound ms k g Hg) as [L S]. split; [exact S|lia].
Qed.

Lemma powerset_upto_sound ms b g : In g (powerset_upto ms b) ->
  (forall x, In x g -> In x ms) /\ (2 <= length g <= Nat.min b (length ms))%nat.
Proof.
  unfold powerset_upto. rewrite in_flat_map. intros (k & Hk & Hg). apply in_seq in Hk.
  destruct (combs_sound ms k g Hg) as [L S]. split; [exact S|lia].
Qed.

Definition InF (F : list (list lbl)) (f : list lbl) : Prop := exists g, In g F /\ seteq f g.

Lemma InF_app_l F G f : InF F f -> InF (F ++ G) f.
Proof. intros (g & Hi & Hs). exists g. split; [apply in_app_iff; left; exact Hi|exact Hs]. Qed.
Lemma InF_app_r F G f : InF G f -> InF (F ++ G) f.
Proof. intros (g & Hi & Hs). exists g. split; [apply in_app_iff; right; exact Hi|exact Hs]. Qed.

(* proper sub-faces of ms are (as sets) among subfaces ms *)
Lemma proper_face_in_subfaces ms f :
  NoDup f -> (forall x, In x f -> In x ms) -> (2 <= length f <= length ms - 1)%nat -> InF (subfaces ms) f.
Proof.
  intros ND Hs L. destruct (face_in_combs ms f (sizes_down (length ms - 1)) ND Hs) as (c & Hc & Sc).
  - apply sizes_down_In. exact L.
  - exists c. split; assumption.
Qed.

Lemma face_in_powerset_upto ms b f :
  NoDup f -> (forall x, In x f -> In x ms) -> (2 <= length f <= Nat.min b (length ms))%nat ->
  InF (powerset_upto ms b) f.
Proof.
  intros ND Hs L. destruct (face_in_combs ms f (seq 2 (Nat.min b (length ms) - 1)) ND Hs) as (c & Hc & Sc).
  - apply in_seq. lia.
  - exists c. split; assumption.
Qed.

(* ---------- adding a simplex under a fresh id ---------- *)

(* s' extends s by the simplex M under the id e *)
Definition Ext (s s' : hg) (e : lbl) (M : list lbl) : Prop :=
  get e (h_edge s) = None /\
  forall e', get e' (h_edge s') = if lbl_eqb e' e then Some M else get e' (h_edge s).

Lemma Ext_Sx s s' e M e' m : Ext s s' e M -> (Sx s' e' m <-> (e' = e /\ m = M) \/ (e' <> e /\ Sx s e' m)).
Proof.
  intros [_ G]. unfold Sx. rewrite G. destruct (lbl_eqb_spec e' e) as [->|N].
  - split; [intro H; left; split; congruence|]. intros [[_ ->]|[N _]]; [reflexivity|contradiction].
  - split; [intro H; right; split; assumption|]. intros [[E _]|[_ H]]; [contradiction|exact H].
Qed.

Lemma Ext_HasS_old s s' e M f : Ext s s' e M -> HasS s f -> HasS s' f.
Proof.
  intros X (e' & m & Hx & Hs). exists e', m. split; [|exact Hs].
  apply (Ext_Sx s s' e M e' m X). right. split; [|exact Hx].
  intro; subst. destruct X as [N _]. unfold Sx in Hx. congruence.
Qed.

Lemma Ext_HasS_new s s' e M f : Ext s s' e M -> seteq f M -> HasS s' f.
Proof.
  intros X Hs. exists e, M. split; [|exact Hs]. apply (Ext_Sx s s' e M e M X). left. split; reflexivity.
Qed.

Lemma Ext_Unique s s' e M : Ext s s' e M -> Unique s -> ~ HasS s M -> Unique s'.
Proof.
  intros X U Hn e1 e2 m1 m2 H1 H2 Hs.
  apply (Ext_Sx s s' e M e1 m1 X) in H1. apply (Ext_Sx s s' e M e2 m2 X) in H2.
  destruct H1 as [[-> ->]|[N1 H1]]; destruct H2 as [[-> ->]|[N2 H2]].
  - reflexivity.
  - exfalso. apply Hn. exists e2, m2. split; assumption.
  - exfalso. apply Hn. exists e1, m1. split; [assumption|apply seteq_sym; exact Hs].
  - apply (U e1 e2 m1 m2); assumption.
Qed.

Lemma Ext_Nonempty s s' e M : Ext s s' e M -> Nonempty s -> M <> [] -> Nonempty s'.
Proof.
  intros X N HM e' m Hx. apply (Ext_Sx s s' e M e' m X) in Hx.
  destruct Hx as [[_ ->]|[_ Hx]]; [exact HM|apply (N e' m Hx)].
Qed.

(* insert_edge under a fresh id is an extension by a set equal to the given members *)
Lemma insert_edge_Ext e ms a s :
  ~ In e (ekeys s) ->
  exists M, seteq M ms /\ NoDup M /\ Ext s (insert_edge e ms a s) e M.
Proof.
  intro Hne. destruct (insert_edge_get e ms a s) as (M & A & B & C).
  exists M. split; [exact A|]. split; [exact B|]. split; [apply get_None; exact Hne|exact C].
Qed.

Lemma Ext_same_edges s s' s'' e M : Ext s s' e M -> h_edge s'' = h_edge s' -> Ext s s'' e M.
Proof. intros [A B] E. split; [exact A|]. intro e'. rewrite E. apply B. Qed.

(* ---------- pre-closed states: what is still owed is listed in F ---------- *)

Definition PreClosed (s : hg) (F : list (list lbl)) : Prop :=
  (forall e m f, Sx s e m -> Face f m -> HasS s f \/ InF F f) /\
  (forall g f, In g F -> Face f g -> HasS s f \/ InF F f).

Lemma Closed_PreClosed s : Closed s -> PreClosed s [].
Proof. intro C. split; [intros e m f Hx Hf; left; apply (C e m f Hx Hf)|intros g f []]. Qed.

Lemma Face_seteq f m m' : (forall x, In x m -> In x m') -> Face f m -> Face f m'.
Proof. intros H (A & B & C). split; [exact A|]. split; [intros x Hx; apply H; apply B; exact Hx|exact C]. Qed.

Lemma Face_nonempty f m : Face f m -> f <> [].
Proof. intros (_ & _ & L) E. subst. simpl in L. lia. Qed.

Lemma seteq_nonempty f g : seteq f g -> f <> [] -> g <> [].
Proof.
  intros H N E. subst. destruct f as [|x f]; [contradiction|]. apply (H x). left; reflexivity.
Qed.

(* the state after _add_face(g) for g owed by F *)
Lemma add_face_step nh s F g :
  Inv s -> Unique s -> Nonempty s -> PreClosed s F -> InF F g ->
  let s' := add_face nh s g in
  Inv s' /\ Unique s' /\ Nonempty s' /\ PreClosed s' F /\
  (forall h, HasS s h -> HasS s' h) /\ (g <> [] -> HasS s' g).
Proof.
  intros I U N (P1 & P2) HF. cbv zeta. unfold add_face.
  destruct g as [|x g']; [split; [exact I|]; split; [exact U|]; split; [exact N|]; split; [split; assumption|];
                           split; [auto|intro H; contradiction]|].
  set (g := x :: g') in *.
  pose proof I as (_ & (_ & _ & _ & K4) & _).
  destruct (has_simplex s g) eqn:Hh.
  - apply (has_simplex_spec s g K4) in Hh.
    split; [exact I|]. split; [exact U|]. split; [exact N|]. split; [split; assumption|]. split; [auto|intros _; exact Hh].
  - pose proof (has_simplex_false s g K4 Hh) as Hn.
    set (e := LInt (h_uid s)). set (s0 := with_uid s (h_uid s + 1)).
    assert (Hne : ~ In e (ekeys s0)) by (apply auto_id_fresh_aux; exact I).
    destruct (insert_edge_Ext e (order_by nh g) [] s0 Hne) as (M & HM & NDM & X).
    assert (X' : Ext s (insert_edge e (order_by nh g) [] s0) e M) by exact X.
    assert (HMg : seteq M g) by (eapply seteq_trans; [exact HM|apply order_by_seteq]).
    split; [apply Inv_insert_auto; exact I|].
    split. { apply (Ext_Unique s _ e M X' U). intro H. apply Hn. eapply HasS_seteq; [apply seteq_sym; exact HMg|exact H]. }
    split. { apply (Ext_Nonempty s _ e M X' N). apply (seteq_nonempty g M); [apply seteq_sym; exact HMg|discriminate]. }
    split.
    { split.
      - intros e' m f Hx Hf. apply (Ext_Sx s _ e M e' m X') in Hx. destruct Hx as [[_ ->]|[_ Hx]].
        + destruct HF as (g0 & Hg0 & Hs0).
          assert (Hf' : Face f g0).
          { apply (Face_seteq f M g0); [|exact Hf]. intros y Hy. apply Hs0. apply HMg. exact Hy. }
          destruct (P2 g0 f Hg0 Hf') as [H|H]; [left; apply (Ext_HasS_old s _ e M f X' H)|right; exact H].
        + destruct (P1 e' m f Hx Hf) as [H|H]; [left; apply (Ext_HasS_old s _ e M f X' H)|right; exact H].
      - intros g0 f Hg0 Hf. destruct (P2 g0 f Hg0 Hf) as [H|H]; [left; apply (Ext_HasS_old s _ e M f X' H)|right; exact H]. }
    split; [intros h H; apply (Ext_HasS_old s _ e M h X' H)|].
    intros _. apply (Ext_HasS_new s _ e M g X'). apply seteq_sym. exact HMg.
Qed.

Lemma add_faces_fold nh F : forall L s,
  (forall l, In l L -> InF F l) ->
  Inv s -> Unique s -> Nonempty s -> PreClosed s F ->
  let s' := fold_left (add_face nh) L s in
  Inv s' /\ Unique s' /\ Nonempty s' /\ PreClosed s' F /\
  (forall h, HasS s h -> HasS s' h) /\ (forall l, In l L -> l <> [] -> HasS s' l).
Proof.
  induction L as [|g L IH]; intros s HL I U N P; simpl.
  - repeat (split; [assumption|]). split; [auto|intros l []].
  - destruct (add_face_step nh s F g I U N P (HL g (or_introl eq_refl))) as (I1 & U1 & N1 & P1 & Mono & Hg).
    cbv zeta in *.
    destruct (IH (add_face nh s g) (fun l Hl => HL l (or_intror Hl)) I1 U1 N1 P1) as (I2 & U2 & N2 & P2 & Mono2 & HL2).
    cbv zeta in *. repeat (split; [assumption|]). split; [intros h H; apply Mono2; apply Mono; exact H|].
    intros l [->|Hl] Hne; [apply Mono2; apply Hg; exact Hne|apply HL2; assumption].
Qed.

(* after the faces have been added the complex is closed *)
Lemma add_faces_closed F hint s :
  Inv s -> Unique s -> Nonempty s -> PreClosed s F ->
  let s' := add_faces F hint s in
  SInv s' /\ (forall h, HasS s h -> HasS s' h).
Proof.
  intros I U N P. unfold add_faces.
  assert (HL : forall l, In l (order_faces F (fst hint)) -> InF F l).
  { intros l Hl. destruct (order_faces_sound F (fst hint) l Hl) as (g & Hg & Hs). exists g. split; assumption. }
  destruct (add_faces_fold (snd hint) F (order_faces F (fst hint)) s HL I U N P) as (I' & U' & N' & (P1 & P2) & Mono & Hall).
  cbv zeta in *. split; [|exact Mono].
  split; [exact I'|]. split; [|split; assumption].
  assert (Owed : forall f, f <> [] -> InF F f -> HasS (fold_left (add_face (snd hint)) (order_faces F (fst hint)) s) f).
  { intros f Hne (g & Hg & Hs). destruct (order_faces_complete F (fst hint) g Hg) as (l & Hl & Hs2).
    apply (HasS_seteq _ f l); [eapply seteq_trans; eassumption|].
    apply Hall; [exact Hl|]. apply (seteq_nonempty f l); [eapply seteq_trans; eassumption|exact Hne]. }
  intros e m f Hx Hf. destruct (P1 e m f Hx Hf) as [H|H]; [exact H|].
  apply Owed; [apply (Face_nonempty f m Hf)|exact H].
Qed.

(* ---------- a main simplex has been stored: its sub-faces are now owed ---------- *)

Lemma main_added s s1 e M ms F :
  Ext s s1 e M -> seteq M ms -> NoDup M -> Unique s -> Nonempty s -> PreClosed s F ->
  ms <> [] -> ~ HasS s ms ->
  Unique s1 /\ Nonempty s1 /\ PreClosed s1 (F ++ subfaces ms) /\ (forall h, HasS s h -> HasS s1 h).
Proof.
  intros X HM NDM U N (P1 & P2) Hne Hn.
  assert (LM : (length M <= length ms)%nat).
  { apply NoDup_incl_length; [exact NDM|]. intros x Hx. apply HM. exact Hx. }
  split. { apply (Ext_Unique s s1 e M X U). intro H. apply Hn. eapply HasS_seteq; [apply seteq_sym; exact HM|exact H]. }
  split. { apply (Ext_Nonempty s s1 e M X N). apply (seteq_nonempty ms M); [apply seteq_sym; exact HM|exact Hne]. }
  split; [|intros h H; apply (Ext_HasS_old s s1 e M h X H)].
  split.
  - intros e' m f Hx Hf. apply (Ext_Sx s s1 e M e' m X) in Hx. destruct Hx as [[_ ->]|[_ Hx]].
    + destruct (seteqb f M) eqn:Q.
      * left. apply (Ext_HasS_new s s1 e M f X). apply seteqb_spec. exact Q.
      * right. apply InF_app_r. destruct Hf as (NDf & Sf & Lf).
        assert (Lt : (length f < length M)%nat).
        { apply strict_face_lt; [exact NDf|exact Sf|]. intro H. apply seteqb_spec in H. congruence. }
        apply proper_face_in_subfaces; [exact NDf|intros x Hx; apply HM; apply Sf; exact Hx|lia].
    + destruct (P1 e' m f Hx Hf) as [H|H]; [left; apply (Ext_HasS_old s s1 e M f X H)|right; apply InF_app_l; exact H].
  - intros g f Hg Hf. apply in_app_iff in Hg. destruct Hg as [Hg|Hg].
    + destruct (P2 g f Hg Hf) as [H|H]; [left; apply (Ext_HasS_old s s1 e M f X H)|right; apply InF_app_l; exact H].
    + right. apply InF_app_r. destruct (subfaces_sound ms g Hg) as [Sg Lg]. destruct Hf as (NDf & Sf & Lf).
      assert ((length f <= length g)%nat) by (apply NoDup_incl_length; assumption).
      apply proper_face_in_subfaces; [exact NDf|intros x Hx; apply Sg; apply Sf; exact Hx|lia].
Qed.

Lemma oversize_owed s F ms b : PreClosed s F -> PreClosed s (F ++ powerset_upto ms b).
Proof.
  intros (P1 & P2). split.
  - intros e m f Hx Hf. destruct (P1 e m f Hx Hf) as [H|H]; [left; exact H|right; apply InF_app_l; exact H].
  - intros g f Hg Hf. apply in_app_iff in Hg. destruct Hg as [Hg|Hg].
    + destruct (P2 g f Hg Hf) as [H|H]; [left; exact H|right; apply InF_app_l; exact H].
    + right. apply InF_app_r. destruct (powerset_upto_sound ms b g Hg) as [Sg Lg]. destruct Hf as (NDf & Sf & Lf).
      assert ((length f <= length g)%nat) by (apply NoDup_incl_length; assumption).
      apply face_in_powerset_upto; [exact NDf|intros x Hx; apply Sg; apply Sf; exact Hx|lia].
Qed.

Lemma PreClosed_same_edges s s' F : h_edge s' = h_edge s -> PreClosed s F -> PreClosed s' F.
Proof.
  intros E (P1 & P2). unfold PreClosed, HasS, Sx in *. rewrite E. split; assumption.
Qed.
Lemma Unique_same_edges s s' : h_edge s' = h_edge s -> Unique s -> Unique s'.
Proof. intros E U. unfold Unique, Sx in *. rewrite E. exact U. Qed.
Lemma Nonempty_same_edges s s' : h_edge s' = h_edge s -> Nonempty s -> Nonempty s'.
Proof. intros E U. unfold Nonempty, Sx in *. rewrite E. exact U. Qed.
Lemma Closed_same_edges s s' : h_edge s' = h_edge s -> Closed s -> Closed s'.
Proof. intros E U. unfold Closed, HasS, Sx in *. rewrite E. exact U. Qed.
Lemma HasS_same_edges s s' f : h_edge s' = h_edge s -> HasS s f -> HasS s' f.
Proof. intros E U. unfold HasS, Sx in *. rewrite E. exact U. Qed.

(* the working invariant of the bulk loops *)
Definition Work (s : hg) (F : list (list lbl)) : Prop :=
  Inv s /\ Unique s /\ Nonempty s /\ PreClosed s F.

Lemma SInv_Work s : SInv s -> Work s [].
Proof. intros (I & C & U & N). split; [exact I|]. split; [exact U|]. split; [exact N|apply Closed_PreClosed; exact C]. Qed.

Lemma Work_finish F hint s : Work s F -> SInv (add_faces F hint s).
Proof. intros (I & U & N & P). apply (add_faces_closed F hint s I U N P). Qed.

(* storing a main simplex with an explicit, not yet used id *)
Lemma Work_main_explicit e ms a s F :
  Work s F -> ~ In e (ekeys s) -> ms <> [] -> has_simplex s ms = false ->
  Work (bump_uid e (insert_edge e ms a s)) (F ++ subfaces ms).
Proof.
  intros (I & U & N & P) Hne Hms Hh.
  pose proof I as (_ & (_ & _ & _ & K4) & _).
  destruct (insert_edge_Ext e ms a s Hne) as (M & HM & NDM & X).
  assert (X' : Ext s (bump_uid e (insert_edge e ms a s)) e M).
  { apply (Ext_same_edges s (insert_edge e ms a s)); [exact X|apply bump_uid_edge]. }
  destruct (main_added s _ e M ms F X' HM NDM U N P Hms (has_simplex_false s ms K4 Hh)) as (U1 & N1 & P1 & _).
  split; [apply Inv_insert_explicit; assumption|]. split; [exact U1|]. split; [exact N1|exact P1].
Qed.

(* ... with the automatic id *)
Lemma Work_main_auto ms a s F :
  Work s F -> ms <> [] -> has_simplex s ms = false ->
  Work (bump_uid (LInt (h_uid s)) (insert_edge (LInt (h_uid s)) ms a (with_uid s (h_uid s + 1)))) (F ++ subfaces ms).
Proof.
  intros (I & U & N & P) Hms Hh.
  pose proof I as (_ & (_ & _ & _ & K4) & _).
  set (e := LInt (h_uid s)). set (s0 := with_uid s (h_uid s + 1)).
  assert (Hne : ~ In e (ekeys s0)) by (apply auto_id_fresh_aux; exact I).
  destruct (insert_edge_Ext e ms a s0 Hne) as (M & HM & NDM & X).
  assert (X' : Ext s (bump_uid e (insert_edge e ms a s0)) e M).
  { apply (Ext_same_edges s (insert_edge e ms a s0)); [exact X|apply bump_uid_edge]. }
  destruct (main_added s _ e M ms F X' HM NDM U N P Hms (has_simplex_false s ms K4 Hh)) as (U1 & N1 & P1 & _).
  split; [apply Inv_bump; apply Inv_insert_auto; exact I|]. split; [exact U1|]. split; [exact N1|exact P1].
Qed.

Lemma Work_uid s F k : h_uid s <= k -> Work s F -> Work (with_uid s k) F.
Proof.
  intros L (I & U & N & P). split; [apply Inv_with_uid; assumption|].
  split; [exact U|]. split; [exact N|exact P].
Qed.

Lemma Work_more s F G : Work s F -> Work s (F ++ G) \/ True. Proof. auto. Qed.

Lemma PreClosed_weaken s F G :
  PreClosed s F -> (forall g f, In g G -> Face f g -> HasS s f \/ InF (F ++ G) f) -> PreClosed s (F ++ G).
Proof.
  intros (P1 & P2) HG. split.
  - intros e m f Hx Hf. destruct (P1 e m f Hx Hf) as [H|H]; [left; exact H|right; apply InF_app_l; exact H].
  - intros g f Hg Hf. apply in_app_iff in Hg. destruct Hg as [Hg|Hg].
    + destruct (P2 g f Hg Hf) as [H|H]; [left; exact H|right; apply InF_app_l; exact H].
    + apply (HG g f Hg Hf).
Qed.

Lemma Work_nil_app s F : Work s F -> Work s (F ++ []).
Proof. rewrite app_nil_r. auto. Qed.

Lemma nil_or_not (ms : list lbl) : (match ms with [] => true | _ => false end) = false -> ms <> [].
Proof. destruct ms; [discriminate|intros _ E; discriminate]. Qed.

(* ---------- add_simplex ---------- *)

Lemma mkset_nonempty ms : (match mkset ms with [] => true | _ => false end) = false -> mkset ms <> [].
Proof. apply nil_or_not. Qed.

Lemma SInv_add_simplex ms idx a hint s : SInv s -> SInv (st_of (add_simplex ms idx a hint s)).
Proof.
  intro SI. pose proof (SInv_Work s SI) as W. unfold add_simplex. cbv zeta.
  destruct (existsb is_none (mkset ms)); [exact SI|].
  destruct ((match mkset ms with [] => true | _ => false end) || has_simplex s (mkset ms)) eqn:C; [exact SI|].
  apply orb_false_iff in C. destruct C as [C1 C2]. apply nil_or_not in C1.
  destruct idx as [i|].
  - destruct (has i (h_edge s)) eqn:Hi; [exact SI|]. rewrite st_of_ok.
    destruct (falsy i).
    + apply Work_finish. rewrite <- (app_nil_l (subfaces (mkset ms))). apply Work_main_auto; assumption.
    + apply Work_finish. rewrite <- (app_nil_l (subfaces (mkset ms))).
      apply Work_main_explicit; [exact W|apply has_false_nin; exact Hi|exact C1|exact C2].
  - rewrite st_of_ok. apply Work_finish. rewrite <- (app_nil_l (subfaces (mkset ms))).
    apply Work_main_auto; assumption.
Qed.

(* ---------- the bulk formats ---------- *)

Lemma sloop_Work {A} (f : hg -> A -> sres) l :
  (forall s x F, Work s F -> match f s x with (s', fs, _, _) => Work s' (F ++ fs) end) ->
  forall s F w, Work s F -> match sloop f l s F w with (s', F', _, _) => Work s' F' end.
Proof.
  intro Hf. induction l as [|x xs IH]; intros s F w W; simpl; [exact W|].
  specialize (Hf s x F W). destruct (f s x) as [[[s' fs] o] w'].
  destruct o; [apply IH; exact Hf|exact Hf].
Qed.

Lemma finish_SInv hint r : (match r with (s', F', _, _) => Work s' F' end) -> SInv (st_of (finish hint r)).
Proof. destruct r as [[[s F] o] w]. intro W. unfold finish, st_of. simpl. apply Work_finish. exact W. Qed.

Lemma Work_bulk_simplex auto mo a s ms idx ea F :
  Work s F -> match bulk_simplex auto mo a s ms idx ea with (s', fs, _, _) => Work s' (F ++ fs) end.
Proof.
  intro W. unfold bulk_simplex.
  destruct (existsb is_none ms); [apply Work_nil_app; exact W|].
  destruct ((match ms with [] => true | _ => false end) || has_simplex s ms) eqn:C; [apply Work_nil_app; exact W|].
  apply orb_false_iff in C. destruct C as [C1 C2]. apply nil_or_not in C1.
  set (e := if auto then LInt (h_uid s) else idx). set (s0 := if auto then with_uid s (h_uid s + 1) else s).
  assert (W0 : Work s0 F) by (unfold s0; destruct auto; [apply Work_uid; [lia|exact W]|exact W]).
  assert (Over : forall k, match (s0, powerset_upto ms (k + 1), Ok, O) with (s', fs, _, _) => Work s' (F ++ fs) end).
  { intro k. destruct W0 as (I0 & U0 & N0 & P0). split; [exact I0|]. split; [exact U0|]. split; [exact N0|].
    apply oversize_owed. exact P0. }
  assert (Main : match (if has e (h_edge s0) then (s0, [], Ok, 1%nat)
                        else if is_none e then (s0, [], Raised XGIError, O)
                        else (bump_uid e (insert_edge e ms (aupdate a ea) s0), subfaces ms, Ok, O))
                 with (s', fs, _, _) => Work s' (F ++ fs) end).
  { destruct (has e (h_edge s0)) eqn:He; [apply Work_nil_app; exact W0|].
    destruct (is_none e); [apply Work_nil_app; exact W0|].
    unfold e, s0 in *. destruct auto.
    - apply Work_main_auto; assumption.
    - apply Work_main_explicit; [exact W|apply has_false_nin; exact He|exact C1|exact C2]. }
  destruct mo as [k|]; [|exact Main].
  destruct (k + 1 <? length ms)%nat; [apply Over|exact Main].
Qed.

Lemma SInv_add_simplices_from eb mo a hint s : SInv s -> SInv (st_of (add_simplices_from eb mo a hint s)).
Proof.
  intro SI. pose proof (SInv_Work s SI) as W. destruct eb as [l|l|l|l|l]; simpl.
  - destruct l as [|[|x xs] r].
    + apply finish_SInv. simpl. exact W.
    + exact SI.
    + apply finish_SInv. apply sloop_Work; [|exact W]. intros s' ms F W'. apply Work_bulk_simplex. exact W'.
  - apply finish_SInv. apply sloop_Work; [|exact W]. intros s' [m i] F W'. apply Work_bulk_simplex. exact W'.
  - apply finish_SInv. apply sloop_Work; [|exact W]. intros s' [m ea] F W'. apply Work_bulk_simplex. exact W'.
  - apply finish_SInv. apply sloop_Work; [|exact W]. intros s' [[m i] ea] F W'. apply Work_bulk_simplex. exact W'.
  - apply finish_SInv. apply sloop_Work; [|exact W]. intros s' [idx ms] F W'.
    destruct (existsb is_none ms); [apply Work_nil_app; exact W'|].
    destruct ((match ms with [] => true | _ => false end) || has_simplex s' ms) eqn:C; [apply Work_nil_app; exact W'|].
    apply orb_false_iff in C. destruct C as [C1 C2]. apply nil_or_not in C1.
    destruct (has idx (h_edge s')) eqn:Hi; [apply Work_nil_app; exact W'|].
    assert (Main : match (if is_none idx then (s', [], Raised XGIError, O)
                          else (bump_uid idx (insert_edge idx ms [] s'), subfaces ms, Ok, O))
                   with (s'', fs, _, _) => Work s'' (F ++ fs) end).
    { destruct (is_none idx); [apply Work_nil_app; exact W'|].
      apply Work_main_explicit; [exact W'|apply has_false_nin; exact Hi|exact C1|exact C2]. }
    destruct mo as [k|]; [|exact Main].
    destruct (k + 1 <? length ms)%nat; [|exact Main].
    destruct W' as (I0 & U0 & N0 & P0). split; [exact I0|]. split; [exact U0|]. split; [exact N0|].
    apply oversize_owed. exact P0.
Qed.

Lemma SInv_add_weighted l mo w a hint s : SInv s -> SInv (st_of (add_weighted_simplices_from l mo w a hint s)).
Proof. apply SInv_add_simplices_from. Qed.

Lemma loop_SInv {A} (f : hg -> A -> res) l :
  (forall s x, SInv s -> SInv (st_of (f s x))) -> forall s, SInv s -> SInv (st_of (loop f l s)).
Proof. apply loop_inv. Qed.

Lemma SInv_close hint s : SInv s -> SInv (st_of (close hint s)).
Proof.
  unfold close. generalize (vals (h_edge s)). intros l. revert s. apply loop_SInv.
  intros s' ms SI. destruct ms; [exact SI|]. destruct (subfaces (l0 :: ms)) eqn:E; [exact SI|].
  apply SInv_add_simplices_from. exact SI.
Qed.

(* ---------- removals ---------- *)

Definition Sub (a b : list lbl) : Prop := forall x, In x a -> In x b.

Lemma strict_sub_spec a b : strict_sub a b = true <-> Sub a b /\ ~ Sub b a.
Proof.
  unfold strict_sub. rewrite andb_true_iff, negb_true_iff, ssubset_spec.
  split; intros [H1 H2]; (split; [exact H1|]).
  - intro H. apply (proj2 (ssubset_spec b a)) in H. congruence.
  - destruct (ssubset b a) eqn:E; [|reflexivity]. exfalso. apply H2. exact (proj1 (ssubset_spec b a) E).
Qed.

Lemma Sub_dec a b : {Sub a b} + {~ Sub a b}.
Proof.
  destruct (ssubset a b) eqn:E; [left; exact (proj1 (ssubset_spec a b) E)|right].
  intro H. apply (proj2 (ssubset_spec a b)) in H. congruence.
Qed.

Lemma supfaces_id_spec s ms e' :
  NoDup (keys (h_edge s)) ->
  (In e' (supfaces_id s ms) <-> exists m', Sx s e' m' /\ Sub ms m' /\ ~ Sub m' ms).
Proof.
  intro ND. unfold supfaces_id. rewrite in_map_iff. split.
  - intros ([e m] & <- & H). apply filter_In in H. destruct H as [Hi Hs]. simpl in *.
    exists m. split; [apply In_get; assumption|]. apply strict_sub_spec. exact Hs.
  - intros (m' & Hx & Hs). exists (e', m'). split; [reflexivity|]. apply filter_In.
    split; [apply get_In; exact Hx|]. apply strict_sub_spec. exact Hs.
Qed.

(* what is left after remove_simplex_id: exactly the simplices that do not contain the removed one *)
Lemma remove_simplex_id_Sx idx ms s :
  Inv s -> Unique s -> Sx s idx ms ->
  forall e' m', Sx (st_of (remove_simplex_id idx s)) e' m' <-> Sx s e' m' /\ ~ Sub ms m'.
Proof.
  intros I U Hidx e' m'. unfold remove_simplex_id. unfold Sx in Hidx. rewrite Hidx, st_of_ok.
  pose proof I as (_ & (_ & _ & _ & K4) & _).
  unfold Sx. rewrite remove_edge1_get, fold_remove_edge1_get.
  destruct (lbl_eqb_spec e' idx) as [->|N].
  - split; [discriminate|]. intros [H Hn]. exfalso. apply Hn. assert (m' = ms) by congruence. subst. intro; auto.
  - destruct (mem e' (supfaces_id s ms)) eqn:M.
    + apply mem_In in M. apply (supfaces_id_spec s ms e' K4) in M. destruct M as (m2 & Hx2 & S1 & S2).
      split; [discriminate|]. intros [H Hn]. exfalso. unfold Sx in Hx2. assert (m2 = m') by congruence. subst.
      contradiction.
    + apply mem_nIn in M. split; [|tauto]. intro H. split; [exact H|]. intro S1.
      destruct (Sub_dec m' ms) as [S2|S2].
      * apply N. apply (U e' idx m' ms H Hidx). intro x. split; [apply S2|apply S1].
      * apply M. apply (supfaces_id_spec s ms e' K4). exists m'. split; [exact H|split; assumption].
Qed.

Lemma SInv_remove_simplex_id idx s : SInv s -> SInv (st_of (remove_simplex_id idx s)).
Proof.
  intros (I & C & U & N). destruct (get idx (h_edge s)) as [ms|] eqn:G.
  - pose proof (remove_simplex_id_Sx idx ms s I U G) as R.
    assert (I' : Inv (st_of (remove_simplex_id idx s))).
    { unfold remove_simplex_id. rewrite G, st_of_ok. apply Inv_remove_edge1. apply fold_remove_edge1_Inv. exact I. }
    split; [exact I'|]. split; [|split].
    + intros e' m' f Hx Hf. apply R in Hx. destruct Hx as [Hx Hn].
      destruct (C e' m' f Hx Hf) as (e2 & m2 & Hx2 & Hs2).
      exists e2, m2. split; [|exact Hs2]. apply R. split; [exact Hx2|].
      intro S. apply Hn. intros x Hx'. destruct Hf as (_ & Sf & _). apply Sf. apply Hs2. apply S. exact Hx'.
    + intros e1 e2 m1 m2 H1 H2. apply R in H1. apply R in H2. apply (U e1 e2 m1 m2); tauto.
    + intros e' m' Hx. apply R in Hx. apply (N e' m'). tauto.
  - unfold remove_simplex_id. rewrite G. split; [exact I|]. split; [exact C|]. split; assumption.
Qed.

Lemma SInv_remove_simplex_ids_from ids s : SInv s -> SInv (st_of (remove_simplex_ids_from ids s)).
Proof.
  unfold remove_simplex_ids_from. generalize (keys (h_edge s)). intro all. revert s. apply loop_SInv.
  intros s' idx SI. destruct (mem idx all && negb (has idx (h_edge s'))); [exact SI|].
  apply SInv_remove_simplex_id. exact SI.
Qed.

Lemma sc_remove_node_Sx n es s :
  Inv s -> get n (h_node s) = Some es ->
  forall e' m', Sx (st_of (sc_remove_node n s)) e' m' <-> Sx s e' m' /\ ~ In n m'.
Proof.
  intros I G e' m'. unfold sc_remove_node, Sx. rewrite (strong_remove_get n true s es e' G).
  destruct I as (W & _).
  assert (Hes : mships s n = es) by (unfold mships, getl; rewrite G; reflexivity).
  destruct (mem e' es) eqn:M.
  - apply mem_In in M. split; [discriminate|]. intros [H Hn]. exfalso. apply Hn.
    rewrite <- Hes in M. apply W in M. unfold mems, getl in M. rewrite H in M. exact M.
  - apply mem_nIn in M. split; [|tauto]. intro H. split; [exact H|]. intro Hi. apply M.
    rewrite <- Hes. apply W. unfold mems, getl. rewrite H. exact Hi.
Qed.

Lemma SInv_sc_remove_node n s : SInv s -> SInv (st_of (sc_remove_node n s)).
Proof.
  intros (I & C & U & N). destruct (get n (h_node s)) as [es|] eqn:G.
  - pose proof (sc_remove_node_Sx n es s I G) as R.
    split; [apply Inv_remove_node; exact I|]. split; [|split].
    + intros e' m' f Hx Hf. apply R in Hx. destruct Hx as [Hx Hn].
      destruct (C e' m' f Hx Hf) as (e2 & m2 & Hx2 & Hs2).
      exists e2, m2. split; [|exact Hs2]. apply R. split; [exact Hx2|].
      intro Hi. apply Hn. destruct Hf as (_ & Sf & _). apply Sf. apply Hs2. exact Hi.
    + intros e1 e2 m1 m2 H1 H2. apply R in H1. apply R in H2. apply (U e1 e2 m1 m2); tauto.
    + intros e' m' Hx. apply R in Hx. apply (N e' m'). tauto.
  - unfold sc_remove_node, remove_node. rewrite G. split; [exact I|]. split; [exact C|]. split; assumption.
Qed.

Lemma SInv_sc_remove_nodes_from ns s : SInv s -> SInv (st_of (sc_remove_nodes_from ns s)).
Proof.
  unfold sc_remove_nodes_from. apply loop_SInv. intros s' n SI.
  destruct (has n (h_node s')); [apply SInv_sc_remove_node; exact SI|exact SI].
Qed.

(* ---------- the rest ---------- *)

Lemma SInv_same_edges s s' : Inv s' -> h_edge s' = h_edge s -> SInv s -> SInv s'.
Proof.
  intros I' E (_ & C & U & N). split; [exact I'|]. split; [apply (Closed_same_edges s); assumption|].
  split; [apply (Unique_same_edges s); assumption|apply (Nonempty_same_edges s); assumption].
Qed.

Lemma SInv_cleared net uid : SInv (mkHG [] [] [] [] net uid).
Proof. split; [apply Inv_cleared|]. split; [|split]; intros e; intros; discriminate. Qed.

Lemma bind_SInv r k : SInv (st_of r) -> (forall s, SInv s -> SInv (st_of (k s))) -> SInv (st_of (bind r k)).
Proof. apply bind_inv. Qed.

Lemma add_nodes_from_edges items a s : h_edge (st_of (add_nodes_from items a s)) = h_edge s.
Proof.
  unfold add_nodes_from.
  assert (H : forall l s0, h_edge (st_of (loop (fun s it =>
            let '(n, od) := it in
            let newdict := match od with None => a | Some d => aupdate a d end in
            if has n (h_node s) then ok (nattr_update n newdict s)
            else if is_none n then raise s XGIError
            else ok (nattr_update n newdict (ensure_node n s))) l s0)) = h_edge s0).
  { induction l as [|[n od] l IH]; intro s0; simpl; [reflexivity|].
    destruct (has n (h_node s0)).
    - simpl. specialize (IH (nattr_update n (match od with None => a | Some d => aupdate a d end) s0)).
      destruct (loop _ l _) as [[s2 o2] w2]. exact IH.
    - destruct (is_none n); [reflexivity|]. simpl.
      specialize (IH (nattr_update n (match od with None => a | Some d => aupdate a d end) (ensure_node n s0))).
      destruct (loop _ l _) as [[s2 o2] w2]. simpl in *. rewrite IH. simpl. apply ensure_node_edge. }
  apply H.
Qed.

Lemma SInv_add_nodes_from items a s : SInv s -> SInv (st_of (add_nodes_from items a s)).
Proof.
  intro SI. apply (SInv_same_edges s); [apply Inv_add_nodes_from; destruct SI; assumption|
                                        apply add_nodes_from_edges|exact SI].
Qed.

Lemma SInv_add_node n a s : SInv s -> SInv (st_of (add_node n a s)).
Proof.
  intro SI. apply (SInv_same_edges s); [apply Inv_add_node; destruct SI; assumption| |exact SI].
  unfold add_node. destruct (has n (h_node s)); [reflexivity|]. destruct (is_none n); [reflexivity|].
  simpl. apply ensure_node_edge.
Qed.

Lemma SInv_set_node_attrs_dict vals s : SInv s -> SInv (st_of (set_node_attrs_dict vals s)).
Proof.
  intro SI. destruct (set_node_attrs_dict_same vals s) as (_ & E & _).
  apply (SInv_same_edges s); [apply Inv_set_node_attrs_dict; destruct SI; assumption|exact E|exact SI].
Qed.
Lemma SInv_set_edge_attrs_dict vals s : SInv s -> SInv (st_of (set_edge_attrs_dict vals s)).
Proof.
  intro SI. destruct (set_edge_attrs_dict_same vals s) as (_ & E & _).
  apply (SInv_same_edges s); [apply Inv_set_edge_attrs_dict; destruct SI; assumption|exact E|exact SI].
Qed.

Lemma SInv_lcc s : SInv s -> SInv (st_of (sc_largest_connected_inplace s)).
Proof.
  intro SI. unfold sc_largest_connected_inplace. destruct (first_longest (components s)); [|exact SI].
  apply SInv_sc_remove_nodes_from. exact SI.
Qed.

Lemma SInv_relabel la s : SInv (st_of (sc_relabel_inplace la s)).
Proof.
  unfold sc_relabel_inplace. cbv zeta.
  apply bind_SInv; [apply SInv_add_nodes_from; apply SInv_cleared|].
  intros s1 I1. apply bind_SInv; [apply SInv_set_node_attrs_dict; exact I1|].
  intros s2 I2. apply bind_SInv; [apply SInv_add_simplices_from; exact I2|].
  intros s3 I3. apply SInv_set_edge_attrs_dict. exact I3.
Qed.

Lemma SInv_cleanup iso conn rl s : SInv s -> SInv (st_of (sc_cleanup iso conn rl s)).
Proof.
  intro SI. unfold sc_cleanup.
  apply bind_SInv; [destruct iso; [exact SI|apply SInv_sc_remove_nodes_from; exact SI]|].
  intros s1 I1. apply bind_SInv; [destruct (conn && negb (match h_node s1 with [] => true | _ => false end)); [apply SInv_lcc; exact I1|exact I1]|].
  intros s2 I2. destruct rl; [apply SInv_relabel|exact I2].
Qed.

Lemma st_of_warn_more r : st_of (warn_more r) = st_of r.
Proof. destruct r as [[s o] w]. reflexivity. Qed.

Theorem sstep_SInv s o : SInv s -> SInv (st_of (sstep s o)).
Proof.
  intro SI. destruct o; simpl sstep; rewrite ?st_of_warn_more.
  - apply SInv_add_simplex; exact SI.
  - apply SInv_add_simplices_from; exact SI.
  - apply SInv_add_weighted; exact SI.
  - apply SInv_remove_simplex_id; exact SI.
  - apply SInv_remove_simplex_ids_from; exact SI.
  - apply SInv_sc_remove_node; exact SI.
  - apply SInv_sc_remove_nodes_from; exact SI.
  - apply SInv_close; exact SI.
  - apply SInv_cleanup; exact SI.
  - apply SInv_relabel.
  - apply SInv_add_simplex; exact SI.
  - apply SInv_add_simplices_from; exact SI.
  - apply SInv_add_weighted; exact SI.
  - apply SInv_remove_simplex_id; exact SI.
  - apply SInv_remove_simplex_ids_from; exact SI.
  - apply SInv_add_node; exact SI.
  - apply SInv_add_nodes_from; exact SI.
  - apply SInv_set_node_attrs_dict; exact SI.
  - apply SInv_set_edge_attrs_dict; exact SI.
  - unfold clear. rewrite st_of_ok. apply SInv_cleared.
Qed.

Theorem srun_SInv ops : forall s, SInv s -> SInv (srun ops s).
Proof.
  induction ops as [|o r IH]; intros s SI; simpl; [exact SI|]. apply IH. apply sstep_SInv. exact SI.
Qed.
