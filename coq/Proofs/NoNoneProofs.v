(* The label None never becomes a node or an edge id: NoNone is preserved by every op of the
   Hypergraph model (given Inv and the admissibility of shuffle samples), hence holds at every
   reachable state.  Used to discharge the NoNone hypothesis of the round-trip theorems. *)
From Coq Require Import String ZArith List Bool Lia.
From XV Require Import Base.Label Base.LSet Base.ODict Base.Attr Base.Outcome Model.Hypergraph
  Proofs.HgViews Proofs.HgInv Proofs.HgInvOps Proofs.HgStep Proofs.HgKeys Proofs.HgErrors Proofs.DerivedProofs.
Import ListNotations.
Open Scope Z_scope.

(* None is a key after only if it was a key before *)
Definition NM (s s' : hg) : Prop :=
  (In LNone (nkeys s') -> In LNone (nkeys s)) /\ (In LNone (ekeys s') -> In LNone (ekeys s)).
(* keys only disappear *)
Definition Sub (s s' : hg) : Prop := incl (nkeys s') (nkeys s) /\ incl (ekeys s') (ekeys s).

Lemma NM_refl s : NM s s. Proof. split; auto. Qed.
Lemma NM_trans a b c : NM a b -> NM b c -> NM a c.
Proof. intros [A1 A2] [B1 B2]. split; auto. Qed.
Lemma Sub_refl s : Sub s s. Proof. split; apply incl_refl. Qed.
Lemma Sub_trans a b c : Sub a b -> Sub b c -> Sub a c.
Proof. intros [A1 A2] [B1 B2]. split; eapply incl_tran; eassumption. Qed.
Lemma Sub_NM s s' : Sub s s' -> NM s s'.
Proof. intros [A B]. split; intro H; [apply A|apply B]; exact H. Qed.
Lemma Same_NM s s' : SameStruct s s' -> NM s s'.
Proof. intros (A & B & _). unfold NM, nkeys, ekeys. rewrite A, B. auto. Qed.
Lemma keys_eq_Sub s s' : nkeys s' = nkeys s -> ekeys s' = ekeys s -> Sub s s'.
Proof. intros A B. unfold Sub. rewrite A, B. split; apply incl_refl. Qed.

Lemma NoNone_NM s s' : NoNone s -> NM s s' -> NoNone s'.
Proof. intros [A B] [C D]. split; intro H; [apply A, C|apply B, D]; exact H. Qed.

Lemma fold_Sub {A} (f : hg -> A -> hg) l : (forall s x, Sub s (f s x)) -> forall s, Sub s (fold_left f l s).
Proof.
  intro H. induction l as [|x l IH]; intro s; [apply Sub_refl|]. cbn [fold_left].
  eapply Sub_trans; [apply H|apply IH].
Qed.

Lemma loop_rel (R : hg -> hg -> Prop) (P : hg -> Prop) {A} (f : hg -> A -> res) l :
  (forall s, R s s) -> (forall a b c, R a b -> R b c -> R a c) ->
  (forall s x, P s -> P (st_of (f s x)) /\ R s (st_of (f s x))) ->
  forall s, P s -> P (st_of (loop f l s)) /\ R s (st_of (loop f l s)).
Proof.
  intros Rr Rt Hf. induction l as [|x l IH]; intros s Ps; cbn [loop]; [rewrite st_of_ok; auto|].
  destruct (Hf s x Ps) as [P1 R1]. destruct (f s x) as [[s1 o] w] eqn:E. unfold st_of in P1, R1. cbn [fst] in P1, R1.
  destruct o; [|unfold st_of; cbn [fst]; auto].
  destruct (IH s1 P1) as [P2 R2]. destruct (loop f l s1) as [[s2 o2] w2]. unfold st_of in *. cbn [fst] in *.
  split; [exact P2|eapply Rt; eassumption].
Qed.

Lemma bind_rel (R : hg -> hg -> Prop) (P : hg -> Prop) r k s :
  (forall a b c, R a b -> R b c -> R a c) ->
  P (st_of r) -> R s (st_of r) -> (forall s1, P s1 -> R s1 (st_of (k s1))) -> R s (st_of (bind r k)).
Proof.
  intros Rt P1 R1 Hk. destruct r as [[s1 o] w]. unfold bind, st_of in *. cbn [fst] in *.
  destruct o; [|exact R1]. specialize (Hk s1 P1). destruct (k s1) as [[s2 o2] w2]. cbn [fst] in *.
  eapply Rt; eassumption.
Qed.

(* ---------- primitives ---------- *)
Lemma node_rem_Sub n e s : Sub s (node_rem n e s).
Proof. apply keys_eq_Sub; [apply node_rem_nkeys|]. unfold node_rem. destruct (has n (h_node s)); reflexivity. Qed.
Lemma edge_rem_Sub e n s : Sub s (edge_rem e n s).
Proof. apply keys_eq_Sub; [|apply edge_rem_ekeys]. unfold edge_rem. destruct (has e (h_edge s)); reflexivity. Qed.
Lemma drop_edge_Sub e s : Sub s (drop_edge e s).
Proof.
  destruct (drop_edge_keys e s) as (A & B & _). split; [rewrite A; apply incl_refl|].
  intros x Hx. apply B in Hx. apply Hx.
Qed.
Lemma drop_node_Sub n s : Sub s (drop_node n s).
Proof.
  destruct (drop_node_keys n s) as (A & B & _). split; [|rewrite B; apply incl_refl].
  intros x Hx. apply A in Hx. apply Hx.
Qed.

Lemma ensure_node_NM n s : n <> LNone -> NM s (ensure_node n s).
Proof.
  intro Hn. split.
  - intro H. apply ensure_node_In in H. destruct H as [H|H]; [congruence|exact H].
  - rewrite ensure_node_ekeys. auto.
Qed.

Lemma insert_edge_NM e ms a s : e <> LNone -> ~ In LNone ms -> NM s (insert_edge e ms a s).
Proof.
  intros He Hm. split.
  - intro H. apply insert_edge_nkeys in H. destruct H as [H|H]; [contradiction|exact H].
  - intro H. unfold insert_edge, ekeys in H. cbn [h_edge with_eattr] in H.
    assert (F : forall l s0, has e (h_edge s0) = true -> ekeys (fold_left (attach e) l s0) = ekeys s0).
    { induction l as [|x l IH]; intros s0 H0; [reflexivity|]. cbn [fold_left].
      rewrite IH by (apply attach_has; exact H0). apply attach_edge_keys. exact H0. }
    change (keys (h_edge ?t)) with (ekeys t) in H. rewrite F in H.
    + unfold ekeys in H. cbn [h_edge with_edge] in H. apply In_keys_set in H. destruct H as [H|H]; [congruence|exact H].
    + apply has_In. cbn [h_edge with_edge]. apply In_keys_set. left; reflexivity.
Qed.

Lemma bump_uid_NM e s : NM s (bump_uid e s).
Proof. destruct (bump_uid_tables e s) as (A & _ & B & _). unfold NM, nkeys, ekeys. rewrite A, B. auto. Qed.

Lemma none_members ms : existsb is_none (mkset ms) = false -> ~ In LNone ms.
Proof.
  intros H Hi. assert (E : existsb is_none (mkset ms) = true).
  { apply existsb_exists. exists LNone. split; [apply In_mkset; exact Hi|reflexivity]. }
  congruence.
Qed.
Lemma is_none_false_ne x : is_none x = false -> x <> LNone.
Proof. intros H E. subst. discriminate H. Qed.

(* ---------- additions ---------- *)
Lemma add_node_body_NM n a s :
  NM s (st_of (if has n (h_node s) then ok (nattr_update n a s)
               else if is_none n then raise s XGIError else ok (nattr_update n a (ensure_node n s)))).
Proof.
  destruct (has n (h_node s)); [rewrite st_of_ok; apply Same_NM; apply nattr_update_same|].
  destruct (is_none n) eqn:E; [rewrite st_of_raise; apply NM_refl|]. rewrite st_of_ok.
  eapply NM_trans; [apply ensure_node_NM; apply is_none_false_ne; exact E|]. apply Same_NM. apply nattr_update_same.
Qed.

Lemma add_node_NM n a s : NM s (st_of (add_node n a s)).
Proof. apply add_node_body_NM. Qed.

Lemma add_nodes_from_NM items a s : NM s (st_of (add_nodes_from items a s)).
Proof.
  unfold add_nodes_from.
  apply (loop_rel NM (fun _ => True) _ items NM_refl NM_trans); [|exact I].
  intros s' [n od] _. split; [exact I|]. apply add_node_body_NM.
Qed.

Lemma bulk_item_NM ex a s m i ea : NM s (st_of (bulk_item ex a s m i ea)).
Proof.
  unfold bulk_item. destruct (has i (h_edge s)); [apply NM_refl|].
  destruct (existsb is_none (mkset m)) eqn:Em; [rewrite st_of_raise; apply NM_refl|].
  destruct (is_none i) eqn:Ei; [rewrite st_of_raise; apply NM_refl|]. rewrite st_of_ok.
  assert (N1 : NM s (insert_edge i m (aupdate a ea) s)).
  { apply insert_edge_NM; [apply is_none_false_ne; exact Ei|apply none_members; exact Em]. }
  destruct ex; [eapply NM_trans; [exact N1|apply bump_uid_NM]|exact N1].
Qed.

Lemma with_uid_NM s u : NM s (with_uid s u). Proof. split; auto. Qed.

Lemma add_edges_from_NM eb a s : NM s (st_of (add_edges_from eb a s)).
Proof.
  destruct eb as [l|l|l|l|l]; cbn [add_edges_from];
    apply (loop_rel NM (fun _ => True) _ l NM_refl NM_trans); try exact I.
  - intros s' m _. split; [exact I|]. apply (NM_trans _ (with_uid s' (h_uid s' + 1))); [apply with_uid_NM|apply bulk_item_NM].
  - intros s' [m i] _. split; [exact I|apply bulk_item_NM].
  - intros s' [m ea] _. split; [exact I|]. apply (NM_trans _ (with_uid s' (h_uid s' + 1))); [apply with_uid_NM|apply bulk_item_NM].
  - intros s' [[m i] ea] _. split; [exact I|apply bulk_item_NM].
  - intros s' [i m] _. split; [exact I|].
    destruct (has i (h_edge s')); [apply NM_refl|].
    destruct (existsb is_none (mkset m)) eqn:Em; [rewrite st_of_raise; apply NM_refl|].
    destruct (is_none i) eqn:Ei; [rewrite st_of_raise; apply NM_refl|]. rewrite st_of_ok.
    eapply NM_trans; [apply insert_edge_NM; [apply is_none_false_ne; exact Ei|apply none_members; exact Em]|apply bump_uid_NM].
Qed.

(* add_edge(members, idx): Python cannot pass None as an explicit id (None means "automatic") *)
Definition op_expressible (o : op) : Prop :=
  match o with OAddEdge _ (Some i) _ => i <> LNone | _ => True end.

Lemma mkset_no_none ms : existsb is_none (mkset ms) = false -> ~ In LNone (mkset ms).
Proof. intros H Hi. apply (proj1 (In_mkset LNone ms)) in Hi. exact (none_members ms H Hi). Qed.

Lemma add_edge_NM ms idx a s : match idx with Some i => i <> LNone | None => True end -> NM s (st_of (add_edge ms idx a s)).
Proof.
  intro Hi. unfold add_edge. destruct (existsb is_none (mkset ms)) eqn:Em; [rewrite st_of_raise; apply NM_refl|].
  destruct idx as [i|].
  - destruct (has i (h_edge s)); [apply NM_refl|]. rewrite st_of_ok.
    eapply NM_trans; [apply insert_edge_NM; [exact Hi|apply mkset_no_none; exact Em]|apply bump_uid_NM].
  - rewrite st_of_ok. apply (NM_trans _ (with_uid s (h_uid s + 1))); [apply with_uid_NM|].
    apply insert_edge_NM; [discriminate|apply mkset_no_none; exact Em].
Qed.

Lemma add_node_to_edge_NM e n s : NM s (st_of (add_node_to_edge e n s)).
Proof.
  unfold add_node_to_edge.
  destruct (negb (has e (h_edge s)) && is_none e) eqn:C1; [rewrite st_of_raise; apply NM_refl|].
  set (s1 := if has e (h_edge s) then s else _).
  assert (N1 : NM s s1 /\ has e (h_edge s1) = true).
  { unfold s1. destruct (has e (h_edge s)) eqn:E; [split; [apply NM_refl|exact E]|].
    cbn [negb andb] in C1. split.
    - eapply NM_trans; [|apply bump_uid_NM]. split; [auto|].
      unfold ekeys. cbn [h_edge with_eattr with_edge]. intro H. apply In_keys_set in H.
      destruct H as [H|H]; [subst e; discriminate C1|exact H].
    - destruct (bump_uid_tables e (with_eattr (with_edge s (set e [] (h_edge s))) (set e [] (h_eattr s)))) as (_ & _ & T & _).
      rewrite T. cbn [h_edge with_eattr with_edge]. apply has_In. apply In_keys_set. left; reflexivity. }
  destruct N1 as [N1 He1].
  destruct (negb (has n (h_node s1)) && is_none n) eqn:C2; [rewrite st_of_raise; exact N1|]. rewrite st_of_ok.
  eapply NM_trans; [exact N1|]. split.
  - intro H. change (nkeys (node_add n e (edge_add e n (ensure_node n s1)))) with (nkeys (node_add n e (ensure_node n s1))) in H.
    rewrite node_add_nkeys in H by apply ensure_node_has. apply ensure_node_In in H.
    destruct H as [H|H]; [|exact H]. subst n.
    destruct (has LNone (h_node s1)) eqn:Eh; [apply has_In; exact Eh|discriminate C2].
  - intro H. unfold ekeys in H. cbn [node_add h_edge with_node] in H.
    change (keys (h_edge (edge_add e n (ensure_node n s1)))) with (ekeys (edge_add e n (ensure_node n s1))) in H.
    rewrite edge_add_ekeys in H by (rewrite ensure_node_edge; exact He1). rewrite ensure_node_ekeys in H. exact H.
Qed.

(* ---------- removals ---------- *)
Lemma remove_node_Sub n st re s : Sub s (st_of (remove_node n st re s)).
Proof.
  unfold remove_node. destruct (get n (h_node s)) as [es|]; [|rewrite st_of_raise; apply Sub_refl].
  destruct st; rewrite st_of_ok; (eapply Sub_trans; [apply drop_node_Sub|]); apply fold_Sub.
  - intros s' e. eapply Sub_trans; [apply drop_edge_Sub|]. apply fold_Sub. intros s'' m. apply node_rem_Sub.
  - intros s' e. cbv zeta.
    destruct ((match getl e (h_edge (edge_rem e n s')) with [] => true | _ => false end) && re && has e (h_edge (edge_rem e n s'))).
    + eapply Sub_trans; [apply edge_rem_Sub|apply drop_edge_Sub].
    + apply edge_rem_Sub.
Qed.

Lemma remove_nodes_from_Sub ns st re s : Sub s (st_of (remove_nodes_from ns st re s)).
Proof.
  unfold remove_nodes_from.
  apply (loop_rel Sub (fun _ => True) _ ns Sub_refl Sub_trans); [|exact I].
  intros s' n _. split; [exact I|]. destruct (has n (h_node s')); [apply remove_node_Sub|apply Sub_refl].
Qed.

Lemma remove_edge1_Sub e s : Sub s (st_of (remove_edge1 e s)).
Proof.
  destruct (remove_edge1_keys e s) as (A & B & _). split; [rewrite A; apply incl_refl|].
  intros x Hx. apply B in Hx. apply Hx.
Qed.

Lemma remove_edges_from_Sub es s : Sub s (st_of (remove_edges_from es s)).
Proof.
  unfold remove_edges_from. apply (loop_rel Sub (fun _ => True) _ es Sub_refl Sub_trans); [|exact I].
  intros s' e _. split; [exact I|apply remove_edge1_Sub].
Qed.

Lemma remove_node_from_edge_Sub e n re s : Sub s (st_of (remove_node_from_edge e n re s)).
Proof.
  unfold remove_node_from_edge.
  destruct (negb (has e (h_edge s))); [rewrite st_of_raise; apply Sub_refl|].
  destruct (negb (has n (h_node s))); [rewrite st_of_raise; apply Sub_refl|].
  destruct (negb (mem n (getl e (h_edge s)))); [rewrite st_of_raise; apply Sub_refl|]. rewrite st_of_ok.
  assert (S1 : Sub s (node_rem n e (edge_rem e n s))) by (eapply Sub_trans; [apply edge_rem_Sub|apply node_rem_Sub]).
  destruct ((match getl e (h_edge (node_rem n e (edge_rem e n s))) with [] => true | _ => false end) && re);
    [eapply Sub_trans; [exact S1|apply drop_edge_Sub]|exact S1].
Qed.

Lemma clear_Sub rn s : Sub s (st_of (clear rn s)).
Proof. unfold clear. rewrite st_of_ok. split; intros x []. Qed.

Lemma clear_edges_Sub s : Sub s (st_of (clear_edges s)).
Proof.
  unfold clear_edges. rewrite st_of_ok. split; [|intros x []].
  unfold nkeys, keys. cbn [h_node]. rewrite map_map. cbn [fst]. apply incl_refl.
Qed.

Lemma lcc_Sub s : Sub s (st_of (largest_connected_inplace s)).
Proof.
  unfold largest_connected_inplace. destruct (first_longest (components s)); [apply remove_nodes_from_Sub|].
  rewrite st_of_raise. apply Sub_refl.
Qed.

(* ---------- swap and shuffle keep the key lists ---------- *)
Lemma double_edge_swap_NM n1 n2 e1 e2 s : NM s (st_of (double_edge_swap n1 n2 e1 e2 s)).
Proof.
  unfold double_edge_swap.
  destruct (get n1 (h_node s)) as [ms1|] eqn:G1; [|rewrite st_of_raise; apply NM_refl].
  destruct (get n2 (h_node s)) as [ms2|] eqn:G2; [|rewrite st_of_raise; apply NM_refl].
  destruct (get e1 (h_edge s)) as [m1|] eqn:G3; [|rewrite st_of_raise; apply NM_refl].
  destruct (get e2 (h_edge s)) as [m2|] eqn:G4; [|rewrite st_of_raise; apply NM_refl].
  repeat (match goal with |- NM s (st_of (if ?c then _ else _)) => destruct c; [rewrite st_of_raise; apply NM_refl|] end).
  rewrite st_of_ok. apply Sub_NM. apply keys_eq_Sub.
  - unfold nkeys. cbn [h_node with_edge with_node].
    rewrite keys_set_in; [apply keys_set_in; apply (get_Some_In _ _ _ G1)|].
    rewrite keys_set_in by apply (get_Some_In _ _ _ G1). apply (get_Some_In _ _ _ G2).
  - unfold ekeys. cbn [h_edge with_edge with_node].
    rewrite keys_set_in; [apply keys_set_in; apply (get_Some_In _ _ _ G3)|].
    rewrite keys_set_in by apply (get_Some_In _ _ _ G3). apply (get_Some_In _ _ _ G4).
Qed.

Lemma fold_move_keys a b l : forall s, (forall n, In n l -> In n (nkeys s)) ->
  nkeys (fold_left (fun s n => node_add n a (node_rem n b s)) l s) = nkeys s /\
  ekeys (fold_left (fun s n => node_add n a (node_rem n b s)) l s) = ekeys s.
Proof.
  induction l as [|n l IH]; intros s H; [split; reflexivity|]. cbn [fold_left].
  assert (K : nkeys (node_add n a (node_rem n b s)) = nkeys s) by (apply move1_nkeys; apply H; left; reflexivity).
  destruct (IH (node_add n a (node_rem n b s))) as [A B].
  { intros m Hm. rewrite K. apply H. right; exact Hm. }
  split; [rewrite A; exact K|]. rewrite B. unfold ekeys, node_add, node_rem. cbn [h_edge with_node].
  destruct (has n (h_node s)); reflexivity.
Qed.

Lemma random_edge_shuffle_NM e1 e2 sample s : Inv s -> NM s (st_of (random_edge_shuffle e1 e2 sample s)).
Proof.
  intro I. unfold random_edge_shuffle.
  destruct (length (h_edge s) <? 2)%nat; [rewrite st_of_raise; apply NM_refl|].
  destruct (get e1 (h_edge s)) as [m1|] eqn:G1; [|rewrite st_of_raise; apply NM_refl].
  destruct (get e2 (h_edge s)) as [m2|] eqn:G2; [|rewrite st_of_raise; apply NM_refl].
  cbv zeta. rewrite st_of_ok.
  set (both := sinter m1 m2).
  set (r1a := sdiff m1 both).
  set (r2 := if lbl_eqb e1 e2 then sdiff r1a both else sdiff m2 both).
  set (r1 := if lbl_eqb e1 e2 then r2 else r1a).
  set (e1n := mkset sample).
  set (e2n := sdiff (sunion r1 r2) e1n).
  assert (Hm1 : forall x, In x m1 -> In x (nkeys s)).
  { intros x Hx. apply (members_are_nodes s e1 x I). unfold mems, getl. rewrite G1. exact Hx. }
  assert (Hm2 : forall x, In x m2 -> In x (nkeys s)).
  { intros x Hx. apply (members_are_nodes s e2 x I). unfold mems, getl. rewrite G2. exact Hx. }
  assert (Hr1a : forall x, In x r1a -> In x (nkeys s)).
  { intros x Hx. apply Hm1. unfold r1a in Hx. apply In_sdiff in Hx. apply Hx. }
  assert (Hr2 : forall x, In x r2 -> In x (nkeys s)).
  { intros x Hx. unfold r2 in Hx. destruct (lbl_eqb e1 e2); apply In_sdiff in Hx; [apply Hr1a|apply Hm2]; apply Hx. }
  assert (Hr1 : forall x, In x r1 -> In x (nkeys s)).
  { intros x Hx. unfold r1 in Hx. destruct (lbl_eqb e1 e2); [apply Hr2|apply Hr1a]; exact Hx. }
  destruct (fold_move_keys e1 e2 (sinter e1n r2) s) as [A1 B1].
  { intros n Hn. apply In_sinter in Hn. apply Hr2. apply Hn. }
  set (s1 := fold_left (fun s n => node_add n e1 (node_rem n e2 s)) (sinter e1n r2) s) in *.
  destruct (fold_move_keys e2 e1 (sinter e2n r1) s1) as [A2 B2].
  { intros n Hn. apply In_sinter in Hn. rewrite A1. apply Hr1. apply Hn. }
  set (s2 := fold_left (fun s n => node_add n e2 (node_rem n e1 s)) (sinter e2n r1) s1) in *.
  apply Sub_NM. apply keys_eq_Sub.
  - unfold nkeys. cbn [h_node with_edge]. fold (nkeys s2). rewrite A2, A1. reflexivity.
  - unfold ekeys. cbn [h_edge with_edge].
    assert (K1 : In e1 (keys (h_edge s2))).
    { change (In e1 (ekeys s2)). rewrite B2, B1. apply (get_Some_In _ _ _ G1). }
    assert (K2 : In e2 (keys (h_edge s2))).
    { change (In e2 (ekeys s2)). rewrite B2, B1. apply (get_Some_In _ _ _ G2). }
    rewrite keys_set_in; [rewrite keys_set_in by exact K1; change (ekeys s2 = ekeys s); rewrite B2, B1; reflexivity|].
    rewrite keys_set_in by exact K1. exact K2.
Qed.

(* ---------- merge / update / cleanup / relabel ---------- *)
Lemma merged_edge_keys rn mr mult s ms ids :
  match merged_edge rn mr mult s ms ids with
  | inl (s', _) => nkeys s' = nkeys s /\ ekeys s' = ekeys s
  | inr (s', _) => nkeys s' = nkeys s /\ ekeys s' = ekeys s
  end.
Proof.
  unfold merged_edge. destruct rn; destruct (sort_lbls ids) as [[|f l]|]; destruct mr; cbn; auto.
Qed.

Lemma merge_collect_keys rn mr mult g : forall s dups ne,
  match merge_collect rn mr mult g s dups ne with
  | inl (s', _, _) => nkeys s' = nkeys s /\ ekeys s' = ekeys s
  | inr (s', _) => nkeys s' = nkeys s /\ ekeys s' = ekeys s
  end.
Proof.
  induction g as [|[ms ids] g IH]; intros s dups ne; cbn [merge_collect]; [auto|].
  destruct ids as [|i1 [|i2 ids]]; try apply IH.
  pose proof (merged_edge_keys rn mr mult s ms (i1 :: i2 :: ids)) as M.
  destruct (merged_edge rn mr mult s ms (i1 :: i2 :: ids)) as [[s' x]|[s' e]]; [|exact M].
  destruct M as [M1 M2]. specialize (IH s' (dups ++ i1 :: i2 :: ids) (ne ++ [x])).
  destruct (merge_collect rn mr mult g s' (dups ++ i1 :: i2 :: ids) (ne ++ [x])) as [[[s'' d] n]|[s'' e]];
    destruct IH as [A B]; split; congruence.
Qed.

Lemma merge_NM rn mr mult s : NM s (st_of (merge_duplicate_edges rn mr mult s)).
Proof.
  unfold merge_duplicate_edges.
  pose proof (merge_collect_keys rn mr mult (groups s) s [] []) as M.
  destruct (merge_collect rn mr mult (groups s) s [] []) as [[[s1 dups] ne]|[s1 e]].
  - destruct M as [M1 M2].
    assert (N0 : NM s s1) by (apply Sub_NM; apply keys_eq_Sub; assumption).
    apply (bind_rel NM (fun _ => True)); [exact NM_trans|exact I| |].
    + eapply NM_trans; [exact N0|apply Sub_NM; apply remove_edges_from_Sub].
    + intros s2 _. apply (bind_rel NM (fun _ => True)); [exact NM_trans|exact I| |].
      * destruct ne; [rewrite st_of_ok; apply NM_refl|apply add_edges_from_NM].
      * intros s3 _. destruct mr; apply NM_refl.
  - rewrite st_of_raise. destruct M as [M1 M2]. apply Sub_NM. apply keys_eq_Sub; assumption.
Qed.

Lemma update_NM edges nodes s : NM s (st_of (update edges nodes s)).
Proof.
  unfold update. apply (bind_rel NM (fun _ => True)); [exact NM_trans|exact I| |].
  - destruct nodes; [rewrite st_of_ok; apply NM_refl|apply add_nodes_from_NM].
  - intros s1 _. destruct edges; [apply add_edges_from_NM|rewrite st_of_ok; apply NM_refl].
Qed.

Lemma relabel_NoNone la s : NoNone (st_of (relabel_inplace la s)).
Proof.
  unfold relabel_inplace. cbv zeta.
  set (s0 := mkHG [] [] [] [] (h_net s) (h_uid s)).
  assert (N0 : NoNone s0) by (split; intros []).
  apply (NoNone_NM s0); [exact N0|].
  apply (bind_rel NM (fun _ => True)); [exact NM_trans|exact I|apply add_nodes_from_NM|].
  intros s1 _. apply (bind_rel NM (fun _ => True)); [exact NM_trans|exact I| |].
  - apply Same_NM. apply set_node_attrs_dict_same.
  - intros s2 _. apply (bind_rel NM (fun _ => True)); [exact NM_trans|exact I| |].
    + destruct (keys (h_edge s)); [rewrite st_of_ok; apply NM_refl|apply add_edges_from_NM].
    + intros s3 _. apply Same_NM. apply set_edge_attrs_dict_same.
Qed.

Lemma cleanup_NoNone iso sing multi conn relabel s : NoNone s -> NoNone (st_of (cleanup iso sing multi conn relabel s)).
Proof.
  intro N. unfold cleanup.
  (* thread NoNone through the binds *)
  assert (B : forall r k, NoNone (st_of r) -> (forall s1, NoNone s1 -> NoNone (st_of (k s1))) -> NoNone (st_of (bind r k))).
  { intros r k N1 Hk. destruct r as [[s1 o] w]. unfold bind, st_of in *. cbn [fst] in *.
    destruct o; [|exact N1]. specialize (Hk s1 N1). destruct (k s1) as [[s2 o2] w2]. exact Hk. }
  apply B.
  - destruct multi; [rewrite st_of_ok; exact N|]. apply (NoNone_NM s); [exact N|apply merge_NM].
  - intros s1 N1. apply B.
    + destruct sing; [rewrite st_of_ok; exact N1|]. apply (NoNone_NM s1); [exact N1|apply Sub_NM; apply remove_edges_from_Sub].
    + intros s2 N2. apply B.
      * destruct iso; [rewrite st_of_ok; exact N2|]. apply (NoNone_NM s2); [exact N2|apply Sub_NM; apply remove_nodes_from_Sub].
      * intros s3 N3. apply B.
        -- destruct (conn && negb (match h_node s3 with [] => true | _ => false end));
             [apply (NoNone_NM s3); [exact N3|apply Sub_NM; apply lcc_Sub]|rewrite st_of_ok; exact N3].
        -- intros s4 N4. destruct relabel; [apply relabel_NoNone|rewrite st_of_ok; exact N4].
Qed.

(* ---------- every op ---------- *)
Theorem step_NoNone s o : op_admissible s o -> op_expressible o -> Inv s -> NoNone s -> NoNone (st_of (step s o)).
Proof.
  intros A E I N. destruct o; cbn [step].
  - apply (NoNone_NM s); [exact N|apply add_node_NM].
  - apply (NoNone_NM s); [exact N|apply add_nodes_from_NM].
  - apply (NoNone_NM s); [exact N|apply Sub_NM; apply remove_node_Sub].
  - apply (NoNone_NM s); [exact N|apply Sub_NM; apply remove_nodes_from_Sub].
  - apply (NoNone_NM s); [exact N|apply Same_NM; apply set_node_attrs_named_same].
  - apply (NoNone_NM s); [exact N|apply Same_NM; apply set_node_attrs_scalar_same].
  - apply (NoNone_NM s); [exact N|apply Same_NM; apply set_node_attrs_dict_same].
  - apply (NoNone_NM s); [exact N|apply add_edge_NM]. destruct idx; [exact E|constructor].
  - apply (NoNone_NM s); [exact N|apply add_edges_from_NM].
  - apply (NoNone_NM s); [exact N|unfold add_weighted_edges_from; apply add_edges_from_NM].
  - apply (NoNone_NM s); [exact N|apply Same_NM; apply set_edge_attrs_named_same].
  - apply (NoNone_NM s); [exact N|apply Same_NM; apply set_edge_attrs_scalar_same].
  - apply (NoNone_NM s); [exact N|apply Same_NM; apply set_edge_attrs_dict_same].
  - apply (NoNone_NM s); [exact N|apply double_edge_swap_NM].
  - apply (NoNone_NM s); [exact N|apply random_edge_shuffle_NM; exact I].
  - apply (NoNone_NM s); [exact N|apply add_node_to_edge_NM].
  - apply (NoNone_NM s); [exact N|apply Sub_NM; apply remove_edge1_Sub].
  - apply (NoNone_NM s); [exact N|apply Sub_NM; apply remove_edges_from_Sub].
  - apply (NoNone_NM s); [exact N|apply Sub_NM; apply remove_node_from_edge_Sub].
  - apply (NoNone_NM s); [exact N|apply update_NM].
  - apply (NoNone_NM s); [exact N|apply Sub_NM; apply clear_Sub].
  - apply (NoNone_NM s); [exact N|apply Sub_NM; apply clear_edges_Sub].
  - apply (NoNone_NM s); [exact N|apply merge_NM].
  - apply cleanup_NoNone. exact N.
  - apply relabel_NoNone.
  - apply (NoNone_NM s); [exact N|apply Sub_NM; apply lcc_Sub].
  - rewrite st_of_ok. exact N.
Qed.

Fixpoint expressible_history (ops : list op) : Prop :=
  match ops with [] => True | o :: r => op_expressible o /\ expressible_history r end.

Theorem run_NoNone ops : forall s, admissible_history s ops -> expressible_history ops -> Inv s -> NoNone s ->
  Inv (run ops s) /\ NoNone (run ops s).
Proof.
  induction ops as [|o r IH]; intros s A E I N; cbn [run fold_left]; [split; assumption|].
  destruct A as [A1 A2]. destruct E as [E1 E2].
  apply IH; [exact A2|exact E2|apply step_Inv; assumption|apply step_NoNone; assumption].
Qed.

Lemma NoNone_empty : NoNone hg_empty.
Proof. split; intros []. Qed.
