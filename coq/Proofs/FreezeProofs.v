(* C18: with every table-writing method replaced, no op changes the structure; with no method
   replaced, the dispatching step function is the ordinary one. *)
From Coq Require Import String ZArith List Bool Lia.
From XV Require Import Base.Label Base.LSet Base.ODict Base.Attr Base.Outcome Model.Hypergraph
  Model.DiHypergraph Model.SimplicialComplex Model.Freeze Proofs.HgViews Proofs.HgInv Proofs.HgInvOps
  Proofs.HgKeys.
Import ListNotations.
Open Scope Z_scope.

(* ---------- L = [] ---------- *)

Lemma guard_nil m s body : guard [] m s body = body. Proof. reflexivity. Qed.
Lemma dguard_nil m d body : dguard [] m d body = body. Proof. reflexivity. Qed.

Theorem fstep_nil s o : fstep [] s o = step s o.
Proof.
  destruct o; simpl; try reflexivity.
  - destruct nodes; destruct edges as [[[|x l]|[|x l]|[|x l]|[|x l]|[|x l]]|]; reflexivity.
Qed.

Theorem dfstep_nil d o : dfstep [] d o = dstep d o.
Proof. destruct o; reflexivity. Qed.

Theorem sfstep_nil s o : sfstep [] s o = sstep s o.
Proof. destruct o; simpl; try reflexivity. destruct (h_edge s); reflexivity. Qed.

(* ---------- every required method is replaced ---------- *)

Lemma protects_in req L m : protects req L = true -> In m req -> inL L m = true.
Proof. unfold protects. rewrite forallb_forall. auto. Qed.

Definition Same (s s' : hg) : Prop := h_node s' = h_node s /\ h_edge s' = h_edge s.

Lemma Same_refl s : Same s s. Proof. split; reflexivity. Qed.
Lemma Same_trans a b c : Same a b -> Same b c -> Same a c.
Proof. intros [A1 A2] [B1 B2]. split; congruence. Qed.

Lemma guard_blocked L m s body : inL L m = true -> guard L m s body = (s, Raised XGIError, O).
Proof. intro H. unfold guard. rewrite H. reflexivity. Qed.

Lemma bind_Same s r k : Same s (st_of r) -> (forall s', Same s s' -> Same s (st_of (k s'))) -> Same s (st_of (bind r k)).
Proof.
  intros Hr Hk. destruct r as [[s1 o] w]. unfold st_of in *; simpl in *. destruct o; [|exact Hr].
  specialize (Hk s1 Hr). destruct (k s1) as [[s2 o2] w2]. exact Hk.
Qed.

Lemma merged_edge_tables rn mr mult s ms ids :
  match merged_edge rn mr mult s ms ids with
  | inl (s', _) => Same s s'
  | inr (s', _) => Same s s'
  end.
Proof.
  unfold merged_edge. destruct rn; destruct (sort_lbls ids) as [[|f l]|]; destruct mr; simpl; split; reflexivity.
Qed.

Lemma merge_collect_tables rn mr mult g : forall s dups ne,
  match merge_collect rn mr mult g s dups ne with
  | inl (s', _, _) => Same s s'
  | inr (s', _) => Same s s'
  end.
Proof.
  induction g as [|[ms ids] r IH]; intros s dups ne; simpl; [apply Same_refl|].
  destruct ids as [|i1 [|i2 ids']]; try apply IH.
  pose proof (merged_edge_tables rn mr mult s ms (i1 :: i2 :: ids')) as H.
  destruct (merged_edge rn mr mult s ms (i1 :: i2 :: ids')) as [[s' ne']|[s' e]]; [|exact H].
  specialize (IH s' (dups ++ i1 :: i2 :: ids') (ne ++ [ne'])).
  destruct (merge_collect rn mr mult r s' _ _) as [[[s2 d2] n2]|[s2 e2]]; eapply Same_trans; eassumption.
Qed.

Lemma SameStruct_Same s s' : SameStruct s s' -> Same s s'.
Proof. intros (A & B & _). split; assumption. Qed.

Ltac blocked H m := rewrite (guard_blocked _ m _ _ (protects_in _ _ m H ltac:(simpl; tauto))).

Lemma fmerge_Same L rn mr mult s : protects required_hg L = true -> Same s (st_of (fmerge L rn mr mult s)).
Proof.
  intro P. unfold fmerge. pose proof (merge_collect_tables rn mr mult (groups s) s [] []) as H.
  destruct (merge_collect rn mr mult (groups s) s [] []) as [[[s1 dups] ne]|[s' e]]; [|exact H].
  blocked P "remove_edges_from"%string. exact H.
Qed.

Lemma flcc_Same L s : protects required_hg L = true -> Same s (st_of (flcc L s)).
Proof.
  intro P. unfold flcc. destruct (first_longest (components s)); [|apply Same_refl].
  blocked P "remove_nodes_from"%string. apply Same_refl.
Qed.

(* a frozen Hypergraph: whatever is called, nodes, edges and memberships stay as they are *)
Theorem frozen_hg_unchanged L s o :
  protects required_hg L = true -> Same s (st_of (fstep L s o)).
Proof.
  intro P. destruct o; simpl fstep;
    try (match goal with |- context [guard L ?m _ _] => blocked P m end; apply Same_refl).
  - apply SameStruct_Same. apply set_node_attrs_named_same.
  - apply SameStruct_Same. apply set_node_attrs_scalar_same.
  - apply SameStruct_Same. apply set_node_attrs_dict_same.
  - apply SameStruct_Same. apply set_edge_attrs_named_same.
  - apply SameStruct_Same. apply set_edge_attrs_scalar_same.
  - apply SameStruct_Same. apply set_edge_attrs_dict_same.
  - (* update *)
    apply bind_Same.
    + destruct nodes; [apply Same_refl|]. blocked P "add_nodes_from"%string. apply Same_refl.
    + intros s' Hs'. destruct edges as [eb|]; [|exact Hs'].
      destruct eb as [[|x l]|[|x l]|[|x l]|[|x l]|[|x l]]; simpl; try exact Hs';
        (blocked P "add_edges_from"%string; exact Hs').
  - apply fmerge_Same. exact P.
  - (* cleanup *)
    apply bind_Same; [destruct multi; [apply Same_refl|apply fmerge_Same; exact P]|].
    intros s1 H1. apply bind_Same.
    { destruct sing; [exact H1|]. blocked P "remove_edges_from"%string. exact H1. }
    intros s2 H2. apply bind_Same.
    { destruct iso; [exact H2|]. blocked P "remove_nodes_from"%string. exact H2. }
    intros s3 H3. apply bind_Same.
    { destruct (conn && negb (match h_node s3 with [] => true | _ => false end)); [|exact H3]. eapply Same_trans; [exact H3|apply flcc_Same; exact P]. }
    intros s4 H4. destruct relabel; [|exact H4]. blocked P "clear"%string. exact H4.
  - apply flcc_Same. exact P.
  - split; reflexivity.
Qed.

(* the methods that write the tables directly are refused with the library's error and leave
   the whole state (attributes and counter included) untouched *)
Definition direct_mutator (o : op) : bool :=
  match o with
  | OAddNode _ _ | OAddNodesFrom _ _ | ORemoveNode _ _ _ | ORemoveNodesFrom _ _ _ | OAddEdge _ _ _
  | OAddEdgesFrom _ _ | OAddWeightedEdgesFrom _ _ _ | ODoubleEdgeSwap _ _ _ _ | ORandomEdgeShuffle _ _ _
  | OAddNodeToEdge _ _ | ORemoveEdge _ | ORemoveEdgesFrom _ | ORemoveNodeFromEdge _ _ _ | OClear _
  | OClearEdges | ORelabel _ => true
  | _ => false
  end.

Theorem frozen_hg_blocks L s o :
  protects required_hg L = true -> direct_mutator o = true -> fstep L s o = (s, Raised XGIError, O).
Proof.
  intros P D. destruct o; simpl in D; try discriminate; simpl fstep;
    match goal with |- context [guard L ?m _ _] => blocked P m end; reflexivity.
Qed.

(* ---------- DiHypergraph ---------- *)

Definition DSame (d d' : dhg) : Prop := Same (ts d) (ts d') /\ Same (hs d) (hs d').
Lemma DSame_refl d : DSame d d. Proof. split; apply Same_refl. Qed.

Lemma dguard_blocked L m d body : inL L m = true -> dguard L m d body = (d, Raised XGIError, O).
Proof. intro H. unfold dguard. rewrite H. reflexivity. Qed.

Ltac dblocked H m := rewrite (dguard_blocked _ m _ _ (protects_in _ _ m H ltac:(simpl; tauto))).

Lemma lift_ts_DSame (f : hg -> res) d : (forall s, SameStruct s (st_of (f s))) -> DSame d (dst_of (lift_ts f d)).
Proof.
  intro H. unfold lift_ts. specialize (H (ts d)). destruct (f (ts d)) as [[s' o] w].
  unfold st_of, dst_of in *; simpl in *. split; [apply SameStruct_Same; exact H|apply Same_refl].
Qed.

Theorem frozen_di_unchanged L d o :
  protects required_di L = true -> DSame d (dst_of (dfstep L d o)).
Proof.
  intro P. destruct o; simpl dfstep;
    try (match goal with |- context [dguard L ?m _ _] => dblocked P m end; apply DSame_refl).
  - apply lift_ts_DSame. intro; apply set_node_attrs_named_same.
  - apply lift_ts_DSame. intro; apply set_node_attrs_scalar_same.
  - apply lift_ts_DSame. intro; apply set_node_attrs_dict_same.
  - apply lift_ts_DSame. intro; apply set_edge_attrs_named_same.
  - apply lift_ts_DSame. intro; apply set_edge_attrs_scalar_same.
  - apply lift_ts_DSame. intro; apply set_edge_attrs_dict_same.
  - (* cleanup *)
    destruct iso; simpl.
    + destruct relabel; [dblocked P "clear"%string|]; apply DSame_refl.
    + dblocked P "remove_nodes_from"%string. apply DSame_refl.
  - split; split; reflexivity.
Qed.

(* ---------- SimplicialComplex ---------- *)

Lemma st_of_warn_more' r : st_of (warn_more r) = st_of r. Proof. destruct r as [[s o] w]. reflexivity. Qed.

Theorem frozen_sc_unchanged L s o :
  protects required_sc L = true -> Same s (st_of (sfstep L s o)).
Proof.
  intro P. destruct o; simpl sfstep; rewrite ?st_of_warn_more';
    try (match goal with |- context [guard L ?m _ _] => blocked P m end; apply Same_refl).
  - (* close *)
    destruct (h_edge s) eqn:E.
    + unfold close, vals. rewrite E. apply Same_refl.
    + blocked P "add_simplices_from"%string. apply Same_refl.
  - (* cleanup *)
    apply bind_Same.
    { destruct iso; [apply Same_refl|]. blocked P "remove_nodes_from"%string. apply Same_refl. }
    intros s1 H1. apply bind_Same.
    { destruct (conn && negb (match h_node s1 with [] => true | _ => false end)); [|exact H1]. destruct (first_longest (components s1)); [|exact H1].
      blocked P "remove_nodes_from"%string. exact H1. }
    intros s2 H2. destruct relabel; [|exact H2]. blocked P "clear"%string. exact H2.
  - apply SameStruct_Same. apply set_node_attrs_dict_same.
  - apply SameStruct_Same. apply set_edge_attrs_dict_same.
Qed.
